import Canopy.Model.Committee
import Canopy.Gen.Committee
/-! Helper lemmas for C13: order properties of the comparator, sorted-permutation uniqueness. -/
namespace Canopy.Committee
open Canopy

theorem bytesLe_refl (a : Bytes) : bytesLe a a = true := by
  induction a with
  | nil => rfl
  | cons x xs ih => simp [bytesLe, ih]

theorem bytesLe_total (a b : Bytes) : bytesLe a b = true ∨ bytesLe b a = true := by
  induction a generalizing b with
  | nil => left; rfl
  | cons x xs ih =>
    cases b with
    | nil => right; rfl
    | cons y ys =>
      simp only [bytesLe]
      by_cases h1 : x < y
      · simp [h1]
      · by_cases h2 : y < x
        · simp [h1, h2]
        · simp only [h1, h2, ↓reduceIte]
          exact ih ys

theorem bytesLe_antisymm (a b : Bytes) (h1 : bytesLe a b = true) (h2 : bytesLe b a = true) : a = b := by
  induction a generalizing b with
  | nil => cases b with
    | nil => rfl
    | cons y ys => simp [bytesLe] at h2
  | cons x xs ih =>
    cases b with
    | nil => simp [bytesLe] at h1
    | cons y ys =>
      simp only [bytesLe] at h1 h2
      by_cases hxy : x < y
      · have : ¬ y < x := by
          rw [UInt8.lt_iff_toNat_lt] at *; omega
        simp [hxy, this] at h2
      · by_cases hyx : y < x
        · simp [hxy, hyx] at h1
        · simp only [hxy, hyx, ↓reduceIte] at h1 h2
          have hx : x = y := by
            apply UInt8.toNat_inj.mp
            rw [UInt8.lt_iff_toNat_lt] at hxy hyx; omega
          rw [hx, ih ys h1 h2]

theorem bytesLe_trans (a b c : Bytes) (h1 : bytesLe a b = true) (h2 : bytesLe b c = true) :
    bytesLe a c = true := by
  induction a generalizing b c with
  | nil => rfl
  | cons x xs ih =>
    cases b with
    | nil => simp [bytesLe] at h1
    | cons y ys =>
      cases c with
      | nil => simp [bytesLe] at h2
      | cons z zs =>
        simp only [bytesLe] at h1 h2 ⊢
        by_cases hxy : x < y
        · by_cases hyz : y < z
          · have : x < z := by rw [UInt8.lt_iff_toNat_lt] at *; omega
            simp [this]
          · by_cases hzy : z < y
            · simp [hyz, hzy] at h2
            · have : x < z := by rw [UInt8.lt_iff_toNat_lt] at *; omega
              simp [this]
        · by_cases hyx : y < x
          · simp [hxy, hyx] at h1
          · simp only [hxy, hyx, ↓reduceIte] at h1
            by_cases hyz : y < z
            · have : x < z := by rw [UInt8.lt_iff_toNat_lt] at *; omega
              simp [this]
            · by_cases hzy : z < y
              · simp [hyz, hzy] at h2
              · simp only [hyz, hzy, ↓reduceIte] at h2
                have h3 : ¬ x < z := by rw [UInt8.lt_iff_toNat_lt] at *; omega
                have h4 : ¬ z < x := by rw [UInt8.lt_iff_toNat_lt] at *; omega
                simp only [h3, h4, ↓reduceIte]
                exact ih ys zs h1 h2

theorem before_total (a b : Val) : (before a b || before b a) = true := by
  simp only [before, Bool.or_eq_true]
  by_cases h1 : b.stake < a.stake
  · simp [h1]
  · by_cases h2 : a.stake < b.stake
    · simp [h1, h2]
    · simp only [h1, h2, ↓reduceIte]
      exact (bytesLe_total b.address a.address)

theorem before_trans (a b c : Val) (h1 : before a b = true) (h2 : before b c = true) :
    before a c = true := by
  simp only [before] at *
  by_cases hba : b.stake < a.stake
  · by_cases hcb : c.stake < b.stake
    · have : c.stake < a.stake := by rw [UInt64.lt_iff_toNat_lt] at *; omega
      simp [this]
    · by_cases hbc : b.stake < c.stake
      · simp [hcb, hbc] at h2
      · have : c.stake < a.stake := by rw [UInt64.lt_iff_toNat_lt] at *; omega
        simp [this]
  · by_cases hab : a.stake < b.stake
    · simp [hba, hab] at h1
    · simp only [hba, hab, ↓reduceIte] at h1
      by_cases hcb : c.stake < b.stake
      · have : c.stake < a.stake := by rw [UInt64.lt_iff_toNat_lt] at *; omega
        simp [this]
      · by_cases hbc : b.stake < c.stake
        · simp [hcb, hbc] at h2
        · simp only [hcb, hbc, ↓reduceIte] at h2
          have h3 : ¬ c.stake < a.stake := by rw [UInt64.lt_iff_toNat_lt] at *; omega
          have h4 : ¬ a.stake < c.stake := by rw [UInt64.lt_iff_toNat_lt] at *; omega
          simp only [h3, h4, ↓reduceIte]
          exact bytesLe_trans _ _ _ h2 h1

/-- ties only between records with the same stake and the same address -/
theorem before_antisymm (a b : Val) (h1 : before a b = true) (h2 : before b a = true) :
    a.stake = b.stake ∧ a.address = b.address := by
  simp only [before] at *
  by_cases hba : b.stake < a.stake
  · have : ¬ a.stake < b.stake := by rw [UInt64.lt_iff_toNat_lt] at *; omega
    simp [hba, this] at h2
  · by_cases hab : a.stake < b.stake
    · simp [hba, hab] at h1
    · simp only [hba, hab, ↓reduceIte] at h1 h2
      refine ⟨?_, bytesLe_antisymm _ _ h2 h1⟩
      apply UInt64.toNat_inj.mp
      rw [UInt64.lt_iff_toNat_lt] at hba hab; omega

end Canopy.Committee
