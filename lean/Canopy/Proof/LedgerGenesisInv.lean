import Canopy.Proof.LedgerEndBlockInv
/-! C12: an accepted genesis satisfies `InvStaking`. -/
namespace Canopy.Ledger
open AMap

set_option linter.unusedSimpArgs false
set_option linter.unusedVariables false

/-- a fresh validator record, possibly with an unstaking or a paused marker of its own -/
theorem markers_fresh_status {L L' : Ledger} {a : Addr} {v : Validator} (hm : Markers L) (hg : valGet? L a = none)
    (hget : ∀ b, valGet? L' b = if a = b then some v else valGet? L b)
    (hu : ∀ k, KSet.has L'.unstaking k = true ↔ ((v.unstakingHeight ≠ 0 ∧ k = (v.unstakingHeight, a)) ∨ KSet.has L.unstaking k = true))
    (hp : ∀ k, KSet.has L'.paused k = true ↔ ((v.maxPausedHeight ≠ 0 ∧ k = (v.maxPausedHeight, a)) ∨ KSet.has L.paused k = true))
    (hx : v.unstakingHeight ≠ 0 → v.maxPausedHeight = 0) : Markers L' := by
  refine ⟨?_, ?_, ?_⟩
  · intro h b
    rw [hu, hget]
    constructor
    · rintro (⟨hne, e⟩ | e)
      · simp only [Prod.mk.injEq] at e; obtain ⟨rfl, rfl⟩ := e
        exact ⟨v, by simp, rfl, hne⟩
      · obtain ⟨vb, hvb, he, hne⟩ := (hm.unstaking h b).1 e
        have hab : a ≠ b := by intro e'; subst e'; rw [hg] at hvb; cases hvb
        exact ⟨vb, by simp [hab, hvb], he, hne⟩
    · rintro ⟨vb, hvb, he, hne⟩
      by_cases hab : a = b
      · subst hab; simp only [if_true, Option.some.injEq] at hvb; subst hvb
        exact Or.inl ⟨by rw [he]; exact hne, by rw [he]⟩
      · simp only [hab, if_false] at hvb; exact Or.inr ((hm.unstaking h b).2 ⟨vb, hvb, he, hne⟩)
  · intro h b
    rw [hp, hget]
    constructor
    · rintro (⟨hne, e⟩ | e)
      · simp only [Prod.mk.injEq] at e; obtain ⟨rfl, rfl⟩ := e
        exact ⟨v, by simp, rfl, hne⟩
      · obtain ⟨vb, hvb, he, hne⟩ := (hm.paused h b).1 e
        have hab : a ≠ b := by intro e'; subst e'; rw [hg] at hvb; cases hvb
        exact ⟨vb, by simp [hab, hvb], he, hne⟩
    · rintro ⟨vb, hvb, he, hne⟩
      by_cases hab : a = b
      · subst hab; simp only [if_true, Option.some.injEq] at hvb; subst hvb
        exact Or.inl ⟨by rw [he]; exact hne, by rw [he]⟩
      · simp only [hab, if_false] at hvb; exact Or.inr ((hm.paused h b).2 ⟨vb, hvb, he, hne⟩)
  · intro b vb hvb hne
    rw [hget] at hvb
    by_cases hab : a = b
    · subst hab; simp only [if_true, Option.some.injEq] at hvb; subst hvb; exact hx hne
    · simp only [hab, if_false] at hvb; exact hm.exclusive b vb hvb hne

theorem sumBy_set_set_fresh {f : Validator → Nat} {m : List (Addr × Validator)} {a : Addr} {x v : Validator}
    (hg : find? m a = none) (hf : f x = f v) : sumBy f (AMap.set (AMap.set m a x) a v) = sumBy f m + f v := by
  have h1 := sumBy_set f m a x
  have h2 := sumBy_set f (AMap.set m a x) a v
  rw [hg] at h1; rw [find?_set_self] at h2
  simp only [ow_none, ow_some] at h1 h2; omega

theorem sumBy_set_fresh {f : Validator → Nat} {m : List (Addr × Validator)} {a : Addr} {v : Validator}
    (hg : find? m a = none) : sumBy f (AMap.set m a v) = sumBy f m + f v := by
  have h1 := sumBy_set f m a v
  rw [hg] at h1; simp only [ow_none] at h1; omega

/-- what the marker step and the record write of `SetValidators` leave behind for a fresh address -/
theorem genesisValidator_core {L : Ledger} {a : Addr} {v : Validator} (hm : Markers L) (hw : WFm L) (hg : valGet? L a = none) :
    let L1 := if v.unstakingHeight ≠ 0 then setValidatorUnstaking L a v v.unstakingHeight
      else if v.maxPausedHeight ≠ 0 then setValidatorPaused L a v v.maxPausedHeight else L
    let v1 : Validator := if v.unstakingHeight ≠ 0 then { v with maxPausedHeight := 0 } else v
    ∀ X : Ledger, X.validators = L1.validators → X.unstaking = L1.unstaking → X.paused = L1.paused →
      Markers (valPut X a v1) ∧ WFm (valPut X a v1) ∧
      (∀ f : Validator → Nat, (∀ y : Validator, y.stake = v.stake → y.delegate = v.delegate → y.committees = v.committees → f y = f v) →
        sumBy f (valPut X a v1).validators = sumBy f L.validators + f v) := by
  intro L1 v1 X hxv hxu hxp
  have hgf : find? L.validators a = none := hg
  have nopaused : ∀ h, KSet.has L.paused (h, a) = false := by
    intro h
    cases hd : KSet.has L.paused (h, a) with
    | false => rfl
    | true => obtain ⟨vb, hvb, _, _⟩ := (hm.paused h a).1 hd; rw [hg] at hvb; cases hvb
  by_cases hu : v.unstakingHeight ≠ 0
  · have e1 : L1 = setValidatorUnstaking L a v v.unstakingHeight := if_pos hu
    have ev : v1 = { v with maxPausedHeight := 0 } := if_pos hu
    have hvv : X.validators = AMap.set L.validators a { v with maxPausedHeight := 0, unstakingHeight := v.unstakingHeight } := by
      rw [hxv, e1, setValidatorUnstaking_validators]
    have hun : X.unstaking = KSet.add L.unstaking (v.unstakingHeight, a) := by
      rw [hxu, e1]; unfold setValidatorUnstaking valPut; split <;> rfl
    have hpa : X.paused = if v.maxPausedHeight ≠ 0 then KSet.del L.paused (v.maxPausedHeight, a) else L.paused := by
      rw [hxp, e1]; unfold setValidatorUnstaking valPut; split <;> rfl
    refine ⟨?_, ⟨?_, ?_, ?_⟩, ?_⟩
    · refine markers_fresh_status (L' := valPut X a v1) (v := v1) hm hg ?_ ?_ ?_ ?_
      · intro b; unfold valGet?
        show find? (AMap.set X.validators a v1) b = _
        rw [find?_set, hvv]
        by_cases hab : a = b
        · simp [hab]
        · simp only [hab, if_false]; rw [find?_set_ne _ _ hab]
      · intro k
        show KSet.has X.unstaking k = true ↔ _
        rw [hun, has_add, ev]
        constructor
        · rintro (e | e)
          · exact Or.inl ⟨hu, e.symm⟩
          · exact Or.inr e
        · rintro (⟨_, e⟩ | e)
          · exact Or.inl e.symm
          · exact Or.inr e
      · intro k
        show KSet.has X.paused k = true ↔ _
        rw [hpa, ev]
        simp only [ne_eq, not_true_eq_false, false_and, false_or]
        split
        · rw [has_del_absent _ _ _ (nopaused _)]
        · exact Iff.rfl
      · intro _; rw [ev]
    · show NodupKeys (AMap.set X.validators a v1); rw [hvv]; exact nodup_set _ _ _ (nodup_set _ _ _ hw.validators)
    · show NodupKeys X.unstaking; rw [hun]; exact nodup_set _ _ _ hw.unstaking
    · show NodupKeys X.paused; rw [hpa]; split
      · exact nodup_erase _ _ hw.paused
      · exact hw.paused
    · intro f hf
      show sumBy f (AMap.set X.validators a v1) = _
      rw [hvv, ev]
      rw [sumBy_set_set_fresh hgf rfl]
      have := hf { v with maxPausedHeight := 0 } rfl rfl rfl
      rw [this]
  · have hu0 : v.unstakingHeight = 0 := by simpa using hu
    have ev : v1 = v := if_neg hu
    by_cases hp : v.maxPausedHeight ≠ 0
    · have e1 : L1 = setValidatorPaused L a v v.maxPausedHeight := (if_neg hu).trans (if_pos hp)
      have hvv : X.validators = AMap.set L.validators a { v with maxPausedHeight := v.maxPausedHeight } := by rw [hxv, e1]; rfl
      have hun : X.unstaking = L.unstaking := by rw [hxu, e1]; rfl
      have hpa : X.paused = KSet.add L.paused (v.maxPausedHeight, a) := by rw [hxp, e1]; rfl
      refine ⟨?_, ⟨?_, ?_, ?_⟩, ?_⟩
      · refine markers_fresh_status (L' := valPut X a v1) (v := v1) hm hg ?_ ?_ ?_ ?_
        · intro b; unfold valGet?
          show find? (AMap.set X.validators a v1) b = _
          rw [find?_set, hvv]
          by_cases hab : a = b
          · simp [hab]
          · simp only [hab, if_false]; rw [find?_set_ne _ _ hab]
        · intro k
          show KSet.has X.unstaking k = true ↔ _
          rw [hun, ev]; simp [hu0]
        · intro k
          show KSet.has X.paused k = true ↔ _
          rw [hpa, has_add, ev]
          constructor
          · rintro (e | e)
            · exact Or.inl ⟨hp, e.symm⟩
            · exact Or.inr e
          · rintro (⟨_, e⟩ | e)
            · exact Or.inl e.symm
            · exact Or.inr e
        · intro h; rw [ev] at h; exact absurd hu0 h
      · show NodupKeys (AMap.set X.validators a v1); rw [hvv]; exact nodup_set _ _ _ (nodup_set _ _ _ hw.validators)
      · show NodupKeys X.unstaking; rw [hun]; exact hw.unstaking
      · show NodupKeys X.paused; rw [hpa]; exact nodup_set _ _ _ hw.paused
      · intro f hf
        show sumBy f (AMap.set X.validators a v1) = _
        rw [hvv, ev, sumBy_set_set_fresh hgf (hf _ rfl rfl rfl)]
    · have hp0 : v.maxPausedHeight = 0 := by simpa using hp
      have e1 : L1 = L := (if_neg hu).trans (if_neg hp)
      rw [e1] at hxv hxu hxp
      refine ⟨?_, ⟨?_, ?_, ?_⟩, ?_⟩
      · refine markers_fresh_status (L' := valPut X a v1) (v := v1) hm hg ?_ ?_ ?_ ?_
        · intro b; unfold valGet?
          show find? (AMap.set X.validators a v1) b = _
          rw [find?_set, hxv]
        · intro k
          show KSet.has X.unstaking k = true ↔ _
          rw [hxu, ev]; simp [hu0]
        · intro k
          show KSet.has X.paused k = true ↔ _
          rw [hxp, ev]; simp [hp0]
        · intro h; rw [ev] at h; exact absurd hu0 h
      · show NodupKeys (AMap.set X.validators a v1); rw [hxv]; exact nodup_set _ _ _ hw.validators
      · show NodupKeys X.unstaking; rw [hxu]; exact hw.unstaking
      · show NodupKeys X.paused; rw [hxp]; exact hw.paused
      · intro f hf
        show sumBy f (AMap.set X.validators a v1) = _
        rw [hxv, ev, sumBy_set_fresh hgf]

end Canopy.Ledger

namespace Canopy.Ledger
open AMap
set_option linter.unusedSimpArgs false
set_option linter.unusedVariables false

theorem genesisMarker_supply (L : Ledger) (a : Addr) (v : Validator) :
    (if v.unstakingHeight ≠ 0 then setValidatorUnstaking L a v v.unstakingHeight
      else if v.maxPausedHeight ≠ 0 then setValidatorPaused L a v v.maxPausedHeight else L).supply = L.supply := by
  split
  · exact (setValidatorUnstaking_money ..).supply
  · split <;> rfl

/-- `SetValidators` for one fresh validator keeps `InvStaking` -/
theorem genesisValidator_inv {L L' : Ledger} {g : GenesisValidator} (hs : InvStaking L) (hf : g.addr ∉ L.validators.map (·.1))
    (h : genesisValidator L g = .ok L') : InvStaking L' := by
  have hnone : valGet? L g.addr = none := find?_eq_none_of_not_mem _ _ hf
  have t := hs.tallies
  unfold genesisValidator at h
  dsimp only at h
  split at h
  · exact absurd h (by intro h; cases h)
  · split at h
    · exact absurd h (by intro h; cases h)
    · have hsup := genesisMarker_supply L g.addr g.val
      have core := genesisValidator_core (v := g.val) hs.markers hs.wfm hnone
      dsimp only at core
      generalize (if g.val.unstakingHeight ≠ 0 then setValidatorUnstaking L g.addr g.val g.val.unstakingHeight
        else if g.val.maxPausedHeight ≠ 0 then setValidatorPaused L g.addr g.val g.val.maxPausedHeight else L) = L1 at h hsup core
      generalize (if g.val.unstakingHeight ≠ 0 then ({ g.val with maxPausedHeight := 0 } : Validator) else g.val) = v1 at h core
      obtain ⟨m3, w3, sums⟩ := core
        { L1 with supply := { L1.supply with total := L1.supply.total + g.val.stake, staked := L1.supply.staked + g.val.stake } } rfl rfl rfl
      have q1 := sums (fun y => y.stake) (fun y h1 _ _ => h1)
      have q2 := sums (fun y => if y.delegate then y.stake else 0) (fun y h1 h2 _ => by simp only [h1, h2])
      have q3 := fun c => sums (fun y => y.stake * y.committees.count c) (fun y h1 _ h3 => by simp only [h1, h3])
      have q4 := fun c => sums (fun y => if y.delegate then y.stake * y.committees.count c else 0) (fun y h1 h2 h3 => by simp only [h1, h2, h3])
      have fin : ∀ Lf : Ledger, Lf.validators = (valPut { L1 with supply := { L1.supply with total := L1.supply.total + g.val.stake, staked := L1.supply.staked + g.val.stake } } g.addr v1).validators →
          Lf.unstaking = L1.unstaking → Lf.paused = L1.paused → Pools Lf → Lf.supply.staked = L.supply.staked + g.val.stake →
          Lf.supply.delegatedOnly = L.supply.delegatedOnly + (if g.val.delegate then g.val.stake else 0) →
          (∀ c, comGet Lf c = comGet L c + g.val.stake * g.val.committees.count c) →
          (∀ c, delGet Lf c = delGet L c + (if g.val.delegate then g.val.stake * g.val.committees.count c else 0)) → InvStaking Lf := by
        intro Lf hv hu hp pl s1 s2 s3 s4
        refine InvStaking.mk' ⟨?_, ?_, ?_, ?_⟩ (m3.of_same hv hu hp) (w3.of_same hv hu hp) pl
        · show Lf.supply.staked = sumBy _ Lf.validators
          rw [hv, s1, q1]; have := t.staked; unfold stakeSum at this; omega
        · show Lf.supply.delegatedOnly = sumBy _ Lf.validators
          rw [hv, s2, q2]; have := t.delegated; unfold dstakeSum at this; omega
        · intro c
          show comGet Lf c = sumBy _ Lf.validators
          rw [hv, s3, q3]; have := t.committee c; unfold comSum at this; omega
        · intro c
          show delGet Lf c = sumBy _ Lf.validators
          rw [hv, s4, q4]; have := t.committeeDelegated c; unfold dcomSum at this; omega
      by_cases hd : g.val.delegate = true
      · rw [if_pos hd] at h
        have sc := sameCore_setDelegations h
        have plx : Pools L1 := ⟨by rw [hsup]; exact hs.wf.committee, by rw [hsup]; exact hs.wf.delegated⟩
        have eff := fun hp => setDelegations_eff (L' := L') hp h
        obtain ⟨b1, b2, b3⟩ := eff ⟨plx.committee, plx.delegated⟩
        refine fin L' sc.validators sc.unstaking sc.paused b3 (by rw [sc.staked]; show L1.supply.staked + _ = _; rw [hsup])
          (by rw [sc.delegatedOnly, if_pos hd]; show L1.supply.delegatedOnly + _ = _; rw [hsup]) ?_ ?_
        · intro c; rw [b1 c]; show NMap.get L1.supply.committee c + _ = _; rw [hsup]; rfl
        · intro c; rw [b2 c, if_pos hd]; show NMap.get L1.supply.delegated c + _ = _; rw [hsup]; rfl
      · rw [if_neg hd] at h
        have sc := sameCore_setCommittees h
        have plx : Pools L1 := ⟨by rw [hsup]; exact hs.wf.committee, by rw [hsup]; exact hs.wf.delegated⟩
        have eff := fun hp => setCommittees_eff (L' := L') hp h
        obtain ⟨b1, b2, b3⟩ := eff ⟨plx.committee, plx.delegated⟩
        refine fin L' sc.validators sc.unstaking sc.paused b3 (by rw [sc.staked]; show L1.supply.staked + _ = _; rw [hsup])
          (by rw [sc.delegatedOnly, if_neg hd]; show L1.supply.delegatedOnly = _; rw [hsup]; rfl) ?_ ?_
        · intro c; rw [b1 c]; show NMap.get L1.supply.committee c + _ = _; rw [hsup]; rfl
        · intro c; rw [b2 c, if_neg hd]; show NMap.get L1.supply.delegated c = _; rw [hsup]; rfl

theorem foldlM_genesisValidator_inv : ∀ (gs : List GenesisValidator) (L L' : Ledger), InvStaking L →
    (gs.map (·.addr)).Nodup → (∀ g ∈ gs, g.addr ∉ L.validators.map (·.1)) → (∀ g ∈ gs, g.val.stake ≤ MAXU) →
    gs.foldlM genesisValidator L = .ok L' → InvStaking L'
  | [], L, L', hs, _, _, _, h => by obtain rfl := Except.ok.inj h; exact hs
  | g :: gs, L, L', hs, hn, hk, hu, h => by
    simp only [List.foldlM_cons] at h
    obtain ⟨L1, h1, h2⟩ := bind_ok h
    simp only [List.map_cons, List.nodup_cons] at hn
    have i1 := genesisValidator_inv hs (hk g (List.mem_cons_self ..)) h1
    obtain ⟨_, _, _, k1⟩ := genesisValidator_ok (hk g (List.mem_cons_self ..)) (hu g (List.mem_cons_self ..)) h1
    refine foldlM_genesisValidator_inv gs L1 L' i1 hn.2 ?_ (fun g' hg' => hu g' (List.mem_cons_of_mem _ hg')) h2
    intro g' hg' hm
    rcases k1 _ hm with h' | h'
    · exact hn.1 (by rw [← h']; exact List.mem_map_of_mem hg')
    · exact hk g' (List.mem_cons_of_mem _ hg') h'

theorem invStaking_empty (cfg : Config) (params : Params) : InvStaking ({ cfg := cfg, params := params, height := 0 } : Ledger) := by
  refine ⟨⟨rfl, rfl, fun c => rfl, fun c => rfl⟩, ⟨?_, ?_, ?_⟩, ⟨List.nodup_nil, List.nodup_nil, List.nodup_nil, List.nodup_nil, List.nodup_nil⟩⟩
  · intro h b
    constructor
    · intro e; cases e
    · rintro ⟨v, hv, _⟩; cases hv
  · intro h b
    constructor
    · intro e; cases e
    · rintro ⟨v, hv, _⟩; cases hv
  · intro b v hv; cases hv

/-- **an accepted genesis satisfies `InvStaking`** -/
theorem genesis_invStaking {cfg : Config} {params : Params} {accounts : List (Addr × Nat)} {pools : List (Nat × Nat)}
    {vals : List GenesisValidator} {retired : List Nat} {books : List GenesisBook} {L : Ledger}
    (ha : ∀ e ∈ accounts, e.2 ≤ MAXU) (hp : ∀ e ∈ pools, e.2 ≤ MAXU) (hv : ∀ g ∈ vals, g.val.stake ≤ MAXU)
    (h : genesis cfg params accounts pools vals retired books = .ok L) : InvStaking L := by
  unfold genesis at h
  split at h
  · exact absurd h (by intro h; cases h)
  · next hval =>
    unfold validateGenesis at hval
    split at hval
    · exact absurd hval (by intro h; cases h)
    · split at hval
      · exact absurd hval (by intro h; cases h)
      · split at hval
        · exact absurd hval (by intro h; cases h)
        · next hcv =>
          have hdv := (genesisValidatorsError_none _ _ hcv).2.1
          have hdc := (genesisValidatorsError_none _ _ hcv).2.2
          split at hval
          · exact absurd hval (by intro h; cases h)
          · next hda =>
            split at hval
            · exact absurd hval (by intro h; cases h)
            · next hdp =>
              have nv := hasDup_false_nodup _ (by simpa using hdv)
              have na := hasDup_false_nodup _ (by simpa using hda)
              have np := hasDup_false_nodup _ (by simpa using hdp)
              split at h
              · exact absurd h (by intro h; cases h)
              · next L1 h1 =>
                split at h
                · exact absurd h (by intro h; cases h)
                · next L2 h2 =>
                  split at h
                  · exact absurd h (by intro h; cases h)
                  · next L3 h3 =>
                    split at h
                    · exact absurd h (by intro h; cases h)
                    next L4 h4 =>
                    obtain rfl := Except.ok.inj h
                    obtain ⟨_, _, _, a4⟩ := foldlM_genesisAccount accounts _ L1 na (by intro e _ hm; simp at hm) ha h1
                    obtain ⟨_, _, _, p4⟩ := foldlM_genesisPool pools L1 L2 np (by
                      intro e _ hm
                      have : L1.pools = [] := by
                        obtain ⟨_, _, a3, _⟩ := foldlM_genesisAccount accounts _ L1 na (by intro e _ hm; simp at hm) ha h1
                        exact a3
                      rw [this] at hm; simp at hm) hp h2
                    have r := a4.trans p4
                    have s0 := invStaking_empty cfg params
                    have s2 : InvStaking L2 := s0.of_same r.validators r.staked r.delegatedOnly r.committee r.delegated r.unstaking r.paused
                    have s3 := foldlM_genesisValidator_inv vals L2 L3 s2 nv (by
                      intro g _ hm; rw [r.validators] at hm; simp at hm) hv h3
                    have r4 := foldlM_genesisBook_rest books L3 L4 h4
                    exact s3.of_same r4.validators r4.staked r4.delegatedOnly r4.committee r4.delegated r4.unstaking r4.paused

end Canopy.Ledger
