import Canopy.Proof.DexPoints
import Canopy.Proof.DexHold
/-! Effects of the DEX functions on the holding pool, the stored batches and the pool tables, in the form needed
for the run-level invariants `holding_eq` and `points_sum` (C20). Core Lean only. -/
namespace Canopy.Dex

def liqAmt (s : State) (c : Nat) : Nat := (getPool s (liquidityId c)).amount

/-- a pool is well formed: Σ points = total (a `uint64`) and the balance is a `uint64` -/
structure PoolOk (p : Pool) : Prop where
  pts : PointsOk p
  amt : p.amount < U64

/-- every pool of the state is well formed -/
def PInv (s : State) : Prop := ∀ id, PoolOk (getPool s id)

theorem poolOk_empty : PoolOk {} := ⟨⟨rfl, by decide⟩, by decide⟩

/-- what an inner DEX function may do: it leaves the stored batches and the height alone, debits the holding pool of
chain `c` by exactly `debit`, leaves the other holding pools alone, and keeps every pool well formed -/
structure Eff (c : Nat) (s s' : State) (debit : Nat) : Prop where
  next : s'.next = s.next
  locked : s'.locked = s.locked
  height : s'.height = s.height
  root : s'.root = s.root
  hold : holdAmt s' c + debit = holdAmt s c
  holdOther : ∀ c', c' ≤ maxChainId → c' ≠ c → holdAmt s' c' = holdAmt s c'
  pinv : PInv s → PInv s'

theorem Eff.refl (c : Nat) (s : State) : Eff c s s 0 :=
  ⟨rfl, rfl, rfl, rfl, rfl, fun _ _ _ => rfl, id⟩

theorem Eff.trans {c : Nat} {a b d : State} {m n : Nat} (h1 : Eff c a b m) (h2 : Eff c b d n) : Eff c a d (m + n) :=
  ⟨h2.next.trans h1.next, h2.locked.trans h1.locked, h2.height.trans h1.height, h2.root.trans h1.root,
   by have := h1.hold; have := h2.hold; omega,
   fun c' h hne => (h2.holdOther c' h hne).trans (h1.holdOther c' h hne), fun h => h2.pinv (h1.pinv h)⟩

theorem Eff.cast {c : Nat} {a b : State} {m n : Nat} (h : Eff c a b m) (e : m = n) : Eff c a b n := e ▸ h

theorem holdingId_inj {c c' : Nat} (h : c ≤ maxChainId) (h' : c' ≤ maxChainId) (e : holdingId c' = holdingId c) : c' = c := by
  unfold holdingId Gen.Dex.HoldingPoolAddend U64 at e; unfold maxChainId at h h'; omega

theorem holdingId_ne_liq {c c' : Nat} (h : c ≤ maxChainId) (h' : c' ≤ maxChainId) : holdingId c' ≠ liquidityId c := by
  unfold holdingId liquidityId Gen.Dex.HoldingPoolAddend Gen.Dex.LiquidityPoolAddend U64; unfold maxChainId at h h'; omega

theorem pinv_congr {s s' : State} (h : s'.pools = s.pools) (hp : PInv s) : PInv s' :=
  fun id => by rw [getPool_congr h]; exact hp id

theorem pinv_setPool {s : State} {id : Nat} {p : Pool} (hp : PInv s) (hok : PoolOk p) : PInv (setPool s id p) := by
  intro id'
  by_cases h : id' = id
  · subst h; rw [getPool_setPool_self]; exact hok
  · rw [getPool_setPool_other _ _ _ _ h]; exact hp id'

theorem eff_of_pools_eq {c : Nat} {s s' : State} (hn : s'.next = s.next) (hl : s'.locked = s.locked) (hh : s'.height = s.height)
    (hr : s'.root = s.root) (hp : s'.pools = s.pools) : Eff c s s' 0 :=
  ⟨hn, hl, hh, hr, by simp [holdAmt_congr hp], fun c' _ _ => holdAmt_congr hp c', pinv_congr hp⟩

theorem accountAdd_fields {s s' : State} {a : Bytes} {n : Nat} (h : accountAdd s a n = .ok s') :
    s'.height = s.height ∧ s'.root = s.root := by
  rcases (accountAdd_ok h).2.2.2.2 with ⟨rfl, _⟩ | ⟨_, _, rfl⟩ <;> exact ⟨rfl, rfl⟩

theorem accountSub_fields {s s' : State} {a : Bytes} {n : Nat} (h : accountSub s a n = .ok s') :
    s'.height = s.height ∧ s'.root = s.root := by
  rcases (accountSub_ok h).2.2.2.2.2 with ⟨rfl, _⟩ | ⟨_, rfl⟩ <;> exact ⟨rfl, rfl⟩

theorem eff_accountAdd {c : Nat} {s s' : State} {a : Bytes} {n : Nat} (h : accountAdd s a n = .ok s') : Eff c s s' 0 :=
  have ⟨_, hp, hn, hl, _⟩ := accountAdd_ok h
  eff_of_pools_eq hn hl (accountAdd_fields h).1 (accountAdd_fields h).2 hp

theorem eff_accountSub {c : Nat} {s s' : State} {a : Bytes} {n : Nat} (h : accountSub s a n = .ok s') : Eff c s s' 0 :=
  have ⟨_, hp, hn, hl, _⟩ := accountSub_ok h
  eff_of_pools_eq hn hl (accountSub_fields h).1 (accountSub_fields h).2 hp

/-- rewriting one pool: only its own holding balance can move -/
theorem eff_setPool_liq {c : Nat} (s : State) (p : Pool) (hc : c ≤ maxChainId) (hok : PoolOk p) :
    Eff c s (setPool s (liquidityId c) p) 0 :=
  ⟨rfl, rfl, rfl, rfl,
   by unfold holdAmt; rw [getPool_setPool_other _ _ _ _ (holdingId_ne_liq hc hc)]; rfl,
   fun c' h _ => by unfold holdAmt; rw [getPool_setPool_other _ _ _ _ (holdingId_ne_liq hc h)],
   fun hp => pinv_setPool hp hok⟩

theorem poolOk_amount {p : Pool} (hp : PoolOk p) {a : Nat} (ha : a < U64) : PoolOk { p with amount := a } :=
  ⟨⟨hp.pts.sum, hp.pts.fits⟩, ha⟩

theorem eff_poolAdd_liq {c : Nat} (s : State) (n : Nat) (hc : c ≤ maxChainId) :
    Eff c s (poolAdd s (liquidityId c) n) 0 :=
  ⟨rfl, rfl, rfl, rfl,
   by unfold holdAmt; rw [poolAdd_other _ _ _ _ (holdingId_ne_liq hc hc)]; rfl,
   fun c' h _ => by unfold holdAmt; rw [poolAdd_other _ _ _ _ (holdingId_ne_liq hc h)],
   fun hp => pinv_setPool hp (poolOk_amount (hp _) (Nat.mod_lt _ (by decide)))⟩

theorem eff_poolSub_liq {c : Nat} {s s' : State} {n : Nat} (hc : c ≤ maxChainId)
    (h : poolSub s (liquidityId c) n = .ok s') : Eff c s s' 0 := by
  obtain ⟨hle, rfl⟩ := poolSub_ok h
  refine ⟨rfl, rfl, rfl, rfl, ?_, ?_, ?_⟩
  · unfold holdAmt; rw [getPool_setPool_other _ _ _ _ (holdingId_ne_liq hc hc)]; rfl
  · intro c' h' _; unfold holdAmt; rw [getPool_setPool_other _ _ _ _ (holdingId_ne_liq hc h')]
  · intro hp; exact pinv_setPool hp (poolOk_amount (hp _) (by have := (hp (liquidityId c)).amt; omega))

theorem eff_poolSub_hold {c : Nat} {s s' : State} {n : Nat} (hc : c ≤ maxChainId)
    (h : poolSub s (holdingId c) n = .ok s') : Eff c s s' n := by
  have hh := holdAmt_poolSub h
  obtain ⟨hle, rfl⟩ := poolSub_ok h
  refine ⟨rfl, rfl, rfl, rfl, hh, ?_, ?_⟩
  · intro c' h' hne; unfold holdAmt
    rw [getPool_setPool_other _ _ _ _ (fun e => hne (holdingId_inj hc h' e))]
  · intro hp; exact pinv_setPool hp (poolOk_amount (hp _) (by have := (hp (holdingId c)).amt; omega))

/-! ### withdrawals -/

theorem subU64_lt (a b : Nat) : subU64 a b < U64 := Nat.mod_lt _ (by decide)

theorem eff_withdrawPay (c : Nat) (tx ty T : Nat) (isLocal : Bool) (st' : WState) :
    ∀ (ws : List Withdraw) (st : WState), withdrawPay tx ty T isLocal ws st = .ok st' → Eff c st.s st'.s 0 := by
  intro ws
  induction ws with
  | nil => intro st h; simp [withdrawPay] at h; subst h; exact Eff.refl _ _
  | cons w ws ih =>
    intro st h
    unfold withdrawPay at h
    split at h
    · exact ih _ h
    · obtain ⟨s1, h1, h⟩ := bind_ok h
      exact ((eff_accountAdd h1).trans (ih _ h)).cast rfl

/-- `handleBatchWithdraw`: no effect on holding pools or stored batches; the pool it leaves is well formed; ledgers stay `uint64` -/
theorem eff_batchWithdraw {s : State} {ws : List Withdraw} {c x y : Nat} {isLocal : Bool} {p0 : Option Pool} {persist : Bool}
    {l : Ledger} (hc : c ≤ maxChainId) (hw : ∀ w ∈ ws, w.percent ≤ 100) (hp : PoolOk (p0.getD (getPool s (liquidityId c))))
    (h : batchWithdraw s ws c x y isLocal p0 persist = .ok l) :
    Eff c s l.s 0 ∧ PoolOk l.p ∧ (x < U64 → l.x < U64) ∧ (y < U64 → l.y < U64) := by
  have hpts := batchWithdraw_points hw hp.pts h
  unfold batchWithdraw at h
  dsimp only at h
  split at h
  · injection h with h; subst h; exact ⟨Eff.refl _ _, hp, id, id⟩
  · obtain ⟨T, _, h⟩ := bind_ok h
    split at h
    · injection h with h; subst h
      have hok : PoolOk { (p0.getD (getPool s (liquidityId c))) with points := dropZero (p0.getD (getPool s (liquidityId c))).points } :=
        ⟨hpts, hp.amt⟩
      refine ⟨?_, hok, id, id⟩
      dsimp only
      split
      · exact eff_setPool_liq _ _ hc hok
      · exact Eff.refl _ _
    · obtain ⟨st, hst, h⟩ := bind_ok h
      have e1 := eff_withdrawPay c _ _ _ _ _ _ _ hst
      split at h
      · cases h
      · injection h with h; subst h
        have hok : PoolOk _ := ⟨hpts, by dsimp only; split <;> exact subU64_lt _ _⟩
        refine ⟨?_, hok, fun _ => subU64_lt _ _, fun _ => subU64_lt _ _⟩
        dsimp only
        split
        · exact (e1.trans (eff_setPool_liq _ _ hc hok)).cast rfl
        · exact e1

/-- the local ledger `x` of the origin role is the liquidity pool's balance, before and after -/
theorem batchWithdraw_track {s : State} {ws : List Withdraw} {c x y : Nat} {l : Ledger}
    (hx : x = liqAmt s c) (h : batchWithdraw s ws c x y true none true = .ok l) : l.x = liqAmt l.s c := by
  unfold batchWithdraw at h
  dsimp only at h
  split at h
  · injection h with h; subst h; exact hx
  · obtain ⟨T, _, h⟩ := bind_ok h
    split at h
    · injection h with h; subst h
      show x = (getPool (setPool s (liquidityId c) _) (liquidityId c)).amount
      rw [getPool_setPool_self]; exact hx
    · obtain ⟨st, hst, h⟩ := bind_ok h
      split at h
      · cases h
      · injection h with h; subst h
        show _ = (getPool (setPool st.s (liquidityId c) _) (liquidityId c)).amount
        rw [getPool_setPool_self]
        simp

/-! ### deposits -/

def depSum (ds : List Deposit) : Nat := (ds.map (·.amount)).sum

/-- Σ amounts of the deposits flagged `b` -/
def flagSum (b : Bool) : List (Deposit × Bool) → Nat
  | [] => 0
  | (d, f) :: zs => (if f = b then d.amount else 0) + flagSum b zs

theorem flagSum_split (zs : List (Deposit × Bool)) : flagSum true zs + flagSum false zs = depSum (zs.map (·.1)) := by
  induction zs with
  | nil => rfl
  | cons e zs ih =>
    obtain ⟨d, f⟩ := e
    cases f <;> simp [flagSum, depSum] at ih ⊢ <;> omega

theorem addUint64_exact {a b : Nat} (h : ¬ (addUint64 a b).2 = true) : (addUint64 a b).1 = a + b := by
  unfold addUint64 at *
  simp only [decide_eq_true_eq] at h
  exact Nat.mod_eq_of_lt (by omega)

theorem addUint64_lt (a b : Nat) : (addUint64 a b).1 < U64 := Nat.mod_lt _ (by decide)

theorem sumDeposits_exact : ∀ (ds : List Deposit) (acc r : Nat), sumDeposits ds acc = .ok r → r = acc + depSum ds := by
  intro ds
  induction ds with
  | nil => intro acc r h; simp [sumDeposits] at h; simp [depSum, h]
  | cons d ds ih =>
    intro acc r h
    unfold sumDeposits at h
    dsimp only at h
    split at h
    · cases h
    · have := ih _ _ h
      rw [addUint64_exact ‹_›] at this
      simp [depSum] at this ⊢; omega

/-- PASS 1: the flags it appends, what it refunds (local side only), what it accepts -/
theorem eff_depositPass1 (p : Pool) (c : Nat) (isLocal : Bool) (hc : c ≤ maxChainId) (st' : P1) :
    ∀ (ds : List Deposit) (st : P1), depositPass1 p c isLocal ds st = .ok st' →
      ∃ fl, st'.accepted = st.accepted ++ fl ∧ fl.length = ds.length ∧
        Eff c st.s st'.s (if isLocal then flagSum false (ds.zip fl) else 0) ∧
        st'.total = st.total + flagSum true (ds.zip fl) := by
  intro ds
  induction ds with
  | nil => intro st h; simp [depositPass1] at h; subst h; exact ⟨[], by simp, rfl, by simpa [flagSum] using Eff.refl _ _, by simp [flagSum]⟩
  | cons d ds ih =>
    intro st h
    unfold depositPass1 at h
    simp only [bind, Except.bind, pure, Except.pure, throw, throwThe, MonadExceptOf.throw] at h
    split at h
    · -- refused at the cap
      split at h
      · -- local: refund
        split at h
        · cases h
        · rename_i s1 hs1
          split at h
          · cases h
          · rename_i s2 hs2
            obtain ⟨fl, hacc, hlen, heff, htot⟩ := ih _ h
            refine ⟨false :: fl, by simp [hacc], by simp [hlen], ?_, ?_⟩
            · have e := ((eff_poolSub_hold hc hs1).trans (eff_accountAdd hs2)).trans heff
              simp only [‹isLocal = true›, if_true] at e ⊢
              exact e.cast (by simp [flagSum])
            · simp [flagSum] at htot ⊢; exact htot
      · obtain ⟨fl, hacc, hlen, heff, htot⟩ := ih _ h
        refine ⟨false :: fl, by simp [hacc], by simp [hlen], ?_, ?_⟩
        · have hl : isLocal = false := by simpa using ‹¬isLocal = true›
          simp only [hl] at heff ⊢
          exact heff
        · simp [flagSum] at htot ⊢; exact htot
    · split at h
      · cases h
      · obtain ⟨fl, hacc, hlen, heff, htot⟩ := ih _ h
        refine ⟨true :: fl, by simp [hacc], by simp [hlen], ?_, ?_⟩
        · cases isLocal <;> simp [flagSum] at heff ⊢ <;> exact heff
        · rw [addUint64_exact ‹_›] at htot
          simp [flagSum] at htot ⊢; omega

theorem eff_depositLocal {s : State} {p : Pool} {c : Nat} {d : Deposit} {isLocal : Bool} {r : State × Pool}
    (hc : c ≤ maxChainId) (hp : PoolOk p) (h : depositLocal s p c d isLocal = .ok r) :
    Eff c s r.1 (if isLocal then d.amount else 0) ∧ PoolOk r.2 := by
  unfold depositLocal at h
  split at h
  · rename_i hl
    split at h
    · cases h
    · split at h
      · cases h
      · injection h with h; subst h
        simp only [hl, if_true]
        exact ⟨eff_poolSub_hold hc ‹poolSub s _ _ = Except.ok _›, poolOk_amount hp (addUint64_lt _ _)⟩
  · rename_i hl
    injection h with h; subst h
    have hl' : isLocal = false := by simpa using hl
    simp only [hl']
    exact ⟨Eff.refl _ _, hp⟩

theorem eff_depositPass2 (dl td c : Nat) (isLocal : Bool) (hc : c ≤ maxChainId) (st' : P2) :
    ∀ (zs : List (Deposit × Bool)) (st : P2), PoolOk st.p → depositPass2 dl td c isLocal zs st = .ok st' →
      Eff c st.s st'.s (if isLocal then flagSum true zs else 0) ∧ st'.x = st.x + flagSum true zs ∧
      (st.x < U64 → st'.x < U64) ∧ PoolOk st'.p := by
  intro zs
  induction zs with
  | nil =>
    intro st hp h; simp [depositPass2] at h; subst h
    exact ⟨by simpa [flagSum] using Eff.refl _ _, by simp [flagSum], id, hp⟩
  | cons e zs ih =>
    intro st hp h
    obtain ⟨d, acc⟩ := e
    cases acc
    · unfold depositPass2 at h
      obtain ⟨e1, e2, e3, e4⟩ := ih _ hp h
      exact ⟨by simpa [flagSum] using e1, by simpa [flagSum] using e2, e3, e4⟩
    · unfold depositPass2 at h
      split at h
      · cases h
      · rename_i p1 hp1
        have hp1ok : PoolOk p1 := by
          obtain ⟨hpts, hamt⟩ := addPoints_ok hp.pts (safeMulDiv_lt _ _ _) hp1
          exact ⟨hpts, by rw [hamt]; exact hp.amt⟩
        split at h
        · cases h
        · rename_i sp hsp
          obtain ⟨el, hpl⟩ := eff_depositLocal hc hp1ok hsp
          split at h
          · cases h
          · obtain ⟨e1, e2, e3, e4⟩ := ih _ (by exact hpl) h
            refine ⟨?_, ?_, fun _ => e3 (addUint64_lt _ _), e4⟩
            · have := el.trans e1
              cases isLocal <;> simp [flagSum] at this ⊢ <;> exact this
            · rw [e2]; dsimp only; rw [addUint64_exact ‹_›]; simp [flagSum]; omega

theorem eff_mintDeposits {p1 : P1} {p : Pool} {ds : List Deposit} {c x y : Nat} {isLocal persist : Bool} {l : Ledger}
    (hc : c ≤ maxChainId) (hp : PoolOk p) (h : mintDeposits p1 p ds c x y isLocal persist = .ok l) :
    Eff c p1.s l.s (if isLocal then flagSum true (ds.zip p1.accepted) else 0) ∧ PoolOk l.p ∧
    l.x = x + flagSum true (ds.zip p1.accepted) ∧ (x < U64 → l.x < U64) ∧ l.y = y := by
  have hpts := mintDeposits_points hp.pts h
  unfold mintDeposits at h
  split at h
  · cases h
  · rename_i lp hlp
    have hlp_ok : PoolOk lp.2 := by
      unfold initDead at hlp
      split at hlp
      · split at hlp
        · cases hlp
        · injection hlp with hlp; subst hlp
          obtain ⟨hpts', hamt⟩ := addPoints_ok hp.pts (sqrtProduct_lt _ _) ‹addPoints _ _ _ = Except.ok _›
          exact ⟨hpts', by rw [hamt]; exact hp.amt⟩
      · injection hlp with hlp; subst hlp; exact hp
    split at h
    · cases h
    · split at h
      · cases h
      · rename_i p2 hp2
        obtain ⟨e1, e2, e3, e4⟩ := eff_depositPass2 _ _ _ _ hc _ _ _ hlp_ok hp2
        split at h
        · cases h
        · rename_i pf hpf
          injection h with h; subst h
          have hok : PoolOk pf := ⟨hpts, by
            have := (addPoints_ok e4.pts (n := _ - _) (by have := mapErr_ldp_lt ‹mapErr _ = Except.ok _›; omega) hpf).2
            rw [this]; exact e4.amt⟩
          refine ⟨?_, hok, e2, e3, rfl⟩
          dsimp only
          split
          · exact (e1.trans (eff_setPool_liq _ _ hc hok)).cast (by simp)
          · exact e1

/-- `handleBatchDeposit` without the cap logic -/
theorem eff_batchDepositCore {s : State} {ds : List Deposit} {c x y : Nat} {isLocal : Bool} {p0 : Option Pool} {persist : Bool}
    {l : Ledger} (hc : c ≤ maxChainId) (hp : PoolOk (p0.getD (getPool s (liquidityId c))))
    (h : batchDepositCore s ds c x y isLocal p0 persist = .ok l) :
    ∃ D, Eff c s l.s D ∧ PoolOk l.p ∧ l.y = y ∧ x ≤ l.x ∧ (x < U64 → l.x < U64) ∧
      (isLocal = false → D = 0) ∧ (isLocal = true → x ≠ 0 → y ≠ 0 → D = depSum ds) ∧
      ((x = 0 ∨ y = 0) → l.s = s ∧ l.x = x ∧ l.p = p0.getD (getPool s (liquidityId c))) := by
  unfold batchDepositCore at h
  dsimp only at h
  split at h
  · rename_i hds
    injection h with h; subst h
    exact ⟨0, Eff.refl _ _, hp, rfl, Nat.le_refl _, id, fun _ => rfl, fun _ _ _ => by simp [hds, depSum], fun _ => ⟨rfl, rfl, rfl⟩⟩
  · split at h
    · cases h
    · rename_i raw hraw
      have hrawe := sumDeposits_exact _ _ _ hraw
      split at h
      · rename_i hz
        injection h with h; subst h
        refine ⟨0, Eff.refl _ _, hp, rfl, Nat.le_refl _, id, fun _ => rfl, ?_, fun _ => ⟨rfl, rfl, rfl⟩⟩
        intro _ hx hy
        rcases hz with hz | hz | hz
        · omega
        · exact absurd hz hx
        · exact absurd hz hy
      · rename_i hnz
        split at h
        · cases h
        · rename_i p1 hp1
          obtain ⟨fl, hacc, hlen, heff, htot⟩ := eff_depositPass1 _ _ _ hc _ _ _ hp1
          simp only [List.nil_append] at hacc
          have hzip : (ds.zip fl).map (·.1) = ds := by
            rw [List.map_fst_zip]; omega
          have hsplit := flagSum_split (ds.zip fl)
          rw [hzip] at hsplit
          simp only [Nat.zero_add] at htot
          have hxy : ¬ (x = 0 ∨ y = 0) := fun hh => hnz (by rcases hh with hh | hh; exact Or.inr (Or.inl hh); exact Or.inr (Or.inr hh))
          split at h
          · rename_i ht0
            injection h with h; subst h
            refine ⟨_, heff, hp, rfl, Nat.le_refl _, id, fun hl => by simp [hl], ?_, fun hh => absurd hh hxy⟩
            intro hl _ _
            simp only [hl, if_true]
            omega
          · obtain ⟨e1, e2, e3, e4, e5⟩ := eff_mintDeposits hc hp h
            rw [hacc] at e1 e3
            refine ⟨_, heff.trans e1, e2, e5, by omega, e4, fun hl => by simp [hl], ?_, fun hh => absurd hh hxy⟩
            intro hl _ _
            simp only [hl, if_true]
            omega

/-! ### the provider cap: eviction, rejection, the newcomer loop -/

theorem share_lt {r m P : Nat} (hr : 0 < r) (hm : m < P) : safeMulDiv (safeMulDiv r m P) m m < r := by
  have h1 := share_le r m P m
  have : r * m / P < r := by
    apply Nat.div_lt_of_lt_mul
    calc r * m < r * P := Nat.mul_lt_mul_of_pos_left hm hr
      _ = P * r := Nat.mul_comm _ _
  omega

/-- the forced eviction (a single 100% withdrawal of one holder) leaves both ledgers positive -/
theorem evict_positive {s : State} {a : Bytes} {c x y : Nat} {isLocal : Bool} {p : Pool} {l : Ledger}
    (hp : PointsOk p) (hx : 0 < x) (hx64 : x < U64) (hy : 0 < y) (hy64 : y < U64)
    (h : batchWithdraw s [{ percent := 100, addr := a, id := [] }] c x y isLocal (some p) false = .ok l) :
    0 < l.x ∧ 0 < l.y := by
  unfold batchWithdraw at h
  simp only [Option.getD_some] at h
  rw [if_neg (by simp)] at h
  obtain ⟨T, hT, h⟩ := bind_ok h
  split at h
  · injection h with h; subst h; exact ⟨hx, hy⟩
  · rename_i hT0
    obtain ⟨st, hst, h⟩ := bind_ok h
    split at h
    · cases h
    · rename_i htot
      injection h with h; subst h
      dsimp only
      -- unfold the two single-element passes
      unfold withdrawTotal at hT
      dsimp only at hT
      split at hT
      · simp [withdrawTotal] at hT; subst hT; simp at hT0
      · rename_i i hi
        split at hT
        · cases hT
        · rename_i hov
          simp [withdrawTotal] at hT
          have hm : T = safeMulDiv (ptsAt (dropZero p.points) i) 100 100 := by
            rw [← hT, addUint64_exact hov]; simp
          unfold withdrawPay at hst
          dsimp only at hst
          rw [hi] at hst
          dsimp only at hst
          obtain ⟨s1, _, hst⟩ := bind_ok hst
          simp [withdrawPay] at hst
          subst hst
          dsimp only at htot ⊢
          rw [← hm] at htot ⊢
          have hle : T ≤ ptsAt (dropZero p.points) i := by rw [hm]; exact safeMulDiv_percent_le _ _ (Nat.le_refl _)
          have hheld := ptsAt_le_sum (dropZero p.points) i
          have hsum : ptsSum (dropZero p.points) = p.total := by rw [ptsSum_dropZero]; exact hp.sum
          have hfit := hp.fits
          have hTP : T < p.total := by
            rw [subU64_eq (by omega) hfit] at htot
            omega
          have hX := share_lt (r := x) hx hTP
          have hY := share_lt (r := y) hy hTP
          rw [Nat.mod_eq_of_lt (safeMulDiv_lt _ _ _), Nat.mod_eq_of_lt (safeMulDiv_lt _ _ _),
            subU64_eq (by omega) hx64, subU64_eq (by omega) hy64]
          omega

theorem sqrt_zero : Nat.sqrt 0 = 0 := sqrt_eq_of (by decide) (by decide)

theorem safeMulDiv_zero_left (b c : Nat) : safeMulDiv 0 b c = 0 := by
  unfold safeMulDiv; split <;> simp

theorem ldp_zero_reserve {L x y a : Nat} (h : x = 0 ∨ y = 0) : mapErr (liquidityDepositPoints L x y a) = .error .InvalidLiquidityPool := by
  have hs : sqrtProduct x y = 0 := by
    unfold sqrtProduct
    rcases h with h | h <;> subst h <;> simp [sqrt_zero]
  unfold liquidityDepositPoints
  split
  · rfl
  · rw [if_pos (Or.inl hs)]; rfl

/-- ledger of the cap loop: pool well formed, both ledgers `uint64` -/
structure LOk (l : Ledger) : Prop where
  pool : PoolOk l.p
  x64 : l.x < U64
  y64 : l.y < U64

theorem Ledger.ext' {l l' : Ledger} (hs : l'.s = l.s) (hp : l'.p = l.p) (hx : l'.x = l.x) (hy : l'.y = l.y) : l' = l := by
  cases l; cases l'; simp_all

theorem eff_cappedEvict {c : Nat} {isLocal : Bool} (hc : c ≤ maxChainId) {nc : Newcomer} {l : Ledger} {low : Bytes × Nat}
    {r : Ledger × Option (Bytes × Nat)} (hl : LOk l) (hnc : nc.amount = depSum nc.deposits)
    (h : cappedEvict c isLocal nc l low = .ok r) :
    l.x ≠ 0 ∧ l.y ≠ 0 ∧ ∃ D, Eff c l.s r.1.s D ∧ LOk r.1 ∧ (isLocal = false → D = 0) ∧
      (isLocal = true → D = nc.amount) ∧ r.1.x ≠ 0 ∧ r.1.y ≠ 0 := by
  unfold cappedEvict at h
  obtain ⟨ts, hts, h⟩ := bind_ok h
  have hxy : l.x ≠ 0 ∧ l.y ≠ 0 := by
    constructor
    · intro hx
      rw [ldp_zero_reserve (Or.inl (by rw [hx, safeMulDiv_zero_left]; rfl))] at hts
      cases hts
    · intro hy
      rw [ldp_zero_reserve (Or.inr (by rw [hy, safeMulDiv_zero_left]; rfl))] at hts
      cases hts
  refine ⟨hxy.1, hxy.2, ?_⟩
  clear hts
  dsimp only at h
  split at h
  · split at h
    · rename_i hloc
      obtain ⟨s1, h2, h⟩ := bind_ok h
      obtain ⟨s2, h3, h⟩ := bind_ok h
      injection h with h; subst h
      refine ⟨nc.amount, ((eff_poolSub_hold hc h2).trans (eff_accountAdd h3)).cast (by simp), LOk.mk hl.pool hl.x64 hl.y64,
        ?_, ?_, hxy.1, hxy.2⟩
      · intro hf; rw [hloc] at hf; cases hf
      · intro _; rfl
    · rename_i hloc
      injection h with h; subst h
      refine ⟨0, Eff.refl _ _, LOk.mk hl.pool hl.x64 hl.y64, ?_, ?_, hxy.1, hxy.2⟩
      · intro _; rfl
      · intro ht; exact absurd ht hloc
  · obtain ⟨l1, h2, h⟩ := bind_ok h
    obtain ⟨l2, h3, h⟩ := bind_ok h
    injection h with h; subst h
    have hw : ∀ w ∈ [({ percent := 100, addr := low.1, id := [] } : Withdraw)], w.percent ≤ 100 := by
      intro w hw; simp at hw; subst hw; exact Nat.le_refl _
    obtain ⟨e1, hp1, hx1, hy1⟩ := eff_batchWithdraw (p0 := some l.p) hc hw hl.pool h2
    have hpos := evict_positive hl.pool.pts (Nat.pos_of_ne_zero hxy.1) hl.x64 (Nat.pos_of_ne_zero hxy.2) hl.y64 h2
    obtain ⟨D, e2, hp2, hy2, hx2, hx2', hD0, hD1, _⟩ := eff_batchDepositCore (p0 := some l1.p) hc hp1 h3
    refine ⟨_, e1.trans e2, LOk.mk hp2 (hx2' (hx1 hl.x64)) (by rw [hy2]; exact hy1 hl.y64), ?_, ?_, ?_, ?_⟩
    · intro hf; simp [hD0 hf]
    · intro ht; rw [hD1 ht (by omega) (by omega), hnc]; simp
    · show l2.x ≠ 0; omega
    · show l2.y ≠ 0; omega

theorem eff_cappedStep {c : Nat} {isLocal : Bool} (hc : c ≤ maxChainId) {nc : Newcomer} {l : Ledger} {low : Option (Bytes × Nat)}
    {r : Ledger × Option (Bytes × Nat)} (hl : LOk l) (hnc : nc.amount = depSum nc.deposits)
    (h : cappedStep c isLocal nc l low = .ok r) :
    ∃ D, Eff c l.s r.1.s D ∧ LOk r.1 ∧ (isLocal = false → D = 0) ∧
      (isLocal = true → l.x ≠ 0 → l.y ≠ 0 → D = nc.amount ∧ r.1.x ≠ 0 ∧ r.1.y ≠ 0) ∧
      ((l.x = 0 ∨ l.y = 0) → r.1 = l) := by
  unfold cappedStep at h
  split at h
  · split at h
    · cases h
    · rename_i l1 h1
      injection h with h; subst h
      obtain ⟨D, e, hp, hy, hx, hx', hD0, hD1, hz⟩ := eff_batchDepositCore (p0 := some l.p) hc hl.pool h1
      refine ⟨D, e, LOk.mk hp (hx' hl.x64) (by rw [hy]; exact hl.y64), hD0, ?_, ?_⟩
      · intro ht hx0 hy0; exact ⟨by rw [hD1 ht hx0 hy0, hnc], by show l1.x ≠ 0; omega, by show l1.y ≠ 0; omega⟩
      · intro hh; obtain ⟨a, b, d⟩ := hz hh; exact Ledger.ext' a d b hy
  · split at h
    · cases h
    · obtain ⟨hx0, hy0, D, e, hl', hD0, hD1, hx1, hy1⟩ := eff_cappedEvict hc hl hnc h
      exact ⟨D, e, hl', hD0, fun ht _ _ => ⟨hD1 ht, hx1, hy1⟩, fun hh => by rcases hh with hh | hh <;> contradiction⟩

def ncSum (ncs : List Newcomer) : Nat := (ncs.map (·.amount)).sum

theorem eff_cappedLoop (c : Nat) (isLocal : Bool) (hc : c ≤ maxChainId) (l' : Ledger) :
    ∀ (ncs : List Newcomer) (l : Ledger) (low : Option (Bytes × Nat)), LOk l →
      (∀ nc ∈ ncs, nc.amount = depSum nc.deposits) → cappedLoop c isLocal ncs l low = .ok l' →
      ∃ D, Eff c l.s l'.s D ∧ LOk l' ∧ (isLocal = false → D = 0) ∧
        (isLocal = true → l.x ≠ 0 → l.y ≠ 0 → D = ncSum ncs ∧ l'.x ≠ 0 ∧ l'.y ≠ 0) ∧
        ((l.x = 0 ∨ l.y = 0) → l' = l) := by
  intro ncs
  induction ncs with
  | nil =>
    intro l low hl _ h; simp [cappedLoop] at h; subst h
    exact ⟨0, Eff.refl _ _, hl, fun _ => rfl, fun _ hx hy => ⟨by simp [ncSum], hx, hy⟩, fun _ => rfl⟩
  | cons nc rest ih =>
    intro l low hl hnc h
    unfold cappedLoop at h
    split at h
    · cases h
    · rename_i r hr
      obtain ⟨D1, e1, hl1, hD0, hD1, hz1⟩ := eff_cappedStep hc hl (hnc nc (List.mem_cons_self)) hr
      obtain ⟨D2, e2, hl2, hE0, hE1, hz2⟩ := ih r.1 r.2 hl1 (fun n hn => hnc n (List.mem_cons_of_mem _ hn)) h
      refine ⟨_, e1.trans e2, hl2, fun hf => by simp [hD0 hf, hE0 hf], ?_, ?_⟩
      · intro ht hx hy
        obtain ⟨d1, hx1, hy1⟩ := hD1 ht hx hy
        obtain ⟨d2, hx2, hy2⟩ := hE1 ht hx1 hy1
        exact ⟨by simp [ncSum] at d2 ⊢; omega, hx2, hy2⟩
      · intro hh
        have := hz1 hh
        rw [this] at hz2
        exact hz2 hh

/-! ### `handleBatchDeposit` with the cap -/

def ncPairsSum (nc : List (Bytes × Newcomer)) : Nat := AM.wsum (fun _ (v : Newcomer) => v.amount) nc

theorem AM.mem_set {κ ν : Type} [DecidableEq κ] (m : List (κ × ν)) (k : κ) (v : ν) (e : κ × ν)
    (h : e ∈ AM.set m k v) : e = (k, v) ∨ e ∈ m := by
  induction m with
  | nil => simp [AM.set] at h; exact Or.inl h
  | cons e0 m ih =>
    obtain ⟨k0, v0⟩ := e0
    by_cases h0 : k0 = k
    · simp [AM.set, h0] at h
      rcases h with h | h
      · exact Or.inl h
      · exact Or.inr (List.mem_cons_of_mem _ h)
    · simp [AM.set, h0] at h
      rcases h with h | h
      · exact Or.inr (by rw [h]; exact List.mem_cons_self)
      · rcases ih h with h | h
        · exact Or.inl h
        · exact Or.inr (List.mem_cons_of_mem _ h)

theorem AM.entry_of_get? {κ ν : Type} [DecidableEq κ] (m : List (κ × ν)) (k : κ) (v : ν) (h : AM.get? m k = some v) :
    ∃ e ∈ m, e.2 = v := by
  induction m with
  | nil => simp [AM.get?] at h
  | cons e0 m ih =>
    obtain ⟨k0, v0⟩ := e0
    by_cases h0 : k0 = k
    · simp [AM.get?, h0] at h; exact ⟨(k0, v0), List.mem_cons_self, h⟩
    · simp [AM.get?, h0] at h
      obtain ⟨e, he, hc⟩ := ih h
      exact ⟨e, List.mem_cons_of_mem _ he, hc⟩

theorem wsum_append_one {κ ν : Type} (f : κ → ν → Nat) (m : List (κ × ν)) (k : κ) (v : ν) :
    AM.wsum f (m ++ [(k, v)]) = AM.wsum f m + f k v := by
  induction m with
  | nil => simp [AM.wsum]
  | cons e m ih => obtain ⟨k0, v0⟩ := e; simp [AM.wsum, ih]; omega

theorem depSum_append_one (l : List Deposit) (d : Deposit) : depSum (l ++ [d]) = depSum l + d.amount := by
  simp [depSum]

theorem classify_spec (prov : List Bytes) : ∀ (ds inc : List Deposit) (nc : List (Bytes × Newcomer)) (r : List Deposit × List (Bytes × Newcomer)),
    (∀ e ∈ nc, e.2.amount = depSum e.2.deposits) → classify prov ds inc nc = .ok r →
      depSum r.1 + ncPairsSum r.2 = depSum inc + ncPairsSum nc + depSum ds ∧ ∀ e ∈ r.2, e.2.amount = depSum e.2.deposits := by
  intro ds
  induction ds with
  | nil => intro inc nc r hnc h; simp [classify] at h; subst h; exact ⟨by simp [depSum], hnc⟩
  | cons d ds ih =>
    intro inc nc r hnc h
    unfold classify at h
    split at h
    · obtain ⟨e1, e2⟩ := ih _ _ _ hnc h
      refine ⟨?_, e2⟩
      rw [depSum_append_one] at e1
      simp [depSum] at e1 ⊢; omega
    · dsimp only at h
      split at h
      · cases h
      · rename_i hov
        have hex := addUint64_exact hov
        cases hg : AM.get? nc d.addr with
        | none =>
          simp only [hg, Option.getD_none] at h hex
          obtain ⟨e1, e2⟩ := ih _ _ _ (by
            intro e he
            rcases List.mem_append.mp he with he | he
            · exact hnc e he
            · simp at he; subst he; simp [depSum] at hex ⊢; exact hex) h
          refine ⟨?_, e2⟩
          simp only [ncPairsSum] at e1 ⊢
          rw [wsum_append_one] at e1
          simp [depSum] at e1 hex ⊢; omega
        | some cur =>
          simp only [hg, Option.getD_some] at h hex
          have hcur : cur.amount = depSum cur.deposits := by
            obtain ⟨e, he, hc⟩ := AM.entry_of_get? nc d.addr cur hg
            rw [← hc]; exact hnc e he
          obtain ⟨e1, e2⟩ := ih _ _ _ (by
            intro e he
            rcases AM.mem_set _ _ _ _ he with he | he
            · subst he; dsimp only; rw [hex, depSum_append_one, hcur]
            · exact hnc e he) h
          refine ⟨?_, e2⟩
          have hw := AM.wsum_set_old (fun _ (v : Newcomer) => v.amount) nc d.addr
            { amount := (addUint64 cur.amount d.amount).1, deposits := cur.deposits ++ [d] } cur hg
          simp only [ncPairsSum] at e1 ⊢
          dsimp only at hw
          simp [depSum] at e1 hex hw ⊢; omega

theorem insertSorted_sum {α : Type} (lt : α → α → Bool) (f : α → Nat) (a : α) (l : List α) :
    ((insertSorted lt a l).map f).sum = f a + (l.map f).sum := by
  induction l with
  | nil => simp [insertSorted]
  | cons b bs ih =>
    unfold insertSorted
    split
    · simp [ih]; omega
    · simp

theorem insertSorted_mem {α : Type} (lt : α → α → Bool) (a e : α) (l : List α) (h : e ∈ insertSorted lt a l) : e = a ∨ e ∈ l := by
  induction l with
  | nil => simp [insertSorted] at h; exact Or.inl h
  | cons b bs ih =>
    unfold insertSorted at h
    split at h
    · simp at h
      rcases h with h | h
      · exact Or.inr (by rw [h]; exact List.mem_cons_self)
      · rcases ih h with h | h
        · exact Or.inl h
        · exact Or.inr (List.mem_cons_of_mem _ h)
    · simp at h
      rcases h with h | h | h
      · exact Or.inl h
      · exact Or.inr (by rw [h]; exact List.mem_cons_self)
      · exact Or.inr (List.mem_cons_of_mem _ h)

theorem stableSort_sum {α : Type} (lt : α → α → Bool) (f : α → Nat) (l : List α) :
    ((stableSort lt l).map f).sum = (l.map f).sum := by
  induction l with
  | nil => rfl
  | cons a l ih =>
    show ((insertSorted lt a (stableSort lt l)).map f).sum = _
    rw [insertSorted_sum, ih]; simp

theorem stableSort_mem {α : Type} (lt : α → α → Bool) (e : α) (l : List α) (h : e ∈ stableSort lt l) : e ∈ l := by
  induction l with
  | nil => simp [stableSort] at h
  | cons a l ih =>
    simp only [stableSort, List.foldr] at h
    rcases insertSorted_mem _ _ _ _ h with h | h
    · rw [h]; exact List.mem_cons_self
    · exact List.mem_cons_of_mem _ (ih h)

theorem ncSum_map_snd (ncs : List (Bytes × Newcomer)) : ncSum (ncs.map (·.2)) = ncPairsSum ncs := by
  induction ncs with
  | nil => rfl
  | cons e m ih => obtain ⟨k, v⟩ := e; simp [ncSum, ncPairsSum, AM.wsum] at ih ⊢; omega

/-- `handleBatchDeposit` (cap included). Local role with both ledgers non-zero: the holding pool is debited by exactly
Σ of the batch's deposits (accepted, refused-at-cap and rejected newcomers alike). With a zero ledger nothing moves
(the caller then fails in `HandleDexBatchOrders`). Remote role: no holding pool is touched. -/
theorem eff_batchDeposit {s : State} {b : Batch} {c x y : Nat} {isLocal : Bool} {l : Ledger} (hc : c ≤ maxChainId)
    (hp : PoolOk (getPool s (liquidityId c))) (hx64 : x < U64) (hy64 : y < U64)
    (h : batchDeposit s b c x y isLocal = .ok l) :
    ∃ D, Eff c s l.s D ∧ LOk l ∧ (isLocal = false → D = 0) ∧
      (isLocal = true → x ≠ 0 → y ≠ 0 → D = depSum b.deposits) ∧
      ((x = 0 ∨ y = 0) → l.x = x ∧ l.y = y ∧ liqAmt l.s c = liqAmt s c) := by
  unfold batchDeposit at h
  dsimp only at h
  split at h
  · rename_i hds
    injection h with h; subst h
    exact ⟨0, Eff.refl _ _, LOk.mk hp hx64 hy64, fun _ => rfl, fun _ _ _ => by simp [hds, depSum], fun _ => ⟨rfl, rfl, rfl⟩⟩
  · obtain ⟨cl, hcl, h⟩ := bind_ok h
    obtain ⟨hsum, hncs⟩ := classify_spec _ _ _ _ _ (by intro e he; cases he) hcl
    simp only [depSum, ncPairsSum, AM.wsum, List.map_nil, List.sum_nil, Nat.zero_add] at hsum
    split at h
    · obtain ⟨D, e, hpl, hy, hx, hx', hD0, hD1, hz⟩ := eff_batchDepositCore (p0 := some (getPool s (liquidityId c))) hc hp h
      refine ⟨D, e, LOk.mk hpl (hx' hx64) (by rw [hy]; exact hy64), hD0, hD1, ?_⟩
      intro hh
      obtain ⟨a, b', _⟩ := hz hh
      exact ⟨b', hy, by rw [a]⟩
    · obtain ⟨l1, h1, h⟩ := bind_ok h
      obtain ⟨l2, h2, h⟩ := bind_ok h
      injection h with h; subst h
      obtain ⟨D1, e1, hpl1, hy1, hx1, hx1', hD0, hD1, hz1⟩ := eff_batchDepositCore (p0 := some (getPool s (liquidityId c))) hc hp h1
      have hl1 : LOk l1 := LOk.mk hpl1 (hx1' hx64) (by rw [hy1]; exact hy64)
      obtain ⟨D2, e2, hl2, hE0, hE1, hz2⟩ := eff_cappedLoop c isLocal hc _ _ _ _ hl1
        (by intro nc hnc
            have := stableSort_mem _ _ _ hnc
            obtain ⟨e, he, rfl⟩ := List.mem_map.mp this
            exact hncs e he) h2
      refine ⟨D1 + D2 + 0, (e1.trans e2).trans (eff_setPool_liq _ _ hc hl2.pool), LOk.mk hl2.pool hl2.x64 hl2.y64, ?_, ?_, ?_⟩
      · intro hf; simp [hD0 hf, hE0 hf]
      · intro ht hx0 hy0
        obtain ⟨d2, _, _⟩ := hE1 ht (by omega) (by rw [hy1]; exact hy0)
        rw [hD1 ht hx0 hy0, d2]
        have hs := stableSort_sum (fun (a c : Newcomer) => decide (a.amount > c.amount) || (a.amount == c.amount &&
          bytesLt (sha256 (b.receiptHash ++ (a.deposits.head?.map (·.addr)).getD [])) (sha256 (b.receiptHash ++ (c.deposits.head?.map (·.addr)).getD []))))
          (·.amount) (cl.2.map (·.2))
        have hm := ncSum_map_snd cl.2
        simp only [ncSum, depSum, ncPairsSum] at hs hm hsum ⊢
        omega
      · intro hh
        obtain ⟨a, b', d⟩ := hz1 hh
        have : l2 = l1 := hz2 (by rw [b', hy1]; exact hh)
        subst this
        refine ⟨b', hy1, ?_⟩
        show (getPool (setPool l2.s (liquidityId c) l2.p) (liquidityId c)).amount = _
        rw [getPool_setPool_self, d]
        simp [liqAmt]

/-! ### receipts, AMM execution, the two phases of `HandleRemoteDexBatch` -/

def orderSum (os : List LimitOrder) : Nat := (os.map (·.amount)).sum

theorem liqAmt_congr {s s' : State} (h : s'.pools = s.pools) (c : Nat) : liqAmt s' c = liqAmt s c := by
  simp [liqAmt, getPool_congr h]

theorem eff_orderReceipts (c : Nat) (hc : c ≤ maxChainId) : ∀ (os : List LimitOrder) (rs : List Nat) (s : State) (x y : Nat)
    (r : State × Nat × Nat), orderReceipts c os rs s x y = .ok r →
      Eff c s r.1 (orderSum os) ∧ (x = liqAmt s c → r.2.1 = liqAmt r.1 c) ∧ (x < U64 → r.2.1 < U64) ∧ r.2.2 ≤ y := by
  intro os
  induction os with
  | nil =>
    intro rs s x y r h; simp [orderReceipts] at h; subst h
    exact ⟨by simpa [orderSum] using Eff.refl _ _, id, id, Nat.le_refl _⟩
  | cons o os ih =>
    intro rs s x y r h
    unfold orderReceipts at h
    obtain ⟨s1, h1, h⟩ := bind_ok h
    have e1 := eff_poolSub_hold hc h1
    have hl1 : liqAmt s1 c = liqAmt s c := by
      obtain ⟨_, rfl⟩ := poolSub_ok h1
      unfold liqAmt; rw [getPool_setPool_other _ _ _ _ (Ne.symm (holdingId_ne_liq hc hc))]
    dsimp only at h
    split at h
    · split at h
      · cases h
      · obtain ⟨e2, t2, b2, y2⟩ := ih _ _ _ _ _ h
        refine ⟨?_, ?_, fun _ => b2 (Nat.mod_lt _ (by decide)), by omega⟩
        · exact ((e1.trans (eff_poolAdd_liq _ _ hc)).trans e2).cast (by simp only [orderSum, List.map_cons, List.sum_cons]; omega)
        · intro hx
          apply t2
          unfold liqAmt at hl1 hx ⊢
          rw [poolAdd_self, hl1, hx]
    · obtain ⟨s2, h2, h⟩ := bind_ok h
      obtain ⟨e2, t2, b2, y2⟩ := ih _ _ _ _ _ h
      refine ⟨?_, ?_, b2, y2⟩
      · exact ((e1.trans (eff_accountAdd h2)).trans e2).cast (by simp only [orderSum, List.map_cons, List.sum_cons]; omega)
      · intro hx
        apply t2
        rw [liqAmt_congr (accountAdd_ok h2).2.1, hl1, hx]

theorem eff_payReceipts (c : Nat) (hc : c ≤ maxChainId) : ∀ (os : List (OrderKey × LimitOrder)) (res : List (OrderKey × Nat)) (s : State)
    (acc : List Nat) (r : State × List Nat), payReceipts c os res s acc = .ok r → Eff c s r.1 0 := by
  intro os
  induction os with
  | nil => intro res s acc r h; simp [payReceipts] at h; subst h; exact Eff.refl _ _
  | cons o os ih =>
    intro res s acc r h
    obtain ⟨k, o⟩ := o
    unfold payReceipts at h
    dsimp only at h
    split at h
    · obtain ⟨s1, h1, h⟩ := bind_ok h
      obtain ⟨s2, h2, h⟩ := bind_ok h
      exact (((eff_poolSub_liq hc h1).trans (eff_accountAdd h2)).trans (ih _ _ _ _ h)).cast rfl
    · exact ih _ _ _ _ h

theorem ammLoop_bounds : ∀ (l : List (OrderKey × LimitOrder)) (i x y : Nat) (res : List (OrderKey × Nat)) (r : Nat × Nat × List (OrderKey × Nat)),
    ammLoop l i x y res = .ok r → (x < U64 → r.1 < U64) ∧ r.2.1 ≤ y := by
  intro l
  induction l with
  | nil => intro i x y res r h; simp [ammLoop] at h; subst h; exact ⟨id, Nat.le_refl _⟩
  | cons e l ih =>
    intro i x y res r h
    obtain ⟨k, o⟩ := e
    unfold ammLoop at h
    split at h
    · injection h with h; subst h; exact ⟨id, Nat.le_refl _⟩
    · split at h
      · cases h
      · rename_i dY0 _
        dsimp only at h
        generalize (if dY0 < o.requested then 0 else dY0) = dY at h
        by_cases hd : dY ≠ 0
        · rw [if_pos hd] at h
          by_cases hov : (addUint64 x o.amount).2 = true
          · rw [if_pos hov] at h; cases h
          · rw [if_neg hov] at h
            obtain ⟨b1, b2⟩ := ih _ _ _ _ _ h
            exact ⟨fun _ => b1 (addUint64_lt _ _), by omega⟩
        · rw [if_neg hd] at h
          exact ih _ _ _ _ _ h

theorem eff_dexBatchOrders {s : State} {os : List LimitOrder} {bh : Bytes} {x y c : Nat} {r : State × Nat × Nat × List Nat}
    (hc : c ≤ maxChainId) (h : dexBatchOrders s os bh x y c = .ok r) :
    Eff c s r.1 0 ∧ x ≠ 0 ∧ y ≠ 0 ∧ (x < U64 → r.2.1 < U64) ∧ r.2.2.1 ≤ y := by
  unfold dexBatchOrders at h
  dsimp only at h
  split at h
  · cases h
  · rename_i hz
    obtain ⟨a, ha, h⟩ := bind_ok h
    obtain ⟨p, hp, h⟩ := bind_ok h
    injection h with h; subst h
    obtain ⟨b1, b2⟩ := ammLoop_bounds _ _ _ _ _ _ ha
    exact ⟨eff_payReceipts c hc _ _ _ _ _ hp, fun hx => hz (Or.inl hx), fun hy => hz (Or.inr hy), b1, b2⟩

/-- percents of a batch's withdrawals -/
def PctOk (ws : List Withdraw) : Prop := ∀ w ∈ ws, w.percent ≤ 100

/-- steps 2+3: no holding pool moves; it only succeeds with both reserves non-zero; then it rotates -/
theorem eff_executeRemote {s s' : State} {remote : Batch} {c : Nat} {bh : Bytes} {mirror : Nat} (hc : c ≤ maxChainId)
    (hpi : PInv s) (hw : PctOk remote.withdrawals) (hm : mirror < U64)
    (h : executeRemote s remote c bh mirror = .ok s') :
    mirror ≠ 0 ∧ liqAmt s c ≠ 0 ∧ ∃ s1 rh a b rs, Eff c s s1 0 ∧ s' = rotate s1 rh a b c rs := by
  unfold executeRemote at h
  dsimp only at h
  obtain ⟨r, hr, h⟩ := bind_ok h
  obtain ⟨l1, hl1, h⟩ := bind_ok h
  obtain ⟨l2, hl2, h⟩ := bind_ok h
  injection h with h; subst h
  obtain ⟨e0, hx0, hy0, bx, by'⟩ := eff_dexBatchOrders hc hr
  have hp0 := e0.pinv hpi
  obtain ⟨e1, hp1, bx1, by1⟩ := eff_batchWithdraw (p0 := none) hc hw (hp0 _) hl1
  have hp1' := e1.pinv hp0
  have hliq64 : (getPool s (liquidityId c)).amount < U64 := (hpi _).amt
  obtain ⟨D, e2, _, hD0, _, _⟩ := eff_batchDeposit hc (hp1' _) (bx1 (bx hm)) (by1 (by omega)) hl2
  refine ⟨hx0, hy0, l2.s, _, _, _, _, ?_, rfl⟩
  have := (e0.trans e1).trans e2
  rw [hD0 rfl] at this
  exact this

/-- step 1 (receipt hash matched): the holding pool is debited by the whole pending Σ of our locked batch — unless a
ledger was zero when the deposits were reached, in which case the mirror or our pool is zero and step 2 will fail -/
theorem eff_applyReceipts {s : State} {lb remote : Batch} {c : Nat} {r : State × Nat} (hc : c ≤ maxChainId)
    (hpi : PInv s) (hw : PctOk lb.withdrawals) (hm : remote.poolSize < U64)
    (h : applyReceipts s lb remote c = .ok r) :
    ∃ s1 D, Eff c s s1 D ∧ r.1 = delLocked s1 c ∧ r.2 < U64 ∧ (D = lb.pending ∨ r.2 = 0 ∨ liqAmt s1 c = 0) := by
  unfold applyReceipts at h
  obtain ⟨r0, hr0, h⟩ := bind_ok h
  obtain ⟨l1, hl1, h⟩ := bind_ok h
  obtain ⟨l2, hl2, h⟩ := bind_ok h
  injection h with h; subst h
  obtain ⟨e0, t0, b0, y0⟩ := eff_orderReceipts c hc _ _ _ _ _ _ hr0
  have hp0 := e0.pinv hpi
  obtain ⟨e1, hp1, bx1, by1⟩ := eff_batchWithdraw (p0 := none) hc hw (hp0 _) hl1
  have t1 := batchWithdraw_track (t0 rfl) hl1
  have hp1' := e1.pinv hp0
  have hx64 : l1.x < U64 := bx1 (b0 (hpi _).amt)
  have hy64 : l1.y < U64 := by1 (by omega)
  obtain ⟨D, e2, hl2ok, _, hD1, hz⟩ := eff_batchDeposit hc (hp1' _) hx64 hy64 hl2
  refine ⟨l2.s, _, (e0.trans e1).trans e2, rfl, hl2ok.y64, ?_⟩
  by_cases hxy : l1.x = 0 ∨ l1.y = 0
  · obtain ⟨hx, hy, hliq⟩ := hz hxy
    rcases hxy with h0 | h0
    · right; right; rw [hliq, ← t1, h0]
    · right; left; show l2.y = 0; rw [hy, h0]
  · left
    have : l1.x ≠ 0 ∧ l1.y ≠ 0 := by omega
    rw [hD1 rfl this.1 this.2]
    simp [Batch.pending, orderSum, depSum]

theorem eff_refundAll (c : Nat) (hc : c ≤ maxChainId) : ∀ (l : List (Bytes × Nat)) (s s' : State),
    refundAll c l s = .ok s' → Eff c s s' (l.map (·.2)).sum := by
  intro l
  induction l with
  | nil => intro s s' h; simp [refundAll] at h; subst h; simpa using Eff.refl _ _
  | cons e l ih =>
    intro s s' h
    obtain ⟨a, n⟩ := e
    unfold refundAll at h
    split at h
    · cases h
    · rename_i s1 hr
      unfold refund at hr
      obtain ⟨s0, h0, hr⟩ := bind_ok hr
      exact (((eff_poolSub_hold hc h0).trans (eff_accountAdd hr)).trans (ih _ _ h)).cast (by simp)

/-- the fallback: refund everything pending in our locked batch, install the remote table, drop the batch -/
theorem eff_livenessFallback {s s' : State} {c : Nat} {lb remote : Batch} (hc : c ≤ maxChainId)
    (hrt : ptsSum remote.poolPoints = remote.totalPoolPoints ∧ remote.totalPoolPoints < U64)
    (h : livenessFallback s c lb remote = .ok s') :
    ∃ s1, Eff c s s1 lb.pending ∧ s' = setLocked s1 c {} := by
  unfold livenessFallback at h
  obtain ⟨s1, h1, h⟩ := bind_ok h
  obtain ⟨s2, h2, h⟩ := bind_ok h
  injection h with h; subst h
  have e1 := eff_refundAll c hc _ _ _ h1
  have e2 := eff_refundAll c hc _ _ _ h2
  refine ⟨_, ?_, rfl⟩
  have e12 := e1.trans e2
  have hsum : (List.map (fun x => x.2) (List.map (fun (o : LimitOrder) => (o.addr, o.amount)) lb.orders)).sum +
      (List.map (fun x => x.2) (List.map (fun (d : Deposit) => (d.addr, d.amount)) lb.deposits)).sum = lb.pending := by
    simp [Batch.pending, List.map_map, Function.comp_def]
  refine ⟨e12.next, e12.locked, e12.height, e12.root, ?_, ?_, ?_⟩
  · have := e12.hold
    unfold holdAmt at this ⊢
    rw [getPool_setPool_other _ _ _ _ (holdingId_ne_liq hc hc)]
    omega
  · intro c' h' hne
    have := e12.holdOther c' h' hne
    unfold holdAmt at this ⊢
    rw [getPool_setPool_other _ _ _ _ (holdingId_ne_liq hc h')]
    exact this
  · intro hp
    have hp2 := e12.pinv hp
    exact pinv_setPool hp2 ⟨⟨hrt.1, hrt.2⟩, (hp2 _).amt⟩

end Canopy.Dex
