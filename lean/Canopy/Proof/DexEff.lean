import Canopy.Proof.DexPoints
import Canopy.Proof.DexHold
/-! Effects of the DEX functions on the holding pool, the stored batches and the pool tables, in the form needed
for the run-level invariants `holding_eq` and `points_sum` (C20). Core Lean only. -/
namespace Canopy.Dex

def liqAmt (s : State) (c : Nat) : Nat := (getPool s (liquidityId c)).amount

/-- a pool is well formed: Σ points = total (a `uint64`) and the balance is a `uint64` -/
structure PoolOk (p : Pool) : Prop where
  pts : PointsOk p
  amt : p.amount < U64

/-- every pool of the state is well formed -/
def PInv (s : State) : Prop := ∀ id, PoolOk (getPool s id)

theorem poolOk_empty : PoolOk {} := ⟨⟨rfl, by decide⟩, by decide⟩

/-- what an inner DEX function may do: it leaves the stored batches and the height alone, debits the holding pool of
chain `c` by exactly `debit`, leaves the other holding pools alone, and keeps every pool well formed -/
structure Eff (c : Nat) (s s' : State) (debit : Nat) : Prop where
  next : s'.next = s.next
  locked : s'.locked = s.locked
  height : s'.height = s.height
  root : s'.root = s.root
  hold : holdAmt s' c + debit = holdAmt s c
  holdOther : ∀ c', c' ≤ maxChainId → c' ≠ c → holdAmt s' c' = holdAmt s c'
  pinv : PInv s → PInv s'

theorem Eff.refl (c : Nat) (s : State) : Eff c s s 0 :=
  ⟨rfl, rfl, rfl, rfl, rfl, fun _ _ _ => rfl, id⟩

theorem Eff.trans {c : Nat} {a b d : State} {m n : Nat} (h1 : Eff c a b m) (h2 : Eff c b d n) : Eff c a d (m + n) :=
  ⟨h2.next.trans h1.next, h2.locked.trans h1.locked, h2.height.trans h1.height, h2.root.trans h1.root,
   by have := h1.hold; have := h2.hold; omega,
   fun c' h hne => (h2.holdOther c' h hne).trans (h1.holdOther c' h hne), fun h => h2.pinv (h1.pinv h)⟩

theorem Eff.cast {c : Nat} {a b : State} {m n : Nat} (h : Eff c a b m) (e : m = n) : Eff c a b n := e ▸ h

theorem holdingId_inj {c c' : Nat} (h : c ≤ maxChainId) (h' : c' ≤ maxChainId) (e : holdingId c' = holdingId c) : c' = c := by
  unfold holdingId Gen.Dex.HoldingPoolAddend U64 at e; unfold maxChainId at h h'; omega

theorem holdingId_ne_liq {c c' : Nat} (h : c ≤ maxChainId) (h' : c' ≤ maxChainId) : holdingId c' ≠ liquidityId c := by
  unfold holdingId liquidityId Gen.Dex.HoldingPoolAddend Gen.Dex.LiquidityPoolAddend U64; unfold maxChainId at h h'; omega

theorem pinv_congr {s s' : State} (h : s'.pools = s.pools) (hp : PInv s) : PInv s' :=
  fun id => by rw [getPool_congr h]; exact hp id

theorem pinv_setPool {s : State} {id : Nat} {p : Pool} (hp : PInv s) (hok : PoolOk p) : PInv (setPool s id p) := by
  intro id'
  by_cases h : id' = id
  · subst h; rw [getPool_setPool_self]; exact hok
  · rw [getPool_setPool_other _ _ _ _ h]; exact hp id'

theorem eff_of_pools_eq {c : Nat} {s s' : State} (hn : s'.next = s.next) (hl : s'.locked = s.locked) (hh : s'.height = s.height)
    (hr : s'.root = s.root) (hp : s'.pools = s.pools) : Eff c s s' 0 :=
  ⟨hn, hl, hh, hr, by simp [holdAmt_congr hp], fun c' _ _ => holdAmt_congr hp c', pinv_congr hp⟩

theorem accountAdd_fields {s s' : State} {a : Bytes} {n : Nat} (h : accountAdd s a n = .ok s') :
    s'.height = s.height ∧ s'.root = s.root := by
  rcases (accountAdd_ok h).2.2.2.2 with ⟨rfl, _⟩ | ⟨_, _, rfl⟩ <;> exact ⟨rfl, rfl⟩

theorem accountSub_fields {s s' : State} {a : Bytes} {n : Nat} (h : accountSub s a n = .ok s') :
    s'.height = s.height ∧ s'.root = s.root := by
  rcases (accountSub_ok h).2.2.2.2.2 with ⟨rfl, _⟩ | ⟨_, rfl⟩ <;> exact ⟨rfl, rfl⟩

theorem eff_accountAdd {c : Nat} {s s' : State} {a : Bytes} {n : Nat} (h : accountAdd s a n = .ok s') : Eff c s s' 0 :=
  have ⟨_, hp, hn, hl, _⟩ := accountAdd_ok h
  eff_of_pools_eq hn hl (accountAdd_fields h).1 (accountAdd_fields h).2 hp

theorem eff_accountSub {c : Nat} {s s' : State} {a : Bytes} {n : Nat} (h : accountSub s a n = .ok s') : Eff c s s' 0 :=
  have ⟨_, hp, hn, hl, _⟩ := accountSub_ok h
  eff_of_pools_eq hn hl (accountSub_fields h).1 (accountSub_fields h).2 hp

/-- rewriting one pool: only its own holding balance can move -/
theorem eff_setPool_liq {c : Nat} (s : State) (p : Pool) (hc : c ≤ maxChainId) (hok : PoolOk p) :
    Eff c s (setPool s (liquidityId c) p) 0 :=
  ⟨rfl, rfl, rfl, rfl,
   by unfold holdAmt; rw [getPool_setPool_other _ _ _ _ (holdingId_ne_liq hc hc)]; rfl,
   fun c' h _ => by unfold holdAmt; rw [getPool_setPool_other _ _ _ _ (holdingId_ne_liq hc h)],
   fun hp => pinv_setPool hp hok⟩

theorem poolOk_amount {p : Pool} (hp : PoolOk p) {a : Nat} (ha : a < U64) : PoolOk { p with amount := a } :=
  ⟨⟨hp.pts.sum, hp.pts.fits⟩, ha⟩

theorem eff_poolAdd_liq {c : Nat} (s : State) (n : Nat) (hc : c ≤ maxChainId) :
    Eff c s (poolAdd s (liquidityId c) n) 0 :=
  ⟨rfl, rfl, rfl, rfl,
   by unfold holdAmt; rw [poolAdd_other _ _ _ _ (holdingId_ne_liq hc hc)]; rfl,
   fun c' h _ => by unfold holdAmt; rw [poolAdd_other _ _ _ _ (holdingId_ne_liq hc h)],
   fun hp => pinv_setPool hp (poolOk_amount (hp _) (Nat.mod_lt _ (by decide)))⟩

theorem eff_poolSub_liq {c : Nat} {s s' : State} {n : Nat} (hc : c ≤ maxChainId)
    (h : poolSub s (liquidityId c) n = .ok s') : Eff c s s' 0 := by
  obtain ⟨hle, rfl⟩ := poolSub_ok h
  refine ⟨rfl, rfl, rfl, rfl, ?_, ?_, ?_⟩
  · unfold holdAmt; rw [getPool_setPool_other _ _ _ _ (holdingId_ne_liq hc hc)]; rfl
  · intro c' h' _; unfold holdAmt; rw [getPool_setPool_other _ _ _ _ (holdingId_ne_liq hc h')]
  · intro hp; exact pinv_setPool hp (poolOk_amount (hp _) (by have := (hp (liquidityId c)).amt; omega))

theorem eff_poolSub_hold {c : Nat} {s s' : State} {n : Nat} (hc : c ≤ maxChainId)
    (h : poolSub s (holdingId c) n = .ok s') : Eff c s s' n := by
  have hh := holdAmt_poolSub h
  obtain ⟨hle, rfl⟩ := poolSub_ok h
  refine ⟨rfl, rfl, rfl, rfl, hh, ?_, ?_⟩
  · intro c' h' hne; unfold holdAmt
    rw [getPool_setPool_other _ _ _ _ (fun e => hne (holdingId_inj hc h' e))]
  · intro hp; exact pinv_setPool hp (poolOk_amount (hp _) (by have := (hp (holdingId c)).amt; omega))

/-! ### withdrawals -/

theorem subU64_lt (a b : Nat) : subU64 a b < U64 := Nat.mod_lt _ (by decide)

theorem eff_withdrawPay (c : Nat) (tx ty T : Nat) (isLocal : Bool) (st' : WState) :
    ∀ (ws : List Withdraw) (st : WState), withdrawPay tx ty T isLocal ws st = .ok st' → Eff c st.s st'.s 0 := by
  intro ws
  induction ws with
  | nil => intro st h; simp [withdrawPay] at h; subst h; exact Eff.refl _ _
  | cons w ws ih =>
    intro st h
    unfold withdrawPay at h
    split at h
    · exact ih _ h
    · obtain ⟨s1, h1, h⟩ := bind_ok h
      exact ((eff_accountAdd h1).trans (ih _ h)).cast rfl

/-- `handleBatchWithdraw`: no effect on holding pools or stored batches; the pool it leaves is well formed; ledgers stay `uint64` -/
theorem eff_batchWithdraw {s : State} {ws : List Withdraw} {c x y : Nat} {isLocal : Bool} {p0 : Option Pool} {persist : Bool}
    {l : Ledger} (hc : c ≤ maxChainId) (hw : ∀ w ∈ ws, w.percent ≤ 100) (hp : PoolOk (p0.getD (getPool s (liquidityId c))))
    (h : batchWithdraw s ws c x y isLocal p0 persist = .ok l) :
    Eff c s l.s 0 ∧ PoolOk l.p ∧ (x < U64 → l.x < U64) ∧ (y < U64 → l.y < U64) := by
  have hpts := batchWithdraw_points hw hp.pts h
  unfold batchWithdraw at h
  dsimp only at h
  split at h
  · injection h with h; subst h; exact ⟨Eff.refl _ _, hp, id, id⟩
  · obtain ⟨T, _, h⟩ := bind_ok h
    split at h
    · injection h with h; subst h
      have hok : PoolOk { (p0.getD (getPool s (liquidityId c))) with points := dropZero (p0.getD (getPool s (liquidityId c))).points } :=
        ⟨hpts, hp.amt⟩
      refine ⟨?_, hok, id, id⟩
      dsimp only
      split
      · exact eff_setPool_liq _ _ hc hok
      · exact Eff.refl _ _
    · obtain ⟨st, hst, h⟩ := bind_ok h
      have e1 := eff_withdrawPay c _ _ _ _ _ _ _ hst
      split at h
      · cases h
      · injection h with h; subst h
        have hok : PoolOk _ := ⟨hpts, by dsimp only; split <;> exact subU64_lt _ _⟩
        refine ⟨?_, hok, fun _ => subU64_lt _ _, fun _ => subU64_lt _ _⟩
        dsimp only
        split
        · exact (e1.trans (eff_setPool_liq _ _ hc hok)).cast rfl
        · exact e1

/-- the local ledger `x` of the origin role is the liquidity pool's balance, before and after -/
theorem batchWithdraw_track {s : State} {ws : List Withdraw} {c x y : Nat} {l : Ledger}
    (hx : x = liqAmt s c) (h : batchWithdraw s ws c x y true none true = .ok l) : l.x = liqAmt l.s c := by
  unfold batchWithdraw at h
  dsimp only at h
  split at h
  · injection h with h; subst h; exact hx
  · obtain ⟨T, _, h⟩ := bind_ok h
    split at h
    · injection h with h; subst h
      show x = (getPool (setPool s (liquidityId c) _) (liquidityId c)).amount
      rw [getPool_setPool_self]; exact hx
    · obtain ⟨st, hst, h⟩ := bind_ok h
      split at h
      · cases h
      · injection h with h; subst h
        show _ = (getPool (setPool st.s (liquidityId c) _) (liquidityId c)).amount
        rw [getPool_setPool_self]
        rfl

end Canopy.Dex
