import Canopy.Proof.LedgerTally
/-! C12: the chain never wedges itself — an empty block (begin-block mint + EndBlock) applies on every ledger that
satisfies the supply and staking invariants, and leaves a ledger on which the next one applies. -/
namespace Canopy.Ledger
open AMap

set_option linter.unusedSimpArgs false
set_option linter.unusedVariables false

/-! ### key sets -/

theorem has_iff_mem_keys {κ} [DecidableEq κ] (m : KSet κ) (k : κ) : KSet.has m k = true ↔ k ∈ m.map (·.1) := by
  unfold KSet.has AMap.mem
  constructor
  · intro h
    cases hf : find? m k with
    | none => rw [hf] at h; cases h
    | some v => exact mem_keys_of_find? m k v hf
  · intro h
    cases hf : find? m k with
    | none =>
      exfalso
      induction m with
      | nil => simp at h
      | cons e t ih =>
        obtain ⟨k₀, v⟩ := e
        by_cases h0 : k₀ = k
        · simp [find?, h0] at hf
        · simp only [find?, h0, if_false] at hf
          simp only [List.map_cons, List.mem_cons] at h
          rcases h with h | h
          · exact h0 h.symm
          · exact ih h hf
    | some v => rfl

theorem has_add {κ} [DecidableEq κ] [KLt κ] [LawfulKLt κ] (m : KSet κ) (k k' : κ) :
    KSet.has (KSet.add m k) k' = true ↔ k = k' ∨ KSet.has m k' = true := by
  unfold KSet.has KSet.add AMap.mem
  rw [find?_set]
  by_cases h : k = k'
  · simp [h]
  · simp [h]

theorem has_del_of {κ} [DecidableEq κ] (m : KSet κ) (k k' : κ) (h : KSet.has (KSet.del m k) k' = true) : KSet.has m k' = true := by
  rw [has_iff_mem_keys] at h ⊢
  exact keys_erase_subset m k k' h

theorem has_del_ne {κ} [DecidableEq κ] (m : KSet κ) {k k' : κ} (hne : k ≠ k') : KSet.has (KSet.del m k) k' = KSet.has m k' := by
  unfold KSet.has KSet.del AMap.mem; rw [find?_erase_ne m hne]

theorem has_del_self {κ} [DecidableEq κ] (m : KSet κ) (k : κ) (hn : NodupKeys m) : KSet.has (KSet.del m k) k = false := by
  unfold KSet.has KSet.del AMap.mem; rw [find?_erase_self m k hn]; rfl

/-! ### the ledgers on which blocks keep applying -/

/-- every unstaking marker refers to an existing validator that is unstaking at exactly that (non-zero) height -/
def UnstakingSound (L : Ledger) : Prop :=
  ∀ h a, KSet.has L.unstaking (h, a) = true → ∃ v, valGet? L a = some v ∧ v.unstakingHeight = h ∧ h ≠ 0

structure Live (L : Ledger) : Prop where
  supply : InvSupply L
  tallies : Tallies L
  vals : NodupKeys L.validators
  pools : Pools L
  unst : NodupKeys L.unstaking
  sound : UnstakingSound L

/-! ### weights that a status change does not touch -/

theorem sumBy_set_same {f : Validator → Nat} {m : List (Addr × Validator)} {a : Addr} {old v : Validator}
    (hg : find? m a = some old) (hw : f v = f old) : sumBy f (AMap.set m a v) = sumBy f m := by
  have := sumBy_set f m a v; rw [hg] at this; simp only [ow_some] at this; omega

/-- rewriting the status fields of an existing record keeps all four tallies -/
theorem tallies_status {L L' : Ledger} {a : Addr} {old v : Validator} (ht : Tallies L) (hg : valGet? L a = some old)
    (hs : L'.supply = L.supply) (hv : L'.validators = AMap.set L.validators a v)
    (h1 : v.stake = old.stake) (h2 : v.delegate = old.delegate) (h3 : v.committees = old.committees) : Tallies L' := by
  unfold valGet? at hg
  refine ⟨?_, ?_, ?_, ?_⟩
  · show L'.supply.staked = sumBy _ L'.validators
    rw [hs, hv, sumBy_set_same hg (by simp [h1])]; exact ht.staked
  · show L'.supply.delegatedOnly = sumBy _ L'.validators
    rw [hs, hv, sumBy_set_same hg (by simp [h1, h2])]; exact ht.delegated
  · intro c
    show NMap.get L'.supply.committee c = sumBy _ L'.validators
    rw [hs, hv, sumBy_set_same hg (by simp [h1, h3])]; exact ht.committee c
  · intro c
    show NMap.get L'.supply.delegated c = sumBy _ L'.validators
    rw [hs, hv, sumBy_set_same hg (by simp [h1, h2, h3])]; exact ht.committeeDelegated c

/-! ### force-unstaking a paused validator -/

theorem forceUnstakeValidator_live {L : Ledger} (a : Addr) (hl : Live L) (hh : (L.height + L.params.unstakingBlocks) % U64 ≠ 0) :
    Live (forceUnstakeValidator L a) ∧ (forceUnstakeValidator L a).height = L.height ∧
    (forceUnstakeValidator L a).params = L.params ∧ (forceUnstakeValidator L a).cfg = L.cfg ∧
    (forceUnstakeValidator L a).committeesData = L.committeesData := by
  unfold forceUnstakeValidator
  split
  · exact ⟨hl, rfl, rfl, rfl, rfl⟩
  · next val hv =>
    split
    · exact ⟨hl, rfl, rfl, rfl, rfl⟩
    · next hu =>
      have hu0 : val.unstakingHeight = 0 := by simpa using hu
      generalize hf : (L.height + L.params.unstakingBlocks) % U64 = f at hh ⊢
      have hm := setValidatorUnstaking_money L a val f
      have hvv := setValidatorUnstaking_validators L a val f
      have hun : (setValidatorUnstaking L a val f).unstaking = KSet.add L.unstaking (f, a) := by
        unfold setValidatorUnstaking valPut; split <;> rfl
      refine ⟨⟨?_, ?_, ?_, ?_, ?_, ?_⟩, ?_, ?_, ?_, ?_⟩
      · exact (moves_of_money hm (stakeSum_setValidatorUnstaking _ hv rfl)).inv hl.supply
      · exact tallies_status hl.tallies hv hm.supply hvv rfl rfl rfl
      · rw [hvv]; exact nodup_set _ _ _ hl.vals
      · exact ⟨by rw [hm.supply]; exact hl.pools.committee, by rw [hm.supply]; exact hl.pools.delegated⟩
      · rw [hun]; exact nodup_set _ _ _ hl.unst
      · intro h' b hb
        rw [hun, has_add] at hb
        rcases hb with hb | hb
        · simp only [Prod.mk.injEq] at hb
          obtain ⟨rfl, rfl⟩ := hb
          refine ⟨{ val with maxPausedHeight := 0, unstakingHeight := f }, ?_, rfl, hh⟩
          unfold valGet?; rw [hvv, find?_set_self]
        · obtain ⟨v, hv', he, hne⟩ := hl.sound h' b hb
          have hba : a ≠ b := by
            intro e; subst e
            rw [hv] at hv'; cases hv'
            exact hne (he ▸ hu0)
          exact ⟨v, by unfold valGet?; rw [hvv, find?_set_ne _ _ hba]; exact hv', he, hne⟩
      · unfold setValidatorUnstaking valPut; split <;> rfl
      · unfold setValidatorUnstaking valPut; split <;> rfl
      · unfold setValidatorUnstaking valPut; split <;> rfl
      · unfold setValidatorUnstaking valPut; split <;> rfl

/-- facts about the block context that the end-block actions never change -/
structure SameCtx (L L' : Ledger) : Prop where
  height : L'.height = L.height
  params : L'.params = L.params
  cfg : L'.cfg = L.cfg
  committeesData : L'.committeesData = L.committeesData

theorem SameCtx.refl (L : Ledger) : SameCtx L L := ⟨rfl, rfl, rfl, rfl⟩
theorem SameCtx.trans {A B C : Ledger} (h1 : SameCtx A B) (h2 : SameCtx B C) : SameCtx A C :=
  ⟨h2.height.trans h1.height, h2.params.trans h1.params, h2.cfg.trans h1.cfg, h2.committeesData.trans h1.committeesData⟩

theorem foldl_forceUnstake_live : ∀ (as : List Addr) (L : Ledger), Live L → (L.height + L.params.unstakingBlocks) % U64 ≠ 0 →
    Live (as.foldl forceUnstakeValidator L) ∧ SameCtx L (as.foldl forceUnstakeValidator L)
  | [], L, hl, _ => ⟨hl, SameCtx.refl L⟩
  | a :: as, L, hl, hh => by
    obtain ⟨l1, e1, e2, e3, e4⟩ := forceUnstakeValidator_live a hl hh
    obtain ⟨l2, c2⟩ := foldl_forceUnstake_live as (forceUnstakeValidator L a) l1 (by rw [e1, e2]; exact hh)
    exact ⟨l2, (⟨e1, e2, e3, e4⟩ : SameCtx L _).trans c2⟩

theorem foldl_pausedDel_frame : ∀ (as : List Addr) (L : Ledger),
    let L' := as.foldl (fun L a => { L with paused := KSet.del L.paused (L.height, a) }) L
    L'.validators = L.validators ∧ L'.unstaking = L.unstaking ∧ L'.supply = L.supply ∧ L'.accounts = L.accounts ∧
    L'.pools = L.pools ∧ SameCtx L L'
  | [], L => ⟨rfl, rfl, rfl, rfl, rfl, SameCtx.refl L⟩
  | a :: as, L => by
    obtain ⟨i1, i2, i3, i4, i5, i6⟩ := foldl_pausedDel_frame as { L with paused := KSet.del L.paused (L.height, a) }
    exact ⟨i1, i2, i3, i4, i5, ⟨i6.height, i6.params, i6.cfg, i6.committeesData⟩⟩

/-- `ForceUnstakeMaxPaused` keeps the ledger live -/
theorem forceUnstakeMaxPaused_live {L : Ledger} (hl : Live L) (hh : (L.height + L.params.unstakingBlocks) % U64 ≠ 0) :
    Live (forceUnstakeMaxPaused L) ∧ SameCtx L (forceUnstakeMaxPaused L) := by
  unfold forceUnstakeMaxPaused
  dsimp only
  obtain ⟨l1, c1⟩ := foldl_forceUnstake_live (dueAt L.paused L.height) L hl hh
  obtain ⟨i1, i2, i3, i4, i5, i6⟩ := foldl_pausedDel_frame (dueAt L.paused L.height) ((dueAt L.paused L.height).foldl forceUnstakeValidator L)
  refine ⟨⟨?_, ?_, ?_, ?_, ?_, ?_⟩, c1.trans i6⟩
  · have m : SameBal ((dueAt L.paused L.height).foldl forceUnstakeValidator L) _ := ⟨by rw [i3], i4, i5, i1⟩
    exact m.moves.inv l1.supply
  · have t := l1.tallies
    exact ⟨by unfold stakeSum; rw [i3, i1]; exact t.staked, by unfold dstakeSum; rw [i3, i1]; exact t.delegated,
      fun c => by unfold comGet comSum; rw [i3, i1]; exact t.committee c,
      fun c => by unfold delGet dcomSum; rw [i3, i1]; exact t.committeeDelegated c⟩
  · rw [i1]; exact l1.vals
  · exact ⟨by rw [i3]; exact l1.pools.committee, by rw [i3]; exact l1.pools.delegated⟩
  · rw [i2]; exact l1.unst
  · intro h a hb
    rw [i2] at hb
    obtain ⟨v, hv, he, hne⟩ := l1.sound h a hb
    exact ⟨v, by unfold valGet?; rw [i1]; exact hv, he, hne⟩

/-! ### finishing unstaking -/

/-- one finished unstaking succeeds on a live ledger and leaves everything but the marker set in order -/
theorem finishUnstakingStep_ok_of {L : Ledger} {a : Addr} {val : Validator} (hi : InvSupply L) (ht : Tallies L)
    (hn : NodupKeys L.validators) (hp : Pools L) (hg : valGet? L a = some val) :
    ∃ L', finishUnstakingStep L a = .ok L' ∧ InvSupply L' ∧ Tallies L' ∧ NodupKeys L'.validators ∧ Pools L' ∧
      L'.validators = AMap.erase L.validators a ∧ L'.unstaking = L.unstaking ∧ SameCtx L L' := by
  unfold finishUnstakingStep
  rw [hg]
  dsimp only
  -- the output account cannot overflow: account + stake ≤ accounts + stakes ≤ total < 2^64
  have h1 := accGet_le L val.output
  have h2 := stake_le L a val hg
  obtain ⟨i1, i2⟩ := hi
  have hadd : ∃ L1, accountAdd L val.output val.stake = .ok L1 := by
    unfold accountAdd
    split
    · exact ⟨L, rfl⟩
    · rw [if_neg (by unfold bal at i1; unfold MAXU; unfold U64 at i2; omega)]; exact ⟨_, rfl⟩
  obtain ⟨L1, hL1⟩ := hadd
  rw [hL1]
  dsimp only
  obtain ⟨acc, vs, rfl, e1⟩ := accountAdd_ok hL1
  have ht1 : Tallies { L with accounts := acc, vesting := vs } := ⟨ht.staked, ht.delegated, ht.committee, ht.committeeDelegated⟩
  have hp1 : Pools { L with accounts := acc, vesting := vs } := ⟨hp.committee, hp.delegated⟩
  have hg1 : valGet? { L with accounts := acc, vesting := vs } a = some val := hg
  obtain ⟨L', hd⟩ := deleteValidator_ok_of ht1 hp1 hg1
  obtain ⟨t', p', v', env⟩ := deleteValidator_tallies ht1 hp1 hg1 hd
  refine ⟨L', hd, ?_, t', ?_, p', v', env.unstaking, ⟨env.height, env.params, env.cfg, env.committeesData⟩⟩
  · have m := finishUnstakingStep_moves (L := L) (a := a) (L' := L') (by
      unfold finishUnstakingStep; rw [hg]; dsimp only; rw [hL1]; exact hd)
    exact m.inv ⟨i1, i2⟩
  · rw [v']; exact nodup_erase _ _ hn

theorem foldlM_finishUnstaking_ok : ∀ (as : List Addr) (L : Ledger), InvSupply L → Tallies L → NodupKeys L.validators → Pools L →
    as.Nodup → (∀ a ∈ as, ∃ v, valGet? L a = some v) →
    ∃ L', as.foldlM finishUnstakingStep L = .ok L' ∧ InvSupply L' ∧ Tallies L' ∧ NodupKeys L'.validators ∧ Pools L' ∧
      L'.unstaking = L.unstaking ∧ SameCtx L L' ∧
      (∀ b, b ∉ as → valGet? L' b = valGet? L b) ∧ (∀ b ∈ as, valGet? L' b = none)
  | [], L, hi, ht, hn, hp, _, _ => ⟨L, rfl, hi, ht, hn, hp, rfl, SameCtx.refl L, fun _ _ => rfl, fun _ h => by simp at h⟩
  | a :: as, L, hi, ht, hn, hp, hnd, hex => by
    rw [List.nodup_cons] at hnd
    obtain ⟨val, hg⟩ := hex a (List.mem_cons_self ..)
    obtain ⟨L1, h1, i1, t1, n1, p1, v1, u1, c1⟩ := finishUnstakingStep_ok_of hi ht hn hp hg
    have hex1 : ∀ b ∈ as, ∃ v, valGet? L1 b = some v := by
      intro b hb
      obtain ⟨v, hv⟩ := hex b (List.mem_cons_of_mem _ hb)
      have hne : a ≠ b := fun e => hnd.1 (e ▸ hb)
      exact ⟨v, by unfold valGet?; rw [v1, find?_erase_ne _ hne]; exact hv⟩
    obtain ⟨L', h2, i2, t2, n2, p2, u2, c2, k2, d2⟩ := foldlM_finishUnstaking_ok as L1 i1 t1 n1 p1 hnd.2 hex1
    refine ⟨L', by simp only [List.foldlM_cons, h1]; exact h2, i2, t2, n2, p2, u2.trans u1, c1.trans c2, ?_, ?_⟩
    · intro b hb
      simp only [List.mem_cons, not_or] at hb
      rw [k2 b hb.2]; unfold valGet?; rw [v1, find?_erase_ne _ (Ne.symm hb.1)]
    · intro b hb
      simp only [List.mem_cons] at hb
      by_cases hba : b ∈ as
      · exact d2 b hba
      · rcases hb with rfl | hb
        · rw [k2 b hba]; unfold valGet?; rw [v1, find?_erase_self _ _ hn]
        · exact absurd hb hba

/-! ### the addresses due at a height -/

theorem mem_dueAt (m : KSet (Nat × Addr)) (h : Nat) (a : Addr) : a ∈ dueAt m h ↔ (h, a) ∈ m.map (·.1) := by
  unfold dueAt
  simp only [List.mem_filterMap, List.mem_map]
  constructor
  · rintro ⟨e, he, hx⟩
    split at hx
    · next hh => cases hx; exact ⟨e, he, by rw [← hh]⟩
    · cases hx
  · rintro ⟨e, he, hx⟩
    exact ⟨e, he, by simp [hx]⟩

theorem nodup_dueAt : ∀ (m : KSet (Nat × Addr)) (h : Nat), NodupKeys m → (dueAt m h).Nodup
  | [], _, _ => List.nodup_nil
  | e :: t, h, hn => by
    simp only [NodupKeys, List.map_cons, List.nodup_cons] at hn
    have ih := nodup_dueAt t h hn.2
    by_cases hh : e.1.1 = h
    · have e1 : dueAt (e :: t) h = e.1.2 :: dueAt t h := by unfold dueAt; simp [List.filterMap_cons, hh]
      rw [e1, List.nodup_cons]
      refine ⟨?_, ih⟩
      intro hm
      have := (mem_dueAt t h e.1.2).1 hm
      apply hn.1
      have he : e.1 = (h, e.1.2) := by rw [← hh]
      rw [he]; exact this
    · have e1 : dueAt (e :: t) h = dueAt t h := by unfold dueAt; simp [List.filterMap_cons, hh]
      rw [e1]; exact ih

/-- deleting the markers of the finished addresses -/
theorem foldl_unstakingDel : ∀ (as : List Addr) (L : Ledger), NodupKeys L.unstaking →
    let L' := as.foldl (fun L a => { L with unstaking := KSet.del L.unstaking (L.height, a) }) L
    L'.validators = L.validators ∧ L'.supply = L.supply ∧ L'.accounts = L.accounts ∧ L'.pools = L.pools ∧ SameCtx L L' ∧
    NodupKeys L'.unstaking ∧
    (∀ k, KSet.has L'.unstaking k = true → KSet.has L.unstaking k = true ∧ ∀ b ∈ as, k ≠ (L.height, b))
  | [], L, hn => ⟨rfl, rfl, rfl, rfl, SameCtx.refl L, hn, fun k hk => ⟨hk, fun _ h => by simp at h⟩⟩
  | a :: as, L, hn => by
    have hn1 : NodupKeys (KSet.del L.unstaking (L.height, a)) := nodup_erase _ _ hn
    obtain ⟨i1, i2, i3, i4, i5, i6, i7⟩ := foldl_unstakingDel as { L with unstaking := KSet.del L.unstaking (L.height, a) } hn1
    refine ⟨i1, i2, i3, i4, ⟨i5.height, i5.params, i5.cfg, i5.committeesData⟩, i6, ?_⟩
    intro k hk
    obtain ⟨j1, j2⟩ := i7 k hk
    refine ⟨has_del_of _ _ _ j1, ?_⟩
    intro b hb
    simp only [List.mem_cons] at hb
    rcases hb with rfl | hb
    · intro e; subst e
      have : KSet.has (KSet.del L.unstaking (L.height, b)) (L.height, b) = false := has_del_self _ _ hn
      rw [this] at j1; cases j1
    · exact j2 b hb

/-- `DeleteFinishedUnstaking` succeeds on a live ledger and keeps it live -/
theorem deleteFinishedUnstaking_live {L : Ledger} (hl : Live L) :
    ∃ L', deleteFinishedUnstaking L = .ok L' ∧ Live L' ∧ SameCtx L L' := by
  unfold deleteFinishedUnstaking
  dsimp only
  have hnd := nodup_dueAt L.unstaking L.height hl.unst
  have hex : ∀ a ∈ dueAt L.unstaking L.height, ∃ v, valGet? L a = some v := by
    intro a ha
    have := (has_iff_mem_keys L.unstaking (L.height, a)).2 ((mem_dueAt _ _ _).1 ha)
    obtain ⟨v, hv, _, _⟩ := hl.sound _ _ this
    exact ⟨v, hv⟩
  obtain ⟨L1, h1, i1, t1, n1, p1, u1, c1, k1, d1⟩ :=
    foldlM_finishUnstaking_ok (dueAt L.unstaking L.height) L hl.supply hl.tallies hl.vals hl.pools hnd hex
  rw [h1]
  dsimp only
  refine ⟨_, rfl, ?_, ?_⟩
  · obtain ⟨j1, j2, j3, j4, j5, j6, j7⟩ := foldl_unstakingDel (dueAt L.unstaking L.height) L1 (by rw [u1]; exact hl.unst)
    refine ⟨?_, ?_, ?_, ?_, j6, ?_⟩
    · have m : SameBal L1 _ := ⟨by rw [j2], j3, j4, j1⟩
      exact m.moves.inv i1
    · exact ⟨by unfold stakeSum; rw [j2, j1]; exact t1.staked, by unfold dstakeSum; rw [j2, j1]; exact t1.delegated,
        fun c => by unfold comGet comSum; rw [j2, j1]; exact t1.committee c,
        fun c => by unfold delGet dcomSum; rw [j2, j1]; exact t1.committeeDelegated c⟩
    · rw [j1]; exact n1
    · exact ⟨by rw [j2]; exact p1.committee, by rw [j2]; exact p1.delegated⟩
    · intro h b hb
      obtain ⟨q1, q2⟩ := j7 (h, b) hb
      rw [u1] at q1
      obtain ⟨v, hv, he, hne⟩ := hl.sound h b q1
      have hb' : b ∉ dueAt L.unstaking L.height := by
        intro hm
        -- then (height, b) is a marker too, so v.unstakingHeight = height = h: the marker would have been deleted
        have hm2 := (has_iff_mem_keys L.unstaking (L.height, b)).2 ((mem_dueAt _ _ _).1 hm)
        obtain ⟨v2, hv2, he2, _⟩ := hl.sound _ _ hm2
        rw [hv] at hv2; cases hv2
        have : h = L.height := by rw [← he, he2]
        exact q2 b hm (by rw [this, c1.height])
      exact ⟨v, by unfold valGet?; rw [j1]; exact (k1 b hb').trans hv, he, hne⟩
  · obtain ⟨j1, j2, j3, j4, j5, j6, j7⟩ := foldl_unstakingDel (dueAt L.unstaking L.height) L1 (by rw [u1]; exact hl.unst)
    exact c1.trans j5

/-! ### the begin-block mint touches only pools and the recorded total -/

/-- same staking state and block context (pools, accounts and the recorded total may differ) -/
structure SameStaking (L L' : Ledger) : Prop where
  validators : L'.validators = L.validators
  unstaking : L'.unstaking = L.unstaking
  paused : L'.paused = L.paused
  staked : L'.supply.staked = L.supply.staked
  delegatedOnly : L'.supply.delegatedOnly = L.supply.delegatedOnly
  committee : L'.supply.committee = L.supply.committee
  delegated : L'.supply.delegated = L.supply.delegated
  ctx : SameCtx L L'

theorem SameStaking.refl (L : Ledger) : SameStaking L L := ⟨rfl, rfl, rfl, rfl, rfl, rfl, rfl, SameCtx.refl L⟩
theorem SameStaking.trans {A B C : Ledger} (h1 : SameStaking A B) (h2 : SameStaking B C) : SameStaking A C :=
  ⟨h2.validators.trans h1.validators, h2.unstaking.trans h1.unstaking, h2.paused.trans h1.paused, h2.staked.trans h1.staked,
   h2.delegatedOnly.trans h1.delegatedOnly, h2.committee.trans h1.committee, h2.delegated.trans h1.delegated, h1.ctx.trans h2.ctx⟩

theorem mintToPool_sameStaking (L : Ledger) (id x : Nat) : SameStaking L (mintToPool L id x) :=
  ⟨rfl, rfl, rfl, rfl, rfl, rfl, rfl, ⟨rfl, rfl, rfl, rfl⟩⟩

theorem foldl_mintToPool_sameStaking (per : Nat) : ∀ (cs : List Nat) (L : Ledger), SameStaking L (cs.foldl (fun L c => mintToPool L c per) L)
  | [], L => SameStaking.refl L
  | c :: cs, L => (mintToPool_sameStaking L c per).trans (foldl_mintToPool_sameStaking per cs _)

theorem beginBlockMint_sameStaking {L L' : Ledger} (h : beginBlockMint L = .ok L') : SameStaking L L' := by
  unfold beginBlockMint at h
  split at h
  · obtain rfl := Except.ok.inj h; exact SameStaking.refl L
  · unfold fundCommitteeRewardPools at h
    split at h
    · exact absurd h (by intro h; cases h)
    · dsimp only at h
      split at h
      · obtain rfl := Except.ok.inj h; exact SameStaking.refl L
      · obtain rfl := Except.ok.inj h
        exact (mintToPool_sameStaking L _ _).trans (foldl_mintToPool_sameStaking _ _ _)

theorem beginBlockMint_ok_of (L : Ledger) (hb : L.cfg.blocksPerHalvening ≠ 0) : ∃ L', beginBlockMint L = .ok L' := by
  unfold beginBlockMint
  split
  · exact ⟨L, rfl⟩
  · unfold fundCommitteeRewardPools
    rw [if_neg hb]
    dsimp only
    split
    · exact ⟨_, rfl⟩
    · exact ⟨_, rfl⟩

theorem Live.of_sameStaking {L L' : Ledger} (hl : Live L) (hs : SameStaking L L') (hi : InvSupply L') : Live L' := by
  refine ⟨hi, ?_, by rw [hs.validators]; exact hl.vals, ⟨by rw [hs.committee]; exact hl.pools.committee, by rw [hs.delegated]; exact hl.pools.delegated⟩,
    by rw [hs.unstaking]; exact hl.unst, ?_⟩
  · have t := hl.tallies
    exact ⟨by unfold stakeSum; rw [hs.staked, hs.validators]; exact t.staked,
      by unfold dstakeSum; rw [hs.delegatedOnly, hs.validators]; exact t.delegated,
      fun c => by unfold comGet comSum; rw [hs.committee, hs.validators]; exact t.committee c,
      fun c => by unfold delGet dcomSum; rw [hs.delegated, hs.validators]; exact t.committeeDelegated c⟩
  · intro h a hb
    rw [hs.unstaking] at hb
    obtain ⟨v, hv, he, hne⟩ := hl.sound h a hb
    exact ⟨v, by unfold valGet?; rw [hs.validators]; exact hv, he, hne⟩

/-! ### an empty block -/

/-- no reward percents are waiting to be distributed -/
def NoPendingRewards (L : Ledger) : Prop := ∀ d ∈ L.committeesData, d.percents = []

theorem distributeCommitteeRewards_noop {L : Ledger} (hr : NoPendingRewards L) : distributeCommitteeRewards L = .ok L := by
  unfold distributeCommitteeRewards
  have key : ∀ (ds : List CommitteeData) (A : Ledger), (∀ d ∈ ds, d.percents = []) → ds.foldlM distributeFor A = .ok A := by
    intro ds
    induction ds with
    | nil => intro A _; rfl
    | cons d ds ih =>
      intro A hd
      have h0 : distributeFor A d = .ok A := by
        unfold distributeFor
        rw [hd d (List.mem_cons_self ..)]; rfl
      simp only [List.foldlM_cons, h0]
      exact ih A (fun d' hd' => hd d' (List.mem_cons_of_mem _ hd'))
  exact key _ L hr

/-- **an empty block applies on a live ledger and leaves a live ledger at the next height** -/
theorem emptyBlock_live {L : Ledger} (hl : Live L) (hb : L.cfg.blocksPerHalvening ≠ 0)
    (hx : L.supply.total + scheduledMint L < U64) (hh : (L.height + L.params.unstakingBlocks) % U64 ≠ 0)
    (hr : NoPendingRewards L) :
    ∃ L', emptyBlock L = .ok L' ∧ Live L' ∧ L'.height = L.height + 1 ∧ L'.params = L.params ∧ L'.cfg = L.cfg ∧
      NoPendingRewards L' ∧ L'.supply.total ≤ L.supply.total + scheduledMint L := by
  obtain ⟨L1, h1⟩ := beginBlockMint_ok_of L hb
  obtain ⟨m, hm, s1⟩ := beginBlockMint_mints hl.supply hx h1
  have ss := beginBlockMint_sameStaking h1
  have i1 : InvSupply L1 := s1.inv hl.supply (by have := s1.1; omega)
  have l1 := hl.of_sameStaking ss i1
  have hr1 : NoPendingRewards L1 := by intro d hd; rw [ss.ctx.committeesData] at hd; exact hr d hd
  obtain ⟨l2, c2⟩ := forceUnstakeMaxPaused_live l1 (by rw [ss.ctx.height, ss.ctx.params]; exact hh)
  obtain ⟨L3, h3, l3, c3⟩ := deleteFinishedUnstaking_live l2
  refine ⟨{ L3 with height := L3.height + 1, slashTracker := [] }, ?_, ?_, ?_, ?_, ?_, ?_, ?_⟩
  · unfold emptyBlock
    simp only [bind, Except.bind, h1]
    unfold endBlock
    rw [distributeCommitteeRewards_noop hr1]
    dsimp only
    rw [h3]
  · refine ⟨?_, ?_, l3.vals, ⟨l3.pools.committee, l3.pools.delegated⟩, l3.unst, ?_⟩
    · have m : SameBal L3 { L3 with height := L3.height + 1, slashTracker := [] } := ⟨rfl, rfl, rfl, rfl⟩
      exact m.moves.inv l3.supply
    · exact ⟨l3.tallies.staked, l3.tallies.delegated, l3.tallies.committee, l3.tallies.committeeDelegated⟩
    · intro h a hb; exact l3.sound h a hb
  · show L3.height + 1 = L.height + 1
    rw [c3.height, c2.height, ss.ctx.height]
  · show L3.params = L.params
    rw [c3.params, c2.params, ss.ctx.params]
  · show L3.cfg = L.cfg
    rw [c3.cfg, c2.cfg, ss.ctx.cfg]
  · intro d hd
    have : L3.committeesData = L.committeesData := by rw [c3.committeesData, c2.committeesData, ss.ctx.committeesData]
    exact hr d (by rw [← this]; exact hd)
  · show L3.supply.total ≤ _
    have t2 := (forceUnstakeMaxPaused_moves L1).1
    have t3 := (deleteFinishedUnstaking_moves ((forceUnstakeMaxPaused_moves L1).inv i1) h3).1
    have t1 := s1.1
    omega

end Canopy.Ledger
