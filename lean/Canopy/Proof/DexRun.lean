import Canopy.Proof.DexEff
import Canopy.Proof.DexInv
/-! Run-level invariants of the DEX: holding pool = Σ pending, Σ points = total, for every pool, along every run (C20).
Core Lean only. -/
namespace Canopy.Dex

def pendOpt : Option Batch → Nat
  | none => 0
  | some b => b.pending

/-- Σ amounts of the orders and deposits stored for chain `c` in next ∪ locked -/
def pendStored (s : State) (c : Nat) : Nat := pendOpt (AM.get? s.next c) + pendOpt (AM.get? s.locked c)

/-- a batch stored under key `k` -/
structure BatchOk (k : Nat) (b : Batch) : Prop where
  committee : b = {} ∨ b.committee = k
  pct : PctOk b.withdrawals

structure DInv (s : State) : Prop where
  pools : PInv s
  nextNodup : (AM.keys s.next).Nodup
  lockedNodup : (AM.keys s.locked).Nodup
  nextOk : ∀ k b, AM.get? s.next k = some b → BatchOk k b
  lockedOk : ∀ k b, AM.get? s.locked k = some b → BatchOk k b
  /-- chain ids are `1 … MaxChainId` (`0` is reserved: `holdingId 0` is the reward pool of chain `MaxChainId`) -/
  hold : ∀ c, 0 < c → c ≤ maxChainId → holdAmt s c = pendStored s c
  height : 0 < s.height

theorem pendOpt_some (b : Batch) : pendOpt (some b) = b.pending := rfl
theorem pendOpt_none : pendOpt none = 0 := rfl

theorem batchOk_empty (k : Nat) : BatchOk k {} := ⟨Or.inl rfl, fun _ h => by cases h⟩

theorem pending_empty : ({} : Batch).pending = 0 := rfl

/-- `GetDexBatch` against the stored entry -/
theorem getBatch_spec (s : State) (c : Nat) (locked : Bool)
    (hok : ∀ b, AM.get? (if locked then s.locked else s.next) c = some b → BatchOk c b) :
    (getBatch s c locked).pending = pendOpt (AM.get? (if locked then s.locked else s.next) c) ∧
    (getBatch s c locked).committee = c ∧ PctOk (getBatch s c locked).withdrawals := by
  unfold getBatch
  dsimp only
  cases hg : AM.get? (if locked then s.locked else s.next) c with
  | none => exact ⟨rfl, rfl, fun _ h => by cases h⟩
  | some b =>
    dsimp only
    by_cases hb : b = {}
    · rw [if_pos hb]; subst hb; exact ⟨rfl, rfl, fun _ h => by cases h⟩
    · rw [if_neg hb]
      have := hok b hg
      exact ⟨rfl, by rcases this.committee with h | h; exact absurd h hb; exact h, this.pct⟩

theorem pending_of_isEmpty {b : Batch} (h : b.isEmpty = true) : b.pending = 0 := by
  unfold Batch.isEmpty at h
  simp only [Bool.and_eq_true, List.isEmpty_iff] at h
  simp [Batch.pending, h.1.1.2, h.2]

/-- a state change that leaves pools' relation to batches intact: same stored batches, same holding balances -/
theorem dinv_of_same {s s' : State} (hi : DInv s) (hn : s'.next = s.next) (hl : s'.locked = s.locked)
    (hh : s'.height = s.height) (hp : PInv s') (hho : ∀ c, 0 < c → c ≤ maxChainId → holdAmt s' c = holdAmt s c) : DInv s' where
  pools := hp
  nextNodup := by rw [hn]; exact hi.nextNodup
  lockedNodup := by rw [hl]; exact hi.lockedNodup
  nextOk := by rw [hn]; exact hi.nextOk
  lockedOk := by rw [hl]; exact hi.lockedOk
  hold := fun c h0 hc => by rw [hho c h0 hc, hi.hold c h0 hc]; simp [pendStored, hn, hl]
  height := by rw [hh]; exact hi.height

/-- an effect with zero debit keeps the invariant -/
theorem dinv_of_eff0 {s s' : State} {c : Nat} (hc : c ≤ maxChainId) (hi : DInv s) (e : Eff c s s' 0) : DInv s' :=
  dinv_of_same hi e.next e.locked e.height (e.pinv hi.pools) (fun c' _ hc' => by
    by_cases h : c' = c
    · subst h; have := e.hold; omega
    · exact e.holdOther c' hc' h)

theorem dinv_normalize {s : State} (hi : DInv s) : DInv (normalize s) := by
  refine dinv_of_same hi rfl rfl rfl ?_ (fun c _ _ => getPool_normalize_amount s _)
  intro id
  have h := hi.pools id
  unfold getPool normalize at *
  simp only
  generalize s.pools = m at h ⊢
  induction m with
  | nil => exact h
  | cons e m ih =>
    obtain ⟨k, p⟩ := e
    by_cases hk : k = id
    · by_cases hp : p.amount = 0
      · simp [AM.get?, hk, hp]; exact poolOk_empty
      · simp [AM.get?, hk, hp] at h ⊢; exact h
    · by_cases hp : p.amount = 0
      · simp [AM.get?, hk, hp] at h ⊢; exact ih h
      · simp [AM.get?, hk, hp] at h ⊢; exact ih h

/-! ### the sell-order operations do not touch the DEX world -/

/-- no holding pool of a valid chain moves, stored batches and height stay, pools stay well formed -/
def SellEff (s s' : State) : Prop := ∀ c, c ≤ maxChainId → Eff c s s' 0

theorem SellEff.refl (s : State) : SellEff s s := fun c _ => Eff.refl c s
theorem SellEff.trans {a b d : State} (h1 : SellEff a b) (h2 : SellEff b d) : SellEff a d :=
  fun c hc => (h1 c hc).trans (h2 c hc)

theorem dinv_of_sellEff {s s' : State} (hi : DInv s) (e : SellEff s s') : DInv s' :=
  dinv_of_eff0 (c := 0) (by unfold maxChainId; omega) hi (e 0 (by unfold maxChainId; omega))

theorem holdingId_ne_escrow {c ch : Nat} (h : c ≤ maxChainId) (h' : ch ≤ maxChainId) : holdingId c ≠ escrowId ch := by
  unfold holdingId escrowId Gen.Dex.HoldingPoolAddend Gen.Dex.EscrowPoolAddend U64; unfold maxChainId at h h'; omega

theorem sellEff_setPool_esc (s : State) (ch : Nat) (p : Pool) (hch : ch ≤ maxChainId) (hok : PoolOk p) :
    SellEff s (setPool s (escrowId ch) p) := fun c hc =>
  ⟨rfl, rfl, rfl, rfl,
   by unfold holdAmt; rw [getPool_setPool_other _ _ _ _ (holdingId_ne_escrow hc hch)]; rfl,
   fun c' h _ => by unfold holdAmt; rw [getPool_setPool_other _ _ _ _ (holdingId_ne_escrow h hch)],
   fun hp => pinv_setPool hp hok⟩

theorem sellEff_poolAdd_esc (s : State) (ch n : Nat) (hch : ch ≤ maxChainId) : SellEff s (poolAdd s (escrowId ch) n) := fun c hc =>
  ⟨rfl, rfl, rfl, rfl,
   by unfold holdAmt; rw [poolAdd_other _ _ _ _ (holdingId_ne_escrow hc hch)]; rfl,
   fun c' h _ => by unfold holdAmt; rw [poolAdd_other _ _ _ _ (holdingId_ne_escrow h hch)],
   fun hp => pinv_setPool hp (poolOk_amount (hp _) (Nat.mod_lt _ (by decide)))⟩

theorem sellEff_poolSub_esc {s s' : State} {ch n : Nat} (hch : ch ≤ maxChainId) (h : poolSub s (escrowId ch) n = .ok s') :
    SellEff s s' := by
  obtain ⟨hle, rfl⟩ := poolSub_ok h
  intro c hc
  refine ⟨rfl, rfl, rfl, rfl, ?_, ?_, ?_⟩
  · unfold holdAmt; rw [getPool_setPool_other _ _ _ _ (holdingId_ne_escrow hc hch)]; rfl
  · intro c' h' _; unfold holdAmt; rw [getPool_setPool_other _ _ _ _ (holdingId_ne_escrow h' hch)]
  · intro hp; exact pinv_setPool hp (poolOk_amount (hp _) (by have := (hp (escrowId ch)).amt; omega))

theorem sellEff_accountAdd {s s' : State} {a : Bytes} {n : Nat} (h : accountAdd s a n = .ok s') : SellEff s s' :=
  fun _ _ => eff_accountAdd h
theorem sellEff_accountSub {s s' : State} {a : Bytes} {n : Nat} (h : accountSub s a n = .ok s') : SellEff s s' :=
  fun _ _ => eff_accountSub h
theorem sellEff_setOrder (s : State) (c : Nat) (o : SellOrder) : SellEff s (setOrder s c o) :=
  fun _ _ => eff_of_pools_eq rfl rfl rfl rfl rfl
theorem sellEff_deleteOrder (s : State) (c : Nat) (id : Bytes) : SellEff s (deleteOrder s c id) :=
  fun _ _ => eff_of_pools_eq rfl rfl rfl rfl rfl

theorem sellEff_create {s s' : State} {m : CreateOrder} (h : createOrder s m = .ok s') : SellEff s s' := by
  obtain ⟨s1, h1, hch, rfl⟩ := createOrder_ok h
  exact ((sellEff_accountSub h1).trans (sellEff_poolAdd_esc _ _ _ hch)).trans (sellEff_setOrder _ _ _)

theorem sellEff_edit {s s' : State} {m : EditOrder} (h : editOrder s m = .ok s') : SellEff s s' := by
  obtain ⟨o, s2, hch, _, _, hcase, rfl⟩ := editOrder_ok h
  refine SellEff.trans ?_ (sellEff_setOrder _ _ _)
  rcases hcase with ⟨_, s1, h1, rfl⟩ | ⟨_, s1, h1, h2⟩ | ⟨_, rfl⟩
  · exact (sellEff_accountSub h1).trans (sellEff_poolAdd_esc _ _ _ hch)
  · exact (sellEff_poolSub_esc hch h1).trans (sellEff_accountAdd h2)
  · exact SellEff.refl _

theorem sellEff_delete {s s' : State} {c : Nat} {id : Bytes} (h : deleteOrderMsg s c id = .ok s') : SellEff s s' := by
  obtain ⟨o, s1, s2, hch, _, _, h1, h2, rfl⟩ := deleteOrderMsg_ok h
  exact ((sellEff_poolSub_esc hch h1).trans (sellEff_accountAdd h2)).trans (sellEff_deleteOrder _ _ _)

theorem sellEff_close {s s' : State} {c : Nat} {id : Bytes} (hch : c ≤ maxChainId) (h : closeOrder s c id = .ok s') : SellEff s s' := by
  obtain ⟨o, s1, s2, _, _, h1, h2, rfl⟩ := closeOrder_ok h
  exact ((sellEff_poolSub_esc hch h1).trans (sellEff_accountAdd h2)).trans (sellEff_deleteOrder _ _ _)

theorem sellEff_lock {s s' : State} {c : Nat} {l : LockOrder} (h : lockOrder s c l = .ok s') : SellEff s s' := by
  unfold lockOrder at h
  obtain ⟨o, _, h⟩ := bind_ok h
  split at h
  · cases h
  · injection h with h; subst h; exact sellEff_setOrder _ _ _

theorem sellEff_reset {s s' : State} {c : Nat} {id : Bytes} (h : resetOrder s c id = .ok s') : SellEff s s' := by
  unfold resetOrder at h
  obtain ⟨o, _, h⟩ := bind_ok h
  injection h with h; subst h; exact sellEff_setOrder _ _ _

theorem sellEff_orSkip {s : State} {r : M State} (h : ∀ s', r = .ok s' → SellEff s s') : SellEff s (orSkip s r) := by
  unfold orSkip
  split
  · exact h _ rfl
  · exact SellEff.refl _

theorem sellEff_foldl {α : Type} (f : State → α → State) (l : List α) (s : State) (h : ∀ s a, SellEff s (f s a)) :
    SellEff s (l.foldl f s) := by
  induction l generalizing s with
  | nil => exact SellEff.refl _
  | cons a l ih => exact (h s a).trans (ih _)

theorem sellEff_swaps (s : State) (c : Nat) (o : Orders) (hch : c ≤ maxChainId) : SellEff s (handleCommitteeSwaps s c o) := by
  unfold handleCommitteeSwaps
  refine SellEff.trans (SellEff.trans (sellEff_foldl _ _ _ (fun s l => ?_)) (sellEff_foldl _ _ _ (fun s id => ?_)))
    (sellEff_foldl _ _ _ (fun s id => sellEff_orSkip (fun s' h => sellEff_close hch h)))
  · split
    · exact SellEff.refl _
    · exact sellEff_orSkip (fun s' h => sellEff_lock h)
  · split
    · exact SellEff.refl _
    · exact sellEff_orSkip (fun s' h => sellEff_reset h)

/-! ### the three DEX messages -/

theorem holdAmt_setNext (s : State) (c : Nat) (b : Batch) (c' : Nat) : holdAmt (setNext s c b) c' = holdAmt s c' := rfl

theorem dinv_setNext {s s2 : State} {c k : Nat} {b' : Batch} (hi : DInv s) (hc : c ≤ maxChainId)
    (hn : s2.next = s.next) (hl : s2.locked = s.locked) (hh : s2.height = s.height) (hp : PInv s2)
    (hhold : holdAmt s2 c = holdAmt s c + k) (hother : ∀ c', c' ≤ maxChainId → c' ≠ c → holdAmt s2 c' = holdAmt s c')
    (hb : BatchOk c b') (hpend : b'.pending = pendOpt (AM.get? s.next c) + k) : DInv (setNext s2 c b') where
  pools := fun id => hp id
  nextNodup := by simp only [setNext]; rw [hn]; exact AM.nodup_set _ _ _ hi.nextNodup
  lockedNodup := by simp only [setNext]; rw [hl]; exact hi.lockedNodup
  nextOk := by
    intro k' b hk
    simp only [setNext] at hk
    rw [hn] at hk
    by_cases h : k' = c
    · subst h; rw [AM.get?_set_self] at hk; injection hk with hk; subst hk; exact hb
    · rw [AM.get?_set_other _ _ _ _ h] at hk; exact hi.nextOk k' b hk
  lockedOk := by simp only [setNext]; rw [hl]; exact hi.lockedOk
  hold := by
    intro c' h0 hc'
    rw [holdAmt_setNext]
    unfold pendStored
    simp only [setNext]
    rw [hn, hl]
    by_cases h : c' = c
    · subst h
      rw [AM.get?_set_self, hhold, hi.hold c' h0 hc']
      show pendStored s c' + k = b'.pending + _
      rw [hpend]; unfold pendStored; omega
    · rw [AM.get?_set_other _ _ _ _ h, hother c' hc' h, hi.hold c' h0 hc']; rfl
  height := by simp only [setNext]; rw [hh]; exact hi.height

theorem getBatch_next_spec {s : State} (hi : DInv s) (c : Nat) :
    (getBatch s c false).pending = pendOpt (AM.get? s.next c) ∧ (getBatch s c false).committee = c ∧
    PctOk (getBatch s c false).withdrawals := by
  have := getBatch_spec s c false (by simpa using hi.nextOk c)
  simpa using this

theorem getBatch_locked_spec {s : State} (hi : DInv s) (c : Nat) :
    (getBatch s c true).pending = pendOpt (AM.get? s.locked c) ∧ (getBatch s c true).committee = c ∧
    PctOk (getBatch s c true).withdrawals := by
  have := getBatch_spec s c true (by simpa using hi.lockedOk c)
  simpa using this

theorem dinv_limit {s s' : State} {c : Nat} {o : LimitOrder} (hi : DInv s) (h : dexLimitOrder s c o = .ok s')
    (hfit : holdAmt s c + o.amount < U64) : DInv s' := by
  obtain ⟨hb1, hb2, hb3⟩ := getBatch_next_spec hi c
  unfold dexLimitOrder at h
  obtain ⟨_, _, h⟩ := bind_ok h
  obtain ⟨_, _, h⟩ := bind_ok h
  obtain ⟨_, _, h⟩ := bind_ok h
  obtain ⟨u, hu, h⟩ := bind_ok h
  have hc := (checkChainId_ok hu).2
  dsimp only at h
  split at h
  · cases h
  · split at h
    · cases h
    · obtain ⟨s1, h1, h⟩ := bind_ok h
      injection h with h; subst h
      have e1 : Eff c s s1 0 := eff_accountSub h1
      refine dinv_setNext (k := o.amount) hi hc e1.next e1.locked e1.height ?_ ?_ ?_ ⟨Or.inr hb2, hb3⟩ ?_
      · exact pinv_setPool (e1.pinv hi.pools) (poolOk_amount (e1.pinv hi.pools _) (Nat.mod_lt _ (by decide)))
      · show (getPool (poolAdd s1 (holdingId c) o.amount) (holdingId c)).amount = _
        rw [poolAdd_self]
        have := e1.hold
        unfold holdAmt at this hfit ⊢
        rw [Nat.mod_eq_of_lt (by omega)]; omega
      · intro c' hc' hne
        show (getPool (poolAdd s1 (holdingId c) o.amount) (holdingId c')).amount = _
        rw [poolAdd_other _ _ _ _ (fun e => hne (holdingId_inj hc hc' e))]
        exact e1.holdOther c' hc' hne
      · simp only [Batch.pending] at hb1 ⊢
        simp; omega

theorem dinv_deposit {s s' : State} {c : Nat} {d : Deposit} (hi : DInv s) (h : dexDeposit s c d = .ok s')
    (hfit : holdAmt s c + d.amount < U64) : DInv s' := by
  obtain ⟨hb1, hb2, hb3⟩ := getBatch_next_spec hi c
  unfold dexDeposit at h
  obtain ⟨_, _, h⟩ := bind_ok h
  obtain ⟨_, _, h⟩ := bind_ok h
  obtain ⟨u, hu, h⟩ := bind_ok h
  have hc := (checkChainId_ok hu).2
  dsimp only at h
  split at h
  · cases h
  · split at h
    · cases h
    · obtain ⟨s1, h1, h⟩ := bind_ok h
      injection h with h; subst h
      have e1 : Eff c s s1 0 := eff_accountSub h1
      refine dinv_setNext (k := d.amount) hi hc e1.next e1.locked e1.height ?_ ?_ ?_ ⟨Or.inr hb2, hb3⟩ ?_
      · exact pinv_setPool (e1.pinv hi.pools) (poolOk_amount (e1.pinv hi.pools _) (Nat.mod_lt _ (by decide)))
      · show (getPool (poolAdd s1 (holdingId c) d.amount) (holdingId c)).amount = _
        rw [poolAdd_self]
        have := e1.hold
        unfold holdAmt at this hfit ⊢
        rw [Nat.mod_eq_of_lt (by omega)]; omega
      · intro c' hc' hne
        show (getPool (poolAdd s1 (holdingId c) d.amount) (holdingId c')).amount = _
        rw [poolAdd_other _ _ _ _ (fun e => hne (holdingId_inj hc hc' e))]
        exact e1.holdOther c' hc' hne
      · simp only [Batch.pending] at hb1 ⊢
        simp; omega

theorem checkPercent_ok {n : Nat} {u : Unit} (h : checkPercent n = .ok u) : n ≤ 100 := by
  unfold checkPercent at h
  split at h
  · cases h
  · omega

theorem dinv_withdraw {s s' : State} {c : Nat} {w : Withdraw} (hi : DInv s) (h : dexWithdraw s c w = .ok s') : DInv s' := by
  obtain ⟨hb1, hb2, hb3⟩ := getBatch_next_spec hi c
  unfold dexWithdraw at h
  obtain ⟨_, _, h⟩ := bind_ok h
  obtain ⟨up, hup, h⟩ := bind_ok h
  obtain ⟨u, hu, h⟩ := bind_ok h
  have hc := (checkChainId_ok hu).2
  have hpct := checkPercent_ok hup
  dsimp only at h
  split at h
  · cases h
  · split at h
    · cases h
    · split at h
      · cases h
      · injection h with h; subst h
        refine dinv_setNext (k := 0) hi hc rfl rfl rfl hi.pools rfl (fun _ _ _ => rfl) ⟨Or.inr hb2, ?_⟩ ?_
        · intro w' hw'
          rcases List.mem_append.mp hw' with hw' | hw'
          · exact hb3 w' hw'
          · simp at hw'; subst hw'; exact hpct
        · simp only [Batch.pending] at hb1 ⊢; omega

/-! ### rotation, same-block inclusion -/

theorem dinv_rotate {s : State} (hi : DInv s) (c : Nat) (hc : c ≤ maxChainId) (rh : Bytes) (a b : Nat) (rs : List Nat) :
    DInv (rotate s rh a b c rs) := by
  unfold rotate
  split
  · exact hi
  · rename_i hE
    have hE' : (getBatch s c true).isEmpty = true := by simpa using hE
    obtain ⟨hl1, _, _⟩ := getBatch_locked_spec hi c
    rw [pending_of_isEmpty hE'] at hl1
    obtain ⟨hn1, hn2, hn3⟩ := getBatch_next_spec hi c
    dsimp only
    refine { pools := hi.pools, nextNodup := AM.nodup_del _ _ hi.nextNodup, lockedNodup := AM.nodup_set _ _ _ hi.lockedNodup,
             nextOk := ?_, lockedOk := ?_, hold := ?_, height := hi.height }
    · intro k b' hk
      simp only [setLocked, delNext] at hk
      by_cases h : k = c
      · subst h; rw [AM.get?_del_self _ _ hi.nextNodup] at hk; cases hk
      · rw [AM.get?_del_other _ _ _ h] at hk; exact hi.nextOk k b' hk
    · intro k b' hk
      simp only [setLocked, delNext] at hk
      by_cases h : k = c
      · subst h; rw [AM.get?_set_self] at hk; injection hk with hk; subst hk
        exact ⟨Or.inr hn2, hn3⟩
      · rw [AM.get?_set_other _ _ _ _ h] at hk; exact hi.lockedOk k b' hk
    · intro c' h0 hc'
      show holdAmt s c' = _
      rw [hi.hold c' h0 hc']
      unfold pendStored
      simp only [setLocked, delNext]
      by_cases h : c' = c
      · subst h
        rw [AM.get?_del_self _ _ hi.nextNodup, AM.get?_set_self]
        show pendOpt (AM.get? s.next c') + pendOpt (AM.get? s.locked c') = 0 + Batch.pending _
        rw [← hn1, ← hl1]
        simp [Batch.pending]
      · rw [AM.get?_del_other _ _ _ h, AM.get?_set_other _ _ _ _ h]

theorem sum_take_drop (l : List Nat) (n : Nat) : (l.take n).sum + (l.drop n).sum = l.sum := by
  rw [← List.sum_append, List.take_append_drop]

def movedInto (b n : Batch) (om dm : Nat) (ws : List Withdraw) : Batch :=
  { b with orders := b.orders ++ n.orders.take om, deposits := b.deposits ++ n.deposits.take dm, withdrawals := ws }

def leftIn (n : Batch) (om dm : Nat) (ws : List Withdraw) : Batch :=
  { n with orders := n.orders.drop om, deposits := n.deposits.drop dm, withdrawals := ws }

theorem pending_move (b n : Batch) (om dm : Nat) (ws ws' : List Withdraw) :
    (movedInto b n om dm ws).pending + (leftIn n om dm ws').pending = b.pending + n.pending := by
  simp only [movedInto, leftIn, Batch.pending, List.map_append, List.sum_append, List.map_take, List.map_drop]
  have h1 := sum_take_drop (n.orders.map (·.amount)) om
  have h2 := sum_take_drop (n.deposits.map (·.amount)) dm
  omega

theorem includeOne_dinv {s : State} {k : Nat} {b : Batch} (hi : DInv s) (hk : AM.get? s.locked k = some b) :
    DInv (includeOne s k b) := by
  unfold includeOne
  split
  · exact hi
  · rename_i hh
    have hbk := hi.lockedOk k b hk
    have hcom : b.committee = k := by
      rcases hbk.committee with h | h
      · subst h; exfalso; apply hh; show (0 : Nat) ≠ s.height; have := hi.height; omega
      · exact h
    obtain ⟨hn1, hn2, hn3⟩ := getBatch_next_spec hi k
    dsimp only
    rw [hcom]
    generalize canMove b.orders.length (getBatch s k false).orders.length Gen.Dex.MaxOrdersPerDexBatch = om
    generalize canMove b.deposits.length (getBatch s k false).deposits.length Gen.Dex.MaxDepositsPerDexBatch = dm
    generalize canMove b.withdrawals.length (getBatch s k false).withdrawals.length Gen.Dex.MaxWithdrawsPerDexBatch = wm
    split
    · exact hi
    · -- the moved prefixes
      have hpendB := fun (n : Batch) => pending_move b n om dm (b.withdrawals ++ n.withdrawals.take wm) (n.withdrawals.drop wm)
      have hokB : BatchOk k (movedInto b (getBatch s k false) om dm (b.withdrawals ++ (getBatch s k false).withdrawals.take wm)) :=
        ⟨Or.inr hcom, fun w hw => by
          rcases List.mem_append.mp hw with hw | hw
          · exact hbk.pct w hw
          · exact hn3 w (List.mem_of_mem_take hw)⟩
      have hholdk := hi.hold
      split
      · -- next batch fully moved: deleted
        rename_i hall
        refine { pools := hi.pools, nextNodup := AM.nodup_del _ _ hi.nextNodup, lockedNodup := AM.nodup_set _ _ _ hi.lockedNodup,
                 nextOk := ?_, lockedOk := ?_, hold := ?_, height := hi.height }
        · intro k' b' hk'
          simp only [setLocked, delNext] at hk'
          by_cases h : k' = k
          · subst h; rw [AM.get?_del_self _ _ hi.nextNodup] at hk'; cases hk'
          · rw [AM.get?_del_other _ _ _ h] at hk'; exact hi.nextOk k' b' hk'
        · intro k' b' hk'
          simp only [setLocked, delNext] at hk'
          by_cases h : k' = k
          · subst h; rw [AM.get?_set_self] at hk'; injection hk' with hk'; subst hk'; exact ⟨Or.inr rfl, hokB.pct⟩
          · rw [AM.get?_set_other _ _ _ _ h] at hk'; exact hi.lockedOk k' b' hk'
        · intro c' h0 hc'
          show holdAmt s c' = _
          rw [hi.hold c' h0 hc']
          unfold pendStored
          simp only [setLocked, delNext]
          by_cases h : c' = k
          · subst h
            rw [AM.get?_del_self _ _ hi.nextNodup, AM.get?_set_self, hk]
            have := hpendB (getBatch s c' false)
            have hz : (leftIn (getBatch s c' false) om dm ((getBatch s c' false).withdrawals.drop wm)).pending = 0 := by
              simp [leftIn, Batch.pending, hall.1, hall.2.1]
            simp only [pendOpt_some, pendOpt_none, movedInto, leftIn, Batch.pending] at this hz hn1 ⊢
            omega
          · rw [AM.get?_del_other _ _ _ h, AM.get?_set_other _ _ _ _ h]
      · refine { pools := hi.pools, nextNodup := AM.nodup_set _ _ _ hi.nextNodup, lockedNodup := AM.nodup_set _ _ _ hi.lockedNodup,
                 nextOk := ?_, lockedOk := ?_, hold := ?_, height := hi.height }
        · intro k' b' hk'
          simp only [setLocked, setNext] at hk'
          by_cases h : k' = k
          · subst h; rw [AM.get?_set_self] at hk'; injection hk' with hk'; subst hk'
            exact ⟨Or.inr hn2, fun w hw => hn3 w (List.mem_of_mem_drop hw)⟩
          · rw [AM.get?_set_other _ _ _ _ h] at hk'; exact hi.nextOk k' b' hk'
        · intro k' b' hk'
          simp only [setLocked, setNext] at hk'
          by_cases h : k' = k
          · subst h; rw [AM.get?_set_self] at hk'; injection hk' with hk'; subst hk'; exact ⟨Or.inr rfl, hokB.pct⟩
          · rw [AM.get?_set_other _ _ _ _ h] at hk'; exact hi.lockedOk k' b' hk'
        · intro c' h0 hc'
          show holdAmt s c' = _
          rw [hi.hold c' h0 hc']
          unfold pendStored
          simp only [setLocked, setNext]
          by_cases h : c' = k
          · subst h
            rw [AM.get?_set_self, AM.get?_set_self, hk]
            have := hpendB (getBatch s c' false)
            simp only [pendOpt_some, movedInto, leftIn, Batch.pending] at this hn1 ⊢
            omega
          · rw [AM.get?_set_other _ _ _ _ h, AM.get?_set_other _ _ _ _ h]

theorem dinv_endBlock {s : State} (hi : DInv s) : DInv (endBlock s) := by
  unfold endBlock
  dsimp only
  have key : ∀ (ks : List Nat) (s : State), DInv s → DInv (ks.foldl (fun s k => match AM.get? s.locked k with
      | some b => includeOne s k b
      | none => s) s) := by
    intro ks
    induction ks with
    | nil => intro s hs; exact hs
    | cons k ks ih =>
      intro s hs
      simp only [List.foldl]
      apply ih
      split
      · exact includeOne_dinv hs ‹_›
      · exact hs
  have h := key ((s.locked.map (·.1)).mergeSort (fun a b => a ≤ b)) s hi
  exact { pools := h.pools, nextNodup := h.nextNodup, lockedNodup := h.lockedNodup, nextOk := h.nextOk,
          lockedOk := h.lockedOk, hold := h.hold, height := Nat.succ_pos _ }

/-! ### `HandleDexBatch` -/

theorem checkBasic_pct {b : Batch} {u : Unit} (h : checkBasic b = .ok u) : PctOk b.withdrawals := by
  unfold checkBasic at h
  simp only [bind, Except.bind, pure, Except.pure, throw, throwThe, MonadExceptOf.throw] at h
  split at h
  · cases h
  · split at h
    · cases h
    · split at h
      · cases h
      · rename_i hany
        intro w hw
        have : ¬ (w.percent = 0 ∨ w.percent > 100) := by
          intro hbad
          apply hany
          rw [List.any_eq_true]
          exact ⟨w, hw, by simpa using hbad⟩
        omega

/-- our locked batch was settled (receipts) : exactly its pending Σ left the holding pool and the entry is deleted -/
theorem dinv_after_receipts {s s1 : State} {c D : Nat} (hi : DInv s) (hc : c ≤ maxChainId) (e : Eff c s s1 D)
    (hD : D = pendOpt (AM.get? s.locked c)) : DInv (delLocked s1 c) where
  pools := e.pinv hi.pools
  nextNodup := by simp only [delLocked]; rw [e.next]; exact hi.nextNodup
  lockedNodup := by simp only [delLocked]; rw [e.locked]; exact AM.nodup_del _ _ hi.lockedNodup
  nextOk := by simp only [delLocked]; rw [e.next]; exact hi.nextOk
  lockedOk := by
    intro k b hk
    simp only [delLocked] at hk
    rw [e.locked] at hk
    by_cases h : k = c
    · subst h; rw [AM.get?_del_self _ _ hi.lockedNodup] at hk; cases hk
    · rw [AM.get?_del_other _ _ _ h] at hk; exact hi.lockedOk k b hk
  hold := by
    intro c' h0 hc'
    show holdAmt s1 c' = _
    unfold pendStored
    simp only [delLocked]
    rw [e.next, e.locked]
    by_cases h : c' = c
    · subst h
      rw [AM.get?_del_self _ _ hi.lockedNodup]
      have := e.hold
      have := hi.hold c' h0 hc'
      unfold pendStored at this
      simp only [pendOpt_none]
      omega
    · rw [AM.get?_del_other _ _ _ h, e.holdOther c' hc' h, hi.hold c' h0 hc']; rfl
  height := by simp only [delLocked]; rw [e.height]; exact hi.height

/-- the fallback refunded our locked batch and replaced it by the empty batch -/
theorem dinv_after_fallback {s s1 : State} {c D : Nat} (hi : DInv s) (hc : c ≤ maxChainId) (e : Eff c s s1 D)
    (hD : D = pendOpt (AM.get? s.locked c)) : DInv (setLocked s1 c {}) where
  pools := e.pinv hi.pools
  nextNodup := by simp only [setLocked]; rw [e.next]; exact hi.nextNodup
  lockedNodup := by simp only [setLocked]; rw [e.locked]; exact AM.nodup_set _ _ _ hi.lockedNodup
  nextOk := by simp only [setLocked]; rw [e.next]; exact hi.nextOk
  lockedOk := by
    intro k b hk
    simp only [setLocked] at hk
    rw [e.locked] at hk
    by_cases h : k = c
    · subst h; rw [AM.get?_set_self] at hk; injection hk with hk; subst hk; exact batchOk_empty _
    · rw [AM.get?_set_other _ _ _ _ h] at hk; exact hi.lockedOk k b hk
  hold := by
    intro c' h0 hc'
    show holdAmt s1 c' = _
    unfold pendStored
    simp only [setLocked]
    rw [e.next, e.locked]
    by_cases h : c' = c
    · subst h
      rw [AM.get?_set_self]
      have := e.hold
      have := hi.hold c' h0 hc'
      unfold pendStored at this
      simp only [pendOpt_some, pending_empty]
      omega
    · rw [AM.get?_set_other _ _ _ _ h, e.holdOther c' hc' h, hi.hold c' h0 hc']; rfl
  height := by simp only [setLocked]; rw [e.height]; exact hi.height

theorem dinv_executeRemote {s s' : State} {remote : Batch} {c : Nat} {bh : Bytes} {mirror : Nat} (hi : DInv s)
    (hc : c ≤ maxChainId) (hw : PctOk remote.withdrawals) (hm : mirror < U64)
    (h : executeRemote s remote c bh mirror = .ok s') : DInv s' := by
  obtain ⟨_, _, s1, rh, a, b, rs, e, rfl⟩ := eff_executeRemote hc hi.pools hw hm h
  exact dinv_rotate (dinv_of_eff0 hc hi e) c hc _ _ _ _

theorem dinv_remoteDexBatch {s s' : State} {remote : Batch} {c : Nat} {bh : Bytes} (hi : DInv s) (hc : c ≤ maxChainId)
    (hw : PctOk remote.withdrawals) (hm : remote.poolSize < U64)
    (h : remoteDexBatch s remote c bh = .ok s') : DInv s' := by
  unfold remoteDexBatch at h
  dsimp only at h
  split at h
  · injection h with h; subst h
    exact dinv_rotate hi c hc _ _ _ _
  · split at h
    · exact dinv_executeRemote hi hc hw hm h
    · rename_i hne
      split at h
      · injection h with h; subst h; exact hi
      · split at h
        · cases h
        · rename_i r hr
          obtain ⟨hl1, _, hl3⟩ := getBatch_locked_spec hi c
          obtain ⟨s1, D, e, hr1, hr2, hdis⟩ := eff_applyReceipts hc hi.pools hl3 hm hr
          -- step 2 succeeded, so neither the mirror nor our pool was zero: the deposits were debited too
          have hp1 : PInv r.1 := by rw [hr1]; exact pinv_congr rfl (e.pinv hi.pools)
          obtain ⟨hm0, hl0, _⟩ := eff_executeRemote hc hp1 hw hr2 h
          have hD : D = (getBatch s c true).pending := by
            rcases hdis with hd | hd | hd
            · exact hd
            · exact absurd hd hm0
            · exfalso; apply hl0; rw [hr1]; exact hd
          have hi1 : DInv r.1 := by
            rw [hr1]; exact dinv_after_receipts hi hc e (by rw [hD, hl1])
          exact dinv_executeRemote hi1 hc hw hr2 h

theorem dinv_dexBatchOn {s s' : State} {c : Nat} {nested : Bool} {remote : Batch} {bh : Bytes} (hi : DInv s)
    (hc : c ≤ maxChainId) (hm : remote.poolSize < U64)
    (hrt : remote.livenessFallback = true → ptsSum remote.poolPoints = remote.totalPoolPoints ∧ remote.totalPoolPoints < U64)
    (h : dexBatchOn s c nested remote bh = .ok s') : DInv s' := by
  unfold dexBatchOn at h
  split at h
  · cases h
  · rename_i u hu
    have hw := checkBasic_pct hu
    split at h
    · cases h
    · split at h
      · injection h with h; subst h; exact hi
      · split at h
        · rename_i hlf
          split at h
          · cases h
          · rename_i s1 h1
            obtain ⟨s0, e, rfl⟩ := eff_livenessFallback hc (hrt hlf) h1
            obtain ⟨hl1, _, _⟩ := getBatch_locked_spec hi c
            exact dinv_remoteDexBatch (dinv_after_fallback hi hc e hl1) hc hw hm h
        · exact dinv_remoteDexBatch hi hc hw hm h

/-! ### every operation, every run -/

/-- side conditions for the DEX invariants (beyond those of `escrow_eq`):
* `limit` / `deposit`: the holding pool stays a `uint64` (`PoolAdd` is unguarded; supply < 2^64);
* `dexBatch`: valid committee chain id; the remote pool size is a `uint64`; a fallback batch carries a consistent
  points table (it is the counter chain's own table);
* `swaps`: valid committee chain id;
* `setPool` (harness set-up): a well-formed pool, not a holding pool. -/
def DexOk (s : State) : Op → Prop
  | .limit c o => holdAmt s c + o.amount < U64
  | .deposit c d => holdAmt s c + d.amount < U64
  | .swaps c _ => c ≤ maxChainId
  | .dexBatch c nested remote _ => (if nested then s.root else c) ≤ maxChainId ∧
      ∀ r, remote = some r → r.poolSize < U64 ∧
        (r.livenessFallback = true → ptsSum r.poolPoints = r.totalPoolPoints ∧ r.totalPoolPoints < U64)
  | .setPool id p => PoolOk p ∧ ∀ c, c ≤ maxChainId → id ≠ holdingId c
  | .seedNext c b => c ≤ maxChainId ∧ AM.get? s.next c = none ∧ BatchOk c b ∧ holdAmt s c + b.pending < U64
  | _ => True

theorem apply_dinv {s s' : State} {op : Op} (hi : DInv s) (hok : DexOk s op) (h : apply s op = .ok s') : DInv s' := by
  cases op with
  | fund a n => exact dinv_of_sellEff hi (sellEff_accountAdd h)
  | setPool id p =>
    injection h with h; subst h
    exact dinv_of_same hi rfl rfl rfl (pinv_setPool hi.pools hok.1)
      (fun c _ hc => by unfold holdAmt; rw [getPool_setPool_other _ _ _ _ (Ne.symm (hok.2 c hc))])
  | seedNext c b =>
    injection h with h; subst h
    obtain ⟨hc, hnone, hb, hfit⟩ := hok
    refine dinv_setNext (k := b.pending) hi hc rfl rfl rfl ?_ ?_ ?_ hb (by rw [hnone]; simp [pendOpt])
    · exact pinv_setPool hi.pools (poolOk_amount (hi.pools _) (Nat.mod_lt _ (by decide)))
    · show (getPool (poolAdd s (holdingId c) b.pending) (holdingId c)).amount = _
      rw [poolAdd_self]; unfold holdAmt at hfit ⊢; rw [Nat.mod_eq_of_lt hfit]
    · intro c' hc' hne
      show (getPool (poolAdd s (holdingId c) b.pending) (holdingId c')).amount = _
      rw [poolAdd_other _ _ _ _ (fun e => hne (holdingId_inj hc hc' e))]; rfl
  | subsidy a id n op =>
    change subsidy s a id n op = Except.ok s' at h
    unfold subsidy at h
    obtain ⟨_, _, h⟩ := bind_ok h
    obtain ⟨u, hu, h⟩ := bind_ok h
    have hid := (checkChainId_ok hu).2
    split at h
    · cases h
    · obtain ⟨s1, h1, h⟩ := bind_ok h
      injection h with h; subst h
      have e1 : Eff 0 s s1 0 := eff_accountSub h1
      refine dinv_of_same hi e1.next e1.locked e1.height
        (pinv_setPool (e1.pinv hi.pools) (poolOk_amount (e1.pinv hi.pools _) (Nat.mod_lt _ (by decide)))) (fun c h0 hc => ?_)
      -- an accepted subsidy goes to a chain id (≤ MaxChainId): below every holding pool id of a chain ≥ 1
      have hne : holdingId c ≠ id := by
        unfold holdingId Gen.Dex.HoldingPoolAddend U64; unfold maxChainId at hid hc; omega
      show (getPool (poolAdd s1 id n) (holdingId c)).amount = _
      rw [poolAdd_other _ _ _ _ hne]
      exact holdAmt_congr (accountSub_ok h1).2.1 c
  | create m => exact dinv_of_sellEff hi (sellEff_create h)
  | edit m => exact dinv_of_sellEff hi (sellEff_edit h)
  | delete c id => exact dinv_of_sellEff hi (sellEff_delete h)
  | swaps c o =>
    injection h with h; subst h
    exact dinv_of_sellEff hi (sellEff_swaps s c o hok)
  | limit c o => exact dinv_limit hi h hok
  | deposit c d => exact dinv_deposit hi h hok
  | withdraw c w => exact dinv_withdraw hi h
  | dexBatch c nested remote bh =>
    change handleDexBatch s c nested remote bh = Except.ok s' at h
    unfold handleDexBatch at h
    split at h
    · injection h with h; subst h; exact hi
    · rename_i r
      obtain ⟨hm, hrt⟩ := hok.2 r rfl
      exact dinv_dexBatchOn hi hok.1 hm hrt h
  | endBlock =>
    injection h with h; subst h
    exact dinv_endBlock hi

theorem step_dinv {s : State} {op : Op} (hi : DInv s) (hok : DexOk s op) : DInv (step s op) := by
  unfold step
  split
  · exact dinv_normalize (apply_dinv hi hok ‹apply s op = Except.ok _›)
  · exact dinv_normalize hi

def DexAdmissible : State → List Op → Prop
  | _, [] => True
  | s, op :: ops => DexOk s op ∧ DexAdmissible (step s op) ops

theorem run_dinv {s : State} {ops : List Op} (hi : DInv s) (h : DexAdmissible s ops) : DInv (run s ops) := by
  induction ops generalizing s with
  | nil => exact hi
  | cons op ops ih => exact ih (step_dinv hi h.1) h.2

theorem dinv_init (self root height minOrder : Nat) (hh : 0 < height) : DInv { self, root, height, minOrder } where
  pools := fun _ => poolOk_empty
  nextNodup := by simp [AM.keys]
  lockedNodup := by simp [AM.keys]
  nextOk := fun k b h => by simp [AM.get?] at h
  lockedOk := fun k b h => by simp [AM.get?] at h
  hold := fun c _ _ => by simp [holdAmt, pendStored, getPool, AM.get?, pendOpt]
  height := hh

end Canopy.Dex
