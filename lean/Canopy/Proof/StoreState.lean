import Canopy.Proof.StoreRollback
/-! The store state machine (C10): every reachable state represents a versioned map; reads through
the store, nested transactions, copies and read-only views refine it; committed history is immutable. -/
namespace Canopy.Store
open Canopy

/-- every key an operation writes belongs to the key universe (and versions are `uint64`) -/
def OpOK (K : Bytes → Prop) : Op → Prop
  | .set k _ => K k
  | .del k => K k
  | .cset _ k _ => K k
  | .cdel _ k => K k
  | .hold v => v ≤ maxVer
  | _ => True

/-- the operation does not roll back below `v` -/
def KeepsHistory (v : Nat) : Op → Prop
  | .rollback t => v ≤ t
  | _ => True

/-- a copy or held view: a handle over some represented snapshot -/
def SideOK (K : Bytes → Prop) (h : Handle) : Prop :=
  (∃ m' v', Reads K h (readAt m' v')) ∧ LayersOK K h.layers

/-- **the state invariant**: the key space represents the versioned map `m` at the store's version,
and every pending layer is a sorted overlay over keys of `K` -/
structure Inv (K : Bytes → Prop) (s : State) (m : VMap) : Prop where
  rep : Rep K s.db m s.version
  main : LayersOK K s.main
  side : ∀ h ∈ s.copies ++ s.held, SideOK K h

theorem layersOK_empty (K : Bytes → Prop) : LayersOK K [{}] := by
  intro l hl
  simp only [List.mem_singleton] at hl
  subst hl
  exact ⟨List.Pairwise.nil, by simp⟩

theorem Inv.init (K : Bytes → Prop) : Inv K {} [] where
  rep := Rep.init K
  main := layersOK_empty K
  side := by simp

theorem layersOK_write {K : Bytes → Prop} {hd : Handle} (h : LayersOK K hd.layers) {k : Bytes} (hk : K k) (op : TOp) :
    LayersOK K (hd.write k op).layers := by
  unfold Handle.write
  cases hls : hd.layers with
  | nil => simp only; rw [hls]; intro l hl'; cases hl'
  | cons l rest =>
    simp only
    rw [hls] at h
    intro x hx
    rcases List.mem_cons.mp hx with rfl | hx
    · have := h l List.mem_cons_self
      refine ⟨sorted_smSet this.1 k op, fun e he => ?_⟩
      rcases mem_of_mem_smSet he with rfl | he
      · exact hk
      · exact this.2 e he
    · exact h x (List.mem_cons_of_mem _ hx)

theorem write_same (h : Handle) (k : Bytes) (op : TOp) :
    (h.write k op).snap = h.snap ∧ (h.write k op).rver = h.rver ∧ (h.write k op).pfx = h.pfx := by
  unfold Handle.write; cases h.layers <;> exact ⟨rfl, rfl, rfl⟩

theorem layersOK_flush {K : Bytes → Prop} {ls ls' : List Layer} (h : LayersOK K ls) (hf : flushLayers ls = some ls') :
    LayersOK K ls' := by
  unfold flushLayers at hf
  cases ls with
  | nil => cases hf
  | cons top rest =>
    cases rest with
    | nil => cases hf
    | cons below rest =>
      simp only [Option.some.injEq] at hf
      subst hf
      have htop := h top List.mem_cons_self
      have hbelow := h below (by simp)
      have hfold : ∀ (ops : Overlay) (acc : Overlay), SSorted acc → (∀ e ∈ acc, K e.1) → (∀ e ∈ ops, K e.1) →
          SSorted (ops.foldl (fun o e => smSet o e.1 e.2) acc) ∧
          ∀ e ∈ ops.foldl (fun o e => smSet o e.1 e.2) acc, K e.1 := by
        intro ops
        induction ops with
        | nil => intro acc h1 h2 _; exact ⟨h1, h2⟩
        | cons a ops ih =>
          intro acc h1 h2 h3
          apply ih
          · exact sorted_smSet h1 _ _
          · intro e he
            rcases mem_of_mem_smSet he with rfl | he
            · exact h3 a List.mem_cons_self
            · exact h2 e he
          · exact fun e he => h3 e (List.mem_cons_of_mem _ he)
      have hres := hfold top.ov below.ov hbelow.1 hbelow.2 htop.2
      intro x hx
      rcases List.mem_cons.mp hx with rfl | hx
      · exact ⟨List.Pairwise.nil, by simp⟩
      · rcases List.mem_cons.mp hx with rfl | hx
        · exact hres
        · exact h x (by simp [hx])

theorem sideOK_write {K : Bytes → Prop} {h : Handle} (hs : SideOK K h) {k : Bytes} (hk : K k) (op : TOp) :
    SideOK K (h.write k op) := by
  obtain ⟨⟨m', v', hr⟩, hl⟩ := hs
  have hsame := write_same h k op
  exact ⟨⟨m', v', hr.of_same hsame.1 hsame.2.1 hsame.2.2⟩, layersOK_write hl hk op⟩

theorem Inv.reads_main {K : Bytes → Prop} (hK : WFKeys K) {s : State} {m : VMap} (hi : Inv K s m) :
    Reads K s.handle (readAt m s.version) := hi.rep.reads_lss hK s.main

theorem Inv.reads_readOnly {K : Bytes → Prop} (hK : WFKeys K) {s : State} {m : VMap} (hi : Inv K s m)
    {v : Nat} (hv : v ≤ maxVer) : Reads K (s.readOnly v) (readAt m v) ∧ (s.readOnly v).layers = [{}] := by
  unfold State.readOnly
  by_cases h : s.version = v
  · rw [if_pos h]; exact ⟨h ▸ hi.rep.reads_lss hK [{}], rfl⟩
  · rw [if_neg h]; exact ⟨hi.rep.reads_hss hK hv [{}], rfl⟩

/-- **what an operation does to the versioned map**: a commit (outside nested transactions) adds the pending
operations as the next version, an accepted rollback forgets every version above its target, nothing else
changes it -/
def specApply (s : State) (m : VMap) : Op → VMap
  | .commit => match s.main with
    | [l] => m.commit l.ov (s.version + 1)
    | _ => m
  | .rollback t => match s.main with
    | [_] => if t = 0 ∨ s.version ≤ t then m else m.rollback t
    | _ => m
  | _ => m

/-- the versioned map a sequence of operations builds -/
def specRun (s : State) (m : VMap) : List Op → VMap
  | [] => m
  | op :: ops => specRun (s.apply op) (specApply s m op) ops

/-- **every operation preserves the invariant**, and changes the versioned map only by committing a
new version or by forgetting the versions above a rollback target -/
theorem Inv.apply_spec {K : Bytes → Prop} (hK : WFKeys K) {s : State} {m : VMap} (hi : Inv K s m) (op : Op)
    (hop : OpOK K op) (hver : s.version + 1 < maxVer) :
    Inv K (s.apply op) (specApply s m op) ∧ (s.apply op).version ≤ s.version + 1 ∧
      ∀ v, v ≤ s.version → KeepsHistory v op →
        (v ≤ (s.apply op).version ∧ ∀ k, readAt (specApply s m op) v k = readAt m v k) := by
  have same : ∀ s' : State, s'.db = s.db → s'.version = s.version → LayersOK K s'.main →
      (∀ h ∈ s'.copies ++ s'.held, SideOK K h) → specApply s m op = m →
      Inv K s' (specApply s m op) ∧ s'.version ≤ s.version + 1 ∧
        ∀ v, v ≤ s.version → KeepsHistory v op →
          (v ≤ s'.version ∧ ∀ k, readAt (specApply s m op) v k = readAt m v k) := by
    intro s' h1 h2 h3 h4 h5
    rw [h5]
    exact ⟨⟨by rw [h1, h2]; exact hi.rep, h3, h4⟩, by omega, fun v hv _ => ⟨by omega, fun _ => rfl⟩⟩
  cases op with
  | set k v => exact same _ rfl rfl (layersOK_write (hd := s.handle) hi.main hop _) hi.side rfl
  | del k => exact same _ rfl rfl (layersOK_write (hd := s.handle) hi.main hop _) hi.side rfl
  | nest =>
    refine same _ rfl rfl ?_ hi.side rfl
    intro l hl
    rcases List.mem_cons.mp hl with rfl | hl
    · exact ⟨List.Pairwise.nil, by simp⟩
    · exact hi.main l hl
  | flush =>
    simp only [State.apply]
    cases hf : flushLayers s.main with
    | none => exact same _ rfl rfl hi.main hi.side rfl
    | some ls => exact same _ rfl rfl (layersOK_flush hi.main hf) hi.side rfl
  | discard =>
    simp only [State.apply]
    cases hm : s.main with
    | nil => exact same _ rfl rfl hi.main hi.side rfl
    | cons top rest =>
      cases rest with
      | nil => exact same _ rfl rfl hi.main hi.side rfl
      | cons below rest =>
        refine same _ rfl rfl ?_ hi.side rfl
        intro l hl
        have hmain := hi.main
        rw [hm] at hmain
        rcases List.mem_cons.mp hl with rfl | hl
        · exact ⟨List.Pairwise.nil, by simp⟩
        · exact hmain l (List.mem_cons_of_mem _ hl)
  | pop =>
    simp only [State.apply]
    cases hm : s.main with
    | nil => exact same _ rfl rfl hi.main hi.side rfl
    | cons top rest =>
      cases rest with
      | nil => exact same _ rfl rfl hi.main hi.side rfl
      | cons below rest =>
        refine same _ rfl rfl ?_ hi.side rfl
        have hmain := hi.main
        rw [hm] at hmain
        exact fun l hl => hmain l (List.mem_cons_of_mem _ hl)
  | commit =>
    simp only [State.apply, State.commit]
    cases hm : s.main with
    | nil => exact same _ rfl rfl hi.main hi.side (by simp only [specApply, hm] <;> first | rfl | (rw [if_pos (by omega)]))
    | cons l rest =>
      cases rest with
      | cons _ _ => exact same _ rfl rfl hi.main hi.side (by simp only [specApply, hm] <;> first | rfl | (rw [if_pos (by omega)]))
      | nil =>
        have hl := hi.main l (by rw [hm]; exact List.mem_cons_self)
        have hsp : specApply s m .commit = m.commit l.ov (s.version + 1) := by simp [specApply, hm]
        rw [hsp]
        refine ⟨⟨hi.rep.commit l.ov hl.1 hl.2 hver, layersOK_empty K, hi.side⟩,
          Nat.le_refl _, fun v hv _ => ⟨by show v ≤ s.version + 1; omega, fun k => readAt_commit_old hi.rep.uniq hi.rep.vb hl.1 hv k⟩⟩
  | rollback t =>
    simp only [State.apply]
    cases hm : s.main with
    | nil => exact same _ rfl rfl hi.main hi.side (by simp only [specApply, hm] <;> first | rfl | (rw [if_pos (by omega)]))
    | cons l rest =>
      cases rest with
      | cons _ _ => exact same _ rfl rfl hi.main hi.side (by simp only [specApply, hm] <;> first | rfl | (rw [if_pos (by omega)]))
      | nil =>
        simp only
        unfold State.rollback
        by_cases h0 : t = 0
        · rw [if_pos h0]; exact same _ rfl rfl hi.main hi.side (by simp only [specApply, hm] <;> first | rfl | (rw [if_pos (by omega)]))
        · rw [if_neg h0]
          by_cases h1 : t > s.version
          · rw [if_pos h1]; exact same _ rfl rfl hi.main hi.side (by simp only [specApply, hm] <;> first | rfl | (rw [if_pos (by omega)]))
          · rw [if_neg h1]
            by_cases h2 : t = s.version
            · rw [if_pos h2]; exact same _ rfl rfl hi.main hi.side (by simp only [specApply, hm] <;> first | rfl | (rw [if_pos (by omega)]))
            · rw [if_neg h2]
              simp only [Option.getD_some]
              have hsp : specApply s m (.rollback t) = m.rollback t := by
                simp only [specApply, hm]; rw [if_neg (by omega)]
              rw [hsp]
              refine ⟨⟨hi.rep.rollback hK (by omega), layersOK_empty K, hi.side⟩, by show t ≤ _; omega,
                fun v hv hk => ⟨hk, fun k => readAt_rollback hi.rep.uniq hk k⟩⟩
  | copy =>
    refine same _ rfl rfl hi.main ?_ rfl
    intro h hh
    simp only [State.apply, List.append_assoc, List.mem_append, List.mem_singleton] at hh
    rcases hh with hh | rfl | hh
    · exact hi.side h (List.mem_append_left _ hh)
    · refine ⟨⟨m, s.version, hi.rep.reads_lss hK _⟩, ?_⟩
      intro l hl
      simp only [State.copy, List.mem_singleton] at hl
      subst hl
      cases hlast : s.main.getLast? with
      | none => exact ⟨List.Pairwise.nil, by simp⟩
      | some b => exact hi.main b (List.mem_of_getLast? hlast)
    · exact hi.side h (List.mem_append_right _ hh)
  | cset i k v =>
    simp only [State.apply]
    cases hc : s.copies[i]? with
    | none => exact same _ rfl rfl hi.main hi.side rfl
    | some h0 =>
      refine same _ rfl rfl hi.main ?_ rfl
      intro h hh
      rcases List.mem_append.mp hh with hh | hh
      · rcases List.mem_or_eq_of_mem_set hh with hh | rfl
        · exact hi.side h (List.mem_append_left _ hh)
        · exact sideOK_write (hi.side h0 (List.mem_append_left _ (List.mem_of_getElem? hc))) hop _
      · exact hi.side h (List.mem_append_right _ hh)
  | cdel i k =>
    simp only [State.apply]
    cases hc : s.copies[i]? with
    | none => exact same _ rfl rfl hi.main hi.side rfl
    | some h0 =>
      refine same _ rfl rfl hi.main ?_ rfl
      intro h hh
      rcases List.mem_append.mp hh with hh | hh
      · rcases List.mem_or_eq_of_mem_set hh with hh | rfl
        · exact hi.side h (List.mem_append_left _ hh)
        · exact sideOK_write (hi.side h0 (List.mem_append_left _ (List.mem_of_getElem? hc))) hop _
      · exact hi.side h (List.mem_append_right _ hh)
  | hold v =>
    refine same _ rfl rfl hi.main ?_ rfl
    intro h hh
    simp only [State.apply, ← List.append_assoc, List.mem_append, List.mem_singleton] at hh
    rcases hh with hh | rfl
    · exact hi.side h (List.mem_append.mpr hh)
    · have := hi.reads_readOnly hK (v := v) hop
      exact ⟨⟨m, v, this.1⟩, by rw [this.2]; exact layersOK_empty K⟩

/-- the existential form: some versioned map is represented after the operation -/
theorem Inv.apply {K : Bytes → Prop} (hK : WFKeys K) {s : State} {m : VMap} (hi : Inv K s m) (op : Op)
    (hop : OpOK K op) (hver : s.version + 1 < maxVer) :
    ∃ m', Inv K (s.apply op) m' ∧ (s.apply op).version ≤ s.version + 1 ∧
      ∀ v, v ≤ s.version → KeepsHistory v op → (v ≤ (s.apply op).version ∧ ∀ k, readAt m' v k = readAt m v k) :=
  ⟨_, hi.apply_spec hK op hop hver⟩

end Canopy.Store

namespace Canopy.Store
open Canopy

theorem sorted_mem_unique (reverse : Bool) : ∀ (o1 o2 : List (Bytes × Bytes)),
    KeysSorted reverse (o1.map (·.1)) → KeysSorted reverse (o2.map (·.1)) → (∀ e, e ∈ o1 ↔ e ∈ o2) → o1 = o2 := by
  intro o1
  induction o1 with
  | nil =>
    intro o2 _ _ hmem
    cases o2 with
    | nil => rfl
    | cons b t => exact absurd ((hmem b).mpr List.mem_cons_self) (by simp)
  | cons a t1 ih =>
    intro o2 hs1 hs2 hmem
    cases o2 with
    | nil => exact absurd ((hmem a).mp List.mem_cons_self) (by simp)
    | cons b t2 =>
      have s1 := sorted_head_lt (k := a.1) (a := a.2) (l := t1) hs1
      have s2 := sorted_head_lt (k := b.1) (a := b.2) (l := t2) hs2
      have hab : a = b := by
        rcases List.mem_cons.mp ((hmem a).mp List.mem_cons_self) with h | h
        · exact h
        · rcases List.mem_cons.mp ((hmem b).mpr List.mem_cons_self) with h' | h'
          · exact h'.symm
          · exact absurd (s1.1 b h') (dlt_asymm (s2.1 a h))
      subst hab
      congr 1
      apply ih t2 s1.2 s2.2
      intro e
      constructor
      · intro he
        rcases List.mem_cons.mp ((hmem e).mp (List.mem_cons_of_mem _ he)) with h | h
        · subst h; exact absurd (s1.1 e he) (dlt_irrefl _ _)
        · exact h
      · intro he
        rcases List.mem_cons.mp ((hmem e).mpr (List.mem_cons_of_mem _ he)) with h | h
        · subst h; exact absurd (s2.1 e he) (dlt_irrefl _ _)
        · exact h

/-- a scan is determined by the view: two strictly ordered lists with the same members are equal -/
theorem isScan_unique {f : Bytes → Option Bytes} {p : Bytes} {reverse : Bool} {o1 o2 : List (Bytes × Bytes)}
    (h1 : IsScan f p reverse o1) (h2 : IsScan f p reverse o2) : o1 = o2 :=
  sorted_mem_unique reverse o1 o2 h1.1 h2.1 fun e => by obtain ⟨k, x⟩ := e; rw [h1.2, h2.2]

/-- a sequence of operations -/
def runOps (s : State) (ops : List Op) : State := ops.foldl State.apply s

theorem Inv.run {K : Bytes → Prop} (hK : WFKeys K) : ∀ (ops : List Op) {s : State} {m : VMap}, Inv K s m →
    (∀ op ∈ ops, OpOK K op) → s.version + ops.length + 1 < maxVer → ∀ v, v ≤ s.version →
    (∀ op ∈ ops, KeepsHistory v op) →
    ∃ m', Inv K (runOps s ops) m' ∧ v ≤ (runOps s ops).version ∧
      (runOps s ops).version ≤ s.version + ops.length ∧ ∀ k, readAt m' v k = readAt m v k := by
  intro ops
  induction ops with
  | nil => intro s m hi _ _ v hv _; exact ⟨m, hi, hv, by simp [runOps], fun _ => rfl⟩
  | cons op ops ih =>
    intro s m hi hops hver v hv hkeep
    simp only [List.length_cons] at hver
    obtain ⟨m1, hi1, hv1, hk1⟩ := hi.apply hK op (hops op List.mem_cons_self) (by omega)
    obtain ⟨hvv, hread⟩ := hk1 v hv (hkeep op List.mem_cons_self)
    obtain ⟨m2, hi2, hv2, hle2, hread2⟩ := ih hi1 (fun o ho => hops o (List.mem_cons_of_mem _ ho)) (by omega) v hvv
      (fun o ho => hkeep o (List.mem_cons_of_mem _ ho))
    refine ⟨m2, hi2, hv2, ?_, fun k => (hread2 k).trans (hread k)⟩
    show (runOps (s.apply op) ops).version ≤ _
    simp only [List.length_cons]; omega

theorem specView_single (f : Bytes → Option Bytes) : specView [{}] f = f := by
  funext k
  simp [specView, applyOv, smGet]

/-- reads of a read-only view at `v` are the versioned map as of `v` -/
theorem Inv.readOnly_get {K : Bytes → Prop} (hK : WFKeys K) {s : State} {m : VMap} (hi : Inv K s m)
    {v : Nat} (hv : v ≤ maxVer) {k : Bytes} (hk : K k) : (s.readOnly v).get k = some (readAt m v k) := by
  obtain ⟨hr, hl⟩ := hi.reads_readOnly hK hv
  have := hr.get hK (by rw [hl]; exact layersOK_empty K) hk
  rw [hl, specView_single] at this
  exact this

theorem Inv.readOnly_iter {K : Bytes → Prop} (hK : WFKeys K) {s : State} {m : VMap} (hi : Inv K s m)
    {v : Nat} (hv : v ≤ maxVer) {p : Bytes} (hp : PfxOK K p) (hpk : keyOK p = true) (reverse : Bool) :
    ∃ out, (s.readOnly v).iter p reverse = some out ∧ IsScan (readAt m v) p reverse out := by
  obtain ⟨hr, hl⟩ := hi.reads_readOnly hK hv
  obtain ⟨out, h1, h2⟩ := hr.iter hK (by rw [hl]; exact layersOK_empty K) hp hpk reverse
  rw [hl, specView_single] at h2
  exact ⟨out, h1, h2⟩

/-- **`history_immutable`** on the implementation model: once `v` is committed, what a read-only view
at `v` returns — point reads and forward/reverse prefix iteration — is the same after any later
sequence of writes, deletes, nested transactions, copies, commits, and rollbacks to heights ≥ `v` -/
theorem Inv.history {K : Bytes → Prop} (hK : WFKeys K) {s : State} {m : VMap} (hi : Inv K s m) (ops : List Op)
    (hops : ∀ op ∈ ops, OpOK K op) (hver : s.version + ops.length + 1 < maxVer) (v : Nat) (hv : v ≤ s.version)
    (hkeep : ∀ op ∈ ops, KeepsHistory v op) :
    (∀ k, K k → ((runOps s ops).readOnly v).get k = (s.readOnly v).get k) ∧
    (∀ p reverse, PfxOK K p → keyOK p = true →
      ((runOps s ops).readOnly v).iter p reverse = (s.readOnly v).iter p reverse) := by
  obtain ⟨m', hi', _, _, hread⟩ := hi.run hK ops hops hver v hv hkeep
  have hvm : v ≤ maxVer := by have := hi.rep.ver_lt; omega
  have hf : readAt m' v = readAt m v := funext hread
  constructor
  · intro k hk
    rw [hi'.readOnly_get hK hvm hk, hi.readOnly_get hK hvm hk, hread]
  · intro p reverse hp hpk
    obtain ⟨o1, h1, s1⟩ := hi'.readOnly_iter hK hvm hp hpk reverse
    obtain ⟨o2, h2, s2⟩ := hi.readOnly_iter hK hvm hp hpk reverse
    have : o1 = o2 := isScan_unique (f := readAt m v) (by rw [← hf]; exact s1) s2
    rw [h1, h2, this]

end Canopy.Store

namespace Canopy.Store
open Canopy

/-! ## nested transactions at the spec level: own writes, deletes, flush, discard -/

theorem applyOv_write (ov : Overlay) (k : Bytes) (op : TOp) (f : Bytes → Option Bytes) (k' : Bytes) :
    applyOv (smSet ov k op) f k' = if k' = k then op.read else applyOv ov f k' := by
  unfold applyOv
  rw [smGet_smSet]
  by_cases h : k' = k <;> simp [h]

theorem smGet_foldl_smSet (ops : Overlay) (hs : SSorted ops) (acc : Overlay) (k : Bytes) :
    smGet (ops.foldl (fun o e => smSet o e.1 e.2) acc) k =
      match smGet ops k with
      | some op => some op
      | none => smGet acc k := by
  induction ops generalizing acc with
  | nil => rfl
  | cons a ops ih =>
    obtain ⟨ka, oa⟩ := a
    rw [List.foldl_cons, ih hs.tail, smGet_smSet]
    simp only [smGet]
    by_cases h : k = ka
    · subst h
      rw [smGet_none_of_head_lt hs]
      simp
    · simp only [h, if_false]

/-- **flush is transparent**: writing the pending operations of a nested txn into its parent does not
change what the nested txn shows (and the parent then shows it too) -/
theorem specView_flush {top below : Layer} {rest ls' : List Layer} (hs : SSorted top.ov)
    (hf : flushLayers (top :: below :: rest) = some ls') (f : Bytes → Option Bytes) :
    specView ls' f = specView (top :: below :: rest) f := by
  simp only [flushLayers, Option.some.injEq] at hf
  subst hf
  funext k
  simp only [specView, List.foldr_cons, applyOv, smGet]
  rw [smGet_foldl_smSet top.ov hs]
  cases smGet top.ov k <;> rfl

/-- **discard**: an emptied layer shows its parent -/
theorem specView_discard (top : Layer) (rest : List Layer) (f : Bytes → Option Bytes) :
    specView ({ top with ov := [] } :: rest) f = specView rest f := by
  funext k
  simp [specView, applyOv, smGet]

/-- **a run represents exactly the versioned map `specRun` computes** -/
theorem Inv.run_spec {K : Bytes → Prop} (hK : WFKeys K) : ∀ (ops : List Op) {s : State} {m : VMap}, Inv K s m →
    (∀ op ∈ ops, OpOK K op) → s.version + ops.length + 1 < maxVer →
    Inv K (runOps s ops) (specRun s m ops) := by
  intro ops
  induction ops with
  | nil => intro s m hi _ _; exact hi
  | cons op ops ih =>
    intro s m hi hops hver
    simp only [List.length_cons] at hver
    obtain ⟨hi1, hv1, _⟩ := hi.apply_spec hK op (hops op List.mem_cons_self) (by omega)
    exact ih hi1 (fun o ho => hops o (List.mem_cons_of_mem _ ho)) (by omega)

end Canopy.Store
