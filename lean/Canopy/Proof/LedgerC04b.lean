import Canopy.Proof.LedgerC04
/-! C04, second part: automatic begin/end-block actions, byzantine handling, parameter changes, transactions,
genesis. -/
namespace Canopy.Ledger
open AMap

set_option linter.unusedSimpArgs false
set_option linter.unusedVariables false

/-! ### folds -/

theorem foldl_moves {α} (f : Ledger → α → Ledger) (hf : ∀ L x, Moves L (f L x)) :
    ∀ (xs : List α) (L : Ledger), Moves L (xs.foldl f L)
  | [], L => Moves.refl L
  | x :: xs, L => by
    have h1 := hf L x
    have h2 := foldl_moves f hf xs (f L x)
    simpa using h1.trans h2

theorem foldl_sameBal {α} (f : Ledger → α → Ledger) (hf : ∀ L x, SameBal L (f L x)) :
    ∀ (xs : List α) (L : Ledger), SameBal L (xs.foldl f L)
  | [], L => SameBal.refl L
  | x :: xs, L => (hf L x).trans (foldl_sameBal f hf xs (f L x))

theorem Moves.inv {L L' : Ledger} (h : Moves L L') (hi : InvSupply L) : InvSupply L' := h.inv_of_le hi (Nat.le_refl 0)

theorem foldlM_moves {α} (f : Ledger → α → M Ledger) (hf : ∀ L x L', InvSupply L → f L x = .ok L' → Moves L L') :
    ∀ (xs : List α) (L L' : Ledger), InvSupply L → xs.foldlM f L = .ok L' → Moves L L'
  | [], L, L', _, h => by cases h; exact Moves.refl L
  | x :: xs, L, L', hi, h => by
    simp only [List.foldlM_cons] at h
    obtain ⟨L1, h1, h2⟩ := bind_ok h
    have m1 := hf L x L1 hi h1
    have m2 := foldlM_moves f hf xs L1 L' (m1.inv hi) h2
    simpa using m1.trans m2

/-! ### end-block actions -/

theorem forceUnstakeValidator_moves (L : Ledger) (a : Addr) : Moves L (forceUnstakeValidator L a) := by
  unfold forceUnstakeValidator
  split
  · exact Moves.refl L
  · next val hv =>
    split
    · exact Moves.refl L
    · exact moves_of_money (setValidatorUnstaking_money ..) (stakeSum_setValidatorUnstaking _ hv rfl)

theorem forceUnstakeMaxPaused_moves (L : Ledger) : Moves L (forceUnstakeMaxPaused L) := by
  unfold forceUnstakeMaxPaused
  dsimp only
  have h1 := foldl_moves forceUnstakeValidator forceUnstakeValidator_moves (dueAt L.paused L.height) L
  have h2 := foldl_sameBal (fun L a => { L with paused := KSet.del L.paused (L.height, a) })
    (fun L a => ⟨rfl, rfl, rfl, rfl⟩) (dueAt L.paused L.height) ((dueAt L.paused L.height).foldl forceUnstakeValidator L)
  simpa using h1.trans h2.moves

theorem finishUnstakingStep_moves {L L' : Ledger} {a : Addr} (h : finishUnstakingStep L a = .ok L') : Moves L L' := by
  unfold finishUnstakingStep at h
  split at h
  · cases h
  · next val hv =>
    split at h
    · cases h
    · next L1 h1 =>
      obtain ⟨acc, vs, rfl, e1⟩ := accountAdd_ok h1
      have hv1 : valGet? { L with accounts := acc, vesting := vs } a = some val := hv
      obtain ⟨t, b⟩ := deleteValidator_bal hv1 h
      ledger_norm; omega

theorem deleteFinishedUnstaking_moves {L L' : Ledger} (hi : InvSupply L) (h : deleteFinishedUnstaking L = .ok L') : Moves L L' := by
  unfold deleteFinishedUnstaking at h
  dsimp only at h
  split at h
  · cases h
  · next L1 h1 =>
    cases h
    have m1 := foldlM_moves finishUnstakingStep (fun L x L' _ h => finishUnstakingStep_moves h) _ L L1 hi h1
    have h2 := foldl_sameBal (fun L a => { L with unstaking := KSet.del L.unstaking (L.height, a) })
      (fun L a => ⟨rfl, rfl, rfl, rfl⟩) (dueAt L.unstaking L.height) L1
    simpa using m1.trans h2.moves

/-! ### the scheduled block mint -/

/-- what `FundCommitteeRewardPools` is scheduled to mint at this height: `InitialTokensPerBlock >> halvenings` -/
def scheduledMint (L : Ledger) : Nat := L.cfg.initialTokensPerBlock / 2 ^ (L.height / L.cfg.blocksPerHalvening)

theorem foldl_mintToPool (per : Nat) : ∀ (cs : List Nat) (L : Ledger), InvSupply L → L.supply.total + per * cs.length < U64 →
    Step (per * cs.length) 0 L (cs.foldl (fun L c => mintToPool L c per) L)
  | [], L, _, _ => by simpa using Moves.refl L
  | c :: cs, L, hi, hx => by
    simp only [List.length_cons, Nat.mul_succ] at hx ⊢
    have s1 := mintToPool_mints (id := c) hi (x := per) (by omega)
    have i1 : InvSupply (mintToPool L c per) := s1.inv hi (by unfold mintToPool; exact addToTotal_lt _ _)
    have s2 := foldl_mintToPool per cs (mintToPool L c per) i1 (by have := s1.1; omega)
    simp only [List.foldl_cons]
    have := s1.trans s2
    simpa [Nat.add_comm] using this

/-- `FundCommitteeRewardPools` mints at most the scheduled amount — provided the recorded total does not overflow
(hypothesis; the code adds unguarded, see `mintToPool_wraps`) -/
theorem fundCommitteeRewardPools_mints {L L' : Ledger} (hi : InvSupply L) (hx : L.supply.total + scheduledMint L < U64)
    (h : fundCommitteeRewardPools L = .ok L') : ∃ m, m ≤ scheduledMint L ∧ Step m 0 L L' := by
  unfold fundCommitteeRewardPools at h
  split at h
  · cases h
  · dsimp only at h
    split at h
    · cases h; exact ⟨0, Nat.zero_le _, Moves.refl L⟩
    · cases h
      unfold scheduledMint at hx ⊢
      generalize L.cfg.initialTokensPerBlock / 2 ^ (L.height / L.cfg.blocksPerHalvening) = T at hx ⊢
      generalize hA : (if L.params.daoRewardPercentage ≥ 100 then 0
        else if L.params.daoRewardPercentage = 0 then T else safeMulDiv T (100 - L.params.daoRewardPercentage) 100) = A
      have hAle : A ≤ T := by
        rw [← hA]; split
        · omega
        · split
          · omega
          · exact safeMulDiv_le _ _ (by omega)
      generalize subsidizedCommittees L = paid
      have hper : A / paid.length * paid.length ≤ A := Nat.div_mul_le_self A paid.length
      have s1 := mintToPool_mints (id := Canopy.Gen.LedgerFacts.daoPoolId) hi (x := T - A) (by omega)
      have i1 : InvSupply (mintToPool L Canopy.Gen.LedgerFacts.daoPoolId (T - A)) :=
        s1.inv hi (by unfold mintToPool; exact addToTotal_lt _ _)
      have s2 := foldl_mintToPool (A / paid.length) paid _ i1 (by have := s1.1; omega)
      refine ⟨(T - A) + A / paid.length * paid.length, by omega, ?_⟩
      simpa using s1.trans s2

theorem beginBlockMint_mints {L L' : Ledger} (hi : InvSupply L) (hx : L.supply.total + scheduledMint L < U64)
    (h : beginBlockMint L = .ok L') : ∃ m, m ≤ scheduledMint L ∧ Step m 0 L L' := by
  unfold beginBlockMint at h
  split at h
  · cases h; exact ⟨0, Nat.zero_le _, Moves.refl L⟩
  · exact fundCommitteeRewardPools_mints hi hx h

/-! ### byzantine handling and certificate results (only ever burn) -/

/-- "`L'` is `L` after burning something": the closure the slashing paths live in -/
def Burns (L L' : Ledger) : Prop := ∃ b, Step 0 b L L'

theorem Burns.refl (L : Ledger) : Burns L L := ⟨0, Moves.refl L⟩
theorem Burns.trans {A B C : Ledger} (h1 : Burns A B) (h2 : Burns B C) : Burns A C := by
  obtain ⟨b1, s1⟩ := h1; obtain ⟨b2, s2⟩ := h2
  exact ⟨b1 + b2, by simpa using s1.trans s2⟩
theorem Moves.burns {L L' : Ledger} (h : Moves L L') : Burns L L' := ⟨0, h⟩
theorem Burns.inv {L L' : Ledger} (h : Burns L L') (hi : InvSupply L) : InvSupply L' := by
  obtain ⟨b, s⟩ := h; exact s.inv_of_le hi (Nat.zero_le _)
theorem Burns.total_le {L L' : Ledger} (h : Burns L L') : L'.supply.total ≤ L.supply.total := by
  obtain ⟨b, s⟩ := h; have := s.1; omega

theorem setValidatorsPaused_moves (chain : Nat) : ∀ (as : List Addr) (L : Ledger), Moves L (setValidatorsPaused L chain as)
  | [], L => Moves.refl L
  | a :: as, L => by
    unfold setValidatorsPaused
    split
    · exact setValidatorsPaused_moves chain as L
    · split
      · exact setValidatorsPaused_moves chain as L
      · split
        · next L1 h1 => simpa using (handlePause_moves h1).trans (setValidatorsPaused_moves chain as L1)
        · exact setValidatorsPaused_moves chain as L

theorem slashAndResetNonSigners_burns {L L' : Ledger} {chain : Nat} (h : slashAndResetNonSigners L chain = .ok L') : Burns L L' := by
  unfold slashAndResetNonSigners at h
  dsimp only at h
  split at h
  · cases h
  · next L2 h2 =>
    cases h
    have m1 := setValidatorsPaused_moves chain (badNonSigners L chain) L
    have b2 : Burns _ L2 := slashValidators_burns h2
    have s3 : SameBal L2 { L2 with nonSigners := [] } := ⟨rfl, rfl, rfl, rfl⟩
    exact (m1.burns.trans b2).trans s3.moves.burns

theorem incrementNonSigners_sameBal (chain : Nat) : ∀ (as : List Addr) (L : Ledger), SameBal L (incrementNonSigners L chain as)
  | [], L => SameBal.refl L
  | a :: as, L => by
    unfold incrementNonSigners
    dsimp only
    refine SameBal.trans ?_ (incrementNonSigners_sameBal chain as _)
    exact ⟨rfl, rfl, rfl, rfl⟩

theorem indexHeights_sameBal (a : Addr) : ∀ (hs : List Nat) (L L' : Ledger), indexHeights L a hs = .ok L' → SameBal L L'
  | [], L, L', h => by cases h; exact SameBal.refl L
  | x :: hs, L, L', h => by
    unfold indexHeights at h
    split at h
    · cases h
    · refine SameBal.trans ?_ (indexHeights_sameBal a hs _ L' h)
      exact ⟨rfl, rfl, rfl, rfl⟩

theorem indexDoubleSigners_sameBal : ∀ (ds : List (Addr × List Nat)) (L : Ledger) (r : Ledger × List Addr),
    indexDoubleSigners L ds = .ok r → SameBal L r.1
  | [], L, r, h => by cases h; exact SameBal.refl L
  | (a, hs) :: rest, L, r, h => by
    unfold indexDoubleSigners at h
    split at h
    · cases h
    · split at h
      · cases h
      · next L1 h1 =>
        split at h
        · cases h
        · next L2 more h2 =>
          cases h
          exact (indexHeights_sameBal a hs L L1 h1).trans (indexDoubleSigners_sameBal rest L1 (L2, more) h2)

theorem handleDoubleSigners_burns {L L' : Ledger} {chain : Nat} {ds : List (Addr × List Nat)}
    (h : handleDoubleSigners L chain ds = .ok L') : Burns L L' := by
  unfold handleDoubleSigners at h
  split at h
  · cases h
  · next r hr =>
    exact (indexDoubleSigners_sameBal ds L r hr).moves.burns.trans (slashValidators_burns h)

theorem handleByzantine_burns {L : Ledger} {chain : Nat} {members : List (Addr × Nat × Bool)} {ds : List (Addr × List Nat)}
    {r : Ledger × Nat} (h : handleByzantine L chain members ds = .ok r) : Burns L r.1 := by
  unfold handleByzantine at h
  split at h
  · cases h
  · next L1 h1 =>
    have b1 : Burns L L1 := by
      split at h1
      · exact slashAndResetNonSigners_burns h1
      · cases h1; exact Burns.refl L
    dsimp only at h
    split at h
    · cases h
    · next L3 h3 =>
      cases h
      exact (b1.trans (incrementNonSigners_sameBal chain _ L1).moves.burns).trans (handleDoubleSigners_burns h3)

theorem putCommitteeData_sameBal (L : Ledger) (d : CommitteeData) : SameBal L (putCommitteeData L d) := by
  unfold putCommitteeData; split <;> exact ⟨rfl, rfl, rfl, rfl⟩

theorem upsertCommitteeData_sameBal {L L' : Ledger} {chain qh qrh : Nat} {pay : List (Addr × Nat × Nat)}
    (h : upsertCommitteeData L chain qh qrh pay = .ok L') : SameBal L L' := by
  unfold upsertCommitteeData at h
  dsimp only at h
  split at h
  · cases h
  · split at h
    · cases h
    · split at h
      · cases h
      · split at h
        · cases h
        · cases h; exact putCommitteeData_sameBal _ _

/-- `HandleCertificateResults` (own chain): slashes burn, nothing is minted -/
theorem handleCertificateResults_burns {L L' : Ledger} {qh qrh : Nat} {members : List (Addr × Nat × Bool)}
    {ds : List (Addr × List Nat)} {pay : List (Addr × Nat × Nat)}
    (h : handleCertificateResults L qh qrh members ds pay = .ok L') : Burns L L' := by
  unfold handleCertificateResults at h
  dsimp only at h
  split at h
  · cases h
  · split at h
    · cases h
    · split at h
      · cases h
      · split at h
        · cases h
        · next r hr =>
          exact (handleByzantine_burns hr).trans (upsertCommitteeData_sameBal h).moves.burns

/-! ### governance parameter changes only move -/

theorem setUnstakingIfBelowMinimum_moves {L : Ledger} {a : Addr} {val : Validator} (hv : valGet? L a = some val) :
    Moves L (setUnstakingIfBelowMinimum L a val).2 := by
  rcases setUnstakingIfBelowMinimum_eq L a val with e | ⟨f, e⟩
  · rw [e]; exact Moves.refl L
  · rw [e]; exact moves_of_money (setValidatorUnstaking_money ..) (stakeSum_setValidatorUnstaking _ hv rfl)

theorem conformMinStakeStep_moves (L : Ledger) (a : Addr) : Moves L (conformMinStakeStep L a) := by
  unfold conformMinStakeStep
  split
  · next val hv => exact setUnstakingIfBelowMinimum_moves hv
  · exact Moves.refl L

theorem conformTrimStep_moves {acc acc' : Ledger × Nat} {a : Addr} (h : conformTrimStep acc a = .ok acc') : Moves acc.1 acc'.1 := by
  obtain ⟨L, idx⟩ := acc
  unfold conformTrimStep at h
  dsimp only at h
  split at h
  · cases h; exact Moves.refl L
  · next val hv =>
    split at h
    · cases h; exact Moves.refl L
    · split at h
      · cases h
      · next L1 h1 =>
        cases h
        have s1 : SameBal L L1 := by
          split at h1
          · exact (sameCore_updateDelegations h1).sameBal
          · exact (sameCore_updateCommittees h1).sameBal
        have hb := bal_valPut L1 a { val with committees := trimCommittees val.committees L.params.maxCommittees idx }
        rw [s1.valGet, hv] at hb
        simp only [ow_some] at hb
        have := s1.bal_eq; have := s1.total
        exact ⟨by simp only [Nat.add_zero]; omega, by simp only [Nat.add_zero]; omega⟩

theorem foldlM_trim_moves : ∀ (as : List Addr) (acc acc' : Ledger × Nat), as.foldlM conformTrimStep acc = .ok acc' → Moves acc.1 acc'.1
  | [], acc, acc', h => by cases h; exact Moves.refl _
  | a :: as, acc, acc', h => by
    simp only [List.foldlM_cons] at h
    obtain ⟨acc1, h1, h2⟩ := bind_ok h
    simpa using (conformTrimStep_moves h1).trans (foldlM_trim_moves as acc1 acc' h2)

theorem conformMinStake_moves (L : Ledger) (prev : Params) : Moves L (conformMinStake L prev) := by
  unfold conformMinStake
  split
  · exact foldl_moves conformMinStakeStep conformMinStakeStep_moves _ L
  · exact Moves.refl L

theorem conformStateToParamUpdate_moves {L L' : Ledger} {prev : Params} (h : conformStateToParamUpdate L prev = .ok L') : Moves L L' := by
  unfold conformStateToParamUpdate at h
  dsimp only at h
  have m1 := conformMinStake_moves L prev
  split at h
  · cases h; exact m1
  · split at h
    · cases h
    · next r hr =>
      cases h
      simpa using m1.trans (foldlM_trim_moves _ _ r hr)

theorem handleChangeParameter_moves {L L' : Ledger} {space key : String} {v s e : Nat}
    (h : handleChangeParameter L space key v s e = .ok L') : Moves L L' := by
  unfold handleChangeParameter at h
  split at h
  · cases h
  · split at h
    · cases h
    · next p hp =>
      have m := conformStateToParamUpdate_moves h
      exact ⟨m.1, m.2⟩

end Canopy.Ledger
