import Canopy.Model.Store
/-! Byte order, big-endian version suffixes and physical-key shape lemmas for M-store (C10). -/
namespace Canopy.Store
open Canopy

/-! ## `blt` is a strict total order -/

theorem blt_cons (a b : UInt8) (as bs : Bytes) :
    blt (a :: as) (b :: bs) = (decide (a.toNat < b.toNat) || (decide (a.toNat = b.toNat) && blt as bs)) := rfl

@[simp] theorem blt_nil_right (a : Bytes) : blt a [] = false := by cases a <;> rfl
@[simp] theorem blt_nil_cons (b : UInt8) (bs : Bytes) : blt [] (b :: bs) = true := rfl

theorem blt_irrefl (a : Bytes) : blt a a = false := by
  induction a with
  | nil => rfl
  | cons x xs ih => simp [blt_cons, ih]

theorem blt_asymm {a b : Bytes} (h : blt a b = true) : blt b a = false := by
  induction a generalizing b with
  | nil => simp
  | cons x xs ih =>
    cases b with
    | nil => simp at h
    | cons y ys =>
      simp only [blt_cons, Bool.or_eq_true, Bool.and_eq_true, decide_eq_true_eq] at h
      simp only [blt_cons, Bool.or_eq_false_iff, Bool.and_eq_false_iff, decide_eq_false_iff_not]
      rcases h with h | ⟨h1, h2⟩
      · exact ⟨by omega, Or.inl (by omega)⟩
      · exact ⟨by omega, Or.inr (ih h2)⟩

theorem blt_trans {a b c : Bytes} (h1 : blt a b = true) (h2 : blt b c = true) : blt a c = true := by
  induction a generalizing b c with
  | nil => cases c with
    | nil => cases b <;> simp at h2
    | cons _ _ => rfl
  | cons x xs ih =>
    cases b with
    | nil => simp at h1
    | cons y ys =>
      cases c with
      | nil => simp at h2
      | cons z zs =>
        simp only [blt_cons, Bool.or_eq_true, Bool.and_eq_true, decide_eq_true_eq] at h1 h2 ⊢
        rcases h1 with h1 | ⟨h1, h1'⟩ <;> rcases h2 with h2 | ⟨h2, h2'⟩
        · left; omega
        · left; omega
        · left; omega
        · right; exact ⟨by omega, ih h1' h2'⟩

theorem eq_of_not_blt {a b : Bytes} (h1 : blt a b = false) (h2 : blt b a = false) : a = b := by
  induction a generalizing b with
  | nil => cases b with
    | nil => rfl
    | cons _ _ => simp at h1
  | cons x xs ih =>
    cases b with
    | nil => simp at h2
    | cons y ys =>
      simp only [blt_cons, Bool.or_eq_false_iff, Bool.and_eq_false_iff, decide_eq_false_iff_not] at h1 h2
      have hxy : x.toNat = y.toNat := by omega
      have : x = y := UInt8.toNat_inj.mp hxy
      subst this
      have e := ih (b := ys) (by rcases h1.2 with h | h; exact absurd rfl h; exact h)
        (by rcases h2.2 with h | h; exact absurd rfl h; exact h)
      rw [e]

theorem blt_trichotomy (a b : Bytes) : blt a b = true ∨ a = b ∨ blt b a = true := by
  by_cases h1 : blt a b = true
  · exact Or.inl h1
  · by_cases h2 : blt b a = true
    · exact Or.inr (Or.inr h2)
    · exact Or.inr (Or.inl (eq_of_not_blt (by simpa using h1) (by simpa using h2)))

theorem ble_refl (a : Bytes) : ble a a = true := by simp [ble, blt_irrefl]

theorem ble_iff {a b : Bytes} : ble a b = true ↔ (blt a b = true ∨ a = b) := by
  unfold ble
  constructor
  · intro h
    rcases blt_trichotomy a b with h' | h' | h'
    · exact Or.inl h'
    · exact Or.inr h'
    · simp [h'] at h
  · rintro (h | rfl)
    · simp [blt_asymm h]
    · simp [blt_irrefl]

theorem blt_of_blt_of_ble {a b c : Bytes} (h1 : blt a b = true) (h2 : ble b c = true) : blt a c = true := by
  rcases ble_iff.mp h2 with h | rfl
  · exact blt_trans h1 h
  · exact h1

theorem blt_of_ble_of_blt {a b c : Bytes} (h1 : ble a b = true) (h2 : blt b c = true) : blt a c = true := by
  rcases ble_iff.mp h1 with h | rfl
  · exact blt_trans h h2
  · exact h2

theorem not_blt_iff_ble {a b : Bytes} : blt a b = false ↔ ble b a = true := by simp [ble]

/-! ## appending -/

theorem blt_append_left (p a b : Bytes) : blt (p ++ a) (p ++ b) = blt a b := by
  induction p with
  | nil => rfl
  | cons x xs ih => simp [blt_cons, ih]

theorem blt_append_self (a c : Bytes) : blt a (a ++ c) = !c.isEmpty := by
  have := blt_append_left a [] c
  simp only [List.append_nil] at this
  rw [this]; cases c <;> rfl

/-- two keys that differ before either ends keep their order whatever is appended -/
theorem blt_append_of_not_prefix {a b : Bytes} (h : blt a b = true) (hp : ¬ a <+: b) (s t : Bytes) :
    blt (a ++ s) (b ++ t) = true := by
  induction a generalizing b with
  | nil => exact absurd (List.nil_prefix) hp
  | cons x xs ih =>
    cases b with
    | nil => simp at h
    | cons y ys =>
      simp only [blt_cons, Bool.or_eq_true, Bool.and_eq_true, decide_eq_true_eq] at h
      simp only [List.cons_append, blt_cons, Bool.or_eq_true, Bool.and_eq_true, decide_eq_true_eq]
      rcases h with h | ⟨h1, h2⟩
      · exact Or.inl h
      · right
        refine ⟨h1, ih h2 ?_⟩
        intro hpre
        have : x = y := UInt8.toNat_inj.mp h1
        subst this
        exact hp (List.cons_prefix_cons.mpr ⟨rfl, hpre⟩)

theorem hasPrefix_iff {p k : Bytes} : hasPrefix p k = true ↔ p <+: k := by
  simp [hasPrefix, List.isPrefixOf_iff_prefix]

/-- a key inside `[p, p ++ t)` extends `p` -/
theorem prefix_of_range {p k t : Bytes} (h1 : ble p k = true) (h2 : blt k (p ++ t) = true) : p <+: k := by
  by_cases hp : p <+: k
  · exact hp
  · rcases ble_iff.mp h1 with h | rfl
    · have := blt_append_of_not_prefix h hp t []
      rw [List.append_nil] at this
      rw [blt_asymm this] at h2; simp at h2
    · exact absurd (List.prefix_refl _) hp

theorem ble_of_prefix {p k : Bytes} (h : p <+: k) : ble p k = true := by
  obtain ⟨c, rfl⟩ := h
  rw [ble_iff]
  cases c with
  | nil => right; simp
  | cons x xs => left; rw [blt_append_self]; rfl

/-! ## `endBytes` is above every suffix shorter than 257 bytes -/

theorem blt_replicate_ff (r : Bytes) (n : Nat) (h : r.length < n) : blt r (List.replicate n 255) = true := by
  induction r generalizing n with
  | nil => cases n with
    | zero => simp at h
    | succ n => rfl
  | cons x xs ih =>
    cases n with
    | zero => simp at h
    | succ n =>
      simp only [List.replicate_succ, blt_cons, Bool.or_eq_true, Bool.and_eq_true, decide_eq_true_eq]
      have hx := x.toNat_lt
      have : (255 : UInt8).toNat = 255 := rfl
      by_cases hx' : x.toNat < 255
      · left; omega
      · right; exact ⟨by omega, ih n (by simpa using h)⟩

theorem blt_prefixEnd {p r : Bytes} (h : r.length ≤ 256) : blt (p ++ r) (prefixEnd p) = true := by
  unfold prefixEnd endBytes
  rw [blt_append_left]
  exact blt_replicate_ff r 257 (by omega)

/-! ## big-endian suffixes -/

theorem toNat_ofNat_mod (n : Nat) : (UInt8.ofNat (n % 256)).toNat = n % 256 := by
  rw [UInt8.toNat_ofNat']; omega

theorem foldl_be (xs : Bytes) (acc : Nat) :
    xs.foldl (fun acc x => acc * 256 + x.toNat) acc
      = acc * 256 ^ xs.length + xs.foldl (fun acc x => acc * 256 + x.toNat) 0 := by
  induction xs generalizing acc with
  | nil => simp
  | cons x xs ih =>
    simp only [List.foldl_cons, List.length_cons]
    rw [ih (acc * 256 + x.toNat), ih (0 * 256 + x.toNat)]
    simp only [Nat.pow_succ]
    grind

theorem beNat_cons (x : UInt8) (xs : Bytes) : beNat (x :: xs) = x.toNat * 256 ^ xs.length + beNat xs := by
  unfold beNat
  rw [List.foldl_cons, foldl_be]; simp

theorem beNat_lt (xs : Bytes) : beNat xs < 256 ^ xs.length := by
  induction xs with
  | nil => simp [beNat]
  | cons x xs ih =>
    rw [beNat_cons, List.length_cons, Nat.pow_succ]
    have := x.toNat_lt
    have h2 : x.toNat * 256 ^ xs.length + 256 ^ xs.length ≤ 256 * 256 ^ xs.length := by
      have : (x.toNat + 1) * 256 ^ xs.length ≤ 256 * 256 ^ xs.length := Nat.mul_le_mul_right _ (by omega)
      rw [Nat.succ_mul] at this; exact this
    omega

theorem lex_arith (x y r r' B : Nat) (hr : r < B) (hr' : r' < B) :
    (x * B + r < y * B + r') ↔ (x < y ∨ (x = y ∧ r < r')) := by
  constructor
  · intro h
    by_cases hxy : x < y
    · exact Or.inl hxy
    · by_cases he : x = y
      · subst he; right; exact ⟨rfl, by omega⟩
      · exfalso
        have : (y + 1) * B ≤ x * B := Nat.mul_le_mul_right _ (by omega)
        rw [Nat.succ_mul] at this; omega
  · rintro (h | ⟨rfl, h⟩)
    · have : (x + 1) * B ≤ y * B := Nat.mul_le_mul_right _ (by omega)
      rw [Nat.succ_mul] at this; omega
    · omega

/-- on equal-length strings byte order is numeric order of the big-endian value -/
theorem blt_eq_beNat_lt (a b : Bytes) (h : a.length = b.length) : blt a b = decide (beNat a < beNat b) := by
  induction a generalizing b with
  | nil => cases b with
    | nil => simp [blt, beNat]
    | cons _ _ => simp at h
  | cons x xs ih => cases b with
    | nil => simp at h
    | cons y ys =>
      simp only [List.length_cons, Nat.add_right_cancel_iff] at h
      rw [blt, ih ys h, beNat_cons, beNat_cons, h]
      rw [Bool.eq_iff_iff]
      simp only [Bool.or_eq_true, Bool.and_eq_true, decide_eq_true_eq]
      rw [lex_arith _ _ _ _ _ (h ▸ beNat_lt xs) (beNat_lt ys)]

theorem be8_length (n : Nat) : (be8 n).length = 8 := rfl

theorem beNat_be8 (n : Nat) (hn : n < 18446744073709551616) : beNat (be8 n) = n := by
  simp only [be8, beNat, List.foldl, toNat_ofNat_mod]
  omega

theorem blt_be8 (n m : Nat) (hn : n < 18446744073709551616) (hm : m < 18446744073709551616) :
    blt (be8 n) (be8 m) = decide (n < m) := by
  rw [blt_eq_beNat_lt _ _ (by simp [be8]), beNat_be8 n hn, beNat_be8 m hm]

theorem invVer_length (v : Nat) : (invVer v).length = 8 := rfl

/-- newer versions sort first -/
theorem blt_invVer {v w : Nat} (hv : v ≤ maxVer) (hw : w ≤ maxVer) :
    blt (invVer v) (invVer w) = decide (w < v) := by
  unfold invVer
  rw [blt_be8 _ _ (by unfold maxVer; omega) (by unfold maxVer; omega)]
  unfold maxVer at *
  simp only [decide_eq_decide]; omega

theorem invVer_injective {v w : Nat} (hv : v ≤ maxVer) (hw : w ≤ maxVer) (h : invVer v = invVer w) : v = w := by
  have h1 := blt_invVer hv hw
  have h2 := blt_invVer hw hv
  rw [h, blt_irrefl] at h1
  rw [h, blt_irrefl] at h2
  simp only [Bool.false_eq, decide_eq_false_iff_not] at h1 h2
  omega

theorem versionOf_mkKey (uk : Bytes) {v : Nat} (hv : v ≤ maxVer) : versionOf (mkKey uk v) = v := by
  unfold versionOf mkKey
  have hl : (uk ++ invVer v).length = uk.length + 8 := by simp [invVer_length]
  rw [hl, if_neg (by omega)]
  have : (uk ++ invVer v).drop (uk.length + 8 - 8) = invVer v := by
    rw [Nat.add_sub_cancel, List.drop_left]
  rw [this]; unfold invVer
  rw [beNat_be8 _ (by unfold maxVer; omega)]
  omega

theorem userKeyOf_mkKey {uk : Bytes} (v : Nat) (h : uk ≠ []) : userKeyOf? (mkKey uk v) = some uk := by
  unfold userKeyOf? mkKey
  have hl : (uk ++ invVer v).length = uk.length + 8 := by simp [invVer_length]
  have : 0 < uk.length := List.length_pos_iff.mpr h
  rw [hl, if_neg (by omega), Nat.add_sub_cancel, List.take_left]

/-- all versions of one user key: newest first -/
theorem blt_mkKey_same (uk : Bytes) {v w : Nat} (hv : v ≤ maxVer) (hw : w ≤ maxVer) :
    blt (mkKey uk v) (mkKey uk w) = decide (w < v) := by
  unfold mkKey; rw [blt_append_left, blt_invVer hv hw]

end Canopy.Store
