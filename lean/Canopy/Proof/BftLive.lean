import Canopy.Proof.BftSafety
import Canopy.Model.BftLive
/-! Lemmas for C15: uniqueness of PROPOSE_VOTE certificates per view, the leader's choice, validity of a good round. -/
namespace Canopy.Bft
namespace Cfg
variable {c : Cfg}

theorem View.le_trans' {a b d : View} (h1 : a ≤ b) (h2 : b ≤ d) : a ≤ d := by
  rcases h1 with h1 | h1
  · exact View.le_of_lt (View.lt_le_trans h1 h2)
  · subst h1; exact h2

/-- an honest replica propose-votes for one block per view -/
theorem propose_unique : ∀ (tr : List Ev), c.Valid tr → ∀ (r : Nat), c.byz r = false →
    ∀ (v : View) (b1 b2 : Nat) (j1 j2 : Option View),
    Ev.propose r v b1 j1 ∈ tr → Ev.propose r v b2 j2 ∈ tr → b1 = b2
  | [], _, _, _, _, _, _, _, _, h1, _ => by cases h1
  | x :: tr, h, r, hr, v, b1, b2, j1, j2, h1, h2 => by
    rcases List.mem_cons.mp h1 with e1 | m1 <;> rcases List.mem_cons.mp h2 with e2 | m2
    · rw [← e1] at e2; cases e2; rfl
    · subst e1
      have g := Valid.guard_head h (by simpa [Ev.rep] using hr)
      have := g.2.1 _ m2
      simp [Ev.isProposeAt] at this
    · subst e2
      have g := Valid.guard_head h (by simpa [Ev.rep] using hr)
      have := g.2.1 _ m1
      simp [Ev.isProposeAt] at this
    · exact propose_unique tr (Valid.tail h) r hr v b1 b2 j1 j2 m1 m2

/-- two PROPOSE_VOTE certificates of one view are for the same block -/
theorem proposeQC_unique (hb : 3 * c.powerOf c.byz < c.total) (tr : List Ev) (hv : c.Valid tr)
    (v : View) (b1 b2 : Nat) (h1 : c.proposeQC tr v b1) (h2 : c.proposeQC tr v b2) : b1 = b2 := by
  obtain ⟨r, _, hp, hq, hh⟩ := c.quorum_intersect hb _ _ h1 h2
  obtain ⟨j1, m1⟩ := (votedPropose_iff _ _ _ _).mp hp
  obtain ⟨j2, m2⟩ := (votedPropose_iff _ _ _ _).mp hq
  exact propose_unique tr hv r hh v b1 b2 j1 j2 m1 m2

/-- the fold of the replacement test returns an element that dominates everything it saw -/
theorem foldl_pickHigher_spec (hs : ∀ w y, c.adoptOk w y = true → w < y) (hc : ∀ w y, w < y → c.adoptOk w y = true) :
    ∀ (L : List (View × Nat)) (w0 : View) (b0 : Nat),
    ∃ y b, L.foldl (pickHigher c) (some (w0, b0)) = some (y, b) ∧ ((y, b) = (w0, b0) ∨ (y, b) ∈ L) ∧
      w0 ≤ y ∧ ∀ x ∈ L, x.1 ≤ y
  | [], w0, b0 => ⟨w0, b0, rfl, Or.inl rfl, View.le_refl _, by intro x hx; cases hx⟩
  | (w1, b1) :: L, w0, b0 => by
    simp only [List.foldl_cons, pickHigher]
    by_cases h : c.adoptOk w0 w1 = true
    · simp only [h, if_true]
      obtain ⟨y, b, he, hm, h0, hall⟩ := foldl_pickHigher_spec hs hc L w1 b1
      refine ⟨y, b, he, ?_, View.le_trans' (View.le_of_lt (hs _ _ h)) h0, ?_⟩
      · rcases hm with hm | hm
        · right; rw [hm]; exact List.mem_cons_self
        · right; exact List.mem_cons_of_mem _ hm
      · intro x hx
        rcases List.mem_cons.mp hx with rfl | hx
        · exact h0
        · exact hall x hx
    · simp only [h]
      obtain ⟨y, b, he, hm, h0, hall⟩ := foldl_pickHigher_spec hs hc L w0 b0
      refine ⟨y, b, he, ?_, h0, ?_⟩
      · rcases hm with hm | hm
        · left; exact hm
        · right; exact List.mem_cons_of_mem _ hm
      · intro x hx
        rcases List.mem_cons.mp hx with rfl | hx
        · have : ¬ w0 < w1 := fun hlt => h (hc _ _ hlt)
          rcases View.lt_or_ge w0 w1 with h1 | h1
          · exact absurd h1 this
          · exact View.le_trans' h1 h0
        · exact hall x hx

/-- the leader's choice is one of the reported certificates and dominates all of them -/
theorem highestLock_spec (hs : ∀ w y, c.adoptOk w y = true → w < y) (hc : ∀ w y, w < y → c.adoptOk w y = true)
    (L : List (View × Nat)) :
    (L = [] ∧ highestLock c L = none) ∨
    ∃ y b, highestLock c L = some (y, b) ∧ (y, b) ∈ L ∧ ∀ x ∈ L, x.1 ≤ y := by
  cases L with
  | nil => left; exact ⟨rfl, rfl⟩
  | cons x L =>
    right
    obtain ⟨w0, b0⟩ := x
    obtain ⟨y, b, he, hm, h0, hall⟩ := foldl_pickHigher_spec hs hc L w0 b0
    refine ⟨y, b, by simpa [highestLock, pickHigher] using he, ?_, ?_⟩
    · rcases hm with hm | hm
      · rw [hm]; exact List.mem_cons_self
      · exact List.mem_cons_of_mem _ hm
    · intro z hz
      rcases List.mem_cons.mp hz with rfl | hz
      · exact h0
      · exact hall z hz

/-! ### a good round is a valid extension and commits -/

theorem safeCond_mono (xs tr : List Ev) (b : Nat) (hq : Option View) (lk : Option (View × Nat))
    (h : c.safeCond tr b hq lk) : c.safeCond (xs ++ tr) b hq lk := by
  match lk, h with
  | none, _ => simp [safeCond]
  | some (w, bw), h =>
    simp only [safeCond] at h ⊢
    rcases h with h | h
    · exact Or.inl h
    · right
      match hq, h with
      | some y, ⟨h1, h2⟩ => exact ⟨h1, c.proposeQC_mono xs tr y b h2⟩

theorem lock_proposeRound (H : List Nat) (v : View) (b : Nat) (hq : Option View) (tr : List Ev) (r : Nat) :
    lock (proposeRound H v b hq ++ tr) r = lock tr r := by
  induction H with
  | nil => rfl
  | cons a H ih => simpa [proposeRound, lock] using ih

theorem mem_proposeRound {H : List Nat} {v : View} {b : Nat} {hq : Option View} {e : Ev} :
    e ∈ proposeRound H v b hq ↔ ∃ r ∈ H, e = Ev.propose r v b hq := by
  simp [proposeRound, eq_comm]

theorem mem_precommitRound {H : List Nat} {v : View} {b : Nat} {e : Ev} :
    e ∈ precommitRound H v b ↔ ∃ r ∈ H, e = Ev.precommit r v b v true := by
  simp [precommitRound, eq_comm]

/-- what "the round is new for the correct replicas" means: all their earlier votes were cast in lower views -/
def NewView (tr : List Ev) (H : List Nat) (v : View) : Prop :=
  ∀ r ∈ H, ∀ e ∈ tr, e.rep = r → ∀ w, e.voteView = some w → w < v

theorem proposeRound_valid (tr : List Ev) (hv : c.Valid tr) (v : View) (b : Nat) (hq : Option View) :
    ∀ (H : List Nat), H.Nodup → (∀ r ∈ H, c.byz r = false) → NewView tr H v →
    (∀ r ∈ H, c.safeCond tr b hq (lock tr r)) → c.Valid (proposeRound H v b hq ++ tr)
  | [], _, _, _, _ => hv
  | r :: H, hnd, hh, hnew, hsafe => by
    have hnd' := List.nodup_cons.mp hnd
    have ih := proposeRound_valid tr hv v b hq H hnd'.2 (fun x hx => hh x (List.mem_cons_of_mem _ hx))
      (fun x hx => hnew x (List.mem_cons_of_mem _ hx)) (fun x hx => hsafe x (List.mem_cons_of_mem _ hx))
    show c.Valid (Ev.propose r v b hq :: (proposeRound H v b hq ++ tr))
    refine Valid.honest _ _ ih (hh r List.mem_cons_self) ⟨?_, ?_, ?_⟩
    · intro e he hr w hw
      rcases List.mem_append.mp he with he | he
      · obtain ⟨x, hx, rfl⟩ := mem_proposeRound.mp he
        simp only [Ev.rep] at hr
        subst hr
        exact absurd hx hnd'.1
      · exact View.le_of_lt (hnew r List.mem_cons_self e he hr w hw)
    · intro e he0
      rcases List.mem_append.mp he0 with he | het
      · obtain ⟨x, hx, rfl⟩ := mem_proposeRound.mp he
        have : x ≠ r := fun h => hnd'.1 (h ▸ hx)
        simp [Ev.isProposeAt, this]
      · clear he0
        cases e with
        | propose r' v' b' hq' =>
          by_cases hr : r' = r
          · by_cases hv' : v' = v
            · subst hr; subst hv'
              exact absurd (hnew r' List.mem_cons_self (Ev.propose r' v' b' hq') het rfl v' rfl) (View.lt_irrefl _)
            · simp [Ev.isProposeAt, hv']
          · simp [Ev.isProposeAt, hr]
        | precommit _ _ _ _ _ => rfl
        | adopt _ _ _ => rfl
    · rw [lock_proposeRound]
      exact safeCond_mono _ _ _ _ _ (hsafe r List.mem_cons_self)

theorem votedPropose_proposeRound (H : List Nat) (v : View) (b : Nat) (hq : Option View) (tr : List Ev) (r : Nat)
    (hr : r ∈ H) : votedPropose (proposeRound H v b hq ++ tr) r v b = true :=
  (votedPropose_iff _ _ _ _).mpr ⟨hq, List.mem_append_left _ (mem_proposeRound.mpr ⟨r, hr, rfl⟩)⟩

theorem votedPrecommit_precommitRound (H : List Nat) (v : View) (b : Nat) (tr : List Ev) (r : Nat)
    (hr : r ∈ H) : votedPrecommit (precommitRound H v b ++ tr) r v b = true :=
  (votedPrecommit_iff _ _ _ _).mpr ⟨v, true, List.mem_append_left _ (mem_precommitRound.mpr ⟨r, hr, rfl⟩)⟩

theorem precommitRound_valid (tr : List Ev) (v : View) (b : Nat) (hq : Option View) (Hall : List Nat)
    (hnew : NewView tr Hall v) (hcb : c.certBound v true v = true)
    (hqc : c.proposeQC (proposeRound Hall v b hq ++ tr) v b) (hv1 : c.Valid (proposeRound Hall v b hq ++ tr)) :
    ∀ (H : List Nat), H.Nodup → (∀ r ∈ H, r ∈ Hall) → (∀ r ∈ H, c.byz r = false) →
    c.Valid (precommitRound H v b ++ (proposeRound Hall v b hq ++ tr))
  | [], _, _, _ => hv1
  | r :: H, hnd, hsub, hh => by
    have hnd' := List.nodup_cons.mp hnd
    have ih := precommitRound_valid tr v b hq Hall hnew hcb hqc hv1 H hnd'.2
      (fun x hx => hsub x (List.mem_cons_of_mem _ hx)) (fun x hx => hh x (List.mem_cons_of_mem _ hx))
    show c.Valid (Ev.precommit r v b v true :: (precommitRound H v b ++ (proposeRound Hall v b hq ++ tr)))
    refine Valid.honest _ _ ih (hh r List.mem_cons_self) ⟨?_, ?_, hcb, ?_⟩
    · intro e he hr w hw
      rcases List.mem_append.mp he with he | he
      · obtain ⟨x, hx, rfl⟩ := mem_precommitRound.mp he
        simp only [Ev.rep] at hr
        subst hr
        exact absurd hx hnd'.1
      · rcases List.mem_append.mp he with he | he
        · obtain ⟨x, _, rfl⟩ := mem_proposeRound.mp he
          simp only [Ev.voteView, Option.some.injEq] at hw
          subst hw
          exact View.le_refl _
        · exact View.le_of_lt (hnew r (hsub r List.mem_cons_self) e he hr w hw)
    · intro e he0
      rcases List.mem_append.mp he0 with he | he1
      · obtain ⟨x, hx, rfl⟩ := mem_precommitRound.mp he
        have : x ≠ r := fun h => hnd'.1 (h ▸ hx)
        simp [Ev.isPrecommitAt, this]
      · rcases List.mem_append.mp he1 with he | het
        · obtain ⟨x, _, rfl⟩ := mem_proposeRound.mp he
          rfl
        · clear he0 he1
          cases e with
          | precommit r' v' b' q' qp' =>
            by_cases hr : r' = r
            · by_cases hv' : v' = v
              · subst hr; subst hv'
                exact absurd (hnew r' (hsub r' List.mem_cons_self) (Ev.precommit r' v' b' q' qp') het rfl v' rfl) (View.lt_irrefl _)
              · simp [Ev.isPrecommitAt, hv']
            · simp [Ev.isPrecommitAt, hr]
          | propose _ _ _ _ => rfl
          | adopt _ _ _ => rfl
    · simp only [certQC, if_true]
      exact c.proposeQC_mono _ _ _ _ hqc

/-- **A good round.** If the correct replicas `H` hold at least `maj`, the round's view is new for them, and the
    leader's proposal `(b, hq)` passes every correct replica's SafeNode, then after the round the history is still
    valid (every vote was allowed) and contains a commit certificate for `b`. -/
theorem goodRound_commits (tr : List Ev) (hv : c.Valid tr) (H : List Nat) (hnd : H.Nodup)
    (hh : ∀ r ∈ H, c.byz r = false) (hpow : c.maj ≤ c.powerOf (fun r => H.contains r))
    (v : View) (hnew : NewView tr H v) (hcb : c.certBound v true v = true)
    (b : Nat) (hq : Option View) (hsafe : ∀ r ∈ H, c.safeCond tr b hq (lock tr r)) :
    c.Valid (goodRound tr H v b hq) ∧ c.precommitQC (goodRound tr H v b hq) v b := by
  have hv1 := proposeRound_valid tr hv v b hq H hnd hh hnew hsafe
  have hqc : c.proposeQC (proposeRound H v b hq ++ tr) v b :=
    Nat.le_trans hpow (c.powerOf_mono _ _ (fun r hr =>
      votedPropose_proposeRound H v b hq tr r (by simpa using hr)))
  refine ⟨precommitRound_valid tr v b hq H hnew hcb hqc hv1 H hnd (fun _ h => h) hh, ?_⟩
  exact Nat.le_trans hpow (c.powerOf_mono _ _ (fun r hr =>
    votedPrecommit_precommitRound H v b _ r (by simpa using hr)))

/-- the leader's choice passes every correct replica's SafeNode: locks below the chosen certificate are unlocked by it
    (LIVENESS), a lock at the same view is on the same block (SAFETY) -/
theorem safeCond_of_highest (hb : 3 * c.powerOf c.byz < c.total)
    (hunc : ∀ w y, w < y → c.unlock w y = true)
    (tr : List Ev) (hv : c.Valid tr) (hf : c.Fresh tr) (r : Nat) (hr : c.byz r = false)
    (y : View) (b : Nat) (hcert : c.proposeQC tr y b)
    (hdom : ∀ w bw, lock tr r = some (w, bw) → w ≤ y) :
    c.safeCond tr b (some y) (lock tr r) := by
  cases hl : lock tr r with
  | none => simp [safeCond]
  | some lk =>
    obtain ⟨w, bw⟩ := lk
    simp only [safeCond]
    rcases hdom w bw hl with hlt | heq
    · exact Or.inr ⟨hunc _ _ hlt, hcert⟩
    · subst heq
      exact Or.inl (proposeQC_unique hb tr hv w bw b (lock_cert tr hv hf r hr w bw hl) hcert)

end Cfg
/-! ### pacemaker -/

theorem foldl_max_ge_init (l : List Nat) (a : Nat) : a ≤ l.foldl Nat.max a := by
  induction l generalizing a with
  | nil => exact Nat.le_refl _
  | cons x l ih => exact Nat.le_trans (Nat.le_max_left a x) (ih _)

theorem foldl_max_ge_mem (l : List Nat) (a x : Nat) (hx : x ∈ l) : x ≤ l.foldl Nat.max a := by
  induction l generalizing a with
  | nil => cases hx
  | cons y l ih =>
    rcases List.mem_cons.mp hx with rfl | hx
    · exact Nat.le_trans (Nat.le_max_right a x) (foldl_max_ge_init l _)
    · exact ih _ hx

theorem foldl_max_le (l : List Nat) (a M : Nat) (ha : a ≤ M) (hl : ∀ x ∈ l, x ≤ M) : l.foldl Nat.max a ≤ M := by
  induction l generalizing a with
  | nil => exact ha
  | cons y l ih =>
    exact ih _ (Nat.max_le.mpr ⟨ha, hl y List.mem_cons_self⟩) (fun x hx => hl x (List.mem_cons_of_mem _ hx))

theorem filter_sum_mono (pw : Nat → Nat) (l : List (Nat × Nat)) (p q : Nat × Nat → Bool)
    (h : ∀ x ∈ l, p x = true → q x = true) :
    ((l.filter p).map fun c => pw c.1).sum ≤ ((l.filter q).map fun c => pw c.1).sum := by
  induction l with
  | nil => simp
  | cons a l ih =>
    have ih' := ih (fun x hx => h x (List.mem_cons_of_mem _ hx))
    cases hp : p a
    · cases hq : q a <;> simp [List.filter, hp, hq] <;> omega
    · simp [List.filter, hp, h a List.mem_cons_self hp]; omega

theorem filter_sum_le_total (pw : Nat → Nat) (l : List (Nat × Nat)) (p : Nat × Nat → Bool) :
    ((l.filter p).map fun c => pw c.1).sum ≤ (l.map fun c => pw c.1).sum := by
  induction l with
  | nil => simp
  | cons a l ih => cases hp : p a <;> simp [List.filter, hp] <;> omega

/-- claims of rounds above `M` come from validators in `B` only ⇒ the pacemaker does not go above `M`
    when the power of `B`'s claims does not pass the threshold test -/
theorem pacemakerTarget_le (pw : Nat → Nat) (reached : Nat → Bool) (claims : List (Nat × Nat)) (inB : Nat → Bool) (M : Nat)
    (hmono : ∀ a b, a ≤ b → reached a = true → reached b = true)
    (hcorrect : ∀ c ∈ claims, inB c.1 = false → c.2 ≤ M)
    (hB : reached (((claims.filter fun c => inB c.1).map fun c => pw c.1).sum) = false) :
    pacemakerTarget pw reached claims ≤ M := by
  unfold pacemakerTarget
  apply foldl_max_le _ _ _ (Nat.zero_le _)
  intro R hR
  obtain ⟨_, hreach⟩ := List.mem_filter.mp hR
  by_cases hRM : R ≤ M
  · exact hRM
  · exfalso
    have hle : claimPower pw claims R ≤ ((claims.filter fun c => inB c.1).map fun c => pw c.1).sum := by
      unfold claimPower
      apply filter_sum_mono
      intro c hc hdec
      cases hb : inB c.1
      · have := hcorrect c hc hb; simp at hdec; omega
      · rfl
    have := hmono _ _ hle hreach
    rw [hB] at this; cases this

/-- a claimed round that the threshold test accepts is reached -/
theorem pacemakerTarget_ge (pw : Nat → Nat) (reached : Nat → Bool) (claims : List (Nat × Nat)) (R : Nat)
    (hR : R ∈ claims.map (·.2)) (h : reached (claimPower pw claims R) = true) :
    R ≤ pacemakerTarget pw reached claims := by
  unfold pacemakerTarget
  exact foldl_max_ge_mem _ _ _ (List.mem_filter.mpr ⟨hR, h⟩)

theorem pacemakerStep_ge (pw : Nat → Nat) (reached : Nat → Bool) (claims : List (Nat × Nat)) (round : Nat) :
    round + 1 ≤ pacemakerStep pw reached claims round ∧ pacemakerTarget pw reached claims ≤ pacemakerStep pw reached claims round := by
  unfold pacemakerStep
  simp only
  split <;> omega


/-! ### timers -/

theorem waitTime_eq (s r : Nat) : Gen.Bft.waitTime s r = s * (2 * r + 1) := by
  unfold Gen.Bft.waitTime; simp

theorem roundLength_eq (t : Timeouts) (r : Nat) : t.roundLength r = t.sum * (2 * r + 1) := by
  unfold Timeouts.roundLength Gen.Bft.msLeftInRound Timeouts.wait Timeouts.sum
  simp only [waitTime_eq, Timeouts.of, Gen.Bft.phase_ELECTION, Gen.Bft.phase_ELECTION_VOTE, Gen.Bft.phase_PROPOSE,
    Gen.Bft.phase_PROPOSE_VOTE, Gen.Bft.phase_PRECOMMIT, Gen.Bft.phase_PRECOMMIT_VOTE, Gen.Bft.phase_COMMIT]
  simp
  simp only [Nat.add_mul]

/-- an offset `δ` between two replicas' round starts is smaller than every phase window from round `δ / tmin` on -/
theorem offset_absorbed (δ tmin : Nat) (h : 0 < tmin) (k : Nat) (hk : δ / tmin ≤ k) : δ < tmin * (2 * k + 1) := by
  have h1 : δ < tmin * (δ / tmin + 1) := Nat.lt_mul_div_succ δ h
  have h2 : tmin * (δ / tmin + 1) ≤ tmin * (2 * k + 1) := Nat.mul_le_mul_left _ (by omega)
  omega

end Canopy.Bft
