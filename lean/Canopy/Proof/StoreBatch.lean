import Canopy.Proof.StoreSpec
/-! Applying a pebble batch to the key space, as a finite-map update (C10, C09). -/
namespace Canopy.Store
open Canopy

/-- the last operation of the batch on `key` (`some none` = deleted), `none` = untouched -/
def batchLookup : List BatchOp → Bytes → Option (Option Bytes)
  | [], _ => none
  | op :: b, key =>
    match batchLookup b key with
    | some r => some r
    | none =>
      match op with
      | .put k v => if key = k then some (some v) else none
      | .del k => if key = k then some none else none

theorem batchLookup_cons (op : BatchOp) (b : List BatchOp) (key : Bytes) :
    batchLookup (op :: b) key = match batchLookup b key with
      | some r => some r
      | none =>
        match op with
        | .put k v => if key = k then some (some v) else none
        | .del k => if key = k then some none else none := rfl

def applyOp (db : DB) : BatchOp → DB
  | .put k v => smSet db k v
  | .del k => smDel db k

theorem applyBatch_cons (db : DB) (op : BatchOp) (b : List BatchOp) :
    applyBatch db (op :: b) = applyBatch (applyOp db op) b := by
  unfold applyBatch applyOp
  cases op <;> rfl

theorem sorted_applyBatch {db : DB} (hs : SSorted db) (b : List BatchOp) : SSorted (applyBatch db b) := by
  induction b generalizing db with
  | nil => exact hs
  | cons op b ih =>
    rw [applyBatch_cons]
    apply ih
    cases op with
    | put k v => exact sorted_smSet hs k v
    | del k => exact sorted_smDel hs k

/-- **a batch is a finite-map update**: afterwards a key holds what the batch's last operation on it
says, and what it held before if the batch does not mention it -/
theorem smGet_applyBatch {db : DB} (hs : SSorted db) (b : List BatchOp) (key : Bytes) :
    smGet (applyBatch db b) key = match batchLookup b key with
      | some r => r
      | none => smGet db key := by
  induction b generalizing db with
  | nil => rfl
  | cons op b ih =>
    rw [applyBatch_cons]
    have hs' : SSorted (applyOp db op) := by
      cases op with
      | put k v => exact sorted_smSet hs k v
      | del k => exact sorted_smDel hs k
    rw [ih hs', batchLookup_cons]
    cases hb : batchLookup b key with
    | some r => rfl
    | none =>
      simp only
      cases op with
      | put k v =>
        simp only [applyOp, smGet_smSet]
        by_cases h : key = k <;> simp [h]
      | del k =>
        simp only [applyOp, smGet_smDel hs]
        by_cases h : key = k <;> simp [h]

theorem mem_applyBatch {db : DB} (b : List BatchOp) {e : Entry} (h : e ∈ applyBatch db b) :
    e ∈ db ∨ BatchOp.put e.1 e.2 ∈ b := by
  induction b generalizing db with
  | nil => exact Or.inl h
  | cons op b ih =>
    rw [applyBatch_cons] at h
    rcases ih h with h | h
    · cases op with
      | put k v =>
        rcases mem_of_mem_smSet h with rfl | h
        · exact Or.inr List.mem_cons_self
        · exact Or.inl h
      | del k => exact Or.inl (mem_of_mem_smDel h)
    · exact Or.inr (List.mem_cons_of_mem _ h)

theorem batchLookup_append (a b : List BatchOp) (key : Bytes) :
    batchLookup (a ++ b) key = match batchLookup b key with
      | some r => some r
      | none => batchLookup a key := by
  induction a with
  | nil => simp only [List.nil_append, batchLookup]; cases batchLookup b key <;> rfl
  | cons op a ih =>
    simp only [List.cons_append, batchLookup_cons, ih]
    cases batchLookup b key <;> rfl

theorem batchLookup_none {b : List BatchOp} {key : Bytes}
    (h : ∀ op ∈ b, (∀ k v, op = .put k v → k ≠ key) ∧ (∀ k, op = .del k → k ≠ key)) : batchLookup b key = none := by
  induction b with
  | nil => rfl
  | cons op b ih =>
    rw [batchLookup_cons, ih fun o ho => h o (List.mem_cons_of_mem _ ho)]
    have := h op List.mem_cons_self
    cases op with
    | put k v => simp [Ne.symm (this.1 k v rfl)]
    | del k => simp [Ne.symm (this.2 k rfl)]

theorem smGet_none_of_head_lt {α : Type} {a : Bytes × α} {l : List (Bytes × α)} (hs : SSorted (a :: l)) :
    smGet l a.1 = none := smGet_eq_none_of_lt hs.head_lt

/-- the puts a sorted overlay turns into (one per pending operation, distinct keys) -/
theorem batchLookup_ov_puts (ov : Overlay) (hs : SSorted ov) (F : Bytes → Bytes) (hF : ∀ a b, F a = F b → a = b)
    (G : TOp → Bytes) (k : Bytes) :
    batchLookup (ov.map fun e => BatchOp.put (F e.1) (G e.2)) (F k) = (smGet ov k).map fun op => some (G op) := by
  induction ov with
  | nil => rfl
  | cons a ov ih =>
    obtain ⟨k0, op0⟩ := a
    simp only [List.map_cons, batchLookup_cons, ih hs.tail, smGet]
    by_cases hk : k = k0
    · subst hk
      rw [smGet_none_of_head_lt hs]
      simp
    · have : F k ≠ F k0 := fun h => hk (hF _ _ h)
      simp only [hk, this, if_false]
      cases smGet ov k <;> rfl

/-- the deletions `purgeLssTombstones` appends: one per pending delete -/
theorem batchLookup_ov_dels (ov : Overlay) (hs : SSorted ov) (F : Bytes → Bytes) (hF : ∀ a b, F a = F b → a = b)
    (k : Bytes) :
    batchLookup (ov.filterMap (delOf F)) (F k) =
      match smGet ov k with
      | some .del => some none
      | _ => none := by
  induction ov with
  | nil => rfl
  | cons a ov ih =>
    obtain ⟨k0, op0⟩ := a
    by_cases hk : k = k0
    · subst hk
      have hn := smGet_none_of_head_lt hs
      simp only at hn
      cases op0 with
      | set v =>
        simp only [List.filterMap_cons, delOf, ih hs.tail, hn, smGet, if_true]
      | del =>
        simp only [List.filterMap_cons, delOf, batchLookup_cons, ih hs.tail, hn, smGet, if_true]
    · have hne : F k ≠ F k0 := fun h => hk (hF _ _ h)
      cases op0 with
      | set v =>
        simp only [List.filterMap_cons, delOf, ih hs.tail, smGet, hk, if_false]
      | del =>
        simp only [List.filterMap_cons, delOf, batchLookup_cons, ih hs.tail, smGet, hk, hne, if_false]
        cases smGet ov k with
        | none => rfl
        | some op => cases op <;> rfl

theorem mem_filterMap_delOf {ov : Overlay} {F : Bytes → Bytes} {op : BatchOp} (h : op ∈ ov.filterMap (delOf F)) :
    ∃ a ∈ ov, op = BatchOp.del (F a.1) := by
  obtain ⟨a, ha, heq⟩ := List.mem_filterMap.mp h
  unfold delOf at heq
  cases hop : a.2 with
  | set v => rw [hop] at heq; cases heq
  | del => rw [hop] at heq; injection heq with heq; exact ⟨a, ha, heq.symm⟩

end Canopy.Store

namespace Canopy.Store
open Canopy

def opKey : BatchOp → Bytes
  | .put k _ => k
  | .del k => k

def opRes : BatchOp → Option Bytes
  | .put _ v => some v
  | .del _ => none

theorem batchLookup_cons' (op : BatchOp) (b : List BatchOp) (key : Bytes) :
    batchLookup (op :: b) key = match batchLookup b key with
      | some r => some r
      | none => if key = opKey op then some (opRes op) else none := by
  rw [batchLookup_cons]
  cases batchLookup b key with
  | some r => rfl
  | none => cases op <;> rfl

/-- a batch made of one operation per element of `l`, on pairwise distinct keys `F a` (repeated
elements repeat the same operation) -/
theorem batchLookup_map_inj {α : Type} [DecidableEq α] (l : List α) (g : α → BatchOp) (F : α → Bytes)
    (hF : ∀ a b, F a = F b → a = b) (hk : ∀ a, opKey (g a) = F a) (k0 : α) :
    batchLookup (l.map g) (F k0) = if k0 ∈ l then some (opRes (g k0)) else none := by
  induction l with
  | nil => rfl
  | cons a l ih =>
    rw [List.map_cons, batchLookup_cons', ih, hk]
    by_cases hm : k0 ∈ l
    · simp [hm]
    · by_cases ha : k0 = a
      · subst ha; simp [hm]
      · have : F k0 ≠ F a := fun h => ha (hF _ _ h)
        simp [hm, ha, this]

theorem batchLookup_map_none {α : Type} (l : List α) (g : α → BatchOp) (key : Bytes)
    (h : ∀ a ∈ l, opKey (g a) ≠ key) : batchLookup (l.map g) key = none := by
  apply batchLookup_none
  intro op hop
  obtain ⟨a, ha, rfl⟩ := List.mem_map.mp hop
  have := h a ha
  constructor
  · intro k v e; rw [e] at this; exact this
  · intro k e; rw [e] at this; exact this

end Canopy.Store
