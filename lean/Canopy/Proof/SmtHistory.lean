import Canopy.Proof.SmtOps
/-! From single operations to histories: `Rep` is preserved by every valid operation, hence any two histories
ending in the same map end in the same tree; the sequential `commit` is such a history. Core only. -/
namespace Canopy.Smt

theorem minKey_ne_maxKey {n : Nat} (hn : 0 < n) : minKey n ≠ maxKey n := by
  cases n with
  | zero => omega
  | succ m => simp [minKey, maxKey, List.replicate_succ]

namespace Trie

theorem rep_insert {n : Nat} {t : Trie} {S : KMap} {k : Key} {v : Bytes} (h : t.Rep n S) (hk : k.length = n) :
    (insert k v t).Rep n (S.set k v) := by
  obtain ⟨hw, hm⟩ := insert_spec (v := v) hk h.1
  refine ⟨hw, ?_⟩
  intro k' v'
  rw [hm, h.2]
  unfold KMap.set
  by_cases e : k' = k
  · simp [e]
    exact eq_comm
  · simp [e]

theorem rep_delete {n : Nat} {p : Key} {l r : Trie} {S : KMap} (k : Key) (h : (node p l r).Rep n S) :
    (delete k (node p l r)).Rep n (S.erase k) := by
  obtain ⟨hw, hm⟩ := delete_spec k h.1
  refine ⟨hw, ?_⟩
  intro k' v'
  rw [hm, h.2]
  unfold KMap.erase
  by_cases e : k' = k <;> simp [e]

/-- a tree holding both sentinels is an inner node -/
theorem rep_isNode {n : Nat} {t : Trie} {S : KMap} (h : t.Rep n S) (hs : S.HasSentinels n) (hn : 0 < n) :
    t.isNode := by
  cases t with
  | node p l r => trivial
  | leaf k0 v0 =>
    exfalso
    obtain ⟨h1, h2⟩ := hs
    cases e1 : S (minKey n) with
    | none => exact h1 e1
    | some a =>
      cases e2 : S (maxKey n) with
      | none => exact h2 e2
      | some b =>
        have m1 := (h.2 _ _).mpr e1
        have m2 := (h.2 _ _).mpr e2
        simp [toList] at m1 m2
        exact minKey_ne_maxKey hn (m1.1.trans m2.1.symm)

theorem hasSentinels_apply {n : Nat} {S : KMap} {op : Op} (hs : S.HasSentinels n) (hv : op.Valid n) :
    (S.apply op).HasSentinels n := by
  cases op with
  | set k v =>
    constructor <;> (simp only [KMap.apply, KMap.set]; split <;> simp [hs.1, hs.2])
  | del k =>
    obtain ⟨h1, h2⟩ := hv
    constructor
    · simp only [KMap.apply, KMap.erase]; rw [if_neg (Ne.symm h1)]; exact hs.1
    · simp only [KMap.apply, KMap.erase]; rw [if_neg (Ne.symm h2)]; exact hs.2

/-- every valid operation keeps the tree canonical and changes its contents exactly as the map operation -/
theorem rep_apply {n : Nat} {t : Trie} {S : KMap} {op : Op} (h : t.Rep n S) (hs : S.HasSentinels n)
    (hn : 0 < n) (hv : op.Valid n) : (op.apply t).Rep n (S.apply op) := by
  cases op with
  | set k v => exact rep_insert h hv
  | del k =>
    have := rep_isNode h hs hn
    cases t with
    | leaf _ _ => cases this
    | node p l r => exact rep_delete k h

theorem rep_run {n : Nat} (hn : 0 < n) : ∀ (ops : List Op) {t : Trie} {S : KMap}, t.Rep n S → S.HasSentinels n →
    (∀ op ∈ ops, op.Valid n) → (t.run ops).Rep n (S.run ops) ∧ (S.run ops).HasSentinels n
  | [], _, _, h, hs, _ => ⟨h, hs⟩
  | op :: ops, t, S, h, hs, hv => by
    have hv1 := hv op (by simp)
    have := rep_run hn ops (rep_apply h hs hn hv1) (hasSentinels_apply hs hv1)
      (fun o ho => hv o (by simp [ho]))
    simpa [Trie.run, KMap.run] using this

theorem rep_empty {n : Nat} (hn : 0 < n) : (empty n).Rep n (initMap n) := by
  refine ⟨⟨by simp [WF, minKey], by simp [WF, maxKey], ?_, ?_⟩, ?_⟩
  · intro k hk
    rw [keys_leaf] at hk; simp at hk; subst hk
    cases n with
    | zero => omega
    | succ m => simp [minKey, List.replicate_succ]
  · intro k hk
    rw [keys_leaf] at hk; simp at hk; subst hk
    cases n with
    | zero => omega
    | succ m => simp [maxKey, List.replicate_succ]
  · intro k v
    simp only [empty, toList, initMap]
    have hne := minKey_ne_maxKey hn
    by_cases e1 : k = minKey n
    · subst e1; simp [hne]; exact eq_comm
    · by_cases e2 : k = maxKey n
      · subst e2; simp [Ne.symm hne]; exact eq_comm
      · simp [e1, e2]

theorem initMap_hasSentinels {n : Nat} (hn : 0 < n) : (initMap n).HasSentinels n := by
  have hne := minKey_ne_maxKey hn
  constructor <;> simp [initMap, Ne.symm hne]

end Trie
end Canopy.Smt

namespace Canopy.Smt

theorem not_snoc_true_prefix_minKey (n : Nat) (p : Key) : ¬ p ++ [true] <+: minKey n := by
  intro h
  have : true ∈ minKey n := h.subset (by simp)
  simp [minKey] at this

theorem not_snoc_false_prefix_maxKey (n : Nat) (p : Key) : ¬ p ++ [false] <+: maxKey n := by
  intro h
  have : false ∈ maxKey n := h.subset (by simp)
  simp [maxKey] at this

namespace Trie

theorem mem_keys_of_rep {n : Nat} {t : Trie} {S : KMap} (h : t.Rep n S) {k : Key} (hk : S k ≠ none) :
    k ∈ t.keys := by
  cases e : S k with
  | none => exact absurd e hk
  | some v => exact mem_keys_of_mem ((h.2 k v).mpr e)

/-- on a tree that holds both sentinels no valid operation reaches the Go panic -/
theorem stepTop_eq {n : Nat} {t : Trie} {S : KMap} {op : Op} (h : t.Rep n S) (hs : S.HasSentinels n)
    (hn : 0 < n) (hv : op.Valid n) : stepTop t op = some (op.apply t) := by
  cases op with
  | set k v => cases t <;> rfl
  | del k =>
    have hnode := rep_isNode h hs hn
    cases t with
    | leaf _ _ => cases hnode
    | node p l r =>
      have hmin := mem_keys_of_rep h hs.1
      have hmax := mem_keys_of_rep h hs.2
      simp only [stepTop, Op.apply]
      rw [if_neg]
      rintro (⟨_, hl⟩ | ⟨_, hr⟩)
      · cases l with
        | node _ _ _ => simp [isLeafAt] at hl
        | leaf k0 v0 =>
          simp [isLeafAt] at hl
          subst hl
          rcases mem_keys_node.mp hmin with hm | hm
          · rw [keys_leaf] at hm; simp at hm; exact hv.1 hm.symm
          · exact not_snoc_true_prefix_minKey n p (h.1.2.2.2 _ hm)
      · cases r with
        | node _ _ _ => simp [isLeafAt] at hr
        | leaf k0 v0 =>
          simp [isLeafAt] at hr
          subst hr
          rcases mem_keys_node.mp hmax with hm | hm
          · exact not_snoc_false_prefix_maxKey n p (h.1.2.2.1 _ hm)
          · rw [keys_leaf] at hm; simp at hm; exact hv.2 hm.symm

theorem runTop_eq {n : Nat} (hn : 0 < n) : ∀ (ops : List Op) {t : Trie} {S : KMap}, t.Rep n S → S.HasSentinels n →
    (∀ op ∈ ops, op.Valid n) → runTop t ops = some (t.run ops)
  | [], _, _, _, _, _ => rfl
  | op :: ops, t, S, h, hs, hv => by
    have hv1 := hv op (by simp)
    simp only [runTop, stepTop_eq h hs hn hv1]
    exact runTop_eq hn ops (rep_apply h hs hn hv1) (hasSentinels_apply hs hv1) (fun o ho => hv o (by simp [ho]))

theorem valid_sortOps {n : Nat} {ops : List Op} (hv : ∀ op ∈ ops, op.Valid n) : ∀ op ∈ sortOps ops, op.Valid n := by
  intro op hop
  exact hv op (by simpa [sortOps] using hop)

/-- `SMT.Commit` of a valid batch never fails and is the history "sorted batch, one operation after the other" -/
theorem commit_eq_run {n : Nat} (hn : 0 < n) {t : Trie} {S : KMap} {ops : List Op} (h : t.Rep n S)
    (hs : S.HasSentinels n) (hv : ∀ op ∈ ops, op.Valid n) :
    commit t ops = .ok (t.run (sortOps ops)) := by
  simp only [commit, runTop_eq hn (sortOps ops) h hs (valid_sortOps hv)]

end Trie
end Canopy.Smt
