import Canopy.Proof.LedgerMarkers
/-! C12: `InvStaking` is preserved by the staking status operations and by slashing a validator to zero. -/
namespace Canopy.Ledger
open AMap

set_option linter.unusedSimpArgs false
set_option linter.unusedVariables false

theorem InvStaking.wfm {L : Ledger} (h : InvStaking L) : WFm L := ⟨h.wf.validators, h.wf.unstaking, h.wf.paused⟩

theorem InvStaking.mk' {L : Ledger} (ht : Tallies L) (hm : Markers L) (hw : WFm L) (hp : Pools L) : InvStaking L :=
  ⟨ht, hm, ⟨hw.validators, hw.unstaking, hw.paused, hp.committee, hp.delegated⟩⟩

/-- `HandleMessageUnstake` -/
theorem handleUnstake_inv {L L' : Ledger} {a : Addr} (hs : InvStaking L)
    (hf : (L.height + L.params.unstakingBlocks) % U64 ≠ 0 ∧ (L.height + L.params.delegateUnstakingBlocks) % U64 ≠ 0)
    (h : handleUnstake L a = .ok L') : InvStaking L' := by
  unfold handleUnstake at h
  obtain ⟨val, hv, h⟩ := bind_ok h
  guard_at h
  next hu =>
  obtain rfl := Except.ok.inj h
  have hg := getValidator_ok hv
  have hu0 : val.unstakingHeight = 0 := by simpa using hu
  have hfin : (L.height + (if val.delegate = true then L.params.delegateUnstakingBlocks else L.params.unstakingBlocks)) % U64 ≠ 0 := by
    split
    · exact hf.2
    · exact hf.1
  obtain ⟨m, w⟩ := markers_setValidatorUnstaking hs.markers hs.wfm hg hu0 rfl hfin
  have hm := setValidatorUnstaking_money L a val ((L.height + (if val.delegate = true then L.params.delegateUnstakingBlocks else L.params.unstakingBlocks)) % U64)
  exact InvStaking.mk' (tallies_status hs.tallies hg hm.supply (setValidatorUnstaking_validators ..) rfl rfl rfl) m w
    ⟨by rw [hm.supply]; exact hs.wf.committee, by rw [hm.supply]; exact hs.wf.delegated⟩

/-- `HandleMessagePause` -/
theorem handlePause_inv {L L' : Ledger} {a : Addr} (hs : InvStaking L) (hf : (L.height + L.params.maxPauseBlocks) % U64 ≠ 0)
    (h : handlePause L a = .ok L') : InvStaking L' := by
  unfold handlePause at h
  obtain ⟨val, hv, h⟩ := bind_ok h
  guard_at h
  next hp =>
  guard_at h
  next hu =>
  guard_at h
  obtain rfl := Except.ok.inj h
  have hg := getValidator_ok hv
  obtain ⟨m, w⟩ := markers_setValidatorPaused hs.markers hs.wfm hg (by simpa using hu) (by simpa using hp) hf
  exact InvStaking.mk' (tallies_status hs.tallies hg rfl rfl rfl rfl rfl) m w ⟨hs.wf.committee, hs.wf.delegated⟩

/-- `HandleMessageUnpause` -/
theorem handleUnpause_inv {L L' : Ledger} {a : Addr} (hs : InvStaking L) (h : handleUnpause L a = .ok L') : InvStaking L' := by
  unfold handleUnpause at h
  obtain ⟨val, hv, h⟩ := bind_ok h
  guard_at h
  guard_at h
  guard_at h
  obtain rfl := Except.ok.inj h
  have hg := getValidator_ok hv
  obtain ⟨m, w⟩ := markers_setValidatorUnpaused hs.markers hs.wfm hg
  exact InvStaking.mk' (tallies_status hs.tallies hg rfl rfl rfl rfl rfl) m w ⟨hs.wf.committee, hs.wf.delegated⟩

/-! ### deleting a validator together with its markers (the repaired zero-stake branch of `SlashValidator`) -/

theorem markers_delete {L L' : Ledger} {a : Addr} {val : Validator} (hm : Markers L) (hw : WFm L) (hg : valGet? L a = some val)
    (hv : L'.validators = AMap.erase L.validators a)
    (hu : L'.unstaking = if val.unstakingHeight ≠ 0 then KSet.del L.unstaking (val.unstakingHeight, a) else L.unstaking)
    (hp : L'.paused = if val.maxPausedHeight ≠ 0 then KSet.del L.paused (val.maxPausedHeight, a) else L.paused) :
    Markers L' ∧ WFm L' := by
  have hget : ∀ b, valGet? L' b = if a = b then none else valGet? L b := by
    intro b; unfold valGet?; rw [hv]
    by_cases hab : a = b
    · subst hab; simp [find?_erase_self _ _ hw.validators]
    · simp [hab, find?_erase_ne _ hab]
  refine ⟨⟨?_, ?_, ?_⟩, ⟨by rw [hv]; exact nodup_erase _ _ hw.validators, ?_, ?_⟩⟩
  · intro h b
    rw [hu, hget]
    constructor
    · intro e
      have e' : KSet.has L.unstaking (h, b) = true := by
        split at e
        · exact has_del_of _ _ _ e
        · exact e
      obtain ⟨v, hv', he, hne⟩ := (hm.unstaking h b).1 e'
      have hab : a ≠ b := by
        intro e''; subst e''
        rw [hg] at hv'; cases hv'
        rw [if_pos (by rw [he]; exact hne), he, has_del_self _ _ hw.unstaking] at e
        cases e
      exact ⟨v, by simp [hab, hv'], he, hne⟩
    · rintro ⟨v, hv', he, hne⟩
      by_cases hab : a = b
      · subst hab; simp at hv'
      · simp only [hab, if_false] at hv'
        have e' := (hm.unstaking h b).2 ⟨v, hv', he, hne⟩
        split
        · rw [has_del_ne]
          · exact e'
          · intro e''; simp only [Prod.mk.injEq] at e''; exact hab e''.2
        · exact e'
  · intro h b
    rw [hp, hget]
    constructor
    · intro e
      have e' : KSet.has L.paused (h, b) = true := by
        split at e
        · exact has_del_of _ _ _ e
        · exact e
      obtain ⟨v, hv', he, hne⟩ := (hm.paused h b).1 e'
      have hab : a ≠ b := by
        intro e''; subst e''
        rw [hg] at hv'; cases hv'
        rw [if_pos (by rw [he]; exact hne), he, has_del_self _ _ hw.paused] at e
        cases e
      exact ⟨v, by simp [hab, hv'], he, hne⟩
    · rintro ⟨v, hv', he, hne⟩
      by_cases hab : a = b
      · subst hab; simp at hv'
      · simp only [hab, if_false] at hv'
        have e' := (hm.paused h b).2 ⟨v, hv', he, hne⟩
        split
        · rw [has_del_ne]
          · exact e'
          · intro e''; simp only [Prod.mk.injEq] at e''; exact hab e''.2
        · exact e'
  · intro b v hv' hne
    rw [hget] at hv'
    by_cases hab : a = b
    · subst hab; simp at hv'
    · simp only [hab, if_false] at hv'; exact hm.exclusive b v hv' hne
  · rw [hu]; split
    · exact nodup_erase _ _ hw.unstaking
    · exact hw.unstaking
  · rw [hp]; split
    · exact nodup_erase _ _ hw.paused
    · exact hw.paused

/-- the repaired zero-stake branch: cleaning the markers and deleting the record keeps `InvStaking`
(this is exactly what failed before 6a62009, see `never_wedged_fails_without_marker_cleanup`) -/
theorem slashToZero_inv {L L' : Ledger} {a : Addr} {val : Validator} (hs : InvStaking L) (hg : valGet? L a = some val)
    (h : deleteValidator (slashCleanMarkers true L a val) a val = .ok L') : InvStaking L' := by
  have hsup : (slashCleanMarkers true L a val).supply = L.supply := by
    unfold slashCleanMarkers; dsimp only; split <;> split <;> rfl
  have hval : (slashCleanMarkers true L a val).validators = L.validators := by
    unfold slashCleanMarkers; dsimp only; split <;> split <;> rfl
  have hun : (slashCleanMarkers true L a val).unstaking =
      if val.unstakingHeight ≠ 0 then KSet.del L.unstaking (val.unstakingHeight, a) else L.unstaking := by
    unfold slashCleanMarkers; dsimp only
    by_cases h1 : val.unstakingHeight ≠ 0 <;> by_cases h2 : val.maxPausedHeight ≠ 0 <;> simp [h1, h2]
  have hpa : (slashCleanMarkers true L a val).paused =
      if val.maxPausedHeight ≠ 0 then KSet.del L.paused (val.maxPausedHeight, a) else L.paused := by
    unfold slashCleanMarkers; dsimp only
    by_cases h1 : val.unstakingHeight ≠ 0 <;> by_cases h2 : val.maxPausedHeight ≠ 0 <;> simp [h1, h2]
  have ht0 : Tallies (slashCleanMarkers true L a val) := by
    have t := hs.tallies
    exact ⟨by unfold stakeSum; rw [hsup, hval]; exact t.staked, by unfold dstakeSum; rw [hsup, hval]; exact t.delegated,
      fun c => by unfold comGet comSum; rw [hsup, hval]; exact t.committee c,
      fun c => by unfold delGet dcomSum; rw [hsup, hval]; exact t.committeeDelegated c⟩
  have hp0 : Pools (slashCleanMarkers true L a val) := ⟨by rw [hsup]; exact hs.wf.committee, by rw [hsup]; exact hs.wf.delegated⟩
  have hg0 : valGet? (slashCleanMarkers true L a val) a = some val := by unfold valGet?; rw [hval]; exact hg
  obtain ⟨t', p', v', env⟩ := deleteValidator_tallies ht0 hp0 hg0 h
  obtain ⟨m, w⟩ := markers_delete (L' := L') hs.markers hs.wfm hg (by rw [v', hval]) (by rw [env.unstaking, hun]) (by rw [env.paused, hpa])
  exact InvStaking.mk' t' m w p'

end Canopy.Ledger

namespace Canopy.Ledger
open AMap
set_option linter.unusedSimpArgs false
set_option linter.unusedVariables false

/-- `InvStaking` only looks at the validator records, the markers and the staking part of the supply record -/
theorem InvStaking.of_same {L L' : Ledger} (hs : InvStaking L) (hv : L'.validators = L.validators)
    (h1 : L'.supply.staked = L.supply.staked) (h2 : L'.supply.delegatedOnly = L.supply.delegatedOnly)
    (h3 : L'.supply.committee = L.supply.committee) (h4 : L'.supply.delegated = L.supply.delegated)
    (hu : L'.unstaking = L.unstaking) (hp : L'.paused = L.paused) : InvStaking L' := by
  have t := hs.tallies
  have hget : ∀ b, valGet? L' b = valGet? L b := by intro b; unfold valGet?; rw [hv]
  refine ⟨⟨?_, ?_, ?_, ?_⟩, ⟨?_, ?_, ?_⟩, ⟨?_, ?_, ?_, ?_, ?_⟩⟩
  · unfold stakeSum; rw [h1, hv]; exact t.staked
  · unfold dstakeSum; rw [h2, hv]; exact t.delegated
  · intro c; unfold comGet comSum; rw [h3, hv]; exact t.committee c
  · intro c; unfold delGet dcomSum; rw [h4, hv]; exact t.committeeDelegated c
  · intro h b; rw [hu, hget]; exact hs.markers.unstaking h b
  · intro h b; rw [hp, hget]; exact hs.markers.paused h b
  · intro b v hvb; rw [hget] at hvb; exact hs.markers.exclusive b v hvb
  · rw [hv]; exact hs.wf.validators
  · rw [hu]; exact hs.wf.unstaking
  · rw [hp]; exact hs.wf.paused
  · rw [h3]; exact hs.wf.committee
  · rw [h4]; exact hs.wf.delegated

/-- **`SlashValidator` when the stake rounds to zero (the F3 situation) keeps `InvStaking`** — in particular the
markers of the deleted validator are gone -/
theorem slashValidator_zero_inv {L L' : Ledger} {a : Addr} {val : Validator} {ch p : Nat} (hs : InvStaking L)
    (hg : valGet? L a = some val)
    (hz : ∀ p' cs' L0, slashScope L a val ch p = some (p', cs', L0) → stakeAfterSlash val.stake p' = 0)
    (h : slashValidator L a val ch p = .ok L') : InvStaking L' := by
  unfold slashValidator slashValidatorWith at h
  split at h
  · obtain rfl := Except.ok.inj h; exact hs
  · next p' cs' L0 hsc =>
    obtain ⟨s0, e1, e2, e3, _, _⟩ := slashScope_sameBal hsc
    have hz' := hz p' cs' L0 hsc
    dsimp only at h
    split at h
    · exact absurd h (by intro h; cases h)
    · next L1 h1 =>
      obtain ⟨_, rfl⟩ := subFromTotal_ok h1
      rw [if_pos hz'] at h
      have hs1 : InvStaking { L0 with supply := { L0.supply with total := L0.supply.total - (val.stake - stakeAfterSlash val.stake p') } } :=
        hs.of_same s0.validators (by show L0.supply.staked = _; rw [e1]) (by show L0.supply.delegatedOnly = _; rw [e1])
          (by show L0.supply.committee = _; rw [e1]) (by show L0.supply.delegated = _; rw [e1]) e2 e3
      exact slashToZero_inv hs1 (by unfold valGet?; show find? L0.validators a = _; rw [s0.validators]; exact hg) h

end Canopy.Ledger

namespace Canopy.Ledger
open AMap
set_option linter.unusedSimpArgs false
set_option linter.unusedVariables false

/-- rewriting a record without touching its status fields keeps the marker biconditionals -/
theorem markers_sameStatus {L L' : Ledger} {a : Addr} {old v : Validator} (hm : Markers L) (hw : WFm L) (hg : valGet? L a = some old)
    (hv : L'.validators = AMap.set L.validators a v) (hu : L'.unstaking = L.unstaking) (hp : L'.paused = L.paused)
    (h1 : v.unstakingHeight = old.unstakingHeight) (h2 : v.maxPausedHeight = old.maxPausedHeight) : Markers L' ∧ WFm L' := by
  have hget : ∀ b, valGet? L' b = if a = b then some v else valGet? L b := by
    intro b; unfold valGet?; rw [hv]; exact find?_set _ _ _ _
  refine ⟨⟨?_, ?_, ?_⟩, ⟨by rw [hv]; exact nodup_set _ _ _ hw.validators, by rw [hu]; exact hw.unstaking, by rw [hp]; exact hw.paused⟩⟩
  · intro h b
    rw [hu, hget]
    constructor
    · intro e
      obtain ⟨vb, hvb, he, hne⟩ := (hm.unstaking h b).1 e
      by_cases hab : a = b
      · subst hab; rw [hg] at hvb; cases hvb; exact ⟨v, by simp, by rw [h1]; exact he, hne⟩
      · exact ⟨vb, by simp [hab, hvb], he, hne⟩
    · rintro ⟨vb, hvb, he, hne⟩
      by_cases hab : a = b
      · subst hab; simp only [if_true, Option.some.injEq] at hvb; subst hvb
        exact (hm.unstaking h a).2 ⟨old, hg, by rw [← h1]; exact he, hne⟩
      · simp only [hab, if_false] at hvb; exact (hm.unstaking h b).2 ⟨vb, hvb, he, hne⟩
  · intro h b
    rw [hp, hget]
    constructor
    · intro e
      obtain ⟨vb, hvb, he, hne⟩ := (hm.paused h b).1 e
      by_cases hab : a = b
      · subst hab; rw [hg] at hvb; cases hvb; exact ⟨v, by simp, by rw [h2]; exact he, hne⟩
      · exact ⟨vb, by simp [hab, hvb], he, hne⟩
    · rintro ⟨vb, hvb, he, hne⟩
      by_cases hab : a = b
      · subst hab; simp only [if_true, Option.some.injEq] at hvb; subst hvb
        exact (hm.paused h a).2 ⟨old, hg, by rw [← h2]; exact he, hne⟩
      · simp only [hab, if_false] at hvb; exact (hm.paused h b).2 ⟨vb, hvb, he, hne⟩
  · intro b vb hvb hne
    rw [hget] at hvb
    by_cases hab : a = b
    · subst hab; simp only [if_true, Option.some.injEq] at hvb; subst hvb
      rw [h2]; exact hm.exclusive a old hg (by rw [← h1]; exact hne)
    · simp only [hab, if_false] at hvb; exact hm.exclusive b vb hvb hne

/-- `UpdateValidatorStake` (edit-stake, reward compounding) keeps `InvStaking` -/
theorem updateValidatorStake_inv {L L' : Ledger} {a : Addr} {old val : Validator} {cs : List Nat} {amt : Nat}
    (hs : InvStaking L) (hg : valGet? L a = some old)
    (e1 : val.stake = old.stake) (e2 : val.delegate = old.delegate) (e3 : val.committees = old.committees)
    (e4 : val.unstakingHeight = old.unstakingHeight) (e5 : val.maxPausedHeight = old.maxPausedHeight)
    (hw : val.stake + amt < U64) (h : updateValidatorStake L a val cs amt = .ok L') : InvStaking L' := by
  have t := hs.tallies
  obtain ⟨nv, hnv⟩ : ∃ nv : Validator, nv = { val with committees := cs, stake := val.stake + amt } := ⟨_, rfl⟩
  have n1 : nv.stake = old.stake + amt := by rw [hnv, ← e1]
  have n2 : nv.delegate = old.delegate := by rw [hnv, ← e2]
  have n3 : nv.committees = cs := by rw [hnv]
  have n4 : nv.unstakingHeight = old.unstakingHeight := by rw [hnv, ← e4]
  have n5 : nv.maxPausedHeight = old.maxPausedHeight := by rw [hnv, ← e5]
  have hg' : find? L.validators a = some old := hg
  have w1 := sumBy_set (fun v : Validator => v.stake) L.validators a nv
  have w2 := sumBy_set (fun v : Validator => if v.delegate then v.stake else 0) L.validators a nv
  have w3 := fun c => sumBy_set (fun v : Validator => v.stake * v.committees.count c) L.validators a nv
  have w4 := fun c => sumBy_set (fun v : Validator => if v.delegate then v.stake * v.committees.count c else 0) L.validators a nv
  rw [hg'] at w1 w2
  simp only [ow_some, n1, n2] at w1 w2
  unfold updateValidatorStake at h
  obtain ⟨L1, h1, h⟩ := bind_ok h
  obtain rfl := addToStaked_ok h1
  rw [Nat.mod_eq_of_lt hw] at h
  dsimp only at h
  rw [← hnv] at h
  -- what both branches need at the end
  have fin : ∀ L2 : Ledger, L2.validators = L.validators → L2.unstaking = L.unstaking → L2.paused = L.paused → Pools L2 →
      L2.supply.staked = L.supply.staked + amt →
      L2.supply.delegatedOnly = L.supply.delegatedOnly + (if old.delegate then amt else 0) →
      (∀ c, comGet L2 c + old.stake * old.committees.count c = comGet L c + (old.stake + amt) * cs.count c) →
      (∀ c, delGet L2 c + (if old.delegate then old.stake * old.committees.count c else 0) =
            delGet L c + (if old.delegate then (old.stake + amt) * cs.count c else 0)) →
      InvStaking (valPut L2 a nv) := by
    intro L2 hv2 hu2 hp2 pl2 s1 s2 s3 s4
    obtain ⟨m, w⟩ := markers_sameStatus (L' := valPut L2 a nv) (v := nv) hs.markers hs.wfm hg
      (by show AMap.set L2.validators a _ = _; rw [hv2]) hu2 hp2 n4 n5
    refine InvStaking.mk' ⟨?_, ?_, ?_, ?_⟩ m w ⟨pl2.committee, pl2.delegated⟩
    · show L2.supply.staked = sumBy _ (AMap.set L2.validators a nv)
      rw [s1, hv2]; have := t.staked; unfold stakeSum at this; omega
    · show L2.supply.delegatedOnly = sumBy _ (AMap.set L2.validators a nv)
      rw [s2, hv2]; have := t.delegated; unfold dstakeSum at this
      by_cases hod : old.delegate = true
      · simp only [hod, ↓reduceIte] at w2 ⊢; omega
      · simp only [hod, ↓reduceIte, Bool.false_eq_true] at w2 ⊢; omega
    · intro c
      show comGet L2 c = sumBy _ (AMap.set L2.validators a nv)
      rw [hv2]
      have q1 := s3 c; have q3 := w3 c; have q4 := t.committee c
      rw [hg'] at q3; simp only [ow_some, n1, n3] at q3
      unfold comSum at q4
      omega
    · intro c
      show delGet L2 c = sumBy _ (AMap.set L2.validators a nv)
      rw [hv2]
      have q1 := s4 c; have q3 := w4 c; have q4 := t.committeeDelegated c
      rw [hg'] at q3; simp only [ow_some, n1, n2, n3] at q3
      unfold dcomSum at q4
      by_cases hod : old.delegate = true
      · simp only [hod, ↓reduceIte] at q1 q3; omega
      · simp only [hod, ↓reduceIte, Bool.false_eq_true] at q1 q3; omega
  by_cases hd : val.delegate = true
  · have hod : old.delegate = true := by rw [← e2]; exact hd
    rw [if_pos hd] at h
    obtain ⟨L1', h3, h⟩ := bind_ok h
    obtain rfl := addToDelegated_ok h3
    dsimp only at h
    obtain ⟨L2, h2, h⟩ := bind_ok h
    obtain rfl := Except.ok.inj h
    unfold updateDelegations at h2
    obtain ⟨La, ha, hb⟩ := bind_ok h2
    have sa := sameCore_deleteDelegations ha
    have sb := sameCore_setDelegations hb
    obtain ⟨a1, a2, a3⟩ := deleteDelegations_eff (L := { L with supply := { L.supply with staked := L.supply.staked + amt, delegatedOnly := L.supply.delegatedOnly + amt } })
      ⟨hs.wf.committee, hs.wf.delegated⟩ ha
    obtain ⟨b1, b2, b3⟩ := setDelegations_eff a3 hb
    refine fin L2 (by rw [sb.validators, sa.validators]) (by rw [sb.unstaking, sa.unstaking]) (by rw [sb.paused, sa.paused]) b3
      (by rw [sb.staked, sa.staked]) (by rw [sb.delegatedOnly, sa.delegatedOnly, if_pos hod]) ?_ ?_
    · intro c
      have q1 := a1 c; have q2 := b1 c
      unfold comGet at *; dsimp only at *
      rw [e1, e3] at q1; rw [e1] at q2; omega
    · intro c
      have q1 := a2 c; have q2 := b2 c
      unfold delGet at *; dsimp only at *
      rw [e1, e3] at q1; rw [e1] at q2
      simp only [hod, ↓reduceIte]; omega
  · have hod : ¬ old.delegate = true := by rw [← e2]; exact hd
    rw [if_neg hd] at h
    obtain ⟨L2, h2, h⟩ := bind_ok h
    obtain rfl := Except.ok.inj h
    unfold updateCommittees at h2
    obtain ⟨La, ha, hb⟩ := bind_ok h2
    have sa := sameCore_deleteCommittees ha
    have sb := sameCore_setCommittees hb
    obtain ⟨a1, a2, a3⟩ := deleteCommittees_eff (L := { L with supply := { L.supply with staked := L.supply.staked + amt } })
      ⟨hs.wf.committee, hs.wf.delegated⟩ ha
    obtain ⟨b1, b2, b3⟩ := setCommittees_eff a3 hb
    refine fin L2 (by rw [sb.validators, sa.validators]) (by rw [sb.unstaking, sa.unstaking]) (by rw [sb.paused, sa.paused]) b3
      (by rw [sb.staked, sa.staked]) (by rw [sb.delegatedOnly, sa.delegatedOnly, if_neg hod]; rfl) ?_ ?_
    · intro c
      have q1 := a1 c; have q2 := b1 c
      unfold comGet at *; dsimp only at *
      rw [e1, e3] at q1; rw [e1] at q2; omega
    · intro c
      have q1 := a2 c; have q2 := b2 c
      unfold delGet at *; dsimp only at *
      simp only [hod, ↓reduceIte, Bool.false_eq_true]; omega

end Canopy.Ledger

namespace Canopy.Ledger
open AMap
set_option linter.unusedSimpArgs false
set_option linter.unusedVariables false

/-- `HandleMessageEditStake` keeps `InvStaking` -/
theorem handleEditStake_inv' {L L' : Ledger} {s a o : Addr} {x : Nat} {cs : List Nat} {c : Bool} (hi : InvSupply L)
    (hs : InvStaking L) (h : handleEditStake L s a x cs c o = .ok L') : InvStaking L' := by
  obtain ⟨val, L1, hv, _, h1, h2⟩ := handleEditStake_inv h
  obtain ⟨acc, vs, rfl, e1⟩ := accountSub_ok h1
  have hst := stake_le L a val hv
  have hs1 : InvStaking { L with accounts := acc, vesting := vs } := hs.of_same rfl rfl rfl rfl rfl rfl rfl
  have hv1 : valGet? { L with accounts := acc, vesting := vs } a = some val := hv
  refine updateValidatorStake_inv (old := val) (val := { val with output := o, compound := c }) hs1 hv1 rfl rfl rfl rfl rfl ?_ h2
  obtain ⟨i1, i2⟩ := hi
  show val.stake + _ < U64
  unfold bal at i1
  have ea : accSum { L with accounts := acc, vesting := vs } = NMap.total acc := rfl
  rw [ea] at e1
  have : accSum L = NMap.total L.accounts := rfl
  omega

/-- a fresh record with no status keeps the marker biconditionals -/
theorem markers_fresh {L L' : Ledger} {a : Addr} {v : Validator} (hm : Markers L) (hw : WFm L) (hg : valGet? L a = none)
    (hv : L'.validators = AMap.set L.validators a v) (hu : L'.unstaking = L.unstaking) (hp : L'.paused = L.paused)
    (h1 : v.unstakingHeight = 0) (h2 : v.maxPausedHeight = 0) : Markers L' ∧ WFm L' := by
  have hget : ∀ b, valGet? L' b = if a = b then some v else valGet? L b := by
    intro b; unfold valGet?; rw [hv]; exact find?_set _ _ _ _
  refine ⟨⟨?_, ?_, ?_⟩, ⟨by rw [hv]; exact nodup_set _ _ _ hw.validators, by rw [hu]; exact hw.unstaking, by rw [hp]; exact hw.paused⟩⟩
  · intro h b
    rw [hu, hget]
    constructor
    · intro e
      obtain ⟨vb, hvb, he, hne⟩ := (hm.unstaking h b).1 e
      have hab : a ≠ b := by intro e'; subst e'; rw [hg] at hvb; cases hvb
      exact ⟨vb, by simp [hab, hvb], he, hne⟩
    · rintro ⟨vb, hvb, he, hne⟩
      by_cases hab : a = b
      · subst hab; simp only [if_true, Option.some.injEq] at hvb; subst hvb; exact absurd (he ▸ h1) hne
      · simp only [hab, if_false] at hvb; exact (hm.unstaking h b).2 ⟨vb, hvb, he, hne⟩
  · intro h b
    rw [hp, hget]
    constructor
    · intro e
      obtain ⟨vb, hvb, he, hne⟩ := (hm.paused h b).1 e
      have hab : a ≠ b := by intro e'; subst e'; rw [hg] at hvb; cases hvb
      exact ⟨vb, by simp [hab, hvb], he, hne⟩
    · rintro ⟨vb, hvb, he, hne⟩
      by_cases hab : a = b
      · subst hab; simp only [if_true, Option.some.injEq] at hvb; subst hvb; exact absurd (he ▸ h2) hne
      · simp only [hab, if_false] at hvb; exact (hm.paused h b).2 ⟨vb, hvb, he, hne⟩
  · intro b vb hvb hne
    rw [hget] at hvb
    by_cases hab : a = b
    · subst hab; simp only [if_true, Option.some.injEq] at hvb; subst hvb; exact h2
    · simp only [hab, if_false] at hvb; exact hm.exclusive b vb hvb hne

/-- `HandleMessageStake` keeps `InvStaking` -/
theorem handleStake_inv' {L L' : Ledger} {s a o : Addr} {x : Nat} {cs : List Nat} {d c : Bool}
    (hs : InvStaking L) (h : handleStake L s a x cs d c o = .ok L') : InvStaking L' := by
  obtain ⟨hnone, _, L1, L2, L3, h1, h2, h3, rfl⟩ := handleStake_inv h
  obtain ⟨acc, vs, rfl, _⟩ := accountSub_ok h1
  obtain rfl := addToStaked_ok h2
  have t := hs.tallies
  obtain ⟨nv, hnv⟩ : ∃ nv : Validator, nv = { stake := x, committees := cs, delegate := d, compound := c, output := o } := ⟨_, rfl⟩
  rw [← hnv]
  have n1 : nv.stake = x := by rw [hnv]
  have n2 : nv.delegate = d := by rw [hnv]
  have n3 : nv.committees = cs := by rw [hnv]
  have hg' : find? L.validators a = none := hnone
  have w1 := sumBy_set (fun v : Validator => v.stake) L.validators a nv
  have w2 := sumBy_set (fun v : Validator => if v.delegate then v.stake else 0) L.validators a nv
  have w3 := fun c => sumBy_set (fun v : Validator => v.stake * v.committees.count c) L.validators a nv
  have w4 := fun c => sumBy_set (fun v : Validator => if v.delegate then v.stake * v.committees.count c else 0) L.validators a nv
  rw [hg'] at w1 w2
  simp only [ow_none, n1, n2, Nat.add_zero] at w1 w2
  have fin : ∀ L3 : Ledger, L3.validators = L.validators → L3.unstaking = L.unstaking → L3.paused = L.paused → Pools L3 →
      L3.supply.staked = L.supply.staked + x → L3.supply.delegatedOnly = L.supply.delegatedOnly + (if d then x else 0) →
      (∀ c, comGet L3 c = comGet L c + x * cs.count c) →
      (∀ c, delGet L3 c = delGet L c + (if d then x * cs.count c else 0)) → InvStaking (valPut L3 a nv) := by
    intro L3 hv3 hu3 hp3 pl3 s1 s2 s3 s4
    obtain ⟨m, w⟩ := markers_fresh (L' := valPut L3 a nv) (v := nv) hs.markers hs.wfm hnone
      (by show AMap.set L3.validators a _ = _; rw [hv3]) hu3 hp3 (by rw [hnv]) (by rw [hnv])
    refine InvStaking.mk' ⟨?_, ?_, ?_, ?_⟩ m w ⟨pl3.committee, pl3.delegated⟩
    · show L3.supply.staked = sumBy _ (AMap.set L3.validators a nv)
      rw [s1, hv3]; have := t.staked; unfold stakeSum at this; omega
    · show L3.supply.delegatedOnly = sumBy _ (AMap.set L3.validators a nv)
      rw [s2, hv3]; have := t.delegated; unfold dstakeSum at this; omega
    · intro c'
      show comGet L3 c' = sumBy _ (AMap.set L3.validators a nv)
      rw [hv3]
      have q3 := w3 c'; have q4 := t.committee c'
      rw [hg'] at q3; simp only [ow_none, n1, n3, Nat.add_zero] at q3
      unfold comSum at q4
      rw [s3 c']; omega
    · intro c'
      show delGet L3 c' = sumBy _ (AMap.set L3.validators a nv)
      rw [hv3]
      have q3 := w4 c'; have q4 := t.committeeDelegated c'
      rw [hg'] at q3; simp only [ow_none, n1, n2, n3, Nat.add_zero] at q3
      unfold dcomSum at q4
      rw [s4 c']; omega
  cases d with
  | true =>
    simp only [if_true] at h3
    obtain ⟨L2', h4, h5⟩ := h3
    obtain rfl := addToDelegated_ok h4
    have sc := sameCore_setDelegations h5
    obtain ⟨b1, b2, b3⟩ := setDelegations_eff (L := { L with accounts := acc, vesting := vs, supply := { L.supply with staked := L.supply.staked + x, delegatedOnly := L.supply.delegatedOnly + x } })
      ⟨hs.wf.committee, hs.wf.delegated⟩ h5
    exact fin L3 sc.validators sc.unstaking sc.paused b3 sc.staked (by rw [sc.delegatedOnly]; rfl)
      (fun c' => by rw [b1 c']; rfl) (fun c' => by rw [b2 c']; rfl)
  | false =>
    simp only [Bool.false_eq_true, if_false] at h3
    have sc := sameCore_setCommittees h3
    obtain ⟨b1, b2, b3⟩ := setCommittees_eff (L := { L with accounts := acc, vesting := vs, supply := { L.supply with staked := L.supply.staked + x } })
      ⟨hs.wf.committee, hs.wf.delegated⟩ h3
    exact fin L3 sc.validators sc.unstaking sc.paused b3 sc.staked (by rw [sc.delegatedOnly]; rfl)
      (fun c' => by rw [b1 c']; rfl) (fun c' => by rw [b2 c']; rfl)

end Canopy.Ledger
