import Canopy.Proof.SmtProofComplete
/-! Soundness of the repaired verifier under the hash idealisation: an accepted statement is true of the state behind
the root. Core only. -/
namespace Canopy.Smt
open Trie

/-! ### decoding a validated key -/

theorem sigBits_length_lt : ∀ i, i < 256 → (sigBits (UInt8.ofNat i)).length = max (V.len8 (UInt8.ofNat i)) 1 := by
  decide +kernel

theorem sigBits_length (v : UInt8) : (sigBits v).length = max (V.len8 v) 1 := by
  have := sigBits_length_lt v.toNat v.toNat_lt
  simpa using this

theorem byteBits_length (x : UInt8) : (byteBits x).length = 8 := rfl

/-- a validated key decodes to exactly the number of bits the validator counted, at least one -/
theorem decodeKey_length : ∀ (b : Bytes) (m : Nat), bitsOfEnc b = some m → (decodeKey b).length = m ∧ 1 ≤ m
  | [], m, h => by simp [bitsOfEnc] at h
  | [_], m, h => by simp [bitsOfEnc] at h
  | [v, pad], m, h => by
    simp only [bitsOfEnc, List.reverse_cons, List.reverse_nil, List.nil_append, List.cons_append] at h
    by_cases hc : lastBitsOf v pad ≤ 8
    · rw [if_pos hc] at h
      simp at h
      subst h
      simp only [decodeKey, decodeLast, List.length_append, List.length_replicate, sigBits_length]
      unfold lastBitsOf
      constructor <;> omega
    · rw [if_neg hc] at h; simp at h
  | x :: y :: z :: rest, m, h => by
    rw [bitsOfEnc_cons x (y :: z :: rest) (by simp)] at h
    cases hb : bitsOfEnc (y :: z :: rest) with
    | none => simp [hb] at h
    | some m' =>
      simp [hb] at h
      subst h
      have ih := decodeKey_length (y :: z :: rest) m' hb
      simp only [decodeKey, List.length_append, byteBits_length]
      constructor <;> omega

theorem decodeKey_valid {n : Nat} {b : Bytes} (h : validNodeKey n b = true) :
    (decodeKey b).length ≤ n ∧ decodeKey b ≠ [] := by
  obtain ⟨m, hm, hle⟩ := (validNodeKey_iff n b).mp h
  have := decodeKey_length b m hm
  constructor
  · omega
  · intro e; rw [e] at this; simp at this; omega

/-! ### prefixes -/

theorem take_snoc_prefix {g cur : Key} {c : Bool} (h : g ++ [c] <+: cur) : cur.take (g.length + 1) = g ++ [c] := by
  obtain ⟨rest, rfl⟩ := h
  have : (g ++ [c]).length = g.length + 1 := by simp
  rw [← this, List.take_left']
  rfl

theorem take_prefix_of_gcp_length {k p : Key} {m : Nat} (h : m ≤ (gcp k p).length) : p.take m <+: k := by
  have h1 : (gcp k p).take m = p.take m := by
    obtain ⟨r, hr⟩ := gcp_prefix_right k p
    have : p.take m = (gcp k p ++ r).take m := by rw [hr]
    rw [this, List.take_append_of_le_length h]
  rw [← h1]
  exact (List.take_prefix _ _).trans (gcp_prefix_left k p)

/-- two siblings under a well-formed node: a key of the tree on the left branch is in the left child -/
theorem mem_child_of_branch {n : Nat} {g : Key} {a b : Trie} (hw : WF n (node g a b)) {x : Key}
    (hx : x ∈ (node g a b).keys) :
    (g ++ [false] <+: x → x ∈ a.keys) ∧ (g ++ [true] <+: x → x ∈ b.keys) := by
  rcases mem_keys_node.mp hx with h | h
  · exact ⟨fun _ => h, fun h' => absurd (prefix_bit_unique (hw.2.2.1 _ h) h') (by simp)⟩
  · exact ⟨fun h' => absurd (prefix_bit_unique h' (hw.2.2.2 _ h)) (by simp), fun _ => h⟩

/-! ### the hash chain ties the proof to the tree -/

/-- `s` is a node of the tree `t` -/
inductive Sub (t : Trie) : Trie → Prop
  | refl : Sub t t
  | left {g : Key} {a b : Trie} : Sub t (node g a b) → Sub t a
  | right {g : Key} {a b : Trie} : Sub t (node g a b) → Sub t b

/-- the node hash tells every inner node `(a, b)` of `t` apart from every OTHER 4-tuple that passes the verifier's checks
`Ok`: the hash input of a real node has no second admissible reading. (`H4Inj H4` gives this for every `Ok`; for the
code's unframed hash it is a property of the tree: no node can be re-split into well-formed pieces.) -/
def ParseUnique (H4 : Bytes → Bytes → Bytes → Bytes → Bytes) (Ok : Bytes → Bytes → Bytes → Bytes → Prop) (t : Trie) : Prop :=
  ∀ g a b, Sub t (node g a b) → ∀ x y z w, Ok x y z w →
    H4 (encodeKey a.key) (a.value H4) (encodeKey b.key) (b.value H4) = H4 x y z w →
    encodeKey a.key = x ∧ a.value H4 = y ∧ encodeKey b.key = z ∧ b.value H4 = w

/-- what the fold establishes about `(cur, hv)` relative to the tree `t` behind the root -/
structure Tied (H4 : Bytes → Bytes → Bytes → Bytes → Bytes) (n : Nat) (t : Trie) (cur : Key) (hv : Bytes) (rest : List PNode) : Prop where
  ex : ∃ s : Trie, Sub t s ∧ WF n s ∧ s.key = cur ∧ s.value H4 = hv ∧ (∀ kv ∈ s.toList, kv ∈ t.toList) ∧
    (∀ x ∈ t.keys, cur <+: x → x ∈ s.keys) ∧
    (∀ x ∈ t.keys, cur.take (branchBits cur rest) <+: x → x ∈ s.keys)

theorem tied_of_fold (H4 : Bytes → Bytes → Bytes → Bytes → Bytes) {Ok : Bytes → Bytes → Bytes → Bytes → Prop}
    {HvOk : Bytes → Prop} {n : Nat} {t : Trie} (hU : ParseUnique H4 Ok t) (hStep : ∀ a b c d, HvOk (H4 a b c d))
    (hw : WF n t) (htop : t.key = []) :
    ∀ (rest : List PNode) (cur : Key) (hv : Bytes), (∀ p ∈ rest, validNodeKey n p.key = true) →
      (∀ p ∈ rest, ∀ (c : Key) (h' : Bytes), c ≠ [] → c.length ≤ n → HvOk h' →
        Ok p.key p.value (encodeKey c) h' ∧ Ok (encodeKey c) h' p.key p.value) → HvOk hv →
      (rest = [] → cur = []) → (rest ≠ [] → cur ≠ []) → cur.length ≤ n →
      foldFixed H4 cur hv rest = some (t.value H4) → Tied H4 n t cur hv rest
  | [], cur, hv, _, _, _, hc, _, _, hf => by
    have e := hc rfl
    subst e
    simp [foldFixed] at hf
    exact ⟨t, Sub.refl, hw, htop, hf.symm, fun _ h => h, fun x hx _ => hx, fun x hx _ => hx⟩
  | p :: rest, cur, hv, hval, hOk, hHv, _, hne, hlen, hf => by
    have hcur : cur ≠ [] := hne (by simp)
    have hpv := decodeKey_valid (hval p (by simp))
    simp only [foldFixed] at hf
    by_cases h1 : (gcp cur (decodeKey p.key)).length = min cur.length (decodeKey p.key).length
    · rw [if_pos h1] at hf; cases hf
    · rw [if_neg h1] at hf
      by_cases h2 : (decide ((gcp cur (decodeKey p.key)).length = 0) != rest.isEmpty) = true
      · rw [if_pos h2] at hf; cases hf
      · rw [if_neg h2] at hf
        -- the parent: by induction it is a node of the tree
        have hglt : (gcp cur (decodeKey p.key)).length < cur.length := by
          have := (gcp_prefix_left cur (decodeKey p.key)).length_le
          have := (gcp_prefix_right cur (decodeKey p.key)).length_le
          omega
        have hg0 : (rest = [] → gcp cur (decodeKey p.key) = []) ∧ (rest ≠ [] → gcp cur (decodeKey p.key) ≠ []) := by
          cases rest with
          | nil =>
            simp at h2
            exact ⟨fun _ => h2, fun h => absurd rfl h⟩
          | cons _ _ =>
            simp at h2
            refine ⟨?_, fun _ => h2⟩
            intro h; cases h
        have hHv' : HvOk (if p.bitmask = 0 then H4 p.key p.value (encodeKey cur) hv else H4 (encodeKey cur) hv p.key p.value) := by
          split <;> exact hStep _ _ _ _
        have hOkp := hOk p (by simp) cur hv hcur hlen hHv
        obtain ⟨s', hsubS, hws', hkey', hval', hsub', hpre', _⟩ :=
          (tied_of_fold H4 hU hStep hw htop rest _ _ (fun q hq => hval q (by simp [hq]))
            (fun q hq => hOk q (by simp [hq])) hHv' hg0.1 hg0.2 (by omega) hf).ex
        cases s' with
        | leaf k' v' =>
          exfalso
          have : k'.length = n := hws'
          simp only [Trie.key] at hkey'
          rw [hkey'] at this
          omega
        | node g a b =>
          simp only [Trie.key] at hkey'
          have hkeys := child_key_ne_nil hws'
          have hca := child_prefix hws'.1 hws'.2.2.1
          have hcb := child_prefix hws'.2.1 hws'.2.2.2
          have hinj : ∀ x : Trie, x.key ≠ [] → encodeKey x.key = encodeKey cur → x.key = cur :=
            fun x hx e => encodeKey_injective hx hcur e
          simp only [Trie.value] at hval'
          by_cases hb : p.bitmask = 0
          · -- the sibling is the left child, the path continues in the right child
            rw [if_pos hb] at hval'
            obtain ⟨_, _, e3, e4⟩ := hU g a b hsubS _ _ _ _ hOkp.1 hval'
            have ek : b.key = cur := hinj b hkeys.2 e3
            refine ⟨b, Sub.right hsubS, hws'.2.1, ek, e4, fun kv h => hsub' kv (mem_toList_node.mpr (Or.inr h)), ?_, ?_⟩
            · intro x hx hpx
              have hgx : g <+: x := (prefix_of_snoc_prefix hcb).trans (ek ▸ hpx)
              exact (mem_child_of_branch hws' (hpre' x hx (hkey' ▸ hgx))).2 (hcb.trans (ek ▸ hpx))
            · intro x hx hpx
              have hbr : cur.take (branchBits cur (p :: rest)) = g ++ [true] := by
                simp only [branchBits, ← hkey']
                exact take_snoc_prefix (ek ▸ hcb)
              rw [hbr] at hpx
              exact (mem_child_of_branch hws' (hpre' x hx (hkey' ▸ prefix_of_snoc_prefix hpx))).2 hpx
          · rw [if_neg hb] at hval'
            obtain ⟨e1, e2, _, _⟩ := hU g a b hsubS _ _ _ _ hOkp.2 hval'
            have ek : a.key = cur := hinj a hkeys.1 e1
            refine ⟨a, Sub.left hsubS, hws'.1, ek, e2, fun kv h => hsub' kv (mem_toList_node.mpr (Or.inl h)), ?_, ?_⟩
            · intro x hx hpx
              have hgx : g <+: x := (prefix_of_snoc_prefix hca).trans (ek ▸ hpx)
              exact (mem_child_of_branch hws' (hpre' x hx (hkey' ▸ hgx))).1 (hca.trans (ek ▸ hpx))
            · intro x hx hpx
              have hbr : cur.take (branchBits cur (p :: rest)) = g ++ [false] := by
                simp only [branchBits, ← hkey']
                exact take_snoc_prefix (ek ▸ hca)
              rw [hbr] at hpx
              exact (mem_child_of_branch hws' (hpre' x hx (hkey' ▸ prefix_of_snoc_prefix hpx))).1 hpx

end Canopy.Smt

namespace Canopy.Smt
open Trie

/-- what an `accept` of the repaired verifier means, piece by piece -/
theorem verifyFixedF_accept {strict : Bool} {H : Bytes → Bytes} {H4 : Bytes → Bytes → Bytes → Bytes → Bytes} {n : Nat} {uk value : Bytes} {m : Bool} {root : Bytes} {proof : List PNode}
    (h : verifyFixedF strict H H4 n uk value m root proof = .accept) :
    ∃ p0 p1 rest, proof = p0 :: p1 :: rest ∧ (∀ p ∈ proof, validNodeKey n p.key = true) ∧
      (strict = true → ∀ p ∈ proof, valueLenOk n p = true) ∧
      foldFixed H4 (decodeKey p0.key) p0.value (p1 :: rest) = some root ∧
      branchBits (decodeKey p0.key) (p1 :: rest) ≤ (gcp (keyOfBytes n (H uk)) (decodeKey p0.key)).length ∧
      (if m then encodeKey (keyOfBytes n (H uk)) = p0.key ∧ p0.value = H value
       else encodeKey (keyOfBytes n (H uk)) ≠ p0.key ∧
         (gcp (keyOfBytes n (H uk)) (decodeKey p0.key)).length ≠ (decodeKey p0.key).length) := by
  unfold verifyFixedF at h
  match proof, h with
  | [], h => simp at h
  | [_], h => simp at h
  | p0 :: p1 :: rest, h =>
    refine ⟨p0, p1, rest, rfl, ?_⟩
    simp only at h
    by_cases hv : ((p0 :: p1 :: rest).all fun p => nodeOk strict n p) = true
    · simp only [hv, Bool.not_true, Bool.false_eq_true, if_false] at h
      refine ⟨fun p hp => by
        have := (List.all_eq_true.mp hv) p hp
        simp only [nodeOk, Bool.and_eq_true] at this
        exact this.1, fun hst p hp => by
        have := (List.all_eq_true.mp hv) p hp
        simp only [nodeOk, Bool.and_eq_true, hst, Bool.not_true, Bool.false_or] at this
        exact this.2, ?_⟩
      split at h
      · cases h
      · cases hf : foldFixed H4 (decodeKey p0.key) p0.value (p1 :: rest) with
        | none => simp [hf] at h
        | some hash =>
          simp only [hf] at h
          by_cases hr : hash = root
          · subst hr
            simp only [bne_self_eq_false, Bool.false_eq_true, if_false] at h
            refine ⟨rfl, ?_⟩
            by_cases hs : (gcp (keyOfBytes n (H uk)) (decodeKey p0.key)).length < branchBits (decodeKey p0.key) (p1 :: rest)
            · rw [if_pos hs] at h; cases h
            · rw [if_neg hs] at h
              refine ⟨by omega, ?_⟩
              cases m
              · -- non-membership
                by_cases he : encodeKey (keyOfBytes n (H uk)) = p0.key
                · simp [he] at h
                · by_cases hl : (gcp (keyOfBytes n (H uk)) (decodeKey p0.key)).length = (decodeKey p0.key).length
                  · simp [he, hl] at h
                  · simp [he, hl]
              · -- membership
                by_cases he : encodeKey (keyOfBytes n (H uk)) = p0.key
                · by_cases hval : p0.value = H value
                  · simp [he, hval]
                  · simp [he, hval] at h
                · simp [he] at h
          · have : (hash != root) = true := by simp [hr]
            simp only [this, if_true] at h
            cases h
    · simp only [Bool.not_eq_true] at hv
      simp only [hv, Bool.not_false, if_true] at h
      cases h

/-- soundness from the hash chain, for any admissibility predicate `Ok` on 4-tuples that the proof's tuples satisfy and
under which the hash inputs of the tree's nodes have a unique reading -/
theorem verifyFixed_sound_gen (strict : Bool) (H : Bytes → Bytes) (H4 : Bytes → Bytes → Bytes → Bytes → Bytes)
    {Ok : Bytes → Bytes → Bytes → Bytes → Prop} {HvOk : Bytes → Prop} {n : Nat} (hn : 0 < n) {t : Trie} {S : KMap}
    (h : t.Rep n S) (hs : S.HasSentinels n) (hU : ParseUnique H4 Ok t) (hStep : ∀ a b c d, HvOk (H4 a b c d))
    (userKey value : Bytes) (membership : Bool) (proof : List PNode)
    (hOk : ∀ p ∈ proof, validNodeKey n p.key = true → (strict = true → valueLenOk n p = true) →
      HvOk p.value ∧ ∀ (c : Key) (h' : Bytes), c ≠ [] → c.length ≤ n → HvOk h' →
        Ok p.key p.value (encodeKey c) h' ∧ Ok (encodeKey c) h' p.key p.value)
    (hacc : verifyFixed strict H H4 n userKey value membership (t.value H4) proof = .accept) :
    if membership then S (keyOfBytes n (H userKey)) = some (H value) else S (keyOfBytes n (H userKey)) = none := by
  have hF : verifyFixedF strict H H4 n userKey value membership (t.value H4) proof = .accept := by
    unfold verifyFixed at hacc
    cases hv : verifyFixedF strict H H4 n userKey value membership (t.value H4) proof <;> simp [hv, FVerdict.toVerdict] at hacc
    rfl
  obtain ⟨p0, p1, rest, rfl, hvalid, hvlen, hfold, hbranch, hdecision⟩ := verifyFixedF_accept hF
  have hk : (keyOfBytes n (H userKey)).length = n := keyOfBytes_length n _
  generalize keyOfBytes n (H userKey) = k at hk hbranch hdecision ⊢
  have hp0 := decodeKey_valid (hvalid p0 (by simp))
  have hOk' := fun p (hp : p ∈ p0 :: p1 :: rest) => hOk p hp (hvalid p hp) (fun hst => hvlen hst p hp)
  obtain ⟨s, _, hws, hskey, hsval, hsub, _, hbr⟩ :=
    (tied_of_fold H4 hU hStep h.1 (top_key_nil h hs hn) (p1 :: rest) (decodeKey p0.key) p0.value
      (fun p hp => hvalid p (by simp [hp])) (fun p hp => (hOk' p (by simp [hp])).2) (hOk' p0 (by simp)).1
      (fun e => by cases e) (fun _ => hp0.2) hp0.1 hfold).ex
  cases membership
  · -- non-membership: if the key were present it would sit below `s`, so `s`'s key would be a prefix of it
    simp only [Bool.false_eq_true, if_false] at hdecision ⊢
    cases hS : S k with
    | none => rfl
    | some v =>
      exfalso
      have hin : k ∈ t.keys := mem_keys_of_mem ((h.2 k v).mpr hS)
      have hks : k ∈ s.keys := hbr k hin (take_prefix_of_gcp_length hbranch)
      have hpre : decodeKey p0.key <+: k := hskey ▸ key_prefix hws hks
      exact hdecision.2 ((gcp_length_eq_iff _ _).mpr hpre)
  · -- membership: `proof[0]` is the leaf of the key itself
    simp only [if_true] at hdecision ⊢
    obtain ⟨hkey, hval⟩ := hdecision
    have hkne : k ≠ [] := by intro e; rw [e] at hk; simp at hk; omega
    have hdk : decodeKey p0.key = k := by rw [← hkey]; exact decodeKey_encodeKey _ _ rfl hkne
    rw [hdk] at hskey
    cases s with
    | node g a b =>
      exfalso
      simp only [Trie.key] at hskey
      have := node_prefix_lt hws
      rw [hskey] at this; omega
    | leaf k' v' =>
      simp only [Trie.key, Trie.value] at hskey hsval
      subst hskey
      have : (k', v') ∈ t.toList := hsub _ (by simp [toList])
      rw [hsval, hval] at this
      exact (h.2 _ _).mp this

theorem parseUnique_of_H4Inj {H4 : Bytes → Bytes → Bytes → Bytes → Bytes} (hH : H4Inj H4) (t : Trie) :
    ParseUnique H4 (fun _ _ _ _ => True) t :=
  fun _ _ _ _ _ _ _ _ _ he => hH _ _ _ _ _ _ _ _ he

/-- **Soundness of the repaired verifier**, under the explicit hash idealisation `H4Inj H4`: if it accepts a
statement about a key against the root of a canonical tree holding `S`, the statement is true of `S` — an accepted
membership proof means the key holds that value, an accepted non-membership proof means the key is absent. No
assumption on where the proof comes from. -/
theorem verifyFixed_sound (strict : Bool) (H : Bytes → Bytes) (H4 : Bytes → Bytes → Bytes → Bytes → Bytes) (hH : H4Inj H4)
    {n : Nat} (hn : 0 < n) {t : Trie} {S : KMap}
    (h : t.Rep n S) (hs : S.HasSentinels n) (userKey value : Bytes) (membership : Bool) (proof : List PNode)
    (hacc : verifyFixed strict H H4 n userKey value membership (t.value H4) proof = .accept) :
    if membership then S (keyOfBytes n (H userKey)) = some (H value) else S (keyOfBytes n (H userKey)) = none :=
  verifyFixed_sound_gen (HvOk := fun _ => True) strict H H4 hn h hs (parseUnique_of_H4Inj hH t) (fun _ _ _ _ => trivial)
    userKey value membership proof (fun _ _ _ _ => ⟨trivial, fun _ _ _ _ _ => ⟨trivial, trivial⟩⟩) hacc

/-! ### what is left of soundness with the code's unframed node hash -/

/-- a 4-tuple the strict verifier lets through: two well-formed keys, two values of 32 or 20 bytes -/
def TupleOk (n : Nat) (x y z w : Bytes) : Prop :=
  validNodeKey n x = true ∧ validNodeKey n z = true ∧ (y.length = 32 ∨ y.length = 20) ∧ (w.length = 32 ∨ w.length = 20)

/-- no inner node of `t` can be RE-SPLIT: the byte string `lk ‖ lv ‖ rk ‖ rv` its hash covers has no second reading as
(well-formed key, 32/20-byte value, well-formed key, 32/20-byte value). A property of the tree alone (decidable for a
concrete tree: finitely many ways to cut a byte string in four). -/
def NoResplittableNode (n : Nat) (H4 : Bytes → Bytes → Bytes → Bytes → Bytes) (t : Trie) : Prop :=
  ∀ g a b, Sub t (node g a b) → ∀ x y z w, TupleOk n x y z w →
    encodeKey a.key ++ a.value H4 ++ (encodeKey b.key ++ b.value H4) = x ++ y ++ (z ++ w) →
    encodeKey a.key = x ∧ a.value H4 = y ∧ encodeKey b.key = z ∧ b.value H4 = w

theorem valueLenOk_length {n : Nat} {p : PNode} (h : valueLenOk n p = true) : p.value.length = 32 ∨ p.value.length = 20 := by
  simp only [valueLenOk, Bool.or_eq_true, Bool.and_eq_true, beq_iff_eq] at h
  rcases h with h | ⟨h, _⟩
  · exact Or.inl h
  · exact Or.inr h

/-- **Soundness with the real, unframed node hash `h4 H`** (strict verifier), for every tree without a re-splittable
node: only that the hash inputs of the tree's own nodes have no second preimage under `H` (`hinj`; a fixed-length hash
cannot be injective outright) and that `H` outputs 32 bytes are assumed — no idealisation of the concatenation. The trees that DO have a re-splittable node are exactly where the known finding lives. -/
theorem verifyFixed_sound_partial (H : Bytes → Bytes) (hlen : ∀ x, (H x).length = 32)
    {n : Nat} (hn : 0 < n) {t : Trie} {S : KMap} (h : t.Rep n S) (hs : S.HasSentinels n)
    (hinj : ∀ g a b, Sub t (node g a b) → ∀ x,
      H (encodeKey a.key ++ a.value (h4 H) ++ (encodeKey b.key ++ b.value (h4 H))) = H x →
      encodeKey a.key ++ a.value (h4 H) ++ (encodeKey b.key ++ b.value (h4 H)) = x)
    (hno : NoResplittableNode n (h4 H) t)
    (userKey value : Bytes) (membership : Bool) (proof : List PNode)
    (hacc : verifyFixed true H (h4 H) n userKey value membership (t.value (h4 H)) proof = .accept) :
    if membership then S (keyOfBytes n (H userKey)) = some (H value) else S (keyOfBytes n (H userKey)) = none := by
  have hU : ParseUnique (h4 H) (TupleOk n) t := by
    intro g a b hsub x y z w hok he
    exact hno g a b hsub x y z w hok (hinj g a b hsub _ he)
  refine verifyFixed_sound_gen (HvOk := fun v => v.length = 32 ∨ v.length = 20) true H (h4 H) hn h hs hU
    (fun _ _ _ _ => Or.inl (hlen _)) userKey value membership proof ?_ hacc
  intro p _ hkey hval
  have hv := valueLenOk_length (hval rfl)
  refine ⟨hv, fun c h' hc hcl hh => ?_⟩
  have hck : validNodeKey n (encodeKey c) = true := validNodeKey_encodeKey hc hcl
  exact ⟨⟨hkey, hck, hv, hh⟩, ⟨hck, hkey, hh, hv⟩⟩

theorem cut4 {x y z w s : Bytes} (h : s = x ++ y ++ (z ++ w)) :
    x = s.take x.length ∧ y = (s.drop x.length).take y.length ∧
    z = (s.drop (x.length + y.length)).take z.length ∧ w = s.drop (x.length + y.length + z.length) := by
  subst h
  refine ⟨by simp, by simp, ?_, ?_⟩
  · rw [← List.drop_drop]; simp
  · rw [← List.drop_drop, ← List.drop_drop]; simp

theorem validNodeKey_length {n : Nat} {b : Bytes} (h : validNodeKey n b = true) : 2 ≤ b.length := by
  match b, h with
  | [], h => simp [validNodeKey] at h
  | [_], h => simp [validNodeKey] at h
  | _ :: _ :: _, _ => simp

theorem sub_empty {n : Nat} {t' : Trie} (h : Sub (empty n) t') :
    t' = empty n ∨ t' = .leaf (minKey n) minVal ∨ t' = .leaf (maxKey n) maxVal := by
  induction h with
  | refl => exact Or.inl rfl
  | left _ ih =>
    rcases ih with e | e | e
    · simp only [empty, Trie.node.injEq] at e; exact Or.inr (Or.inl e.2.1)
    · cases e
    · cases e
  | right _ ih =>
    rcases ih with e | e | e
    · simp only [empty, Trie.node.injEq] at e; exact Or.inr (Or.inr e.2.2)
    · cases e
    · cases e

end Canopy.Smt
