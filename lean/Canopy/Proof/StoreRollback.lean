import Canopy.Proof.StoreHist
/-! `Store.Rollback` preserves the representation relation (C10): the entries above the target are
deleted and the latest-state partition is patched, per affected key, from the historical view. -/
namespace Canopy.Store
open Canopy

theorem lkey_not_in_hss_range (k : Bytes) (w : Nat) : blt (mkKey (lssPrefix ++ k) w) (prefixEnd hssPrefix) = false := by
  rw [lssPrefix_eq, hssPrefix_eq]
  simp [mkKey, prefixEnd, blt]

theorem hkey_in_hss_range {k : Bytes} (hk : k.length ≤ 245) (w : Nat) :
    ble hssPrefix (mkKey (hssPrefix ++ k) w) = true ∧ blt (mkKey (hssPrefix ++ k) w) (prefixEnd hssPrefix) = true := by
  constructor
  · exact ble_of_prefix ⟨k ++ invVer w, by simp [mkKey]⟩
  · have : mkKey (hssPrefix ++ k) w = hssPrefix ++ (k ++ invVer w) := by simp [mkKey]
    rw [this]
    exact blt_prefixEnd (by simp [invVer_length]; omega)

/-- the entries `pruneVersionWindow` deletes -/
def hitOf (db : DB) (lo hi : Nat) : List Entry :=
  (bound db hssPrefix (prefixEnd hssPrefix)).filter fun e => decide (lo ≤ versionOf e.1) && decide (versionOf e.1 ≤ hi)

theorem pruneWindow_eq (db : DB) (lo hi : Nat) :
    pruneWindow db lo hi = (((hitOf db lo hi).map (·.1)).map BatchOp.del,
      ((hitOf db lo hi).filterMap fun e => match userKeyOf? e.1 with
        | some uk => if hasPrefix hssPrefix uk then some (uk.drop hssPrefix.length) else none
        | none => none).eraseDups) := by
  unfold pruneWindow hitOf
  simp only [List.map_map]
  rfl

theorem mem_hitOf {K : Bytes → Prop} (hK : WFKeys K) {db : DB} {m : VMap} {ver : Nat} (h : Rep K db m ver)
    (lo hi : Nat) (e : Entry) :
    e ∈ hitOf db lo hi ↔ e ∈ db ∧ ∃ k w, K k ∧ w ≤ maxVer ∧ e.1 = mkKey (hssPrefix ++ k) w ∧ lo ≤ w ∧ w ≤ hi := by
  unfold hitOf bound
  simp only [List.mem_filter, Bool.and_eq_true, decide_eq_true_eq]
  constructor
  · rintro ⟨⟨he, _, hlt⟩, hlo, hhi⟩
    obtain ⟨k, w, hk, hw, hor⟩ := h.keys e he
    rcases hor with hor | hor
    · rw [hor, versionOf_mkKey _ hw] at hlo hhi
      exact ⟨he, k, w, hk, hw, hor, hlo, hhi⟩
    · rw [hor, lkey_not_in_hss_range] at hlt; cases hlt
  · rintro ⟨he, k, w, hk, hw, hek, hlo, hhi⟩
    have := hkey_in_hss_range (hK.ok k hk).2.1 w
    rw [hek, versionOf_mkKey _ hw]
    exact ⟨⟨he, this.1, this.2⟩, hlo, hhi⟩

/-- the operation `Rollback` issues for an affected state key -/
def patchOp (db : DB) (target : Nat) (sk : Bytes) : BatchOp :=
  match (VS.mk db target).getRaw (hssPrefix ++ sk) with
  | some (t, v) =>
    if t = deadTomb then BatchOp.del (mkKey (lssPrefix ++ sk) maxVer)
    else BatchOp.put (mkKey (lssPrefix ++ sk) maxVer) (rawAlive v)
  | none => BatchOp.del (mkKey (lssPrefix ++ sk) maxVer)

theorem rollbackPatch_eq (db : DB) (target : Nat) (keys : List Bytes) :
    rollbackPatch db target keys = keys.map (patchOp db target) := rfl

theorem patchOp_key (db : DB) (t : Nat) (sk : Bytes) : opKey (patchOp db t sk) = mkKey (lssPrefix ++ sk) maxVer := by
  unfold patchOp
  cases (VS.mk db t).getRaw (hssPrefix ++ sk) with
  | none => rfl
  | some tv =>
    obtain ⟨tb, v⟩ := tv
    by_cases h : tb = deadTomb <;> simp [h, opKey]

theorem patchOp_res (db : DB) (t : Nat) (sk : Bytes) :
    opRes (patchOp db t sk) = ((VS.mk db t).get (hssPrefix ++ sk)).map rawAlive := by
  rw [VS.get_eq_bind]
  unfold patchOp
  cases (VS.mk db t).getRaw (hssPrefix ++ sk) with
  | none => rfl
  | some tv =>
    obtain ⟨tb, v⟩ := tv
    by_cases h : tb = deadTomb <;> simp [h, opRes]

/-- no write to `k` in the versions `(t, ver]`: the view at `ver` is the view at `t` -/
theorem readAt_of_no_later {m : VMap} (hu : Uniq m) {ver t : Nat} (hb : VersBound m ver) (ht : t ≤ ver) (k : Bytes)
    (hno : ∀ w y, (k, w, y) ∈ m → w ≤ t) : readAt m ver k = readAt m t k := by
  apply Option.ext
  intro x
  rw [readAt_iff hu, readAt_iff hu]
  constructor
  · rintro ⟨w, hm, _, hmax⟩
    exact ⟨w, hm, hno w _ hm, fun w' y h' _ => hmax w' y h' (by have := (hb _ h').2; simpa using this)⟩
  · rintro ⟨w, hm, hw, hmax⟩
    exact ⟨w, hm, by omega, fun w' y h' _ => hmax w' y h' (hno w' y h')⟩

/-- **`Rollback(t)`** preserves the representation, with the versioned map cut back to `t` -/
theorem Rep.rollback {K : Bytes → Prop} (hK : WFKeys K) {db : DB} {m : VMap} {ver : Nat} (h : Rep K db m ver)
    {t : Nat} (ht : t < ver) :
    Rep K (applyBatch db ((pruneWindow db (t + 1) ver).1 ++ rollbackPatch db t (pruneWindow db (t + 1) ver).2))
      (m.rollback t) t := by
  rw [pruneWindow_eq]
  simp only
  rw [rollbackPatch_eq]
  have hvm : ∀ {k w y}, (k, w, y) ∈ m → w ≤ maxVer := fun hm => by
    have := (h.vb _ hm).2; have := h.ver_lt; simp at *; omega
  have hu' : Uniq (m.rollback t) := fun k w y y' h1 h2 => h.uniq k w y y' (mem_rollback.mp h1).1 (mem_rollback.mp h2).1
  -- the affected state keys
  have hkeys : ∀ sk, sk ∈ ((hitOf db (t + 1) ver).filterMap fun e => match userKeyOf? e.1 with
        | some uk => if hasPrefix hssPrefix uk then some (uk.drop hssPrefix.length) else none
        | none => none).eraseDups ↔ ∃ w y, (sk, w, y) ∈ m ∧ t < w := by
    intro sk
    rw [List.mem_eraseDups, List.mem_filterMap]
    constructor
    · rintro ⟨e, he, heq⟩
      obtain ⟨hedb, k, w, hk, hw, hek, hlo, _⟩ := (mem_hitOf hK h _ _ e).mp he
      rw [hek, userKeyOf_mkKey _ (by rw [hssPrefix_eq]; simp)] at heq
      simp only [hasPrefix_iff.mpr (List.prefix_append _ _), if_true, Option.some.injEq, List.drop_left] at heq
      subst heq
      have hget : smGet db (mkKey (hssPrefix ++ k) w) = some e.2 :=
        (smGet_eq_some_iff h.sorted _ _).mpr (by rw [← hek]; exact hedb)
      obtain ⟨y, hy, _⟩ := (h.hss k w _ hw).mp hget
      exact ⟨w, y, hy, by omega⟩
    · rintro ⟨w, y, hy, hw⟩
      have hmem : (mkKey (hssPrefix ++ sk) w, enc y) ∈ db :=
        (smGet_eq_some_iff h.sorted _ _).mp ((h.hss sk w _ (hvm hy)).mpr ⟨y, hy, rfl⟩)
      refine ⟨_, (mem_hitOf hK h _ _ _).mpr ⟨hmem, sk, w, h.mkeys _ hy, hvm hy, rfl, by omega, by
        have := (h.vb _ hy).2; simpa using this⟩, ?_⟩
      simp only
      rw [userKeyOf_mkKey _ (by rw [hssPrefix_eq]; simp)]
      simp only [hasPrefix_iff.mpr (List.prefix_append _ _), if_true, List.drop_left]
  generalize hkl : ((hitOf db (t + 1) ver).filterMap fun e => match userKeyOf? e.1 with
        | some uk => if hasPrefix hssPrefix uk then some (uk.drop hssPrefix.length) else none
        | none => none).eraseDups = keys at hkeys ⊢
  have hFL : ∀ a b, mkKey (lssPrefix ++ a) maxVer = mkKey (lssPrefix ++ b) maxVer → a = b :=
    fun a b e => (lkey_inj (Nat.le_refl _) (Nat.le_refl _) e).1
  -- deleted historical keys
  have hdel : ∀ key, key ∈ (hitOf db (t + 1) ver).map (·.1) ↔
      ∃ raw, (key, raw) ∈ db ∧ ∃ k w, K k ∧ w ≤ maxVer ∧ key = mkKey (hssPrefix ++ k) w ∧ t + 1 ≤ w ∧ w ≤ ver := by
    intro key
    rw [List.mem_map]
    constructor
    · rintro ⟨e, he, rfl⟩
      obtain ⟨hedb, hrest⟩ := (mem_hitOf hK h _ _ e).mp he
      exact ⟨e.2, hedb, hrest⟩
    · rintro ⟨raw, hdb, hrest⟩
      exact ⟨(key, raw), (mem_hitOf hK h _ _ _).mpr ⟨hdb, hrest⟩, rfl⟩
  have hget_h : ∀ k x, K k → ((VS.mk db t).get (hssPrefix ++ k) = some x ↔ readAt m t k = some x) := by
    intro k x hk
    rw [VS.get_sees db (h.wfl hK) t (by have := h.ver_lt; omega) _ (h.compatK hK hk).1, h.sees_hss]
  refine ⟨sorted_applyBatch h.sorted _, ?_, ?_, ?_, hu', ?_, ?_, by have := h.ver_lt; omega⟩
  · -- key shapes
    intro e he
    rcases mem_applyBatch _ he with he | he
    · exact h.keys e he
    · rcases List.mem_append.mp he with he | he
      · obtain ⟨_, _, heq⟩ := List.mem_map.mp he; cases heq
      · obtain ⟨sk, hsk, heq⟩ := List.mem_map.mp he
        obtain ⟨w, y, hy, _⟩ := (hkeys sk).mp hsk
        have hkk := congrArg opKey heq
        rw [patchOp_key] at hkk
        exact ⟨sk, maxVer, h.mkeys _ hy, Nat.le_refl _, Or.inr hkk.symm⟩
  · -- historical state
    intro k w raw hw
    rw [smGet_applyBatch h.sorted, batchLookup_append]
    rw [batchLookup_map_none keys (patchOp db t) (mkKey (hssPrefix ++ k) w)
      (fun a _ => by rw [patchOp_key]; exact fun e => hkey_ne_lkey _ _ _ _ e.symm)]
    simp only
    have := batchLookup_map_inj ((hitOf db (t + 1) ver).map (·.1)) BatchOp.del id (fun _ _ e => e) (fun _ => rfl)
      (mkKey (hssPrefix ++ k) w)
    simp only [id] at this
    rw [this]
    by_cases hin : mkKey (hssPrefix ++ k) w ∈ (hitOf db (t + 1) ver).map (·.1)
    · rw [if_pos hin]
      simp only [opRes]
      obtain ⟨raw0, hdb, k', w', _, hw', hek, hlo, _⟩ := (hdel _).mp hin
      obtain ⟨rfl, rfl⟩ := hkey_inj hw hw' hek
      constructor
      · intro e; cases e
      · rintro ⟨y, hy, _⟩
        have := (mem_rollback.mp hy).2; simp at this; omega
    · rw [if_neg hin]
      simp only
      rw [h.hss k w raw hw]
      constructor
      · rintro ⟨y, hy, e⟩
        refine ⟨y, mem_rollback.mpr ⟨hy, ?_⟩, e⟩
        simp only
        by_cases hwt : w ≤ t
        · exact hwt
        · exfalso
          apply hin
          refine (hdel _).mpr ⟨enc y, (smGet_eq_some_iff h.sorted _ _).mp ((h.hss k w _ hw).mpr ⟨y, hy, rfl⟩),
            k, w, h.mkeys _ hy, hw, rfl, by omega, ?_⟩
          have := (h.vb _ hy).2; simpa using this
      · rintro ⟨y, hy, e⟩; exact ⟨y, (mem_rollback.mp hy).1, e⟩
  · -- latest state
    intro k w raw hw
    rw [smGet_applyBatch h.sorted, batchLookup_append]
    have hread : readAt (m.rollback t) t k = readAt m t k := readAt_rollback h.uniq (Nat.le_refl _) k
    rw [hread]
    by_cases hwm : w = maxVer
    · subst hwm
      rw [batchLookup_map_inj keys (patchOp db t) (fun a => mkKey (lssPrefix ++ a) maxVer) hFL (patchOp_key db t) k]
      by_cases hin : k ∈ keys
      · rw [if_pos hin]
        have hkK : K k := by
          obtain ⟨w', y', hy', _⟩ := (hkeys k).mp hin
          exact h.mkeys _ hy'
        simp only [patchOp_res, true_and]
        cases hg : (VS.mk db t).get (hssPrefix ++ k) with
        | none =>
          have : readAt m t k = none := by
            cases hr : readAt m t k with
            | none => rfl
            | some x => rw [(hget_h k x hkK).mpr hr] at hg; cases hg
          rw [this]; simp
        | some x =>
          rw [(hget_h k x hkK).mp hg]
          simp only [Option.map_some, Option.some.injEq]
          constructor
          · intro e; exact ⟨x, rfl, e.symm⟩
          · rintro ⟨x', hx', e⟩; rw [e, ← hx']
      · rw [if_neg hin]
        simp only
        rw [batchLookup_map_none _ BatchOp.del (mkKey (lssPrefix ++ k) maxVer)
          (fun a ha => by
            obtain ⟨_, _, k', w', _, _, hek, _⟩ := (hdel a).mp ha
            rw [hek]; exact hkey_ne_lkey _ _ _ _)]
        simp only
        rw [h.lss k maxVer raw hw]
        have : readAt m ver k = readAt m t k := by
          apply readAt_of_no_later h.uniq h.vb (by omega) k
          intro w' y hy
          by_cases hwt : w' ≤ t
          · exact hwt
          · exact absurd ((hkeys k).mpr ⟨w', y, hy, by omega⟩) hin
        rw [this]
        simp
    · rw [batchLookup_map_none keys (patchOp db t) (mkKey (lssPrefix ++ k) w)
        (fun a _ => by rw [patchOp_key]; exact fun e => hwm (lkey_inj (Nat.le_refl _) hw e).2.symm)]
      simp only
      rw [batchLookup_map_none _ BatchOp.del (mkKey (lssPrefix ++ k) w)
        (fun a ha => by
          obtain ⟨_, _, k', w', _, _, hek, _⟩ := (hdel a).mp ha
          rw [hek]; exact hkey_ne_lkey _ _ _ _)]
      simp only
      rw [h.lss k w raw hw]
      constructor
      · rintro ⟨e, _⟩; exact absurd e hwm
      · rintro ⟨e, _⟩; exact absurd e hwm
  · intro e he
    have := mem_rollback.mp he
    exact ⟨(h.vb _ this.1).1, this.2⟩
  · intro e he
    exact h.mkeys _ (mem_rollback.mp he).1

end Canopy.Store
