import Canopy.Model.BftExec
/-! Small facts about the op-line encodings of M-bft-exec. -/
namespace Canopy.Bft

/-- the block id of an op line is determined by its two hash ids -/
theorem blk_ext (a b : Nat) (h1 : blkHashOf a = blkHashOf b) (h2 : resHashOf a = resHashOf b) : a = b := by
  unfold blkHashOf at h1; unfold resHashOf at h2; omega

theorem blk_enc (bh rh : Nat) (h : rh < 65536) : blkHashOf (encBlk bh rh) = bh ∧ resHashOf (encBlk bh rh) = rh := by
  unfold blkHashOf resHashOf encBlk; omega

end Canopy.Bft
