import Canopy.Model.Replay
import Canopy.Proof.ProtoTx
/-! Helper lemmas for C06: what acceptance by `checkTx` entails, stage by stage. Core Lean only. -/
namespace Canopy.Replay
open Canopy Canopy.Proto

/-- everything `checkTx e c true raw = .ok _` establishes -/
structure AcceptedFacts (e : Env) (c : Chain) (raw : Bytes) (t : TxContent) (a : AnyC) (g : SigC)
    (s : SendC) (sender : Bytes) : Prop where
  dec : decodeTx raw = some t
  canonical : c.strictTx = true → raw = canon t
  basic : checkBasic t = .ok (a, g)
  replay : checkReplay e c true raw t g = .ok ()
  legacy : ¬ (t.memo = rlpMemo ∧ c.legacyRlpDisabled = true)
  send : checkSend a = .ok s
  fee : c.minFee ≤ t.fee
  sig : checkSignature e c.strictKey c.strictPad t g s.fromAddr = .ok sender
  nonce : t.memo = rlpV2Memo → (c.account sender).nonce ≤ t.nonce ∧ t.nonce ≠ maxUint64

theorem accepted_inv (e : Env) (c : Chain) (raw : Bytes) (h : accepted e c raw = true) :
    ∃ t a g s sender, AcceptedFacts e c raw t a g s sender := by
  unfold accepted checkTx at h
  split at h
  · next k hk =>
    clear h
    split at hk
    · simp at hk
    · next t ht =>
      split at hk
      · simp at hk
      · next hcan =>
        split at hk
        · simp at hk
        · next a g hb =>
          split at hk
          · simp at hk
          · next hr =>
            split at hk
            · simp at hk
            · next hleg =>
              split at hk
              · simp at hk
              · next s hs =>
                split at hk
                · simp at hk
                · next hfee =>
                  split at hk
                  · simp at hk
                  · next sender hsig =>
                    split at hk
                    · simp at hk
                    · next hn =>
                      refine ⟨t, a, g, s, sender, ⟨ht, ?_, hb, hr, ?_, hs, by omega, hsig, ?_⟩⟩
                      · intro hst
                        simp [hst] at hcan
                        exact hcan
                      · intro ⟨h1, h2⟩
                        simp [h1, h2] at hleg
                      · intro hm
                        simp [hm] at hn
                        omega
  · simp at h

theorem checkBasic_ok {t : TxContent} {a : AnyC} {g : SigC} (h : checkBasic t = .ok (a, g)) :
    t.msg = some a ∧ t.signature = some g ∧ t.createdHeight ≠ 0 := by
  unfold checkBasic at h
  split at h
  · simp at h
  · next a' ha =>
    split at h
    · simp at h
    · split at h
      · simp at h
      · next g' hg =>
        split at h
        · simp at h
        · split at h
          · simp at h
          · next hch =>
            split at h
            · simp at h
            · split at h
              · simp at h
              · split at h
                · simp at h
                · split at h
                  · simp at h
                  · simp only [Except.ok.injEq, Prod.mk.injEq] at h
                    obtain ⟨rfl, rfl⟩ := h
                    refine ⟨ha, hg, ?_⟩
                    simpa using hch

/-- an indexed hash is refused from height 2 on -/
theorem checkReplay_dup (e : Env) (c : Chain) (raw : Bytes) (t : TxContent) (g : SigC)
    (hh : 2 ≤ c.height) (hi : txId raw ∈ c.index) : checkReplay e c true raw t g ≠ .ok () := by
  unfold checkReplay
  have hc : c.index.contains (txId raw) = true := by simpa using hi
  have h2 : ¬ c.height < 2 := by omega
  simp only [hc, h2]
  split
  · simp
  · split
    · simp
    · simp

theorem checkReplay_network (e : Env) (c : Chain) (w : Bool) (raw : Bytes) (t : TxContent) (g : SigC)
    (h : checkReplay e c w raw t g = .ok ()) : c.networkId = t.networkId ∧ c.chainId = t.chainId := by
  unfold checkReplay at h
  split at h
  · simp at h
  · next h1 =>
    split at h
    · simp at h
    · next h2 => exact ⟨by simpa using h1, by simpa using h2⟩

theorem checkReplay_window (e : Env) (c : Chain) (w : Bool) (raw : Bytes) (t : TxContent) (g : SigC)
    (h : checkReplay e c w raw t g = .ok ()) (hh : 2 ≤ c.height) (hm : t.memo ≠ rlpV2Memo) :
    inWindow c.height t.createdHeight = true := by
  unfold checkReplay at h
  split at h
  · simp at h
  · split at h
    · simp at h
    · split at h
      · omega
      · simp only at h
        split at h
        · simp at h
        · split at h
          · next hv => exact absurd (by simpa using hv) hm
          · split at h
            · next hw => exact hw
            · simp at h

/-- the acceptance window in arithmetic form -/
theorem inWindow_iff (h c : Nat) :
    inWindow h c = true ↔ c ≤ h + blockAcceptanceRange ∧ h ≤ c + blockAcceptanceRange := by
  unfold inWindow
  simp only [blockAcceptanceRange]
  by_cases hh : h > 4320 <;> simp [hh] <;> omega

/-- what a successful signature check establishes for a transaction that is not RLP-wrapped -/
theorem checkSignature_inv (e : Env) (strict pad : Bool) (t : TxContent) (g : SigC) (auth sender : Bytes)
    (hm : isRlpMemo t.memo = false) (h : checkSignature e strict pad t g auth = .ok sender) :
    ∃ sch k, pkDecode g.publicKey = some (sch, k) ∧ (strict = true → k = g.publicKey) ∧
      e.verifies k (signBytes t) g.signature = true ∧ e.address k = some auth ∧ sender = auth ∧
      (pad = true → sch = .multi → multiPadOk g.publicKey = true) := by
  have hm1 : (t.memo == rlpV2Memo) = false := by
    simp only [isRlpMemo, Bool.or_eq_false_iff] at hm; exact hm.2
  have hm2 : (t.memo == rlpMemo) = false := by
    simp only [isRlpMemo, Bool.or_eq_false_iff] at hm; exact hm.1
  unfold checkSignature at h
  split at h
  · simp at h
  · next sch k hk =>
    split at h
    · simp at h
    · split at h
      · simp at h
      · next hpad =>
        split at h
        · simp at h
        · next hst =>
          simp only [hm1, hm2, Bool.false_and, Bool.or_self] at h
          simp only [Bool.false_eq_true, if_false] at h
          by_cases hver : e.verifies k (signBytes t) g.signature = true
          · simp only [hver, if_true] at h
            cases ha : e.address k with
            | none => simp [ha] at h
            | some a =>
              simp only [ha] at h
              by_cases haa : (a == auth) = true
              · simp only [haa, if_true, Except.ok.injEq] at h
                have : a = auth := by simpa using haa
                subst this
                refine ⟨sch, k, hk, ?_, hver, ha, h.symm, ?_⟩
                · intro hs
                  simp [hs] at hst
                  exact hst
                · intro hp hsch
                  subst hp hsch
                  simpa using hpad
              · simp [haa] at h
          · simp [hver] at h

/-- symbolic-cryptography assumptions under which "same signed content" pins the signature down:
one signature per (key, message) — deterministic schemes and a signer who signs a payload once —
and one key per address (collision-free address derivation). -/
structure SigUnique (e : Env) : Prop where
  sig_unique : ∀ k m s₁ s₂, e.verifies k m s₁ = true → e.verifies k m s₂ = true → s₁ = s₂
  addr_inj : ∀ k₁ k₂ a, e.address k₁ = some a → e.address k₂ = some a → k₁ = k₂

theorem unsigned_ext (t₁ t₂ : TxContent) (h : t₁.unsigned = t₂.unsigned) (hs : t₁.signature = t₂.signature) :
    t₁ = t₂ := by
  cases t₁; cases t₂
  simp only [TxContent.unsigned, TxContent.mk.injEq] at h
  simp only at hs
  simp_all

theorem signBytes_of_unsigned (t₁ t₂ : TxContent) (h : t₁.unsigned = t₂.unsigned) : signBytes t₁ = signBytes t₂ := by
  simp [signBytes, h]

theorem unsigned_fields (t₁ t₂ : TxContent) (h : t₁.unsigned = t₂.unsigned) :
    t₁.msg = t₂.msg ∧ t₁.memo = t₂.memo := by
  cases t₁; cases t₂
  simp only [TxContent.unsigned, TxContent.mk.injEq] at h
  simp_all

/-! ## accounts -/

theorem account_addr (c : Chain) (a : Bytes) : (c.account a).addr = a := by
  unfold Chain.account
  cases h : c.accounts.find? (·.addr == a) with
  | none => rfl
  | some x =>
    have := List.find?_some h
    simpa using this

theorem find_map_replace (l : List Account) (acc : Account) (h : ∃ x, x ∈ l ∧ (x.addr == acc.addr) = true) :
    (l.map fun x => if (x.addr == acc.addr) = true then acc else x).find? (fun x => x.addr == acc.addr) = some acc := by
  induction l with
  | nil => obtain ⟨x, hx, _⟩ := h; cases hx
  | cons y ys ih =>
    by_cases hy : (y.addr == acc.addr) = true
    · simp only [List.map_cons, hy, if_true, List.find?_cons, beq_self_eq_true]
    · have hy' : (y.addr == acc.addr) = false := by simpa using hy
      simp only [List.map_cons, hy', Bool.false_eq_true, if_false, List.find?_cons]
      obtain ⟨x, hx, hxa⟩ := h
      rcases List.mem_cons.mp hx with rfl | hx'
      · exact absurd hxa hy
      · exact ih ⟨x, hx', hxa⟩

theorem account_setAccount_same (c : Chain) (acc : Account) : (c.setAccount acc).account acc.addr = acc := by
  unfold Chain.setAccount Chain.account
  split
  · next h =>
    simp only [List.any_eq_true] at h
    simp only [find_map_replace c.accounts acc h, Option.getD_some]
  · next h =>
    have hn : c.accounts.find? (·.addr == acc.addr) = none := by
      simp only [List.find?_eq_none]
      intro x hx hxa
      exact h (List.any_eq_true.mpr ⟨x, hx, hxa⟩)
    simp only [List.find?_append, hn, List.find?_cons, beq_self_eq_true, Option.none_or,
      Option.getD_some]

theorem setNonce_account (c : Chain) (a : Bytes) (n : Nat) :
    ((c.setAccount { c.account a with nonce := n }).account a).nonce = n := by
  have h := account_setAccount_same c { c.account a with nonce := n }
  have ha : ({ c.account a with nonce := n } : Account).addr = a := account_addr c a
  rw [ha] at h
  rw [h]

theorem find_map_other (l : List Account) (acc : Account) (a : Bytes) (hb : (acc.addr == a) = false) :
    (l.map fun x => if (x.addr == acc.addr) = true then acc else x).find? (fun x => x.addr == a) =
      l.find? (fun x => x.addr == a) := by
  induction l with
  | nil => rfl
  | cons y ys ih =>
    by_cases hy : (y.addr == acc.addr) = true
    · have hya : (y.addr == a) = false := by
        have : y.addr = acc.addr := by simpa using hy
        rw [this]; exact hb
      rw [List.map_cons, if_pos hy, List.find?_cons, List.find?_cons, hb, hya]
      exact ih
    · rw [List.map_cons, if_neg hy, List.find?_cons, List.find?_cons, ih]

theorem account_setAccount_other (c : Chain) (acc : Account) (a : Bytes) (h : acc.addr ≠ a) :
    (c.setAccount acc).account a = c.account a := by
  have hb : (acc.addr == a) = false := by simpa using h
  unfold Chain.setAccount Chain.account
  split
  · show ((c.accounts.map fun x => if (x.addr == acc.addr) = true then acc else x).find? (fun x => x.addr == a)).getD _ = _
    rw [find_map_other c.accounts acc a hb]
  · show ((c.accounts ++ [acc]).find? (fun x => x.addr == a)).getD _ = _
    rw [List.find?_append, List.find?_cons, hb, List.find?_nil, Option.or_none]

/-- rewriting the balance of one account leaves every nonce as it was -/
theorem setBalance_nonce (c : Chain) (b : Bytes) (v : Nat) (a : Bytes) :
    ((c.setAccount { c.account b with balance := v }).account a).nonce = (c.account a).nonce := by
  by_cases h : b = a
  · subst h
    have hs := account_setAccount_same c { c.account b with balance := v }
    have ha : ({ c.account b with balance := v } : Account).addr = b := account_addr c b
    rw [ha] at hs
    rw [hs]
  · rw [account_setAccount_other c _ a (by rw [show ({ c.account b with balance := v } : Account).addr = b from account_addr c b]; exact h)]

theorem noteVesting_account (c : Chain) (s : SendC) (a : Bytes) : (c.noteVesting s).account a = c.account a := by
  unfold Chain.noteVesting
  split <;> rfl

/-- **the nonce floor is written by one thing only**: after a successful execution every account's
nonce is what it was, except the sender's of an RLP.V2 transaction, which becomes that transaction's
nonce + 1. Receiving a send — plain or with a vesting schedule — never changes a nonce. -/
theorem transfer_nonce (c c' : Chain) (k : Checked) (h : applyTransfer c k = .ok c') (a : Bytes) :
    (c'.account a).nonce =
      if k.tx.memo = rlpV2Memo ∧ k.sender = a then k.tx.nonce + 1 else (c.account a).nonce := by
  unfold applyTransfer at h
  by_cases h1 : (c.account k.sender).balance < k.tx.fee
  · simp [h1] at h
  · simp only [h1, if_false] at h
    generalize hc1 : c.setAccount { c.account k.sender with balance := (c.account k.sender).balance - k.tx.fee } = c1 at h
    by_cases h2 : (c1.account k.send.fromAddr).balance < k.send.amount
    · simp [h2] at h
    · simp only [h2, if_false] at h
      generalize hc2 : c1.setAccount { c1.account k.send.fromAddr with balance := (c1.account k.send.fromAddr).balance - k.send.amount } = c2 at h
      generalize hc3 : c2.setAccount { c2.account k.send.toAddr with balance := (c2.account k.send.toAddr).balance + k.send.amount } = c3 at h
      have n3 : (c3.account a).nonce = (c.account a).nonce := by
        rw [← hc3, setBalance_nonce, ← hc2, setBalance_nonce, ← hc1, setBalance_nonce]
      by_cases hm : k.tx.memo = rlpV2Memo
      · have hmb : (k.tx.memo == rlpV2Memo) = true := by simp [hm]
        simp only [hmb, if_true, Except.ok.injEq] at h
        subst h
        by_cases hs : k.sender = a
        · subst hs
          simp only [hm, true_and, if_true]
          exact setNonce_account _ _ _
        · simp only [hm, hs, and_false, if_false]
          rw [account_setAccount_other c3 _ a (by
            rw [show ({ c3.account k.sender with nonce := k.tx.nonce + 1 } : Account).addr = k.sender from account_addr c3 k.sender]
            exact hs)]
          exact n3
      · have hmb : (k.tx.memo == rlpV2Memo) = false := by simp [hm]
        simp only [hmb, Bool.false_eq_true, if_false, Except.ok.injEq] at h
        subst h
        simp only [hm, false_and, if_false]
        exact n3

/-- **the nonce floor is written by one thing only**: after a successful execution every account's
nonce is what it was, except the sender's of an RLP.V2 transaction, which becomes that transaction's
nonce + 1. Receiving a send — plain or with a vesting schedule — never changes a nonce. -/
theorem nonce_after (c c' : Chain) (k : Checked) (h : applyChecked c k = .ok c') (a : Bytes) :
    (c'.account a).nonce =
      if k.tx.memo = rlpV2Memo ∧ k.sender = a then k.tx.nonce + 1 else (c.account a).nonce := by
  unfold applyChecked at h
  split at h
  · simp at h
  · split at h
    · simp at h
    · rw [transfer_nonce _ c' k h a, noteVesting_account]

theorem nonce_bumped (c c' : Chain) (k : Checked) (hm : k.tx.memo = rlpV2Memo)
    (h : applyChecked c k = .ok c') : (c'.account k.sender).nonce = k.tx.nonce + 1 := by
  rw [nonce_after c c' k h k.sender]
  simp [hm]

/-- the floor never goes down: with the acceptance condition `floor ≤ nonce` of an RLP.V2 transaction -/
theorem nonce_monotone (c c' : Chain) (k : Checked) (h : applyChecked c k = .ok c')
    (hf : k.tx.memo = rlpV2Memo → (c.account k.sender).nonce ≤ k.tx.nonce) (a : Bytes) :
    (c.account a).nonce ≤ (c'.account a).nonce := by
  rw [nonce_after c c' k h a]
  split
  · next hc => obtain ⟨hm, rfl⟩ := hc; have := hf hm; omega
  · exact Nat.le_refl _

/-! ## the replay property, as a statement about the model -/

/-- what the signature covers: the decoded transaction without its signature -/
def signedPart (raw : Bytes) : Option TxContent := (decodeTx raw).map TxContent.unsigned

/-- `raw` was executed earlier on this chain: some earlier state of the same code accepted it, and
the present state has its hash in the transaction index -/
def Included (e : Env) (c : Chain) (raw : Bytes) : Prop :=
  txId raw ∈ c.index ∧ ∃ c₀ : Chain, accepted e c₀ raw = true ∧ c₀.strictTx = c.strictTx ∧ c₀.strictKey = c.strictKey

/-- **C06, replay clause, full strength**: once a transaction is included, no byte string carrying
the same signed content is accepted again (in any later state: the index only grows within the
acceptance window, and a later state is at height ≥ 2). -/
def NoReplay (e : Env) (c : Chain) : Prop :=
  ∀ raw₁ raw₂ : Bytes, Included e c raw₁ → 2 ≤ c.height → signedPart raw₂ = signedPart raw₁ →
    accepted e c raw₂ = false

/-- a concrete counterexample to `NoReplay` -/
structure ReplayWitness (e : Env) (c : Chain) (raw₁ raw₂ : Bytes) : Prop where
  included : Included e c raw₁
  later : 2 ≤ c.height
  differ : raw₂ ≠ raw₁
  sameSigned : signedPart raw₂ = signedPart raw₁
  acceptedAgain : accepted e c raw₂ = true

theorem ReplayWitness.refutes {e : Env} {c : Chain} {raw₁ raw₂ : Bytes} (w : ReplayWitness e c raw₁ raw₂) :
    ¬ NoReplay e c := by
  intro h
  have := h raw₁ raw₂ w.included w.later w.sameSigned
  rw [w.acceptedAgain] at this
  exact absurd this (by decide)

/-- the core of the positive direction: two accepted, non-RLP byte strings with the same signed
content whose encodings and keys are canonical are the same byte string -/
theorem same_bytes_of_same_signed (e : Env) (c₁ c₂ : Chain) (raw₁ raw₂ : Bytes) (hu : SigUnique e)
    (h₁ : accepted e c₁ raw₁ = true) (h₂ : accepted e c₂ raw₂ = true)
    (hs : signedPart raw₂ = signedPart raw₁)
    (hc₁ : ∀ t, decodeTx raw₁ = some t → raw₁ = canon t) (hc₂ : ∀ t, decodeTx raw₂ = some t → raw₂ = canon t)
    (hk₁ : ∀ t g, decodeTx raw₁ = some t → t.signature = some g → pkCanonical g.publicKey = true)
    (hk₂ : ∀ t g, decodeTx raw₂ = some t → t.signature = some g → pkCanonical g.publicKey = true)
    (hm : ∀ t, decodeTx raw₁ = some t → isRlpMemo t.memo = false) : raw₂ = raw₁ := by
  obtain ⟨t₁, a₁, g₁, s₁, snd₁, f₁⟩ := accepted_inv e c₁ raw₁ h₁
  obtain ⟨t₂, a₂, g₂, s₂, snd₂, f₂⟩ := accepted_inv e c₂ raw₂ h₂
  have hun : t₂.unsigned = t₁.unsigned := by
    simpa [signedPart, f₁.dec, f₂.dec] using hs
  obtain ⟨hmsg, hmemo⟩ := unsigned_fields t₂ t₁ hun
  obtain ⟨hm₁, hg₁, _⟩ := checkBasic_ok f₁.basic
  obtain ⟨hm₂, hg₂, _⟩ := checkBasic_ok f₂.basic
  have ha : a₂ = a₁ := by
    rw [hm₁, hm₂] at hmsg; simpa using hmsg
  subst ha
  have hsend : s₂ = s₁ := by
    have := f₁.send; rw [f₂.send] at this; simpa using this
  subst hsend
  have hrlp₁ := hm t₁ f₁.dec
  have hrlp₂ : isRlpMemo t₂.memo = false := by rw [hmemo]; exact hrlp₁
  obtain ⟨_, k₁, hd₁, _, hv₁, had₁, _, _⟩ := checkSignature_inv e _ _ t₁ g₁ _ _ hrlp₁ f₁.sig
  obtain ⟨_, k₂, hd₂, _, hv₂, had₂, _, _⟩ := checkSignature_inv e _ _ t₂ g₂ _ _ hrlp₂ f₂.sig
  have hk : k₂ = k₁ := hu.addr_inj k₂ k₁ _ had₂ had₁
  subst hk
  rw [signBytes_of_unsigned t₂ t₁ hun] at hv₂
  have hsig : g₂.signature = g₁.signature := hu.sig_unique _ _ _ _ hv₂ hv₁
  have hp₁ : g₁.publicKey = k₂ := by
    have := hk₁ t₁ g₁ f₁.dec hg₁
    simp only [pkCanonical, hd₁] at this
    exact (by simpa using this : k₂ = g₁.publicKey).symm
  have hp₂ : g₂.publicKey = k₂ := by
    have := hk₂ t₂ g₂ f₂.dec hg₂
    simp only [pkCanonical, hd₂] at this
    exact (by simpa using this : k₂ = g₂.publicKey).symm
  have hg : g₂ = g₁ := by
    cases g₁; cases g₂; simp_all
  have ht : t₂ = t₁ := unsigned_ext t₂ t₁ hun (by rw [hg₁, hg₂, hg])
  rw [hc₂ t₂ f₂.dec, hc₁ t₁ f₁.dec, ht]

end Canopy.Replay
