import Canopy.Model.Transport
/-!
Helper lemmas for C17 (framing): header/frame round trip, the chunking loop, nonce arithmetic,
the invariant of an honest direction and the invariant of a reader facing an arbitrary attacker wire.
Core Lean only.
-/
namespace Canopy.Transport
open Canopy Gen.Transport

/-! ### header, frame, chunking -/
theorem le32Decode_le32 (n : Nat) (h : n < 4294967296) (rest : Bytes) :
    le32Decode (le32 n ++ rest) = n := by
  simp only [le32, List.cons_append, List.nil_append, le32Decode, UInt8.toNat_ofNat']
  omega

theorem fitPad_length (junk : Bytes) (n : Nat) : (fitPad junk n).length = n := by
  simp [fitPad]

theorem dataMax_pos : 0 < dataMax := by decide
theorem frameSize_eq : frameSize = headerSize + dataMax := by decide
theorem headerSize_eq : headerSize = 4 := by decide
theorem dataMax_lt : dataMax < 4294967296 := by decide

theorem mkFrame_length (c junk : Bytes) (h : c.length ≤ dataMax) : (mkFrame c junk).length = frameSize := by
  simp only [mkFrame, List.length_append, fitPad_length, le32, List.length_cons, List.length_nil, frameSize_eq, headerSize_eq]
  omega

theorem parseFrame_mkFrame (c junk : Bytes) (h : c.length ≤ dataMax) : parseFrame (mkFrame c junk) = .ok c := by
  have hd := dataMax_lt
  unfold parseFrame mkFrame
  rw [List.append_assoc, le32Decode_le32 _ (by omega)]
  simp only [show ¬ c.length > dataMax from by omega, if_false]
  congr 1
  have : (le32 c.length).length = headerSize := by simp [le32, headerSize_eq]
  rw [← this, List.drop_left, List.take_left]
theorem chunks_flatten (d : Bytes) : (chunks d).flatten = d := by
  fun_induction chunks d with
  | case1 d h => simp at h; simp [h]
  | case2 d h1 h2 => simp
  | case3 d h1 h2 ih => simp [ih]

theorem chunks_bound (d : Bytes) : ∀ c ∈ chunks d, 0 < c.length ∧ c.length ≤ dataMax := by
  fun_induction chunks d with
  | case1 d h => simp
  | case2 d h1 h2 => intro c hc; simp at hc; subst hc; omega
  | case3 d h1 h2 ih =>
    intro c hc
    simp only [List.mem_cons] at hc
    rcases hc with rfl | hc
    · have := dataMax_pos
      simp only [List.length_take]; omega
    · exact ih c hc

/-- number of frames a write of `n` bytes produces -/
theorem chunks_length (d : Bytes) : (chunks d).length = (d.length + dataMax - 1) / dataMax := by
  fun_induction chunks d with
  | case1 d h =>
    have := dataMax_pos
    simp only [chunks, h, List.length_nil, Nat.zero_add]
    exact (Nat.div_eq_of_lt (by omega)).symm
  | case2 d h1 h2 =>
    have := dataMax_pos
    simp only [List.length_cons, List.length_nil]
    rw [eq_comm, Nat.div_eq_iff this]; omega
  | case3 d h1 h2 ih =>
    have := dataMax_pos
    simp only [List.length_cons, ih, List.length_drop]
    have h3 : dataMax ≤ d.length := by omega
    have : d.length + dataMax - 1 = (d.length - dataMax + dataMax - 1) + dataMax := by omega
    rw [this, Nat.add_div_right _ dataMax_pos]
/-! ### nonces -/
theorem inc_toNat (c : UInt64) (h : c.toNat < 18446744073709551615) :
    (incrementNonce c).toNat = c.toNat + 1 := by
  unfold incrementNonce
  have hne : (c == 18446744073709551615) = false := by
    rw [beq_eq_false_iff_ne]
    intro he
    rw [he] at h
    exact absurd h (by decide)
  simp only [hne, Bool.false_eq_true, if_false, UInt64.toNat_add]
  have : (1 : UInt64).toNat = 1 := rfl
  rw [this]
  omega

/-- the wrap the code comments as "should never happen": after 2^64-1 the counter restarts at 1, re-using nonce 1 -/
theorem inc_wraps : incrementNonce 18446744073709551615 = 1 ∧ incrementNonce 0 = 1 := by decide


theorem nonceAt_toNat (n0 : UInt64) (j : Nat) (h : n0.toNat + j ≤ 18446744073709551615) :
    (nonceAt n0 j).toNat = n0.toNat + j := by
  induction j generalizing n0 with
  | zero => simp [nonceAt]
  | succ j ih =>
    have h1 := inc_toNat n0 (by omega)
    rw [nonceAt, ih _ (by omega), h1]; omega

theorem nonceAt_inj (n0 : UInt64) (i j : Nat) (hi : n0.toNat + i ≤ 18446744073709551615)
    (hj : n0.toNat + j ≤ 18446744073709551615) (h : nonceAt n0 i = nonceAt n0 j) : i = j := by
  have := congrArg UInt64.toNat h
  rw [nonceAt_toNat _ _ hi, nonceAt_toNat _ _ hj] at this
  omega
/-- `ws` are honest frames of the chunks `cs`, sealed under `key` with consecutive nonces from `n`
(each with whatever padding the pool held) -/
inductive Sealed (key : Nat) : UInt64 → List Wire → List Bytes → Prop
  | nil (n : UInt64) : Sealed key n [] []
  | cons (n : UInt64) (c junk : Bytes) (ws : List Wire) (cs : List Bytes) :
      0 < c.length ∧ c.length ≤ dataMax → Sealed key (incrementNonce n) ws cs →
      Sealed key n (Wire.sealed key n (mkFrame c junk) :: ws) (c :: cs)

theorem Sealed.length_eq {key n ws cs} (h : Sealed key n ws cs) : ws.length = cs.length := by
  induction h with
  | nil => rfl
  | cons _ _ _ _ _ _ _ ih => simp [ih]

theorem sealChunks_sealed (key : Nat) (junk : Bytes) (n : UInt64) (cs : List Bytes)
    (hb : ∀ c ∈ cs, 0 < c.length ∧ c.length ≤ dataMax) :
    Sealed key n (sealChunks key junk n cs).2 cs ∧ (sealChunks key junk n cs).1 = nonceAt n cs.length := by
  induction cs generalizing n with
  | nil => exact ⟨.nil n, rfl⟩
  | cons c cs ih =>
    have := ih (incrementNonce n) (fun c hc => hb c (List.mem_cons_of_mem _ hc))
    simp only [sealChunks, List.length_cons, nonceAt]
    exact ⟨.cons n c junk _ cs (hb c (List.mem_cons_self ..)) this.1, this.2⟩

theorem nonceAt_add (n : UInt64) (i j : Nat) : nonceAt n (i + j) = nonceAt (nonceAt n i) j := by
  induction i generalizing n with
  | zero => simp [nonceAt]
  | succ i ih => rw [Nat.add_right_comm, nonceAt, nonceAt, ih]

theorem Sealed.append {key n ws cs ws2 cs2} (h : Sealed key n ws cs)
    (h2 : Sealed key (nonceAt n cs.length) ws2 cs2) : Sealed key n (ws ++ ws2) (cs ++ cs2) := by
  induction h with
  | nil n => simpa [nonceAt] using h2
  | cons n c junk ws cs hc _ ih =>
    simp only [List.cons_append]
    exact .cons n c junk _ _ hc (ih (by simpa [nonceAt] using h2))

/-- invariant of an honest direction: what was written = what was delivered ++ what the reader
holds back ++ the plaintext of the frames in flight, and the nonces line up -/
structure Inv (d : Dir) (wr del : Bytes) : Prop where
  key : d.w.key = d.r.key
  open_ : d.ch.closed = false
  flight : ∃ cs, Sealed d.r.key d.r.nonce d.ch.wire cs ∧ d.w.nonce = nonceAt d.r.nonce cs.length ∧
    wr = del ++ d.r.unread ++ cs.flatten

theorem Inv.init (key : Nat) : Inv (Dir.init key) [] [] :=
  ⟨rfl, rfl, [], .nil _, rfl, rfl⟩

theorem Inv.write {d wr del} (h : Inv d wr del) (junk data : Bytes) :
    Inv (d.write junk data).1 (wr ++ data) del := by
  obtain ⟨hk, ho, cs, hs, hn, hw⟩ := h
  have hsc := sealChunks_sealed d.w.key junk d.w.nonce (chunks data) (chunks_bound data)
  refine ⟨hk, ho, cs ++ chunks data, ?_, ?_, ?_⟩
  · simp only [Dir.write, Writer.write]
    refine hs.append ?_
    rw [← hn, ← hk]; exact hsc.1
  · simp only [Dir.write, Writer.write, List.length_append, nonceAt_add, ← hn]
    exact hsc.2
  · simp only [Dir.write, Writer.write, List.flatten_append, chunks_flatten, hw, List.append_assoc]

def resData : ReadRes → Bytes
  | .data b => b
  | _ => []

theorem Inv.read {d wr del} (h : Inv d wr del) (n : Nat) :
    Inv (d.read n).2 wr (del ++ resData (d.read n).1) ∧ ∀ e, (d.read n).1 ≠ .err e := by
  obtain ⟨hk, ho, cs, hs, hn, hw⟩ := h
  simp only [Dir.read, Reader.read]
  by_cases hu : d.r.unread = []
  · simp only [hu, ne_eq, not_true_eq_false, if_false]
    generalize hwire : d.ch.wire = wire at hs
    generalize hnon : d.r.nonce = rn at hs hn
    cases hs with
    | nil _ =>
      simp only [ho, Bool.false_eq_true, if_false]
      exact ⟨⟨hk, ho, [], by rw [hwire, hnon]; exact .nil _, by simpa [hnon] using hn, by simpa [hu, resData] using hw⟩, by simp⟩
    | cons _ c junk ws cs' hc hs' =>
      simp only [openWire, mkFrame_length c junk hc.2, and_self, if_true, parseFrame_mkFrame c junk hc.2]
      refine ⟨⟨hk, ho, cs', hs', ?_, ?_⟩, by simp⟩
      · simpa [nonceAt] using hn
      · simp only [resData, hw, hu, List.flatten_cons, List.append_nil, List.append_assoc, List.take_append_drop]
  · simp only [ne_eq, hu, not_false_eq_true, if_true]
    refine ⟨⟨hk, ho, cs, hs, hn, ?_⟩, by simp⟩
    simp only [resData, hw, List.append_assoc]
    rw [← List.append_assoc (List.take n _), List.take_append_drop]
theorem delivered_cons (r : ReadRes) (rs : List ReadRes) : delivered (r :: rs) = resData r ++ delivered rs := by
  cases r <;> simp [delivered, resData]

theorem run_inv {d wr del} (h : Inv d wr del) (ops : List Op) :
    Inv (run d ops).2 (wr ++ written ops) (del ++ delivered (run d ops).1) ∧
      ∀ r ∈ (run d ops).1, ∀ e, r ≠ .err e := by
  induction ops generalizing d wr del with
  | nil => simpa [run, written, delivered] using h
  | cons op ops ih =>
    cases op with
    | write junk data =>
      have := ih (h.write junk data)
      simpa [run, written, List.append_assoc] using this
    | read n =>
      have h1 := h.read n
      have := ih h1.1
      simp only [run, written, delivered_cons, List.mem_cons, forall_eq_or_imp]
      refine ⟨by simpa [List.append_assoc] using this.1, h1.2, this.2⟩

theorem Inv.prefix {d wr del} (h : Inv d wr del) : del <+: wr := by
  obtain ⟨_, _, cs, _, _, hw⟩ := h
  exact ⟨d.r.unread ++ cs.flatten, by rw [hw, List.append_assoc]⟩

theorem Inv.complete {d wr del} (h : Inv d wr del) (hw : d.ch.wire = []) (hu : d.r.unread = []) : del = wr := by
  obtain ⟨_, _, cs, hs, _, hwr⟩ := h
  have := hs.length_eq
  rw [hw] at this
  have : cs = [] := List.eq_nil_of_length_eq_zero this.symm
  simp [hwr, hu, this]
/-- what an intermediary WITHOUT the key can put on the wire, given the honest frames `H` ever sent on
this direction: honest frames in any arrangement (reorder, duplicate, replay, drop), non-ciphertexts
(bit flips, fabricated bytes), a truncated frame, or frames sealed under a different key (other
direction, other session) -/
def AttackerItem (key : Nat) (H : List Wire) (w : Wire) : Prop :=
  w ∈ H ∨ (∃ id, w = .garbage id) ∨ w = .cut ∨ (∃ k n p, w = .sealed k n p ∧ k ≠ key)

/-- no nonce is used twice among the frames sent and the next one to be sent -/
def Fresh (n0 : UInt64) (len : Nat) : Prop :=
  ∀ i j, i ≤ len → j ≤ len → nonceAt n0 i = nonceAt n0 j → i = j

theorem fresh_of_bound (n0 : UInt64) (len : Nat) (h : n0.toNat + len ≤ 18446744073709551615) : Fresh n0 len :=
  fun i j hi hj he => nonceAt_inj n0 i j (by omega) (by omega) he

theorem Sealed.get {key n0 H cs} (h : Sealed key n0 H cs) (i : Nat) (hi : i < cs.length) :
    ∃ junk, H[i]? = some (.sealed key (nonceAt n0 i) (mkFrame cs[i] junk)) ∧
      (0 < cs[i].length ∧ cs[i].length ≤ dataMax) := by
  induction h generalizing i with
  | nil => simp at hi
  | cons n c junk ws cs hc _ ih =>
    cases i with
    | zero => exact ⟨junk, by simp [nonceAt], by simpa using hc⟩
    | succ i =>
      obtain ⟨junk', h1, h2⟩ := ih i (by simpa using hi)
      exact ⟨junk', by simpa [nonceAt] using h1, by simpa using h2⟩

theorem Sealed.mem {key n0 H cs} (h : Sealed key n0 H cs) (w : Wire) (hw : w ∈ H) :
    ∃ i, ∃ (hi : i < cs.length), ∃ junk, w = .sealed key (nonceAt n0 i) (mkFrame cs[i] junk) ∧ H[i]? = some w := by
  obtain ⟨i, hi, rfl⟩ := List.getElem_of_mem hw
  have hl := h.length_eq
  obtain ⟨junk, h1, _⟩ := h.get i (by omega)
  refine ⟨i, by omega, junk, ?_, ?_⟩
  · have := List.getElem?_eq_getElem hi
    rw [this] at h1; exact Option.some.inj h1
  · exact List.getElem?_eq_getElem hi

/-- ideal AEAD + fresh nonces: the only wire item an attacker can offer that opens at position `j` is
the honest `j`-th frame itself -/
theorem open_only_honest {key n0 H cs} (hS : Sealed key n0 H cs) (hF : Fresh n0 cs.length)
    {w : Wire} (hw : AttackerItem key H w) {j : Nat} (hj : j ≤ cs.length) {p : Bytes}
    (ho : openWire key (nonceAt n0 j) w = some p) : H[j]? = some w := by
  rcases hw with hm | ⟨id, rfl⟩ | rfl | ⟨k, n, p', rfl, hk⟩
  · obtain ⟨i, hi, junk, rfl, hget⟩ := hS.mem w hm
    simp only [openWire] at ho
    split at ho
    · rename_i hc
      have := hF i j (by omega) hj hc.2.1
      subst this; exact hget
    · exact absurd ho (by simp)
  · simp [openWire] at ho
  · simp [openWire] at ho
  · simp [openWire, hk] at ho

theorem nonceAt_succ' (n0 : UInt64) (j : Nat) : nonceAt n0 (j + 1) = incrementNonce (nonceAt n0 j) := by
  rw [nonceAt_add n0 j 1]; rfl

/-- the reader has opened exactly the first `j` honest frames -/
structure RInv (key : Nat) (n0 : UInt64) (cs : List Bytes) (j : Nat) (r : Reader) (del : Bytes) : Prop where
  key : r.key = key
  nonce : r.nonce = nonceAt n0 j
  le : j ≤ cs.length
  acc : del ++ r.unread = (cs.take j).flatten

/-- complete case analysis of one `Read` against an attacker-controlled wire -/
theorem read_spec {key n0 H cs} (hS : Sealed key n0 H cs) (hF : Fresh n0 cs.length)
    {j r del} (hR : RInv key n0 cs j r del) (ch : Chan) (hA : ∀ w ∈ ch.wire, AttackerItem key H w) (n : Nat) :
    (r.unread ≠ [] ∧ r.read n ch = (.data (r.unread.take n), { r with unread := r.unread.drop n }, ch)) ∨
    (r.unread = [] ∧ ch.wire = [] ∧ r.read n ch = (if ch.closed then .err .eof else .blocked, r, ch)) ∨
    (∃ w rest, r.unread = [] ∧ ch.wire = w :: rest ∧ H[j]? = some w ∧ ∃ (hj : j < cs.length),
        r.read n ch = (.data (cs[j].take n), ⟨key, nonceAt n0 (j + 1), cs[j].drop n⟩, { ch with wire := rest })) ∨
    (∃ w rest e ch', r.unread = [] ∧ ch.wire = w :: rest ∧ H[j]? ≠ some w ∧
        r.read n ch = (.err e, r, ch') ∧ (∀ x ∈ ch'.wire, x ∈ ch.wire)) := by
  by_cases hu : r.unread = []
  · right
    cases hwire : ch.wire with
    | nil => left; exact ⟨hu, rfl, by simp [Reader.read, hu, hwire]⟩
    | cons w rest =>
      right
      have hAw := hA w (by simp [hwire])
      by_cases hget : H[j]? = some w
      · left
        have hl := hS.length_eq
        have hj : j < cs.length := by
          rcases Nat.lt_or_ge j cs.length with h | h
          · exact h
          · have : H[j]? = none := List.getElem?_eq_none (by omega)
            rw [this] at hget; exact absurd hget (by simp)
        obtain ⟨junk, h1, h2⟩ := hS.get j hj
        rw [hget] at h1
        have hw : w = .sealed key (nonceAt n0 j) (mkFrame cs[j] junk) := Option.some.inj h1
        refine ⟨w, rest, hu, rfl, hget, hj, ?_⟩
        subst hw
        simp [Reader.read, hu, hwire, hR.key, hR.nonce, openWire, mkFrame_length _ junk h2.2,
          parseFrame_mkFrame _ junk h2.2, nonceAt_succ']
      · right
        cases hop : openWire key (nonceAt n0 j) w with
        | some p => exact absurd (open_only_honest hS hF hAw hR.le hop) hget
        | none =>
          cases w with
          | cut =>
            cases rest with
            | nil =>
              exact ⟨.cut, [], .short, ⟨[], ch.closed⟩, hu, rfl, hget, by simp [Reader.read, hu, hwire], by simp⟩
            | cons x rest' =>
              refine ⟨.cut, x :: rest', .decrypt, ⟨.cut :: rest', ch.closed⟩, hu, rfl, hget,
                by simp [Reader.read, hu, hwire], ?_⟩
              intro y hy
              simp only [List.mem_cons] at hy ⊢
              rcases hy with hy | hy
              · exact Or.inl hy
              · exact Or.inr (Or.inr hy)
          | garbage id =>
            exact ⟨_, rest, .decrypt, ⟨rest, ch.closed⟩, hu, rfl, hget, by simp [Reader.read, hu, hwire, openWire],
              fun y hy => List.mem_cons_of_mem _ hy⟩
          | sealed k nn p =>
            refine ⟨_, rest, .decrypt, ⟨rest, ch.closed⟩, hu, rfl, hget, ?_, fun y hy => List.mem_cons_of_mem _ hy⟩
            simp only [Reader.read, hu, hwire, hR.key, hR.nonce, hop]
            simp
  · left; exact ⟨hu, by simp [Reader.read, hu]⟩
theorem flatten_take_succ (cs : List Bytes) (j : Nat) (hj : j < cs.length) :
    (cs.take (j + 1)).flatten = (cs.take j).flatten ++ cs[j] := by
  rw [List.take_add_one, List.flatten_append, List.getElem?_eq_getElem hj]; simp

theorem flatten_take_prefix (cs : List Bytes) (j : Nat) : (cs.take j).flatten <+: cs.flatten := by
  refine ⟨(cs.drop j).flatten, ?_⟩
  rw [← List.flatten_append, List.take_append_drop]

/-- one read preserves the reader invariant, whatever the wire holds -/
theorem RInv.step {key n0 H cs} (hS : Sealed key n0 H cs) (hF : Fresh n0 cs.length)
    {j r del} (hR : RInv key n0 cs j r del) (ch : Chan) (hA : ∀ w ∈ ch.wire, AttackerItem key H w) (n : Nat) :
    (∃ j', RInv key n0 cs j' (r.read n ch).2.1 (del ++ resData (r.read n ch).1)) ∧
      (∀ w ∈ (r.read n ch).2.2.wire, AttackerItem key H w) := by
  rcases read_spec hS hF hR ch hA n with ⟨hu, he⟩ | ⟨hu, hw, he⟩ | ⟨w, rest, hu, hw, hg, hj, he⟩ | ⟨w, rest, e, ch', hu, hw, hg, he, hsub⟩
  · rw [he]
    refine ⟨⟨j, hR.key, hR.nonce, hR.le, ?_⟩, hA⟩
    simp only [resData, List.append_assoc, List.take_append_drop]; exact hR.acc
  · rw [he]
    refine ⟨⟨j, ?_⟩, hA⟩
    have : resData (if ch.closed = true then ReadRes.err ReadErr.eof else ReadRes.blocked) = [] := by
      split <;> rfl
    simp only [this, List.append_nil]; exact hR
  · rw [he]
    refine ⟨⟨j + 1, rfl, rfl, hj, ?_⟩, fun w' hw' => hA w' (by simp [hw] at hw' ⊢; exact Or.inr hw')⟩
    have := hR.acc
    simp only [hu, List.append_nil] at this
    simp only [resData, List.append_assoc, List.take_append_drop, flatten_take_succ cs j hj, this]
  · rw [he]
    refine ⟨⟨j, ?_⟩, fun w' hw' => hA w' (hsub w' hw')⟩
    simpa [resData] using hR

theorem readMany_inv {key n0 H cs} (hS : Sealed key n0 H cs) (hF : Fresh n0 cs.length)
    {j r del} (hR : RInv key n0 cs j r del) (ch : Chan) (hA : ∀ w ∈ ch.wire, AttackerItem key H w) (ns : List Nat) :
    ∃ j', RInv key n0 cs j' (readMany r ch ns).2.1 (del ++ delivered (readMany r ch ns).1) := by
  induction ns generalizing j r del ch with
  | nil => exact ⟨j, by simpa [readMany, delivered] using hR⟩
  | cons n ns ih =>
    obtain ⟨⟨j', h1⟩, h2⟩ := hR.step hS hF ch hA n
    obtain ⟨j'', h3⟩ := ih h1 _ h2
    refine ⟨j'', ?_⟩
    simpa [readMany, delivered_cons, List.append_assoc] using h3

theorem RInv.prefix {key n0 cs j r del} (h : RInv key n0 cs j r del) : del <+: cs.flatten :=
  List.IsPrefix.trans ⟨r.unread, h.acc⟩ (flatten_take_prefix cs j)
theorem drop_take_cons (H : List Wire) (j k : Nat) (hjk : j < k) (hk : k ≤ H.length) :
    (H.take k).drop j = H[j]'(by omega) :: (H.take k).drop (j + 1) := by
  have hj : j < (H.take k).length := by simp; omega
  rw [List.drop_eq_getElem_cons hj]
  simp

theorem readUntilErr_data {r : Reader} {ch : Chan} {n : Nat} {ns : List Nat} {b r' ch'}
    (h : r.read n ch = (.data b, r', ch')) :
    readUntilErr r ch (n :: ns) = (.data b :: (readUntilErr r' ch' ns).1, (readUntilErr r' ch' ns).2) := by
  simp [readUntilErr, h]

theorem readUntilErr_blocked {r : Reader} {ch : Chan} {n : Nat} {ns : List Nat} {r' ch'}
    (h : r.read n ch = (.blocked, r', ch')) :
    readUntilErr r ch (n :: ns) = (.blocked :: (readUntilErr r' ch' ns).1, (readUntilErr r' ch' ns).2) := by
  simp [readUntilErr, h]

theorem readUntilErr_err {r : Reader} {ch : Chan} {n : Nat} {ns : List Nat} {e r' ch'}
    (h : r.read n ch = (.err e, r', ch')) :
    readUntilErr r ch (n :: ns) = ([.err e], r', ch') := by
  simp [readUntilErr, h]

/-- the "good phase": the wire still starts with the untouched honest frames `j..k`, then `W'`,
whose first item (if any) is NOT the honest `k`-th frame. Reading until the first error delivers
within the plaintext of the first `k` frames; an error appears only once all of it has been
delivered; and a deviation is never waited on. -/
theorem readUntilErr_spec {key n0 H cs} (hS : Sealed key n0 H cs) (hF : Fresh n0 cs.length)
    (k : Nat) (hk : k ≤ cs.length) (W' : List Wire) (hA' : ∀ w ∈ W', AttackerItem key H w)
    (hdev : ∀ w, W'.head? = some w → H[k]? ≠ some w) (closed : Bool) (ns : List Nat)
    {j r del} (hR : RInv key n0 cs j r del) (hjk : j ≤ k) :
    (∃ j', j' ≤ k ∧ RInv key n0 cs j' (readUntilErr r ⟨(H.take k).drop j ++ W', closed⟩ ns).2.1
        (del ++ delivered (readUntilErr r ⟨(H.take k).drop j ++ W', closed⟩ ns).1)) ∧
    (∀ e, .err e ∈ (readUntilErr r ⟨(H.take k).drop j ++ W', closed⟩ ns).1 →
        del ++ delivered (readUntilErr r ⟨(H.take k).drop j ++ W', closed⟩ ns).1 = (cs.take k).flatten) ∧
    (W' ≠ [] → .blocked ∉ (readUntilErr r ⟨(H.take k).drop j ++ W', closed⟩ ns).1) := by
  have hl := hS.length_eq
  induction ns generalizing j r del with
  | nil => exact ⟨⟨j, hjk, by simpa [readUntilErr, delivered] using hR⟩, by simp [readUntilErr], by simp [readUntilErr]⟩
  | cons n ns ih =>
    have hA : ∀ w ∈ (⟨(H.take k).drop j ++ W', closed⟩ : Chan).wire, AttackerItem key H w := by
      intro w hw
      simp only [List.mem_append] at hw
      rcases hw with hw | hw
      · exact Or.inl (List.mem_of_mem_take (List.mem_of_mem_drop hw))
      · exact hA' w hw
    rcases read_spec hS hF hR _ hA n with ⟨hu, he⟩ | ⟨hu, hw, he⟩ | ⟨w, rest, hu, hw, hg, hj, he⟩ | ⟨w, rest, e, ch', hu, hw, hg, he, hsub⟩
    · -- leftover bytes
      rw [readUntilErr_data he]
      have hR' : RInv key n0 cs j { r with unread := r.unread.drop n } (del ++ r.unread.take n) :=
        ⟨hR.key, hR.nonce, hR.le, by simp only [List.append_assoc, List.take_append_drop]; exact hR.acc⟩
      obtain ⟨⟨j', h1, h2⟩, h3, h4⟩ := ih hR' hjk
      simp only [delivered_cons, resData, List.mem_cons, reduceCtorEq, false_or, ← List.append_assoc]
      exact ⟨⟨j', h1, h2⟩, h3, h4⟩
    · -- nothing in flight
      simp only [List.append_eq_nil_iff] at hw
      have hW' : W' = [] := hw.2
      have hjk' : j = k := by
        have := congrArg List.length hw.1
        simp only [List.length_drop, List.length_take, List.length_nil] at this
        omega
      cases closed with
      | true =>
        simp only [if_true] at he
        rw [readUntilErr_err he]
        refine ⟨⟨j, hjk, by simpa [delivered] using hR⟩, ?_, by simp⟩
        intro e _
        have := hR.acc
        simpa [delivered, hu, hjk'] using this
      | false =>
        simp only [Bool.false_eq_true, if_false] at he
        rw [readUntilErr_blocked he]
        obtain ⟨⟨j', h1, h2⟩, h3, h4⟩ := ih hR hjk
        simp only [delivered_cons, resData, List.nil_append, List.mem_cons, reduceCtorEq, false_or]
        exact ⟨⟨j', h1, h2⟩, h3, fun h => absurd hW' h⟩
    · -- the next honest frame, intact
      rcases Nat.lt_or_ge j k with hlt | hge
      · have hd := drop_take_cons H j k hlt (by omega)
        rw [hd] at hw he ⊢
        simp only [List.cons_append, List.cons.injEq] at hw
        obtain ⟨_, hw2⟩ := hw
        subst hw2
        simp only [List.cons_append] at he ⊢
        rw [readUntilErr_data he]
        have hR' : RInv key n0 cs (j + 1) ⟨key, nonceAt n0 (j + 1), cs[j].drop n⟩ (del ++ cs[j].take n) := by
          refine ⟨rfl, rfl, hj, ?_⟩
          have := hR.acc
          simp only [hu, List.append_nil] at this
          simp only [List.append_assoc, List.take_append_drop, flatten_take_succ cs j hj, this]
        obtain ⟨⟨j', h1, h2⟩, h3, h4⟩ := ih hR' (by omega)
        simp only [delivered_cons, resData, List.mem_cons, reduceCtorEq, false_or, ← List.append_assoc]
        exact ⟨⟨j', h1, h2⟩, h3, h4⟩
      · have hjk' : j = k := by omega
        subst hjk'
        have : (H.take j).drop j = [] := List.drop_eq_nil_of_le (by simp only [List.length_take]; omega)
        simp only [this, List.nil_append] at hw
        exact absurd hg (hdev w (by simp [hw]))
    · -- a deviation: error, and the caller stops
      rcases Nat.lt_or_ge j k with hlt | hge
      · have hd := drop_take_cons H j k hlt (by omega)
        rw [hd] at hw
        simp only [List.cons_append, List.cons.injEq] at hw
        exact absurd (by rw [← hw.1]; exact List.getElem?_eq_getElem (by omega)) hg
      · have hjk' : j = k := by omega
        rw [readUntilErr_err he]
        refine ⟨⟨j, hjk, by simpa [delivered] using hR⟩, ?_, by simp⟩
        intro _ _
        have := hR.acc
        simpa [delivered, hu, hjk'] using this
theorem lcp_le_right (W H : List Wire) : lcp W H ≤ H.length := by
  induction W generalizing H with
  | nil => simp [lcp]
  | cons a as ih =>
    cases H with
    | nil => simp [lcp]
    | cons b bs =>
      simp only [lcp]; split
      · have := ih bs; simp; omega
      · simp

theorem lcp_take (W H : List Wire) : W = H.take (lcp W H) ++ W.drop (lcp W H) := by
  induction W generalizing H with
  | nil => simp [lcp]
  | cons a as ih =>
    cases H with
    | nil => simp [lcp]
    | cons b bs =>
      simp only [lcp]; split
      · rename_i h; subst h
        simp only [List.take_succ_cons, List.drop_succ_cons, List.cons_append, List.cons.injEq, true_and]
        exact ih bs
      · simp

theorem lcp_dev (W H : List Wire) : ∀ w, (W.drop (lcp W H)).head? = some w → H[lcp W H]? ≠ some w := by
  induction W generalizing H with
  | nil => simp [lcp]
  | cons a as ih =>
    cases H with
    | nil => simp [lcp]
    | cons b bs =>
      simp only [lcp]; split
      · simpa using ih bs
      · rename_i h
        intro w hw
        simp only [List.drop_zero, List.head?_cons, Option.some.injEq] at hw
        subst hw
        simp only [List.getElem?_cons_zero, ne_eq, Option.some.injEq]
        exact fun hb => h hb.symm
theorem writeMany_sealed (w : Writer) (ds : List (Bytes × Bytes)) :
    Sealed w.key w.nonce (writeMany w ds).2 (chunksOf ds) ∧ (writeMany w ds).1.key = w.key := by
  induction ds generalizing w with
  | nil => exact ⟨.nil _, rfl⟩
  | cons d ds ih =>
    obtain ⟨junk, data⟩ := d
    have hsc := sealChunks_sealed w.key junk w.nonce (chunks data) (chunks_bound data)
    have := ih (w.write junk data).1
    simp only [writeMany, chunksOf, List.flatMap_cons, Writer.write] at this ⊢
    refine ⟨hsc.1.append ?_, this.2⟩
    rw [← hsc.2]; exact this.1

theorem chunksOf_flatten (ds : List (Bytes × Bytes)) : (chunksOf ds).flatten = (ds.map (·.2)).flatten := by
  induction ds with
  | nil => rfl
  | cons d ds ih =>
    simp only [chunksOf, List.flatMap_cons, List.flatten_append, chunks_flatten, List.map_cons, List.flatten_cons] at ih ⊢
    rw [ih]

theorem mem_insertAt {α} {l : List α} {i : Nat} {a b : α} (h : b ∈ insertAt l i a) : b ∈ l ∨ b = a := by
  simp only [insertAt, List.mem_append, List.mem_cons] at h
  rcases h with h | h | h
  · exact Or.inl (List.mem_of_mem_take h)
  · exact Or.inr h
  · exact Or.inl (List.mem_of_mem_drop h)

/-- every fault an intermediary can apply keeps the wire within `AttackerItem` -/
theorem applyFault_attacker (key : Nat) (H : List Wire) (ch ch' : Chan) (f : Fault)
    (hA : ∀ w ∈ ch.wire, AttackerItem key H w) (h : applyFault H ch f = some ch') :
    ∀ w ∈ ch'.wire, AttackerItem key H w := by
  intro w hw
  cases f with
  | flip i id =>
    simp only [applyFault] at h; split at h
    · cases h
      rcases List.mem_or_eq_of_mem_set hw with h1 | h1
      · exact hA w h1
      · exact Or.inr (Or.inl ⟨id, h1⟩)
    · cases h
  | swap i j =>
    simp only [applyFault] at h; split at h
    · rename_i a b ha hb
      cases h
      rcases List.mem_or_eq_of_mem_set hw with h1 | h1
      · rcases List.mem_or_eq_of_mem_set h1 with h2 | h2
        · exact hA w h2
        · exact hA w (h2 ▸ List.mem_of_getElem? hb)
      · exact hA w (h1 ▸ List.mem_of_getElem? ha)
    · cases h
  | dup i =>
    simp only [applyFault] at h; split at h
    · rename_i a ha
      cases h
      rcases mem_insertAt hw with h1 | h1
      · exact hA w h1
      · exact hA w (h1 ▸ List.mem_of_getElem? ha)
    · cases h
  | replay hh j =>
    simp only [applyFault] at h; split at h
    · rename_i a ha
      split at h
      · cases h
        rcases mem_insertAt hw with h1 | h1
        · exact hA w h1
        · exact Or.inl (h1 ▸ List.mem_of_getElem? ha)
      · cases h
    · cases h
  | drop i =>
    simp only [applyFault] at h; split at h
    · cases h; exact hA w (List.mem_of_mem_eraseIdx hw)
    · cases h
  | inject i id =>
    simp only [applyFault] at h; split at h
    · cases h
      rcases mem_insertAt hw with h1 | h1
      · exact hA w h1
      · exact Or.inr (Or.inl ⟨id, h1⟩)
    · cases h
  | trunc i mid =>
    simp only [applyFault] at h; split at h
    · cases h
      simp only [List.mem_append] at hw
      rcases hw with h1 | h1
      · exact hA w (List.mem_of_mem_take h1)
      · split at h1
        · simp only [List.mem_singleton] at h1; exact Or.inr (Or.inr (Or.inl h1))
        · simp at h1
    · cases h
  | close =>
    simp only [applyFault] at h; cases h; exact hA w hw

theorem applyFaults_attacker (key : Nat) (H : List Wire) (fs : List Fault) (ch : Chan)
    (hA : ∀ w ∈ ch.wire, AttackerItem key H w) : ∀ w ∈ (applyFaults H ch fs).wire, AttackerItem key H w := by
  induction fs generalizing ch with
  | nil => exact hA
  | cons f fs ih =>
    simp only [applyFaults]
    apply ih
    cases h : applyFault H ch f with
    | none => simpa using hA
    | some ch' => simpa using applyFault_attacker key H ch ch' f hA h
theorem flatten_take_mono (cs : List Bytes) (j k : Nat) (hjk : j ≤ k) :
    (cs.take j).flatten.length ≤ (cs.take k).flatten.length := by
  have : cs.take k = cs.take j ++ (cs.take k).drop j := by
    have := (List.take_append_drop j (cs.take k)).symm
    rwa [List.take_take, Nat.min_eq_left hjk] at this
  rw [this, List.flatten_append, List.length_append]; omega

theorem RInv.len_le {key n0 cs j r del} (h : RInv key n0 cs j r del) (k : Nat) (hjk : j ≤ k) :
    del.length + r.unread.length ≤ (cs.take k).flatten.length := by
  have := congrArg List.length h.acc
  rw [List.length_append] at this
  have := flatten_take_mono cs j k hjk
  omega

theorem take_ne_nil {l : Bytes} {n : Nat} (hl : l ≠ []) (hn : 1 ≤ n) : 0 < (l.take n).length := by
  have : 0 < l.length := List.length_pos_iff.mpr hl
  simp only [List.length_take]; omega

/-- liveness complement of `readUntilErr_spec`: when the wire deviates (`W' ≠ []`), enough reads with
non-empty buffers DO hit the error -/
theorem readUntilErr_errs {key n0 H cs} (hS : Sealed key n0 H cs) (hF : Fresh n0 cs.length)
    (k : Nat) (hk : k ≤ cs.length) (W' : List Wire) (hA' : ∀ w ∈ W', AttackerItem key H w)
    (hdev : ∀ w, W'.head? = some w → H[k]? ≠ some w) (hne : W' ≠ []) (closed : Bool) (ns : List Nat)
    (hpos : ∀ n ∈ ns, 1 ≤ n) {j r del} (hR : RInv key n0 cs j r del) (hjk : j ≤ k)
    (hlen : (cs.take k).flatten.length < del.length + ns.length) :
    ∃ e, .err e ∈ (readUntilErr r ⟨(H.take k).drop j ++ W', closed⟩ ns).1 := by
  have hl := hS.length_eq
  induction ns generalizing j r del with
  | nil => have := hR.len_le k hjk; simp only [List.length_nil, Nat.add_zero] at hlen; omega
  | cons n ns ih =>
    have hn : 1 ≤ n := hpos n (by simp)
    have hpos' : ∀ n ∈ ns, 1 ≤ n := fun m hm => hpos m (by simp [hm])
    have hA : ∀ w ∈ (⟨(H.take k).drop j ++ W', closed⟩ : Chan).wire, AttackerItem key H w := by
      intro w hw
      simp only [List.mem_append] at hw
      rcases hw with hw | hw
      · exact Or.inl (List.mem_of_mem_take (List.mem_of_mem_drop hw))
      · exact hA' w hw
    rcases read_spec hS hF hR _ hA n with ⟨hu, he⟩ | ⟨hu, hw, he⟩ | ⟨w, rest, hu, hw, hg, hj, he⟩ | ⟨w, rest, e, ch', hu, hw, hg, he, hsub⟩
    · rw [readUntilErr_data he]
      have hR' : RInv key n0 cs j { r with unread := r.unread.drop n } (del ++ r.unread.take n) :=
        ⟨hR.key, hR.nonce, hR.le, by simp only [List.append_assoc, List.take_append_drop]; exact hR.acc⟩
      have := take_ne_nil hu hn
      obtain ⟨e, he'⟩ := ih hpos' hR' hjk (by simp only [List.length_append, List.length_cons] at hlen ⊢; omega)
      exact ⟨e, by simp [he']⟩
    · simp only [List.append_eq_nil_iff] at hw
      exact absurd hw.2 hne
    · rcases Nat.lt_or_ge j k with hlt | hge
      · have hd := drop_take_cons H j k hlt (by omega)
        rw [hd] at hw he ⊢
        simp only [List.cons_append, List.cons.injEq] at hw
        obtain ⟨_, hw2⟩ := hw
        subst hw2
        simp only [List.cons_append] at he ⊢
        rw [readUntilErr_data he]
        have hR' : RInv key n0 cs (j + 1) ⟨key, nonceAt n0 (j + 1), cs[j].drop n⟩ (del ++ cs[j].take n) := by
          refine ⟨rfl, rfl, hj, ?_⟩
          have := hR.acc
          simp only [hu, List.append_nil] at this
          simp only [List.append_assoc, List.take_append_drop, flatten_take_succ cs j hj, this]
        obtain ⟨_, _, hpos_c, _⟩ := hS.get j hj
        have := take_ne_nil (List.length_pos_iff.mp hpos_c) hn
        obtain ⟨e, he'⟩ := ih hpos' hR' (by omega) (by simp only [List.length_append, List.length_cons] at hlen ⊢; omega)
        exact ⟨e, by simp [he']⟩
      · have hjk' : j = k := by omega
        subst hjk'
        have : (H.take j).drop j = [] := List.drop_eq_nil_of_le (by simp only [List.length_take]; omega)
        simp only [this, List.nil_append] at hw
        exact absurd hg (hdev w (by simp [hw]))
    · rw [readUntilErr_err he]
      exact ⟨e, by simp⟩

/-- an honest direction never starves: a read with a non-empty buffer either returns at least one
byte, or blocks — and it blocks only when everything written has already been delivered -/
theorem Inv.read_progress {d wr del} (h : Inv d wr del) (n : Nat) (hn : 1 ≤ n) :
    ((d.read n).1 = .blocked ∧ del = wr) ∨ ∃ b, (d.read n).1 = .data b ∧ b ≠ [] := by
  obtain ⟨hk, ho, cs, hs, hnn, hw⟩ := h
  simp only [Dir.read, Reader.read]
  by_cases hu : d.r.unread = []
  · simp only [hu, ne_eq, not_true_eq_false, if_false]
    generalize hwire : d.ch.wire = wire at hs
    generalize hnon : d.r.nonce = rn at hs hnn
    cases hs with
    | nil _ =>
      left
      simp only [ho, Bool.false_eq_true, if_false, true_and]
      simp [hw, hu]
    | cons _ c junk ws cs' hc hs' =>
      right
      simp only [openWire, mkFrame_length c junk hc.2, and_self, if_true, parseFrame_mkFrame c junk hc.2]
      exact ⟨_, rfl, List.length_pos_iff.mp (take_ne_nil (List.length_pos_iff.mp hc.1) hn)⟩
  · right
    simp only [ne_eq, hu, not_false_eq_true, if_true]
    exact ⟨_, rfl, List.length_pos_iff.mp (take_ne_nil hu hn)⟩
theorem chunksOf_append (a b : List (Bytes × Bytes)) : chunksOf (a ++ b) = chunksOf a ++ chunksOf b := by
  simp [chunksOf, List.flatMap_append]

theorem Inv.afterHandshake (key k : Nat) : Inv (Dir.afterHandshake key k) [] [] :=
  ⟨rfl, rfl, [], .nil _, rfl, rfl⟩

/-- reader invariant at the start of the session: the handshake frames have been consumed -/
theorem RInv.session (key : Nat) (hs ds : List (Bytes × Bytes)) :
    RInv key 0 (chunksOf (hs ++ ds)) (chunksOf hs).length ⟨key, nonceAt 0 (chunksOf hs).length, []⟩ (chunksOf hs).flatten := by
  refine ⟨rfl, rfl, by simp [chunksOf_append], ?_⟩
  simp [chunksOf_append]

theorem take_session (hs ds : List (Bytes × Bytes)) (k : Nat) :
    ((chunksOf (hs ++ ds)).take ((chunksOf hs).length + k)).flatten =
      (chunksOf hs).flatten ++ ((chunksOf ds).take k).flatten := by
  rw [chunksOf_append, List.take_length_add_append, List.flatten_append]

end Canopy.Transport
