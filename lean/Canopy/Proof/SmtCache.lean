import Canopy.Model.SmtCache
/-! Coherence of the SMT node cache for every discipline whose `setNode` always writes the cache and whose `delNode`
always evicts — in particular the source's, at every capacity. Core only. -/
namespace Canopy.Smt.Cache

variable {K V : Type} [DecidableEq K]

theorem find_filter_ne (c : List (K × V)) (k k' : K) (h : k' ≠ k) :
    (c.filter (fun e => e.1 ≠ k)).find? (fun e => e.1 = k') = c.find? (fun e => e.1 = k') := by
  induction c with
  | nil => rfl
  | cons e c ih =>
    by_cases he : e.1 = k
    · have hne : ¬ e.1 = k' := fun x => h (x.symm.trans he)
      rw [List.filter_cons_of_neg (by simpa using he), List.find?_cons_of_neg (by simpa using hne), ih]
    · rw [List.filter_cons_of_pos (by simpa using he)]
      by_cases hk : e.1 = k'
      · rw [List.find?_cons_of_pos (by simpa using hk), List.find?_cons_of_pos (by simpa using hk)]
      · rw [List.find?_cons_of_neg (by simpa using hk), List.find?_cons_of_neg (by simpa using hk), ih]

theorem find_filter_same (c : List (K × V)) (k : K) :
    (c.filter (fun e => e.1 ≠ k)).find? (fun e => e.1 = k) = none := by
  induction c with
  | nil => rfl
  | cons e c ih =>
    by_cases he : e.1 = k
    · rw [List.filter_cons_of_neg (by simpa using he), ih]
    · rw [List.filter_cons_of_pos (by simpa using he), List.find?_cons_of_neg (by simpa using he), ih]
theorem cacheGet_put_same (c : List (K × V)) (k : K) (v : V) : cacheGet (cachePut c k v) k = some v := by
  simp [cacheGet, cachePut]

theorem cacheGet_filter_ne (c : List (K × V)) (k k' : K) (h : k' ≠ k) :
    cacheGet (c.filter (fun e => e.1 ≠ k)) k' = cacheGet c k' := by
  simp only [cacheGet, find_filter_ne c k k' h]

theorem cacheGet_filter_same (c : List (K × V)) (k : K) : cacheGet (c.filter (fun e => e.1 ≠ k)) k = none := by
  simp only [cacheGet, find_filter_same c k, Option.map_none]

theorem cacheGet_put_other (c : List (K × V)) (k k' : K) (v : V) (h : k' ≠ k) :
    cacheGet (cachePut c k v) k' = cacheGet c k' := by
  have hne : ¬ k = k' := fun x => h x.symm
  have : cacheGet (cachePut c k v) k' = cacheGet (c.filter (fun e => e.1 ≠ k)) k' := by
    simp only [cacheGet, cachePut]
    rw [List.find?_cons_of_neg (by simpa using hne)]
  rw [this, cacheGet_filter_ne c k k' h]

theorem coherent_nil (st : K → Option V) : Coherent (⟨st, []⟩ : St K V) := by
  intro k v h; simp [cacheGet] at h

theorem coherent_setNode {d : Discipline} (hw : ∀ len cap, d.setWrite len cap = true) (cap : Nat) {s : St K V}
    (h : Coherent s) (k : K) (v : V) : Coherent (setNode d cap s k v) := by
  intro k' v' hg
  simp only [setNode, hw, if_true] at hg ⊢
  by_cases e : k' = k
  · subst e
    rw [cacheGet_put_same] at hg
    simpa using hg
  · rw [cacheGet_put_other _ _ _ _ e] at hg
    simp only [if_neg e]
    split at hg
    · simp [cacheGet] at hg
    · exact h k' v' hg

theorem coherent_delNode {d : Discipline} (he : d.delEvict = true) {s : St K V} (h : Coherent s) (k : K) :
    Coherent (delNode d s k) := by
  intro k' v' hg
  simp only [delNode, he, if_true, cacheDel] at hg ⊢
  by_cases e : k' = k
  · subst e; rw [cacheGet_filter_same] at hg; cases hg
  · rw [cacheGet_filter_ne _ _ _ e] at hg
    simp only [if_neg e]
    exact h k' v' hg

theorem coherent_getNode (d : Discipline) (cap : Nat) {s : St K V} (h : Coherent s) (k : K) :
    Coherent (getNode d cap s k).2 := by
  unfold getNode
  cases hc : cacheGet s.cache k with
  | some v => exact h
  | none =>
    cases hs : s.store k with
    | none => exact h
    | some v =>
      simp only
      split
      · intro k' v' hg
        by_cases e : k' = k
        · subst e; rw [cacheGet_put_same] at hg; cases hg; exact hs
        · rw [cacheGet_put_other _ _ _ _ e] at hg; exact h k' v' hg
      · exact h

theorem coherent_step {d : Discipline} (hw : ∀ len cap, d.setWrite len cap = true) (he : d.delEvict = true) (cap : Nat)
    {s : St K V} (h : Coherent s) (a : Acc K V) : Coherent (step d cap s a) := by
  cases a with
  | set k v => exact coherent_setNode hw cap h k v
  | del k => exact coherent_delNode he h k
  | get k => exact coherent_getNode d cap h k
  | drop => exact coherent_nil s.store

theorem coherent_run {d : Discipline} (hw : ∀ len cap, d.setWrite len cap = true) (he : d.delEvict = true) (cap : Nat) :
    ∀ (as : List (Acc K V)) {s : St K V}, Coherent s → Coherent (run d cap s as)
  | [], _, h => h
  | a :: as, _, h => coherent_run hw he cap as (coherent_step hw he cap h a)

/-- a read through a coherent cache is a read from the store -/
theorem getNode_eq_store (d : Discipline) (cap : Nat) {s : St K V} (h : Coherent s) (k : K) :
    (getNode d cap s k).1 = s.store k := by
  unfold getNode
  cases hc : cacheGet s.cache k with
  | some v => exact (h k v hc).symm
  | none => cases hs : s.store k <;> rfl

theorem getNode_store (d : Discipline) (cap : Nat) (s : St K V) (k : K) : (getNode d cap s k).2.store = s.store := by
  unfold getNode
  cases cacheGet s.cache k with
  | some v => rfl
  | none =>
    cases s.store k with
    | none => rfl
    | some v => simp only; split <;> rfl

/-- the node store evolves as if there were no cache, whatever the discipline and the capacity -/
theorem run_store (d : Discipline) (cap : Nat) : ∀ (as : List (Acc K V)) (s : St K V),
    (run d cap s as).store = runStore s.store as
  | [], _ => rfl
  | a :: as, s => by
    have ih := run_store d cap as (step d cap s a)
    simp only [run, runStore, List.foldl_cons] at ih ⊢
    rw [ih]
    cases a with
    | set k v => rfl
    | del k => rfl
    | get k => simp only [step, getNode_store, stepStore]
    | drop => rfl

end Canopy.Smt.Cache
