import Canopy.Model.Dex
/-! Helper lemmas for the sell-order / escrow part of C20. Core Lean only. -/
namespace Canopy.Dex

/-! ## finite maps -/
namespace AM
variable {κ ν : Type} [DecidableEq κ]

theorem get?_set_self (m : List (κ × ν)) (k : κ) (v : ν) : get? (set m k v) k = some v := by
  induction m with
  | nil => simp [set, get?]
  | cons e m ih =>
    obtain ⟨k', v'⟩ := e
    by_cases h : k' = k <;> simp [set, get?, h, ih]

theorem get?_set_other (m : List (κ × ν)) (k k' : κ) (v : ν) (hne : k' ≠ k) :
    get? (set m k v) k' = get? m k' := by
  induction m with
  | nil => simp [set, get?, Ne.symm hne]
  | cons e m ih =>
    obtain ⟨k0, v0⟩ := e
    by_cases h : k0 = k
    · subst h; simp [set, get?, Ne.symm hne]
    · by_cases h' : k0 = k'
      · subst h'; simp [set, get?, h]
      · simp [set, get?, h, h', ih]

theorem get?_del_other (m : List (κ × ν)) (k k' : κ) (hne : k' ≠ k) :
    get? (del m k) k' = get? m k' := by
  induction m with
  | nil => simp [del, get?]
  | cons e m ih =>
    obtain ⟨k0, v0⟩ := e
    by_cases h : k0 = k
    · subst h; simp [del, get?, Ne.symm hne]
    · by_cases h' : k0 = k'
      · subst h'; simp [del, get?, h]
      · simp [del, get?, h, h', ih]

def keys (m : List (κ × ν)) : List κ := m.map (·.1)

theorem get?_none_of_not_mem (m : List (κ × ν)) (k : κ) (h : k ∉ keys m) : get? m k = none := by
  induction m with
  | nil => simp [get?]
  | cons e m ih =>
    obtain ⟨k0, v0⟩ := e
    simp [keys] at h
    have : k0 ≠ k := fun e => h.1 e.symm
    simp [get?, this]
    exact ih (by simpa [keys] using h.2)

theorem mem_keys_of_get? (m : List (κ × ν)) (k : κ) (v : ν) (h : get? m k = some v) : k ∈ keys m := by
  induction m with
  | nil => simp [get?] at h
  | cons e m ih =>
    obtain ⟨k0, v0⟩ := e
    by_cases h' : k0 = k
    · subst h'; simp [keys]
    · simp [get?, h'] at h
      simp [keys]
      exact Or.inr (by simpa [keys] using ih h)

theorem keys_del_subset (m : List (κ × ν)) (k k' : κ) (h : k' ∈ keys (del m k)) : k' ∈ keys m := by
  induction m with
  | nil => simp [del, keys] at h
  | cons e m ih =>
    obtain ⟨k0, v0⟩ := e
    by_cases h0 : k0 = k
    · simp [del, h0] at h; simp [keys]; exact Or.inr (by simpa [keys] using h)
    · simp [del, h0, keys] at h
      rcases h with h | h
      · simp [keys, h]
      · simp [keys]; exact Or.inr (by simpa [keys] using ih (by simpa [keys] using h))

theorem nodup_del (m : List (κ × ν)) (k : κ) (h : (keys m).Nodup) : (keys (del m k)).Nodup := by
  induction m with
  | nil => simp [del, keys]
  | cons e m ih =>
    obtain ⟨k0, v0⟩ := e
    simp [keys] at h
    by_cases h0 : k0 = k
    · simp [del, h0]; simpa [keys] using h.2
    · simp [del, h0, keys]
      refine ⟨?_, by simpa [keys] using ih (by simpa [keys] using h.2)⟩
      intro x hx
      have := keys_del_subset m k k0 (by simp [keys]; exact ⟨x, hx⟩)
      simp [keys] at this
      obtain ⟨y, hy⟩ := this
      exact h.1 y hy

theorem get?_del_self (m : List (κ × ν)) (k : κ) (h : (keys m).Nodup) : get? (del m k) k = none := by
  induction m with
  | nil => simp [del, get?]
  | cons e m ih =>
    obtain ⟨k0, v0⟩ := e
    simp [keys] at h
    by_cases h0 : k0 = k
    · subst h0
      simp [del]
      apply get?_none_of_not_mem
      simp [keys]; exact h.1
    · simp [del, h0, get?]
      exact ih (by simpa [keys] using h.2)

theorem keys_set_subset (m : List (κ × ν)) (k k' : κ) (v : ν) (h : k' ∈ keys (set m k v)) : k' = k ∨ k' ∈ keys m := by
  induction m with
  | nil => simp [set, keys] at h; exact Or.inl h
  | cons e m ih =>
    obtain ⟨k0, v0⟩ := e
    by_cases h0 : k0 = k
    · simp [set, h0, keys] at h
      rcases h with h | h
      · exact Or.inl h
      · right; simp [keys]; exact Or.inr h
    · simp [set, h0, keys] at h
      rcases h with h | h
      · right; simp [keys, h]
      · rcases ih (by simpa [keys] using h) with h | h
        · exact Or.inl h
        · right; simp [keys]; exact Or.inr (by simpa [keys] using h)

theorem nodup_set (m : List (κ × ν)) (k : κ) (v : ν) (h : (keys m).Nodup) : (keys (set m k v)).Nodup := by
  induction m with
  | nil => simp [set, keys]
  | cons e m ih =>
    obtain ⟨k0, v0⟩ := e
    simp [keys] at h
    by_cases h0 : k0 = k
    · subst h0; simp [set, keys]; exact h
    · simp [set, h0, keys]
      refine ⟨?_, by simpa [keys] using ih (by simpa [keys] using h.2)⟩
      intro x hx
      rcases keys_set_subset m k k0 v (by simp [keys]; exact ⟨x, hx⟩) with h1 | h1
      · exact h0 h1
      · simp [keys] at h1
        obtain ⟨y, hy⟩ := h1
        exact h.1 y hy

/-- weighted sum over a map -/
def wsum (f : κ → ν → Nat) : List (κ × ν) → Nat
  | [] => 0
  | (k, v) :: m => f k v + wsum f m

theorem wsum_set_new (f : κ → ν → Nat) (m : List (κ × ν)) (k : κ) (v : ν) (h : get? m k = none) :
    wsum f (set m k v) = wsum f m + f k v := by
  induction m with
  | nil => simp [set, wsum]
  | cons e m ih =>
    obtain ⟨k0, v0⟩ := e
    by_cases h0 : k0 = k
    · simp [get?, h0] at h
    · simp [get?, h0] at h
      simp [set, h0, wsum, ih h]; omega

theorem wsum_set_old (f : κ → ν → Nat) (m : List (κ × ν)) (k : κ) (v v0 : ν) (h : get? m k = some v0) :
    wsum f (set m k v) + f k v0 = wsum f m + f k v := by
  induction m with
  | nil => simp [get?] at h
  | cons e m ih =>
    obtain ⟨k0, v1⟩ := e
    by_cases h0 : k0 = k
    · subst h0
      simp [get?] at h; subst h
      simp [set, wsum]; omega
    · simp [get?, h0] at h
      have := ih h
      simp [set, h0, wsum]; omega

theorem wsum_del (f : κ → ν → Nat) (m : List (κ × ν)) (k : κ) (v0 : ν) (h : get? m k = some v0) :
    wsum f (del m k) + f k v0 = wsum f m := by
  induction m with
  | nil => simp [get?] at h
  | cons e m ih =>
    obtain ⟨k0, v1⟩ := e
    by_cases h0 : k0 = k
    · subst h0
      simp [get?] at h; subst h
      simp [del, wsum]; omega
    · simp [get?, h0] at h
      have := ih h
      simp [del, h0, wsum]; omega

end AM
end Canopy.Dex

namespace Canopy.Dex

/-! ## primitives: what they touch -/

theorem escrowId_inj {c c' : Nat} (hc : c < U64) (hc' : c' < U64) (h : escrowId c = escrowId c') : c = c' := by
  unfold escrowId Gen.Dex.EscrowPoolAddend U64 at *
  omega

theorem getPool_setPool_self (s : State) (id : Nat) (p : Pool) : getPool (setPool s id p) id = p := by
  simp [getPool, setPool, AM.get?_set_self]

theorem getPool_setPool_other (s : State) (id id' : Nat) (p : Pool) (h : id' ≠ id) :
    getPool (setPool s id p) id' = getPool s id' := by
  simp [getPool, setPool, AM.get?_set_other _ _ _ _ h]

theorem poolAdd_self (s : State) (id n : Nat) :
    (getPool (poolAdd s id n) id).amount = ((getPool s id).amount + n) % U64 := by
  simp [poolAdd, getPool_setPool_self]

theorem poolAdd_other (s : State) (id id' n : Nat) (h : id' ≠ id) : getPool (poolAdd s id n) id' = getPool s id' := by
  simp [poolAdd, getPool_setPool_other _ _ _ _ h]

@[simp] theorem poolAdd_orders (s : State) (id n : Nat) : (poolAdd s id n).orders = s.orders := rfl
@[simp] theorem poolAdd_accounts (s : State) (id n : Nat) : (poolAdd s id n).accounts = s.accounts := rfl
@[simp] theorem setOrder_pools (s : State) (c : Nat) (o : SellOrder) : (setOrder s c o).pools = s.pools := rfl
@[simp] theorem setOrder_accounts (s : State) (c : Nat) (o : SellOrder) : (setOrder s c o).accounts = s.accounts := rfl
@[simp] theorem deleteOrder_pools (s : State) (c : Nat) (id : Bytes) : (deleteOrder s c id).pools = s.pools := rfl
@[simp] theorem deleteOrder_accounts (s : State) (c : Nat) (id : Bytes) : (deleteOrder s c id).accounts = s.accounts := rfl
@[simp] theorem setBalance_pools (s : State) (a : Bytes) (v : Nat) : (setBalance s a v).pools = s.pools := rfl
@[simp] theorem setBalance_orders (s : State) (a : Bytes) (v : Nat) : (setBalance s a v).orders = s.orders := rfl

theorem getPool_congr {s s' : State} (h : s'.pools = s.pools) (id : Nat) : getPool s' id = getPool s id := by
  simp [getPool, h]

theorem poolSub_ok {s s' : State} {id n : Nat} (h : poolSub s id n = .ok s') :
    n ≤ (getPool s id).amount ∧ s' = setPool s id { getPool s id with amount := (getPool s id).amount - n } := by
  unfold poolSub at h
  simp only at h
  split at h
  · cases h
  · injection h with h
    exact ⟨by omega, h.symm⟩

theorem accountAdd_ok {s s' : State} {a : Bytes} {n : Nat} (h : accountAdd s a n = .ok s') :
    s'.orders = s.orders ∧ s'.pools = s.pools ∧ s'.next = s.next ∧ s'.locked = s.locked ∧
    (s' = s ∧ n = 0 ∨ n ≠ 0 ∧ ¬ balance s a > maxU64 - n ∧ s' = setBalance s a (balance s a + n)) := by
  unfold accountAdd at h
  split at h
  · injection h with h; subst h; simp_all
  · split at h
    · cases h
    · injection h with h; subst h
      refine ⟨rfl, rfl, rfl, rfl, Or.inr ⟨by assumption, by assumption, rfl⟩⟩

theorem accountSub_ok {s s' : State} {a : Bytes} {n : Nat} (h : accountSub s a n = .ok s') :
    s'.orders = s.orders ∧ s'.pools = s.pools ∧ s'.next = s.next ∧ s'.locked = s.locked ∧
    n ≤ balance s a ∧ (s' = s ∧ n = 0 ∨ n ≠ 0 ∧ s' = setBalance s a (balance s a - n)) := by
  unfold accountSub at h
  split at h
  · injection h with h; subst h; simp_all
  · split at h
    · cases h
    · injection h with h; subst h
      refine ⟨rfl, rfl, rfl, rfl, by omega, Or.inr ⟨by assumption, rfl⟩⟩

/-! ## balances -/

theorem balance_setBalance_self (s : State) (a : Bytes) (v : Nat) (hnd : (AM.keys s.accounts).Nodup) :
    balance (setBalance s a v) a = v := by
  unfold balance setBalance
  by_cases hv : v = 0
  · simp [hv, AM.get?_del_self _ _ hnd]
  · simp [hv, AM.get?_set_self]

theorem balance_setBalance_other (s : State) (a a' : Bytes) (v : Nat) (h : a' ≠ a) :
    balance (setBalance s a v) a' = balance s a' := by
  unfold balance setBalance
  by_cases hv : v = 0
  · simp [hv, AM.get?_del_other _ _ _ h]
  · simp [hv, AM.get?_set_other _ _ _ _ h]

theorem accounts_nodup_setBalance (s : State) (a : Bytes) (v : Nat) (hnd : (AM.keys s.accounts).Nodup) :
    (AM.keys (setBalance s a v).accounts).Nodup := by
  unfold setBalance
  by_cases hv : v = 0
  · simp [hv]; exact AM.nodup_del _ _ hnd
  · simp [hv]; exact AM.nodup_set _ _ _ hnd

/-! ## the escrow invariant -/

def escAmt (s : State) (c : Nat) : Nat := (getPool s (escrowId c)).amount

/-- Σ amounts of the open sell orders of chain `c` -/
def escrowSum (s : State) (c : Nat) : Nat :=
  AM.wsum (fun (k : Nat × Bytes) (o : SellOrder) => if k.1 = c then o.amount else 0) s.orders

structure Inv (s : State) : Prop where
  ordersNodup : (AM.keys s.orders).Nodup
  accountsNodup : (AM.keys s.accounts).Nodup
  eq : ∀ c, c ≤ maxChainId → escAmt s c = escrowSum s c

theorem escrowSum_setOrder_new (s : State) (chain : Nat) (o : SellOrder) (c : Nat)
    (h : AM.get? s.orders (chain, o.id) = none) :
    escrowSum (setOrder s chain o) c = escrowSum s c + (if chain = c then o.amount else 0) := by
  unfold escrowSum setOrder
  simp only
  rw [AM.wsum_set_new _ _ _ _ h]

theorem escrowSum_setOrder_old (s : State) (chain : Nat) (o o0 : SellOrder) (c : Nat)
    (h : AM.get? s.orders (chain, o.id) = some o0) :
    escrowSum (setOrder s chain o) c + (if chain = c then o0.amount else 0)
      = escrowSum s c + (if chain = c then o.amount else 0) := by
  unfold escrowSum setOrder
  simp only
  exact AM.wsum_set_old _ _ _ _ _ h

theorem escrowSum_deleteOrder (s : State) (chain : Nat) (id : Bytes) (o0 : SellOrder) (c : Nat)
    (h : AM.get? s.orders (chain, id) = some o0) :
    escrowSum (deleteOrder s chain id) c + (if chain = c then o0.amount else 0) = escrowSum s c := by
  unfold escrowSum deleteOrder
  simp only
  exact AM.wsum_del _ _ _ _ h

theorem escrowSum_congr {s s' : State} (h : s'.orders = s.orders) (c : Nat) : escrowSum s' c = escrowSum s c := by
  simp [escrowSum, h]

theorem escAmt_congr {s s' : State} (h : s'.pools = s.pools) (c : Nat) : escAmt s' c = escAmt s c := by
  simp [escAmt, getPool_congr h]

theorem getOrder_ok {s : State} {c : Nat} {id : Bytes} {o : SellOrder} (h : getOrder s c id = .ok o) :
    AM.get? s.orders (c, id) = some o := by
  unfold getOrder at h
  split at h
  · injection h with h; subst h; assumption
  · cases h

end Canopy.Dex

namespace Canopy.Dex

/-- every stored order is stored under its own id (`SetOrder` keys by `order.Id`) -/
def Keyed (s : State) : Prop := ∀ k o, AM.get? s.orders k = some o → o.id = k.2

structure SInv (s : State) : Prop extends Inv s where
  keyed : Keyed s

theorem keyed_setOrder {s : State} (chain : Nat) (o : SellOrder) (h : Keyed s) : Keyed (setOrder s chain o) := by
  intro k o' hk
  by_cases hk' : k = (chain, o.id)
  · subst hk'
    simp [setOrder, AM.get?_set_self] at hk
    subst hk; rfl
  · simp [setOrder, AM.get?_set_other _ _ _ _ hk'] at hk
    exact h k o' hk

theorem keyed_deleteOrder {s : State} (chain : Nat) (id : Bytes) (hnd : (AM.keys s.orders).Nodup) (h : Keyed s) :
    Keyed (deleteOrder s chain id) := by
  intro k o' hk
  by_cases hk' : k = (chain, id)
  · subst hk'
    simp [deleteOrder, AM.get?_del_self _ _ hnd] at hk
  · simp [deleteOrder, AM.get?_del_other _ _ _ hk'] at hk
    exact h k o' hk

theorem keyed_congr {s s' : State} (h : s'.orders = s.orders) (hk : Keyed s) : Keyed s' := by
  intro k o hko; rw [h] at hko; exact hk k o hko

/-- an operation that leaves the order book and the escrow balances alone preserves the invariant -/
theorem sinv_of_frame {s s' : State} (hi : SInv s) (ho : s'.orders = s.orders)
    (hp : ∀ c, c ≤ maxChainId → escAmt s' c = escAmt s c) (ha : (AM.keys s'.accounts).Nodup) : SInv s' where
  ordersNodup := by rw [ho]; exact hi.ordersNodup
  accountsNodup := ha
  eq := fun c hc => by rw [hp c hc, escrowSum_congr ho, hi.eq c hc]
  keyed := keyed_congr ho hi.keyed

theorem accountAdd_nodup {s s' : State} {a : Bytes} {n : Nat} (h : accountAdd s a n = .ok s')
    (hnd : (AM.keys s.accounts).Nodup) : (AM.keys s'.accounts).Nodup := by
  rcases (accountAdd_ok h).2.2.2.2 with ⟨rfl, _⟩ | ⟨_, _, rfl⟩
  · exact hnd
  · exact accounts_nodup_setBalance _ _ _ hnd

theorem accountSub_nodup {s s' : State} {a : Bytes} {n : Nat} (h : accountSub s a n = .ok s')
    (hnd : (AM.keys s.accounts).Nodup) : (AM.keys s'.accounts).Nodup := by
  rcases (accountSub_ok h).2.2.2.2.2 with ⟨rfl, _⟩ | ⟨_, rfl⟩
  · exact hnd
  · exact accounts_nodup_setBalance _ _ _ hnd

theorem escAmt_poolAdd (s : State) (chain n c : Nat) (hc : c < U64) (hch : chain < U64) :
    escAmt (poolAdd s (escrowId chain) n) c = if chain = c then (escAmt s c + n) % U64 else escAmt s c := by
  unfold escAmt
  by_cases h : chain = c
  · subst h; simp [poolAdd_self]
  · have : escrowId c ≠ escrowId chain := fun e => h (escrowId_inj hc hch e).symm
    simp [h, poolAdd_other _ _ _ _ this]

theorem escAmt_setPool_sub (s : State) (chain n c : Nat) (hc : c < U64) (hch : chain < U64) :
    escAmt (setPool s (escrowId chain) { getPool s (escrowId chain) with amount := (getPool s (escrowId chain)).amount - n }) c
      = if chain = c then escAmt s c - n else escAmt s c := by
  unfold escAmt
  by_cases h : chain = c
  · subst h; simp [getPool_setPool_self]
  · have : escrowId c ≠ escrowId chain := fun e => h (escrowId_inj hc hch e).symm
    simp [h, getPool_setPool_other _ _ _ _ this]

theorem checkChainId_ok {c : Nat} {u : Unit} (h : checkChainId c = .ok u) : c ≠ 0 ∧ c ≤ maxChainId := by
  unfold checkChainId at h
  split at h
  · cases h
  · split at h
    · cases h
    · constructor <;> omega

theorem maxChainId_lt {c : Nat} (h : c ≤ maxChainId) : c < U64 := by
  unfold maxChainId at h; unfold U64; omega

/-! ### create -/

theorem createOrder_ok {s s' : State} {m : CreateOrder} (h : createOrder s m = .ok s') :
    ∃ s1, accountSub s m.seller m.amount = .ok s1 ∧ m.chain ≤ maxChainId ∧
      s' = setOrder (poolAdd s1 (escrowId m.chain) m.amount) m.chain
        { id := m.id, committee := m.chain, data := m.data, amount := m.amount, requested := m.requested,
          sellerRecv := m.sellerRecv, seller := m.seller } := by
  unfold createOrder at h
  simp only [bind, Except.bind, pure, Except.pure, throw, throwThe, MonadExceptOf.throw] at h
  repeat (split at h <;> try (simp at h; done))
  injection h with h
  exact ⟨_, ‹accountSub s m.seller m.amount = Except.ok _›, (checkChainId_ok ‹checkChainId m.chain = Except.ok _›).2, h.symm⟩

/-- creating an order under a FRESH id, with the escrow balance staying within `uint64`, keeps the invariant -/
theorem createOrder_inv {s s' : State} {m : CreateOrder} (hi : SInv s) (h : createOrder s m = .ok s')
    (hfresh : AM.get? s.orders (m.chain, m.id) = none) (hfit : escAmt s m.chain + m.amount < U64) : SInv s' := by
  obtain ⟨s1, hs1, hch, rfl⟩ := createOrder_ok h
  have hch64 := maxChainId_lt hch
  obtain ⟨ho1, hp1, _, _, _, _⟩ := accountSub_ok hs1
  refine { ordersNodup := ?_, accountsNodup := ?_, eq := ?_, keyed := ?_ }
  · simp only [setOrder]; rw [poolAdd_orders, ho1]; exact AM.nodup_set _ _ _ hi.ordersNodup
  · simp only [setOrder_accounts, poolAdd_accounts]; exact accountSub_nodup hs1 hi.accountsNodup
  · intro c hc'
    have hc := maxChainId_lt hc'
    have hfresh' : AM.get? (poolAdd s1 (escrowId m.chain) m.amount).orders (m.chain, m.id) = none := by
      rw [poolAdd_orders, ho1]; exact hfresh
    rw [escrowSum_setOrder_new _ _ _ _ hfresh', escrowSum_congr (show (poolAdd s1 _ _).orders = s.orders by rw [poolAdd_orders, ho1])]
    rw [escAmt_congr (setOrder_pools _ _ _), escAmt_poolAdd _ _ _ _ hc hch64, escAmt_congr hp1, ← hi.eq c hc']
    by_cases hcc : m.chain = c
    · subst hcc; simp; exact Nat.mod_eq_of_lt hfit
    · simp [hcc]
  · exact keyed_setOrder _ _ (keyed_congr (by rw [poolAdd_orders, ho1]) hi.keyed)

/-! ### lock / reset: the amount does not change -/

theorem setOrder_same_amount_inv {s : State} {chain : Nat} {o o' : SellOrder} (hi : SInv s)
    (hget : AM.get? s.orders (chain, o.id) = some o) (hid : o'.id = o.id) (hamt : o'.amount = o.amount) :
    SInv (setOrder s chain o') := by
  refine { ordersNodup := ?_, accountsNodup := hi.accountsNodup, eq := ?_, keyed := keyed_setOrder _ _ hi.keyed }
  · exact AM.nodup_set _ _ _ hi.ordersNodup
  · intro c hc'
    have hc := maxChainId_lt hc'
    have := escrowSum_setOrder_old s chain o' o c (by rw [hid]; exact hget)
    rw [hamt] at this
    rw [escAmt_congr (setOrder_pools _ _ _), hi.eq c hc']
    omega

theorem lockOrder_inv {s s' : State} {chain : Nat} {l : LockOrder} (hi : SInv s) (h : lockOrder s chain l = .ok s') : SInv s' := by
  unfold lockOrder at h
  simp only [bind, Except.bind, pure, Except.pure, throw, throwThe, MonadExceptOf.throw] at h
  repeat (split at h <;> try (simp at h; done))
  injection h with h
  subst h
  have hg := getOrder_ok ‹getOrder s chain l.id = Except.ok _›
  rename_i o _ _
  have hid : o.id = l.id := hi.keyed _ _ hg
  exact setOrder_same_amount_inv (o := o) hi (by rw [hid]; exact hg) rfl rfl

theorem resetOrder_inv {s s' : State} {chain : Nat} {id : Bytes} (hi : SInv s) (h : resetOrder s chain id = .ok s') : SInv s' := by
  unfold resetOrder at h
  simp only [bind, Except.bind, pure, Except.pure] at h
  repeat (split at h <;> try (simp at h; done))
  injection h with h
  subst h
  have hg := getOrder_ok ‹getOrder s chain id = Except.ok _›
  rename_i o _
  have hid : o.id = id := hi.keyed _ _ hg
  exact setOrder_same_amount_inv (o := o) hi (by rw [hid]; exact hg) rfl rfl

/-! ### delete / close: the escrowed amount leaves escrow, the order leaves the book -/

theorem remove_inv {s s1 s2 : State} {chain : Nat} {id : Bytes} {o : SellOrder} {a : Bytes} (hi : SInv s) (hch : chain < U64)
    (hg : AM.get? s.orders (chain, id) = some o)
    (h1 : poolSub s (escrowId chain) o.amount = .ok s1) (h2 : accountAdd s1 a o.amount = .ok s2) :
    SInv (deleteOrder s2 chain id) := by
  obtain ⟨hle, rfl⟩ := poolSub_ok h1
  obtain ⟨ho2, hp2, _, _, _⟩ := accountAdd_ok h2
  have hord : s2.orders = s.orders := ho2
  refine { ordersNodup := ?_, accountsNodup := ?_, eq := ?_, keyed := ?_ }
  · simp only [deleteOrder]; rw [hord]; exact AM.nodup_del _ _ hi.ordersNodup
  · simp only [deleteOrder_accounts]; exact accountAdd_nodup h2 hi.accountsNodup
  · intro c hc'
    have hc := maxChainId_lt hc'
    have hsum := escrowSum_deleteOrder s2 chain id o c (by rw [hord]; exact hg)
    rw [escrowSum_congr hord] at hsum
    rw [escAmt_congr (deleteOrder_pools _ _ _), escAmt_congr hp2, escAmt_setPool_sub _ _ _ _ hc hch]
    have := hi.eq c hc'
    by_cases hcc : chain = c
    · subst hcc; simp at hsum ⊢; unfold escAmt at this ⊢; omega
    · simp [hcc] at hsum ⊢; omega
  · exact keyed_deleteOrder _ _ (by rw [hord]; exact hi.ordersNodup) (keyed_congr hord hi.keyed)

theorem deleteOrderMsg_ok {s s' : State} {chain : Nat} {id : Bytes} (h : deleteOrderMsg s chain id = .ok s') :
    ∃ o s1 s2, chain ≤ maxChainId ∧ AM.get? s.orders (chain, id) = some o ∧ o.buyerRecv = [] ∧
      poolSub s (escrowId chain) o.amount = .ok s1 ∧ accountAdd s1 o.seller o.amount = .ok s2 ∧
      s' = deleteOrder s2 chain id := by
  unfold deleteOrderMsg at h
  simp only [bind, Except.bind, pure, Except.pure, throw, throwThe, MonadExceptOf.throw] at h
  repeat (split at h <;> try (simp at h; done))
  injection h with h
  exact ⟨_, _, _, (checkChainId_ok ‹checkChainId chain = Except.ok _›).2, getOrder_ok ‹getOrder s chain id = Except.ok _›,
    by simpa using ‹¬_ ≠ []›, ‹poolSub s (escrowId chain) _ = Except.ok _›, ‹accountAdd _ _ _ = Except.ok _›, h.symm⟩

theorem deleteOrderMsg_inv {s s' : State} {chain : Nat} {id : Bytes} (hi : SInv s) (h : deleteOrderMsg s chain id = .ok s') : SInv s' := by
  obtain ⟨o, s1, s2, hch, hg, _, h1, h2, rfl⟩ := deleteOrderMsg_ok h
  exact remove_inv hi (maxChainId_lt hch) hg h1 h2

theorem closeOrder_ok {s s' : State} {chain : Nat} {id : Bytes} (h : closeOrder s chain id = .ok s') :
    ∃ o s1 s2, AM.get? s.orders (chain, id) = some o ∧ o.buyerRecv ≠ [] ∧
      poolSub s (escrowId chain) o.amount = .ok s1 ∧ accountAdd s1 o.buyerRecv o.amount = .ok s2 ∧
      s' = deleteOrder s2 chain id := by
  unfold closeOrder at h
  simp only [bind, Except.bind, pure, Except.pure, throw, throwThe, MonadExceptOf.throw] at h
  repeat (split at h <;> try (simp at h; done))
  injection h with h
  exact ⟨_, _, _, getOrder_ok ‹getOrder s chain id = Except.ok _›, ‹¬_ = []›,
    ‹poolSub s (escrowId chain) _ = Except.ok _›, ‹accountAdd _ _ _ = Except.ok _›, h.symm⟩

theorem closeOrder_inv {s s' : State} {chain : Nat} {id : Bytes} (hi : SInv s) (hch : chain < U64)
    (h : closeOrder s chain id = .ok s') : SInv s' := by
  obtain ⟨o, s1, s2, hg, _, h1, h2, rfl⟩ := closeOrder_ok h
  exact remove_inv hi hch hg h1 h2

/-! ### edit -/

theorem editOrder_ok {s s' : State} {m : EditOrder} (h : editOrder s m = .ok s') :
    ∃ o s2, m.chain ≤ maxChainId ∧ AM.get? s.orders (m.chain, m.id) = some o ∧ o.buyerRecv = [] ∧
      ((m.amount > o.amount ∧ ∃ s1, accountSub s o.seller (m.amount - o.amount) = .ok s1 ∧
          s2 = poolAdd s1 (escrowId m.chain) (m.amount - o.amount)) ∨
       (m.amount < o.amount ∧ ∃ s1, poolSub s (escrowId m.chain) (o.amount - m.amount) = .ok s1 ∧
          accountAdd s1 o.seller (o.amount - m.amount) = .ok s2) ∨
       (m.amount = o.amount ∧ s2 = s)) ∧
      s' = setOrder s2 m.chain { id := o.id, committee := m.chain, data := m.data, amount := m.amount,
                                  requested := m.requested, sellerRecv := m.sellerRecv, seller := o.seller } := by
  unfold editOrder at h
  simp only [bind, Except.bind, pure, Except.pure, throw, throwThe, MonadExceptOf.throw] at h
  repeat (split at h <;> try (simp at h; done))
  all_goals (repeat (split at h <;> try (simp at h; done)))
  all_goals (injection h with h)
  · refine ⟨_, _, (checkChainId_ok ‹checkChainId m.chain = Except.ok _›).2, getOrder_ok ‹getOrder s m.chain m.id = Except.ok _›,
      by simpa using ‹¬_ ≠ []›, Or.inl ⟨‹m.amount > _›, _, ‹accountSub s _ _ = Except.ok _›, rfl⟩, h.symm⟩
  · refine ⟨_, _, (checkChainId_ok ‹checkChainId m.chain = Except.ok _›).2, getOrder_ok ‹getOrder s m.chain m.id = Except.ok _›,
      by simpa using ‹¬_ ≠ []›, Or.inr (Or.inl ⟨‹m.amount < _›, _, ‹poolSub s _ _ = Except.ok _›, ‹accountAdd _ _ _ = Except.ok _›⟩), h.symm⟩
  · refine ⟨_, _, (checkChainId_ok ‹checkChainId m.chain = Except.ok _›).2, getOrder_ok ‹getOrder s m.chain m.id = Except.ok _›,
      by simpa using ‹¬_ ≠ []›, Or.inr (Or.inr ⟨by omega, rfl⟩), h.symm⟩

theorem editOrder_inv {s s' : State} {m : EditOrder} (hi : SInv s) (h : editOrder s m = .ok s')
    (hfit : ∀ o, AM.get? s.orders (m.chain, m.id) = some o → escAmt s m.chain + (m.amount - o.amount) < U64) : SInv s' := by
  obtain ⟨o, s2, hch, hg, _, hcase, rfl⟩ := editOrder_ok h
  have hch64 := maxChainId_lt hch
  have hid : o.id = m.id := hi.keyed _ _ hg
  have hfit := hfit o hg
  -- s2: same orders; escrow of m.chain moved by the difference
  have key : s2.orders = s.orders ∧ (AM.keys s2.accounts).Nodup ∧
      ∀ c, c < U64 → escAmt s2 c + (if m.chain = c then o.amount else 0) = escAmt s c + (if m.chain = c then m.amount else 0) := by
    rcases hcase with ⟨hgt, s1, h1, rfl⟩ | ⟨hlt, s1, h1, h2⟩ | ⟨heq, rfl⟩
    · obtain ⟨ho1, hp1, _, _, _, _⟩ := accountSub_ok h1
      refine ⟨by rw [poolAdd_orders, ho1], by rw [poolAdd_accounts]; exact accountSub_nodup h1 hi.accountsNodup, ?_⟩
      intro c hc
      rw [escAmt_poolAdd _ _ _ _ hc hch64, escAmt_congr hp1]
      by_cases hcc : m.chain = c
      · subst hcc; simp; rw [Nat.mod_eq_of_lt hfit]; omega
      · simp [hcc]
    · obtain ⟨hle, rfl⟩ := poolSub_ok h1
      obtain ⟨ho2, hp2, _, _, _⟩ := accountAdd_ok h2
      refine ⟨ho2, accountAdd_nodup h2 hi.accountsNodup, ?_⟩
      intro c hc
      rw [escAmt_congr hp2, escAmt_setPool_sub _ _ _ _ hc hch64]
      by_cases hcc : m.chain = c
      · subst hcc; simp; unfold escAmt; omega
      · simp [hcc]
    · exact ⟨rfl, hi.accountsNodup, fun c _ => by simp [heq]⟩
  obtain ⟨hord, hacc, hesc⟩ := key
  refine { ordersNodup := ?_, accountsNodup := hacc, eq := ?_, keyed := keyed_setOrder _ _ (keyed_congr hord hi.keyed) }
  · simp only [setOrder]; rw [hord]; exact AM.nodup_set _ _ _ hi.ordersNodup
  · intro c hc'
    have hc := maxChainId_lt hc'
    have hsum := escrowSum_setOrder_old s2 m.chain
      { id := o.id, committee := m.chain, data := m.data, amount := m.amount, requested := m.requested,
        sellerRecv := m.sellerRecv, seller := o.seller } o c (by rw [hord, hid]; exact hg)
    rw [escrowSum_congr hord] at hsum
    have := hesc c hc
    have := hi.eq c hc'
    rw [escAmt_congr (setOrder_pools _ _ _)]
    simp only at hsum
    omega

/-! ### exactly the escrowed amount, exactly once -/

theorem accountAdd_balance {s s' : State} {a : Bytes} {n : Nat} (h : accountAdd s a n = .ok s')
    (hnd : (AM.keys s.accounts).Nodup) :
    balance s' a = balance s a + n ∧ ∀ a', a' ≠ a → balance s' a' = balance s a' := by
  rcases (accountAdd_ok h).2.2.2.2 with ⟨rfl, rfl⟩ | ⟨_, _, rfl⟩
  · exact ⟨rfl, fun _ _ => rfl⟩
  · exact ⟨balance_setBalance_self _ _ _ hnd, fun a' ha' => balance_setBalance_other _ _ _ _ ha'⟩

theorem balance_congr {s s' : State} (h : s'.accounts = s.accounts) (a : Bytes) : balance s' a = balance s a := by
  simp [balance, h]

/-- what removing an order (close: to the buyer; delete: to the seller) does, exactly -/
theorem remove_exact {s s1 s2 : State} {chain : Nat} {id : Bytes} {o : SellOrder} {a : Bytes} (hi : SInv s) (hch : chain < U64)
    (h1 : poolSub s (escrowId chain) o.amount = .ok s1) (h2 : accountAdd s1 a o.amount = .ok s2) :
    escAmt (deleteOrder s2 chain id) chain + o.amount = escAmt s chain ∧
    (∀ c, c < U64 → c ≠ chain → escAmt (deleteOrder s2 chain id) c = escAmt s c) ∧
    balance (deleteOrder s2 chain id) a = balance s a + o.amount ∧
    (∀ a', a' ≠ a → balance (deleteOrder s2 chain id) a' = balance s a') ∧
    AM.get? (deleteOrder s2 chain id).orders (chain, id) = none := by
  obtain ⟨hle, rfl⟩ := poolSub_ok h1
  obtain ⟨ho2, hp2, _, _, _⟩ := accountAdd_ok h2
  have hb := accountAdd_balance h2 (by exact hi.accountsNodup)
  refine ⟨?_, ?_, ?_, ?_, ?_⟩
  · rw [escAmt_congr (deleteOrder_pools _ _ _), escAmt_congr hp2, escAmt_setPool_sub _ _ _ _ hch hch]
    simp; unfold escAmt; omega
  · intro c hc hne
    rw [escAmt_congr (deleteOrder_pools _ _ _), escAmt_congr hp2, escAmt_setPool_sub _ _ _ _ hc hch]
    simp [Ne.symm hne]
  · rw [balance_congr (deleteOrder_accounts _ _ _), hb.1]; rfl
  · intro a' ha'
    rw [balance_congr (deleteOrder_accounts _ _ _), hb.2 a' ha']; rfl
  · simp only [deleteOrder]; rw [ho2]
    exact AM.get?_del_self _ _ hi.ordersNodup

theorem getOrder_none {s : State} {chain : Nat} {id : Bytes} (h : AM.get? s.orders (chain, id) = none) :
    getOrder s chain id = .error .OrderNotFound := by
  simp [getOrder, h]

/-- an instruction for an order that is not in the book finds nothing and changes nothing -/
theorem gone_finds_nothing {s : State} {chain : Nat} {id : Bytes} (h : AM.get? s.orders (chain, id) = none) :
    closeOrder s chain id = .error .OrderNotFound ∧ resetOrder s chain id = .error .OrderNotFound ∧
    (∀ l : LockOrder, l.id = id → lockOrder s chain l = .error .OrderNotFound) ∧
    (∀ u, checkChainId chain = .ok u → deleteOrderMsg s chain id = .error .OrderNotFound) := by
  have hg := getOrder_none h
  refine ⟨by simp [closeOrder, hg, bind, Except.bind], by simp [resetOrder, hg, bind, Except.bind], ?_, ?_⟩
  · intro l hl; subst hl; simp [lockOrder, hg, bind, Except.bind]
  · intro u hu; simp [deleteOrderMsg, hu, hg, bind, Except.bind]

/-! ### the whole certificate -/

theorem orSkip_inv {s : State} {r : M State} (hi : SInv s) (h : ∀ s', r = .ok s' → SInv s') : SInv (orSkip s r) := by
  unfold orSkip
  split
  · exact h _ rfl
  · exact hi

theorem foldl_inv {α : Type} (f : State → α → State) (l : List α) (s : State) (hi : SInv s)
    (h : ∀ s a, SInv s → SInv (f s a)) : SInv (l.foldl f s) := by
  induction l generalizing s with
  | nil => exact hi
  | cons a l ih => exact ih _ (h s a hi)

theorem handleCommitteeSwaps_inv {s : State} {chain : Nat} (o : Orders) (hi : SInv s) (hch : chain < U64) :
    SInv (handleCommitteeSwaps s chain o) := by
  unfold handleCommitteeSwaps
  apply foldl_inv _ _ _ _ (fun s id hs => orSkip_inv hs (fun s' h => closeOrder_inv hs hch h))
  apply foldl_inv _ _ _ _ (fun s id hs => by
    split
    · exact hs
    · exact orSkip_inv hs (fun s' h => resetOrder_inv hs h))
  apply foldl_inv _ _ _ hi (fun s l hs => by
    split
    · exact hs
    · exact orSkip_inv hs (fun s' h => lockOrder_inv hs h))

end Canopy.Dex
