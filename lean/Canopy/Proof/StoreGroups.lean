import Canopy.Proof.StoreOrder
/-! The physical key list as a sequence of per-user-key groups (C10): under `WFKeys` (no stored user
key is a proper byte-prefix of another) all versions of one user key are contiguous, newest first,
and the groups appear in byte order of their user keys. -/
namespace Canopy.Store
open Canopy

/-- all versions of one user key: `(version, rawValue)` newest first -/
structure G where
  uk : Bytes
  es : List (Nat × Bytes)

def G.entries (g : G) : List Entry := g.es.map fun p => (mkKey g.uk p.1, p.2)

def flat (gs : List G) : List Entry := (gs.map G.entries).flatten

/-- the entry a reader at version `v` sees for this user key -/
def G.pick (v : Nat) (g : G) : Option (Bytes × Bytes) :=
  match g.es.find? fun p => decide (p.1 ≤ v) with
  | none => none
  | some p => if (parseVal p.2).1 = deadTomb then none else some (g.uk, (parseVal p.2).2)

structure G.WF (g : G) : Prop where
  uk_ne : g.uk ≠ []
  uk_len : g.uk.length ≤ 248
  es_ne : g.es ≠ []
  desc : g.es.Pairwise fun p q => q.1 < p.1
  le_max : ∀ p ∈ g.es, p.1 ≤ maxVer

/-- groups in byte order of their user keys, no user key a prefix of another -/
structure WFG (gs : List G) : Prop where
  wf : ∀ g ∈ gs, g.WF
  order : gs.Pairwise fun g h => blt g.uk h.uk = true ∧ ¬ g.uk <+: h.uk

theorem WFG.nil : WFG [] := ⟨by simp, by simp⟩

theorem WFG.tail {g : G} {gs : List G} (h : WFG (g :: gs)) : WFG gs :=
  ⟨fun x hx => h.wf x (List.mem_cons_of_mem _ hx), (List.pairwise_cons.mp h.order).2⟩

theorem WFG.append_left {a b : List G} (h : WFG (a ++ b)) : WFG a :=
  ⟨fun x hx => h.wf x (List.mem_append_left _ hx), (List.pairwise_append.mp h.order).1⟩

theorem WFG.append_right {a b : List G} (h : WFG (a ++ b)) : WFG b :=
  ⟨fun x hx => h.wf x (List.mem_append_right _ hx), (List.pairwise_append.mp h.order).2.1⟩

@[simp] theorem flat_nil : flat [] = [] := rfl
@[simp] theorem flat_cons (g : G) (gs : List G) : flat (g :: gs) = g.entries ++ flat gs := by
  simp [flat]
@[simp] theorem flat_append (a b : List G) : flat (a ++ b) = flat a ++ flat b := by
  simp [flat]

theorem mem_flat {gs : List G} {e : Entry} : e ∈ flat gs ↔ ∃ g ∈ gs, e ∈ g.entries := by
  simp only [flat, List.mem_flatten, List.mem_map]
  constructor
  · rintro ⟨l, ⟨g, hg, rfl⟩, he⟩; exact ⟨g, hg, he⟩
  · rintro ⟨g, hg, he⟩; exact ⟨_, ⟨g, hg, rfl⟩, he⟩

theorem mem_entries {g : G} {e : Entry} : e ∈ g.entries ↔ ∃ p ∈ g.es, e = (mkKey g.uk p.1, p.2) := by
  simp [G.entries, eq_comm]

/-- every key of an earlier group is below anything that extends a later group's user key -/
theorem blt_of_earlier {g h : G} (hlt : blt g.uk h.uk = true) (hp : ¬ g.uk <+: h.uk)
    {e : Entry} (he : e ∈ g.entries) (t : Bytes) : blt e.1 (h.uk ++ t) = true := by
  obtain ⟨p, _, rfl⟩ := mem_entries.mp he
  exact blt_append_of_not_prefix hlt hp _ _

/-- every key of a later group is above anything that extends an earlier group's user key -/
theorem blt_of_later {g h : G} (hlt : blt g.uk h.uk = true) (hp : ¬ g.uk <+: h.uk)
    {e : Entry} (he : e ∈ h.entries) (t : Bytes) : blt (g.uk ++ t) e.1 = true := by
  obtain ⟨p, _, rfl⟩ := mem_entries.mp he
  exact blt_append_of_not_prefix hlt hp _ _

theorem WFG.before {a : List G} {g : G} {b : List G} (h : WFG (a ++ g :: b))
    {e : Entry} (he : e ∈ flat a) (t : Bytes) : blt e.1 (g.uk ++ t) = true := by
  obtain ⟨x, hx, hex⟩ := mem_flat.mp he
  have := (List.pairwise_append.mp h.order).2.2 x hx g (List.mem_cons_self)
  exact blt_of_earlier this.1 this.2 hex t

theorem WFG.after {a : List G} {g : G} {b : List G} (h : WFG (a ++ g :: b))
    {e : Entry} (he : e ∈ flat b) (t : Bytes) : blt (g.uk ++ t) e.1 = true := by
  obtain ⟨x, hx, hex⟩ := mem_flat.mp he
  have := (List.pairwise_cons.mp (List.pairwise_append.mp h.order).2.1).1 x hx
  exact blt_of_later this.1 this.2 hex t

theorem WFG.uk_ne_of_mem {a : List G} {g : G} {b : List G} (h : WFG (a ++ g :: b)) :
    (∀ x ∈ a, x.uk ≠ g.uk) ∧ (∀ x ∈ b, x.uk ≠ g.uk) := by
  constructor
  · intro x hx e
    have := (List.pairwise_append.mp h.order).2.2 x hx g (List.mem_cons_self)
    rw [e, blt_irrefl] at this; simp at this
  · intro x hx e
    have := (List.pairwise_cons.mp (List.pairwise_append.mp h.order).2.1).1 x hx
    rw [e, blt_irrefl] at this; simp at this

/-! ## shape of the entries of one group -/

theorem G.WF.userKeyOf {g : G} (h : g.WF) {e : Entry} (he : e ∈ g.entries) : userKeyOf? e.1 = some g.uk := by
  obtain ⟨p, _, rfl⟩ := mem_entries.mp he
  exact userKeyOf_mkKey _ h.uk_ne

theorem G.WF.versionOf {g : G} (h : g.WF) {p : Nat × Bytes} (hp : p ∈ g.es) :
    versionOf (mkKey g.uk p.1) = p.1 := versionOf_mkKey _ (h.le_max p hp)

end Canopy.Store
