import Canopy.Model.DexArith
/-! Helper lemmas for the AMM arithmetic (C20). Core Lean only. -/
namespace Canopy.Dex
open Canopy.Gen.Dex

theorem safeMulDiv_gen (a b c : Nat) : SafeMulDiv a b c = some (safeMulDiv a b c) := by
  unfold SafeMulDiv safeMulDiv U64
  by_cases h : c = 0 <;> simp [h]

theorem sqrtProduct_gen (x y : Nat) : SqrtProductUint64 x y = some (sqrtProduct x y) := by
  simp [SqrtProductUint64, sqrtProduct, U64]

theorem safeMulDiv_le (a b c : Nat) : safeMulDiv a b c ≤ a * b / c := by
  unfold safeMulDiv
  split
  · exact Nat.zero_le _
  · exact Nat.mod_le _ _

/-- the raw (un-truncated) AMM output -/
def rawDY (x y dX : Nat) : Nat := dX * 990 * y / (x * 1000 + dX * 990)

theorem computeDY_eq (x y dX : Nat) (h : 0 < x ∨ 0 < dX) :
    computeDY x y dX = some (rawDY x y dX % U64) := by
  unfold computeDY SafeComputeDY rawDY U64
  simp
  omega

theorem computeDY_panic : computeDY 0 y 0 = none := by
  simp [computeDY, SafeComputeDY]

theorem den_pos (x dX : Nat) (hx : 0 < x) : 0 < x * 1000 + dX * 990 :=
  Nat.add_pos_left (Nat.mul_pos hx (by decide)) _

theorem rawDY_lt (x y dX : Nat) (hx : 0 < x) (hy : 0 < y) : rawDY x y dX < y := by
  unfold rawDY
  rw [Nat.div_lt_iff_lt_mul (den_pos x dX hx), Nat.mul_add, Nat.mul_comm (dX * 990) y]
  exact Nat.lt_add_of_pos_left (Nat.mul_pos hy (Nat.mul_pos hx (by decide)))

theorem rawDY_product (x y dX : Nat) (hx : 0 < x) (hy : 0 < y) :
    x * y ≤ (x + dX) * (y - rawDY x y dX) := by
  have hlt := rawDY_lt x y dX hx hy
  have hd := den_pos x dX hx
  -- dY * den ≤ num
  have h1 : rawDY x y dX * (x * 1000 + dX * 990) ≤ dX * 990 * y := Nat.div_mul_le_self _ _
  -- (x+dX) * dY ≤ dX * y
  have h2 : (x + dX) * rawDY x y dX ≤ dX * y := by
    apply Nat.le_of_mul_le_mul_right _ hd
    calc (x + dX) * rawDY x y dX * (x * 1000 + dX * 990)
        = (x + dX) * (rawDY x y dX * (x * 1000 + dX * 990)) := Nat.mul_assoc _ _ _
      _ ≤ (x + dX) * (dX * 990 * y) := Nat.mul_le_mul_left _ h1
      _ = ((x + dX) * 990) * (dX * y) := by ac_rfl
      _ ≤ (x * 1000 + dX * 990) * (dX * y) := Nat.mul_le_mul_right _ (by rw [Nat.add_mul]; exact Nat.add_le_add_right (Nat.mul_le_mul_left _ (by decide)) _)
      _ = dX * y * (x * 1000 + dX * 990) := Nat.mul_comm _ _
  rw [Nat.mul_sub, Nat.add_mul]
  omega

theorem rawDY_fits (x y dX : Nat) (hx : 0 < x) (hy : 0 < y) (hy64 : y < U64) :
    rawDY x y dX % U64 = rawDY x y dX :=
  Nat.mod_eq_of_lt (Nat.lt_trans (rawDY_lt x y dX hx hy) hy64)

theorem safeMulDiv_lt (a b c : Nat) : safeMulDiv a b c < U64 := by
  unfold safeMulDiv
  split
  · decide
  · exact Nat.mod_lt _ (by decide)

theorem safeMulDiv_exact (a b c : Nat) (hc : c ≠ 0) (h : a * b / c < U64) : safeMulDiv a b c = a * b / c := by
  unfold safeMulDiv
  rw [if_neg hc, Nat.mod_eq_of_lt h]

/-- two-stage pro-rata (`total := r*T/P`, `share := total*pts/T`) never exceeds the direct share `r*pts/P` -/
theorem share_le (r T P pts : Nat) :
    safeMulDiv (safeMulDiv r T P) pts T ≤ r * pts / P := by
  by_cases hP : P = 0
  · have : safeMulDiv r T P = 0 := by simp [safeMulDiv, hP]
    rw [this]
    have := safeMulDiv_le 0 pts T
    simp at this
    rw [this]
    exact Nat.zero_le _
  by_cases hT : T = 0
  · simp [safeMulDiv, hT]
  have hPpos : 0 < P := Nat.pos_of_ne_zero hP
  have hTpos : 0 < T := Nat.pos_of_ne_zero hT
  have hq : safeMulDiv r T P * P ≤ r * T :=
    Nat.le_trans (Nat.mul_le_mul_right _ (safeMulDiv_le r T P)) (Nat.div_mul_le_self _ _)
  have hs : safeMulDiv (safeMulDiv r T P) pts T * T ≤ safeMulDiv r T P * pts :=
    Nat.le_trans (Nat.mul_le_mul_right _ (safeMulDiv_le _ pts T)) (Nat.div_mul_le_self _ _)
  rw [Nat.le_div_iff_mul_le hPpos]
  apply Nat.le_of_mul_le_mul_right _ hTpos
  calc safeMulDiv (safeMulDiv r T P) pts T * P * T
      = safeMulDiv (safeMulDiv r T P) pts T * T * P := by ac_rfl
    _ ≤ safeMulDiv r T P * pts * P := Nat.mul_le_mul_right _ hs
    _ = safeMulDiv r T P * P * pts := by ac_rfl
    _ ≤ r * T * pts := Nat.mul_le_mul_right _ hq
    _ = r * pts * T := by ac_rfl

theorem sqrt_lt_U64 (x y : Nat) (hx : x < U64) (hy : y < U64) : Nat.sqrt (x * y) < U64 := by
  apply Nat.mul_self_lt_mul_self_iff.mp
  calc Nat.sqrt (x * y) * Nat.sqrt (x * y) ≤ x * y := Nat.sqrt_le _
    _ < U64 * U64 := Nat.mul_lt_mul'' hx hy

theorem sqrtProduct_exact (x y : Nat) (hx : x < U64) (hy : y < U64) : sqrtProduct x y = Nat.sqrt (x * y) :=
  Nat.mod_eq_of_lt (sqrt_lt_U64 x y hx hy)

theorem sqrt_mono {a b : Nat} (h : a ≤ b) : Nat.sqrt a ≤ Nat.sqrt b := by
  apply Nat.le_of_lt_succ
  apply Nat.mul_self_lt_mul_self_iff.mp
  calc Nat.sqrt a * Nat.sqrt a ≤ a := Nat.sqrt_le _
    _ ≤ b := h
    _ < Nat.succ (Nat.sqrt b) * Nat.succ (Nat.sqrt b) := Nat.lt_succ_sqrt _


/-- characterisation of the integer square root (lets concrete values be checked by `decide`) -/
theorem sqrt_eq_of {n r : Nat} (h1 : r * r ≤ n) (h2 : n < (r + 1) * (r + 1)) : Nat.sqrt n = r := by
  apply Nat.le_antisymm
  · apply Nat.le_of_lt_succ
    apply Nat.mul_self_lt_mul_self_iff.mp
    exact Nat.lt_of_le_of_lt (Nat.sqrt_le n) h2
  · apply Nat.le_of_lt_succ
    apply Nat.mul_self_lt_mul_self_iff.mp
    exact Nat.lt_of_le_of_lt h1 (Nat.lt_succ_sqrt n)

end Canopy.Dex
