import Canopy.Model.Auth
/-! Helper lemmas for C05 (core Lean only): inversion of the `Except` pipeline of `Auth.applyTx`,
what `debit` / `poolSub` add to a change log, and the per-kind case analysis of `Auth.handle`. -/
namespace Canopy.Auth
set_option linter.unusedVariables false

/-! ## change-log projections -/

@[simp] theorem debited_nil : debited [] = [] := rfl
@[simp] theorem debited_cons (c : Change) (l : List Change) : debited (c :: l) = (c.debitedAddr).toList ++ debited l := by
  cases h : c.debitedAddr <;> simp [debited, h]
@[simp] theorem debited_append (a b : List Change) : debited (a ++ b) = debited a ++ debited b := by
  simp [debited, List.filterMap_append]

@[simp] theorem credited_nil : credited [] = [] := rfl
@[simp] theorem credited_cons (c : Change) (l : List Change) : credited (c :: l) = (c.creditedAddr).toList ++ credited l := by
  cases h : c.creditedAddr <;> simp [credited, h]
@[simp] theorem credited_append (a b : List Change) : credited (a ++ b) = credited a ++ credited b := by
  simp [credited, List.filterMap_append]

@[simp] theorem validatorsChanged_nil : validatorsChanged [] = [] := rfl
@[simp] theorem validatorsChanged_cons (c : Change) (l : List Change) : validatorsChanged (c :: l) = (c.changedValidator).toList ++ validatorsChanged l := by
  cases h : c.changedValidator <;> simp [validatorsChanged, h]
@[simp] theorem validatorsChanged_append (a b : List Change) : validatorsChanged (a ++ b) = validatorsChanged a ++ validatorsChanged b := by
  simp [validatorsChanged, List.filterMap_append]

@[simp] theorem outputsRedirected_nil : outputsRedirected [] = [] := rfl
@[simp] theorem outputsRedirected_cons (c : Change) (l : List Change) : outputsRedirected (c :: l) = (c.redirectedValidator).toList ++ outputsRedirected l := by
  cases h : c.redirectedValidator <;> simp [outputsRedirected, h]
@[simp] theorem outputsRedirected_append (a b : List Change) : outputsRedirected (a ++ b) = outputsRedirected a ++ outputsRedirected b := by
  simp [outputsRedirected, List.filterMap_append]

@[simp] theorem validatorsCreated_nil : validatorsCreated [] = [] := rfl
@[simp] theorem validatorsCreated_cons (c : Change) (l : List Change) : validatorsCreated (c :: l) = (c.createdValidator).toList ++ validatorsCreated l := by
  cases h : c.createdValidator <;> simp [validatorsCreated, h]
@[simp] theorem validatorsCreated_append (a b : List Change) : validatorsCreated (a ++ b) = validatorsCreated a ++ validatorsCreated b := by
  simp [validatorsCreated, List.filterMap_append]

@[simp] theorem ordersTouched_nil : ordersTouched [] = [] := rfl
@[simp] theorem ordersTouched_cons (c : Change) (l : List Change) : ordersTouched (c :: l) = (c.touchedOrder).toList ++ ordersTouched l := by
  cases h : c.touchedOrder <;> simp [ordersTouched, h]
@[simp] theorem ordersTouched_append (a b : List Change) : ordersTouched (a ++ b) = ordersTouched a ++ ordersTouched b := by
  simp [ordersTouched, List.filterMap_append]

@[simp] theorem ordersCreated_nil : ordersCreated [] = [] := rfl
@[simp] theorem ordersCreated_cons (c : Change) (l : List Change) : ordersCreated (c :: l) = (c.createdOrderSeller).toList ++ ordersCreated l := by
  cases h : c.createdOrderSeller <;> simp [ordersCreated, h]
@[simp] theorem ordersCreated_append (a b : List Change) : ordersCreated (a ++ b) = ordersCreated a ++ ordersCreated b := by
  simp [ordersCreated, List.filterMap_append]

/-- evaluating the classifiers on constructors -/
macro "cls" : tactic => `(tactic| simp [Change.debitedAddr, Change.creditedAddr, Change.changedValidator,
  Change.redirectedValidator, Change.createdValidator, Change.touchedOrder, Change.createdOrderSeller])

/-! ## `debit`, `poolSub` -/

theorem debit_ok {st : State} {log l : List Change} {a : Addr} {n : Nat} (h : debit st log a n = .ok l) :
    l = log ∨ l = log ++ [.debit a n] := by
  unfold debit at h
  split at h
  · cases h
  · split at h
    · left; cases h; rfl
    · right; cases h; rfl

theorem poolSub_ok {st : State} {log l : List Change} {id n : Nat} (h : poolSub st log id n = .ok l) :
    l = log ++ [.pool id (-(n : Int))] := by
  unfold poolSub at h
  split at h
  · cases h
  · cases h; rfl

/-! ## inversion of the pipeline -/

theorem checkSignature_ok {g : Bool} {e : Env} {tx : Tx} {auth : List Addr} {a : Addr}
    (h : checkSignature g e tx auth = .ok a) :
    ∃ pk, tx.pk = some pk ∧ pk.wf = true ∧ authenticates e tx pk = .ok () ∧ e.addrOf pk = some a ∧ a ∈ auth ∧
      (g = true → pk.noSigner = false) := by
  unfold checkSignature at h
  split at h
  · cases h
  · split at h
    · cases h
    · rename_i pk hpk
      split at h
      · cases h
      · rename_i hwf
        split at h
        · cases h
        · rename_i hg
          split at h
          · cases h
          · rename_i hau
            split at h
            · cases h
            · rename_i a' ha
              split at h
              · rename_i hin
                cases h
                refine ⟨pk, hpk, ?_, hau, ha, hin, ?_⟩
                · simpa using hwf
                · intro hgt
                  simpa [hgt] using hg
              · cases h

theorem applyTx_ok {e : Env} {cfg : Cfg} {st : State} {tx : Tx} {nid : Bytes} {s : Addr} {log : List Change}
    (h : applyTx e cfg st tx nid = .ok (s, log)) :
    ∃ m auth, precheck cfg tx = .ok m ∧ authorized e st m = .ok auth ∧ checkSignature cfg.requireSigner e tx auth = .ok s ∧
      effects e cfg st tx.content m s nid = .ok log := by
  unfold applyTx at h
  split at h
  · cases h
  · rename_i m hm
    split at h
    · cases h
    · rename_i auth hauth
      split at h
      · cases h
      · rename_i s' hs
        split at h
        · cases h
        · split at h
          · cases h
          · rename_i log' hl
            cases h
            exact ⟨m, auth, hm, hauth, hs, hl⟩

theorem precheck_msg {cfg : Cfg} {tx : Tx} {m : Msg} (h : precheck cfg tx = .ok m) : tx.content.msg = some m := by
  unfold precheck at h
  split at h
  · cases h
  · rename_i m' hm
    split at h
    · cases h
    · cases h; exact hm

theorem precheck_checks {cfg : Cfg} {tx : Tx} {m : Msg} (h : precheck cfg tx = .ok m) :
    ∀ p ∈ checks cfg tx m, p.1 = false := by
  unfold precheck at h
  split at h
  · cases h
  · split at h
    · cases h
    · rename_i hnone
      cases h
      intro p hp
      have := List.find?_eq_none.mp hnone p hp
      simpa using this

theorem precheck_noWireSigner {cfg : Cfg} {tx : Tx} {m : Msg} (h : precheck cfg tx = .ok m) : m.wireSigner = false := by
  have := precheck_checks h (m.wireSigner, eNotEmpty) (by simp [checks])
  simpa using this

theorem effects_ok {e : Env} {cfg : Cfg} {st : State} {c : Content} {m : Msg} {s : Addr} {nid : Bytes} {log : List Change}
    (h : effects e cfg st c m s nid = .ok log) :
    ∃ l0 l, debit st [] s c.fee = .ok l0 ∧
      handle e cfg st m s nid (l0 ++ (if c.fee > 0 then [.pool cfg.chain c.fee] else [])) = .ok l ∧
      (log = l ∨ log = l ++ [.nonce s]) := by
  unfold effects at h
  split at h
  · cases h
  · split at h
    · cases h
    · rename_i l0 hl0
      split at h
      · cases h
      · rename_i l hl
        refine ⟨l0, l, hl0, hl, ?_⟩
        split at h
        · right; cases h; rfl
        · left; cases h; rfl


/-! ## the table form of `GetAuthorizedSignersFor` equals the per-kind form -/

theorem evalAll_single (e : Env) (st : State) (m : Msg) (x : SignerExpr) :
    evalAll e st m [x] = x.eval e st m := by
  unfold evalAll
  cases h : x.eval e st m <;> simp [evalAll]

theorem authorized_eq_direct (e : Env) (st : State) (m : Msg) : authorized e st m = authorizedDirect e st m := by
  unfold authorized authorizedDirect
  cases hk : m.kind <;> simp only [authSpec, evalAll_single, SignerExpr.eval]
  all_goals first
    | rfl
    | (simp [evalAll, SignerExpr.eval, Except.map]; cases pubKeyAddr e m.pk <;> simp)
    | (cases st.order m.ch m.oid <;> simp)

theorem validatorSigners_mem {st : State} {a s : Addr} {auth : List Addr}
    (h : validatorSigners st a = .ok auth) (hs : s ∈ auth) :
    ∃ v, st.val a = some v ∧ (s = v.address ∨ s = v.output) := by
  unfold validatorSigners at h
  split at h
  · cases h
  · rename_i v hv
    refine ⟨v, hv, ?_⟩
    split at h <;> cases h <;> simp_all

theorem pubKeyAddr_ok {e : Env} {pk : Option PubKey} {a : Addr} (h : pubKeyAddr e pk = .ok a) :
    ∃ k, pk = some k ∧ k.wf = true ∧ e.addrOf k = some a := by
  unfold pubKeyAddr at h
  split at h
  · cases h
  · rename_i k
    split at h
    · rename_i hwf
      split at h
      · rename_i a' ha
        cases h
        exact ⟨k, rfl, hwf, ha⟩
      · cases h
    · cases h

/-! ## the helper change lists -/

@[simp] theorem debited_editStakeTail (m : Msg) (v : Validator) : debited (editStakeTail m v) = [] := by
  unfold editStakeTail; split <;> split <;> cls
@[simp] theorem debited_recvChange (m : Msg) (o : Order) : debited (recvChange m o) = [] := by
  unfold recvChange; split <;> cls
@[simp] theorem debited_mintChanges (m : Msg) : debited (mintChanges m) = [] := by
  unfold mintChanges; split <;> cls
@[simp] theorem credited_editStakeTail (m : Msg) (v : Validator) : credited (editStakeTail m v) = [] := by
  unfold editStakeTail; split <;> split <;> cls
@[simp] theorem credited_recvChange (m : Msg) (o : Order) : credited (recvChange m o) = [] := by
  unfold recvChange; split <;> cls
@[simp] theorem credited_mintChanges (m : Msg) : credited (mintChanges m) = [] := by
  unfold mintChanges; split <;> cls
@[simp] theorem validatorsChanged_recvChange (m : Msg) (o : Order) : validatorsChanged (recvChange m o) = [] := by
  unfold recvChange; split <;> cls
@[simp] theorem validatorsChanged_mintChanges (m : Msg) : validatorsChanged (mintChanges m) = [] := by
  unfold mintChanges; split <;> cls
@[simp] theorem outputsRedirected_recvChange (m : Msg) (o : Order) : outputsRedirected (recvChange m o) = [] := by
  unfold recvChange; split <;> cls
@[simp] theorem outputsRedirected_mintChanges (m : Msg) : outputsRedirected (mintChanges m) = [] := by
  unfold mintChanges; split <;> cls
@[simp] theorem validatorsCreated_editStakeTail (m : Msg) (v : Validator) : validatorsCreated (editStakeTail m v) = [] := by
  unfold editStakeTail; split <;> split <;> cls
@[simp] theorem validatorsCreated_recvChange (m : Msg) (o : Order) : validatorsCreated (recvChange m o) = [] := by
  unfold recvChange; split <;> cls
@[simp] theorem validatorsCreated_mintChanges (m : Msg) : validatorsCreated (mintChanges m) = [] := by
  unfold mintChanges; split <;> cls
@[simp] theorem ordersTouched_editStakeTail (m : Msg) (v : Validator) : ordersTouched (editStakeTail m v) = [] := by
  unfold editStakeTail; split <;> split <;> cls
@[simp] theorem ordersTouched_mintChanges (m : Msg) : ordersTouched (mintChanges m) = [] := by
  unfold mintChanges; split <;> cls
@[simp] theorem ordersCreated_editStakeTail (m : Msg) (v : Validator) : ordersCreated (editStakeTail m v) = [] := by
  unfold editStakeTail; split <;> split <;> cls
@[simp] theorem ordersCreated_recvChange (m : Msg) (o : Order) : ordersCreated (recvChange m o) = [] := by
  unfold recvChange; split <;> cls
@[simp] theorem ordersCreated_mintChanges (m : Msg) : ordersCreated (mintChanges m) = [] := by
  unfold mintChanges; split <;> cls

theorem mem_validatorsChanged_editStakeTail {m : Msg} {v : Validator} {a : Addr}
    (h : a ∈ validatorsChanged (editStakeTail m v)) : a = m.a := by
  unfold editStakeTail at h
  split at h <;> split at h <;> simp [Change.changedValidator] at h <;> simp_all

theorem mem_outputsRedirected_editStakeTail {m : Msg} {v : Validator} {a : Addr}
    (h : a ∈ outputsRedirected (editStakeTail m v)) : a = m.a ∧ v.output ≠ m.out := by
  unfold editStakeTail at h
  split at h <;> split at h <;> simp [Change.redirectedValidator] at h <;> simp_all

theorem mem_ordersTouched_recvChange {m : Msg} {o : Order} {k : Nat × Bytes}
    (h : k ∈ ordersTouched (recvChange m o)) : k = (m.ch, m.oid) := by
  unfold recvChange at h
  split at h <;> simp [Change.touchedOrder] at h <;> simp_all

/-! ## per-kind case analysis of `handle` -/

set_option hygiene false in
/-- splits `h : handle … = .ok l` into its successful leaves, with `hauth` specialised to the kind -/
macro "handle_cases" : tactic => `(tactic| (
  rw [authorized_eq_direct] at hauth
  unfold handle at h
  split at h
  all_goals (rename_i hk)
  all_goals (repeat' split at h)
  all_goals (try (cases h; done))
  all_goals (cases h)
  all_goals (
    first
    | (rename_i hd; rcases debit_ok hd with rfl | rfl)
    | (rename_i hd; have := poolSub_ok hd; subst this)
    | skip)
  all_goals (simp only [authorizedDirect, hk] at hauth)))

/-- every account a handler debits is an authorized signer of the message -/
theorem handle_debited {e : Env} {cfg : Cfg} {st : State} {m : Msg} {s : Addr} {nid : Bytes} {log l : List Change}
    {auth : List Addr} (hauth : authorized e st m = .ok auth) (hs : s ∈ auth)
    (h : handle e cfg st m s nid log = .ok l) :
    ∀ a ∈ debited l, a ∈ debited log ∨ a ∈ auth := by
  handle_cases
  all_goals (
    intro a ha
    simp [Change.debitedAddr] at ha
    first
    | (left; exact ha)
    | (rcases ha with ha | rfl
       · left; exact ha
       · right
         first
         | exact hs
         | (simp_all; done)
         | (simp_all; subst_vars; simp)))



theorem handle_validatorsChanged {e : Env} {cfg : Cfg} {st : State} {m : Msg} {s : Addr} {nid : Bytes} {log l : List Change}
    {auth : List Addr} (hauth : authorized e st m = .ok auth) (hs : s ∈ auth)
    (h : handle e cfg st m s nid log = .ok l) :
    ∀ a ∈ validatorsChanged l, a ∈ validatorsChanged log ∨ ∃ v, st.val a = some v ∧ (s = v.address ∨ s = v.output) := by
  handle_cases
  all_goals (
    intro a ha
    simp [Change.changedValidator] at ha
    first
    | (left; exact ha)
    | (rcases ha with ha | ha
       · left; exact ha
       · right
         first
         | (have := mem_validatorsChanged_editStakeTail ha; subst this; exact validatorSigners_mem hauth hs)
         | (subst ha; exact validatorSigners_mem hauth hs)))



theorem handle_outputsRedirected {e : Env} {cfg : Cfg} {st : State} {m : Msg} {s : Addr} {nid : Bytes} {log l : List Change}
    {auth : List Addr} (hauth : authorized e st m = .ok auth) (hs : s ∈ auth)
    (h : handle e cfg st m s nid log = .ok l) :
    ∀ a ∈ outputsRedirected l, a ∈ outputsRedirected log ∨ ∃ v, st.val a = some v ∧ s = v.output := by
  handle_cases
  all_goals (
    intro a ha
    simp [Change.redirectedValidator] at ha
    first
    | (left; exact ha)
    | (rcases ha with ha | ha
       · left; exact ha
       · right
         obtain ⟨rfl, hne⟩ := mem_outputsRedirected_editStakeTail ha
         refine ⟨_, by assumption, ?_⟩
         simp_all))

theorem handle_validatorsCreated {e : Env} {cfg : Cfg} {st : State} {m : Msg} {s : Addr} {nid : Bytes} {log l : List Change}
    {auth : List Addr} (hauth : authorized e st m = .ok auth) (hs : s ∈ auth)
    (h : handle e cfg st m s nid log = .ok l) :
    ∀ p ∈ validatorsCreated l, p ∈ validatorsCreated log ∨ s = p.1 ∨ s = p.2 := by
  handle_cases
  all_goals (
    intro a ha
    simp [Change.createdValidator] at ha
    first
    | (left; exact ha)
    | (rcases ha with ha | ha
       · left; exact ha
       · right
         subst ha
         simp_all [pubKeyAddr]
         subst_vars
         simp_all))

theorem handle_ordersTouched {e : Env} {cfg : Cfg} {st : State} {m : Msg} {s : Addr} {nid : Bytes} {log l : List Change}
    {auth : List Addr} (hauth : authorized e st m = .ok auth) (hs : s ∈ auth)
    (h : handle e cfg st m s nid log = .ok l) :
    ∀ k ∈ ordersTouched l, k ∈ ordersTouched log ∨ ∃ o, st.order k.1 k.2 = some o ∧ s = o.seller := by
  handle_cases
  all_goals (
    intro a ha
    simp [Change.touchedOrder] at ha
    first
    | (left; exact ha)
    | (have key : ∃ o, st.order m.ch m.oid = some o ∧ s = o.seller := by
         refine ⟨_, by assumption, ?_⟩
         first
         | (simp_all; done)
         | (simp_all; subst_vars; simpa using hs)
       first
       | (rcases ha with ha | ha | ha
          · left; exact ha
          · right; subst ha; exact key
          · right; have := mem_ordersTouched_recvChange ha; subst this; exact key)
       | (rcases ha with ha | ha
          · left; exact ha
          · right
            first
            | (subst ha; exact key)
            | (have := mem_ordersTouched_recvChange ha; subst this; exact key))))

theorem handle_ordersCreated {e : Env} {cfg : Cfg} {st : State} {m : Msg} {s : Addr} {nid : Bytes} {log l : List Change}
    {auth : List Addr} (hauth : authorized e st m = .ok auth) (hs : s ∈ auth)
    (h : handle e cfg st m s nid log = .ok l) :
    ∀ a ∈ ordersCreated l, a ∈ ordersCreated log ∨ a = s := by
  handle_cases
  all_goals (
    intro a ha
    simp [Change.createdOrderSeller] at ha
    first
    | (left; exact ha)
    | (rcases ha with ha | rfl
       · left; exact ha
       · right; simp_all; subst_vars; simp at hs; exact hs.symm))

/-- every account a handler credits is named by the message: the recipient, the owner address, or the
seller of the order the message refers to -/
theorem handle_credited {e : Env} {cfg : Cfg} {st : State} {m : Msg} {s : Addr} {nid : Bytes} {log l : List Change}
    (h : handle e cfg st m s nid log = .ok l) :
    ∀ a ∈ credited l, a ∈ credited log ∨ a = m.to ∨ a = m.a ∨ ∃ o, st.order m.ch m.oid = some o ∧ a = o.seller := by
  unfold handle at h
  split at h
  all_goals (repeat' split at h)
  all_goals (try (cases h; done))
  all_goals (cases h)
  all_goals (
    first
    | (rename_i hd; rcases debit_ok hd with rfl | rfl)
    | (rename_i hd; have := poolSub_ok hd; subst this)
    | skip)
  all_goals (
    intro a ha
    simp [Change.creditedAddr] at ha
    first
    | (left; exact ha)
    | (rcases ha with ha | rfl
       · left; exact ha
       · right
         first
         | (left; rfl)
         | (right; left; rfl)
         | (right; right; exact ⟨_, by assumption, rfl⟩)))

end Canopy.Auth
