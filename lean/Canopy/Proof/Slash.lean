import Canopy.Model.Evidence
/-!
Helper lemmas for C14, ledger side: the double-signer index is checked before and written with every
slash (`OnceInv`), the slash tracker bounds what is charged per (validator, committee) and block
(`CapInv`), and the stake arithmetic. The property statements are in `Canopy.Props.C14`.
-/
namespace Canopy.Evidence
open Canopy Canopy.Gate
open Canopy.Gen.Evidence (slashBlocked slashCapped cappedPercent stakeAfterSlash safeMulDiv)

/-! ## what slashing does not touch -/

theorem applySlash_index (m : UInt64) (L : Ledger) (a : Addr) (v : Val) (c p : UInt64) (cs : List UInt64) :
    (applySlash m L a v c p cs).indexed = L.indexed ∧ (applySlash m L a v c p cs).slashLog = L.slashLog := by
  simp only [applySlash]
  split <;> exact ⟨rfl, rfl⟩

theorem applySlash_tracker (m : UInt64) (L : Ledger) (a : Addr) (v : Val) (c p : UInt64) (cs : List UInt64) :
    (applySlash m L a v c p cs).tracker = L.tracker ∧
    (applySlash m L a v c p cs).charged = upd2 L.charged a c (L.charged a c + p.toNat) := by
  simp only [applySlash]
  split <;> exact ⟨rfl, rfl⟩

theorem applySlash_stake (m : UInt64) (L : Ledger) (a : Addr) (v : Val) (c p : UInt64) (cs : List UInt64) :
    stakeOf (applySlash m L a v c p cs) a = stakeAfterSlash v.stake p := by
  unfold applySlash
  dsimp only
  split
  · rename_i h
    have h0 : stakeAfterSlash v.stake p = 0 := by simpa using h
    simp [stakeOf, upd1, h0]
  · simp [stakeOf, upd1]

theorem slashValidator_index (P : Params) (L : Ledger) (a : Addr) (v : Val) (c p : UInt64) :
    (slashValidator P L a v c p).indexed = L.indexed ∧ (slashValidator P L a v c p).slashLog = L.slashLog := by
  unfold slashValidator
  dsimp only
  split
  · split
    · exact ⟨rfl, rfl⟩
    · split
      · exact ⟨rfl, rfl⟩
      · exact applySlash_index _ _ _ _ _ _ _
  · exact applySlash_index _ _ _ _ _ _ _

theorem slashValidators_index (P : Params) (c p : UInt64) (as : List Addr) (L : Ledger) :
    (slashValidators P L c p as).indexed = L.indexed ∧ (slashValidators P L c p as).slashLog = L.slashLog := by
  induction as generalizing L with
  | nil => exact ⟨rfl, rfl⟩
  | cons a as ih =>
    simp only [slashValidators]
    split
    · exact ih L
    · rename_i v _
      have h1 := ih (slashValidator P L a v c p)
      have h2 := slashValidator_index P L a v c p
      exact ⟨h1.1.trans h2.1, h1.2.trans h2.2⟩

/-! ## at most once per (validator, height) -/

/-- every pair ever handed to slashing is in the index, and no pair was handed over twice -/
def OnceInv (L : Ledger) : Prop := L.slashLog.Nodup ∧ ∀ p ∈ L.slashLog, L.indexed p.1 p.2 = true

theorem indexHeights_spec {a : Addr} (hs : List UInt64) (L L' : Ledger) (inv : OnceInv L)
    (h : indexHeights L a hs = .ok L') :
    OnceInv L' ∧ (∀ x ∈ hs, L.indexed a x = false ∧ L'.indexed a x = true) ∧
    (∀ b y, L.indexed b y = true → L'.indexed b y = true) ∧
    L'.vals = L.vals ∧ L'.tracker = L.tracker ∧ L'.charged = L.charged := by
  induction hs generalizing L with
  | nil =>
    simp only [indexHeights, Except.ok.injEq] at h
    subst h
    exact ⟨inv, fun _ hx => by simp at hx, fun _ _ hb => hb, rfl, rfl, rfl⟩
  | cons x hs ih =>
    simp only [indexHeights] at h
    split at h; · contradiction
    rename_i hfresh
    have hfresh' : L.indexed a x = false := by simpa using hfresh
    let L1 : Ledger := { L with indexed := upd2 L.indexed a x true, slashLog := (a, x) :: L.slashLog }
    have inv1 : OnceInv L1 := by
      constructor
      · refine List.nodup_cons.mpr ⟨?_, inv.1⟩
        intro hm
        have := inv.2 _ hm
        simp only at this
        rw [hfresh'] at this
        contradiction
      · intro p hp
        show upd2 L.indexed a x true p.1 p.2 = true
        simp only [upd2]
        split
        · rfl
        · rcases List.mem_cons.mp hp with e | hp
          · rename_i hne; exact absurd (by rw [e]; exact ⟨rfl, rfl⟩) hne
          · exact inv.2 p hp
    obtain ⟨i1, i2, i3, i4, i5, i6⟩ := ih L1 inv1 h
    have hmono1 : ∀ b y, L.indexed b y = true → L1.indexed b y = true := by
      intro b y hb
      show upd2 L.indexed a x true b y = true
      simp only [upd2]; split
      · rfl
      · exact hb
    refine ⟨i1, ?_, fun b y hb => i3 b y (hmono1 b y hb), i4, i5, i6⟩
    intro y hy
    rcases List.mem_cons.mp hy with rfl | hy
    · refine ⟨hfresh', i3 a y ?_⟩
      show upd2 L.indexed a y true a y = true
      simp [upd2]
    · obtain ⟨j1, j2⟩ := i2 y hy
      refine ⟨?_, j2⟩
      have : upd2 L.indexed a x true a y = false := j1
      simp only [upd2] at this
      split at this
      · contradiction
      · exact this

theorem indexAll_spec (addrOf : KeyId → Option Addr) (dss : List (Option DS)) (L L' : Ledger) (sl : List Addr)
    (inv : OnceInv L) (h : indexAll addrOf L dss = .ok (L', sl)) :
    OnceInv L' ∧ (∀ b y, L.indexed b y = true → L'.indexed b y = true) ∧
    (∀ ds, some ds ∈ dss → ∃ a, addrOf ds.id = some a ∧ ∀ x ∈ ds.heights, L.indexed a x = false ∧ L'.indexed a x = true) ∧
    L'.vals = L.vals ∧ L'.tracker = L.tracker ∧ L'.charged = L.charged := by
  induction dss generalizing L sl with
  | nil =>
    simp only [indexAll, Except.ok.injEq, Prod.mk.injEq] at h
    obtain ⟨rfl, rfl⟩ := h
    exact ⟨inv, fun _ _ hb => hb, fun _ hd => by simp at hd, rfl, rfl, rfl⟩
  | cons o dss ih =>
    cases o with
    | none => simp [indexAll] at h
    | some d =>
      simp only [indexAll] at h
      split at h; · contradiction
      split at h; · contradiction
      split at h; · contradiction
      rename_i a haddr
      split at h; · contradiction
      rename_i L1 h1
      split at h; · contradiction
      rename_i L2 sl2 h2
      simp only [Except.ok.injEq, Prod.mk.injEq] at h
      obtain ⟨rfl, rfl⟩ := h
      obtain ⟨i1, i2, i3, i4, i5, i6⟩ := indexHeights_spec d.heights L L1 inv h1
      obtain ⟨j1, j2, j3, j4, j5, j6⟩ := ih L1 sl2 i1 h2
      refine ⟨j1, fun b y hb => j2 b y (i3 b y hb), ?_, j4.trans i4, j5.trans i5, j6.trans i6⟩
      intro ds hds
      rcases List.mem_cons.mp hds with e | hds
      · cases e
        exact ⟨a, haddr, fun x hx => ⟨(i2 x hx).1, j2 a x (i2 x hx).2⟩⟩
      · obtain ⟨a', ha', hh⟩ := j3 ds hds
        refine ⟨a', ha', fun x hx => ⟨?_, (hh x hx).2⟩⟩
        -- fresh in L1 implies fresh in L (the index only grows)
        cases hL : L.indexed a' x with
        | false => rfl
        | true => have := i3 a' x hL; rw [(hh x hx).1] at this; contradiction

theorem handleDoubleSigners_once {P : Params} {addrOf : KeyId → Option Addr} {L L' : Ledger} {c : UInt64}
    {dss : List (Option DS)} (inv : OnceInv L) (h : handleDoubleSigners P addrOf L c dss = .ok L') : OnceInv L' := by
  unfold handleDoubleSigners at h
  split at h; · contradiction
  rename_i L1 sl h1
  simp only [Except.ok.injEq] at h
  subst h
  obtain ⟨i1, _⟩ := indexAll_spec addrOf dss L L1 sl inv h1
  obtain ⟨e1, e2⟩ := slashValidators_index P c P.dsPercent sl L1
  unfold OnceInv
  rw [e1, e2]
  exact i1

theorem stepOp_once (P : Params) (addrOf : KeyId → Option Addr) (L : Ledger) (op : Op) (inv : OnceInv L) :
    OnceInv (stepOp P addrOf L op) := by
  cases op with
  | doubleSign c dss =>
    simp only [stepOp]
    split
    · rename_i L' h; exact handleDoubleSigners_once inv h
    · exact inv
  | slash c p as =>
    simp only [stepOp]
    obtain ⟨e1, e2⟩ := slashValidators_index P c p as L
    unfold OnceInv
    rw [e1, e2]
    exact inv

theorem runOps_once (P : Params) (addrOf : KeyId → Option Addr) (ops : List Op) (L : Ledger) (inv : OnceInv L) :
    OnceInv (runOps P addrOf L ops) := by
  induction ops generalizing L with
  | nil => exact inv
  | cons op ops ih => exact ih _ (stepOp_once P addrOf L op inv)

theorem runBlocks_once (P : Params) (addrOf : KeyId → Option Addr) (blocks : List (List Op)) (L : Ledger) (inv : OnceInv L) :
    OnceInv (runBlocks P addrOf L blocks) := by
  induction blocks generalizing L with
  | nil => exact inv
  | cons b bs ih =>
    apply ih
    exact runOps_once P addrOf b (newBlock L) inv

/-! ## the per-block cap -/

/-- the tracker equals what was really charged, and never exceeds the cap -/
def CapInv (P : Params) (L : Ledger) : Prop :=
  ∀ a c, (L.tracker a c).toNat = L.charged a c ∧ L.charged a c ≤ P.maxSlash.toNat

theorem newBlock_cap (P : Params) (L : Ledger) : CapInv P (newBlock L) := by
  intro a c
  exact ⟨rfl, Nat.zero_le _⟩

/-- the scoped branch, spelled out: what is charged and what the tracker becomes -/
theorem slashValidator_scoped (P : Params) (hs : P.committeeScoped = true) (L : Ledger) (a : Addr) (v : Val) (c p : UInt64) :
    (slashValidator P L a v c p = L) ∨
    (∃ p' : UInt64, L.tracker a c < P.maxSlash ∧
      p' = (if slashCapped (L.tracker a c) p P.maxSlash then cappedPercent (L.tracker a c) P.maxSlash else p) ∧
      (slashValidator P L a v c p).tracker = upd2 L.tracker a c (L.tracker a c + p') ∧
      (slashValidator P L a v c p).charged = upd2 L.charged a c (L.charged a c + p'.toNat) ∧
      stakeOf (slashValidator P L a v c p) a = stakeAfterSlash v.stake p') := by
  unfold slashValidator
  rw [hs]
  dsimp only
  simp only [↓reduceIte]
  split
  · exact Or.inl rfl
  · split
    · exact Or.inl rfl
    · rename_i hb
      right
      refine ⟨_, ?_, rfl, ?_, ?_, ?_⟩
      · simp only [slashBlocked, ge_iff_le, decide_eq_true_eq, UInt64.not_le] at hb
        exact hb
      · exact (applySlash_tracker _ _ _ _ _ _ _).1
      · exact (applySlash_tracker _ _ _ _ _ _ _).2
      · exact applySlash_stake _ _ _ _ _ _ _

/-- arithmetic of one scoped slash: the new tracker value is the old plus the applied percentage, without
wrap-around, and stays within the cap -/
theorem scoped_arith (t p mx : UInt64) (hlt : t < mx) (hp : p.toNat + mx.toNat < 2 ^ 64) :
    let p' := if slashCapped t p mx then cappedPercent t mx else p
    (t + p').toNat = t.toNat + p'.toNat ∧ t.toNat + p'.toNat ≤ mx.toNat := by
  intro p'
  rw [UInt64.lt_iff_toNat_lt] at hlt
  have hadd : (t + p).toNat = t.toNat + p.toNat := by
    rw [UInt64.toNat_add]; omega
  by_cases hc : slashCapped t p mx = true
  · have hp' : p' = mx - t := by simp [p', hc, cappedPercent]
    have hsub : (mx - t).toNat = mx.toNat - t.toNat :=
      UInt64.toNat_sub_of_le _ _ (UInt64.le_iff_toNat_le.mpr (by omega))
    rw [hp', UInt64.toNat_add, hsub]
    have := mx.toNat_lt
    omega
  · have hp' : p' = p := by simp [p', hc]
    simp only [slashCapped, ge_iff_le, decide_eq_true_eq, UInt64.le_iff_toNat_le, hadd] at hc
    rw [hp', hadd]
    omega

theorem slashValidator_cap (P : Params) (hs : P.committeeScoped = true) (L : Ledger) (a : Addr) (v : Val) (c p : UInt64)
    (hp : p.toNat + P.maxSlash.toNat < 2 ^ 64) (inv : CapInv P L) : CapInv P (slashValidator P L a v c p) := by
  rcases slashValidator_scoped P hs L a v c p with e | ⟨p', hlt, hp', et, ec, _⟩
  · rw [e]; exact inv
  · intro a' c'
    rw [et, ec]
    simp only [upd2]
    split
    · have := scoped_arith (L.tracker a c) p P.maxSlash hlt hp
      simp only at this
      rw [← hp'] at this
      obtain ⟨h1, h2⟩ := this
      have hi := (inv a c).1
      constructor
      · rw [h1, hi]
      · rw [← hi]; exact h2
    · exact inv a' c'

theorem slashValidators_cap (P : Params) (hs : P.committeeScoped = true) (c p : UInt64)
    (hp : p.toNat + P.maxSlash.toNat < 2 ^ 64) (as : List Addr) (L : Ledger) (inv : CapInv P L) :
    CapInv P (slashValidators P L c p as) := by
  induction as generalizing L with
  | nil => exact inv
  | cons a as ih =>
    simp only [slashValidators]
    split
    · exact ih L inv
    · exact ih _ (slashValidator_cap P hs L a _ c p hp inv)

/-- the percentages of a block's operations stay clear of 64-bit wrap-around (always, for the percentages
`ValidatorParams.Check` admits: they are at most 100) -/
def OpsBounded (P : Params) (ops : List Op) : Prop :=
  ∀ op ∈ ops, match op with
    | .slash _ p _ => p.toNat + P.maxSlash.toNat < 2 ^ 64
    | .doubleSign _ _ => True

theorem indexHeights_tracker {a : Addr} (hs : List UInt64) (L La : Ledger) (h : indexHeights L a hs = .ok La) :
    La.tracker = L.tracker ∧ La.charged = L.charged := by
  induction hs generalizing L with
  | nil => simp only [indexHeights, Except.ok.injEq] at h; subst h; exact ⟨rfl, rfl⟩
  | cons x hs ih =>
    simp only [indexHeights] at h
    split at h; · contradiction
    exact ih _ h |>.imp id id

/-- indexing leaves tracker and charged alone -/
theorem indexAll_tracker (addrOf : KeyId → Option Addr) (dss : List (Option DS)) (L L1 : Ledger) (sl : List Addr)
    (h : indexAll addrOf L dss = .ok (L1, sl)) : L1.tracker = L.tracker ∧ L1.charged = L.charged := by
  induction dss generalizing L sl with
  | nil =>
    simp only [indexAll, Except.ok.injEq, Prod.mk.injEq] at h
    obtain ⟨rfl, rfl⟩ := h
    exact ⟨rfl, rfl⟩
  | cons o dss ih =>
    cases o with
    | none => simp [indexAll] at h
    | some d =>
      simp only [indexAll] at h
      split at h; · contradiction
      split at h; · contradiction
      split at h; · contradiction
      rename_i a _
      split at h; · contradiction
      rename_i La ha
      split at h; · contradiction
      rename_i L2 sl2 h2
      simp only [Except.ok.injEq, Prod.mk.injEq] at h
      obtain ⟨rfl, rfl⟩ := h
      obtain ⟨a1, a2⟩ := indexHeights_tracker _ _ _ ha
      obtain ⟨b1, b2⟩ := ih _ _ h2
      exact ⟨b1.trans a1, b2.trans a2⟩

theorem stepOp_cap (P : Params) (hs : P.committeeScoped = true) (hds : P.dsPercent.toNat + P.maxSlash.toNat < 2 ^ 64)
    (addrOf : KeyId → Option Addr) (L : Ledger) (op : Op)
    (hb : match op with | .slash _ p _ => p.toNat + P.maxSlash.toNat < 2 ^ 64 | .doubleSign _ _ => True)
    (inv : CapInv P L) : CapInv P (stepOp P addrOf L op) := by
  cases op with
  | doubleSign c dss =>
    simp only [stepOp]
    split
    · rename_i L' h
      unfold handleDoubleSigners at h
      split at h; · contradiction
      rename_i L1 sl h1
      simp only [Except.ok.injEq] at h
      subst h
      obtain ⟨e5, e6⟩ := indexAll_tracker addrOf dss L L1 sl h1
      have inv1 : CapInv P L1 := by intro a c; rw [e5, e6]; exact inv a c
      exact slashValidators_cap P hs c P.dsPercent hds sl L1 inv1
    · exact inv
  | slash c p as =>
    simp only [stepOp]
    exact slashValidators_cap P hs c p hb as L inv

theorem runOps_cap (P : Params) (hs : P.committeeScoped = true) (hds : P.dsPercent.toNat + P.maxSlash.toNat < 2 ^ 64)
    (addrOf : KeyId → Option Addr) (ops : List Op) (hb : OpsBounded P ops) (L : Ledger) (inv : CapInv P L) :
    CapInv P (runOps P addrOf L ops) := by
  induction ops generalizing L with
  | nil => exact inv
  | cons op ops ih =>
    exact ih (fun o ho => hb o (List.mem_cons_of_mem _ ho)) _
      (stepOp_cap P hs hds addrOf L op (hb op List.mem_cons_self) inv)

/-! ## the stake arithmetic -/

theorem key_ineq (A B : Nat) (hA : A ≤ 100) (hB : B ≤ 100) : 100 * A + 100 * B ≤ A * B + 10000 := by
  obtain ⟨a, ha⟩ : ∃ a, A + a = 100 := ⟨100 - A, by omega⟩
  obtain ⟨b, hb⟩ : ∃ b, B + b = 100 := ⟨100 - B, by omega⟩
  have e1 : 100 * A = (B + b) * A := by rw [hb]
  have e2 : 100 * B = (A + a) * B := by rw [ha]
  have e3 : 10000 = (A + a) * (B + b) := by rw [ha, hb]
  rw [e1, e2, e3]
  simp only [Nat.add_mul, Nat.mul_add]
  have c1 := Nat.mul_comm B A
  have c2 := Nat.mul_comm b A
  omega

/-- keeping `A`% and then `B`% (each rounded down) keeps at least `(A+B-100)`% minus one unit -/
theorem floor_chain (s A B : Nat) (hA : A ≤ 100) (hB : B ≤ 100) (hAB : 100 ≤ A + B) :
    s * (A + B - 100) ≤ (s * A / 100) * B + 100 := by
  have hk := key_ineq A B hA hB
  have hdiv : s * A = 100 * (s * A / 100) + s * A % 100 := (Nat.div_add_mod (s * A) 100).symm
  have hmod : s * A % 100 < 100 := Nat.mod_lt _ (by omega)
  generalize s * A / 100 = q at *
  generalize s * A % 100 = r at *
  obtain ⟨d, hd⟩ : ∃ d, A + B = 100 + d := ⟨A + B - 100, by omega⟩
  have : A + B - 100 = d := by omega
  rw [this]
  have h1 : s * A * B = 100 * (q * B) + r * B := by rw [hdiv, Nat.add_mul, Nat.mul_assoc]
  have h2 : r * B ≤ 99 * 100 := Nat.mul_le_mul (by omega) hB
  have h3 : s * (100 * A + 100 * B) ≤ s * (A * B + 10000) := Nat.mul_le_mul_left s hk
  have h4 : s * (100 * A + 100 * B) = 100 * (s * (100 + d)) := by
    rw [← hd, ← Nat.mul_add, Nat.mul_left_comm]
  have h5 : s * (A * B + 10000) = s * A * B + 10000 * s := by
    rw [Nat.mul_add, Nat.mul_assoc, Nat.mul_comm s 10000]
  have h6 : s * (100 + d) = 100 * s + s * d := by rw [Nat.mul_add, Nat.mul_comm s 100]
  rw [h4, h5, h6] at h3
  omega

/-- `stakeAfterSlash` is the exact floor of `stake·(100−percent)/100` for percentages up to 100 -/
theorem stakeAfterSlash_floor (s p : UInt64) (hp : p.toNat ≤ 100) :
    (stakeAfterSlash s p).toNat = s.toNat * (100 - p.toNat) / 100 := by
  unfold stakeAfterSlash
  have h100 : (100 : UInt64).toNat = 100 := by decide
  split
  · rename_i h
    simp only [ge_iff_le, Bool.or_eq_true, decide_eq_true_eq] at h
    rcases h with h | h
    · rw [UInt64.le_iff_toNat_le, h100] at h
      have : p.toNat = 100 := by omega
      simp [this]
    · subst h; simp
  · rename_i h
    simp only [ge_iff_le, Bool.or_eq_true, decide_eq_true_eq, not_or, UInt64.not_le] at h
    have hlt : p.toNat < 100 := by have := h.1; rw [UInt64.lt_iff_toNat_lt, h100] at this; exact this
    split
    · rename_i h0
      simp only [decide_eq_true_eq] at h0
      subst h0
      simp
    · have hsub : (100 - p).toNat = 100 - p.toNat := by
        rw [UInt64.toNat_sub_of_le _ _ (UInt64.le_iff_toNat_le.mpr (by rw [h100]; omega)), h100]
      unfold safeMulDiv
      simp only [show ((100 : UInt64) == 0) = false by decide, Bool.false_eq_true, ↓reduceIte]
      rw [UInt64.toNat_ofNat', hsub, h100]
      apply Nat.mod_eq_of_lt
      have := s.toNat_lt
      have : s.toNat * (100 - p.toNat) / 100 ≤ s.toNat := by
        apply Nat.div_le_of_le_mul
        rw [Nat.mul_comm 100]
        exact Nat.mul_le_mul_left _ (by omega)
      omega

/-- slash validator `a` once on behalf of committee `c` -/
def slashOne (P : Params) (L : Ledger) (a : Addr) (c p : UInt64) : Ledger := slashValidators P L c p [a]

/-- the potential that one slash lowers by at most one rounding unit:
stake × (percentage the remaining budget of the committee still guarantees) -/
def potential (P : Params) (L : Ledger) (a : Addr) (c : UInt64) : Nat :=
  (stakeOf L a).toNat * (100 - (P.maxSlash.toNat - L.charged a c))

theorem slashOne_step (P : Params) (hs : P.committeeScoped = true) (hmax : P.maxSlash.toNat ≤ 100)
    (L : Ledger) (a : Addr) (c p : UInt64) (hp : p.toNat + P.maxSlash.toNat < 2 ^ 64)
    (ht : (L.tracker a c).toNat = L.charged a c) (hle : L.charged a c ≤ P.maxSlash.toNat) :
    ((slashOne P L a c p).tracker a c).toNat = (slashOne P L a c p).charged a c ∧
    (slashOne P L a c p).charged a c ≤ P.maxSlash.toNat ∧
    potential P L a c ≤ potential P (slashOne P L a c p) a c + 100 := by
  unfold slashOne
  simp only [slashValidators]
  split
  · exact ⟨ht, hle, Nat.le_add_right _ _⟩
  · rename_i v hv
    rcases slashValidator_scoped P hs L a v c p with e | ⟨p', hlt, hp', et, ec, es⟩
    · rw [e]; exact ⟨ht, hle, Nat.le_add_right _ _⟩
    · have har := scoped_arith (L.tracker a c) p P.maxSlash hlt hp
      simp only at har
      rw [← hp'] at har
      obtain ⟨h1, h2⟩ := har
      have et' : (slashValidator P L a v c p).tracker a c = L.tracker a c + p' := by rw [et]; simp [upd2]
      have ec' : (slashValidator P L a v c p).charged a c = L.charged a c + p'.toNat := by rw [ec]; simp [upd2]
      refine ⟨by rw [et', ec', h1, ht], by rw [ec', ← ht]; exact h2, ?_⟩
      unfold potential
      rw [es, ec']
      have hs0 : stakeOf L a = v.stake := by simp [stakeOf, hv]
      have hp100 : p'.toNat ≤ 100 := by omega
      rw [hs0, stakeAfterSlash_floor v.stake p' hp100]
      have hfc := floor_chain v.stake.toNat (100 - p'.toNat) (100 - (P.maxSlash.toNat - (L.charged a c + p'.toNat)))
        (by omega) (by omega) (by omega)
      have e : 100 - p'.toNat + (100 - (P.maxSlash.toNat - (L.charged a c + p'.toNat))) - 100 =
          100 - (P.maxSlash.toNat - L.charged a c) := by omega
      rw [e] at hfc
      exact hfc

/-- several slashes of one validator by one committee within a block -/
theorem slashMany_potential (P : Params) (hs : P.committeeScoped = true) (hmax : P.maxSlash.toNat ≤ 100)
    (a : Addr) (c : UInt64) (ps : List UInt64) (hps : ∀ p ∈ ps, p.toNat + P.maxSlash.toNat < 2 ^ 64)
    (L : Ledger) (ht : (L.tracker a c).toNat = L.charged a c) (hle : L.charged a c ≤ P.maxSlash.toNat) :
    potential P L a c ≤ 100 * (stakeOf (ps.foldl (fun L p => slashOne P L a c p) L) a).toNat + 100 * ps.length := by
  induction ps generalizing L with
  | nil =>
    simp only [List.foldl_nil, List.length_nil, Nat.mul_zero, Nat.add_zero]
    unfold potential
    rw [Nat.mul_comm]
    exact Nat.mul_le_mul_right _ (by omega)
  | cons p ps ih =>
    obtain ⟨h1, h2, h3⟩ := slashOne_step P hs hmax L a c p (hps p List.mem_cons_self) ht hle
    have := ih (fun q hq => hps q (List.mem_cons_of_mem _ hq)) (slashOne P L a c p) h1 h2
    simp only [List.foldl_cons, List.length_cons]
    omega

end Canopy.Evidence
