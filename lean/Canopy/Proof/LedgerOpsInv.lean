import Canopy.Proof.LedgerGenesisInv
/-! C12: `InvStaking` through transactions and certificate results. -/
namespace Canopy.Ledger
open AMap

set_option linter.unusedSimpArgs false
set_option linter.unusedVariables false

theorem sameStaking_accounts (L : Ledger) (acc : NMap Addr) : SameStaking L { L with accounts := acc, vesting := vs } :=
  ⟨rfl, rfl, rfl, rfl, rfl, rfl, rfl, ⟨rfl, rfl, rfl, rfl⟩⟩
theorem sameStaking_accountAdd {L L' : Ledger} {a : Addr} {x : Nat} (h : accountAdd L a x = .ok L') : SameStaking L L' := by
  obtain ⟨acc, vs, rfl, _⟩ := accountAdd_ok h; exact sameStaking_accounts L acc
theorem sameStaking_accountSub {L L' : Ledger} {a : Addr} {x : Nat} (h : accountSub L a x = .ok L') : SameStaking L L' := by
  obtain ⟨acc, vs, rfl, _⟩ := accountSub_ok h; exact sameStaking_accounts L acc
theorem sameStaking_poolSub {L L' : Ledger} {a x : Nat} (h : poolSub L a x = .ok L') : SameStaking L L' := by
  obtain ⟨p, rfl, _⟩ := poolSub_ok h; exact ⟨rfl, rfl, rfl, rfl, rfl, rfl, rfl, ⟨rfl, rfl, rfl, rfl⟩⟩
theorem sameStaking_poolAdd (L : Ledger) (id x : Nat) : SameStaking L (poolAdd L id x) :=
  ⟨rfl, rfl, rfl, rfl, rfl, rfl, rfl, ⟨rfl, rfl, rfl, rfl⟩⟩

theorem sameStaking_deductFees {L L' : Ledger} {a : Addr} {fee : Nat} (h : deductFees L a fee = .ok L') : SameStaking L L' := by
  unfold deductFees at h
  obtain ⟨L1, h1, h2⟩ := bind_ok h
  obtain rfl := Except.ok.inj h2
  exact (sameStaking_accountSub h1).trans (sameStaking_poolAdd _ _ _)

theorem sameStaking_accountAddWithVesting {L L' : Ledger} {dst : Addr} {x st cl en : Nat}
    (h : accountAddWithVesting L dst x st cl en = .ok L') : SameStaking L L' := by
  obtain ⟨acc, vs, rfl, _⟩ := accountAddWithVesting_ok h
  exact ⟨rfl, rfl, rfl, rfl, rfl, rfl, rfl, ⟨rfl, rfl, rfl, rfl⟩⟩

theorem sameStaking_faucetTopUp {L L1 : Ledger} {sender : Addr} {r : Nat} (h : faucetTopUp L sender r = .ok L1) : SameStaking L L1 := by
  unfold faucetTopUp at h
  split at h
  · obtain rfl := Except.ok.inj h; exact SameStaking.refl L
  · split at h
    · obtain rfl := Except.ok.inj h; exact SameStaking.refl L
    · split at h
      · obtain rfl := Except.ok.inj h; exact SameStaking.refl L
      · unfold mintToAccount at h
        split at h
        · obtain rfl := Except.ok.inj h; exact SameStaking.refl L
        · have s1 : SameStaking L (addToTotal L (r - accSpendable L sender)) := ⟨rfl, rfl, rfl, rfl, rfl, rfl, rfl, ⟨rfl, rfl, rfl, rfl⟩⟩
          exact s1.trans (sameStaking_accountAdd h)

theorem sameStaking_txFaucet {L L1 : Ledger} {sender : Addr} {fee : Nat} {msg : Msg} (h : txFaucet L sender fee msg = .ok L1) :
    SameStaking L L1 := by
  cases msg with
  | send s d x =>
    simp only [txFaucet] at h
    split at h
    · exact absurd h (by intro h; cases h)
    · exact sameStaking_faucetTopUp h
  | sendVesting s d x st cl en =>
    simp only [txFaucet] at h
    split at h
    · exact absurd h (by intro h; cases h)
    · exact sameStaking_faucetTopUp h
  | stake | editStake | unstake | pause | unpause | daoTransfer | subsidy | changeParameter =>
    simp only [txFaucet] at h; obtain rfl := Except.ok.inj h; exact SameStaking.refl L

/-- every message handler keeps `InvStaking` -/
theorem handleMessage_inv {L L' : Ledger} {sender : Addr} {msg : Msg} (hi : InvSupply L) (hs : InvStaking L) (hh : HeightsOK L)
    (hp : ∀ sg sp k v s e p, msg = .changeParameter sg sp k v s e → L.params.setUint sp k v = .ok p → HeightsOK { L with params := p })
    (h : handleMessage L sender msg = .ok L') : InvStaking L' := by
  cases msg with
  | send s d x =>
    simp only [handleMessage, handleSend] at h
    obtain ⟨L1, h1, h2⟩ := bind_ok h
    exact hs.of_sameStaking ((sameStaking_accountSub h1).trans (sameStaking_accountAdd h2))
  | sendVesting s d x st cl en =>
    simp only [handleMessage, handleSendVesting] at h
    obtain ⟨_, _, h⟩ := bind_ok h
    obtain ⟨L1, h1, h2⟩ := bind_ok h
    exact hs.of_sameStaking ((sameStaking_accountSub h1).trans (sameStaking_accountAddWithVesting h2))
  | stake a x cs dl c o => exact handleStake_inv' hs h
  | editStake a x cs c o => exact handleEditStake_inv' hi hs h
  | unstake a => exact handleUnstake_inv hs ⟨hh.unstaking, hh.delegateUnstaking⟩ h
  | pause a => exact handlePause_inv hs hh.maxPause h
  | unpause a => exact handleUnpause_inv hs h
  | daoTransfer a x m s e =>
    simp only [handleMessage, handleDaoTransfer] at h
    obtain ⟨_, _, h⟩ := bind_ok h
    obtain ⟨L2, h2, h3⟩ := bind_ok h
    have s1 : SameStaking L (if m = true then mintToPool L Canopy.Gen.LedgerFacts.daoPoolId x else L) := by
      split
      · exact mintToPool_sameStaking ..
      · exact SameStaking.refl L
    exact hs.of_sameStaking ((s1.trans (sameStaking_poolSub h2)).trans (sameStaking_accountAdd h3))
  | subsidy a c x =>
    simp only [handleMessage, handleSubsidy] at h
    split at h
    · exact absurd h (by intro h; cases h)
    · obtain ⟨L1, h1, h2⟩ := bind_ok h
      obtain rfl := Except.ok.inj h2
      exact hs.of_sameStaking ((sameStaking_accountSub h1).trans (sameStaking_poolAdd _ _ _))
  | changeParameter sg sp k v s e =>
    exact handleChangeParameter_inv hs (fun p hpp => hp sg sp k v s e p rfl hpp) h

/-- `ApplyTransaction` keeps `InvStaking` -/
theorem applyTx_inv {L L' : Ledger} {sender : Addr} {fee : Nat} {msg : Msg} (hi : InvSupply L) (hs : InvStaking L) (hh : HeightsOK L)
    (hx : L.supply.total + txMint L sender fee msg < U64)
    (hp : ∀ sg sp k v s e p, msg = .changeParameter sg sp k v s e → L.params.setUint sp k v = .ok p → HeightsOK { L with params := p })
    (h : applyTx L sender fee msg = .ok L') : InvStaking L' := by
  unfold applyTx at h
  split at h
  · exact absurd h (by intro h; cases h)
  · split at h
    · exact absurd h (by intro h; cases h)
    · split at h
      · exact absurd h (by intro h; cases h)
      · split at h
        · exact absurd h (by intro h; cases h)
        · split at h
          · exact absurd h (by intro h; cases h)
          · next L1 h1 =>
            split at h
            · exact absurd h (by intro h; cases h)
            · next L2 h2 =>
              have ss1 := sameStaking_txFaucet h1
              have ss2 := ss1.trans (sameStaking_deductFees h2)
              -- the supply identity just before the handler (as in C04)
              have st1 : Step (match msg with | .send _ _ amount => faucetMint L sender (amount + fee) | .sendVesting _ _ amount _ _ _ => faucetMint L sender (amount + fee) | _ => 0) 0 L L1 := by
                cases msg with
                | send s d x =>
                  simp only [txFaucet] at h1
                  split at h1
                  · exact absurd h1 (by intro h; cases h)
                  · exact faucetTopUp_mints (by simpa [txMint] using hx) h1
                | sendVesting s d x st cl en =>
                  simp only [txFaucet] at h1
                  split at h1
                  · exact absurd h1 (by intro h; cases h)
                  · exact faucetTopUp_mints (by simpa [txMint] using hx) h1
                | stake | editStake | unstake | pause | unpause | daoTransfer | subsidy | changeParameter =>
                  simp only [txFaucet] at h1; obtain rfl := Except.ok.inj h1; exact Moves.refl L
              have hlt1 : L1.supply.total < U64 := by
                have := st1.1
                cases msg <;> simp only [txMint] at hx this <;> omega
              have i1 := st1.inv hi hlt1
              have i2 := (deductFees_moves i1 h2).inv i1
              refine handleMessage_inv i2 (hs.of_sameStaking ss2) (hh.of_same ss2.ctx.height ss2.ctx.params) ?_ h
              intro sg sp k v s e p hm hpp
              have := hp sg sp k v s e p hm (by rw [← ss2.ctx.params]; exact hpp)
              exact ⟨by show (L2.height + _) % U64 ≠ 0; rw [ss2.ctx.height]; exact this.unstaking,
                by show (L2.height + _) % U64 ≠ 0; rw [ss2.ctx.height]; exact this.delegateUnstaking,
                by show (L2.height + _) % U64 ≠ 0; rw [ss2.ctx.height]; exact this.maxPause⟩

/-! ### certificate results -/

theorem setValidatorsPaused_inv (chain : Nat) : ∀ (as : List Addr) (L : Ledger), InvStaking L → HeightsOK L →
    InvStaking (setValidatorsPaused L chain as) ∧ (setValidatorsPaused L chain as).height = L.height ∧
    (setValidatorsPaused L chain as).params = L.params
  | [], L, hs, _ => ⟨hs, rfl, rfl⟩
  | a :: as, L, hs, hh => by
    unfold setValidatorsPaused
    split
    · exact setValidatorsPaused_inv chain as L hs hh
    · split
      · exact setValidatorsPaused_inv chain as L hs hh
      · split
        · next L1 h1 =>
          have i1 := handlePause_inv hs hh.maxPause h1
          have f : L1.height = L.height ∧ L1.params = L.params := by
            unfold handlePause at h1
            obtain ⟨val, hv, h1⟩ := bind_ok h1
            guard_at h1; guard_at h1; guard_at h1
            obtain rfl := Except.ok.inj h1; exact ⟨rfl, rfl⟩
          obtain ⟨i2, e1, e2⟩ := setValidatorsPaused_inv chain as L1 i1 (hh.of_same f.1 f.2)
          exact ⟨i2, e1.trans f.1, e2.trans f.2⟩
        · exact setValidatorsPaused_inv chain as L hs hh

theorem sameStaking_incrementNonSigners (chain : Nat) : ∀ (as : List Addr) (L : Ledger), SameStaking L (incrementNonSigners L chain as)
  | [], L => SameStaking.refl L
  | a :: as, L => by
    unfold incrementNonSigners
    dsimp only
    refine SameStaking.trans ?_ (sameStaking_incrementNonSigners chain as _)
    exact ⟨rfl, rfl, rfl, rfl, rfl, rfl, rfl, ⟨rfl, rfl, rfl, rfl⟩⟩

theorem sameStaking_indexHeights (a : Addr) : ∀ (hs : List Nat) (L L' : Ledger), indexHeights L a hs = .ok L' → SameStaking L L'
  | [], L, L', h => by obtain rfl := Except.ok.inj h; exact SameStaking.refl L
  | x :: hs, L, L', h => by
    unfold indexHeights at h
    split at h
    · exact absurd h (by intro h; cases h)
    · refine SameStaking.trans ?_ (sameStaking_indexHeights a hs _ L' h)
      exact ⟨rfl, rfl, rfl, rfl, rfl, rfl, rfl, ⟨rfl, rfl, rfl, rfl⟩⟩

theorem sameStaking_indexDoubleSigners : ∀ (ds : List (Addr × List Nat)) (L : Ledger) (r : Ledger × List Addr),
    indexDoubleSigners L ds = .ok r → SameStaking L r.1
  | [], L, r, h => by obtain rfl := Except.ok.inj h; exact SameStaking.refl L
  | (a, hs) :: rest, L, r, h => by
    unfold indexDoubleSigners at h
    split at h
    · exact absurd h (by intro h; cases h)
    · split at h
      · exact absurd h (by intro h; cases h)
      · next L1 h1 =>
        split at h
        · exact absurd h (by intro h; cases h)
        · next L2 more h2 =>
          obtain rfl := Except.ok.inj h
          exact (sameStaking_indexHeights a hs L L1 h1).trans (sameStaking_indexDoubleSigners rest L1 (L2, more) h2)

theorem handleByzantine_inv {L : Ledger} {chain : Nat} {members : List (Addr × Nat × Bool)} {ds : List (Addr × List Nat)}
    {r : Ledger × Nat} (hs : InvStaking L) (hh : HeightsOK L) (h : handleByzantine L chain members ds = .ok r) :
    InvStaking r.1 := by
  unfold handleByzantine at h
  split at h
  · exact absurd h (by intro h; cases h)
  · next L1 h1 =>
    have k1 : InvStaking L1 ∧ L1.height = L.height ∧ L1.params = L.params := by
      split at h1
      · unfold slashAndResetNonSigners at h1
        dsimp only at h1
        split at h1
        · exact absurd h1 (by intro h; cases h)
        · next L2 h2 =>
          obtain rfl := Except.ok.inj h1
          obtain ⟨i1, e1, e2⟩ := setValidatorsPaused_inv chain (badNonSigners L chain) L hs hh
          have h2' : slashValidators (setValidatorsPaused L chain (badNonSigners L chain)) chain L.params.nonSignSlashPercentage (badNonSigners L chain) = .ok L2 := h2
          obtain ⟨i2, f1, f2⟩ := slashValidators_inv i1 (hh.of_same e1 e2) h2'
          exact ⟨i2.of_same rfl rfl rfl rfl rfl rfl rfl, f1.trans e1, f2.trans e2⟩
      · obtain rfl := Except.ok.inj h1; exact ⟨hs, rfl, rfl⟩
    obtain ⟨i1, e1, e2⟩ := k1
    dsimp only at h
    split at h
    · exact absurd h (by intro h; cases h)
    · next L3 h3 =>
      obtain rfl := Except.ok.inj h
      unfold handleDoubleSigners at h3
      split at h3
      · exact absurd h3 (by intro h; cases h)
      · next r' hr =>
        have ss := (sameStaking_incrementNonSigners chain _ L1).trans (sameStaking_indexDoubleSigners ds _ r' hr)
        have h3' : slashValidators r'.1 chain (incrementNonSigners L1 chain _).params.doubleSignSlashPercentage r'.2 = .ok L3 := h3
        exact (slashValidators_inv (i1.of_sameStaking ss) ((hh.of_same e1 e2).of_same ss.ctx.height ss.ctx.params) h3').1

/-- `HandleCertificateResults` keeps `InvStaking` -/
theorem handleCertificateResults_inv {L L' : Ledger} {qh qrh : Nat} {members : List (Addr × Nat × Bool)}
    {ds : List (Addr × List Nat)} {pay : List (Addr × Nat × Nat)} (hs : InvStaking L) (hh : HeightsOK L)
    (h : handleCertificateResults L qh qrh members ds pay = .ok L') : InvStaking L' := by
  unfold handleCertificateResults at h
  dsimp only at h
  split at h
  · exact absurd h (by intro h; cases h)
  · split at h
    · exact absurd h (by intro h; cases h)
    · split at h
      · exact absurd h (by intro h; cases h)
      · split at h
        · exact absurd h (by intro h; cases h)
        · next r hr =>
          have i1 := handleByzantine_inv hs hh hr
          unfold upsertCommitteeData at h
          dsimp only at h
          split at h
          · exact absurd h (by intro h; cases h)
          · split at h
            · exact absurd h (by intro h; cases h)
            · split at h
              · exact absurd h (by intro h; cases h)
              · split at h
                · exact absurd h (by intro h; cases h)
                · obtain rfl := Except.ok.inj h
                  unfold putCommitteeData
                  split <;> exact i1.of_same rfl rfl rfl rfl rfl rfl rfl

end Canopy.Ledger
