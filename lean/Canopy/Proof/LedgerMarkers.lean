import Canopy.Proof.LedgerLive
/-! C12: the marker ↔ validator-status biconditionals under the status changes. -/
namespace Canopy.Ledger
open AMap

set_option linter.unusedSimpArgs false
set_option linter.unusedVariables false

/-- the part of `WF` that concerns validator records and markers -/
structure WFm (L : Ledger) : Prop where
  validators : NodupKeys L.validators
  unstaking : NodupKeys L.unstaking
  paused : NodupKeys L.paused

theorem valGet_set (L : Ledger) (a b : Addr) (v : Validator) :
    find? (AMap.set L.validators a v) b = if a = b then some v else valGet? L b := by
  unfold valGet?; exact find?_set _ _ _ _

/-- `SetValidatorUnstaking` on a validator that is not yet unstaking: the new marker appears, a paused marker goes -/
theorem markers_setValidatorUnstaking {L : Ledger} {a : Addr} {old val : Validator} {f : Nat} (hm : Markers L) (hw : WFm L)
    (hg : valGet? L a = some old) (hu : old.unstakingHeight = 0) (hp : val.maxPausedHeight = old.maxPausedHeight) (hf : f ≠ 0) :
    Markers (setValidatorUnstaking L a val f) ∧ WFm (setValidatorUnstaking L a val f) := by
  have hvv := setValidatorUnstaking_validators L a val f
  have hun : (setValidatorUnstaking L a val f).unstaking = KSet.add L.unstaking (f, a) := by
    unfold setValidatorUnstaking valPut; split <;> rfl
  have hpa : (setValidatorUnstaking L a val f).paused =
      if val.maxPausedHeight ≠ 0 then KSet.del L.paused (val.maxPausedHeight, a) else L.paused := by
    unfold setValidatorUnstaking valPut; split <;> rfl
  have hget : ∀ b, valGet? (setValidatorUnstaking L a val f) b =
      if a = b then some { val with maxPausedHeight := 0, unstakingHeight := f } else valGet? L b := by
    intro b; unfold valGet?; rw [hvv]; exact find?_set _ _ _ _
  refine ⟨⟨?_, ?_, ?_⟩, ⟨?_, ?_, ?_⟩⟩
  · -- unstaking markers
    intro h b
    rw [hun, has_add, hget]
    constructor
    · rintro (e | e)
      · simp only [Prod.mk.injEq] at e
        obtain ⟨rfl, rfl⟩ := e
        exact ⟨{ val with maxPausedHeight := 0, unstakingHeight := f }, by simp, rfl, hf⟩
      · obtain ⟨v, hv, he, hne⟩ := (hm.unstaking h b).1 e
        have hab : a ≠ b := by
          intro e'; subst e'
          rw [hg] at hv; cases hv
          exact hne (he ▸ hu)
        exact ⟨v, by simp [hab, hv], he, hne⟩
    · rintro ⟨v, hv, he, hne⟩
      by_cases hab : a = b
      · subst hab
        simp only [if_true, Option.some.injEq] at hv
        subst hv
        exact Or.inl (by simp at he; simp [he])
      · simp only [hab, if_false] at hv
        exact Or.inr ((hm.unstaking h b).2 ⟨v, hv, he, hne⟩)
  · -- paused markers
    intro h b
    rw [hpa, hget]
    constructor
    · intro e
      have e' : KSet.has L.paused (h, b) = true := by
        split at e
        · exact has_del_of _ _ _ e
        · exact e
      obtain ⟨v, hv, he, hne⟩ := (hm.paused h b).1 e'
      have hab : a ≠ b := by
        intro e''; subst e''
        rw [hg] at hv; cases hv
        -- the marker (h, a) with h = old.maxPausedHeight = val.maxPausedHeight was deleted
        have hmp : val.maxPausedHeight = h := by rw [hp]; exact he
        rw [if_pos (by rw [hmp]; exact hne), hmp, has_del_self _ _ hw.paused] at e
        cases e
      exact ⟨v, by simp [hab, hv], he, hne⟩
    · rintro ⟨v, hv, he, hne⟩
      by_cases hab : a = b
      · subst hab
        simp only [if_true, Option.some.injEq] at hv
        subst hv
        exact absurd he.symm hne
      · simp only [hab, if_false] at hv
        have e' := (hm.paused h b).2 ⟨v, hv, he, hne⟩
        split
        · rw [has_del_ne]
          · exact e'
          · intro e''; simp only [Prod.mk.injEq] at e''; exact hab e''.2
        · exact e'
  · -- an unstaking validator is never paused
    intro b v hv hne
    rw [hget] at hv
    by_cases hab : a = b
    · subst hab; simp only [if_true, Option.some.injEq] at hv; subst hv; rfl
    · simp only [hab, if_false] at hv; exact hm.exclusive b v hv hne
  · rw [hvv]; exact nodup_set _ _ _ hw.validators
  · rw [hun]; exact nodup_set _ _ _ hw.unstaking
  · rw [hpa]; split
    · exact nodup_erase _ _ hw.paused
    · exact hw.paused

/-- `SetValidatorPaused` on an active validator -/
theorem markers_setValidatorPaused {L : Ledger} {a : Addr} {old : Validator} {m : Nat} (hm : Markers L) (hw : WFm L)
    (hg : valGet? L a = some old) (hu : old.unstakingHeight = 0) (hp : old.maxPausedHeight = 0) (hf : m ≠ 0) :
    Markers (setValidatorPaused L a old m) ∧ WFm (setValidatorPaused L a old m) := by
  have hget : ∀ b, valGet? (setValidatorPaused L a old m) b = if a = b then some { old with maxPausedHeight := m } else valGet? L b := by
    intro b; unfold valGet?; exact find?_set _ _ _ _
  refine ⟨⟨?_, ?_, ?_⟩, ⟨nodup_set _ _ _ hw.validators, hw.unstaking, nodup_set _ _ _ hw.paused⟩⟩
  · intro h b
    show KSet.has L.unstaking (h, b) = true ↔ _
    rw [hget]
    constructor
    · intro e
      obtain ⟨v, hv, he, hne⟩ := (hm.unstaking h b).1 e
      have hab : a ≠ b := by
        intro e'; subst e'; rw [hg] at hv; cases hv; exact hne (he ▸ hu)
      exact ⟨v, by simp [hab, hv], he, hne⟩
    · rintro ⟨v, hv, he, hne⟩
      by_cases hab : a = b
      · subst hab; simp only [if_true, Option.some.injEq] at hv; subst hv
        exact absurd (he ▸ hu) hne
      · simp only [hab, if_false] at hv; exact (hm.unstaking h b).2 ⟨v, hv, he, hne⟩
  · intro h b
    show KSet.has (KSet.add L.paused (m, a)) (h, b) = true ↔ _
    rw [has_add, hget]
    constructor
    · rintro (e | e)
      · simp only [Prod.mk.injEq] at e; obtain ⟨rfl, rfl⟩ := e
        exact ⟨{ old with maxPausedHeight := m }, by simp, rfl, hf⟩
      · obtain ⟨v, hv, he, hne⟩ := (hm.paused h b).1 e
        have hab : a ≠ b := by
          intro e'; subst e'; rw [hg] at hv; cases hv; exact hne (he ▸ hp)
        exact ⟨v, by simp [hab, hv], he, hne⟩
    · rintro ⟨v, hv, he, hne⟩
      by_cases hab : a = b
      · subst hab; simp only [if_true, Option.some.injEq] at hv; subst hv
        exact Or.inl (by simp at he; simp [he])
      · simp only [hab, if_false] at hv; exact Or.inr ((hm.paused h b).2 ⟨v, hv, he, hne⟩)
  · intro b v hv hne
    rw [hget] at hv
    by_cases hab : a = b
    · subst hab; simp only [if_true, Option.some.injEq] at hv; subst hv; exact absurd hu hne
    · simp only [hab, if_false] at hv; exact hm.exclusive b v hv hne

/-- `SetValidatorUnpaused` on a paused validator -/
theorem markers_setValidatorUnpaused {L : Ledger} {a : Addr} {old : Validator} (hm : Markers L) (hw : WFm L)
    (hg : valGet? L a = some old) :
    Markers (setValidatorUnpaused L a old) ∧ WFm (setValidatorUnpaused L a old) := by
  have hget : ∀ b, valGet? (setValidatorUnpaused L a old) b = if a = b then some { old with maxPausedHeight := 0 } else valGet? L b := by
    intro b; unfold valGet?; exact find?_set _ _ _ _
  refine ⟨⟨?_, ?_, ?_⟩, ⟨nodup_set _ _ _ hw.validators, hw.unstaking, nodup_erase _ _ hw.paused⟩⟩
  · intro h b
    show KSet.has L.unstaking (h, b) = true ↔ _
    rw [hget]
    constructor
    · intro e
      obtain ⟨v, hv, he, hne⟩ := (hm.unstaking h b).1 e
      by_cases hab : a = b
      · subst hab; rw [hg] at hv; cases hv
        exact ⟨{ old with maxPausedHeight := 0 }, by simp, he, hne⟩
      · exact ⟨v, by simp [hab, hv], he, hne⟩
    · rintro ⟨v, hv, he, hne⟩
      by_cases hab : a = b
      · subst hab; simp only [if_true, Option.some.injEq] at hv; subst hv
        exact (hm.unstaking h a).2 ⟨old, hg, he, hne⟩
      · simp only [hab, if_false] at hv; exact (hm.unstaking h b).2 ⟨v, hv, he, hne⟩
  · intro h b
    show KSet.has (KSet.del L.paused (old.maxPausedHeight, a)) (h, b) = true ↔ _
    rw [hget]
    constructor
    · intro e
      obtain ⟨v, hv, he, hne⟩ := (hm.paused h b).1 (has_del_of _ _ _ e)
      have hab : a ≠ b := by
        intro e'; subst e'; rw [hg] at hv; cases hv
        rw [he, has_del_self _ _ hw.paused] at e; cases e
      exact ⟨v, by simp [hab, hv], he, hne⟩
    · rintro ⟨v, hv, he, hne⟩
      by_cases hab : a = b
      · subst hab; simp only [if_true, Option.some.injEq] at hv; subst hv
        exact absurd he.symm hne
      · simp only [hab, if_false] at hv
        rw [has_del_ne]
        · exact (hm.paused h b).2 ⟨v, hv, he, hne⟩
        · intro e''; simp only [Prod.mk.injEq] at e''; exact hab e''.2
  · intro b v hv hne
    rw [hget] at hv
    by_cases hab : a = b
    · subst hab; simp only [if_true, Option.some.injEq] at hv; subst hv; rfl
    · simp only [hab, if_false] at hv; exact hm.exclusive b v hv hne

end Canopy.Ledger
