import Canopy.Proof.StoreSorted
/-! What a `VersionedStore` reader shows, stated on the key space as a finite map (C10):
`Sees db v uk x` = the newest version ≤ `v` of user key `uk` present in `db` is alive with value `x`.
`VersionedStore.get` and every iterator strategy return exactly that. -/
namespace Canopy.Store
open Canopy

/-- a logical view: `R k x` = key `k` is present with value `x` -/
abbrev View := Bytes → Bytes → Prop

/-- `out` is *the* prefix scan of the view `R` -/
def IsScanR (R : View) (p : Bytes) (reverse : Bool) (out : List (Bytes × Bytes)) : Prop :=
  KeysSorted reverse (out.map (·.1)) ∧ ∀ k x, (k, x) ∈ out ↔ (hasPrefix p k = true ∧ R k x)

theorem IsScanR.congr {R R' : View} {p : Bytes} {reverse : Bool} {out : List (Bytes × Bytes)}
    (h : ∀ k x, R k x ↔ R' k x) (hs : IsScanR R p reverse out) : IsScanR R' p reverse out :=
  ⟨hs.1, fun k x => by rw [hs.2, h]⟩

theorem isScan_iff_isScanR (f : Bytes → Option Bytes) (p : Bytes) (reverse : Bool) (out : List (Bytes × Bytes)) :
    IsScan f p reverse out ↔ IsScanR (fun k x => f k = some x) p reverse out := Iff.rfl

/-- the newest version ≤ `v` of `uk` in the key space is alive with value `x` -/
def Sees (db : DB) (v : Nat) (uk x : Bytes) : Prop :=
  ∃ w raw, w ≤ v ∧ w ≤ maxVer ∧ smGet db (mkKey uk w) = some raw ∧
    (∀ w' raw', w' ≤ v → w' ≤ maxVer → smGet db (mkKey uk w') = some raw' → w' ≤ w) ∧
    (parseVal raw).1 ≠ deadTomb ∧ (parseVal raw).2 = x

theorem G.pick_iff {g : G} (hg : g.WF) (v : Nat) (k x : Bytes) :
    g.pick v = some (k, x) ↔
      k = g.uk ∧ ∃ w raw, (w, raw) ∈ g.es ∧ w ≤ v ∧ (∀ q ∈ g.es, q.1 ≤ v → q.1 ≤ w) ∧
        (parseVal raw).1 ≠ deadTomb ∧ (parseVal raw).2 = x := by
  obtain ⟨es1, rest, hes, h1, h2, h3⟩ := split_newer v g.es
  have hdesc : (es1 ++ rest).Pairwise fun p q => q.1 < p.1 := hes ▸ hg.desc
  rw [G.pick_of_split h3]
  cases rest with
  | nil =>
    simp only [List.head?_nil]
    constructor
    · intro h; cases h
    · rintro ⟨_, w, raw, hm, hw, _⟩
      rw [hes, List.append_nil] at hm
      have := h1 _ hm; simp at this; omega
  | cons q rest2 =>
    simp only [List.head?_cons]
    have hq := h2 q rfl
    have hrest := (List.pairwise_append.mp hdesc).2.1
    have hmax : ∀ p ∈ g.es, p.1 ≤ v → p.1 ≤ q.1 := by
      intro p hp hpv
      rw [hes] at hp
      rcases List.mem_append.mp hp with hp | hp
      · have := h1 p hp; omega
      · rcases List.mem_cons.mp hp with rfl | hp
        · exact Nat.le_refl _
        · have := (List.pairwise_cons.mp hrest).1 p hp; omega
    have hqm : q ∈ g.es := by rw [hes]; simp
    constructor
    · intro h
      by_cases hd : (parseVal q.2).1 = deadTomb
      · rw [if_pos hd] at h; cases h
      · rw [if_neg hd] at h
        simp only [Option.some.injEq, Prod.mk.injEq] at h
        exact ⟨h.1.symm, q.1, q.2, hqm, hq, hmax, hd, h.2⟩
    · rintro ⟨rfl, w, raw, hm, hw, hmx, hal, hx⟩
      have hwq : w = q.1 := by
        have a := hmx q hqm hq
        have b := hmax (w, raw) hm hw
        exact Nat.le_antisymm b a
      have heq : (w, raw) = q := by
        rw [hes] at hm
        rcases List.mem_append.mp hm with hm | hm
        · have := h1 _ hm; simp at this; omega
        · rcases List.mem_cons.mp hm with h | hm
          · exact h
          · have := (List.pairwise_cons.mp hrest).1 _ hm; simp at this; omega
      subst heq
      rw [if_neg hal, hx]

theorem sees_iff_groups {gs : List G} (hW : WFG gs) (v : Nat) (uk x : Bytes) :
    Sees (flat gs) v uk x ↔ ∃ g ∈ gs, g.uk = uk ∧ g.pick v = some (uk, x) := by
  constructor
  · rintro ⟨w, raw, hwv, hwm, hget, hmax, hal, hx⟩
    obtain ⟨g, hg, hgu, hmem⟩ := (smGet_flat hW uk w hwm raw).mp hget
    refine ⟨g, hg, hgu, (G.pick_iff (hW.wf g hg) v uk x).mpr ⟨hgu.symm, w, raw, hmem, hwv, ?_, hal, hx⟩⟩
    intro q hq hqv
    exact hmax q.1 q.2 hqv ((hW.wf g hg).le_max q hq) ((smGet_flat hW uk q.1 ((hW.wf g hg).le_max q hq) q.2).mpr ⟨g, hg, hgu, hq⟩)
  · rintro ⟨g, hg, hgu, hp⟩
    obtain ⟨_, w, raw, hmem, hwv, hmax, hal, hx⟩ := (G.pick_iff (hW.wf g hg) v uk x).mp hp
    have hwm := (hW.wf g hg).le_max _ hmem
    refine ⟨w, raw, hwv, hwm, (smGet_flat hW uk w hwm raw).mpr ⟨g, hg, hgu, hmem⟩, ?_, hal, hx⟩
    intro w' raw' hw'v hw'm hget'
    obtain ⟨g', hg', hgu', hmem'⟩ := (smGet_flat hW uk w' hw'm raw').mp hget'
    have : g' = g := hW.uk_unique hg' hg (by rw [hgu', hgu])
    subst this
    exact hmax _ hmem' hw'v

end Canopy.Store

namespace Canopy.Store
open Canopy

/-- the queried user key is not a proper prefix or extension of a stored user key -/
def KeyCompat (db : DB) (uk : Bytes) : Prop :=
  ∀ e ∈ db, ∀ u w, e.1 = mkKey u w → (u <+: uk ∨ uk <+: u) → u = uk

/-- no stored user key is a proper prefix of the iteration prefix -/
def PrefixCompat (db : DB) (pfx : Bytes) : Prop :=
  ∀ e ∈ db, ∀ u w, e.1 = mkKey u w → u <+: pfx → u = pfx

theorem mem_flat_of_group {gs : List G} (hW : WFG gs) {g : G} (hg : g ∈ gs) :
    ∃ q, q ∈ g.es ∧ (mkKey g.uk q.1, q.2) ∈ flat gs := by
  obtain ⟨q, qs, hq⟩ := List.exists_cons_of_ne_nil (hW.wf g hg).es_ne
  exact ⟨q, by rw [hq]; simp, mem_flat.mpr ⟨g, hg, mem_entries.mpr ⟨q, by rw [hq]; simp, rfl⟩⟩⟩

theorem VS.get_eq_bind (vs : VS) (uk : Bytes) :
    vs.get uk = (vs.getRaw uk).bind fun tv => if tv.1 = deadTomb then none else some tv.2 := by
  unfold VS.get
  cases vs.getRaw uk with
  | none => rfl
  | some tv => obtain ⟨t, v⟩ := tv; rfl

/-- **`VersionedStore.Get`** returns the newest version ≤ the read version, tombstones hidden -/
theorem VS.get_sees (db : DB) (h : WFL db) (v : Nat) (hvm : v ≤ maxVer) (uk : Bytes) (hc : KeyCompat db uk)
    (x : Bytes) : (VS.mk db v).get uk = some x ↔ Sees db v uk x := by
  obtain ⟨gs, hW, rfl⟩ := exists_groups db h
  have hcg : ∀ g ∈ gs, (g.uk <+: uk ∨ uk <+: g.uk) → g.uk = uk := by
    intro g hg hp
    obtain ⟨q, _, hm⟩ := mem_flat_of_group hW hg
    exact hc _ hm g.uk q.1 rfl hp
  rw [sees_iff_groups hW, VS.get_eq_bind, VS.getRaw_groups gs hW v hvm uk hcg]
  cases hf : gs.find? (fun g => decide (g.uk = uk)) with
  | none =>
    simp only [Option.bind_none]
    constructor
    · intro h; cases h
    · rintro ⟨g, hg, hgu, _⟩
      have := List.find?_eq_none.mp hf g hg
      simp [hgu] at this
  | some g =>
    have hg : g ∈ gs := List.mem_of_find?_eq_some hf
    have hgu : g.uk = uk := by simpa using List.find?_some hf
    have hpick : ((g.es.find? fun p => decide (p.1 ≤ v)).map (fun p => parseVal p.2)).bind
        (fun tv => if tv.1 = deadTomb then none else some tv.2) = (g.pick v).map (·.2) := by
      unfold G.pick
      cases g.es.find? (fun p => decide (p.1 ≤ v)) with
      | none => rfl
      | some p =>
        simp only [Option.map_some]
        by_cases hd : (parseVal p.2).1 = deadTomb <;> simp [hd]
    simp only
    rw [hpick]
    constructor
    · intro hx
      refine ⟨g, hg, hgu, ?_⟩
      cases hp : g.pick v with
      | none => rw [hp] at hx; cases hx
      | some kx =>
        obtain ⟨k', x'⟩ := kx
        rw [hp] at hx
        simp only [Option.map_some, Option.some.injEq] at hx
        have := ((G.pick_iff (hW.wf g hg) v k' x').mp hp).1
        rw [this, hgu, hx]
    · rintro ⟨g', hg', hgu', hp⟩
      have : g' = g := hW.uk_unique hg' hg (by rw [hgu', hgu])
      subst this
      rw [hp]; rfl

theorem KeysSorted_of_groups {gs : List G} (hW : WFG gs) (v : Nat) :
    KeysSorted false ((gs.filterMap (G.pick v)).map (·.1)) ∧
    KeysSorted true ((gs.reverse.filterMap (G.pick v)).map (·.1)) := by
  have hkey : ∀ g : G, ∀ kx ∈ g.pick v, kx.1 = g.uk := by
    intro g kx hkx
    unfold G.pick at hkx
    cases hfind : g.es.find? (fun p => decide (p.1 ≤ v)) with
    | none => rw [hfind] at hkx; cases hkx
    | some p =>
      rw [hfind] at hkx
      by_cases hd : (parseVal p.2).1 = deadTomb
      · simp [hd] at hkx
      · simp [hd] at hkx; rw [← hkx]
  constructor
  · unfold KeysSorted
    rw [List.pairwise_map, List.pairwise_filterMap]
    exact hW.order.imp fun {g h} hgh a ha b hb => by
      simp only [Bool.false_eq_true, if_false]
      rw [hkey g a ha, hkey h b hb]; exact hgh.1
  · unfold KeysSorted
    rw [List.pairwise_map, List.pairwise_filterMap, List.pairwise_reverse]
    exact hW.order.imp fun {g h} hgh a ha b hb => by
      simp only [if_true]
      rw [hkey h a ha, hkey g b hb]; exact hgh.1

/-- **every `VersionedIterator` strategy** (seek/linear × forward/reverse) yields exactly the prefix
scan of what point reads show: complete, strictly ordered, duplicate-free -/
theorem VS.iter_sees (db : DB) (h : WFL db) (v : Nat) (hvm : v ≤ maxVer) (pfx : Bytes)
    (hq : PrefixCompat db pfx) (reverse seek : Bool) :
    IsScanR (Sees db v) pfx reverse ((VS.mk db v).iter pfx reverse seek) := by
  obtain ⟨gs, hW, rfl⟩ := exists_groups db h
  have hqg : QueryOK gs pfx := by
    intro g hg hp
    obtain ⟨q, _, hm⟩ := mem_flat_of_group hW hg
    exact hq _ hm g.uk q.1 rfl hp
  have hb := bound_groups gs hW pfx hqg
  have hW' := hW.filter fun g => hasPrefix pfx g.uk
  rw [VS.iter_groups (flat gs) v hvm pfx reverse seek _ hW' hb]
  have hmem : ∀ (l : List G), (∀ g, g ∈ l ↔ g ∈ gs.filter fun g => hasPrefix pfx g.uk) → ∀ k x,
      (k, x) ∈ l.filterMap (G.pick v) ↔ (hasPrefix pfx k = true ∧ Sees (flat gs) v k x) := by
    intro l hl k x
    rw [sees_iff_groups hW, List.mem_filterMap]
    constructor
    · rintro ⟨g, hg, hp⟩
      have hg' := List.mem_filter.mp ((hl g).mp hg)
      have hk := ((G.pick_iff (hW.wf g hg'.1) v k x).mp hp).1
      subst hk
      exact ⟨hg'.2, g, hg'.1, rfl, hp⟩
    · rintro ⟨hpre, g, hg, rfl, hp⟩
      exact ⟨g, (hl g).mpr (List.mem_filter.mpr ⟨hg, hpre⟩), hp⟩
  have hsorted := KeysSorted_of_groups hW' v
  cases reverse with
  | false => exact ⟨hsorted.1, hmem _ (fun _ => Iff.rfl)⟩
  | true => exact ⟨hsorted.2, hmem _ (fun _ => List.mem_reverse)⟩

end Canopy.Store
