import Canopy.Proof.LedgerStakingOps
/-! C04: `PercentsOK` (recorded reward percents ≤ 100 per certificate sample) as a state invariant: no operation
except certificate results and the end-of-block distribution touches the committee data. -/
namespace Canopy.Ledger
open AMap

set_option linter.unusedSimpArgs false
set_option linter.unusedVariables false

/-- the committee data is untouched -/
def KeepCD (L L' : Ledger) : Prop := L'.committeesData = L.committeesData

theorem KeepCD.refl (L : Ledger) : KeepCD L L := rfl
theorem KeepCD.trans {A B C : Ledger} (h1 : KeepCD A B) (h2 : KeepCD B C) : KeepCD A C := Eq.trans h2 h1
theorem KeepCD.percents {L L' : Ledger} (h : KeepCD L L') (hp : PercentsOK L) : PercentsOK L' := by
  unfold PercentsOK; rw [h]; exact hp

theorem keepCD_accountAdd {L L' : Ledger} {a : Addr} {x : Nat} (h : accountAdd L a x = .ok L') : KeepCD L L' := by
  obtain ⟨_, vs, rfl, _⟩ := accountAdd_ok h; rfl
theorem keepCD_accountSub {L L' : Ledger} {a : Addr} {x : Nat} (h : accountSub L a x = .ok L') : KeepCD L L' := by
  obtain ⟨_, vs, rfl, _⟩ := accountSub_ok h; rfl
theorem keepCD_poolSub {L L' : Ledger} {a x : Nat} (h : poolSub L a x = .ok L') : KeepCD L L' := by
  obtain ⟨_, rfl, _⟩ := poolSub_ok h; rfl
theorem keepCD_setValidatorUnstaking (L : Ledger) (a : Addr) (v : Validator) (f : Nat) : KeepCD L (setValidatorUnstaking L a v f) := by
  unfold setValidatorUnstaking valPut KeepCD; split <;> rfl

theorem keepCD_deductFees {L L' : Ledger} {a : Addr} {fee : Nat} (h : deductFees L a fee = .ok L') : KeepCD L L' := by
  unfold deductFees at h
  obtain ⟨L1, h1, h2⟩ := bind_ok h
  obtain rfl := Except.ok.inj h2
  exact (keepCD_accountSub h1).trans rfl

theorem keepCD_deleteValidator {L L' : Ledger} {a : Addr} {val : Validator} (h : deleteValidator L a val = .ok L') : KeepCD L L' := by
  unfold deleteValidator at h
  obtain ⟨L1, h1, h⟩ := bind_ok h
  obtain ⟨_, rfl⟩ := subFromStaked_ok h1
  dsimp only at h
  split at h
  · obtain ⟨L1', h3, h⟩ := bind_ok h
    obtain ⟨_, rfl⟩ := subFromDelegated_ok h3
    dsimp only at h
    obtain ⟨L2, h2, h⟩ := bind_ok h
    obtain rfl := Except.ok.inj h
    exact (sameCore_deleteDelegations h2).committeesData
  · obtain ⟨L2, h2, h⟩ := bind_ok h
    obtain rfl := Except.ok.inj h
    exact (sameCore_deleteCommittees h2).committeesData

theorem keepCD_slashValidator {mc : Bool} {L L' : Ledger} {a : Addr} {val : Validator} {ch p : Nat}
    (h : slashValidatorWith mc L a val ch p = .ok L') : KeepCD L L' := by
  unfold slashValidatorWith at h
  split at h
  · obtain rfl := Except.ok.inj h; rfl
  · next p' cs' L0 hsc =>
    have k0 : KeepCD L L0 := by
      unfold slashScope at hsc
      split at hsc
      · split at hsc
        · cases hsc
        · dsimp only at hsc
          split at hsc
          · cases hsc
          · simp only [Option.some.injEq, Prod.mk.injEq] at hsc; obtain ⟨_, _, rfl⟩ := hsc; rfl
      · simp only [Option.some.injEq, Prod.mk.injEq] at hsc; obtain ⟨_, _, rfl⟩ := hsc; rfl
    dsimp only at h
    split at h
    · exact absurd h (by intro h; cases h)
    · next L1 h1 =>
      obtain ⟨_, rfl⟩ := subFromTotal_ok h1
      split at h
      · have kc : KeepCD { L0 with supply := { L0.supply with total := L0.supply.total - (val.stake - stakeAfterSlash val.stake p') } }
            (slashCleanMarkers mc { L0 with supply := { L0.supply with total := L0.supply.total - (val.stake - stakeAfterSlash val.stake p') } } a val) := by
          unfold slashCleanMarkers KeepCD; dsimp only; split <;> split <;> rfl
        exact (k0.trans kc).trans (keepCD_deleteValidator h)
      · split at h
        · exact absurd h (by intro h; cases h)
        · next L2 h2 =>
          obtain ⟨_, rfl⟩ := subFromStaked_ok h2
          split at h
          · exact absurd h (by intro h; cases h)
          · next L3 h3 =>
            obtain rfl := Except.ok.inj h
            have k3 : KeepCD L0 L3 := by
              unfold slashMembership at h3
              split at h3
              · obtain ⟨La, ha, hb⟩ := bind_ok h3
                obtain ⟨_, rfl⟩ := subFromDelegated_ok ha
                exact (sameCore_updateDelegations hb).committeesData
              · exact (sameCore_updateCommittees h3).committeesData
            have k4 : KeepCD L3 (slashFinish L3 a { val with committees := cs', stake := stakeAfterSlash val.stake p' }) := by
              unfold slashFinish
              dsimp only
              rcases setUnstakingIfBelowMinimum_eq L3 a { val with committees := cs', stake := stakeAfterSlash val.stake p' } with e | ⟨f, e⟩
              · rw [e]; simp only [Bool.false_eq_true, if_false]; rfl
              · rw [e]; simp only [if_true]; exact keepCD_setValidatorUnstaking ..
            exact (k0.trans k3).trans k4

theorem keepCD_slashValidators {mc : Bool} {ch p : Nat} : ∀ {as : List Addr} {L L' : Ledger},
    slashValidatorsWith mc L ch p as = .ok L' → KeepCD L L'
  | [], L, L', h => by obtain rfl := Except.ok.inj h; rfl
  | a :: as, L, L', h => by
    unfold slashValidatorsWith at h
    split at h
    · exact keepCD_slashValidators h
    · obtain ⟨L1, h1, h2⟩ := bind_ok h
      exact (keepCD_slashValidator h1).trans (keepCD_slashValidators h2)

theorem keepCD_handlePause {L L' : Ledger} {a : Addr} (h : handlePause L a = .ok L') : KeepCD L L' := by
  unfold handlePause at h
  obtain ⟨val, hv, h⟩ := bind_ok h
  guard_at h; guard_at h; guard_at h
  obtain rfl := Except.ok.inj h; rfl

theorem keepCD_setValidatorsPaused (chain : Nat) : ∀ (as : List Addr) (L : Ledger), KeepCD L (setValidatorsPaused L chain as)
  | [], L => rfl
  | a :: as, L => by
    unfold setValidatorsPaused
    split
    · exact keepCD_setValidatorsPaused chain as L
    · split
      · exact keepCD_setValidatorsPaused chain as L
      · split
        · next L1 h1 => exact (keepCD_handlePause h1).trans (keepCD_setValidatorsPaused chain as L1)
        · exact keepCD_setValidatorsPaused chain as L

theorem keepCD_incrementNonSigners (chain : Nat) : ∀ (as : List Addr) (L : Ledger), KeepCD L (incrementNonSigners L chain as)
  | [], L => rfl
  | a :: as, L => by
    unfold incrementNonSigners
    dsimp only
    have := keepCD_incrementNonSigners chain as
      { L with nonSigners := AMap.set L.nonSigners a (if v2 L = true then ({ counter := (((find? L.nonSigners a).getD { counter := 0, chains := [] }).counter + 1) % U64, chains := NMap.put ((find? L.nonSigners a).getD { counter := 0, chains := [] }).chains chain ((NMap.get ((find? L.nonSigners a).getD { counter := 0, chains := [] }).chains chain + 1) % U64) } : NonSigner) else { counter := (((find? L.nonSigners a).getD { counter := 0, chains := [] }).counter + 1) % U64, chains := ((find? L.nonSigners a).getD { counter := 0, chains := [] }).chains }) }
    exact this

theorem keepCD_indexHeights (a : Addr) : ∀ (hs : List Nat) (L L' : Ledger), indexHeights L a hs = .ok L' → KeepCD L L'
  | [], L, L', h => by obtain rfl := Except.ok.inj h; rfl
  | x :: hs, L, L', h => by
    unfold indexHeights at h
    split at h
    · exact absurd h (by intro h; cases h)
    · have := keepCD_indexHeights a hs _ L' h
      exact this

theorem keepCD_indexDoubleSigners : ∀ (ds : List (Addr × List Nat)) (L : Ledger) (r : Ledger × List Addr),
    indexDoubleSigners L ds = .ok r → KeepCD L r.1
  | [], L, r, h => by obtain rfl := Except.ok.inj h; rfl
  | (a, hs) :: rest, L, r, h => by
    unfold indexDoubleSigners at h
    split at h
    · exact absurd h (by intro h; cases h)
    · split at h
      · exact absurd h (by intro h; cases h)
      · next L1 h1 =>
        split at h
        · exact absurd h (by intro h; cases h)
        · next L2 more h2 =>
          obtain rfl := Except.ok.inj h
          exact (keepCD_indexHeights a hs L L1 h1).trans (keepCD_indexDoubleSigners rest L1 (L2, more) h2)

theorem keepCD_handleByzantine {L : Ledger} {chain : Nat} {members : List (Addr × Nat × Bool)} {ds : List (Addr × List Nat)}
    {r : Ledger × Nat} (h : handleByzantine L chain members ds = .ok r) : KeepCD L r.1 := by
  unfold handleByzantine at h
  split at h
  · exact absurd h (by intro h; cases h)
  · next L1 h1 =>
    have k1 : KeepCD L L1 := by
      split at h1
      · unfold slashAndResetNonSigners at h1
        dsimp only at h1
        split at h1
        · exact absurd h1 (by intro h; cases h)
        · next L2 h2 =>
          obtain rfl := Except.ok.inj h1
          exact ((keepCD_setValidatorsPaused chain _ L).trans (keepCD_slashValidators h2)).trans rfl
      · obtain rfl := Except.ok.inj h1; rfl
    dsimp only at h
    split at h
    · exact absurd h (by intro h; cases h)
    · next L3 h3 =>
      obtain rfl := Except.ok.inj h
      unfold handleDoubleSigners at h3
      split at h3
      · exact absurd h3 (by intro h; cases h)
      · next r' hr =>
        exact ((k1.trans (keepCD_incrementNonSigners chain _ L1)).trans (keepCD_indexDoubleSigners ds _ r' hr)).trans (keepCD_slashValidators h3)

end Canopy.Ledger

namespace Canopy.Ledger
open AMap
set_option linter.unusedSimpArgs false
set_option linter.unusedVariables false

theorem keepCD_conformMinStakeStep (L : Ledger) (a : Addr) : KeepCD L (conformMinStakeStep L a) := by
  unfold conformMinStakeStep
  split
  · next val hv =>
    rcases setUnstakingIfBelowMinimum_eq L a val with e | ⟨f, e⟩
    · rw [e]; rfl
    · rw [e]; exact keepCD_setValidatorUnstaking ..
  · rfl

theorem keepCD_foldl {α} (f : Ledger → α → Ledger) (hf : ∀ L x, KeepCD L (f L x)) : ∀ (xs : List α) (L : Ledger), KeepCD L (xs.foldl f L)
  | [], L => rfl
  | x :: xs, L => (hf L x).trans (keepCD_foldl f hf xs (f L x))

theorem keepCD_conformTrimStep {acc acc' : Ledger × Nat} {a : Addr} (h : conformTrimStep acc a = .ok acc') : KeepCD acc.1 acc'.1 := by
  obtain ⟨L, idx⟩ := acc
  unfold conformTrimStep at h
  dsimp only at h
  split at h
  · obtain rfl := Except.ok.inj h; rfl
  · split at h
    · obtain rfl := Except.ok.inj h; rfl
    · split at h
      · exact absurd h (by intro h; cases h)
      · next L1 h1 =>
        obtain rfl := Except.ok.inj h
        split at h1
        · exact (sameCore_updateDelegations h1).committeesData
        · exact (sameCore_updateCommittees h1).committeesData

theorem keepCD_foldlM_trim : ∀ (as : List Addr) (acc acc' : Ledger × Nat), as.foldlM conformTrimStep acc = .ok acc' → KeepCD acc.1 acc'.1
  | [], acc, acc', h => by obtain rfl := Except.ok.inj h; rfl
  | a :: as, acc, acc', h => by
    simp only [List.foldlM_cons] at h
    obtain ⟨acc1, h1, h2⟩ := bind_ok h
    exact (keepCD_conformTrimStep h1).trans (keepCD_foldlM_trim as acc1 acc' h2)

theorem keepCD_handleChangeParameter {L L' : Ledger} {space key : String} {v s e : Nat}
    (h : handleChangeParameter L space key v s e = .ok L') : KeepCD L L' := by
  unfold handleChangeParameter at h
  split at h
  · exact absurd h (by intro h; cases h)
  · split at h
    · exact absurd h (by intro h; cases h)
    · next p hp =>
      unfold conformStateToParamUpdate at h
      dsimp only at h
      have k1 : KeepCD L (conformMinStake { L with params := p } L.params) := by
        unfold conformMinStake
        split
        · exact KeepCD.trans rfl (keepCD_foldl conformMinStakeStep keepCD_conformMinStakeStep _ _)
        · rfl
      split at h
      · obtain rfl := Except.ok.inj h; exact k1
      · split at h
        · exact absurd h (by intro h; cases h)
        · next r hr =>
          obtain rfl := Except.ok.inj h
          exact k1.trans (keepCD_foldlM_trim _ _ r hr)

theorem keepCD_accountAddWithVesting {L L' : Ledger} {dst : Addr} {x st cl en : Nat}
    (h : accountAddWithVesting L dst x st cl en = .ok L') : KeepCD L L' := by
  obtain ⟨acc, vs, rfl, _⟩ := accountAddWithVesting_ok h; rfl

theorem keepCD_faucetTopUp {L L' : Ledger} {a : Addr} {r : Nat} (h1 : faucetTopUp L a r = .ok L') : KeepCD L L' := by
  unfold faucetTopUp at h1
  split at h1
  · obtain rfl := Except.ok.inj h1; rfl
  · split at h1
    · obtain rfl := Except.ok.inj h1; rfl
    · split at h1
      · obtain rfl := Except.ok.inj h1; rfl
      · unfold mintToAccount at h1
        split at h1
        · obtain rfl := Except.ok.inj h1; rfl
        · have := keepCD_accountAdd h1; exact this

theorem keepCD_handleMessage {L L' : Ledger} {sender : Addr} {msg : Msg} (h : handleMessage L sender msg = .ok L') : KeepCD L L' := by
  cases msg with
  | send s d x =>
    simp only [handleMessage, handleSend] at h
    obtain ⟨L1, h1, h2⟩ := bind_ok h
    exact (keepCD_accountSub h1).trans (keepCD_accountAdd h2)
  | sendVesting s d x st cl en =>
    simp only [handleMessage, handleSendVesting] at h
    obtain ⟨_, _, h⟩ := bind_ok h
    obtain ⟨L1, h1, h2⟩ := bind_ok h
    exact (keepCD_accountSub h1).trans (keepCD_accountAddWithVesting h2)
  | stake a x cs dl c o =>
    obtain ⟨_, _, L1, L2, L3, h1, h2, h3, rfl⟩ := handleStake_inv h
    have k1 := keepCD_accountSub h1
    obtain rfl := addToStaked_ok h2
    have k3 : KeepCD L1 L3 := by
      cases dl with
      | true => simp only [if_true] at h3; obtain ⟨L2', h4, h5⟩ := h3
                obtain rfl := addToDelegated_ok h4
                exact (sameCore_setDelegations h5).committeesData
      | false => simp only [Bool.false_eq_true, if_false] at h3; exact (sameCore_setCommittees h3).committeesData
    exact (k1.trans k3).trans rfl
  | editStake a x cs c o =>
    obtain ⟨val, L1, _, _, h1, h2⟩ := handleEditStake_inv h
    exact (keepCD_accountSub h1).trans (updateValidatorStake_committeesData h2)
  | unstake a =>
    simp only [handleMessage, handleUnstake] at h
    obtain ⟨val, hv, h⟩ := bind_ok h
    guard_at h
    obtain rfl := Except.ok.inj h
    exact keepCD_setValidatorUnstaking ..
  | pause a => exact keepCD_handlePause h
  | unpause a =>
    simp only [handleMessage, handleUnpause] at h
    obtain ⟨val, hv, h⟩ := bind_ok h
    guard_at h; guard_at h; guard_at h
    obtain rfl := Except.ok.inj h; rfl
  | daoTransfer a x m s e =>
    simp only [handleMessage, handleDaoTransfer] at h
    obtain ⟨_, _, h⟩ := bind_ok h
    obtain ⟨L2, h2, h3⟩ := bind_ok h
    have k1 : KeepCD L (if m = true then mintToPool L Canopy.Gen.LedgerFacts.daoPoolId x else L) := by split <;> rfl
    exact (k1.trans (keepCD_poolSub h2)).trans (keepCD_accountAdd h3)
  | subsidy a c x =>
    simp only [handleMessage, handleSubsidy] at h
    split at h
    · exact absurd h (by intro h; cases h)
    · obtain ⟨L1, h1, h2⟩ := bind_ok h
      obtain rfl := Except.ok.inj h2
      exact (keepCD_accountSub h1).trans rfl
  | changeParameter sg sp k v s e => exact keepCD_handleChangeParameter h

theorem keepCD_applyTx {L L' : Ledger} {sender : Addr} {fee : Nat} {msg : Msg} (h : applyTx L sender fee msg = .ok L') : KeepCD L L' := by
  unfold applyTx at h
  split at h
  · exact absurd h (by intro h; cases h)
  · split at h
    · exact absurd h (by intro h; cases h)
    · split at h
      · exact absurd h (by intro h; cases h)
      · split at h
        · exact absurd h (by intro h; cases h)
        · split at h
          · exact absurd h (by intro h; cases h)
          · next L1 h1 =>
            split at h
            · exact absurd h (by intro h; cases h)
            · next L2 h2 =>
              have k1 : KeepCD L L1 := by
                cases msg with
                | send s d x =>
                  simp only [txFaucet] at h1
                  split at h1
                  · exact absurd h1 (by intro h; cases h)
                  · exact keepCD_faucetTopUp h1
                | sendVesting s d x st cl en =>
                  simp only [txFaucet] at h1
                  split at h1
                  · exact absurd h1 (by intro h; cases h)
                  · exact keepCD_faucetTopUp h1
                | stake | editStake | unstake | pause | unpause | daoTransfer | subsidy | changeParameter =>
                  simp only [txFaucet] at h1; obtain rfl := Except.ok.inj h1; rfl
              exact (k1.trans (keepCD_deductFees h2)).trans (keepCD_handleMessage h)

/-! ### certificate results keep `PercentsOK` when the certificate respects its own 100 % limit -/

theorem addPercentAt_sum : ∀ (ps ps' : List (Addr × Nat)) (a : Addr) (p : Nat), addPercentAt ps a p = .ok ps' →
    percentSum ps' = percentSum ps + p
  | [], ps', a, p, h => by
    obtain rfl := Except.ok.inj h; simp [percentSum]
  | (b, old) :: t, ps', a, p, h => by
    unfold addPercentAt at h
    split at h
    · split at h
      · exact absurd h (by intro h; cases h)
      · obtain rfl := Except.ok.inj h
        simp only [percentSum, List.map_cons, List.sum_cons]; omega
    · split at h
      · exact absurd h (by intro h; cases h)
      · next t' ht =>
        obtain rfl := Except.ok.inj h
        have := addPercentAt_sum t t' a p ht
        simp only [percentSum, List.map_cons, List.sum_cons] at this ⊢; omega

theorem addPercent_sum {ps ps' : List (Addr × Nat)} {a : Addr} {p : Nat} (h : addPercent ps a p = .ok ps') :
    percentSum ps' = percentSum ps + p := by
  unfold addPercent at h
  split at h
  · next hp => obtain rfl := Except.ok.inj h; omega
  · exact addPercentAt_sum _ _ _ _ h

end Canopy.Ledger

namespace Canopy.Ledger
open AMap
set_option linter.unusedSimpArgs false
set_option linter.unusedVariables false

/-- the percents a certificate awards for chain `chain` -/
def paySum (chain : Nat) : List (Addr × Nat × Nat) → Nat
  | [] => 0
  | e :: t => (if e.2.2 = chain then e.2.1 else 0) + paySum chain t

theorem foldlM_addPercent_sum (chain : Nat) : ∀ (pay : List (Addr × Nat × Nat)) (ps ps' : List (Addr × Nat)),
    pay.foldlM (fun ps (e : Addr × Nat × Nat) => if e.2.2 = chain then addPercent ps e.1 e.2.1 else pure ps) ps = .ok ps' →
    percentSum ps' = percentSum ps + paySum chain pay
  | [], ps, ps', h => by obtain rfl := Except.ok.inj h; simp [paySum]
  | e :: t, ps, ps', h => by
    simp only [List.foldlM_cons] at h
    obtain ⟨ps1, h1, h2⟩ := bind_ok h
    have ih := foldlM_addPercent_sum chain t ps1 ps' h2
    unfold paySum
    split at h1
    · next hc => have := addPercent_sum h1; simp only [hc, if_true]; omega
    · next hc => obtain rfl := Except.ok.inj h1; simp only [hc, if_false]; omega

theorem reducePercentage_le (p ns : Nat) : reducePercentage p ns ≤ p := by
  unfold reducePercentage
  split
  · omega
  · split
    · omega
    · apply Nat.div_le_of_le_mul
      refine Nat.le_trans (Nat.mod_le _ _) ?_
      calc p * (100 - ns) ≤ p * 100 := Nat.mul_le_mul_left p (by omega)
        _ = 100 * p := Nat.mul_comm _ _

theorem paySum_map_le (chain : Nat) (g : Addr × Nat × Nat → Addr × Nat × Nat)
    (hg : ∀ e, (g e).2.2 = e.2.2 ∧ (g e).2.1 ≤ e.2.1) : ∀ pay : List (Addr × Nat × Nat), paySum chain (pay.map g) ≤ paySum chain pay
  | [] => Nat.le_refl _
  | e :: t => by
    have ih := paySum_map_le chain g hg t
    obtain ⟨h1, h2⟩ := hg e
    simp only [List.map_cons, paySum, h1]
    split <;> omega

theorem paySum_reduce_le (chain ns : Nat) (pay : List (Addr × Nat × Nat)) :
    paySum chain (pay.map fun (a, p, c) => (a, reducePercentage p ns, c)) ≤ paySum chain pay :=
  paySum_map_le chain _ (fun ⟨a, p, c⟩ => ⟨rfl, reducePercentage_le p ns⟩) pay

theorem getCommitteeData_ok (L : Ledger) (chain : Nat) (hp : PercentsOK L) :
    percentSum (getCommitteeData L chain).percents ≤ 100 * (getCommitteeData L chain).samples := by
  unfold getCommitteeData
  cases hf : L.committeesData.find? (·.chainId = chain) with
  | none => simp [percentSum]
  | some d => simp only [Option.getD_some]; exact hp d (List.mem_of_find?_eq_some hf)

theorem putCommitteeData_percents {L : Ledger} {d : CommitteeData} (hp : PercentsOK L) (hd : percentSum d.percents ≤ 100 * d.samples) :
    PercentsOK (putCommitteeData L d) := by
  unfold putCommitteeData
  split
  · intro e he
    simp only [List.mem_map] at he
    obtain ⟨e0, he0, rfl⟩ := he
    split
    · exact hd
    · exact hp e0 he0
  · intro e he
    simp only [List.mem_append, List.mem_singleton] at he
    rcases he with he | rfl
    · exact hp e he
    · exact hd

theorem upsertCommitteeData_percents {L L' : Ledger} {chain qh qrh : Nat} {pay : List (Addr × Nat × Nat)} (hp : PercentsOK L)
    (hpay : paySum chain pay ≤ 100) (h : upsertCommitteeData L chain qh qrh pay = .ok L') : PercentsOK L' := by
  have hd := getCommitteeData_ok L chain hp
  unfold upsertCommitteeData at h
  dsimp only at h
  split at h
  · exact absurd h (by intro h; cases h)
  · split at h
    · exact absurd h (by intro h; cases h)
    · split at h
      · exact absurd h (by intro h; cases h)
      · next percents hps =>
        split at h
        · exact absurd h (by intro h; cases h)
        · obtain rfl := Except.ok.inj h
          have hs := foldlM_addPercent_sum chain pay _ percents hps
          refine putCommitteeData_percents hp ?_
          show percentSum percents ≤ 100 * ((getCommitteeData L chain).samples + 1)
          omega

/-- `HandleCertificateResults` keeps `PercentsOK` when the certificate awards at most 100 % for this chain
(`CertificateResult.CheckBasic`) -/
theorem handleCertificateResults_percents {L L' : Ledger} {qh qrh : Nat} {members : List (Addr × Nat × Bool)}
    {ds : List (Addr × List Nat)} {pay : List (Addr × Nat × Nat)} (hp : PercentsOK L) (hpay : paySum L.cfg.chainId pay ≤ 100)
    (h : handleCertificateResults L qh qrh members ds pay = .ok L') : PercentsOK L' := by
  unfold handleCertificateResults at h
  dsimp only at h
  split at h
  · exact absurd h (by intro h; cases h)
  · split at h
    · exact absurd h (by intro h; cases h)
    · split at h
      · exact absurd h (by intro h; cases h)
      · split at h
        · exact absurd h (by intro h; cases h)
        · next r hr =>
          have k := keepCD_handleByzantine hr
          exact upsertCommitteeData_percents (k.percents hp)
            (Nat.le_trans (paySum_reduce_le L.cfg.chainId r.2 pay) hpay) h

end Canopy.Ledger

namespace Canopy.Ledger
open AMap
set_option linter.unusedSimpArgs false
set_option linter.unusedVariables false

theorem keepCD_foldlM {α} (f : Ledger → α → M Ledger) (hf : ∀ L x L', f L x = .ok L' → KeepCD L L') :
    ∀ (xs : List α) (L L' : Ledger), xs.foldlM f L = .ok L' → KeepCD L L'
  | [], L, L', h => by obtain rfl := Except.ok.inj h; rfl
  | x :: xs, L, L', h => by
    simp only [List.foldlM_cons] at h
    obtain ⟨L1, h1, h2⟩ := bind_ok h
    exact (hf L x L1 h1).trans (keepCD_foldlM f hf xs L1 L' h2)

theorem keepCD_genesisValidator {L L' : Ledger} {g : GenesisValidator} (h : genesisValidator L g = .ok L') : KeepCD L L' := by
  unfold genesisValidator at h
  dsimp only at h
  split at h
  · exact absurd h (by intro h; cases h)
  · split at h
    · exact absurd h (by intro h; cases h)
    · have k1 : KeepCD L (if g.val.unstakingHeight ≠ 0 then setValidatorUnstaking L g.addr g.val g.val.unstakingHeight
          else if g.val.maxPausedHeight ≠ 0 then setValidatorPaused L g.addr g.val g.val.maxPausedHeight else L) := by
        split
        · exact keepCD_setValidatorUnstaking ..
        · split <;> rfl
      generalize (if g.val.unstakingHeight ≠ 0 then setValidatorUnstaking L g.addr g.val g.val.unstakingHeight
          else if g.val.maxPausedHeight ≠ 0 then setValidatorPaused L g.addr g.val g.val.maxPausedHeight else L) = L1 at h k1
      split at h
      · exact k1.trans (sameCore_setDelegations h).committeesData
      · exact k1.trans (sameCore_setCommittees h).committeesData

/-- an accepted genesis has no reward percents recorded -/
theorem genesis_percentsOK {cfg : Config} {params : Params} {accounts : List (Addr × Nat)} {pools : List (Nat × Nat)}
    {vals : List GenesisValidator} {retired : List Nat} {books : List GenesisBook} {L : Ledger}
    (h : genesis cfg params accounts pools vals retired books = .ok L) : PercentsOK L := by
  unfold genesis at h
  split at h
  · exact absurd h (by intro h; cases h)
  · split at h
    · exact absurd h (by intro h; cases h)
    · next L1 h1 =>
      split at h
      · exact absurd h (by intro h; cases h)
      · next L2 h2 =>
        split at h
        · exact absurd h (by intro h; cases h)
        · next L3 h3 =>
          split at h
          · exact absurd h (by intro h; cases h)
          next L4 h4 =>
          obtain rfl := Except.ok.inj h
          have k1 := keepCD_foldlM genesisAccount (fun L e L' h => by
            unfold genesisAccount at h; split at h
            · exact absurd h (by intro h; cases h)
            · obtain rfl := Except.ok.inj h; rfl) accounts _ L1 h1
          have k2 := keepCD_foldlM genesisPool (fun L e L' h => by
            unfold genesisPool at h; split at h
            · exact absurd h (by intro h; cases h)
            · obtain rfl := Except.ok.inj h; rfl) pools L1 L2 h2
          have k3 := keepCD_foldlM genesisValidator (fun L g L' h => keepCD_genesisValidator h) vals L2 L3 h3
          have k4 := keepCD_foldlM genesisBook (fun L b L' h => by
            unfold genesisBook at h
            exact keepCD_foldlM (genesisOrder b.1) (fun L x L' h => by
              unfold genesisOrder at h; split at h
              · exact absurd h (by intro h; cases h)
              · obtain rfl := Except.ok.inj h; rfl) b.2 L L' h) books L3 L4 h4
          have e : L4.committeesData = [] := (((k1.trans k2).trans k3).trans k4)
          intro d hd
          have : d ∈ L4.committeesData := hd
          rw [e] at this; cases this

end Canopy.Ledger

namespace Canopy.Ledger
open AMap
set_option linter.unusedSimpArgs false
set_option linter.unusedVariables false

theorem keepCD_forceUnstakeValidator (L : Ledger) (a : Addr) : KeepCD L (forceUnstakeValidator L a) := by
  unfold forceUnstakeValidator
  split
  · rfl
  · split
    · rfl
    · exact keepCD_setValidatorUnstaking ..

theorem keepCD_forceUnstakeMaxPaused (L : Ledger) : KeepCD L (forceUnstakeMaxPaused L) := by
  unfold forceUnstakeMaxPaused
  dsimp only
  exact (keepCD_foldl forceUnstakeValidator keepCD_forceUnstakeValidator (dueAt L.paused L.height) L).trans
    (keepCD_foldl (fun L a => { L with paused := KSet.del L.paused (L.height, a) }) (fun L a => rfl) (dueAt L.paused L.height) _)

theorem keepCD_finishUnstakingStep {L L' : Ledger} {a : Addr} (h : finishUnstakingStep L a = .ok L') : KeepCD L L' := by
  unfold finishUnstakingStep at h
  split at h
  · exact absurd h (by intro h; cases h)
  · split at h
    · exact absurd h (by intro h; cases h)
    · next La ha => exact (keepCD_accountAdd ha).trans (keepCD_deleteValidator h)

theorem keepCD_deleteFinishedUnstaking {L L' : Ledger} (h : deleteFinishedUnstaking L = .ok L') : KeepCD L L' := by
  unfold deleteFinishedUnstaking at h
  dsimp only at h
  split at h
  · exact absurd h (by intro h; cases h)
  · next L2 h2 =>
    obtain rfl := Except.ok.inj h
    exact (keepCD_foldlM finishUnstakingStep (fun L a L' h => keepCD_finishUnstakingStep h) _ L L2 h2).trans
      (keepCD_foldl (fun L a => { L with unstaking := KSet.del L.unstaking (L.height, a) }) (fun L a => rfl) (dueAt L.unstaking L.height) L2)

/-- `EndBlock` re-establishes `PercentsOK`: the distribution clears what it pays out, the rest does not touch the
committee data -/
theorem endBlock_percents {L L' : Ledger} (hi : InvSupply L) (hp : PercentsOK L) (h : endBlock L = .ok L') : PercentsOK L' := by
  unfold endBlock at h
  split at h
  · exact absurd h (by intro h; cases h)
  · next L1 h1 =>
    obtain ⟨_, p1⟩ := distributeCommitteeRewards_burns hi hp h1
    split at h
    · exact absurd h (by intro h; cases h)
    · next L3 h3 =>
      obtain rfl := Except.ok.inj h
      have k : KeepCD L1 L3 := (keepCD_forceUnstakeMaxPaused L1).trans (keepCD_deleteFinishedUnstaking h3)
      exact (KeepCD.trans k rfl).percents p1

end Canopy.Ledger
