import Canopy.Model.Bft
/-! View order and quorum intersection (M-quorum) for `Canopy.Bft`: any committee list, any stake function. -/
namespace Canopy.Bft

theorem View.lt_irrefl (a : View) : ¬ a < a := by
  intro h; rcases h with h | ⟨_, h⟩ <;> omega
theorem View.lt_trans {a b c : View} : a < b → b < c → a < c := by
  intro h1 h2
  rcases h1 with h1 | ⟨e1, h1⟩ <;> rcases h2 with h2 | ⟨e2, h2⟩
  · left; omega
  · left; omega
  · left; omega
  · right; constructor <;> omega
theorem View.lt_asymm {a b : View} : a < b → ¬ b < a := fun h1 h2 => View.lt_irrefl a (View.lt_trans h1 h2)
theorem View.le_lt_trans {a b c : View} : a ≤ b → b < c → a < c := by
  intro h1 h2; rcases h1 with h1 | h1
  · exact View.lt_trans h1 h2
  · subst h1; exact h2
theorem View.lt_le_trans {a b c : View} : a < b → b ≤ c → a < c := by
  intro h1 h2; rcases h2 with h2 | h2
  · exact View.lt_trans h1 h2
  · subst h2; exact h1
theorem View.le_refl (a : View) : a ≤ a := Or.inr rfl
theorem View.le_of_lt {a b : View} (h : a < b) : a ≤ b := Or.inl h
theorem View.lt_or_ge (a b : View) : a < b ∨ b ≤ a := by
  by_cases h : a < b
  · exact Or.inl h
  · right
    by_cases h2 : b < a
    · exact Or.inl h2
    · right
      have h' : ¬ (a.root < b.root ∨ (a.root = b.root ∧ a.round < b.round)) := h
      have h2' : ¬ (b.root < a.root ∨ (b.root = a.root ∧ b.round < a.round)) := h2
      cases a; cases b; simp at *; constructor <;> omega

namespace Cfg
variable (c : Cfg)

def pwr (l : List Nat) (p : Nat → Bool) : Nat := ((l.filter p).map c.pw).sum

theorem pwr_cons (a : Nat) (l : List Nat) (p : Nat → Bool) :
    c.pwr (a :: l) p = (if p a then c.pw a else 0) + c.pwr l p := by
  unfold pwr
  by_cases h : p a <;> simp [List.filter, h]

theorem pwr_add_le (l : List Nat) (p q : Nat → Bool) :
    c.pwr l p + c.pwr l q ≤ c.pwr l (fun _ => true) + c.pwr l (fun r => p r && q r) := by
  induction l with
  | nil => simp [pwr]
  | cons a l ih =>
    simp only [pwr_cons]
    cases hp : p a <;> cases hq : q a <;> simp <;> omega

theorem pwr_split (l : List Nat) (p b : Nat → Bool) :
    c.pwr l p = c.pwr l (fun r => p r && b r) + c.pwr l (fun r => p r && !b r) := by
  induction l with
  | nil => simp [pwr]
  | cons a l ih =>
    simp only [pwr_cons]
    cases hp : p a <;> cases hb : b a <;> simp <;> omega

theorem pwr_mono (l : List Nat) (p q : Nat → Bool) (h : ∀ r, p r = true → q r = true) :
    c.pwr l p ≤ c.pwr l q := by
  induction l with
  | nil => simp [pwr]
  | cons a l ih =>
    simp only [pwr_cons]
    cases hp : p a
    · simp; omega
    · simp [h a hp]; omega

theorem pwr_pos_exists (l : List Nat) (p : Nat → Bool) (h : 0 < c.pwr l p) : ∃ r ∈ l, p r = true := by
  induction l with
  | nil => simp [pwr] at h
  | cons a l ih =>
    simp only [pwr_cons] at h
    cases hp : p a
    · simp [hp] at h
      obtain ⟨r, hr, hpr⟩ := ih h
      exact ⟨r, List.mem_cons_of_mem _ hr, hpr⟩
    · exact ⟨a, List.mem_cons_self, hp⟩

theorem total_eq : c.total = c.pwr c.committee (fun _ => true) := by
  have : ∀ l : List Nat, List.filter (fun _ => true) l = l := by
    intro l; induction l with
    | nil => rfl
    | cons a l ih => simp [List.filter, ih]
  simp [total, pwr, this]

theorem powerOf_eq (p : Nat → Bool) : c.powerOf p = c.pwr c.committee p := rfl

theorem powerOf_mono (p q : Nat → Bool) (h : ∀ r, p r = true → q r = true) : c.powerOf p ≤ c.powerOf q :=
  c.pwr_mono _ _ _ h

/-- two quorums share a replica outside the Byzantine set -/
theorem quorum_intersect (hb : 3 * c.powerOf c.byz < c.total) (p q : Nat → Bool)
    (hp : c.maj ≤ c.powerOf p) (hq : c.maj ≤ c.powerOf q) :
    ∃ r ∈ c.committee, p r = true ∧ q r = true ∧ c.byz r = false := by
  have h1 := c.pwr_add_le c.committee p q
  have h2 := c.pwr_split c.committee (fun r => p r && q r) c.byz
  have h3 : c.pwr c.committee (fun r => (p r && q r) && c.byz r) ≤ c.pwr c.committee c.byz :=
    c.pwr_mono _ _ _ (by intro r h; simp at h; exact h.2)
  have hpos : 0 < c.pwr c.committee (fun r => (p r && q r) && !c.byz r) := by
    simp only [powerOf_eq] at hp hq hb
    rw [← total_eq] at h1
    unfold maj at hp hq
    omega
  obtain ⟨r, hr, h⟩ := c.pwr_pos_exists _ _ hpos
  simp at h
  exact ⟨r, hr, h.1.1, h.1.2, h.2⟩

/-- a quorum contains a replica outside the Byzantine set -/
theorem quorum_honest (hb : 3 * c.powerOf c.byz < c.total) (p : Nat → Bool)
    (hp : c.maj ≤ c.powerOf p) : ∃ r ∈ c.committee, p r = true ∧ c.byz r = false := by
  obtain ⟨r, hr, h1, _, h3⟩ := c.quorum_intersect hb p p hp hp
  exact ⟨r, hr, h1, h3⟩

end Cfg
end Canopy.Bft
