import Canopy.Proof.DexFrame
import Canopy.Proof.DexArith
/-! Liquidity points: every function that writes the points table keeps Σ points = total (C20). Core Lean only. -/
namespace Canopy.Dex

/-- Σ of the points table -/
def ptsSum (pts : List (Bytes × Nat)) : Nat := AM.wsum (fun _ v => v) pts

/-- `Σ Points = TotalPoolPoints`, and the total is a `uint64` -/
structure PointsOk (p : Pool) : Prop where
  sum : ptsSum p.points = p.total
  fits : p.total < U64

theorem ptsSum_append (l : List (Bytes × Nat)) (a : Bytes) (n : Nat) : ptsSum (l ++ [(a, n)]) = ptsSum l + n := by
  induction l with
  | nil => simp [ptsSum, AM.wsum]
  | cons e l ih => obtain ⟨k, v⟩ := e; simp [ptsSum, AM.wsum] at ih ⊢; omega

theorem ptsSum_dropZero (l : List (Bytes × Nat)) : ptsSum (dropZero l) = ptsSum l := by
  induction l with
  | nil => rfl
  | cons e l ih =>
    obtain ⟨k, v⟩ := e
    by_cases hv : v = 0
    · simp [dropZero, List.filter, hv, ptsSum, AM.wsum] at ih ⊢; exact ih
    · simp [dropZero, List.filter, hv, ptsSum, AM.wsum] at ih ⊢; exact ih

theorem ptsAt_le_sum (l : List (Bytes × Nat)) (i : Nat) : ptsAt l i ≤ ptsSum l := by
  induction l generalizing i with
  | nil => simp [ptsAt]
  | cons e l ih =>
    obtain ⟨k, v⟩ := e
    cases i with
    | zero => simp [ptsAt, ptsSum, AM.wsum]
    | succ i =>
      have := ih i
      simp [ptsAt, ptsSum, AM.wsum] at this ⊢; omega

theorem ptsSum_setPtsAt (l : List (Bytes × Nat)) (i v : Nat) (h : i < l.length) :
    ptsSum (setPtsAt l i v) + ptsAt l i = ptsSum l + v := by
  induction l generalizing i with
  | nil => simp at h
  | cons e l ih =>
    obtain ⟨k, v0⟩ := e
    cases i with
    | zero => simp [setPtsAt, ptsAt, ptsSum, AM.wsum]; omega
    | succ i =>
      have hi : i < l.length := by simpa using h
      have := ih i hi
      simp only [setPtsAt, ptsAt, List.getElem?_cons_succ, List.set_cons_succ] at this ⊢
      cases hl : l[i]? with
      | none =>
        exfalso
        have := List.getElem?_eq_none_iff.mp hl
        omega
      | some e' =>
        obtain ⟨k', v'⟩ := e'
        simp [hl] at this ⊢
        simp [ptsSum, AM.wsum] at this ⊢; omega

theorem lastIdx_go_lt (l : List (Bytes × Nat)) (a : Bytes) (start : Nat) (acc : Option Nat) (i : Nat)
    (hacc : ∀ j, acc = some j → j < start + l.length) (h : lastIdx.go a l start acc = some i) : i < start + l.length := by
  induction l generalizing start acc with
  | nil => simp [lastIdx.go] at h; exact hacc i h
  | cons e l ih =>
    obtain ⟨k, v⟩ := e
    simp only [lastIdx.go] at h
    have := ih (start + 1) _ (by
      intro j hj
      split at hj
      · injection hj with hj; subst hj; omega
      · have := hacc j hj; simp only [List.length_cons] at this; omega) h
    simp only [List.length_cons] at this ⊢; omega

theorem lastIdx_lt {l : List (Bytes × Nat)} {a : Bytes} {i : Nat} (h : lastIdx l a = some i) : i < l.length := by
  have := lastIdx_go_lt l a 0 none i (by intro j hj; cases hj) h
  omega

/-! ### AddPoints -/

theorem addPoints_ok {p p' : Pool} {a : Bytes} {n : Nat} (hp : PointsOk p) (hn : n < U64) (h : addPoints p a n = .ok p') :
    PointsOk p' ∧ p'.amount = p.amount := by
  unfold addPoints at h
  split at h
  · injection h with h; subst h; exact ⟨hp, rfl⟩
  · split at h
    · rename_i cur hcur
      split at h
      · cases h
      · split at h
        · cases h
        · injection h with h; subst h
          refine ⟨⟨?_, ?_⟩, rfl⟩
          · have := AM.wsum_set_old (fun _ v => v) p.points a (cur + n) cur hcur
            have hs := hp.sum
            simp only [ptsSum] at hs ⊢
            omega
          · have := hp.fits; unfold maxU64 U64 at *; simp only at *; omega
    · split at h
      · cases h
      · split at h
        · cases h
        · injection h with h; subst h
          refine ⟨⟨?_, ?_⟩, rfl⟩
          · simp only; rw [ptsSum_append, hp.sum]
          · have := hp.fits; unfold maxU64 U64 at *; simp only at *; omega

/-! ### withdrawals (incl. the forced eviction, which is a 100% withdrawal) -/

theorem subU64_eq {a b : Nat} (hb : b ≤ a) (ha : a < U64) : subU64 a b = a - b := by
  unfold subU64 U64 at *; omega

theorem safeMulDiv_percent_le (held pct : Nat) (h : pct ≤ 100) : safeMulDiv held pct 100 ≤ held := by
  have := safeMulDiv_le held pct 100
  have : held * pct / 100 ≤ held := by
    apply Nat.div_le_of_le_mul
    calc held * pct ≤ held * 100 := Nat.mul_le_mul_left _ h
      _ = 100 * held := Nat.mul_comm _ _
  omega

theorem withdrawPay_points (tx ty T : Nat) (isLocal : Bool) (st' : WState) :
    ∀ (ws : List Withdraw), (∀ w ∈ ws, w.percent ≤ 100) → ∀ (st : WState), PointsOk st.p →
      withdrawPay tx ty T isLocal ws st = .ok st' → PointsOk st'.p := by
  intro ws
  induction ws with
  | nil => intro _ st hp h; simp [withdrawPay] at h; subst h; exact hp
  | cons w ws ih =>
    intro hw st hp h
    have hw' : ∀ w' ∈ ws, w'.percent ≤ 100 := fun w' hm => hw w' (List.mem_cons_of_mem _ hm)
    unfold withdrawPay at h
    split at h
    · exact ih hw' _ hp h
    · rename_i i hi
      obtain ⟨s1, _, h⟩ := bind_ok h
      have hlt := lastIdx_lt hi
      have hle := safeMulDiv_percent_le (ptsAt st.p.points i) w.percent (hw w (List.mem_cons_self))
      have hheld := ptsAt_le_sum st.p.points i
      have hsum := hp.sum
      have hfit := hp.fits
      have hset := ptsSum_setPtsAt st.p.points i (subU64 (ptsAt st.p.points i) (safeMulDiv (ptsAt st.p.points i) w.percent 100)) hlt
      rw [subU64_eq hle (by omega)] at hset
      refine ih hw' _ ⟨?_, ?_⟩ h
      · simp only
        rw [subU64_eq hle (by omega), subU64_eq (by omega) hfit]
        omega
      · simp only
        rw [subU64_eq (by omega) hfit]; omega

/-- `handleBatchWithdraw`: the pool it leaves (and writes with `SetPool` when `persist`) keeps Σ points = total -/
theorem batchWithdraw_points {s : State} {ws : List Withdraw} {c x y : Nat} {isLocal : Bool} {p0 : Option Pool} {persist : Bool}
    {l : Ledger} (hw : ∀ w ∈ ws, w.percent ≤ 100) (hp : PointsOk (p0.getD (getPool s (liquidityId c))))
    (h : batchWithdraw s ws c x y isLocal p0 persist = .ok l) : PointsOk l.p := by
  unfold batchWithdraw at h
  dsimp only at h
  have hp' : PointsOk { (p0.getD (getPool s (liquidityId c))) with points := dropZero (p0.getD (getPool s (liquidityId c))).points } :=
    ⟨by simp only; rw [ptsSum_dropZero]; exact hp.sum, hp.fits⟩
  split at h
  · injection h with h; subst h; exact hp
  · obtain ⟨T, _, h⟩ := bind_ok h
    split at h
    · injection h with h; subst h; exact hp'
    · obtain ⟨st, hst, h⟩ := bind_ok h
      have := withdrawPay_points _ _ _ _ _ _ hw _ hp' hst
      split at h
      · cases h
      · injection h with h; subst h
        exact ⟨by simp only; rw [ptsSum_dropZero]; exact this.sum, this.fits⟩

/-! ### deposits (incl. the capped path with evictions) -/

theorem sqrtProduct_lt (x y : Nat) : sqrtProduct x y < U64 := Nat.mod_lt _ (by decide)

theorem mapErr_ldp_lt {L x y a d : Nat} (h : mapErr (liquidityDepositPoints L x y a) = .ok d) : d < U64 := by
  unfold mapErr at h
  split at h
  · rename_i v hv
    injection h with h; subst h
    unfold liquidityDepositPoints at hv
    split at hv
    · cases hv
    · split at hv
      · cases hv
      · injection hv with hv; subst hv; exact safeMulDiv_lt _ _ _
  · cases h

theorem depositLocal_points {s : State} {p : Pool} {c : Nat} {d : Deposit} {isLocal : Bool} {r : State × Pool}
    (hp : PointsOk p) (h : depositLocal s p c d isLocal = .ok r) : PointsOk r.2 := by
  unfold depositLocal at h
  split at h
  · split at h
    · cases h
    · split at h
      · cases h
      · injection h with h; subst h; exact ⟨hp.sum, hp.fits⟩
  · injection h with h; subst h; exact hp

theorem depositPass2_points (dl td c : Nat) (isLocal : Bool) (st' : P2) :
    ∀ (ds : List (Deposit × Bool)) (st : P2), PointsOk st.p → depositPass2 dl td c isLocal ds st = .ok st' → PointsOk st'.p := by
  intro ds
  induction ds with
  | nil => intro st hp h; simp [depositPass2] at h; subst h; exact hp
  | cons e ds ih =>
    intro st hp h
    obtain ⟨d, acc⟩ := e
    cases acc
    · unfold depositPass2 at h; exact ih _ hp h
    · unfold depositPass2 at h
      split at h
      · cases h
      · have hp1 := (addPoints_ok hp (safeMulDiv_lt _ _ _) ‹addPoints _ _ _ = Except.ok _›).1
        split at h
        · cases h
        · have hp2 := depositLocal_points hp1 ‹depositLocal _ _ _ _ _ = Except.ok _›
          split at h
          · cases h
          · exact ih _ hp2 h

theorem mintDeposits_points {p1 : P1} {p : Pool} {ds : List Deposit} {c x y : Nat} {isLocal persist : Bool} {l : Ledger}
    (hp : PointsOk p) (h : mintDeposits p1 p ds c x y isLocal persist = .ok l) : PointsOk l.p := by
  unfold mintDeposits at h
  split at h
  · cases h
  · rename_i lp hlp
    have hlp_ok : PointsOk lp.2 := by
      unfold initDead at hlp
      split at hlp
      · split at hlp
        · cases hlp
        · injection hlp with hlp; subst hlp
          exact (addPoints_ok hp (sqrtProduct_lt _ _) ‹addPoints _ _ _ = Except.ok _›).1
      · injection hlp with hlp; subst hlp; exact hp
    split at h
    · cases h
    · have hdl := mapErr_ldp_lt ‹mapErr _ = Except.ok _›
      split at h
      · cases h
      · have h2 := depositPass2_points _ _ _ _ _ _ _ hlp_ok ‹depositPass2 _ _ _ _ _ _ = Except.ok _›
        split at h
        · cases h
        · injection h with h; subst h
          rename_i pf hpf
          exact (addPoints_ok (n := _ - _) h2 (by omega) hpf).1

theorem batchDepositCore_points {s : State} {ds : List Deposit} {c x y : Nat} {isLocal : Bool} {p0 : Option Pool} {persist : Bool}
    {l : Ledger} (hp : PointsOk (p0.getD (getPool s (liquidityId c))))
    (h : batchDepositCore s ds c x y isLocal p0 persist = .ok l) : PointsOk l.p := by
  unfold batchDepositCore at h
  dsimp only at h
  split at h
  · injection h with h; subst h; exact hp
  · split at h
    · cases h
    · split at h
      · injection h with h; subst h; exact hp
      · split at h
        · cases h
        · split at h
          · injection h with h; subst h; exact hp
          · exact mintDeposits_points hp h

theorem cappedEvict_points {c : Nat} {isLocal : Bool} {nc : Newcomer} {l : Ledger} {low : Bytes × Nat}
    {r : Ledger × Option (Bytes × Nat)} (hp : PointsOk l.p) (h : cappedEvict c isLocal nc l low = .ok r) : PointsOk r.1.p := by
  unfold cappedEvict at h
  obtain ⟨ts, _, h⟩ := bind_ok h
  dsimp only at h
  split at h
  · split at h
    · obtain ⟨s1, _, h⟩ := bind_ok h
      obtain ⟨s2, _, h⟩ := bind_ok h
      injection h with h; subst h; exact hp
    · injection h with h; subst h; exact hp
  · obtain ⟨l1, h2, h⟩ := bind_ok h
    obtain ⟨l2, h3, h⟩ := bind_ok h
    injection h with h; subst h
    have hw := batchWithdraw_points (p0 := some l.p) (by intro w hw; simp at hw; subst hw; exact Nat.le_refl _) hp h2
    exact batchDepositCore_points (p0 := some l1.p) hw h3

theorem cappedStep_points {c : Nat} {isLocal : Bool} {nc : Newcomer} {l : Ledger} {low : Option (Bytes × Nat)}
    {r : Ledger × Option (Bytes × Nat)} (hp : PointsOk l.p) (h : cappedStep c isLocal nc l low = .ok r) : PointsOk r.1.p := by
  unfold cappedStep at h
  split at h
  · split at h
    · cases h
    · injection h with h; subst h
      exact batchDepositCore_points (p0 := some l.p) hp ‹batchDepositCore _ _ _ _ _ _ _ _ = Except.ok _›
  · split at h
    · cases h
    · exact cappedEvict_points hp h

theorem cappedLoop_points (c : Nat) (isLocal : Bool) (l' : Ledger) :
    ∀ (ncs : List Newcomer) (l : Ledger) (low : Option (Bytes × Nat)), PointsOk l.p →
      cappedLoop c isLocal ncs l low = .ok l' → PointsOk l'.p := by
  intro ncs
  induction ncs with
  | nil => intro l low hp h; simp [cappedLoop] at h; subst h; exact hp
  | cons nc rest ih =>
    intro l low hp h
    unfold cappedLoop at h
    split at h
    · cases h
    · exact ih _ _ (cappedStep_points hp ‹cappedStep _ _ _ _ _ = Except.ok _›) h

/-- `handleBatchDeposit` (with the provider cap): the pool it leaves (and writes with `SetPool`) keeps Σ points = total -/
theorem batchDeposit_points {s : State} {b : Batch} {c x y : Nat} {isLocal : Bool} {l : Ledger}
    (hp : PointsOk (getPool s (liquidityId c))) (h : batchDeposit s b c x y isLocal = .ok l) : PointsOk l.p := by
  unfold batchDeposit at h
  dsimp only at h
  split at h
  · injection h with h; subst h; exact hp
  · obtain ⟨cl, _, h⟩ := bind_ok h
    split at h
    · exact batchDepositCore_points (p0 := some (getPool s (liquidityId c))) hp h
    · obtain ⟨l1, h1, h⟩ := bind_ok h
      obtain ⟨l2, h2, h⟩ := bind_ok h
      injection h with h; subst h
      have := cappedLoop_points _ _ _ _ _ _ (batchDepositCore_points (p0 := some (getPool s (liquidityId c))) hp h1) h2
      exact ⟨this.sum, this.fits⟩

end Canopy.Dex
