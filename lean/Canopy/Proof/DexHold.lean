import Canopy.Proof.DexFrame
/-! Holding pool: what goes in with a DEX order/deposit, what goes out with receipts and refunds (C20). Core Lean only. -/
namespace Canopy.Dex

def holdAmt (s : State) (c : Nat) : Nat := (getPool s (holdingId c)).amount

theorem holdingId_ne_liquidityId {c : Nat} (h : c ≤ maxChainId) : holdingId c ≠ liquidityId c := by
  unfold holdingId liquidityId Gen.Dex.HoldingPoolAddend Gen.Dex.LiquidityPoolAddend U64; unfold maxChainId at h; omega

theorem holdAmt_congr {s s' : State} (h : s'.pools = s.pools) (c : Nat) : holdAmt s' c = holdAmt s c := by
  simp [holdAmt, getPool_congr h]

theorem holdAmt_accountAdd {s s' : State} {a : Bytes} {n : Nat} (h : accountAdd s a n = .ok s') (c : Nat) :
    holdAmt s' c = holdAmt s c := holdAmt_congr (accountAdd_ok h).2.1 c

theorem holdAmt_accountSub {s s' : State} {a : Bytes} {n : Nat} (h : accountSub s a n = .ok s') (c : Nat) :
    holdAmt s' c = holdAmt s c := holdAmt_congr (accountSub_ok h).2.1 c

theorem holdAmt_poolSub {s s' : State} {c n : Nat} (h : poolSub s (holdingId c) n = .ok s') :
    holdAmt s' c + n = holdAmt s c := by
  obtain ⟨hle, rfl⟩ := poolSub_ok h
  unfold holdAmt; rw [getPool_setPool_self]; simp only; omega

theorem getBatch_setNext_self (s : State) (c : Nat) (b : Batch) (hb : b ≠ {}) :
    getBatch (setNext s c b) c false = b := by
  unfold getBatch setNext
  simp [AM.get?_set_self, hb]

theorem sum_append_singleton (l : List Nat) (n : Nat) : (l ++ [n]).sum = l.sum + n := by
  simp

/-! ### in: a limit order / a deposit escrows exactly its amount and records exactly that amount as pending -/

theorem limit_holding {s s' : State} {c : Nat} {o : LimitOrder} (h : dexLimitOrder s c o = .ok s')
    (hfit : holdAmt s c + o.amount < U64) :
    holdAmt s' c = holdAmt s c + o.amount ∧
    (getBatch s' c false).pending = (getBatch s c false).pending + o.amount ∧ s'.locked = s.locked := by
  unfold dexLimitOrder at h
  obtain ⟨_, _, h⟩ := bind_ok h
  obtain ⟨_, _, h⟩ := bind_ok h
  obtain ⟨_, _, h⟩ := bind_ok h
  obtain ⟨_, _, h⟩ := bind_ok h
  dsimp only at h
  split at h
  · cases h
  · split at h
    · cases h
    · obtain ⟨s1, h1, h⟩ := bind_ok h
      injection h with h; subst h
      have hl : s1.locked = s.locked := (accountSub_ok h1).2.2.2.1
      refine ⟨?_, ?_, hl⟩
      · show (getPool (poolAdd s1 (holdingId c) o.amount) (holdingId c)).amount = _
        rw [poolAdd_self]
        have := holdAmt_accountSub h1 c
        unfold holdAmt at this hfit ⊢
        rw [this, Nat.mod_eq_of_lt hfit]
      · rw [getBatch_setNext_self _ _ _ (by intro hb; have := congrArg Batch.orders hb; simp at this)]
        simp [Batch.pending]; omega

theorem deposit_holding {s s' : State} {c : Nat} {d : Deposit} (h : dexDeposit s c d = .ok s')
    (hfit : holdAmt s c + d.amount < U64) :
    holdAmt s' c = holdAmt s c + d.amount ∧
    (getBatch s' c false).pending = (getBatch s c false).pending + d.amount ∧ s'.locked = s.locked := by
  unfold dexDeposit at h
  obtain ⟨_, _, h⟩ := bind_ok h
  obtain ⟨_, _, h⟩ := bind_ok h
  obtain ⟨_, _, h⟩ := bind_ok h
  dsimp only at h
  split at h
  · cases h
  · split at h
    · cases h
    · obtain ⟨s1, h1, h⟩ := bind_ok h
      injection h with h; subst h
      have hl : s1.locked = s.locked := (accountSub_ok h1).2.2.2.1
      refine ⟨?_, ?_, hl⟩
      · show (getPool (poolAdd s1 (holdingId c) d.amount) (holdingId c)).amount = _
        rw [poolAdd_self]
        have := holdAmt_accountSub h1 c
        unfold holdAmt at this hfit ⊢
        rw [this, Nat.mod_eq_of_lt hfit]
      · rw [getBatch_setNext_self _ _ _ (by intro hb; have := congrArg Batch.deposits hb; simp at this)]
        simp [Batch.pending]; omega

/-! ### out: receipts and refunds debit the holding pool by exactly the amounts of the batch -/

theorem refundAll_holding (c : Nat) : ∀ (l : List (Bytes × Nat)) (s s' : State),
    refundAll c l s = .ok s' → holdAmt s' c + (l.map (·.2)).sum = holdAmt s c := by
  intro l
  induction l with
  | nil => intro s s' h; simp [refundAll] at h; subst h; simp
  | cons e l ih =>
    intro s s' h
    obtain ⟨a, n⟩ := e
    unfold refundAll at h
    split at h
    · cases h
    · rename_i s1 hr
      unfold refund at hr
      obtain ⟨s0, h0, hr⟩ := bind_ok hr
      have := ih _ _ h
      have h1 := holdAmt_poolSub h0
      have h2 := holdAmt_accountAdd hr c
      simp only [List.map_cons, List.sum_cons]
      omega

theorem orderReceipts_holding (c : Nat) (hc : c ≤ maxChainId) : ∀ (os : List LimitOrder) (rs : List Nat) (s : State) (x y : Nat)
    (r : State × Nat × Nat), orderReceipts c os rs s x y = .ok r →
      holdAmt r.1 c + (os.map (·.amount)).sum = holdAmt s c := by
  intro os
  induction os with
  | nil => intro rs s x y r h; simp [orderReceipts] at h; subst h; simp
  | cons o os ih =>
    intro rs s x y r h
    unfold orderReceipts at h
    obtain ⟨s1, h1, h⟩ := bind_ok h
    have hs1 := holdAmt_poolSub h1
    dsimp only at h
    simp only [List.map_cons, List.sum_cons]
    split at h
    · split at h
      · cases h
      · have := ih _ _ _ _ _ h
        have hadd : holdAmt (poolAdd s1 (liquidityId c) o.amount) c = holdAmt s1 c := by
          unfold holdAmt; rw [poolAdd_other _ _ _ _ (holdingId_ne_liquidityId hc)]
        omega
    · obtain ⟨s2, h2, h⟩ := bind_ok h
      have := ih _ _ _ _ _ h
      have := holdAmt_accountAdd h2 c
      omega

/-- the liveness fallback refunds every order and deposit of our locked batch from the holding pool and drops it -/
theorem livenessFallback_holding {s s' : State} {c : Nat} {lb remote : Batch} (hc : c ≤ maxChainId)
    (h : livenessFallback s c lb remote = .ok s') :
    holdAmt s' c + lb.pending = holdAmt s c ∧ AM.get? s'.locked c = some {} := by
  unfold livenessFallback at h
  obtain ⟨s1, h1, h⟩ := bind_ok h
  obtain ⟨s2, h2, h⟩ := bind_ok h
  injection h with h; subst h
  have e1 := refundAll_holding c _ _ _ h1
  have e2 := refundAll_holding c _ _ _ h2
  simp only [List.map_map] at e1 e2
  refine ⟨?_, by simp [setLocked, AM.get?_set_self]⟩
  have : holdAmt (setLocked (setPool s2 (liquidityId c) { getPool s2 (liquidityId c) with points := remote.poolPoints, total := remote.totalPoolPoints }) c {}) c
      = holdAmt s2 c := by
    rw [holdAmt_congr (show (setLocked _ c {}).pools = (setPool s2 (liquidityId c) _).pools from rfl)]
    unfold holdAmt
    rw [getPool_setPool_other _ _ _ _ (holdingId_ne_liquidityId hc)]
  rw [this]
  unfold Batch.pending
  have f1 : (List.map ((fun x => x.2) ∘ fun (o : LimitOrder) => (o.addr, o.amount)) lb.orders) = lb.orders.map (·.amount) := by
    simp [Function.comp_def]
  have f2 : (List.map ((fun x => x.2) ∘ fun (d : Deposit) => (d.addr, d.amount)) lb.deposits) = lb.deposits.map (·.amount) := by
    simp [Function.comp_def]
  rw [f1] at e1; rw [f2] at e2
  omega

end Canopy.Dex
