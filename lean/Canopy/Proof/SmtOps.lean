import Canopy.Proof.SmtBasic
/-! `insert` / `delete` preserve well-formedness and act on the contents as map insert / erase. Core only. -/
namespace Canopy.Smt

theorem gcp_prefix_left : ∀ a b : Key, gcp a b <+: a
  | [], _ => by simp [gcp]
  | _ :: _, [] => by simp [gcp]
  | a :: as, b :: bs => by
    unfold gcp; split
    · exact List.cons_prefix_cons.mpr ⟨rfl, gcp_prefix_left as bs⟩
    · exact List.nil_prefix

theorem gcp_prefix_right : ∀ a b : Key, gcp a b <+: b
  | [], _ => by simp [gcp]
  | _ :: _, [] => by simp [gcp]
  | a :: as, b :: bs => by
    unfold gcp; split
    · next h => subst h; exact List.cons_prefix_cons.mpr ⟨rfl, gcp_prefix_right as bs⟩
    · exact List.nil_prefix

/-- two keys neither of which is a prefix of the other part ways right after their greatest common prefix -/
theorem gcp_diverge : ∀ a b : Key, ¬ a <+: b → ¬ b <+: a →
    ∃ x : Bool, gcp a b ++ [x] <+: a ∧ gcp a b ++ [!x] <+: b
  | [], _, h, _ => absurd List.nil_prefix h
  | _ :: _, [], _, h => absurd List.nil_prefix h
  | a :: as, b :: bs, h1, h2 => by
    unfold gcp; split
    · next hab =>
      subst hab
      have h1' : ¬ as <+: bs := fun h => h1 (List.cons_prefix_cons.mpr ⟨rfl, h⟩)
      have h2' : ¬ bs <+: as := fun h => h2 (List.cons_prefix_cons.mpr ⟨rfl, h⟩)
      obtain ⟨x, hx1, hx2⟩ := gcp_diverge as bs h1' h2'
      exact ⟨x, List.cons_prefix_cons.mpr ⟨rfl, hx1⟩, List.cons_prefix_cons.mpr ⟨rfl, hx2⟩⟩
    · next hab =>
      refine ⟨a, ?_, ?_⟩
      · simp
      · have : (!a) = b := by cases a <;> cases b <;> simp_all
        simp [this]

namespace Trie

theorem wf_leaf {n : Nat} {k : Key} {v : Bytes} (h : k.length = n) : WF n (leaf k v) := h

/-- the new parent created by `set()` -/
theorem join_spec {n : Nat} {k : Key} {v : Bytes} {t : Trie} (ht : WF n t) (hk : k.length = n)
    (hnp : ¬ t.key <+: k) :
    WF n (join k v t) ∧ k ∉ t.keys ∧
    ∀ kv, kv ∈ (join k v t).toList ↔ kv = (k, v) ∨ kv ∈ t.toList := by
  have hnp' : ¬ k <+: t.key := by
    intro h
    have hle := key_length_le ht
    have := h.eq_of_length (by have := h.length_le; omega)
    exact hnp (this ▸ List.prefix_refl _)
  obtain ⟨x, hx1, hx2⟩ := gcp_diverge k t.key hnp' hnp
  have hnot : k ∉ t.keys := fun hm => hnp (key_prefix ht hm)
  refine ⟨?_, hnot, ?_⟩
  · unfold join
    simp only
    split
    · next hf =>
      have : x = false := prefix_bit_unique hx1 hf
      subst this
      refine ⟨hk, ht, ?_, ?_⟩
      · intro k' hk'; rw [keys_leaf] at hk'; simp at hk'; subst hk'; exact hf
      · intro k' hk'; exact hx2.trans (key_prefix ht hk')
    · next hf =>
      have : x = true := by cases x; exact absurd hx1 hf; rfl
      subst this
      refine ⟨ht, hk, ?_, ?_⟩
      · intro k' hk'; exact hx2.trans (key_prefix ht hk')
      · intro k' hk'; rw [keys_leaf] at hk'; simp at hk'; subst hk'; exact hx1
  · intro kv
    unfold join
    simp only
    split <;> simp [toList, or_comm]

/-- `set()`: well-formedness is preserved and the contents change as a map insert -/
theorem insert_spec {n : Nat} {k : Key} {v : Bytes} (hk : k.length = n) : ∀ {t : Trie}, WF n t →
    WF n (insert k v t) ∧
    ∀ k' v', (k', v') ∈ (insert k v t).toList ↔ (k' = k ∧ v' = v) ∨ (k' ≠ k ∧ (k', v') ∈ t.toList)
  | leaf k0 v0, ht => by
    unfold insert
    split
    · next e =>
      subst e
      refine ⟨hk, ?_⟩
      intro k' v'
      constructor
      · intro h; simp [toList] at h; exact Or.inl h
      · rintro (h | ⟨h1, h2⟩)
        · simp [toList]; exact h
        · simp [toList] at h2; exact absurd h2.1 h1
    · next e =>
      have hnp : ¬ (leaf k0 v0).key <+: k := by
        intro h
        have : k0 = k := h.eq_of_length (by rw [hk]; exact ht)
        exact e this.symm
      obtain ⟨h1, h2, h3⟩ := join_spec (v := v) ht hk hnp
      refine ⟨h1, ?_⟩
      intro k' v'
      rw [h3]
      constructor
      · rintro (h | h)
        · simp at h; exact Or.inl h
        · refine Or.inr ⟨?_, h⟩
          intro e'; subst e'; exact h2 (mem_keys_of_mem h)
      · rintro (⟨rfl, rfl⟩ | ⟨_, h⟩)
        · exact Or.inl rfl
        · exact Or.inr h
  | node p l r, ht => by
    unfold insert
    split
    · next hf =>
      obtain ⟨ihw, ihm⟩ := insert_spec hk (t := l) ht.1
      refine ⟨⟨ihw, ht.2.1, ?_, ht.2.2.2⟩, ?_⟩
      · intro k' hk'
        obtain ⟨v', hv'⟩ := exists_mem_of_mem_keys hk'
        rcases (ihm k' v').mp hv' with ⟨rfl, _⟩ | ⟨_, hm⟩
        · exact hf
        · exact ht.2.2.1 _ (mem_keys_of_mem hm)
      · intro k' v'
        rw [mem_toList_node, ihm, mem_toList_node]
        constructor
        · rintro ((h | ⟨h1, h2⟩) | h)
          · exact Or.inl h
          · exact Or.inr ⟨h1, Or.inl h2⟩
          · refine Or.inr ⟨?_, Or.inr h⟩
            intro e; subst e
            exact absurd (prefix_bit_unique hf (ht.2.2.2 _ (mem_keys_of_mem h))) (by simp)
        · rintro (h | ⟨h1, h2 | h2⟩)
          · exact Or.inl (Or.inl h)
          · exact Or.inl (Or.inr ⟨h1, h2⟩)
          · exact Or.inr h2
    · next hf =>
      split
      · next ht' =>
        obtain ⟨ihw, ihm⟩ := insert_spec hk (t := r) ht.2.1
        refine ⟨⟨ht.1, ihw, ht.2.2.1, ?_⟩, ?_⟩
        · intro k' hk'
          obtain ⟨v', hv'⟩ := exists_mem_of_mem_keys hk'
          rcases (ihm k' v').mp hv' with ⟨rfl, _⟩ | ⟨_, hm⟩
          · exact ht'
          · exact ht.2.2.2 _ (mem_keys_of_mem hm)
        · intro k' v'
          rw [mem_toList_node, ihm, mem_toList_node]
          constructor
          · rintro (h | (h | ⟨h1, h2⟩))
            · refine Or.inr ⟨?_, Or.inl h⟩
              intro e; subst e
              exact absurd (prefix_bit_unique ht' (ht.2.2.1 _ (mem_keys_of_mem h))) (by simp)
            · exact Or.inl h
            · exact Or.inr ⟨h1, Or.inr h2⟩
          · rintro (h | ⟨h1, h2 | h2⟩)
            · exact Or.inr (Or.inl h)
            · exact Or.inl h2
            · exact Or.inr (Or.inr ⟨h1, h2⟩)
      · next ht' =>
        have hnp : ¬ (node p l r).key <+: k := by
          intro h
          have hlt : p.length < k.length := by rw [hk]; exact node_prefix_lt ht
          rcases snoc_prefix_of_prefix_lt h hlt with h' | h'
          · exact hf h'
          · exact ht' h'
        obtain ⟨h1, h2, h3⟩ := join_spec (v := v) ht hk hnp
        refine ⟨h1, ?_⟩
        intro k' v'
        rw [h3]
        constructor
        · rintro (h | h)
          · simp at h; exact Or.inl h
          · refine Or.inr ⟨?_, h⟩
            intro e'; subst e'; exact h2 (mem_keys_of_mem h)
        · rintro (⟨rfl, rfl⟩ | ⟨_, h⟩)
          · exact Or.inl rfl
          · exact Or.inr h

/-- a key that does not extend the node's prefix by either bit is not in the node -/
theorem not_mem_of_not_prefix {n : Nat} {p : Key} {l r : Trie} (ht : WF n (node p l r)) {k : Key}
    (h1 : ¬ p ++ [false] <+: k) (h2 : ¬ p ++ [true] <+: k) : k ∉ (node p l r).keys := by
  intro hm
  rcases node_key_prefix ht hm with h | h
  · exact h1 h
  · exact h2 h

def isNode : Trie → Prop
  | leaf _ _ => False
  | node _ _ _ => True

theorem delete_spec_aux {n : Nat} (k : Key) : ∀ t : Trie, WF n t → t.isNode →
    WF n (delete k t) ∧
    ∀ k' v', (k', v') ∈ (delete k t).toList ↔ (k' ≠ k ∧ (k', v') ∈ t.toList) := by
  intro t
  induction t with
  | leaf k0 v0 => intro _ h; cases h
  | node p l r ihl ihr =>
    intro ht _
    have absent : k ∉ (node p l r).keys → ∀ k' v', (k', v') ∈ (node p l r).toList ↔
        (k' ≠ k ∧ (k', v') ∈ (node p l r).toList) := by
      intro hn k' v'
      constructor
      · intro h; exact ⟨fun e => hn (e ▸ mem_keys_of_mem h), h⟩
      · exact fun h => h.2
    by_cases hf : p ++ [false] <+: k
    · have hkr : k ∉ r.keys := fun hm => absurd (prefix_bit_unique hf (ht.2.2.2 _ hm)) (by simp)
      cases l with
      | leaf k0 v0 =>
        by_cases e : k0 = k
        · subst e
          simp only [delete, if_pos hf, if_true]
          refine ⟨ht.2.1, ?_⟩
          intro k' v'
          rw [mem_toList_node]
          constructor
          · intro h; exact ⟨fun e => hkr (e ▸ mem_keys_of_mem h), Or.inr h⟩
          · rintro ⟨h1, h2 | h2⟩
            · simp [toList] at h2; exact absurd h2.1 h1
            · exact h2
        · simp only [delete, if_pos hf, if_neg e]
          refine ⟨ht, absent ?_⟩
          intro hm
          rcases mem_keys_node.mp hm with h | h
          · rw [keys_leaf] at h; simp at h; exact e h.symm
          · exact hkr h
      | node q l1 l2 =>
        obtain ⟨ihw, ihm⟩ := ihl ht.1 trivial
        simp only [delete, if_pos hf]
        simp only [delete] at ihw ihm
        refine ⟨⟨ihw, ht.2.1, ?_, ht.2.2.2⟩, ?_⟩
        · intro k' hk'
          obtain ⟨v', hv'⟩ := exists_mem_of_mem_keys hk'
          exact ht.2.2.1 _ (mem_keys_of_mem ((ihm k' v').mp hv').2)
        · intro k' v'
          rw [mem_toList_node, ihm, mem_toList_node (p := p) (r := r)]
          constructor
          · rintro (⟨h1, h2⟩ | h)
            · exact ⟨h1, Or.inl h2⟩
            · exact ⟨fun e => hkr (e ▸ mem_keys_of_mem h), Or.inr h⟩
          · rintro ⟨h1, h2 | h2⟩
            · exact Or.inl ⟨h1, h2⟩
            · exact Or.inr h2
    · by_cases ht' : p ++ [true] <+: k
      · have hkl : k ∉ l.keys := fun hm => absurd (prefix_bit_unique ht' (ht.2.2.1 _ hm)) (by simp)
        cases r with
        | leaf k0 v0 =>
          by_cases e : k0 = k
          · subst e
            simp only [delete, if_neg hf, if_pos ht', if_true]
            refine ⟨ht.1, ?_⟩
            intro k' v'
            rw [mem_toList_node]
            constructor
            · intro h; exact ⟨fun e => hkl (e ▸ mem_keys_of_mem h), Or.inl h⟩
            · rintro ⟨h1, h2 | h2⟩
              · exact h2
              · simp [toList] at h2; exact absurd h2.1 h1
          · simp only [delete, if_neg hf, if_pos ht', if_neg e]
            refine ⟨ht, absent ?_⟩
            intro hm
            rcases mem_keys_node.mp hm with h | h
            · exact hkl h
            · rw [keys_leaf] at h; simp at h; exact e h.symm
        | node q r1 r2 =>
          obtain ⟨ihw, ihm⟩ := ihr ht.2.1 trivial
          simp only [delete, if_neg hf, if_pos ht']
          simp only [delete] at ihw ihm
          refine ⟨⟨ht.1, ihw, ht.2.2.1, ?_⟩, ?_⟩
          · intro k' hk'
            obtain ⟨v', hv'⟩ := exists_mem_of_mem_keys hk'
            exact ht.2.2.2 _ (mem_keys_of_mem ((ihm k' v').mp hv').2)
          · intro k' v'
            rw [mem_toList_node, ihm, mem_toList_node (p := p) (l := l)]
            constructor
            · rintro (h | ⟨h1, h2⟩)
              · exact ⟨fun e => hkl (e ▸ mem_keys_of_mem h), Or.inl h⟩
              · exact ⟨h1, Or.inr h2⟩
            · rintro ⟨h1, h2 | h2⟩
              · exact Or.inl h2
              · exact Or.inr ⟨h1, h2⟩
      · simp only [delete, if_neg hf, if_neg ht']
        exact ⟨ht, absent (not_mem_of_not_prefix ht hf ht')⟩

/-- `delete()` on an inner node: well-formedness is preserved and the contents change as a map erase -/
theorem delete_spec {n : Nat} (k : Key) {p : Key} {l r : Trie} (ht : WF n (node p l r)) :
    WF n (delete k (node p l r)) ∧
    ∀ k' v', (k', v') ∈ (delete k (node p l r)).toList ↔ (k' ≠ k ∧ (k', v') ∈ (node p l r).toList) :=
  delete_spec_aux k _ ht trivial

end Trie
end Canopy.Smt
