import Canopy.Proof.LedgerMap
/-! Effect of every ledger primitive on the quantities the invariants speak about.
Primitives are characterised as "the result is the input with ONE field replaced, and the replaced field's
sum changed by so much"; handlers are then chains of such steps. -/
namespace Canopy.Ledger
open AMap

set_option linter.unusedSimpArgs false
set_option linter.unusedVariables false

/-! ### the quantities -/

def accSum (L : Ledger) : Nat := NMap.total L.accounts
def poolSum (L : Ledger) : Nat := NMap.total L.pools
def stakeSum (L : Ledger) : Nat := sumBy (·.stake) L.validators
/-- tokens that exist: accounts + pools + validator stakes -/
def bal (L : Ledger) : Nat := accSum L + poolSum L + stakeSum L

/-- C04 invariant: the recorded total is the sum of everything, as a natural number below 2^64 -/
def InvSupply (L : Ledger) : Prop := L.supply.total = bal L ∧ L.supply.total < U64

theorem accGet_le (L : Ledger) (a : Addr) : accGet L a ≤ accSum L := NMap.get_le_total _ _
theorem poolGet_le (L : Ledger) (id : Nat) : poolGet L id ≤ poolSum L := NMap.get_le_total _ _
theorem stake_le (L : Ledger) (a : Addr) (v : Validator) (h : valGet? L a = some v) : v.stake ≤ stakeSum L := by
  have := ow_le_sumBy (·.stake) L.validators a
  unfold valGet? at h; rw [h] at this; exact this

/-! ### Except plumbing -/

theorem bind_ok {α β} {x : M α} {f : α → M β} {b : β} (h : (x >>= f) = .ok b) : ∃ a, x = .ok a ∧ f a = .ok b := by
  cases x with
  | error e => simp [bind, Except.bind] at h
  | ok a => exact ⟨a, rfl, h⟩

/-! ### accounts -/

theorem accSum_accPut (L : Ledger) (a : Addr) (v : Nat) : accSum (accPut L a v) + accGet L a = accSum L + v :=
  NMap.total_put _ _ _

theorem accSum_setAccount (L : Ledger) (a : Addr) (v : Nat) (t : Option Vest) :
    accSum (setAccount L a v t) + accGet L a = accSum L + v := accSum_accPut L a v

theorem setAccount_shape (L : Ledger) (a : Addr) (v : Nat) (t : Option Vest) :
    ∃ acc vs, setAccount L a v t = { L with accounts := acc, vesting := vs } := ⟨_, _, rfl⟩

theorem accountAdd_ok {L L' : Ledger} {a : Addr} {x : Nat} (h : accountAdd L a x = .ok L') :
    ∃ acc vs, L' = { L with accounts := acc, vesting := vs } ∧ accSum L' = accSum L + x := by
  unfold accountAdd at h
  split at h
  · next hx => cases h; exact ⟨L.accounts, L.vesting, rfl, by omega⟩
  · split at h
    · cases h
    · cases h
      refine ⟨_, _, rfl, ?_⟩
      have := accSum_setAccount L a (accGet L a + x) (vestGet? L a); omega

theorem accSpendable_le (L : Ledger) (a : Addr) : accSpendable L a ≤ accGet L a := by
  unfold accSpendable; split <;> omega

theorem accountSub_ok {L L' : Ledger} {a : Addr} {x : Nat} (h : accountSub L a x = .ok L') :
    ∃ acc vs, L' = { L with accounts := acc, vesting := vs } ∧ accSum L' + x = accSum L := by
  unfold accountSub at h
  split at h
  · next hx => cases h; exact ⟨L.accounts, L.vesting, rfl, by omega⟩
  · split at h
    · cases h
    · next hlt =>
      cases h
      refine ⟨_, _, rfl, ?_⟩
      have := accSum_setAccount L a (accGet L a - x) (vestGet? L a); have := accGet_le L a
      have := accSpendable_le L a; omega

/-! ### pools -/

theorem poolSum_poolPut (L : Ledger) (id v : Nat) : poolSum (poolPut L id v) + poolGet L id = poolSum L + v :=
  NMap.total_put _ _ _

/-- `PoolAdd` adds exactly `x` when the pool does not overflow -/
theorem poolAdd_noWrap (L : Ledger) (id x : Nat) (h : poolGet L id + x < U64) :
    ∃ p, poolAdd L id x = { L with pools := p } ∧ poolSum (poolAdd L id x) = poolSum L + x := by
  refine ⟨_, rfl, ?_⟩
  unfold poolAdd
  rw [Nat.mod_eq_of_lt h]
  have := poolSum_poolPut L id (poolGet L id + x); omega

/-- companion (F5): at the excluded point the pool balance wraps -/
theorem poolAdd_wraps (L : Ledger) (id x : Nat) (h : U64 ≤ poolGet L id + x) (hx : x < U64) (hp : poolGet L id < U64) :
    poolSum (poolAdd L id x) + U64 = poolSum L + x := by
  unfold poolAdd
  have e : (poolGet L id + x) % U64 = poolGet L id + x - U64 := by
    rw [Nat.mod_eq_sub_mod h, Nat.mod_eq_of_lt (by omega)]
  rw [e]
  have := poolSum_poolPut L id (poolGet L id + x - U64); omega

theorem poolSub_ok {L L' : Ledger} {id x : Nat} (h : poolSub L id x = .ok L') :
    ∃ p, L' = { L with pools := p } ∧ poolSum L' + x = poolSum L := by
  unfold poolSub at h
  split at h
  · cases h
  · cases h
    refine ⟨_, rfl, ?_⟩
    have := poolSum_poolPut L id (poolGet L id - x); have := poolGet_le L id; omega

/-! ### supply counters -/

theorem addToTotal_noWrap (L : Ledger) (x : Nat) (h : L.supply.total + x < U64) :
    addToTotal L x = { L with supply := { L.supply with total := L.supply.total + x } } := by
  unfold addToTotal; rw [Nat.mod_eq_of_lt h]

/-- companion (F5): at the excluded point the recorded total wraps -/
theorem addToTotal_wraps (L : Ledger) (x : Nat) (h : U64 ≤ L.supply.total + x) (hx : x < U64) (ht : L.supply.total < U64) :
    (addToTotal L x).supply.total + U64 = L.supply.total + x := by
  unfold addToTotal
  show (L.supply.total + x) % U64 + U64 = _
  rw [Nat.mod_eq_sub_mod h, Nat.mod_eq_of_lt (by omega)]; omega

theorem addToTotal_lt (L : Ledger) (x : Nat) : (addToTotal L x).supply.total < U64 :=
  Nat.mod_lt _ (by decide)

theorem subFromTotal_ok {L L' : Ledger} {x : Nat} (h : subFromTotal L x = .ok L') :
    x ≤ L.supply.total ∧ L' = { L with supply := { L.supply with total := L.supply.total - x } } := by
  unfold subFromTotal at h
  split at h
  · cases h
  · cases h; exact ⟨by omega, rfl⟩

theorem addToStaked_ok {L L' : Ledger} {x : Nat} (h : addToStaked L x = .ok L') :
    L' = { L with supply := { L.supply with staked := L.supply.staked + x } } := by
  unfold addToStaked at h; split at h <;> cases h; rfl

theorem subFromStaked_ok {L L' : Ledger} {x : Nat} (h : subFromStaked L x = .ok L') :
    x ≤ L.supply.staked ∧ L' = { L with supply := { L.supply with staked := L.supply.staked - x } } := by
  unfold subFromStaked at h
  split at h
  · cases h
  · cases h; exact ⟨by omega, rfl⟩

theorem addToDelegated_ok {L L' : Ledger} {x : Nat} (h : addToDelegated L x = .ok L') :
    L' = { L with supply := { L.supply with delegatedOnly := L.supply.delegatedOnly + x } } := by
  unfold addToDelegated at h; split at h <;> cases h; rfl

theorem subFromDelegated_ok {L L' : Ledger} {x : Nat} (h : subFromDelegated L x = .ok L') :
    x ≤ L.supply.delegatedOnly ∧ L' = { L with supply := { L.supply with delegatedOnly := L.supply.delegatedOnly - x } } := by
  unfold subFromDelegated at h
  split at h
  · cases h
  · cases h; exact ⟨by omega, rfl⟩

/-! ### the frame: what committee bookkeeping never touches -/

/-- two ledgers agree on everything except the per-committee supply pools and the legacy index keys -/
structure SameCore (L L' : Ledger) : Prop where
  cfg : L'.cfg = L.cfg
  params : L'.params = L.params
  height : L'.height = L.height
  accounts : L'.accounts = L.accounts
  pools : L'.pools = L.pools
  validators : L'.validators = L.validators
  total : L'.supply.total = L.supply.total
  staked : L'.supply.staked = L.supply.staked
  delegatedOnly : L'.supply.delegatedOnly = L.supply.delegatedOnly
  unstaking : L'.unstaking = L.unstaking
  paused : L'.paused = L.paused
  nonSigners : L'.nonSigners = L.nonSigners
  committeesData : L'.committeesData = L.committeesData
  retired : L'.retired = L.retired
  doubleSigners : L'.doubleSigners = L.doubleSigners
  slashTracker : L'.slashTracker = L.slashTracker

theorem SameCore.refl (L : Ledger) : SameCore L L := by constructor <;> rfl

theorem SameCore.trans {A B C : Ledger} (h1 : SameCore A B) (h2 : SameCore B C) : SameCore A C := by
  constructor
  · exact h2.cfg.trans h1.cfg
  · exact h2.params.trans h1.params
  · exact h2.height.trans h1.height
  · exact h2.accounts.trans h1.accounts
  · exact h2.pools.trans h1.pools
  · exact h2.validators.trans h1.validators
  · exact h2.total.trans h1.total
  · exact h2.staked.trans h1.staked
  · exact h2.delegatedOnly.trans h1.delegatedOnly
  · exact h2.unstaking.trans h1.unstaking
  · exact h2.paused.trans h1.paused
  · exact h2.nonSigners.trans h1.nonSigners
  · exact h2.committeesData.trans h1.committeesData
  · exact h2.retired.trans h1.retired
  · exact h2.doubleSigners.trans h1.doubleSigners
  · exact h2.slashTracker.trans h1.slashTracker

theorem v2_of_sameCore {L L' : Ledger} (h : SameCore L L') : v2 L' = v2 L := by
  simp [v2, featureEnabled, h.height, h.params]

theorem sameCore_setCommitteeMember (L : Ledger) (a : Addr) (c s : Nat) : SameCore L (setCommitteeMember L a c s) := by
  unfold setCommitteeMember; split <;> constructor <;> rfl
theorem sameCore_deleteCommitteeMember (L : Ledger) (a : Addr) (c s : Nat) : SameCore L (deleteCommitteeMember L a c s) := by
  unfold deleteCommitteeMember; split <;> constructor <;> rfl
theorem sameCore_setDelegate (L : Ledger) (a : Addr) (c s : Nat) : SameCore L (setDelegate L a c s) := by
  unfold setDelegate; split <;> constructor <;> rfl
theorem sameCore_deleteDelegate (L : Ledger) (a : Addr) (c s : Nat) : SameCore L (deleteDelegate L a c s) := by
  unfold deleteDelegate; split <;> constructor <;> rfl

theorem sameCore_addToCommitteeSupply {L L' : Ledger} {c x : Nat} (h : addToCommitteeSupply L c x = .ok L') : SameCore L L' := by
  unfold addToCommitteeSupply at h; split at h <;> cases h; constructor <;> rfl
theorem sameCore_subFromCommitteeSupply {L L' : Ledger} {c x : Nat} (h : subFromCommitteeSupply L c x = .ok L') : SameCore L L' := by
  unfold subFromCommitteeSupply at h; split at h <;> cases h; constructor <;> rfl
theorem sameCore_addToDelegateSupply {L L' : Ledger} {c x : Nat} (h : addToDelegateSupply L c x = .ok L') : SameCore L L' := by
  unfold addToDelegateSupply at h; split at h <;> cases h; constructor <;> rfl
theorem sameCore_subFromDelegateSupply {L L' : Ledger} {c x : Nat} (h : subFromDelegateSupply L c x = .ok L') : SameCore L L' := by
  unfold subFromDelegateSupply at h; split at h <;> cases h; constructor <;> rfl

theorem sameCore_setCommittees {a : Addr} {s : Nat} : ∀ {cs : List Nat} {L L' : Ledger}, setCommittees L a s cs = .ok L' → SameCore L L'
  | [], L, L', h => by cases h; exact SameCore.refl L
  | c :: cs, L, L', h => by
    simp only [setCommittees] at h
    obtain ⟨L1, h1, h2⟩ := bind_ok h
    exact ((sameCore_setCommitteeMember L a c s).trans (sameCore_addToCommitteeSupply h1)).trans (sameCore_setCommittees h2)

theorem sameCore_deleteCommittees {a : Addr} {s : Nat} : ∀ {cs : List Nat} {L L' : Ledger}, deleteCommittees L a s cs = .ok L' → SameCore L L'
  | [], L, L', h => by cases h; exact SameCore.refl L
  | c :: cs, L, L', h => by
    simp only [deleteCommittees] at h
    obtain ⟨L1, h1, h2⟩ := bind_ok h
    exact ((sameCore_deleteCommitteeMember L a c s).trans (sameCore_subFromCommitteeSupply h1)).trans (sameCore_deleteCommittees h2)

theorem sameCore_setDelegations {a : Addr} {s : Nat} : ∀ {cs : List Nat} {L L' : Ledger}, setDelegations L a s cs = .ok L' → SameCore L L'
  | [], L, L', h => by cases h; exact SameCore.refl L
  | c :: cs, L, L', h => by
    simp only [setDelegations] at h
    obtain ⟨L1, h1, h2⟩ := bind_ok h
    obtain ⟨L2, h3, h4⟩ := bind_ok h2
    exact (((sameCore_setDelegate L a c s).trans (sameCore_addToDelegateSupply h1)).trans (sameCore_addToCommitteeSupply h3)).trans (sameCore_setDelegations h4)

theorem sameCore_deleteDelegations {a : Addr} {s : Nat} : ∀ {cs : List Nat} {L L' : Ledger}, deleteDelegations L a s cs = .ok L' → SameCore L L'
  | [], L, L', h => by cases h; exact SameCore.refl L
  | c :: cs, L, L', h => by
    simp only [deleteDelegations] at h
    obtain ⟨L1, h1, h2⟩ := bind_ok h
    obtain ⟨L2, h3, h4⟩ := bind_ok h2
    exact (((sameCore_deleteDelegate L a c s).trans (sameCore_subFromDelegateSupply h1)).trans (sameCore_subFromCommitteeSupply h3)).trans (sameCore_deleteDelegations h4)

theorem sameCore_updateCommittees {L L' : Ledger} {a : Addr} {old : Validator} {s : Nat} {cs : List Nat}
    (h : updateCommittees L a old s cs = .ok L') : SameCore L L' := by
  unfold updateCommittees at h
  obtain ⟨L1, h1, h2⟩ := bind_ok h
  exact (sameCore_deleteCommittees h1).trans (sameCore_setCommittees h2)

theorem sameCore_updateDelegations {L L' : Ledger} {a : Addr} {old : Validator} {s : Nat} {cs : List Nat}
    (h : updateDelegations L a old s cs = .ok L') : SameCore L L' := by
  unfold updateDelegations at h
  obtain ⟨L1, h1, h2⟩ := bind_ok h
  exact (sameCore_deleteDelegations h1).trans (sameCore_setDelegations h2)

/-- the supply quantities only depend on the core -/
theorem bal_of_sameCore {L L' : Ledger} (h : SameCore L L') : bal L' = bal L := by
  simp [bal, accSum, poolSum, stakeSum, h.accounts, h.pools, h.validators]

/-! ### validator records -/

theorem stakeSum_valPut (L : Ledger) (a : Addr) (v : Validator) :
    stakeSum (valPut L a v) + ow (·.stake) (valGet? L a) = stakeSum L + v.stake :=
  sumBy_set (fun x : Validator => x.stake) L.validators a v

theorem stakeSum_valDel (L : Ledger) (a : Addr) :
    stakeSum (valDel L a) + ow (·.stake) (valGet? L a) = stakeSum L :=
  sumBy_erase (fun x : Validator => x.stake) L.validators a

end Canopy.Ledger

namespace Canopy.Ledger
open AMap
set_option linter.unusedSimpArgs false

/-! ### validator status changes touch neither balances nor supply -/

/-- `L'` has the same accounts, pools and supply record as `L` -/
structure SameMoney (L L' : Ledger) : Prop where
  accounts : L'.accounts = L.accounts
  pools : L'.pools = L.pools
  supply : L'.supply = L.supply

theorem stakeSum_valPut_same {L : Ledger} {a : Addr} {old v : Validator} (hg : valGet? L a = some old) (hs : v.stake = old.stake) :
    stakeSum (valPut L a v) = stakeSum L := by
  have := stakeSum_valPut L a v; rw [hg] at this; simp only [ow_some] at this; omega

@[simp] theorem setValidatorUnstaking_validators (L : Ledger) (a : Addr) (val : Validator) (f : Nat) :
    (setValidatorUnstaking L a val f).validators = AMap.set L.validators a { val with maxPausedHeight := 0, unstakingHeight := f } := by
  unfold setValidatorUnstaking valPut; split <;> rfl
theorem setValidatorUnstaking_money (L : Ledger) (a : Addr) (val : Validator) (f : Nat) : SameMoney L (setValidatorUnstaking L a val f) := by
  unfold setValidatorUnstaking valPut; split <;> constructor <;> rfl
@[simp] theorem setValidatorPaused_validators (L : Ledger) (a : Addr) (val : Validator) (f : Nat) :
    (setValidatorPaused L a val f).validators = AMap.set L.validators a { val with maxPausedHeight := f } := rfl
theorem setValidatorPaused_money (L : Ledger) (a : Addr) (val : Validator) (f : Nat) : SameMoney L (setValidatorPaused L a val f) := by
  constructor <;> rfl
@[simp] theorem setValidatorUnpaused_validators (L : Ledger) (a : Addr) (val : Validator) :
    (setValidatorUnpaused L a val).validators = AMap.set L.validators a { val with maxPausedHeight := 0 } := rfl
theorem setValidatorUnpaused_money (L : Ledger) (a : Addr) (val : Validator) : SameMoney L (setValidatorUnpaused L a val) := by
  constructor <;> rfl

theorem sumStake_set_same {L : Ledger} {a : Addr} {old v : Validator} (hg : valGet? L a = some old) (hs : v.stake = old.stake) :
    sumBy (fun x : Validator => x.stake) (AMap.set L.validators a v) = sumBy (fun x : Validator => x.stake) L.validators :=
  stakeSum_valPut_same hg hs

theorem stakeSum_setValidatorUnstaking {L : Ledger} {a : Addr} {old val : Validator} (f : Nat) (hg : valGet? L a = some old)
    (hs : val.stake = old.stake) : stakeSum (setValidatorUnstaking L a val f) = stakeSum L := by
  unfold stakeSum; rw [setValidatorUnstaking_validators]; exact sumStake_set_same hg hs
theorem stakeSum_setValidatorPaused {L : Ledger} {a : Addr} {old val : Validator} (f : Nat) (hg : valGet? L a = some old)
    (hs : val.stake = old.stake) : stakeSum (setValidatorPaused L a val f) = stakeSum L := by
  unfold stakeSum; rw [setValidatorPaused_validators]; exact sumStake_set_same hg hs
theorem stakeSum_setValidatorUnpaused {L : Ledger} {a : Addr} {old val : Validator} (hg : valGet? L a = some old)
    (hs : val.stake = old.stake) : stakeSum (setValidatorUnpaused L a val) = stakeSum L := by
  unfold stakeSum; rw [setValidatorUnpaused_validators]; exact sumStake_set_same hg hs

theorem getValidator_ok {L : Ledger} {a : Addr} {v : Validator} (h : getValidator L a = .ok v) : valGet? L a = some v := by
  unfold getValidator at h; split at h
  · next v' hv => cases h; exact hv
  · cases h

end Canopy.Ledger
