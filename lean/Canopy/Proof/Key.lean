import Canopy.Model.Bytes
/-! Helper lemmas for the length-prefixed key codec (M-key). Core only. -/
namespace Canopy

/-- every segment fits its one-byte length prefix -/
def SegsOK (segs : List Bytes) : Prop := ∀ s ∈ segs, s.length ≤ 255

theorem ofNat_toNat_of_le {n : Nat} (h : n ≤ 255) : (UInt8.ofNat n).toNat = n := by
  simp [UInt8.toNat_ofNat']; omega

theorem decode_join (segs : List Bytes) (h : SegsOK segs) :
    decodeLenPrefixed (joinLenPrefix segs) = some segs := by
  induction segs with
  | nil => simp [joinLenPrefix, decodeLenPrefixed]
  | cons s rest ih =>
    have hs : s.length ≤ 255 := h s (by simp)
    have hr : SegsOK rest := fun x hx => h x (by simp [hx])
    rw [joinLenPrefix, decodeLenPrefixed]
    simp only [ofNat_toNat_of_le hs]
    have : s.length ≤ (s ++ joinLenPrefix rest).length := by simp
    simp only [this, ↓reduceDIte, List.drop_left, List.take_left, ih hr]

theorem join_injective (a b : List Bytes) (ha : SegsOK a) (hb : SegsOK b)
    (h : joinLenPrefix a = joinLenPrefix b) : a = b := by
  have h1 := decode_join a ha
  have h2 := decode_join b hb
  rw [h] at h1
  rw [h1] at h2
  exact Option.some.inj h2

theorem join_append (a b : List Bytes) :
    joinLenPrefix (a ++ b) = joinLenPrefix a ++ joinLenPrefix b := by
  induction a with
  | nil => simp [joinLenPrefix]
  | cons s rest ih => simp [joinLenPrefix, ih]

/-- Byte-prefix between encodings implies segment-wise relation: if `join a` is a byte prefix of
`join b` then, reading segment by segment, `a` is a segment-prefix of `b`. This is what makes a
prefix scan over `join p` return exactly the keys whose leading segments are `p`. -/
theorem join_prefix (a b : List Bytes) (ha : SegsOK a) (hb : SegsOK b)
    (h : joinLenPrefix a <+: joinLenPrefix b) : a <+: b := by
  induction a generalizing b with
  | nil => exact List.nil_prefix
  | cons s rest ih =>
    have hs : s.length ≤ 255 := ha s (by simp)
    have hr : SegsOK rest := fun x hx => ha x (by simp [hx])
    cases b with
    | nil =>
      simp [joinLenPrefix] at h
    | cons t rest' =>
      have ht : t.length ≤ 255 := hb t (by simp)
      have hr' : SegsOK rest' := fun x hx => hb x (by simp [hx])
      simp only [joinLenPrefix, List.cons_prefix_cons] at h
      obtain ⟨hlen, hpre⟩ := h
      have hl : s.length = t.length := by
        have := congrArg UInt8.toNat hlen
        rwa [ofNat_toNat_of_le hs, ofNat_toNat_of_le ht] at this
      -- s ++ X is a prefix of t ++ Y with equal lengths ⇒ s = t and X prefix of Y
      obtain ⟨z, hz⟩ := hpre
      have hst : s = t := by
        have := congrArg (List.take s.length) hz
        rw [List.append_assoc, List.take_left, hl, List.take_left] at this
        exact this
      subst hst
      rw [List.append_assoc, List.append_cancel_left_eq] at hz
      have : rest <+: rest' := ih rest' hr hr' ⟨z, hz⟩
      exact List.cons_prefix_cons.mpr ⟨rfl, this⟩

/-- keys whose first segments differ never collide and neither lies in the other's prefix range -/
theorem join_first_seg_disjoint (p q : Bytes) (a b : List Bytes)
    (ha : SegsOK (p :: a)) (hb : SegsOK (q :: b)) (hpq : p ≠ q) :
    ¬ joinLenPrefix (p :: a) <+: joinLenPrefix (q :: b) := by
  intro h
  have := join_prefix _ _ ha hb h
  simp only [List.cons_prefix_cons] at this
  exact hpq this.1

theorem formatUint64_length (u : UInt64) : (formatUint64 u).length = 8 := rfl

theorem formatUint64_injective (u v : UInt64) (h : formatUint64 u = formatUint64 v) : u = v := by
  simp only [formatUint64, List.cons.injEq, and_true] at h
  obtain ⟨h0, h1, h2, h3, h4, h5, h6, h7⟩ := h
  have e0 := congrArg UInt8.toNat h0
  have e1 := congrArg UInt8.toNat h1
  have e2 := congrArg UInt8.toNat h2
  have e3 := congrArg UInt8.toNat h3
  have e4 := congrArg UInt8.toNat h4
  have e5 := congrArg UInt8.toNat h5
  have e6 := congrArg UInt8.toNat h6
  have e7 := congrArg UInt8.toNat h7
  apply UInt64.toNat_inj.mp
  have hu := u.toNat_lt
  have hv := v.toNat_lt
  simp only [UInt64.toNat_toUInt8, UInt64.toNat_shiftRight, UInt64.toNat_ofNat, Nat.shiftRight_eq_div_pow] at e0 e1 e2 e3 e4 e5 e6 e7
  simp only [Nat.reducePow, Nat.reduceMod] at e0 e1 e2 e3 e4 e5 e6 e7 hu hv
  omega
end Canopy
