import Canopy.Proof.Evidence
/-!
Helper lemmas for C14, the certificate-results path of the root chain: what an accepted
certificate-results transaction establishes about the results (and so about the slash list) it carries.
-/
namespace Canopy.Evidence
open Canopy Canopy.Gate
open Canopy.Gen.Evidence (phaseElectionVote)

/-- outside ELECTION_VOTE the sign bytes cover header, block hash, RESULTS HASH and proposer key -/
theorem signPayload_covers_results (q : QC) (hd : View) (h : hd.phase ≠ phaseElectionVote) :
    signPayload q hd = payloadOf q hd := by
  unfold signPayload
  simp [h]

/-- an ELECTION_VOTE certificate's sign bytes do not depend on block hash, results hash or results -/
theorem signPayload_election_ignores_results (q q' : QC) (hd : View) (h : hd.phase = phaseElectionVote)
    (hp : q.proposerKey = q'.proposerKey) : signPayload q hd = signPayload q' hd := by
  unfold signPayload
  simp [h, hp]

theorem sigCheck_power {q : QC} {hd : View} {ms : List Member} (h : sigCheck q hd ms = .ok false) :
    ∃ sig, q.signature = some sig ∧
      aggVerifies sig (ms.map (·.key)) ((selected sig.bitmap ms).map (·.key)) (signPayload q hd) = true ∧
      ¬ signedPower sig.bitmap ms < Gen.Committee.minPowerFor23Maj (totalPower ms) := by
  unfold sigCheck at h
  split at h; · contradiction
  rename_i sig hsig
  repeat (split at h; · contradiction)
  rename_i _ _ _ hv
  simp only [Except.ok.injEq, decide_eq_false_iff_not] at h
  exact ⟨sig, hsig, by simpa using hv, h⟩

theorem qcCheck_power {env : Env} {q : QC} {ms : List Member} (h : qcCheck env q ms = .ok false) :
    Gate.checkBasic q env.globalMaxBlockSize = none ∧
    ∃ hd sig, q.header = some hd ∧ q.signature = some sig ∧
      aggVerifies sig (ms.map (·.key)) ((selected sig.bitmap ms).map (·.key)) (signPayload q hd) = true ∧
      ¬ signedPower sig.bitmap ms < Gen.Committee.minPowerFor23Maj (totalPower ms) := by
  unfold qcCheck at h
  split at h; · contradiction
  rename_i hcb
  split at h; · contradiction
  rename_i hd hhd
  split at h; · contradiction
  split at h; · contradiction
  have hs : sigCheck q hd ms = .ok false := by
    split at h
    · split at h; · contradiction
      split at h; · contradiction
      exact h
    · exact h
  obtain ⟨sig, e1, e2, e3⟩ := sigCheck_power hs
  exact ⟨hcb, hd, sig, hhd, e1, e2, e3⟩

/-- `QuorumCertificate.CheckBasic` ties the attached results to the results hash -/
theorem checkBasic_results_hash {q : QC} {g : Nat} {res : ResultsInfo} (hcb : Gate.checkBasic q g = none)
    (hres : q.results = some res) : q.resultsHash = some res.hash := by
  unfold Gate.checkBasic at hcb
  split at hcb; · contradiction
  rename_i hbody
  unfold checkBasicBody at hbody
  split at hbody; · contradiction
  split at hbody; · contradiction
  rename_i hd hhd
  split at hbody
  · rename_i rh hrh
    split at hbody; · contradiction
    split at hbody; · contradiction
    rw [hres] at hbody
    dsimp only at hbody
    by_cases hb : (!res.basicOK) = true
    · simp [hb] at hbody
    · by_cases hne : (rh != res.hash) = true
      · simp [hb, hne] at hbody
      · simp only [bne_iff_ne, ne_eq, Decidable.not_not] at hne
        rw [hrh, hne]
  · split at hbody; · contradiction
    split at hbody
    · contradiction
    · rename_i hh
      simp [hres] at hh

/-- everything an accepted certificate-results transaction establishes (the repaired check) -/
structure CertifiedResults (env : Env) (q : QC) : Prop where
  ex : ∃ hd ms sig res,
    q.header = some hd ∧ hd.phase ≠ phaseElectionVote ∧
    env.committeeAt hd.rootHeight = some ms ∧ q.signature = some sig ∧
    q.results = some res ∧ q.resultsHash = some res.hash ∧
    -- the aggregate is exactly the selected members' signatures over a payload that contains this results hash
    aggVerifies sig (ms.map (·.key)) ((selected sig.bitmap ms).map (·.key)) (payloadOf q hd) = true ∧
    (payloadOf q hd).resultsHash = res.hash ∧
    -- and the selected members reach +2/3 of the committee in force at the certificate's root height
    ¬ signedPower sig.bitmap ms < Gen.Committee.minPowerFor23Maj (totalPower ms)

theorem certificateResults_certified {env : Env} {P : Params} {addrOf : KeyId → Option Addr} {L : Ledger}
    {cd : CommitteeData} {q : QC} {sp : Bool} {slash : Option (List (Option DS))} {r : Ledger × CommitteeData}
    (h : certificateResultsWith true env P addrOf L cd q sp slash = .ok r) : CertifiedResults env q ∧ sp = true := by
  unfold certificateResultsWith at h
  split at h; · contradiction
  rename_i hchk
  split at h; · contradiction
  rename_i hsp
  split at h; · contradiction
  rename_i hd hhd
  split at h; · contradiction
  rename_i ms hms
  split at h
  · contradiction
  · contradiction
  rename_i hq
  -- the stateless check: results attached, phase rule
  unfold certResultsCheck at hchk
  split at hchk; · contradiction
  split at hchk; · contradiction
  rename_i hres
  split at hchk; · contradiction
  rw [hhd] at hchk
  simp only [Bool.true_and] at hchk
  split at hchk; · contradiction
  rename_i hph
  have hph' : hd.phase ≠ phaseElectionVote := by simpa using hph
  obtain ⟨res, hres'⟩ : ∃ res, q.results = some res := by
    cases hr : q.results with
    | none => simp [hr] at hres
    | some r => exact ⟨r, rfl⟩
  obtain ⟨hcb, hd', sig, e1, e2, e3, e4⟩ := qcCheck_power hq
  rw [hhd] at e1; cases e1
  have hrh := checkBasic_results_hash hcb hres'
  rw [signPayload_covers_results q hd hph'] at e3
  refine ⟨⟨⟨hd, ms, sig, res, hhd, hph', hms, e2, hres', hrh, e3, ?_, e4⟩⟩, by simpa using hsp⟩
  simp [payloadOf, hrh]

end Canopy.Evidence
