import Canopy.Proof.StoreHist
import Canopy.Model.Crash
/-! C09: the atomicity logic of the block commit over the batch-list model of the database. -/
namespace Canopy.Crash
open Canopy Canopy.Store

theorem dbOf_snoc (d : Disk) (b : List BatchOp) : dbOf (d ++ [b]) = applyBatch (dbOf d) b := by
  simp [dbOf, List.foldl_append]

theorem dbOf_append (d e : Disk) : dbOf (d ++ e) = e.foldl applyBatch (dbOf d) := by
  simp [dbOf, List.foldl_append]

theorem sorted_dbOf (d : Disk) : SSorted (dbOf d) := by
  unfold dbOf
  have : ∀ (db : DB), SSorted db → SSorted (d.foldl applyBatch db) := by
    induction d with
    | nil => intro db h; exact h
    | cons b d ih => intro db h; exact ih _ (sorted_applyBatch h b)
  exact this [] List.Pairwise.nil

/-! ## the partitions are disjoint -/

theorem lastPrefix_eq : lastPrefix = [2, 97, 47] := by decide
theorem cidPrefix_eq : cidPrefix = [2, 120, 47] := by decide
theorem idxPrefix_eq : idxPrefix = [2, 105, 47] := by decide

theorem last_ne (k : Bytes) : lastPrefix ≠ cidPrefix ++ k ∧ lastPrefix ≠ idxPrefix ++ k ∧
    lastPrefix ≠ lssPrefix ++ k ∧ lastPrefix ≠ hssPrefix ++ k := by
  rw [lastPrefix_eq, cidPrefix_eq, idxPrefix_eq, lssPrefix_eq, hssPrefix_eq]
  simp

/-- the operations of a block's batch other than the latest-commit-id record never touch that record -/
theorem rest_not_last (next : Nat) (b : BlockIn) :
    ∀ op ∈ [BatchOp.put (mkKey (commitIDKey next) next) (cidVal next b.root)] ++ smtPart next b ++ statePart next b ++ idxPart next b,
      opKey op ≠ mkKey lastPrefix maxVer := by
  intro op hop
  simp only [List.mem_append, List.mem_singleton, smtPart, idxPart, statePart, commitBatch, List.mem_map] at hop
  have hne := last_ne
  rcases hop with ((rfl | ⟨e, _, rfl⟩) | hst) | ⟨e, _, rfl⟩
  · intro h; exact (hne (joinLenPrefix [decimal next])).1 (mkKey_uk_inj h).symm
  · intro h; exact (hne e.1).1 (mkKey_uk_inj h).symm
  · rcases hst with (⟨e, _, rfl⟩ | ⟨e, _, rfl⟩) | hd
    · intro h; exact (hne e.1).2.2.1 (mkKey_uk_inj h).symm
    · intro h; exact (hne e.1).2.2.2 (mkKey_uk_inj h).symm
    · obtain ⟨e, _, rfl⟩ := mem_filterMap_delOf hd
      intro h; exact (hne e.1).2.2.1 (mkKey_uk_inj h).symm
  · intro h; exact (hne e.1).2.1 (mkKey_uk_inj h).symm

theorem batchLookup_of_not_key {b : List BatchOp} {key : Bytes} (h : ∀ op ∈ b, opKey op ≠ key) :
    batchLookup b key = none := by
  apply batchLookup_none
  intro op hop
  have := h op hop
  constructor
  · intro k v e; rw [e] at this; exact this
  · intro k e; rw [e] at this; exact this

theorem heightOf_cidVal (h : Nat) (root : Bytes) (hh : h < 18446744073709551616) : heightOf (cidVal h root) = h := by
  unfold heightOf cidVal rawAlive parseVal
  simp only
  rw [List.take_left' (by rfl)]
  exact beNat_be8 h hh

theorem rootOf_cidVal (h : Nat) (root : Bytes) : rootOf (cidVal h root) = root := by
  unfold rootOf cidVal rawAlive parseVal
  simp only
  rw [List.drop_left' (by rfl)]

/-- a single-batch block commit leaves the latest commit id at `next` with the block's root -/
theorem last_after_single (d : Disk) (next : Nat) (b : BlockIn) :
    smGet (dbOf (d ++ blockBatches .single next b)) (mkKey lastPrefix maxVer) = some (cidVal next b.root) := by
  simp only [blockBatches]
  rw [dbOf_snoc, smGet_applyBatch (sorted_dbOf d)]
  have hsplit : cidPart next b ++ smtPart next b ++ statePart next b ++ idxPart next b =
      [BatchOp.put (mkKey lastPrefix maxVer) (cidVal next b.root)] ++
      ([BatchOp.put (mkKey (commitIDKey next) next) (cidVal next b.root)] ++ smtPart next b ++ statePart next b ++ idxPart next b) := by
    simp [cidPart]
  rw [hsplit, batchLookup_append, batchLookup_of_not_key (rest_not_last next b)]
  simp [batchLookup]

theorem version_of_last {d : Disk} {raw : Bytes} (h : smGet (dbOf d) (mkKey lastPrefix maxVer) = some raw) :
    version d = heightOf raw := by
  unfold version; rw [h]

theorem version_commit_single (d : Disk) (b : BlockIn) (hv : version d + 1 < 18446744073709551616) :
    version (commitBlock .single d b) = version d + 1 := by
  have h := last_after_single d (version d + 1) b
  unfold commitBlock
  rw [version_of_last h]
  exact heightOf_cidVal _ _ hv

theorem latestRoot_commit_single (d : Disk) (b : BlockIn) : latestRoot (commitBlock .single d b) = b.root := by
  unfold commitBlock latestRoot
  rw [last_after_single]
  exact rootOf_cidVal _ _

/-! ## runs -/

theorem run_append (sh : Shape) (d : Disk) (a b : List BlockIn) : run sh d (a ++ b) = run sh (run sh d a) b := by
  simp [run, List.foldl_append]

theorem run_prefix (sh : Shape) (bs : List BlockIn) : ∀ d : Disk, ∃ X, run sh d bs = d ++ X := by
  induction bs with
  | nil => intro d; exact ⟨[], by simp [run]⟩
  | cons b bs ih =>
    intro d
    obtain ⟨X, hX⟩ := ih (commitBlock sh d b)
    exact ⟨blockBatches sh (version d + 1) b ++ X, by
      show run sh (commitBlock sh d b) bs = _
      rw [hX]; simp [commitBlock]⟩

theorem length_run_single (bs : List BlockIn) : ∀ d : Disk, (run .single d bs).length = d.length + bs.length := by
  induction bs with
  | nil => intro d; simp [run]
  | cons b bs ih =>
    intro d
    show (run .single (commitBlock .single d b) bs).length = _
    rw [ih]; simp [commitBlock, blockBatches]; omega

theorem version_run_single (bs : List BlockIn) : ∀ d : Disk, version d + bs.length < 18446744073709551616 →
    version (run .single d bs) = version d + bs.length := by
  induction bs with
  | nil => intro d _; simp [run]
  | cons b bs ih =>
    intro d h
    simp only [List.length_cons] at h
    show version (run .single (commitBlock .single d b) bs) = _
    have hv := version_commit_single d b (by omega)
    rw [ih _ (by rw [hv]; omega), hv]; simp; omega

theorem version_empty : version [] = 0 := by decide

/-- with one batch per block, the first `j` batches of a run are the run of the first `j` blocks -/
theorem take_run_single (bs : List BlockIn) (j : Nat) :
    (run .single [] bs).take j = run .single [] (bs.take j) := by
  by_cases hj : j ≤ bs.length
  · have hsplit : bs = bs.take j ++ bs.drop j := (List.take_append_drop j bs).symm
    conv => lhs; rw [hsplit, run_append]
    obtain ⟨X, hX⟩ := run_prefix .single (bs.drop j) (run .single [] (bs.take j))
    rw [hX]
    have hl : (run .single [] (bs.take j)).length = j := by
      rw [length_run_single]; simp; omega
    rw [List.take_left' hl]
  · have h1 : bs.take j = bs := List.take_of_length_le (by omega)
    rw [h1, List.take_of_length_le]
    rw [length_run_single]; simp; omega

/-! ## earlier heights are never touched -/

/-- every operation of the batch of block `next` is on a key of version `next` or 2^64-1 -/
theorem batch_versions (next : Nat) (b : BlockIn) :
    ∀ op ∈ cidPart next b ++ smtPart next b ++ statePart next b ++ idxPart next b,
      ∃ u w, opKey op = mkKey u w ∧ (w = next ∨ w = maxVer) := by
  intro op hop
  simp only [List.mem_append, cidPart, List.mem_cons, List.not_mem_nil, or_false, smtPart, idxPart,
    statePart, commitBatch, List.mem_map] at hop
  rcases hop with (((rfl | rfl) | ⟨e, _, rfl⟩) | hst) | ⟨e, _, rfl⟩
  · exact ⟨_, _, rfl, Or.inr rfl⟩
  · exact ⟨_, _, rfl, Or.inl rfl⟩
  · exact ⟨_, _, rfl, Or.inl rfl⟩
  · rcases hst with (⟨e, _, rfl⟩ | ⟨e, _, rfl⟩) | hd
    · exact ⟨_, _, rfl, Or.inr rfl⟩
    · exact ⟨_, _, rfl, Or.inl rfl⟩
    · obtain ⟨e, _, rfl⟩ := mem_filterMap_delOf hd
      exact ⟨_, _, rfl, Or.inr rfl⟩
  · exact ⟨_, _, rfl, Or.inl rfl⟩

/-- committing block `next` leaves every versioned entry below `next` (and below 2^64-1) as it was -/
theorem commit_keeps_older (d : Disk) (b : BlockIn) (u : Bytes) (w : Nat) (hw : w < version d + 1)
    (hv : version d + 1 < maxVer) :
    smGet (dbOf (commitBlock .single d b)) (mkKey u w) = smGet (dbOf d) (mkKey u w) := by
  unfold commitBlock
  simp only [blockBatches]
  rw [dbOf_snoc, smGet_applyBatch (sorted_dbOf d), batchLookup_of_not_key]
  intro op hop
  obtain ⟨u', w', hk, hw'⟩ := batch_versions (version d + 1) b op hop
  rw [hk]
  intro h
  have := (mkKey_inj (by rcases hw' with rfl | rfl <;> omega) (by omega) h).2
  rcases hw' with rfl | rfl <;> omega

end Canopy.Crash
