import Canopy.Proof.StoreHist
import Canopy.Model.Crash
/-! C09: the atomicity logic of the block commit over the batch-list model of the database. -/
namespace Canopy.Crash
open Canopy Canopy.Store

theorem dbOf_snoc (d : Disk) (b : List BatchOp) : dbOf (d ++ [b]) = applyBatch (dbOf d) b := by
  simp [dbOf, List.foldl_append]

theorem dbOf_append (d e : Disk) : dbOf (d ++ e) = e.foldl applyBatch (dbOf d) := by
  simp [dbOf, List.foldl_append]

theorem sorted_dbOf (d : Disk) : SSorted (dbOf d) := by
  unfold dbOf
  have : ∀ (db : DB), SSorted db → SSorted (d.foldl applyBatch db) := by
    induction d with
    | nil => intro db h; exact h
    | cons b d ih => intro db h; exact ih _ (sorted_applyBatch h b)
  exact this [] List.Pairwise.nil

/-! ## the partitions are disjoint -/

theorem lastPrefix_eq : lastPrefix = [2, 97, 47] := by decide
theorem cidPrefix_eq : cidPrefix = [2, 120, 47] := by decide
theorem idxPrefix_eq : idxPrefix = [2, 105, 47] := by decide

theorem last_ne (k : Bytes) : lastPrefix ≠ cidPrefix ++ k ∧ lastPrefix ≠ idxPrefix ++ k ∧
    lastPrefix ≠ lssPrefix ++ k ∧ lastPrefix ≠ hssPrefix ++ k := by
  rw [lastPrefix_eq, cidPrefix_eq, idxPrefix_eq, lssPrefix_eq, hssPrefix_eq]
  simp

/-- the operations of a block's batch other than the latest-commit-id record never touch that record -/
theorem rest_not_last (next : Nat) (b : BlockIn) :
    ∀ op ∈ [BatchOp.put (mkKey (commitIDKey next) next) (cidVal next b.root)] ++ smtPart next b ++ statePart next b ++ idxPart next b,
      opKey op ≠ mkKey lastPrefix maxVer := by
  intro op hop
  simp only [List.mem_append, List.mem_singleton, smtPart, idxPart, statePart, commitBatch, List.mem_map] at hop
  have hne := last_ne
  rcases hop with ((rfl | ⟨e, _, rfl⟩) | hst) | (⟨e, _, rfl⟩ | ⟨e, _, rfl⟩)
  · intro h; exact (hne (joinLenPrefix [decimal next])).1 (mkKey_uk_inj h).symm
  · intro h; exact (hne e.1).1 (mkKey_uk_inj h).symm
  · rcases hst with (⟨e, _, rfl⟩ | ⟨e, _, rfl⟩) | hd
    · intro h; exact (hne e.1).2.2.1 (mkKey_uk_inj h).symm
    · intro h; exact (hne e.1).2.2.2 (mkKey_uk_inj h).symm
    · obtain ⟨e, _, rfl⟩ := mem_filterMap_delOf hd
      intro h; exact (hne e.1).2.2.1 (mkKey_uk_inj h).symm
  · intro h; exact (hne e.1).2.1 (mkKey_uk_inj h).symm
  · intro h; exact (hne e).2.1 (mkKey_uk_inj h).symm

theorem batchLookup_of_not_key {b : List BatchOp} {key : Bytes} (h : ∀ op ∈ b, opKey op ≠ key) :
    batchLookup b key = none := by
  apply batchLookup_none
  intro op hop
  have := h op hop
  constructor
  · intro k v e; rw [e] at this; exact this
  · intro k e; rw [e] at this; exact this

theorem heightOf_cidVal (h : Nat) (root : Bytes) (hh : h < 18446744073709551616) : heightOf (cidVal h root) = h := by
  unfold heightOf cidVal rawAlive parseVal
  simp only
  rw [List.take_left' (by rfl)]
  exact beNat_be8 h hh

theorem rootOf_cidVal (h : Nat) (root : Bytes) : rootOf (cidVal h root) = root := by
  unfold rootOf cidVal rawAlive parseVal
  simp only
  rw [List.drop_left' (by rfl)]

/-- a single-batch block commit leaves the latest commit id at `next` with the block's root -/
theorem last_after_single (d : Disk) (next : Nat) (b : BlockIn) :
    smGet (dbOf (d ++ blockBatches .single .lss next b)) (mkKey lastPrefix maxVer) = some (cidVal next b.root) := by
  simp only [blockBatches]
  rw [dbOf_snoc, smGet_applyBatch (sorted_dbOf d)]
  have hsplit : cidPart .lss next b ++ smtPart next b ++ statePart next b ++ idxPart next b =
      [BatchOp.put (mkKey lastPrefix maxVer) (cidVal next b.root)] ++
      ([BatchOp.put (mkKey (commitIDKey next) next) (cidVal next b.root)] ++ smtPart next b ++ statePart next b ++ idxPart next b) := by
    simp [cidPart, PtrAt.version]
  rw [hsplit, batchLookup_append, batchLookup_of_not_key (rest_not_last next b)]
  simp [batchLookup]

/-- in a sorted list, seeking a key that is present finds it -/
theorem head_dropWhile_present {l : List Entry} (hs : SSorted l) {k v : Bytes} (hm : (k, v) ∈ l) :
    (l.dropWhile fun e => blt e.1 k).head? = some (k, v) := by
  induction l with
  | nil => cases hm
  | cons a l ih =>
    rw [List.dropWhile_cons]
    rcases List.mem_cons.mp hm with rfl | hm'
    · simp [blt_irrefl]
    · have hlt : blt a.1 k = true := hs.head_lt (k, v) hm'
      simp only [hlt, if_true]
      exact ih hs.tail hm'

/-- the versioned read of user key `u` at version `v` returns the record stored at exactly `(u, v)` when
there is one — whatever else the key space holds (no well-formedness of other keys is needed) -/
theorem getRaw_present {db : DB} (hs : SSorted db) {u : Bytes} (hu : u ≠ []) {v : Nat} (hv : v ≤ maxVer) {raw : Bytes}
    (h : smGet db (mkKey u v) = some raw) : (VS.mk db v).getRaw u = some (parseVal raw) := by
  have hm : (mkKey u v, raw) ∈ db := (smGet_eq_some_iff hs _ _).mp h
  have hb : (mkKey u v, raw) ∈ bound db u (prefixEnd u) := by
    unfold bound
    rw [List.mem_filter]
    refine ⟨hm, ?_⟩
    have h1 : ble u (mkKey u v) = true := ble_of_prefix ⟨invVer v, rfl⟩
    have h2 : blt (mkKey u v) (prefixEnd u) = true := blt_prefixEnd (by rw [invVer_length]; omega)
    simp [h1, h2]
  have hsb : SSorted (bound db u (prefixEnd u)) := List.Pairwise.filter _ hs
  have hd := head_dropWhile_present hsb hb
  unfold VS.getRaw PCur.seekGE PCur.cur?
  simp only [Bool.false_eq_true, if_false, hd, userKeyOf_mkKey v hu, versionOf_mkKey u hv]
  simp

/-- **the pointer `getLatestCommitID` reads is the record at the reserved version** whenever there is one:
records of the same key written at block heights sort after it and are never reached -/
theorem latestPointer_of_last {d : Disk} {raw : Bytes} (h : smGet (dbOf d) (mkKey lastPrefix maxVer) = some raw) :
    latestPointer d = some (rawAlive (parseVal raw).2) := by
  unfold latestPointer
  rw [getRaw_present (sorted_dbOf d) (by decide) (Nat.le_refl _) h]
  rfl

theorem version_of_last {d : Disk} {raw : Bytes} (h : smGet (dbOf d) (mkKey lastPrefix maxVer) = some raw) :
    version d = heightOf raw := by
  unfold version; rw [latestPointer_of_last h]; rfl

theorem latestRoot_of_last {d : Disk} {raw : Bytes} (h : smGet (dbOf d) (mkKey lastPrefix maxVer) = some raw) :
    latestRoot d = rootOf raw := by
  unfold latestRoot; rw [latestPointer_of_last h]; rfl

theorem version_commit_single (d : Disk) (b : BlockIn) (hv : version d + 1 < 18446744073709551616) :
    version (commitBlock .single .lss d b) = version d + 1 := by
  have h := last_after_single d (version d + 1) b
  unfold commitBlock
  rw [version_of_last h]
  exact heightOf_cidVal _ _ hv

theorem latestRoot_commit_single (d : Disk) (b : BlockIn) : latestRoot (commitBlock .single .lss d b) = b.root := by
  unfold commitBlock
  rw [latestRoot_of_last (last_after_single d _ b)]
  exact rootOf_cidVal _ _

/-! ## runs -/

theorem run_append (sh : Shape) (p : PtrAt) (d : Disk) (a b : List BlockIn) : run sh p d (a ++ b) = run sh p (run sh p d a) b := by
  simp [run, List.foldl_append]

theorem run_prefix (sh : Shape) (p : PtrAt) (bs : List BlockIn) : ∀ d : Disk, ∃ X, run sh p d bs = d ++ X := by
  induction bs with
  | nil => intro d; exact ⟨[], by simp [run]⟩
  | cons b bs ih =>
    intro d
    obtain ⟨X, hX⟩ := ih (commitBlock sh p d b)
    exact ⟨blockBatches sh p (version d + 1) b ++ X, by
      show run sh p (commitBlock sh p d b) bs = _
      rw [hX]; simp [commitBlock]⟩

theorem length_run_single (bs : List BlockIn) : ∀ d : Disk, (run .single .lss d bs).length = d.length + bs.length := by
  induction bs with
  | nil => intro d; simp [run]
  | cons b bs ih =>
    intro d
    show (run .single .lss (commitBlock .single .lss d b) bs).length = _
    rw [ih]; simp [commitBlock, blockBatches]; omega

theorem version_run_single (bs : List BlockIn) : ∀ d : Disk, version d + bs.length < 18446744073709551616 →
    version (run .single .lss d bs) = version d + bs.length := by
  induction bs with
  | nil => intro d _; simp [run]
  | cons b bs ih =>
    intro d h
    simp only [List.length_cons] at h
    show version (run .single .lss (commitBlock .single .lss d b) bs) = _
    have hv := version_commit_single d b (by omega)
    rw [ih _ (by rw [hv]; omega), hv]; simp; omega

theorem version_empty : version [] = 0 := by decide

/-- with one batch per block, the first `j` batches of a run are the run of the first `j` blocks -/
theorem take_run_single (bs : List BlockIn) (j : Nat) :
    (run .single .lss [] bs).take j = run .single .lss [] (bs.take j) := by
  by_cases hj : j ≤ bs.length
  · have hsplit : bs = bs.take j ++ bs.drop j := (List.take_append_drop j bs).symm
    conv => lhs; rw [hsplit, run_append]
    obtain ⟨X, hX⟩ := run_prefix .single .lss (bs.drop j) (run .single .lss [] (bs.take j))
    rw [hX]
    have hl : (run .single .lss [] (bs.take j)).length = j := by
      rw [length_run_single]; simp; omega
    rw [List.take_left' hl]
  · have h1 : bs.take j = bs := List.take_of_length_le (by omega)
    rw [h1, List.take_of_length_le]
    rw [length_run_single]; simp; omega

/-! ## earlier heights are never touched -/

/-- every operation of the batch of block `next` is on a key of version `next` or 2^64-1 -/
theorem batch_versions (next : Nat) (b : BlockIn) :
    ∀ op ∈ cidPart .lss next b ++ smtPart next b ++ statePart next b ++ idxPart next b,
      ∃ u w, opKey op = mkKey u w ∧ (w = next ∨ w = maxVer) := by
  intro op hop
  simp only [List.mem_append, cidPart, List.mem_cons, List.not_mem_nil, or_false, smtPart, idxPart,
    statePart, commitBatch, List.mem_map] at hop
  rcases hop with (((rfl | rfl) | ⟨e, _, rfl⟩) | hst) | (⟨e, _, rfl⟩ | ⟨e, _, rfl⟩)
  · exact ⟨_, _, rfl, Or.inr rfl⟩
  · exact ⟨_, _, rfl, Or.inl rfl⟩
  · exact ⟨_, _, rfl, Or.inl rfl⟩
  · rcases hst with (⟨e, _, rfl⟩ | ⟨e, _, rfl⟩) | hd
    · exact ⟨_, _, rfl, Or.inr rfl⟩
    · exact ⟨_, _, rfl, Or.inl rfl⟩
    · obtain ⟨e, _, rfl⟩ := mem_filterMap_delOf hd
      exact ⟨_, _, rfl, Or.inr rfl⟩
  · exact ⟨_, _, rfl, Or.inl rfl⟩
  · exact ⟨_, _, rfl, Or.inl rfl⟩

/-- committing block `next` leaves every versioned entry below `next` (and below 2^64-1) as it was -/
theorem commit_keeps_older (d : Disk) (b : BlockIn) (u : Bytes) (w : Nat) (hw : w < version d + 1)
    (hv : version d + 1 < maxVer) :
    smGet (dbOf (commitBlock .single .lss d b)) (mkKey u w) = smGet (dbOf d) (mkKey u w) := by
  unfold commitBlock
  simp only [blockBatches]
  rw [dbOf_snoc, smGet_applyBatch (sorted_dbOf d), batchLookup_of_not_key]
  intro op hop
  obtain ⟨u', w', hk, hw'⟩ := batch_versions (version d + 1) b op hop
  rw [hk]
  intro h
  have := (mkKey_inj (by rcases hw' with rfl | rfl <;> omega) (by omega) h).2
  rcases hw' with rfl | rfl <;> omega

/-! ## histories with `Rollback` in the middle -/

/-- the SMT node keys of a block do not collide with a commit-id key (both live under `x/`, as `Root()` is
written; node keys are not of the form `lenPrefix(decimal height)`) -/
def SmtOK (b : BlockIn) : Prop := ∀ e ∈ b.smt, ∀ h : Nat, e.1 ≠ joinLenPrefix [decimal h]

theorem commitIDKey_ne (k : Bytes) (h : Nat) : commitIDKey h ≠ idxPrefix ++ k ∧
    commitIDKey h ≠ lssPrefix ++ k ∧ commitIDKey h ≠ hssPrefix ++ k := by
  unfold commitIDKey
  rw [cidPrefix_eq, idxPrefix_eq, lssPrefix_eq, hssPrefix_eq]
  simp

theorem commitIDKey_ne_nil (h : Nat) : commitIDKey h ≠ [] := by
  unfold commitIDKey; rw [cidPrefix_eq]; simp

/-- the operations after the commit-id record in a block's batch never touch that record -/
theorem rest_not_cid (next : Nat) (b : BlockIn) (hb : SmtOK b) :
    ∀ op ∈ smtPart next b ++ statePart next b ++ idxPart next b,
      opKey op ≠ mkKey (commitIDKey next) next := by
  intro op hop
  simp only [List.mem_append, smtPart, idxPart, statePart, commitBatch, List.mem_map] at hop
  have hne := commitIDKey_ne
  rcases hop with (⟨e, he, rfl⟩ | hst) | (⟨e, _, rfl⟩ | ⟨e, _, rfl⟩)
  · intro h
    have := mkKey_uk_inj h
    unfold commitIDKey at this
    exact hb e he next (List.append_cancel_left this)
  · rcases hst with (⟨e, _, rfl⟩ | ⟨e, _, rfl⟩) | hd
    · intro h; exact (hne e.1 next).2.1 (mkKey_uk_inj h).symm
    · intro h; exact (hne e.1 next).2.2 (mkKey_uk_inj h).symm
    · obtain ⟨e, _, rfl⟩ := mem_filterMap_delOf hd
      intro h; exact (hne e.1 next).2.1 (mkKey_uk_inj h).symm
  · intro h; exact (hne e.1 next).1 (mkKey_uk_inj h).symm
  · intro h; exact (hne e next).1 (mkKey_uk_inj h).symm

/-- a single-batch block commit records the commit id of its height -/
theorem cid_after_single (d : Disk) (next : Nat) (b : BlockIn) (hb : SmtOK b) :
    smGet (dbOf (d ++ blockBatches .single .lss next b)) (mkKey (commitIDKey next) next) = some (cidVal next b.root) := by
  simp only [blockBatches]
  rw [dbOf_snoc, smGet_applyBatch (sorted_dbOf d)]
  have hsplit : cidPart .lss next b ++ smtPart next b ++ statePart next b ++ idxPart next b =
      cidPart .lss next b ++ (smtPart next b ++ statePart next b ++ idxPart next b) := by
    simp
  rw [hsplit, batchLookup_append, batchLookup_of_not_key (rest_not_cid next b hb)]
  simp [batchLookup, cidPart]

/-- what the history has built: the chain of blocks that are the heights `1 … |c|` -/
def specStep (c : List BlockIn) : Ev → List BlockIn
  | .block b => c ++ [b]
  | .rollback t => if 1 ≤ t ∧ t ≤ c.length then c.take t else c

def specRun (c : List BlockIn) (evs : List Ev) : List BlockIn := evs.foldl specStep c

/-- the disk holds the chain `c`: it opens at height `|c|` with the root of the last block, and the commit id
of every height of the chain is on record -/
structure ChainInv (d : Disk) (c : List BlockIn) : Prop where
  ver : version d = c.length
  root : ∀ b, c.getLast? = some b → latestRoot d = b.root
  cid : ∀ h (hh : h < c.length), smGet (dbOf d) (mkKey (commitIDKey (h + 1)) (h + 1)) = some (cidVal (h + 1) c[h].root)

theorem chainInv_empty : ChainInv [] [] :=
  ⟨by decide, (by intro b h; cases h), (by intro h hh; cases hh)⟩

theorem ChainInv.block {d : Disk} {c : List BlockIn} (hi : ChainInv d c) (b : BlockIn) (hb : SmtOK b)
    (hlen : c.length + 1 < maxVer) : ChainInv (commitBlock .single .lss d b) (c ++ [b]) := by
  have hmv : maxVer = 18446744073709551615 := rfl
  refine ⟨?_, ?_, ?_⟩
  · rw [version_commit_single d b (by rw [hi.ver]; omega), hi.ver]; simp
  · intro b' hb'
    simp at hb'
    subst hb'
    exact latestRoot_commit_single d b
  · intro h hh
    simp only [List.length_append, List.length_singleton] at hh
    by_cases hlt : h < c.length
    · rw [commit_keeps_older d b _ _ (by rw [hi.ver]; omega) (by rw [hi.ver]; omega), hi.cid h hlt]
      simp [List.getElem_append_left hlt]
    · have he : h = c.length := by omega
      subst he
      have := cid_after_single d (version d + 1) b hb
      rw [hi.ver] at this
      unfold commitBlock
      rw [hi.ver, this]
      simp

/-- every operation of a rollback batch is on a key whose version is above the target -/
theorem rollback_ops_above (db : DB) (t ver : Nat) (cid : Bytes) (u : Bytes) (w : Nat) (hw : w ≤ t) (ht : t < maxVer) :
    ∀ op ∈ (pruneWindow db (t + 1) ver).1 ++ pruneDels db idxPrefix (t + 1) ver ++ pruneDels db cidPrefix (t + 1) ver ++
        rollbackPatch db t (pruneWindow db (t + 1) ver).2 ++ [.put (mkKey lastPrefix maxVer) cid],
      opKey op ≠ mkKey u w := by
  have hwm : w ≤ maxVer := by omega
  have hdel : ∀ (l : List Entry) (e : Entry),
      e ∈ l.filter (fun e => decide (t + 1 ≤ versionOf e.1) && decide (versionOf e.1 ≤ ver)) → e.1 ≠ mkKey u w := by
    intro l e he h
    have := (List.mem_filter.mp he).2
    rw [h, versionOf_mkKey u hwm] at this
    simp at this
    omega
  have hmax : ∀ u', mkKey u' maxVer ≠ mkKey u w := by
    intro u' h
    have := (mkKey_inj (Nat.le_refl _) hwm h).2
    omega
  intro op hop
  simp only [List.mem_append, List.mem_singleton, pruneWindow, pruneDels, rollbackPatch, List.mem_map] at hop
  rcases hop with (((⟨e, he, rfl⟩ | ⟨e, he, rfl⟩) | ⟨e, he, rfl⟩) | ⟨sk, _, rfl⟩) | rfl
  · exact hdel _ e he
  · exact hdel _ e he
  · exact hdel _ e he
  · show opKey (match (VS.mk db t).getRaw (hssPrefix ++ sk) with
      | some (tb, v) => if tb = deadTomb then BatchOp.del (mkKey (lssPrefix ++ sk) maxVer)
          else BatchOp.put (mkKey (lssPrefix ++ sk) maxVer) (rawAlive v)
      | none => BatchOp.del (mkKey (lssPrefix ++ sk) maxVer)) ≠ _
    cases (VS.mk db t).getRaw (hssPrefix ++ sk) with
    | none => exact hmax _
    | some tv =>
      obtain ⟨tb, v⟩ := tv
      by_cases htb : tb = deadTomb
      · simp only [htb, if_true]; exact hmax _
      · simp only [htb, if_false]; exact hmax _
  · exact hmax _

theorem ChainInv.rollback {d : Disk} {c : List BlockIn} (hi : ChainInv d c) (t : Nat)
    (hlen : c.length < maxVer) : ChainInv (applyEv .single .lss d (.rollback t)) (specStep c (.rollback t)) := by
  have hmv : maxVer = 18446744073709551615 := rfl
  simp only [applyEv, specStep]
  by_cases h0 : t = 0 ∨ t > version d
  · have : rollbackBatch d t = none := by unfold rollbackBatch; simp only [h0, if_true]
    rw [this, if_neg (by rw [hi.ver] at h0; omega)]
    exact hi
  by_cases h1 : t = version d
  · have : rollbackBatch d t = some none := by unfold rollbackBatch; simp only [if_neg h0, if_pos h1]
    rw [this, if_pos (by rw [hi.ver] at h1; omega), List.take_of_length_le (by rw [hi.ver] at h1; omega)]
    exact hi
  have htl : t - 1 < c.length := by rw [hi.ver] at h0; omega
  have ht1 : t - 1 + 1 = t := by omega
  have hcid := hi.cid (t - 1) htl
  rw [ht1] at hcid
  have hget : (VS.mk (dbOf d) t).get (commitIDKey t) = some (be8 t ++ c[t - 1].root) := by
    unfold VS.get
    rw [getRaw_present (sorted_dbOf d) (commitIDKey_ne_nil t) (by rw [hi.ver] at h0; omega) hcid]
    simp [cidVal, rawAlive, parseVal, aliveTomb, deadTomb]
  have hb : rollbackBatch d t = some (some ((pruneWindow (dbOf d) (t + 1) (version d)).1 ++
      pruneDels (dbOf d) idxPrefix (t + 1) (version d) ++ pruneDels (dbOf d) cidPrefix (t + 1) (version d) ++
      rollbackPatch (dbOf d) t (pruneWindow (dbOf d) (t + 1) (version d)).2 ++
      [.put (mkKey lastPrefix maxVer) (cidVal t c[t - 1].root)])) := by
    unfold rollbackBatch
    simp only [if_neg h0, if_neg h1, hget]
    rfl
  rw [hb, if_pos (by rw [hi.ver] at h0; omega)]
  simp only
  have hlast : smGet (dbOf (d ++ [(pruneWindow (dbOf d) (t + 1) (version d)).1 ++
      pruneDels (dbOf d) idxPrefix (t + 1) (version d) ++ pruneDels (dbOf d) cidPrefix (t + 1) (version d) ++
      rollbackPatch (dbOf d) t (pruneWindow (dbOf d) (t + 1) (version d)).2 ++
      [.put (mkKey lastPrefix maxVer) (cidVal t c[t - 1].root)]])) (mkKey lastPrefix maxVer) = some (cidVal t c[t - 1].root) := by
    rw [dbOf_snoc, smGet_applyBatch (sorted_dbOf d), batchLookup_append]
    simp [batchLookup]
  have htlt : t < 18446744073709551616 := by rw [hi.ver] at h0; omega
  refine ⟨?_, ?_, ?_⟩
  · rw [version_of_last hlast, heightOf_cidVal _ _ htlt]
    simp; rw [hi.ver] at h0; omega
  · intro b hbl
    rw [latestRoot_of_last hlast, rootOf_cidVal]
    have : (c.take t).getLast? = some c[t - 1] := by
      rw [List.getLast?_eq_getElem?]
      simp only [List.length_take]
      have : min t c.length = t := by omega
      rw [this, List.getElem?_take_of_lt (by omega), List.getElem?_eq_getElem htl]
    rw [this] at hbl
    cases hbl; rfl
  · intro h hh
    simp only [List.length_take] at hh
    have hht : h < t := by omega
    have hhc : h < c.length := by omega
    rw [dbOf_snoc, smGet_applyBatch (sorted_dbOf d), batchLookup_of_not_key
      (rollback_ops_above (dbOf d) t (version d) (cidVal t c[t - 1].root) _ (h + 1) (by omega) (by rw [hi.ver] at h0; omega))]
    rw [hi.cid h hhc]
    simp [List.getElem_take]

theorem specStep_length (c : List BlockIn) (ev : Ev) : (specStep c ev).length ≤ c.length + 1 := by
  cases ev with
  | block b => simp [specStep]
  | rollback t =>
    simp only [specStep]
    split
    · rw [List.length_take]; omega
    · omega

/-- **`reopen_height`, the invariant form** — after any history of block commits and rollbacks, with the
latest-commit pointer written at the reserved version, the disk holds exactly the chain the history built -/
theorem ChainInv.run (evs : List Ev) : ∀ (d : Disk) (c : List BlockIn), ChainInv d c →
    (∀ b, Ev.block b ∈ evs → SmtOK b) → c.length + evs.length < maxVer →
    ChainInv (runEv .single .lss d evs) (specRun c evs) := by
  induction evs with
  | nil => intro d c hi _ _; exact hi
  | cons ev evs ih =>
    intro d c hi hok hlen
    simp only [List.length_cons] at hlen
    have hl := specStep_length c ev
    apply ih (applyEv .single .lss d ev) (specStep c ev)
    · cases ev with
      | block b => exact hi.block b (hok b (List.mem_cons_self ..)) (by omega)
      | rollback t => exact hi.rollback t (by omega)
    · intro b hb; exact hok b (List.mem_cons_of_mem _ hb)
    · omega

/-! the crash prefixes of a history -/

theorem runEv_append (sh : Shape) (p : PtrAt) (d : Disk) (a b : List Ev) :
    runEv sh p d (a ++ b) = runEv sh p (runEv sh p d a) b := by
  simp [runEv, List.foldl_append]

theorem applyEv_single (p : PtrAt) (d : Disk) (ev : Ev) :
    applyEv .single p d ev = d ∨ ∃ batch, applyEv .single p d ev = d ++ [batch] := by
  cases ev with
  | block b => right; exact ⟨_, rfl⟩
  | rollback t =>
    simp only [applyEv]
    cases rollbackBatch d t with
    | none => left; rfl
    | some o =>
      cases o with
      | none => left; rfl
      | some batch => right; exact ⟨batch, rfl⟩

theorem runEv_prefix (p : PtrAt) (evs : List Ev) : ∀ d : Disk, ∃ X, runEv .single p d evs = d ++ X := by
  induction evs with
  | nil => intro d; exact ⟨[], by simp [runEv]⟩
  | cons ev evs ih =>
    intro d
    obtain ⟨X, hX⟩ := ih (applyEv .single p d ev)
    rcases applyEv_single p d ev with h | ⟨batch, h⟩
    · exact ⟨X, by show runEv .single p (applyEv .single p d ev) evs = _; rw [hX, h]⟩
    · exact ⟨[batch] ++ X, by show runEv .single p (applyEv .single p d ev) evs = _; rw [hX, h]; simp⟩

/-- with one batch per block commit and per rollback, every batch prefix of a history's disk (no shorter
than where it started) is the disk of a prefix of the history -/
theorem take_runEv_single (p : PtrAt) (evs : List Ev) : ∀ (d : Disk) (j : Nat), d.length ≤ j →
    j ≤ (runEv .single p d evs).length →
    ∃ i, i ≤ evs.length ∧ (runEv .single p d evs).take j = runEv .single p d (evs.take i) := by
  induction evs with
  | nil =>
    intro d j h1 h2
    exact ⟨0, Nat.le_refl _, by simp only [runEv, List.foldl_nil, List.take_nil] at h2 ⊢; exact List.take_of_length_le h1⟩
  | cons ev evs ih =>
    intro d j h1 h2
    by_cases hj : (applyEv .single p d ev).length ≤ j
    · obtain ⟨i, hi, he⟩ := ih (applyEv .single p d ev) j hj h2
      exact ⟨i + 1, by simp; omega, by simpa [runEv] using he⟩
    · refine ⟨0, Nat.zero_le _, ?_⟩
      rcases applyEv_single p d ev with h | ⟨batch, h⟩
      · rw [h] at hj; omega
      · rw [h] at hj
        simp at hj
        have hjd : j = d.length := by omega
        obtain ⟨X, hX⟩ := runEv_prefix p evs (applyEv .single p d ev)
        show (runEv .single p (applyEv .single p d ev) evs).take j = _
        rw [hX, h, List.append_assoc, hjd, List.take_left' rfl]
        simp [runEv]

/-! ## nested transactions -/

/-- the last operation a list of writes makes on `k` -/
def lastWrite : List (Bytes × TOp) → Bytes → Option TOp
  | [], _ => none
  | e :: l, k =>
    match lastWrite l k with
    | some x => some x
    | none => if k = e.1 then some e.2 else none

theorem smGet_writeAll (ws : List (Bytes × TOp)) : ∀ (acc : Overlay) (k : Bytes),
    smGet (writeAll acc ws) k = match lastWrite ws k with
      | some x => some x
      | none => smGet acc k := by
  induction ws with
  | nil => intro acc k; rfl
  | cons e ws ih =>
    intro acc k
    show smGet (writeAll (smSet acc e.1 e.2) ws) k = _
    rw [ih, smGet_smSet]
    simp only [lastWrite]
    cases lastWrite ws k with
    | some x => rfl
    | none => by_cases h : k = e.1 <;> simp [h]

theorem sorted_writeAll (ws : List (Bytes × TOp)) : ∀ (acc : Overlay), SSorted acc → SSorted (writeAll acc ws) := by
  induction ws with
  | nil => intro acc h; exact h
  | cons e ws ih => intro acc h; exact ih _ (sorted_smSet h e.1 e.2)

theorem sorted_applyTx (nf : NestedFlush) (acc : Overlay × Overlay) (tx : TxIn) (h : SSorted acc.1 ∧ SSorted acc.2) :
    SSorted (applyTx nf acc tx).1 ∧ SSorted (applyTx nf acc tx).2 := by
  unfold applyTx
  by_cases hf : tx.flush = true
  · rw [if_pos hf]
    cases nf
    · exact ⟨sorted_writeAll _ _ h.1, sorted_writeAll _ _ h.2⟩
    · exact ⟨sorted_writeAll _ _ h.1, h.2⟩
  · rw [if_neg hf]; exact h

theorem sorted_foldl_applyTx (nf : NestedFlush) (txs : List TxIn) : ∀ (acc : Overlay × Overlay),
    SSorted acc.1 ∧ SSorted acc.2 →
    SSorted (txs.foldl (applyTx nf) acc).1 ∧ SSorted (txs.foldl (applyTx nf) acc).2 := by
  induction txs with
  | nil => intro acc h; exact h
  | cons tx txs ih => intro acc h; exact ih _ (sorted_applyTx nf acc tx h)

/-- **a flushed transaction's writes reach the block — state and index alike** (with `Flush` handing both
nested transactions to the parent): whatever the block's own writes and the earlier transactions were, the
last operation the transaction made on a state key is the block's pending operation on that key, an index
entry it wrote last is among the block's index entries, an index key it deleted last among the block's index
deletions. `crash_prefix` then says the block is on disk entirely or not at all. -/
theorem flushed_tx_reaches_block (own : BlockIn) (hown : SSorted own.ops) (txs : List TxIn) (tx : TxIn) (hf : tx.flush = true) :
    let b := blockOfTxs .both own (txs ++ [tx])
    (∀ k op, lastWrite tx.ops k = some op → smGet b.ops k = some op) ∧
    (∀ k v, lastWrite tx.idx k = some (.set v) → (k, v) ∈ b.idx) ∧
    (∀ k, lastWrite tx.idx k = some .del → k ∈ b.idxDel) := by
  simp only [blockOfTxs, pendingOfTxs, List.foldl_append, List.foldl_cons, List.foldl_nil]
  generalize hacc : txs.foldl (applyTx .both) (own.ops, writeAll [] (own.idx.map (fun e => (e.1, TOp.set e.2)) ++ own.idxDel.map (fun k => (k, TOp.del)))) = acc
  have hs : SSorted acc.1 ∧ SSorted acc.2 := by
    rw [← hacc]
    exact sorted_foldl_applyTx .both txs _ ⟨hown, sorted_writeAll _ _ List.Pairwise.nil⟩
  have hap : applyTx .both acc tx = (writeAll acc.1 tx.ops, writeAll acc.2 tx.idx) := by
    unfold applyTx; rw [if_pos hf]
  rw [hap]
  refine ⟨?_, ?_, ?_⟩
  · intro k op h
    simp only
    rw [smGet_writeAll, h]
  · intro k v h
    simp only
    have hg : smGet (writeAll acc.2 tx.idx) k = some (.set v) := by rw [smGet_writeAll, h]
    have hm := (smGet_eq_some_iff (sorted_writeAll _ _ hs.2) _ _).mp hg
    exact List.mem_filterMap.mpr ⟨_, hm, rfl⟩
  · intro k h
    simp only
    have hg : smGet (writeAll acc.2 tx.idx) k = some .del := by rw [smGet_writeAll, h]
    have hm := (smGet_eq_some_iff (sorted_writeAll _ _ hs.2) _ _).mp hg
    exact List.mem_filterMap.mpr ⟨_, hm, rfl⟩

/-- a discarded transaction leaves no trace, in either partition -/
theorem discarded_tx_vanishes (nf : NestedFlush) (own : BlockIn) (txs : List TxIn) (tx : TxIn) (hf : tx.flush = false)
    (rest : List TxIn) : blockOfTxs nf own (txs ++ tx :: rest) = blockOfTxs nf own (txs ++ rest) := by
  simp only [blockOfTxs, pendingOfTxs, List.foldl_append, List.foldl_cons]
  have : ∀ acc, applyTx nf acc tx = acc := by intro acc; unfold applyTx; rw [if_neg (by simp [hf])]
  rw [this]

end Canopy.Crash
