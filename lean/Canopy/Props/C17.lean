import Canopy.Proof.Transport
import Canopy.Proof.Handshake
/-!
# C17 — encrypted transport

Part 1 (this section): the framing of `p2p.EncryptedConn` (`Canopy.Transport`, model in
`Model/Transport.lean`; constants and `incrementNonce` are generated from the Go source on every run).
Part 2: the handshake in the symbolic (Dolev-Yao) model (`Canopy.Handshake`).

Assumption carried by the *shape of the model*, not by an axiom: ChaCha20-Poly1305 is an ideal AEAD —
`Wire.sealed key nonce plain` is an opaque constructor and `openWire` succeeds only on an exact
(key, nonce) match; whoever lacks the key can only rearrange honest frames, fabricate non-ciphertexts,
truncate, or replay frames of other keys (`AttackerItem`).
-/
namespace Canopy.C17
open Canopy Canopy.Transport
open Canopy.Gen.Transport (src_Write src_Read src_checkUnread src_holdUnread src_newInternalState incrementNonce poly1305TagSize)

/-! ## structural facts the hand model relies on (regenerated from /repo on every run) -/

/-- frame geometry: header 4, data ≤ 1024, plaintext frame = header + data, wire frame = frame + tag -/
theorem frame_geometry : frameSize = headerSize + dataMax ∧ encFrameSize = frameSize + poly1305TagSize ∧
    0 < dataMax ∧ dataMax < 2 ^ 32 ∧ headerSize = 4 := by decide

/-- the chunking loop, `Read`, `checkUnread`, `holdUnread` are the ones `chunks` / `Reader.read` were written from -/
theorem src_pinned :
    src_Write = "if c.send.aead == nil { return c.conn.Write(data) }; c.send.Lock(); defer c.send.Unlock(); chunkSize, chunk := 0, []byte(nil); for dataSize := len(data); dataSize > 0; dataSize = len(data) { cipherTextBuffer, plainTextBuffer := pool.Get(crypto.EncryptedFrameSize), pool.Get(crypto.FrameSize); if dataSize < crypto.MaxDataSize { chunk = data; data = nil } else { chunk = data[:crypto.MaxDataSize]; data = data[crypto.MaxDataSize:] }; chunkSize = len(chunk); binary.LittleEndian.PutUint32(plainTextBuffer, uint32(chunkSize)); copy(plainTextBuffer[crypto.LengthHeaderSize:], chunk); c.send.aead.Seal(cipherTextBuffer[:0], c.send.nonce[:], plainTextBuffer, nil); incrementNonce(c.send.nonce); if _, er := c.conn.Write(cipherTextBuffer); er != nil { return 0, ErrFailedWrite(er) }; n += chunkSize; pool.Put(cipherTextBuffer); pool.Put(plainTextBuffer) }; return" ∧
    src_Read = "if c.receive.aead == nil { return c.conn.Read(data) }; c.receive.Lock(); defer c.receive.Unlock(); if bzRead, hadUnread := c.checkUnread(data); hadUnread { return bzRead, nil }; cipherTextBuffer, plainTextBuffer := pool.Get(crypto.EncryptedFrameSize), pool.Get(crypto.FrameSize); defer func(...){pool.Put(plainTextBuffer); pool.Put(cipherTextBuffer)}(); if _, er := io.ReadFull(c.conn, cipherTextBuffer); er != nil { return 0, er }; if _, er := c.receive.aead.Open(plainTextBuffer[:0], c.receive.nonce[:], cipherTextBuffer, nil); er != nil { return n, ErrConnDecryptFailed(er) }; incrementNonce(c.receive.nonce); chunkLength := binary.LittleEndian.Uint32(plainTextBuffer); if chunkLength > crypto.MaxDataSize { return 0, ErrChunkLargerThanMax() }; chunk := plainTextBuffer[crypto.LengthHeaderSize:crypto.LengthHeaderSize + chunkLength]; n = copy(data, chunk); c.holdUnread(n, chunk); return" ∧
    src_checkUnread = "if len(c.receive.unread) > 0 { n := copy(data, c.receive.unread); c.receive.unread = c.receive.unread[n:]; return n, true }; return 0, false" ∧
    src_holdUnread = "if bytesRead < len(chunk) { c.receive.unread = make([]byte, len(chunk) - bytesRead); copy(c.receive.unread, chunk[bytesRead:]) }; return" :=
  ⟨rfl, rfl, rfl, rfl⟩

/-- both ends start their counters at the all-zero nonce -/
theorem src_nonce_start : src_newInternalState = "return aeadState{Mutex: sync.Mutex{}, aead: aead, nonce: new([N]byte)}" := by decide

/-! ## the nonce counter -/

/-- below 2^64-1 the generated `incrementNonce` is +1, so the nonces of fewer than 2^64-1 frames are pairwise distinct -/
theorem nonces_fresh (n0 : UInt64) (len : Nat) (h : n0.toNat + len ≤ 18446744073709551615) : Fresh n0 len :=
  fresh_of_bound n0 len h

/-- **nonce_never_repeats**: the generated `incrementNonce` is injective on counters below 2^64-1, and
a run of frames that stays below 2^64-1 never uses a nonce twice (strictly increasing counters). This
is the obligation a changed wrap-around guard breaks (e.g. a guard at 2^32-1 makes
`incrementNonce 4294967295 = 1`). -/
theorem nonce_never_repeats :
    (∀ a b : UInt64, a.toNat < 18446744073709551615 → b.toNat < 18446744073709551615 →
      incrementNonce a = incrementNonce b → a = b) ∧
    (∀ (n0 : UInt64) (i j : Nat), n0.toNat + i ≤ 18446744073709551615 → n0.toNat + j ≤ 18446744073709551615 →
      nonceAt n0 i = nonceAt n0 j → i = j) ∧
    (∀ c : UInt64, c.toNat < 18446744073709551615 → (incrementNonce c).toNat = c.toNat + 1) := by
  refine ⟨fun a b ha hb h => ?_, fun n0 i j hi hj h => nonceAt_inj n0 i j hi hj h, inc_toNat⟩
  have := congrArg UInt64.toNat h
  rw [inc_toNat a ha, inc_toNat b hb] at this
  exact UInt64.toNat_inj.mp (by omega)

/-- the counter passes 2^32-1 and 2^63 like any other value -/
theorem nonce_crosses_inner_boundaries :
    incrementNonce 4294967295 = 4294967296 ∧ incrementNonce 9223372036854775807 = 9223372036854775808 := by decide

/-- observation (outside the statement; the code comments it as "should never happen"): at 2^64-1 the
counter wraps to 1, i.e. the nonce of the second frame would be used again -/
theorem nonce_wrap_reuses : incrementNonce 18446744073709551615 = incrementNonce 0 := by decide

/-! ## stream_exact -/

/-- **stream_exact.** On an established direction, for EVERY interleaving of writes (any sizes,
including 0, 1, dataMax-1, dataMax, dataMax+1, …; any padding bytes left in the pooled buffer) and
reads (any buffer sizes, including 0): no read errs, the bytes the reads return are, concatenated, a
prefix of the bytes written, and they are ALL of them once no frame is in flight and nothing is held back. -/
theorem stream_exact (key : Nat) (ops : List Op) :
    (∀ r ∈ (run (Dir.init key) ops).1, ∀ e, r ≠ .err e) ∧
    delivered (run (Dir.init key) ops).1 <+: written ops ∧
    ((run (Dir.init key) ops).2.ch.wire = [] → (run (Dir.init key) ops).2.r.unread = [] →
      delivered (run (Dir.init key) ops).1 = written ops) := by
  have h := run_inv (Inv.init key) ops
  simp only [List.nil_append] at h
  exact ⟨h.2, h.1.prefix, fun hw hu => h.1.complete hw hu⟩

/-- … and the stream never starves: after any such history, a read with a non-empty buffer returns at
least one byte, unless everything written has already been delivered (then, and only then, it blocks). -/
theorem stream_live (key : Nat) (ops : List Op) (n : Nat) (hn : 1 ≤ n) :
    (((run (Dir.init key) ops).2.read n).1 = .blocked ∧ delivered (run (Dir.init key) ops).1 = written ops) ∨
    ∃ b, ((run (Dir.init key) ops).2.read n).1 = .data b ∧ b ≠ [] := by
  have h := (run_inv (Inv.init key) ops).1
  simp only [List.nil_append] at h
  exact h.read_progress n hn

/-- frames per write: ⌈len / dataMax⌉ (so an empty write sends nothing) -/
theorem frames_per_write (d : Bytes) : (chunks d).length = (d.length + dataMax - 1) / dataMax := chunks_length d

/-- non-vacuity / geometry of one frame: any chunk of at most `dataMax` bytes with any padding makes a
frame of exactly `frameSize` bytes from which `Read`'s header parsing recovers the chunk -/
example (c junk : Bytes) (h : c.length ≤ dataMax) :
    (mkFrame c junk).length = frameSize ∧ parseFrame (mkFrame c junk) = .ok c :=
  ⟨mkFrame_length c junk h, parseFrame_mkFrame c junk h⟩

/-! ## tamper_detected -/

/-- the honest frames of a fresh connection's writes `ds` (each `(padding, data)`) -/
abbrev honest (key : Nat) (ds : List (Bytes × Bytes)) : List Wire := (writeMany ⟨key, 0⟩ ds).2

/-- the plaintext carried by the first `k` honest frames -/
abbrev plainOfFirst (ds : List (Bytes × Bytes)) (k : Nat) : Bytes := ((chunksOf ds).take k).flatten

/-- every schedule of frame-level faults (modify, reorder, duplicate, replay, drop, inject, truncate,
close) applied to honest frames in flight yields a wire of `AttackerItem`s — the hypothesis of the
theorems below is therefore met by every fault sequence -/
theorem faults_are_attacker_wire (key : Nat) (ds : List (Bytes × Bytes)) (fs : List Fault) :
    ∀ w ∈ (applyFaults (honest key ds) ⟨honest key ds, false⟩ fs).wire, AttackerItem key (honest key ds) w :=
  applyFaults_attacker key _ fs _ (fun _ hw => Or.inl hw)

/-- **tamper_detected (safety, unconditional on the caller).** Under the ideal AEAD and fewer than
2^64-1 frames: whatever an intermediary without the key puts on the wire (`W`), and even if the
caller keeps reading after errors, the bytes ever returned by reads are a prefix of the bytes written.
Nothing else is ever delivered. -/
theorem tamper_never_misdelivers (key : Nat) (ds : List (Bytes × Bytes))
    (hlen : (chunksOf ds).length ≤ 18446744073709551615)
    (W : List Wire) (hW : ∀ w ∈ W, AttackerItem key (honest key ds) w) (closed : Bool) (ns : List Nat) :
    delivered (readMany ⟨key, 0, []⟩ ⟨W, closed⟩ ns).1 <+: (ds.map (·.2)).flatten := by
  have hS := (writeMany_sealed ⟨key, 0⟩ ds).1
  have hF : Fresh 0 (chunksOf ds).length := fresh_of_bound 0 _ (by simpa using hlen)
  have hR : RInv key 0 (chunksOf ds) 0 ⟨key, 0, []⟩ [] := ⟨rfl, rfl, Nat.zero_le _, rfl⟩
  obtain ⟨j', h⟩ := readMany_inv hS hF hR ⟨W, closed⟩ hW ns
  simp only [List.nil_append] at h
  rw [← chunksOf_flatten]
  exact h.prefix

/-- **tamper_detected (exactness).** Let `k` be the length of the longest prefix of the wire that is
the unmodified, in-order honest frame sequence. A caller that stops at the first error (as `MultiConn`
and the handshake do) receives, for every choice of buffer sizes,
(1) only bytes of the plaintext of those `k` frames, in order;
(2) an error only after ALL of that plaintext has been delivered — never instead of intact data;
(3) never a wait at the point of deviation: if the wire continues after the intact prefix, the read
    that reaches it returns an error (it cannot block, and by (1) it cannot return data);
(4) with non-empty buffers, enough reads do reach that error. -/
theorem tamper_detected (key : Nat) (ds : List (Bytes × Bytes))
    (hlen : (chunksOf ds).length ≤ 18446744073709551615)
    (W : List Wire) (hW : ∀ w ∈ W, AttackerItem key (honest key ds) w) (closed : Bool) (ns : List Nat) :
    let k := lcp W (honest key ds)
    let out := (readUntilErr ⟨key, 0, []⟩ ⟨W, closed⟩ ns).1
    delivered out <+: plainOfFirst ds k ∧
    (∀ e, .err e ∈ out → delivered out = plainOfFirst ds k) ∧
    (k < W.length → .blocked ∉ out) ∧
    (k < W.length → (∀ n ∈ ns, 1 ≤ n) → (plainOfFirst ds k).length < ns.length → ∃ e, .err e ∈ out) := by
  intro k out
  have hS := (writeMany_sealed ⟨key, 0⟩ ds).1
  have hF : Fresh 0 (chunksOf ds).length := fresh_of_bound 0 _ (by simpa using hlen)
  have hR : RInv key 0 (chunksOf ds) 0 ⟨key, 0, []⟩ [] := ⟨rfl, rfl, Nat.zero_le _, rfl⟩
  have hk : k ≤ (chunksOf ds).length := by rw [← hS.length_eq]; exact lcp_le_right _ _
  have hsplit := lcp_take W (honest key ds)
  have hA' : ∀ w ∈ W.drop k, AttackerItem key (honest key ds) w := fun w hw => hW w (List.mem_of_mem_drop hw)
  have hdev := lcp_dev W (honest key ds)
  have hne : k < W.length → W.drop k ≠ [] := fun h he => by
    have := congrArg List.length he
    simp only [List.length_drop, List.length_nil] at this; omega
  have hwire : W = ((honest key ds).take k).drop 0 ++ W.drop k := by simpa using hsplit
  have spec := readUntilErr_spec hS hF k hk (W.drop k) hA' hdev closed ns hR (Nat.zero_le _)
  rw [← hwire] at spec
  simp only [List.nil_append] at spec
  obtain ⟨⟨j', hj', hR'⟩, h2, h3⟩ := spec
  refine ⟨?_, h2, fun h => h3 (hne h), fun h hpos hl => ?_⟩
  · have := hR'.acc
    exact List.IsPrefix.trans ⟨_, this⟩ (by
      have hm : ((chunksOf ds).take k) = ((chunksOf ds).take k).take j' ++ ((chunksOf ds).take k).drop j' :=
        (List.take_append_drop _ _).symm
      rw [List.take_take, Nat.min_eq_left hj'] at hm
      exact ⟨(((chunksOf ds).take k).drop j').flatten, by rw [← List.flatten_append, ← hm]⟩)
  · have := readUntilErr_errs hS hF k hk (W.drop k) hA' hdev (hne h) closed ns hpos hR (Nat.zero_le _)
      (by simpa using hl)
    rwa [← hwire] at this

/-! ### the handshake's own frames are part of the attacker's wire

The encrypted part of the handshake (signature frame, meta frame) uses the first nonces of each
direction; the session continues with the same states. An on-path attacker who recorded those frames
can splice them into the session — they are just OLD frames of the same stream, covered by the
theorems below exactly like any other replay. -/

/-- GENERATED FACT: `NewHandshake` returns the very `EncryptedConn` whose AEAD states carried the encrypted
handshake messages (one `&EncryptedConn{…}`, two `newInternalState`, bare `return` of the named result),
and there are two such messages per direction. When false, session frame #i would reuse key and nonce
of handshake frame #i; the theorems below then no longer describe the code and the Go oracle
(`C17:handshake-frame-replayed-as-data`) supplies the replay. -/
theorem session_keeps_handshake_state :
    Gen.Transport.sessionKeepsHandshakeState = true ∧ Gen.Transport.handshakeFrames = 2 := by decide

/-- **stream_exact**, for a session that starts after `k` handshake frames -/
theorem stream_exact_after_handshake (key k : Nat) (ops : List Op) :
    (∀ r ∈ (run (Dir.afterHandshake key k) ops).1, ∀ e, r ≠ .err e) ∧
    delivered (run (Dir.afterHandshake key k) ops).1 <+: written ops ∧
    ((run (Dir.afterHandshake key k) ops).2.ch.wire = [] → (run (Dir.afterHandshake key k) ops).2.r.unread = [] →
      delivered (run (Dir.afterHandshake key k) ops).1 = written ops) := by
  have h := run_inv (Inv.afterHandshake key k) ops
  simp only [List.nil_append] at h
  exact ⟨h.2, h.1.prefix, fun hw hu => h.1.complete hw hu⟩

/-- **tamper_never_misdelivers**, session after handshake: `hs` are the writes of the encrypted handshake
(already consumed by the reader), `ds` the session's writes; the attacker's wire may contain ANY honest
frame of the connection, handshake frames included. Whatever is delivered is a prefix of the SESSION's bytes. -/
theorem tamper_never_misdelivers_after_handshake (key : Nat) (hs ds : List (Bytes × Bytes))
    (hlen : (chunksOf (hs ++ ds)).length ≤ 18446744073709551615)
    (W : List Wire) (hW : ∀ w ∈ W, AttackerItem key (honest key (hs ++ ds)) w) (closed : Bool) (ns : List Nat) :
    delivered (readMany ⟨key, nonceAt 0 (chunksOf hs).length, []⟩ ⟨W, closed⟩ ns).1 <+: (ds.map (·.2)).flatten := by
  have hS := (writeMany_sealed ⟨key, 0⟩ (hs ++ ds)).1
  have hF : Fresh 0 (chunksOf (hs ++ ds)).length := fresh_of_bound 0 _ (by simpa using hlen)
  obtain ⟨j', h⟩ := readMany_inv hS hF (RInv.session key hs ds) ⟨W, closed⟩ hW ns
  have hp := h.prefix
  rw [chunksOf_append, List.flatten_append, List.prefix_append_right_inj] at hp
  rwa [chunksOf_flatten] at hp

/-- **tamper_detected**, session after handshake: with `k` the length of the longest prefix of the wire
that is the session's own unmodified in-order frame sequence, a caller that stops at the first error
receives only the plaintext of those `k` session frames, an error only after all of it, and never a
wait at the deviation — in particular a recorded handshake frame at ANY session position is an error. -/
theorem tamper_detected_after_handshake (key : Nat) (hs ds : List (Bytes × Bytes))
    (hlen : (chunksOf (hs ++ ds)).length ≤ 18446744073709551615)
    (W : List Wire) (hW : ∀ w ∈ W, AttackerItem key (honest key (hs ++ ds)) w) (closed : Bool) (ns : List Nat) :
    let k0 := (chunksOf hs).length
    let k := lcp W ((honest key (hs ++ ds)).drop k0)
    let out := (readUntilErr ⟨key, nonceAt 0 k0, []⟩ ⟨W, closed⟩ ns).1
    delivered out <+: plainOfFirst ds k ∧
    (∀ e, .err e ∈ out → delivered out = plainOfFirst ds k) ∧
    (k < W.length → .blocked ∉ out) := by
  intro k0 k out
  have hS := (writeMany_sealed ⟨key, 0⟩ (hs ++ ds)).1
  have hF : Fresh 0 (chunksOf (hs ++ ds)).length := fresh_of_bound 0 _ (by simpa using hlen)
  have hR := RInv.session key hs ds
  have hHl := hS.length_eq
  have hk : k0 + k ≤ (chunksOf (hs ++ ds)).length := by
    have := lcp_le_right W ((honest key (hs ++ ds)).drop k0)
    simp only [List.length_drop] at this
    have h0 : k0 ≤ (chunksOf (hs ++ ds)).length := by simp [k0, chunksOf_append]
    have hHl' : (honest key (hs ++ ds)).length = (chunksOf (hs ++ ds)).length := hHl
    rw [hHl'] at this
    omega
  have hsplit := lcp_take W ((honest key (hs ++ ds)).drop k0)
  have hA' : ∀ w ∈ W.drop k, AttackerItem key (honest key (hs ++ ds)) w := fun w hw => hW w (List.mem_of_mem_drop hw)
  have hdev : ∀ w, (W.drop k).head? = some w → (honest key (hs ++ ds))[k0 + k]? ≠ some w := by
    intro w hw
    have := lcp_dev W ((honest key (hs ++ ds)).drop k0) w hw
    rwa [List.getElem?_drop] at this
  have hne : k < W.length → W.drop k ≠ [] := fun h he => by
    have := congrArg List.length he
    simp only [List.length_drop, List.length_nil] at this; omega
  have hwire : W = ((honest key (hs ++ ds)).take (k0 + k)).drop k0 ++ W.drop k := by
    rw [List.drop_take, Nat.add_sub_cancel_left]; exact hsplit
  have spec := readUntilErr_spec hS hF (k0 + k) hk (W.drop k) hA' hdev closed ns hR (Nat.le_add_right _ _)
  rw [← hwire] at spec
  obtain ⟨⟨j', hj', hR'⟩, h2, h3⟩ := spec
  have htake := take_session hs ds k
  refine ⟨?_, ?_, fun h => h3 (hne h)⟩
  · -- delivered so far, after the handshake bytes, stays within the first k session frames
    have hp : (chunksOf hs).flatten ++ delivered out <+: ((chunksOf (hs ++ ds)).take (k0 + k)).flatten := by
      refine List.IsPrefix.trans ⟨_, hR'.acc⟩ ?_
      have hm : ((chunksOf (hs ++ ds)).take (k0 + k)) = ((chunksOf (hs ++ ds)).take (k0 + k)).take j' ++ ((chunksOf (hs ++ ds)).take (k0 + k)).drop j' :=
        (List.take_append_drop _ _).symm
      rw [List.take_take, Nat.min_eq_left hj'] at hm
      exact ⟨(((chunksOf (hs ++ ds)).take (k0 + k)).drop j').flatten, by rw [← List.flatten_append, ← hm]⟩
    rw [htake, List.prefix_append_right_inj] at hp
    exact hp
  · intro e he
    have := h2 e he
    rw [htake] at this
    exact List.append_cancel_left this

/-- non-vacuity of `tamper_detected`: an intermediary flips a bit in the second of three frames; the
hypotheses hold (`faults_are_attacker_wire`), the intact prefix is exactly one frame long. -/
example : lcp [Wire.sealed 7 0 [1], .garbage 0, .sealed 7 2 [3]] [Wire.sealed 7 0 [1], .sealed 7 1 [2], .sealed 7 2 [3]] = 1 := by
  decide


/-! # Part 2 — the handshake in the symbolic (Dolev-Yao) model

Model: `Model/Handshake.lean`. The cryptographic assumptions are the shape of the term algebra and of
the attacker's deduction rules `DY` (symbolic DH, one-way injective KDF, unforgeable signatures, ideal
AEAD); the protocol assumptions are the two proof fields of `World` (honest ephemeral keys are secret
and fresh). No axioms.
-/
section Handshake
open Canopy.Handshake Canopy.Handshake.Term

/-- the source facts `Party.finish` / `sendKey` / `recvKey` / `chal` were written from: which end takes
which HKDF half, the HKDF input (the DH secret ONLY — no identity, no role, no transcript), and the
statement sequence of `NewHandshake` (without the reflection guard, reported separately below) -/
theorem handshake_src_pinned :
    Gen.Transport.src_keyAssign = "if bytes.Compare(ePub, ePeerPub) < 0 { getTwoSecretsFromBuffer(buffer, receiveSecret, sendSecret) } else { getTwoSecretsFromBuffer(buffer, sendSecret, receiveSecret) }" ∧
    Gen.Transport.src_hkdfCall = "hkdf.New(Hasher, dhSecret, nil, nil)" ∧
    Gen.Transport.src_NewHandshake_core = "tempPrivateKey, _ := crypto.NewEd25519PrivateKey(); tempPublicKey := tempPrivateKey.PublicKey().Bytes(); encryptedConn = &EncryptedConn{conn: conn}; peerTempPublicKey, e := keySwap(encryptedConn, tempPublicKey, handshakeTimeout); if e != nil { return }; if crypto.PubIsBlacklisted(peerTempPublicKey) { return nil, ErrIsBlacklisted() }; secret, err := crypto.SharedSecret(peerTempPublicKey, tempPrivateKey.Bytes()); if err != nil { return nil, ErrFailedDiffieHellman(err) }; sendAEAD, receiveAEAD, challenge, err := crypto.HKDFSecretsAndChallenge(secret, tempPublicKey, peerTempPublicKey); if err != nil { return nil, ErrFailedHKDF(err) }; encryptedConn.receive = newInternalState(receiveAEAD); encryptedConn.send = newInternalState(sendAEAD); peerSig, err := signatureSwap(encryptedConn, &lib.Signature{PublicKey: privateKey.PublicKey().Bytes(), Signature: privateKey.Sign(challenge[:])}, handshakeTimeout); if err != nil { return nil, ErrFailedSignatureSwap(err) }; peerPublicKey, err := crypto.NewPublicKeyFromBytes(peerSig.PublicKey); if err != nil { return nil, ErrInvalidPublicKey(err) }; if !peerPublicKey.VerifyBytes(challenge[:], peerSig.Signature) { return nil, ErrFailedChallenge() }; peerMeta, err := peerMetaSwap(encryptedConn, meta.Copy().Sign(privateKey), handshakeTimeout); if err != nil { return nil, ErrFailedMetaSwap(err) }; if !peerPublicKey.VerifyBytes(peerMeta.SignBytes(), peerMeta.Signature) { return nil, ErrFailedChallenge() }; if peerMeta.NetworkId != meta.NetworkId { return nil, ErrIncompatiblePeer() }; if peerMeta.ChainId != meta.ChainId { return nil, ErrIncompatiblePeer() }; encryptedConn.Address = &lib.PeerAddress{PublicKey: peerSig.PublicKey, NetAddress: conn.RemoteAddr().String(), PeerMeta: peerMeta}; return" :=
  ⟨rfl, rfl, rfl⟩

/-- GENERATED FACT the full-strength theorems rest on: `NewHandshake` refuses a peer whose presented
identity key is our own. It is recomputed from `p2p/encrypt.go` on every run; when it is false, this
theorem and `auth` / `no_mitm` no longer check and `reflection_witness` is the failing input. -/
theorem rejects_own_key : Gen.Transport.rejectsOwnKey = true := by decide

/-- the signature cache consulted by the challenge check: its key is the full triple
public key ‖ message ‖ signature (the message offset IS advanced before the signature is copied), and
`CheckCache` looks up and stores exactly that key (same source as pinned under C05) -/
theorem sigcache_key_source :
    Gen.Transport.src_sigCacheKey = "pk := bt.PublicKey.Bytes(); totalLen := len(pk) + len(bt.Message) + len(bt.Signature); b, offset := make([]byte, totalLen), 0; copy(b[offset:], pk); offset += len(pk); copy(b[offset:], bt.Message); offset += len(bt.Message); copy(b[offset:], bt.Signature); return string(b)" ∧
    Gen.Transport.src_checkCache = "if DisableCache { return false, func(...){} }; cacheTuple := BatchTuple{PublicKey: pk, Message: msg, Signature: sig}; key := cacheTuple.Key(); addToCache = func(...){SignatureCache.Set(key, []byte{0})}; _, notFoundErr := SignatureCache.Get(key); found = notFoundErr == nil; return" :=
  ⟨rfl, rfl⟩

/-- within one signature scheme (fixed key and signature lengths) the cache key determines the triple -/
theorem sigcache_key_injective (pk pk' m m' sg sg' : Bytes) (hp : pk.length = pk'.length) (hs : sg.length = sg'.length)
    (h : cacheKey pk m sg = cacheKey pk' m' sg') : pk = pk' ∧ m = m' ∧ sg = sg' := by
  unfold cacheKey at h
  rw [List.append_assoc, List.append_assoc] at h
  obtain ⟨h1, h2⟩ := List.append_inj h hp
  have hl : (m ++ sg).length = (m' ++ sg').length := by rw [h2]
  have hm : m.length = m'.length := by simp at hl; omega
  obtain ⟨h3, h4⟩ := List.append_inj h2 hm
  exact ⟨h1, h3, h4⟩

/-- **sigcache_hit_sound**: a cache hit means this very (key, message, signature) triple was verified
before — a genuine signature over ANOTHER message (a VRF seed, another session's challenge) that the
node has verified earlier cannot make the challenge check of this session succeed. This is what makes the
exact-match verification of `Party.finish`, and with it `auth`, a description of the code with a warm cache. -/
theorem sigcache_hit_sound (remembered : List (Bytes × Bytes × Bytes)) (pk m sg : Bytes) (lp ls : Nat)
    (hrem : ∀ t ∈ remembered, t.1.length = lp ∧ t.2.2.length = ls) (hp : pk.length = lp) (hs : sg.length = ls)
    (h : cacheHit remembered pk m sg = true) : (pk, m, sg) ∈ remembered := by
  unfold cacheHit at h
  simp only [List.contains_iff_mem, List.mem_map] at h
  obtain ⟨⟨pk', m', sg'⟩, hmem, hk⟩ := h
  obtain ⟨l1, l2⟩ := hrem _ hmem
  obtain ⟨rfl, rfl, rfl⟩ := sigcache_key_injective pk' pk m' m sg' sg (by simpa [hp] using l1) (by simpa [hs] using l2) hk
  exact hmem

/-- non-vacuity, and what a key that drops the message would break: same key, same signature, other 4-byte message -/
example : cacheHit [([1, 2], [7, 7, 7, 8], [5, 5, 5, 5, 5])] [1, 2] [7, 7, 7, 8] [5, 5, 5, 5, 5] = true ∧
    cacheHit [([1, 2], [7, 7, 7, 8], [5, 5, 5, 5, 5])] [1, 2] [9, 9, 9, 9] [5, 5, 5, 5, 5] = false := by decide

/-- a successful handshake always records the public key of some scalar -/
theorem accepted_is_public_key {ro : Bool} {p : Party} {x : Nat} {f1 f2 t : Term}
    (h : p.finish ro (pk (atom x)) f1 f2 = .ok t) : ∃ j, t = pk (atom j) := by
  obtain ⟨j, hj, _⟩ := finish_ok h
  exact ⟨j, hj⟩

/-- **auth.** In any world of honest runs (any number, with whatever inputs the attacker fed them),
if an honest run `sA` completes the handshake of the code as it is (`rejectsOwnKey` as generated) on
frames a Dolev-Yao attacker can deliver, recording identity `j`, and `j`'s private key is not
compromised, then `j` itself ran the matching handshake: with the ephemeral key `sA` received, having
received `sA`'s ephemeral key (hence the same shared secret), on the same network and chain. -/
theorem auth (W : World) (sA : Session) (hA : sA ∈ W.sessions) {f1 f2 : Term}
    (h1 : DY W f1) (h2 : DY W f2) {j : Nat}
    (hacc : sA.party.finish Gen.Transport.rejectsOwnKey (pk (atom sA.peer)) f1 f2 = .ok (pk (atom j)))
    (hsec : W.sec j) :
    ∃ s ∈ W.sessions, s.party.id = j ∧ s.party.eph = sA.peer ∧ s.peer = sA.party.eph ∧
      s.party.net = sA.party.net ∧ s.party.chain = sA.party.chain := by
  -- the exact-match signature check of `Party.finish` describes `VerifyBytes` behind its cache (`sigcache_hit_sound`)
  have _cache := sigcache_key_source
  rcases auth_core W _ sA hA h1 h2 hacc hsec with h | ⟨hro, _, _⟩
  · exact h
  · rw [rejects_own_key] at hro; exact absurd hro (by decide)

/-- **no_mitm.** If the ephemeral key an honest run received was substituted by the intermediary
(its scalar is known to the attacker), the run accepts NO uncompromised identity: a key-substituting
intermediary shares a different secret with each side, the challenge binds the identity signature to
that secret, so it can only ever appear as itself (or as someone whose key it stole). -/
theorem no_mitm (W : World) (sA : Session) (hA : sA ∈ W.sessions) {f1 f2 : Term}
    (h1 : DY W f1) (h2 : DY W f2) {j : Nat}
    (hacc : sA.party.finish Gen.Transport.rejectsOwnKey (pk (atom sA.peer)) f1 f2 = .ok (pk (atom j)))
    (hsub : ¬ W.sec sA.peer) : ¬ W.sec j := by
  intro hsec
  obtain ⟨s, hs, _, he, _⟩ := auth W sA hA h1 h2 hacc hsec
  exact hsub (he ▸ W.ephSecret s hs)

/-- **auth_partial** (holds for the code with or without the reflection guard): the same conclusion
for every accepted identity OTHER than the run's own. -/
theorem auth_partial (W : World) (ro : Bool) (sA : Session) (hA : sA ∈ W.sessions) {f1 f2 : Term}
    (h1 : DY W f1) (h2 : DY W f2) {j : Nat}
    (hacc : sA.party.finish ro (pk (atom sA.peer)) f1 f2 = .ok (pk (atom j)))
    (hsec : W.sec j) (hne : j ≠ sA.party.id) :
    ∃ s ∈ W.sessions, s.party.id = j ∧ s.party.eph = sA.peer ∧ s.peer = sA.party.eph ∧
      s.party.net = sA.party.net ∧ s.party.chain = sA.party.chain := by
  rcases auth_core W ro sA hA h1 h2 hacc hsec with h | ⟨_, hj, _⟩
  · exact h
  · exact absurd hj hne

/-! ### the reflection witness (why the guard is needed), and non-vacuity -/

/-- one honest run of node 1 (ephemeral scalar 11) that received the ATTACKER's ephemeral key (scalar 13);
secret: node 1's identity key and its ephemeral key; nothing else exists -/
def reflWorld : World where
  sessions := [⟨⟨1, 11, 1, 1⟩, 13⟩]
  sec := fun n => n = 1 ∨ n = 11
  ephSecret := by simp
  ephFresh := by simp

/-- **reflection_witness.** Without the guard (`rejectOwn = false`), an attacker holding NO identity
key makes node 1 complete the handshake recording its OWN, uncompromised identity, although no run
in the world used the ephemeral key node 1 received. With the guard the same frames are refused.
(Replayed on the real `NewHandshake` by the Go oracle, case `hs-reflect`.) -/
theorem reflection_witness :
    ∃ f1 f2, DY reflWorld f1 ∧ DY reflWorld f2 ∧
      (⟨1, 11, 1, 1⟩ : Party).finish false (pk (atom 13)) f1 f2 = .ok (pk (atom 1)) ∧
      reflWorld.sec 1 ∧ (¬ ∃ s ∈ reflWorld.sessions, s.party.eph = 13) ∧
      (⟨1, 11, 1, 1⟩ : Party).finish true (pk (atom 13)) f1 f2 = .error .ownKey := by
  let p : Party := ⟨1, 11, 1, 1⟩
  have hm : DY reflWorld (atom 13) := .atom (by simp [reflWorld])
  have hd : DY reflWorld (mkDh 11 13) := by
    have := DY.dh (W := reflWorld) 11 hm
    simpa [mkDh] using this
  have hks : DY reflWorld (sendKey 11 13) := by simpa [sendKey] using DY.kdf 1 hd
  have hkr : DY reflWorld (recvKey 11 13) := by simpa [recvKey] using DY.kdf 0 hd
  have o2 : DY reflWorld (p.msg2 13) := .out ⟨⟨p, 13⟩, by simp [reflWorld, p], Or.inl rfl⟩
  have o3 : DY reflWorld (p.msg3 13) := .out ⟨⟨p, 13⟩, by simp [reflWorld, p], Or.inr rfl⟩
  refine ⟨enc (recvKey 11 13) 0 (pair (pk (atom 1)) (sig (atom 1) (chal (mkDh 11 13)))),
          enc (recvKey 11 13) 1 (pair (pmeta 1 1) (sig (atom 1) (pmeta 1 1))),
          .enc 0 hkr (.dec o2 hks), .enc 1 hkr (.dec o3 hks), by rfl, by simp [reflWorld], by simp [reflWorld], by rfl⟩

/-- non-vacuity of `auth`: two honest nodes and a transparent relay — the hypotheses hold (the attacker
delivers node 2's frames to node 1), node 1 accepts node 2, and the matching run is node 2's. -/
def relayWorld : World where
  sessions := [⟨⟨1, 11, 1, 1⟩, 12⟩, ⟨⟨2, 12, 1, 1⟩, 11⟩]
  sec := fun n => n = 1 ∨ n = 2 ∨ n = 11 ∨ n = 12
  ephSecret := by simp
  ephFresh := by simp

example : DY relayWorld ((⟨2, 12, 1, 1⟩ : Party).msg2 11) ∧ DY relayWorld ((⟨2, 12, 1, 1⟩ : Party).msg3 11) ∧
    ∀ ro, (⟨1, 11, 1, 1⟩ : Party).finish ro (pk (atom 12)) ((⟨2, 12, 1, 1⟩ : Party).msg2 11) ((⟨2, 12, 1, 1⟩ : Party).msg3 11)
      = .ok (pk (atom 2)) :=
  ⟨.out ⟨⟨⟨2, 12, 1, 1⟩, 11⟩, by simp [relayWorld], Or.inl rfl⟩, .out ⟨⟨⟨2, 12, 1, 1⟩, 11⟩, by simp [relayWorld], Or.inr rfl⟩,
   fun ro => by cases ro <;> rfl⟩

/-- a different network or chain is refused even from the genuine peer -/
example : (⟨1, 11, 1, 1⟩ : Party).finish true (pk (atom 12)) ((⟨2, 12, 2, 1⟩ : Party).msg2 11) ((⟨2, 12, 2, 1⟩ : Party).msg3 11)
    = .error .incompatible := by rfl

end Handshake

end Canopy.C17
