import Canopy.Gen.GateFacts
/-!
# C02 — the library functions behind the gate have the shape the model transcribes

`Gate.admitQC` (Model/Gate.lean) is a hand transcription of `HandlePeerBlock` and of the library checks it
calls. Each of those functions is regenerated from `/repo` on every run as its normalised statement list
(comments and logging dropped); the theorems below pin them. An edit to any guard, its order or the error
it returns breaks the corresponding theorem — the correspondence run then looks for the certificate on
which the real gate and the model (or the oracle) disagree.
-/
namespace Canopy.C02Src

/-- `QuorumCertificate.CheckBasic`: `Gate.checkBasicBody` + `Gate.sigBasic` transcribe this guard sequence (nil/empty certificate; view; results branch: hash sizes, results hash, block hash from the raw bytes, global size; election branch: key size, no results, no block; then the signature sanity check) -/
theorem qcCheckBasic_shape : Gen.GateFacts.qcCheckBasic = [
  "if x == nil || (x.ResultsHash == nil && x.ProposerKey == nil) {",
  "  return ErrEmptyQuorumCertificate()",
  "}",
  "if err := x.Header.CheckBasic(); err != nil {",
  "  return err",
  "}",
  "if x.ResultsHash != nil {",
  "  if len(x.BlockHash) != crypto.HashSize {",
  "    return ErrInvalidBlockHash()",
  "  }",
  "  if len(x.ResultsHash) != crypto.HashSize {",
  "    return ErrInvalidResultsHash()",
  "  }",
  "  if x.Results != nil {",
  "    if err := x.Results.CheckBasic(); err != nil {",
  "      return err",
  "    }",
  "    resultsBytes, err := Marshal(x.Results)",
  "    if err != nil {",
  "      return err",
  "    }",
  "    if !bytes.Equal(x.ResultsHash, crypto.Hash(resultsBytes)) {",
  "      return ErrMismatchResultsHash()",
  "    }",
  "  }",
  "  if x.Block != nil {",
  "    block := new(Block)",
  "    hash, e := block.BytesToBlockHash(x.Block)",
  "    if e != nil {",
  "      return e",
  "    }",
  "    if !bytes.Equal(x.BlockHash, hash) {",
  "      return ErrMismatchQCBlockHash()",
  "    }",
  "    blockSize := len(x.Block)",
  "    if blockSize > GlobalMaxBlockSize {",
  "      return ErrExpectedMaxBlockSize()",
  "    }",
  "  }",
  "} else {",
  "  if len(x.ProposerKey) != crypto.BLS12381PubKeySize {",
  "    return ErrInvalidSigner()",
  "  }",
  "  if len(x.ResultsHash) != 0 || x.Results != nil {",
  "    return ErrMismatchResultsHash()",
  "  }",
  "  if len(x.BlockHash) != 0 || len(x.Block) != 0 {",
  "    return ErrNonNilBlock()",
  "  }",
  "}",
  "return x.Signature.CheckBasic()"
] := rfl

/-- `QuorumCertificate.Check`: `Gate.qcCheck` = CheckBasic; `View.Check`; decode the block; the size rule on transaction bytes; the aggregate signature -/
theorem qcCheck_shape : Gen.GateFacts.qcCheck = [
  "if err := x.CheckBasic(); err != nil {",
  "  return false, err",
  "}",
  "if err := x.Header.Check(view, enforceHeights); err != nil {",
  "  return false, err",
  "}",
  "block := new(Block)",
  "if err := Unmarshal(x.Block, block); err != nil {",
  "  return false, err",
  "}",
  "txsSize := 0",
  "for _, tx := range block.Transactions {",
  "  txsSize += len(tx)",
  "}",
  "if txsSize > maxBlockSize {",
  "  return false, ErrExpectedMaxBlockSize()",
  "}",
  "return x.Signature.Check(x, vs)"
] := rfl

/-- `QuorumCertificate.CheckProposalBasic`: `Gate.proposalBasic` = nil block; decode; `Block.Check`; certificate height = block height; not below / not above the local height; block hash recomputed from the decoded header; results present -/
theorem qcCheckProposalBasic_shape : Gen.GateFacts.qcCheckProposalBasic = [
  "if x.Block == nil {",
  "  return nil, ErrNilBlock()",
  "}",
  "block = new(Block)",
  "if err = Unmarshal(x.Block, block); err != nil {",
  "  return",
  "}",
  "if err = block.Check(networkId, chainId); err != nil {",
  "  return",
  "}",
  "if x.Header.Height != block.BlockHeader.Height {",
  "  return nil, ErrMismatchCertBlockHeight(x.Header.Height, block.BlockHeader.Height)",
  "}",
  "if height > block.BlockHeader.Height {",
  "  return nil, ErrWrongBlockHeight(block.BlockHeader.Height, height + 1)",
  "}",
  "if height < block.BlockHeader.Height {",
  "  return nil, ErrNewHeight()",
  "}",
  "blockHash, err := block.Hash()",
  "if err != nil {",
  "  return nil, err",
  "}",
  "if !bytes.Equal(x.BlockHash, blockHash) {",
  "  return nil, ErrMismatchHeaderBlockHash()",
  "}",
  "if x.Results == nil {",
  "  return nil, ErrNilCertResults()",
  "}",
  "return"
] := rfl

/-- `AggregateSignature.CheckBasic`: `Gate.sigBasic` -/
theorem aggSigCheckBasic_shape : Gen.GateFacts.aggSigCheckBasic = [
  "if x == nil {",
  "  return ErrEmptyAggregateSignature()",
  "}",
  "if len(x.Signature) != crypto.BLS12381SignatureSize {",
  "  return ErrInvalidAggrSignatureLength()",
  "}",
  "if len(x.Bitmap) == 0 {",
  "  return ErrEmptySignerBitmap()",
  "}",
  "return nil"
] := rfl

/-- `AggregateSignature.Check`: `Gate.sigCheck` = sanity; bitmap sized for this committee; the aggregate verifies under the selected keys for the sign bytes; signed power against `MinimumMaj23` (the generated threshold) -/
theorem aggSigCheck_shape : Gen.GateFacts.aggSigCheck = [
  "if err = x.CheckBasic(); err != nil {",
  "  return false, err",
  "}",
  "key := vs.MultiKey.Copy()",
  "if er := key.SetBitmap(x.Bitmap); er != nil {",
  "  return false, ErrInvalidSignerBitmap(er)",
  "}",
  "if !key.VerifyBytes(sb.SignBytes(), x.Signature) {",
  "  return false, ErrInvalidAggrSignature()",
  "}",
  "_, totalSignedPower, err := x.GetSigners(vs)",
  "if err != nil {",
  "  return false, err",
  "}",
  "if totalSignedPower < vs.MinimumMaj23 {",
  "  return true, nil",
  "}",
  "return false, nil"
] := rfl

/-- `View.CheckBasic` -/
theorem viewCheckBasic_shape : Gen.GateFacts.viewCheckBasic = [
  "if x == nil {",
  "  return ErrEmptyView()",
  "}",
  "return"
] := rfl

/-- `View.Check` (with `enforceHeights = false` only network and chain are compared) -/
theorem viewCheck_shape : Gen.GateFacts.viewCheck = [
  "if err := x.CheckBasic(); err != nil {",
  "  return err",
  "}",
  "if view.NetworkId != x.NetworkId {",
  "  return ErrWrongNetworkID()",
  "}",
  "if view.ChainId != x.ChainId {",
  "  return ErrWrongChainId()",
  "}",
  "if enforceHeights && x.Height != view.Height {",
  "  return ErrWrongViewHeight(x.Height, view.Height)",
  "}",
  "if enforceHeights && x.RootHeight != view.RootHeight {",
  "  return ErrWrongRootHeight()",
  "}",
  "return nil"
] := rfl

/-- `Block.Check` -/
theorem blockCheck_shape : Gen.GateFacts.blockCheck = [
  "if x == nil {",
  "  return ErrNilBlock()",
  "}",
  "return x.BlockHeader.Check(networkID, chainId)"
] := rfl

/-- `BlockHeader.Check`: sizes, the last certificate names this network and chain above height 1, network id, time, header hash -/
theorem blockHeaderCheck_shape : Gen.GateFacts.blockHeaderCheck = [
  "if x == nil {",
  "  return ErrNilBlockHeader()",
  "}",
  "if len(x.ProposerAddress) != crypto.AddressSize {",
  "  return ErrInvalidBlockProposerAddress()",
  "}",
  "if len(x.Hash) != crypto.HashSize {",
  "  return ErrWrongLengthBlockHash()",
  "}",
  "if len(x.StateRoot) != crypto.HashSize {",
  "  return ErrWrongLengthStateRoot()",
  "}",
  "if len(x.TransactionRoot) != crypto.HashSize {",
  "  return ErrWrongLengthTransactionRoot()",
  "}",
  "if len(x.ValidatorRoot) != crypto.HashSize {",
  "  return ErrWrongLengthValidatorRoot()",
  "}",
  "if len(x.NextValidatorRoot) != crypto.HashSize {",
  "  return ErrWrongLengthNextValidatorRoot()",
  "}",
  "if len(x.LastBlockHash) != crypto.HashSize {",
  "  return ErrWrongLengthLastBlockHash()",
  "}",
  "if x.Height > 1 {",
  "  if err := x.LastQuorumCertificate.CheckBasic(); err != nil {",
  "    return err",
  "  }",
  "  if x.LastQuorumCertificate.Header.NetworkId != networkID {",
  "    return ErrWrongNetworkID()",
  "  }",
  "  if x.LastQuorumCertificate.Header.ChainId != chainId {",
  "    return ErrWrongChainId()",
  "  }",
  "}",
  "if uint64(x.NetworkId) != networkID {",
  "  return ErrWrongNetworkID()",
  "}",
  "if x.Time == 0 {",
  "  return ErrNilBlockTime()",
  "}",
  "if x.NetworkId == 0 {",
  "  return ErrNilNetworkID()",
  "}",
  "tmp := x.Hash",
  "x.Hash = nil",
  "bz, err := Marshal(x)",
  "if err != nil {",
  "  return err",
  "}",
  "x.Hash = tmp",
  "if !bytes.Equal(x.Hash, crypto.Hash(bz)) {",
  "  return ErrMismatchHeaderBlockHash()",
  "}",
  "return nil"
] := rfl

/-- `CertificateResult.Hash`: the results hash the replicas sign is the digest of the deterministic encoding of the
WHOLE message (every field, through `lib.Marshal`), not of a hand-picked copy -/
theorem certResultHash_shape : Gen.GateFacts.certResultHash = [
  "bz, _ := Marshal(x)",
  "return crypto.Hash(bz)"
] := rfl

end Canopy.C02Src
