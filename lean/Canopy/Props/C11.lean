import Canopy.Proof.Atomic
import Canopy.Model.ExecFacts
import Canopy.Model.Proto
import Canopy.Props.C03
import Canopy.Props.C07
/-!
# C11 — block portability

Statement (properties.jsonl): any block an honest node builds from its mempool is accepted by every
honest node holding the same prefix and vote configuration; the block and certificate a node serves
from its archive for a committed height re-validate on a fresh node to the same block hash;
replaying the served chain from genesis reproduces every block hash and state root.

* `proposal_validates` (mechanism model `Canopy.Atomic`, mechanism switches from the generated source
  facts): whatever the mempool holds — failing transactions at any position failing at any point of
  their handlers, transactions rejected by the pre-check, more transactions than fit — the block the
  proposer path (`allowOversize = true`) builds is executed by the replica path
  (`allowOversize = false`) on the same prefix without a single failure, to the same store, the same
  reads through the caches (so the same end-block, the same header) and the same events.
  It depends on the restoration after the oversize remainder: `proposal_needs_oversize_restore` is the
  counterexample without it (the defect repaired in /repo; Go scenario `corpus-oversize-remainder`).
* `honest_proposal_accepted` (model `Canopy.Exec`): the result a leader ships is the result every
  replica recomputes, given the statement order of `ProduceProposal` extracted from the source (header
  hashed BEFORE block result and certificate results — the checkpoint of every 100th height — are
  finalised); `proposal_rejected_when_results_precede_hash` is the counterexample for the other order
  (Go scenario `checkpoint-height`).
* `archive_roundtrip`: the block the archive re-assembles (`BlockResult.ToBlock`: every transaction
  re-marshalled) has the certified transaction root **iff** every included transaction's raw bytes
  are canonical. Hypothesis, stated: the transaction root determines the list of raw transaction
  bytes (collision-free idealisation of hash and Merkle root, DESIGN §5).
  `noncanonical_witness`: with the real wire model (`Canopy.Proto`), a transaction with an explicit
  zero `nonce` field appended (`0x50 0x00`), and one with a repeated `created_height` as a padded
  varint, decode but are not canonical — so a chain that admits such bytes into a block cannot be
  synced past that block (Go scenarios `corpus-noncanonical-tx-*`; on the current tree `CheckTx`
  refuses non-canonical bytes, so they never enter a block).
* `replay_from_genesis` (model `Canopy.Exec`; sync path, for the mechanism that writes the header's last
  certificate before applying a block — `Canopy.C03.last_certificate_is_the_headers`): a fresh node fed
  the committed blocks in order reaches,
  height by height, the committed state of the chain, accepts every block and archives the same
  results — by induction over the chain, for the abstract `applyBlock`.

Same partiality as C03: that the real `ApplyBlock` is a function of (state, block) is sampled, not
proved.
-/
namespace Canopy.C11
open Canopy.Atomic

/-! ## honest proposals validate -/

/-- **proposal_validates.** -/
theorem proposal_validates (max : Nat) (F : Fsm) (hc : Coherent F) (b : Handler) (txs : List Tx)
    (e : Handler) (F2 : Fsm) (inc : List Tx)
    (h : applyBlock cfgOfFacts max true F b txs e = some (F2, inc)) :
    ∃ F2', applyBlock cfgOfFacts max false F b inc e = some (F2', inc) ∧
      F2'.pure = F2.pure ∧ F2'.get = F2.get := by
  rw [Canopy.C07.mechanism_of_source] at h ⊢
  have h1 := block_refines max true F hc b txs e
  rw [h] at h1
  cases hs : specBlock max true F.pure b txs e with
  | none => rw [hs] at h1; exact h1.elim
  | some r =>
    obtain ⟨P2, inc'⟩ := r
    rw [hs] at h1
    obtain ⟨hc2, hp2, hi⟩ := h1
    subst hi
    have hrep := proposal_validates_block_spec max F.pure b txs e P2 inc hs
    have h2 := block_refines max false F hc b inc e
    rw [hrep] at h2
    cases hm : applyBlock Cfg.all max false F b inc e with
    | none => rw [hm] at h2; exact h2.elim
    | some r2 =>
      obtain ⟨F2', inc2⟩ := r2
      rw [hm] at h2
      obtain ⟨hc2', hp2', hi2⟩ := h2
      subst hi2
      refine ⟨F2', rfl, hp2'.trans hp2.symm, ?_⟩
      rw [get_of_coherent hc2', get_of_coherent hc2]
      have := hp2'.trans hp2.symm
      simp only [Fsm.pure, Pure.mk.injEq] at this
      exact this.1

/-- non-vacuity: a mempool with a failing transaction and more than fits; the proposer keeps one
transaction, the replica executes that block to the same reads -/
example :
    (applyBlock Cfg.all 1 true Canopy.C07.wF [] [Canopy.C07.wBad, Canopy.C07.wInc 1, Canopy.C07.wInc 2] []).map
        (fun r => (r.1.get 0, r.2.map (·.id))) = some (some 1, [1]) ∧
    (applyBlock Cfg.all 1 false Canopy.C07.wF [] [Canopy.C07.wInc 1] []).map
        (fun r => (r.1.get 0, r.2.map (·.id))) = some (some 1, [1]) := by decide

/-- without the restoration after the oversize remainder the proposer's block state (what its
end-block and header read through the caches) is not what the replica computes from the block -/
theorem proposal_needs_oversize_restore :
    (run { Cfg.all with oversizeRestore := false } 1 true Canopy.C07.wF [Canopy.C07.wInc 1, Canopy.C07.wInc 2]).map
        (fun L => (L.F.get 0, L.included.map (·.id))) = some (some 2, [1]) ∧
    (run { Cfg.all with oversizeRestore := false } 1 false Canopy.C07.wF [Canopy.C07.wInc 1]).map
        (fun L => (L.F.get 0, L.included.map (·.id))) = some (some 1, [1]) := by decide

/-! ## the results a leader ships are the results replicas recompute -/

open Canopy.Exec in
/-- what the leader puts into its proposal as the block's claimed result. The mempool check caches a
result computed with a PROVISIONAL header (no last certificate, no VDF); `ProduceProposal` patches and
re-hashes the header and finalises the result (the checkpoint of every 100th height quotes the block
hash). Finalised after the hash, from a header assigned from inputs: the final result; otherwise
something else (a provisional hash, or a header that carries an earlier call's additions). -/
def shippedResult {ρ : Type} (finalisedAfterHash : Bool) (final provisional : ρ) : ρ :=
  if finalisedAfterHash then final else provisional

open Canopy.Exec in
/-- **honest proposals are accepted** (model `Canopy.Exec`): if the leader's execution of `b` on its
committed state gives `r`, and the proposal claims what `ProduceProposal` ships — decided by the
statements extracted from the source (`proposalBuildFact`: the results are finalised after the header
is hashed, and every header field is assigned from inputs, never from what an earlier call left in the
cached proposal) — then every node with the
same committed state, whatever else it did before, validates the proposal with result `r`.
With the finalisation moved before the hash this is false at every height whose result quotes the
block hash (`proposal_rejected_when_results_precede_hash`). -/
theorem honest_proposal_accepted {σ β ρ ε : Type} [DecidableEq β] [DecidableEq ρ] (S : Sys σ β ρ ε)
    (leader replica : Node σ β ρ) (b : β) (r provisional : ρ)
    (hp : (produce S leader b).2 = .ok r)
    (hclaim : S.claim b = shippedResult proposalBuildFact r provisional)
    (hc : replica.committed = leader.committed) (hh : S.height b = replica.height) :
    (validate S replica b).2 = .ok r := by
  have hf : proposalBuildFact = true := by decide
  rw [hf] at hclaim
  simp only [shippedResult, if_true] at hclaim
  rw [Canopy.C03.validate_computes S replica b hh, hc]
  rw [Canopy.C03.produce_computes] at hp
  unfold verdict
  cases ha : S.applyBlock leader.committed b with
  | error e => simp [ha, Except.map] at hp
  | ok p =>
    obtain ⟨s1, r1⟩ := p
    simp only [ha, Except.map, Except.ok.injEq] at hp
    subst hp
    simp [hclaim]

open Canopy.Exec in
/-- a system whose leader ships the PROVISIONAL result (3) although executing the block gives 7 -/
def earlyResultsSys : Sys Nat Nat Nat Unit :=
  ⟨fun s b => .ok (s + 1, b), fun s _ => s, fun _ => shippedResult false 7 3,
   fun _ => 0, true, fun _ => 0, fun _ _ _ => .error (), true⟩

open Canopy.Exec in
/-- the seeded order (results finalised from the provisional hash): at a height whose result quotes
the block hash (final 7 ≠ provisional 3) every replica answers `mismatch`, while with the shipped
result taken after the hash it accepts -/
theorem proposal_rejected_when_results_precede_hash :
    (validate earlyResultsSys (init 0 0 : Node Nat Nat Nat) 7).2 = .mismatch ∧
    (validate { earlyResultsSys with claim := fun _ => shippedResult true 7 3 } (init 0 0 : Node Nat Nat Nat) 7).2 = .ok 7 := by
  decide

/-! ## the archive round trip -/

/-- what the archive serves for a certified list of raw transactions: each one decoded and
re-marshalled -/
def served {τ : Type} (canon : τ → τ) (txs : List τ) : List τ := txs.map canon

theorem map_eq_self_iff {τ : Type} (f : τ → τ) (l : List τ) : l.map f = l ↔ ∀ t ∈ l, f t = t := by
  induction l with
  | nil => simp
  | cons a r ih => simp [ih]

/-- **archive_roundtrip.** `root` is the transaction root a node computes from a block's raw
transaction bytes (Merkle root of the transaction results, each of which contains the hash of the raw
bytes); `hinj` is the collision-free idealisation. The served block re-validates to the certified
root iff every certified transaction is canonically encoded. -/
theorem archive_roundtrip {τ η : Type} (root : List τ → η) (hinj : ∀ a b, root a = root b → a = b)
    (canon : τ → τ) (txs : List τ) :
    root (served canon txs) = root txs ↔ ∀ t ∈ txs, canon t = t := by
  constructor
  · intro h; exact (map_eq_self_iff canon txs).1 (hinj _ _ h)
  · intro h; rw [served, (map_eq_self_iff canon txs).2 h]

/-- the real re-marshalling on the wire model: `lib.Marshal(lib.Unmarshal(raw))` -/
def protoCanon (raw : Canopy.Bytes) : Canopy.Bytes :=
  match Canopy.Proto.decodeTx raw with
  | some t => Canopy.Proto.canon t
  | none => raw

/-- a (tiny) transaction in canonical bytes: message_type = "a", created_height = 2, fee = 1 -/
def tinyTx : Canopy.Bytes := [0x0a, 0x01, 0x61, 0x20, 0x02, 0x30, 0x01]

/-- the same content with an explicit zero `nonce` (field 10) appended, and with `created_height`
repeated as a two-byte (padded) varint: both decode, both re-marshal to the canonical bytes, neither
is canonical — the archive serves other bytes than were certified -/
theorem noncanonical_witness :
    protoCanon tinyTx = tinyTx ∧
    protoCanon (tinyTx ++ [0x50, 0x00]) = tinyTx ∧ tinyTx ++ [0x50, 0x00] ≠ tinyTx ∧
    protoCanon (tinyTx ++ [0x20, 0x82, 0x00]) = tinyTx ∧ tinyTx ++ [0x20, 0x82, 0x00] ≠ tinyTx := by
  decide

/-- hence a block containing such bytes is served with a different transaction root -/
theorem archive_block_does_not_revalidate {η : Type} (root : List Canopy.Bytes → η)
    (hinj : ∀ a b, root a = root b → a = b) (pre post : List Canopy.Bytes) :
    root (served protoCanon (pre ++ (tinyTx ++ [0x50, 0x00]) :: post)) ≠
      root (pre ++ (tinyTx ++ [0x50, 0x00]) :: post) := by
  intro h
  have := (archive_roundtrip root hinj protoCanon _).1 h (tinyTx ++ [0x50, 0x00]) (by simp)
  have hw := noncanonical_witness
  rw [hw.2.1] at this
  exact hw.2.2.1 this.symm

/-! ## replay from genesis -/

open Canopy.Exec

variable {σ β ρ ε : Type} [DecidableEq β] [DecidableEq ρ] (S : Sys σ β ρ ε)

/-- the committed chain: each block is at the next height and is accepted on the state before it -/
def chainOk : σ → Nat → List β → Option σ
  | s, _, [] => some s
  | s, h, b :: r => if S.height b = h then
      match exec S s b with
      | some s' => chainOk s' (h + 1) r
      | none => none
    else none

/-- a node fed the blocks one by one through the SYNC path (each with some version `v` of its commit
certificate, here the archive's: 0) -/
def replay (n : Node σ β ρ) (bs : List β) : Node σ β ρ := bs.foldl (fun n b => (commit S n b true 0).1) n

theorem replay_chain (hix : S.indexesLastCert = true) (bs : List β) : ∀ (n : Node σ β ρ) (sA : σ), n.cached = none →
    chainOk S n.committed n.height bs = some sA →
    (replay S n bs).committed = sA ∧ (replay S n bs).height = n.height + bs.length ∧
    (replay S n bs).archive = (bs.map fun b => (b, S.claim b)).reverse ++ n.archive ∧
    (replay S n bs).cached = none := by
  induction bs with
  | nil => intro n sA hc h; simp [chainOk] at h; simp [replay, h, hc]
  | cons b r ih =>
    intro n sA hc h
    simp only [chainOk] at h
    by_cases hh : S.height b = n.height
    · simp only [hh, if_true] at h
      cases hx : exec S n.committed b with
      | none => simp [hx] at h
      | some s' =>
        simp only [hx] at h
        have hne : n.cached ≠ some b := by rw [hc]; simp
        -- the commit is a replay and accepts
        have hcommit : (commit S n b true 0).1 = finish S (reset S n) s' b (S.claim b) 0 := by
          unfold exec at hx
          have he := Canopy.C03.replayExec_eq S (reset S n) b true (Or.inr hix)
          simp only [reset] at he
          simp only [commit, hh, ne_eq, not_true_eq_false, if_false, hne, reset, he]
          cases ha : S.applyBlock n.committed b with
          | error e => simp [ha] at hx
          | ok p =>
            obtain ⟨s1, r1⟩ := p
            simp only [ha] at hx
            by_cases hr : r1 = S.claim b
            · simp only [hr, if_true, Option.some.injEq] at hx
              simp [hr, hx]
            · simp [hr] at hx
        have hn' : (commit S n b true 0).1.cached = none ∧ (commit S n b true 0).1.committed = s' ∧
            (commit S n b true 0).1.height = n.height + 1 ∧ (commit S n b true 0).1.archive = (b, S.claim b) :: n.archive := by
          rw [hcommit]
          simp only [finish, reset, hc]
          cases S.resetClearsCache <;> simp
        have := ih (commit S n b true 0).1 sA hn'.1 (by rw [hn'.2.1, hn'.2.2.1]; exact h)
        simp only [replay, List.foldl_cons] at this ⊢
        refine ⟨this.1, ?_, ?_, this.2.2.2⟩
        · rw [this.2.1, hn'.2.2.1]; simp; omega
        · rw [this.2.2.1, hn'.2.2.2]; simp
    · simp [hh] at h

/-- **replay_from_genesis.** A fresh node holding the genesis, fed the blocks of a committed chain in
order, accepts every one of them and ends with the chain's committed state, at the chain's height,
with every block archived with the certified result. -/
theorem replay_from_genesis (hix : S.indexesLastCert = true) (genesis : σ) (h0 : Nat) (bs : List β) (sA : σ)
    (h : chainOk S genesis h0 bs = some sA) :
    (replay S (init genesis h0) bs).committed = sA ∧
    (replay S (init genesis h0) bs).height = h0 + bs.length ∧
    (replay S (init genesis h0) bs).archive = (bs.map fun b => (b, S.claim b)).reverse := by
  have := replay_chain S hix bs (init genesis h0) sA rfl h
  exact ⟨this.1, this.2.1, by simpa [init] using this.2.2.1⟩

/-- every prefix too: the fresh node reproduces each intermediate state -/
theorem replay_prefix (hix : S.indexesLastCert = true) (genesis : σ) (h0 : Nat) (pre post : List β) (sA : σ)
    (h : chainOk S genesis h0 (pre ++ post) = some sA) :
    ∃ sMid, chainOk S genesis h0 pre = some sMid ∧ (replay S (init genesis h0) pre).committed = sMid := by
  have key : ∀ (pre : List β) (s : σ) (h1 : Nat), chainOk S s h1 (pre ++ post) = some sA →
      ∃ sMid, chainOk S s h1 pre = some sMid := by
    intro pre
    induction pre with
    | nil => intro s h1 _; exact ⟨s, rfl⟩
    | cons b r ih =>
      intro s h1 hk
      simp only [List.cons_append, chainOk] at hk ⊢
      by_cases hh : S.height b = h1
      · simp only [hh, if_true] at hk ⊢
        cases hx : exec S s b with
        | none => simp [hx] at hk
        | some s' => simp only [hx] at hk ⊢; exact ih s' (h1 + 1) hk
      · simp [hh] at hk
  obtain ⟨sMid, hm⟩ := key pre genesis h0 h
  exact ⟨sMid, hm, (replay_from_genesis S hix genesis h0 pre sMid hm).1⟩

/-- non-vacuity -/
example :
    let S : Sys Nat Nat Nat Unit := ⟨fun s b => .ok (s + b, b), fun s _ => s, id, fun b => b / 10, true, fun _ => 0, fun _ _ _ => .error (), true⟩
    chainOk S 0 1 [10, 25, 31] = some 66 ∧ (replay S (init 0 1 : Node Nat Nat Nat) [10, 25, 31]).committed = 66 := by
  decide

end Canopy.C11
