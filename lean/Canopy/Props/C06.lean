import Canopy.Proof.Replay
import Canopy.Props.C06W
import Canopy.Gen.Proto
/-!
# C06 — replay protection

Model: `Canopy.Proto` (protobuf wire model + `Transaction` schema, `Model/Proto.lean`) and
`Canopy.Replay` (`CheckTx` / `CheckReplay` / `CheckSignature` / `ApplyTransactions` for sends,
`Model/Replay.lean`). Identity of a transaction is `txId raw = SHA-256(raw)` — the hash of the RAW
bytes — while the signature covers `signBytes (decode raw) = canon (decode raw without signature)`.

Result, in one paragraph. The replay clause at full strength (`NoReplay`) was **false of the code
before the repairs** 058e982 / dd98b36 (`strictTx = strictKey = false`): `no_replay_false`, and
still false with the first repair alone: `no_replay_false_without_key_check` (concrete witnesses in
`Props/C06W.lean`, built from real signed transactions; the Go driver re-offers them, and the whole
re-encoding family, to the real state machine on every run). It holds for byte strings that are the
canonical marshalling of their content with canonically encoded keys (`no_replay_partial`), hence
for the admission path that enforces exactly that: `no_replay_repaired` is the live obligation, and
`admission_enforces_canonical_encodings` pins — from the regenerated source facts — that the code
is that path. The cross-chain, window and nonce-floor clauses hold as well (`cross_chain`, `window`,
`nonce_floor`, `nonce_floor_rises`).

Scope of `no_replay_repaired`: single-key, non-RLP transactions, under `SigUnique`. RLP.V2 is covered
by the nonce floor, legacy RLP by the Ethereum-hash alias of the indexer (modelled and run against
the code; the conversion itself is uninterpreted). A multi-signature account is, in the model,
several keys with one address (`Scheme.multi`), which `SigUnique` excludes: co-signers who hold the
members' individual signatures can assemble other (key order, signer subset) pairs for the same
signed content and these execute again on the real code (measured: evidence `multisig_*`); someone
holding only on-chain data cannot (six constructions refused).

Cryptography is symbolic (`Replay.Env`, `SigUnique`): no theorem says anything about Ed25519, BLS or
ECDSA; which malleated signatures / key encodings the real verifiers accept is measured by the
correspondence run, not proved.
-/
namespace Canopy.C06
open Canopy Canopy.Proto Canopy.Replay

/-! ## the tie to the source: facts regenerated from `/repo` on every run -/

/-- field numbers and kinds of `Transaction`, `Signature` (tx.proto) and `google.protobuf.Any` are
the ones `Proto.applyTx` / `applySig` / `applyAny` and `canon` hard-wire -/
theorem tx_schema : Gen.Proto.schema "Transaction" =
    [(1, "message_type", "string", ""), (2, "msg", "google.protobuf.Any", ""), (3, "signature", "Signature", ""),
     (4, "created_height", "uint64", ""), (5, "time", "uint64", ""), (6, "fee", "uint64", ""), (7, "memo", "string", ""),
     (8, "network_id", "uint64", ""), (9, "chain_id", "uint64", ""), (10, "nonce", "uint64", "")] := by decide

theorem signature_schema : Gen.Proto.schema "Signature" =
    [(1, "public_key", "bytes", ""), (2, "signature", "bytes", "")] := by decide

theorem send_schema : (Gen.Proto.schema "MessageSend").map (fun f => (f.1, f.2.2.1)) =
    [(1, "bytes"), (2, "bytes"), (3, "uint64"), (4, "uint64"), (5, "uint64"), (6, "uint64")] := by decide

/-- decoder limits of `lib/util.go` and the set of messages that get the strict treatment -/
theorem decoder_limits : Gen.Proto.protoMaxFieldBytes = protoMaxFieldBytes ∧
    Gen.Proto.protoMaxMessageBytes = protoMaxMessageBytes ∧
    Gen.Proto.criticalMessages = ["Block", "Transaction", "QuorumCertificate"] := by decide

/-- identity = hash of the raw bytes; duplicates inside one block are looked up by the same hash -/
theorem identity_is_hash_of_raw_bytes : Gen.Proto.src_txIdentity = "hashString := crypto.HashString(tx)" ∧
    Gen.Proto.src_sameBlockDedup = "if found := deDuplicator.Found(hashString); found { return lib.ErrDuplicateTx(hashString) }" := by
  decide

/-- `GetSignBytes` re-marshals every field except the signature -/
theorem sign_bytes_fields : Gen.Proto.txSignBytesFields =
    [("MessageType", "x.MessageType"), ("Msg", "x.Msg"), ("Signature", "nil"), ("Time", "x.Time"),
     ("CreatedHeight", "x.CreatedHeight"), ("Fee", "x.Fee"), ("Memo", "x.Memo"), ("NetworkId", "x.NetworkId"),
     ("ChainId", "x.ChainId"), ("Nonce", "x.Nonce")] := by decide

/-- the window tail and the network/chain head of `CheckReplay`, and the window constant, are what
`Replay.inWindow` / `Replay.checkReplay` transcribe -/
theorem check_replay_src :
    Gen.Proto.BlockAcceptanceRange = blockAcceptanceRange ∧
    Gen.Proto.src_CheckReplay_window = "maxHeight, minHeight := s.Height() + BlockAcceptanceRange, uint64(0); if s.Height() > BlockAcceptanceRange { minHeight = s.Height() - BlockAcceptanceRange }; if tx.CreatedHeight > maxHeight || tx.CreatedHeight < minHeight { return lib.ErrInvalidTxHeight() }; return nil" ∧
    Gen.Proto.src_CheckReplay_head = ["if uint64(s.NetworkID) != tx.NetworkId { return lib.ErrWrongNetworkID() }", "if s.Config.ChainId != tx.ChainId { return lib.ErrWrongChainId() }", "if s.Height() < 2 { return nil }"] := by
  decide +kernel

theorem check_basic_src : Gen.Proto.src_CheckBasic =
    "if x == nil { return ErrEmptyTransaction() }; if x.Msg == nil { return ErrEmptyMessage() }; if x.MessageType == \"\" { return ErrUnknownMessageName(x.MessageType) }; if x.Signature == nil || x.Signature.Signature == nil || x.Signature.PublicKey == nil { return ErrEmptySignature() }; if x.CreatedHeight == 0 { return ErrInvalidTxHeight() }; if x.Time == 0 { return ErrInvalidTxTime() }; if len(x.Memo) > 200 { return ErrInvalidMemo() }; if x.NetworkId == 0 { return ErrNilNetworkID() }; if x.ChainId == 0 { return ErrEmptyChainId() }; return nil" := by
  decide +kernel

theorem nonce_src : Gen.Proto.src_nonceFloor = "if tx.Nonce < account.Nonce || tx.Nonce == math.MaxUint64 { return nil, ErrInvalidTxNonce() }" ∧
    Gen.Proto.src_nonceBump = "account.Nonce = result.tx.Nonce + 1" := by decide

/-- public keys are parsed by length; 64 and 65 bytes both give an Ethereum key -/
theorem pubkey_switch : Gen.Proto.pubKeySwitch =
    [(["Ed25519PubKeySize"], "return BytesToED25519Public(bz), nil"),
     (["ETHSECP256K1PubKeySize", "ETHSECP256K1PubKeySize + 1"], "return BytesToEthSECP256K1Public(bz)"),
     (["SECP256K1PubKeySize"], "return BytesToSECP256K1Public(bz)"),
     (["BLS12381PubKeySize"], "return BytesToBLS12381Public(bz)")] ∧
    (Gen.Proto.Ed25519PubKeySize, Gen.Proto.ETHSECP256K1PubKeySize, Gen.Proto.SECP256K1PubKeySize, Gen.Proto.BLS12381PubKeySize) = (32, 64, 33, 48) := by
  decide

/-! ## M-proto: the codec theorems -/

/-- `parse_canon`: decoding the deterministic marshalling of a well-formed transaction gives it back,
with no unknown fields -/
theorem parse_canon (t : TxContent) (h : t.WF) : decodeLoose (canon t) = some (t, false) :=
  decodeLoose_canon t h

/-- the same through the whole `lib.Unmarshal` path (size cap, pre-flight scan, unknown-field refusal) -/
theorem unmarshal_marshal (t : TxContent) (h : t.WF) (hs : t.SizeOK) : decodeTx (canon t) = some t :=
  decodeTx_canon t h hs

/-- `canon_injective`: different well-formed contents have different canonical bytes -/
theorem canon_injective (t₁ t₂ : TxContent) (h₁ : t₁.WF) (h₂ : t₂.WF) (h : canon t₁ = canon t₂) : t₁ = t₂ :=
  Proto.canon_injective t₁ t₂ h₁ h₂ h

/-- non-vacuity: the real signed send is a well-formed content in canonical encoding -/
example : decodeTx C06W.edRaw ≠ none ∧ (decodeTx C06W.edRaw).map canon = some C06W.edRaw := by decide +kernel

/-! ## the replay clause -/

/-- **Full statement** (`Replay.NoReplay`): for every environment and every later chain state,
`Included e c raw₁ → signedPart raw₂ = signedPart raw₁ → ¬ accepted e c raw₂`.
**It is false of the code as it stands** (`strictTx = strictKey = false`): -/
theorem no_replay_false : ¬ ∀ (e : Env) (c : Chain), c.strictTx = false → c.strictKey = false → NoReplay e c := by
  intro h
  exact C06W.no_replay_fails_witness_explicit_default.refutes (h _ _ rfl rfl)

/-- comparing bytes with their re-marshalling is not enough: the public-key encoding must be pinned too -/
theorem no_replay_false_without_key_check :
    ¬ ∀ (e : Env) (c : Chain), c.strictTx = true → c.strictKey = false → NoReplay e c := by
  intro h
  exact C06W.key_check_needed.refutes (h _ _ rfl rfl)

/-- **Partial** (what holds of the code as it stands): among byte strings that are the canonical
marshalling of their own content, carry canonically encoded keys and are not RLP-wrapped, a second
byte string with the same signed content is never accepted — under the symbolic-signature
assumptions `SigUnique` (one signature per key and payload, one key per address).
What is missing for the full statement: the admission path does not enforce the two hypotheses. -/
theorem no_replay_partial (e : Env) (c : Chain) (raw₁ raw₂ : Bytes) (hu : SigUnique e)
    (hi : Included e c raw₁) (hh : 2 ≤ c.height) (hs : signedPart raw₂ = signedPart raw₁)
    (hc₁ : ∀ t, decodeTx raw₁ = some t → raw₁ = canon t) (hc₂ : ∀ t, decodeTx raw₂ = some t → raw₂ = canon t)
    (hk₁ : ∀ t g, decodeTx raw₁ = some t → t.signature = some g → pkCanonical g.publicKey = true)
    (hk₂ : ∀ t g, decodeTx raw₂ = some t → t.signature = some g → pkCanonical g.publicKey = true)
    (hm : ∀ t, decodeTx raw₁ = some t → isRlpMemo t.memo = false) :
    accepted e c raw₂ = false := by
  obtain ⟨hidx, c₀, hacc₀, _, _⟩ := hi
  cases hacc : accepted e c raw₂ with
  | false => rfl
  | true =>
    have heq := same_bytes_of_same_signed e c₀ c raw₁ raw₂ hu hacc₀ hacc hs hc₁ hc₂ hk₁ hk₂ hm
    obtain ⟨t, a, g, s, snd, f⟩ := accepted_inv e c raw₂ hacc
    rw [heq] at f
    exact absurd f.replay (checkReplay_dup e c raw₁ t g hh hidx)

/-- **Repaired code**: when `CheckTx` refuses non-canonical bytes and `CheckSignature` refuses
non-canonical key encodings, the full statement holds for every transaction that is not RLP-wrapped
(those are covered by the Ethereum-hash alias and, for RLP.V2, by `nonce_floor`). -/
theorem no_replay_repaired (e : Env) (c : Chain) (hu : SigUnique e) (h1 : c.strictTx = true) (h2 : c.strictKey = true)
    (raw₁ raw₂ : Bytes) (hi : Included e c raw₁) (hh : 2 ≤ c.height) (hs : signedPart raw₂ = signedPart raw₁)
    (hm : ∀ t, decodeTx raw₁ = some t → isRlpMemo t.memo = false) :
    accepted e c raw₂ = false := by
  obtain ⟨hidx, c₀, hacc₀, hst₀, hsk₀⟩ := hi
  cases hacc : accepted e c raw₂ with
  | false => rfl
  | true =>
    obtain ⟨t₁, a₁, g₁, s₁, snd₁, f₁⟩ := accepted_inv e c₀ raw₁ hacc₀
    obtain ⟨t₂, a₂, g₂, s₂, snd₂, f₂⟩ := accepted_inv e c raw₂ hacc
    have hun : t₂.unsigned = t₁.unsigned := by simpa [signedPart, f₁.dec, f₂.dec] using hs
    have hmemo := (unsigned_fields t₂ t₁ hun).2
    have hr₁ := hm t₁ f₁.dec
    have hr₂ : isRlpMemo t₂.memo = false := by rw [hmemo]; exact hr₁
    have key (c' : Chain) (t : TxContent) (a : AnyC) (g g' : SigC) (s : SendC) (snd : Bytes)
        (hk : c'.strictKey = true) (hr : isRlpMemo t.memo = false)
        (hb : checkBasic t = .ok (a, g)) (hsig : checkSignature e c'.strictKey c'.strictPad t g s.fromAddr = .ok snd)
        (hg : t.signature = some g') : pkCanonical g'.publicKey = true := by
      have := (checkBasic_ok hb).2.1
      rw [this] at hg
      simp only [Option.some.injEq] at hg
      subst hg
      obtain ⟨_, k, hd, hk', _⟩ := checkSignature_inv e _ _ t g _ _ hr hsig
      simp [pkCanonical, hd, hk' hk]
    have heq := same_bytes_of_same_signed e c₀ c raw₁ raw₂ hu hacc₀ hacc hs
      (fun t ht => by rw [f₁.dec] at ht; cases ht; exact f₁.canonical (hst₀.trans h1))
      (fun t ht => by rw [f₂.dec] at ht; cases ht; exact f₂.canonical h1)
      (fun t g ht hg => by
        rw [f₁.dec] at ht; cases ht
        exact key c₀ t₁ a₁ g₁ g s₁ snd₁ (hsk₀.trans h2) hr₁ f₁.basic f₁.sig hg)
      (fun t g ht hg => by
        rw [f₂.dec] at ht; cases ht
        exact key c t₂ a₂ g₂ g s₂ snd₂ h2 hr₂ f₂.basic f₂.sig hg)
      hm
    rw [heq] at f₂
    exact absurd f₂.replay (checkReplay_dup e c raw₁ t₂ g₂ hh hidx)

/-- **the code is the repaired admission path**: `CheckTx` compares the submitted bytes with
`lib.Marshal` of their decoded form, `CheckSignature` compares the submitted key bytes with
`PublicKeyI.Bytes()` of the parsed key (facts regenerated from `fsm/transaction.go`; removing either
comparison breaks this theorem, and the drivers then run the model of the unrepaired path, whose
re-encoding family the Go oracle replays) -/
theorem admission_enforces_canonical_encodings :
    Gen.Proto.canonicalTxEnforced = true ∧ Gen.Proto.canonicalKeyEnforced = true := by decide

/-! ## cross-chain, window, nonce floor (hold of the code as it stands) -/

/-- a transaction signed for another network or chain is never accepted -/
theorem cross_chain (e : Env) (c : Chain) (raw : Bytes) (t : TxContent) (hd : decodeTx raw = some t)
    (h : t.networkId ≠ c.networkId ∨ t.chainId ≠ c.chainId) : accepted e c raw = false := by
  cases hacc : accepted e c raw with
  | false => rfl
  | true =>
    obtain ⟨t', a, g, s, snd, f⟩ := accepted_inv e c raw hacc
    rw [f.dec] at hd; cases hd
    obtain ⟨h1, h2⟩ := checkReplay_network e c true raw t g f.replay
    rcases h with h | h
    · exact absurd h1.symm h
    · exact absurd h2.symm h

/-- outside `[height − 4320, height + 4320]` a transaction (other than RLP.V2) is never accepted -/
theorem window (e : Env) (c : Chain) (raw : Bytes) (t : TxContent) (hd : decodeTx raw = some t)
    (hh : 2 ≤ c.height) (hm : t.memo ≠ rlpV2Memo)
    (h : c.height + 4320 < t.createdHeight ∨ t.createdHeight + 4320 < c.height) : accepted e c raw = false := by
  cases hacc : accepted e c raw with
  | false => rfl
  | true =>
    obtain ⟨t', a, g, s, snd, f⟩ := accepted_inv e c raw hacc
    rw [f.dec] at hd; cases hd
    have := (inWindow_iff _ _).mp (checkReplay_window e c true raw t g f.replay hh hm)
    simp only [blockAcceptanceRange] at this
    omega

/-- the only memo exempt from the window is the RLP.V2 indicator: the condition of the early return of
`CheckReplay`, as regenerated from the source, evaluated to the set of memos it holds for -/
theorem window_exemption_src :
    Gen.Proto.src_windowExemption = "tx.Memo == RLPV2Indicator" ∧ Gen.Proto.windowExemptMemos = [rlpV2Memo] := by
  decide

/-- **expiry**: every accepted transaction whose memo is not one of the memos the code exempts
(`Gen.Proto.windowExemptMemos`, from the source) was created within 4320 blocks of the chain height -/
theorem expiry (e : Env) (c : Chain) (raw : Bytes) (t : TxContent) (hd : decodeTx raw = some t)
    (hh : 2 ≤ c.height) (hacc : accepted e c raw = true) (hm : t.memo ∉ Gen.Proto.windowExemptMemos) :
    t.createdHeight ≤ c.height + 4320 ∧ c.height ≤ t.createdHeight + 4320 := by
  rw [window_exemption_src.2] at hm
  have hm' : t.memo ≠ rlpV2Memo := by simpa using hm
  obtain ⟨t', a, g, s, snd, f⟩ := accepted_inv e c raw hacc
  rw [f.dec] at hd; cases hd
  have := (inWindow_iff _ _).mp (checkReplay_window e c true raw t g f.replay hh hm')
  simpa [blockAcceptanceRange] using this

/-- non-vacuity of `window`: inside the window the honest transaction is accepted (created at 1,
chain at height 1 and — re-encoded — at height 3), and a chain 4322 blocks later refuses it -/
example : accepted C06W.env (C06W.chain₀ false false) C06W.edRaw = true ∧
    accepted C06W.env { C06W.chain₂ false false with height := 4322 } C06W.ed_varint_pad = false := by
  decide +kernel

/-- RLP.V2: a nonce below the account's floor is never accepted -/
theorem nonce_floor (e : Env) (c : Chain) (raw : Bytes) (h : accepted e c raw = true) :
    ∃ t sender, decodeTx raw = some t ∧ (t.memo = rlpV2Memo → (c.account sender).nonce ≤ t.nonce) := by
  obtain ⟨t, a, g, s, snd, f⟩ := accepted_inv e c raw h
  exact ⟨t, snd, f.dec, fun hm => (f.nonce hm).1⟩

/-- executing an RLP.V2 transaction raises the sender's floor past the nonce it used, so the same
Ethereum transaction (and any other with a nonce up to it) is refused afterwards -/
theorem nonce_floor_rises (c c' : Chain) (k : Checked) (hm : k.tx.memo = rlpV2Memo)
    (h : applyChecked c k = .ok c') : (c'.account k.sender).nonce = k.tx.nonce + 1 :=
  Replay.nonce_bumped c c' k hm h

/-- the Ethereum-hash alias under which the indexer files an RLP-backed transaction and the hash
`CheckReplay` looks up are the same function of the raw bytes — go-ethereum's `Transaction.Hash()`, which
ignores the envelope (an EIP-4844 sidecar): the model's `Env.ethHash` / `indexedHashes` use one table for
both. A hash of the raw envelope would make the network / canonical forms of one signed blob transaction
distinct (oracle `C06:replay-by-eth-envelope-twin`). -/
theorem eth_alias_src :
    Gen.Proto.ethAliasReturns = ["return ethTx.Hash().Bytes()", "return tx.Hash().Bytes(), nil"] := by decide

/-! ## multi-signature keys: the signer bitmap's padding

A serialized `crypto.MultiPublicKey` pads its signer bitmap to whole bytes. The padding bits are
outside the sign bytes, the address and the aggregation; while the parser accepts them raised, ANYONE
can turn an included multi-signature transaction into another byte string with a valid signature
(measured on the real code: oracle `C06:replay-by-multisig-bitmap-padding`). The model carries the
repaired rule as `Chain.strictPad` (read from the source: `Gen.Proto.multisigPaddingEnforced`): -/

/-- **the code is the repaired parser** (8c75cbd): `NewMultiBLSFromPublicKey` looks at the bits of the
signer bitmap beyond the last key (fact regenerated from lib/crypto/bls.go; removing the test breaks this
theorem, the drivers then run the model without the rule, and the Go oracle replays an included multisig
send with a raised padding bit: `C06:replay-by-multisig-bitmap-padding`) -/
theorem multisig_padding_src : Gen.Proto.multisigPaddingEnforced = true := by decide

/-- an accepted transaction signed by a multi-signature key has, under the repaired parser, a bitmap of
exactly ⌈n/8⌉ bytes whose padding bits are zero -/
theorem accepted_multisig_key_unpadded (e : Env) (c : Chain) (raw : Bytes) (hp : c.strictPad = true)
    (h : accepted e c raw = true) :
    ∃ t g, decodeTx raw = some t ∧ t.signature = some g ∧
      (isRlpMemo t.memo = false → ∀ k, pkDecode g.publicKey = some (.multi, k) → multiPadOk g.publicKey = true) := by
  obtain ⟨t, a, g, s, snd, f⟩ := accepted_inv e c raw h
  refine ⟨t, g, f.dec, (checkBasic_ok f.basic).2.1, fun hr k hk => ?_⟩
  obtain ⟨sch, k', hd, _, _, _, _, hpad⟩ := checkSignature_inv e _ _ t g _ _ hr f.sig
  rw [hk] at hd
  simp only [Option.some.injEq, Prod.mk.injEq] at hd
  exact hpad hp hd.1.symm

/-- the rule on a miniature key (three one-byte "keys", threshold 2): bitmap `05` is a key, `0d`
(padding bit 3 raised), `85` and a two-byte bitmap are not -/
example :
    multiPadOk [0x0a, 0x01, 0xaa, 0x0a, 0x01, 0xbb, 0x0a, 0x01, 0xcc, 0x12, 0x01, 0x05, 0x18, 0x02] = true ∧
    multiPadOk [0x0a, 0x01, 0xaa, 0x0a, 0x01, 0xbb, 0x0a, 0x01, 0xcc, 0x12, 0x01, 0x0d, 0x18, 0x02] = false ∧
    multiPadOk [0x0a, 0x01, 0xaa, 0x0a, 0x01, 0xbb, 0x0a, 0x01, 0xcc, 0x12, 0x01, 0x85, 0x18, 0x02] = false ∧
    multiPadOk [0x0a, 0x01, 0xaa, 0x0a, 0x01, 0xbb, 0x0a, 0x01, 0xcc, 0x12, 0x02, 0x05, 0x00, 0x18, 0x02] = false := by
  decide

/-- every writer of an account nonce in fsm/*.go, and every `Account{…}` record built from scratch
(regenerated from the source): the nonce is assigned in `ApplyTransaction` only (`UnmarshalJSON` copies
it, `rlpToCanopyTransaction` fills the TRANSACTION's nonce), and no code path rebuilds an account record
field by field — a literal that left `Nonce` out would reset the RLP.V2 floor -/
theorem account_nonce_writes_src :
    Gen.Proto.accountNonceWrites =
      ["account.go:UnmarshalJSON: x.Nonce = a.Nonce",
       "ethereum.go:rlpToCanopyTransaction: transaction.Nonce = tx.Nonce()",
       "transaction.go:ApplyTransaction: account.Nonce = result.tx.Nonce + 1"] ∧
    Gen.Proto.accountLiterals = [] := by decide

/-- **the nonce floor has one writer**: executing a transaction leaves every account's nonce as it
was, except that an RLP.V2 transaction sets its sender's to its own nonce + 1; in particular receiving
a send — plain or with a vesting schedule — never changes the recipient's nonce -/
theorem nonce_written_only_by_rlpv2 (c c' : Chain) (k : Checked) (h : applyChecked c k = .ok c') (a : Bytes) :
    (c'.account a).nonce =
      if k.tx.memo = rlpV2Memo ∧ k.sender = a then k.tx.nonce + 1 else (c.account a).nonce :=
  Replay.nonce_after c c' k h a

/-- … and therefore never goes down (an accepted RLP.V2 transaction has `floor ≤ nonce`, `nonce_floor`) -/
theorem nonce_floor_monotone (c c' : Chain) (k : Checked) (h : applyChecked c k = .ok c')
    (hf : k.tx.memo = rlpV2Memo → (c.account k.sender).nonce ≤ k.tx.nonce) (a : Bytes) :
    (c.account a).nonce ≤ (c'.account a).nonce := Replay.nonce_monotone c c' k h hf a

end Canopy.C06
