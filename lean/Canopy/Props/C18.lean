import Canopy.Proof.Mux
/-!
# C18 — multiplexed peer messaging

Model: `Model/Mux.lean` (`Canopy.Mux`): per-topic FIFO send queues, `split`/`packetsOf` as `MultiConn.Send`
builds them, a scheduler that may take the head of ANY non-empty queue at any time (`MuxOp.pick`), a
network that hands wire packets to the receiver one by one (`MuxOp.deliver`), the receiver's per-topic
assembler with the size cap, the inbox with drop-newest-when-full, and an application that drains
inboxes at arbitrary moments. A history is ANY list of these operations: every interleaving of
concurrent senders across topics, of the send loop's `select`, of the network and of the consumer.

Limits and topic ids are generated from `p2p/conn.go` / `lib/peer.pb.go` (`Limits.code`); the theorems
hold for every `Limits`.

Not expressible here: "none of this involves a data race" (Go memory model). See `checks/C18.py`.
Sender attribution: a `MultiConn` has exactly one remote identity, fixed by the handshake (C17); every
inbox entry of the connection carries it (checked on the real code by the correspondence run).
-/
namespace Canopy.C18
open Canopy Canopy.Mux

/-! ## structural facts (regenerated from /repo on every run) -/

theorem limits_code : Limits.code.chunk = Gen.Mux.maxPacketSize - Gen.Mux.packetHeaderSize ∧
    Gen.Mux.maxPacketSize * Gen.Mux.maxChunksPerPacket = Gen.Mux.maxMessageSize ∧
    Limits.code.chunk = 999950 ∧ Limits.code.maxMsg = 256000000 ∧ Limits.code.inboxCap = 1000 ∧
    Limits.code.heartbeat = 6 ∧ Limits.code.invalid = 99 := by decide

/-- the functions the hand model follows -/
theorem src_pinned :
    Gen.Mux.src_split = "if len(buf) == 0 { return [][]byte{buf} }; var chunk []byte; chunks := make([][]byte, 0, len(buf) / lim + 1); for ; len(buf) >= lim;  { chunk, buf = buf[:lim], buf[lim:]; chunks = append(chunks, chunk) }; if len(buf) > 0 { chunks = append(chunks, buf[:]) }; return chunks" ∧
    Gen.Mux.src_queueSends = "defer lib.TimeTrack(s.logger, time.Now(), time.Second); s.mu.Lock(); defer s.mu.Unlock(); for i, packet := range packets { ok := s.queueSend(packet, sendStart, metrics); if !ok { return false, i > 0 } }; return true, false" ∧
    Gen.Mux.src_queueSend = "if s.closed { return false }; queueStart := time.Now(); pwt := &PacketWithTiming{packet: p, sendStart: sendStart, queueStart: queueStart}; select { case s.sendQueue <- pwt: return true; case <-time.After(queueSendTimeout): if metrics != nil { metrics.SendQueueTimeout.Inc(); metrics.SendQueueFull.WithLabelValues(lib.Topic_name[int32(p.StreamId)]).Inc() }; return false }" ∧
    Gen.Mux.src_handlePacket = "assemblyStart := time.Now(); msgAssemblerLen, packetLen := len(s.msgAssembler), len(packet.Bytes); if int(maxMessageSize) < msgAssemblerLen + packetLen { s.msgAssembler = s.msgAssembler[:0]; return MaxMessageExceededSlash, ErrMaxMessageSize() }; s.msgAssembler = append(s.msgAssembler, packet.Bytes...); if packet.Eof { msg := make([]byte, len(s.msgAssembler)); copy(msg, s.msgAssembler); m := &lib.MessageAndMetadata{Message: msg, Sender: peerInfo}; if metrics != nil { metrics.ReceiveAssemblyTime.Observe(time.Since(assemblyStart).Seconds()) }; select { case s.inbox <- m: if len(s.inbox) > maxInboxQueueSize / 4 { s.logger.Errorf(\"OVERSIZE INBOX: %d\", len(s.inbox)) }; default: s.logger.Errorf(\"CRITICAL: Inbox %s queue full in receive service\", lib.Topic_name[int32(packet.StreamId)]); s.logger.Error(\"Dropping newest message\") }; s.msgAssembler = s.msgAssembler[:0] }; return 0, nil" ∧
    Gen.Mux.src_Send = "defer lib.TimeTrack(c.log, time.Now(), time.Second); startTime := time.Now(); stream, ok := c.streams[topic]; if !ok { c.log.Errorf(\"Stream %s does not exist\", topic); return }; chunks := split(bz, int(maxDataChunkSize)); var packets []*Packet; for i, chunk := range chunks { packets = append(packets, &Packet{StreamId: topic, Eof: i == len(chunks) - 1, Bytes: chunk}) }; if c.p2p.metrics != nil { c.p2p.metrics.MessageSize.Observe(float64(len(bz))); c.p2p.metrics.PacketsPerMessage.Observe(float64(len(packets))) }; var partial bool; ok, partial = stream.queueSends(packets, startTime, c.p2p.metrics); if !ok { c.log.Errorf(\"Packet(ID:%s) packet failed in queue for: %s\", lib.Topic_name[int32(topic)], lib.BytesToTruncatedString(c.Address.PublicKey)); if partial { c.Error(ErrFailedWrite(io.ErrShortWrite)) } }; return" :=
  ⟨rfl, rfl, rfl, rfl, rfl⟩

/-- the receive loop's dispatch, which queues the send loop serves, which ids get a stream and which an inbox -/
theorem src_pinned_loops :
    Gen.Mux.src_receiveDispatch = "switch x := msg.(type) { case *Packet: if x.StreamId == heartbeatTopic { c.handleHeartbeatPacket(x); continue }; stream, found := c.streams[x.StreamId]; if !found { c.Error(ErrBadStream(), BadStreamSlash); return }; if slash, er := stream.handlePacket(c.peerInfo, x, c.p2p.metrics); er != nil { c.log.Warn(er.Error()); c.Error(er, slash); return }; default: c.Error(ErrUnknownP2PMsg(x), UnknownMessageSlash); return }" ∧
    Gen.Mux.sendLoopCases = ["pwt = <-c.streams[heartbeatTopic].sendQueue", "pwt = <-c.streams[lib.Topic_CONSENSUS].sendQueue", "pwt = <-c.streams[lib.Topic_BLOCK].sendQueue", "pwt = <-c.streams[lib.Topic_BLOCK_REQUEST].sendQueue", "pwt = <-c.streams[lib.Topic_TX].sendQueue", "pwt = <-c.streams[lib.Topic_PEERS_RESPONSE].sendQueue", "pwt = <-c.streams[lib.Topic_PEERS_REQUEST].sendQueue", "<-c.quitSending"] ∧
    Gen.Mux.src_NewStreams = "streams = make(<*ast.MapType>, lib.Topic_INVALID + 1); for i, _ := range lib.Topic_INVALID { if i == lib.Topic_HEARTBEAT { continue }; streams[i] = &Stream{topic: i, msgAssembler: make([]byte, 0), sendQueue: make(<*ast.ChanType>, maxStreamSendQueueSize), inbox: p.Inbox(i), logger: p.log} }; streams[lib.Topic_HEARTBEAT] = &Stream{topic: lib.Topic_HEARTBEAT, msgAssembler: make([]byte, 0), sendQueue: make(<*ast.ChanType>, maxStreamSendQueueSize), inbox: nil, logger: p.log}; return" ∧
    Gen.Mux.src_inboxChannels = "for i := lib.Topic(0); i <= lib.Topic_HEARTBEAT; i++ { channels[i] = make(<*ast.ChanType>, maxInboxQueueSize) }" :=
  ⟨rfl, rfl, rfl, rfl⟩

/-! ## `split` / `packetsOf` -/

/-- the packets of a message carry exactly its bytes, in order, in chunks of at most `chunk` bytes -/
theorem split_exact (L : Limits) (m : Bytes) :
    (split m L.chunk).flatten = m ∧ (∀ c ∈ split m L.chunk, c.length ≤ L.chunk) ∧ split m L.chunk ≠ [] :=
  ⟨split_flatten m L.chunk L.chunk_pos, split_bound m L.chunk L.chunk_pos, split_ne_nil m L.chunk⟩

/-- **split_covers**: for EVERY message length (also beyond any limit) the chunks of `split` concatenate to
the whole buffer, there are exactly ⌈len / chunk⌉ of them (one empty chunk for the empty message) — no
cap on their number — and their lengths are the ones `splitLens` computes from the length alone, which
add up to the length. A `split` that stops after some number of chunks drops the tail of the message. -/
theorem split_covers (L : Limits) (m : Bytes) :
    (split m L.chunk).flatten = m ∧
    (m.length ≠ 0 → (split m L.chunk).length = (m.length + L.chunk - 1) / L.chunk) ∧
    (split m L.chunk).map List.length = splitLens m.length L.chunk ∧
    (splitLens m.length L.chunk).sum = m.length := by
  refine ⟨split_flatten m L.chunk L.chunk_pos, fun h => ?_, split_lens_eq m L.chunk, ?_⟩
  · have := congrArg List.length (split_lens_eq m L.chunk)
    rw [List.length_map] at this
    rw [this]; unfold splitLens; rw [if_neg h]
    exact splitLensLoop_length L.chunk L.chunk_pos _ _ (by omega)
  · unfold splitLens; split
    · rename_i h; simp [h]
    · exact splitLensLoop_sum L.chunk L.chunk_pos _ _ (by omega)

/-- at the real constants: a message of 255,987,201 bytes (one more than 256 full chunks) needs a 257th
packet, and the largest legal message (256,000,000 bytes) ends with a 12,800-byte packet -/
example : (splitLens 255987201 Limits.code.chunk).length = 257 ∧ (splitLens 255987201 Limits.code.chunk).getLast? = some 1 ∧
    (splitLens 256000000 Limits.code.chunk).length = 257 ∧ (splitLens 256000000 Limits.code.chunk).getLast? = some 12800 ∧
    (splitLens 255987200 Limits.code.chunk).length = 256 := by decide +kernel

/-- … and a receiver that sees exactly these packets on an idle topic assembles exactly the message -/
theorem packets_reassemble (L : Limits) (t : Nat) (m : Bytes) (h : m.length ≤ L.maxMsg) :
    assembleOk L [] (packetsOf L t m) = some [m] := assembleOk_packetsOf L t m h

/-! ## delivery -/

/-- **delivery_partial** (for any limits, with or without the repair; carries `EnqueueAtomic` explicitly
and adds the no-silent-loss clauses). For EVERY history (every set of sends on every topic, every schedule of the send
loop, every network timing, every consumer timing) in which each enqueue is all-or-nothing
(`EnqueueAtomic`) and each send is within the statement (`SendsValid`: a real stream id, size ≤ limit):
the connection is never closed, and for every topic `t` the messages ever appended to `t`'s inbox
(`log`) are, in order, a subsequence of a PREFIX `done` of the messages sent on `t` — each of them
byte-identical to a sent message of that same topic, whole; the rest (`todo`) is still in flight or
queued. Nothing else — no truncation, no merge, no other topic's bytes — is ever delivered.
Moreover (no silent loss): once nothing of `t` is pending, `done` is everything; and if `t` has an
inbox and at most `inboxCap` messages were sent on it, nothing was dropped at all. -/
theorem delivery_partial (L : Limits) (ops : List MuxOp) (hA : EnqueueAtomic ops) (hV : SendsValid L ops) (t : Nat) :
    (Conn.run L Conn.init ops).r.closed = none ∧
    ∃ done todo, sentOn t ops = done ++ todo ∧
      ((Conn.run L Conn.init ops).r.log.get t).Sublist done ∧
      (pending (Conn.run L Conn.init ops) t = [] → todo = []) ∧
      (t < L.inboxTopics → (sentOn t ops).length ≤ L.inboxCap → (Conn.run L Conn.init ops).r.log.get t = done) := by
  have h := run_inv L ops hA hV (CInv.init L)
  simp only [List.nil_append] at h
  refine ⟨h.open_, ?_⟩
  obtain ⟨done, todo, ha, hs, hl, _, he⟩ := h.topic t
  refine ⟨done, todo, hs, hl, ?_, he⟩
  intro hp
  rw [hp] at ha
  exact (assembleOk_nil_inv L _ _ ha).2

/-- corollary: everything sent on a topic with an inbox arrives, exactly and in order, once the
topic's packets have all been scheduled and handed over (and the inbox never overflowed) -/
theorem delivery_complete (L : Limits) (ops : List MuxOp) (hA : EnqueueAtomic ops) (hV : SendsValid L ops) (t : Nat)
    (hp : pending (Conn.run L Conn.init ops) t = []) (ht : t < L.inboxTopics)
    (hc : (sentOn t ops).length ≤ L.inboxCap) :
    (Conn.run L Conn.init ops).r.log.get t = sentOn t ops := by
  obtain ⟨_, done, todo, hs, _, h1, h2⟩ := delivery_partial L ops hA hV t
  rw [h2 ht hc, hs, h1 hp, List.append_nil]

/-- GENERATED FACT the full-strength theorem rests on: `Send` ends the connection when `queueSends`
reports that only a prefix of the message was enqueued (`if partial { c.Error(…) }`). Recomputed from
`p2p/conn.go` on every run; when false, this theorem and `delivery` no longer check and
`partial_enqueue_merges` (replayed on the real code in the thorough tier) is the failing input. -/
theorem tears_down_on_partial : Gen.Mux.partialEnqueueTearsDown = true := by decide

/-- GENERATED FACT the model's atomic `MuxOp.send` step rests on: `queueSends` takes the stream mutex
before anything else and every `queueSend` of a message happens under it, and no other enqueue path of
`p2p/conn.go` feeds a message stream directly (only the heartbeat stream, which never carries
multi-packet messages). Without it a one-packet message of a concurrent sender can land between the
packets of a larger one on the same topic; the Go scenario `concurrent-small-and-large-same-topic`
(`C18:received-differs-from-sent:interleaved-senders`) then supplies the interleaving. -/
theorem enqueue_under_stream_mutex : Gen.Mux.enqueueUnderStreamMutex = true := by decide

/-- GENERATED FACT the model's per-topic assemblers (`Receiver.asm : TMap`, one independent byte string
per stream) rest on: in `NewStreams` every `Stream{…}` gets a fresh `make(…)` as its `msgAssembler`, not a
slice of a buffer shared between the streams of a connection. Without it a packet handled on one
topic can overwrite the pending bytes of another; the Go scenario
`interleaved-topics-first-large-message` (`C18:received-differs-from-sent:cross-topic-assembler`) then
supplies the interleaving. -/
theorem assembler_per_stream : Gen.Mux.assemblerPerStream = true := by decide

/-- GENERATED FACT: the identity `AddPeer` records for a connection (the `Sender` of every delivered message
and the peer-set key) is `connection.Address.PublicKey`, the key the handshake authenticated, on every
path. When false, the Go scenario `dial-attribution` (`C18:sender-not-authenticated-identity:<mode>`)
supplies the connection on which messages are attributed to a key nobody proved. -/
theorem attribution_is_authenticated_key : Gen.Mux.attributionIsAuthenticatedKey = true := by decide

/-- **sender_is_authenticated**: whatever key was dialed or claimed, inbound or outbound, strict or not —
if `AddPeer` registers the peer at all, the recorded identity is the key the handshake authenticated
(the identity of C17's `auth`); a strict outbound dial whose dialed key differs is refused; and every
entry of every topic's inbox log of that connection carries exactly that identity. -/
theorem sender_is_authenticated (auth : Nat) (claimed : Option Nat) (outbound strict : Bool) :
    (∀ k, recordedIdentity auth claimed outbound strict = some k → k = auth) ∧
    (outbound = true → strict = true → claimed ≠ some auth → recordedIdentity auth claimed outbound strict = none) ∧
    (∀ (r : Receiver) (t k : Nat), recordedIdentity auth claimed outbound strict = some k →
      ∀ e ∈ r.tagged k t, e.sender = auth ∧ e.msg ∈ r.log.get t) := by
  refine ⟨fun k h => ?_, fun ho hs hc => by simp [recordedIdentity, ho, hs, hc], fun r t k h e he => ?_⟩
  · unfold recordedIdentity at h; split at h
    · cases h
    · exact (Option.some.inj h).symm
  · have hk : k = auth := by
      unfold recordedIdentity at h; split at h
      · cases h
      · exact (Option.some.inj h).symm
    simp only [Receiver.tagged, List.mem_map] at he
    obtain ⟨m, hm, rfl⟩ := he
    exact ⟨hk, hm⟩

/-- non-vacuity: a non-strict outbound dial with a WRONG key still records the authenticated key; a strict one is refused -/
example : recordedIdentity 2 (some 9) true false = some 2 ∧ recordedIdentity 2 (some 9) true true = none ∧
    recordedIdentity 2 none true false = some 2 ∧ recordedIdentity 2 (some 9) false false = some 2 := by decide

/-- **delivery** (general form): for code that ends the connection on a partial enqueue, NO atomicity
hypothesis is needed — for EVERY history, including enqueues that time out between packets at any
point, the connection is never closed by the receiver's checks and for every topic the messages ever
appended to its inbox are, in order, a subsequence of a prefix of the messages sent on it, each whole
and byte-identical; everything else is "not at all". -/
theorem delivery_of_teardown (L : Limits) (hT : L.tearDownOnPartial = true) (ops : List MuxOp)
    (hV : SendsValid L ops) (t : Nat) :
    (Conn.run L Conn.init ops).r.closed = none ∧
    ∃ done todo, sentOn t ops = done ++ todo ∧ ((Conn.run L Conn.init ops).r.log.get t).Sublist done := by
  by_cases hA : EnqueueAtomic ops
  · obtain ⟨h1, done, todo, hs, hl, _⟩ := delivery_partial L ops hA hV t
    exact ⟨h1, done, todo, hs, hl⟩
  · obtain ⟨ops₁, t0, m, k, ops₂, he, hA₁⟩ := exists_first_partial ops hA
    subst he
    have hV₁ : SendsValid L ops₁ := fun o ho => hV o (List.mem_append_left _ ho)
    obtain ⟨h1, done, todo, hs, hl⟩ := delivery_after_teardown L hT ops₁ ops₂ t0 m k hA₁ hV₁ t
    refine ⟨h1, done, todo ++ sentOn t (.sendPartial t0 m k :: ops₂), ?_, hl⟩
    rw [sentOn_append, hs, List.append_assoc]

/-- **delivery** — the statement about the code as it is (limits, topic ids and the teardown fact all
generated from the source; the atomic `send` step of the model is justified by
`enqueue_under_stream_mutex`). -/
theorem delivery (ops : List MuxOp) (hV : SendsValid Limits.code ops) (t : Nat) :
    (Conn.run Limits.code Conn.init ops).r.closed = none ∧
    ∃ done todo, sentOn t ops = done ++ todo ∧
      ((Conn.run Limits.code Conn.init ops).r.log.get t).Sublist done :=
  -- the per-message atomic enqueue of `Conn.step (.send …)` is what `enqueue_under_stream_mutex` says of the code
  have _atomic := enqueue_under_stream_mutex
  -- the independent per-topic assemblers of `Receiver` are what `assembler_per_stream` says of the code
  have _assemblers := assembler_per_stream
  -- the sender tag of every inbox entry is the handshake-authenticated key (`sender_is_authenticated`)
  have _sender := attribution_is_authenticated_key
  delivery_of_teardown Limits.code tears_down_on_partial ops hV t

/-- a small instance of the limits for executable witnesses (2-byte packets, 6-byte messages) (`tearDownOnPartial = false`: the code before the repair) -/
def tiny : Limits := ⟨2, 6, 10, 6, 99, 6, false, by decide⟩

/-- the same limits for code that ends the connection on a partial enqueue -/
def tinyFixed : Limits := ⟨2, 6, 10, 6, 99, 6, true, by decide⟩

def okOps : List MuxOp := [.send 0 [1, 2, 3, 4, 5], .send 1 [9, 9, 9], .pick 0, .pick 1, .send 0 [7], .pick 0, .pick 1,
  .deliver, .deliver, .pick 0, .pick 0, .deliver, .deliver, .deliver, .deliver]

/-- A = "AAAA" cut after its first packet, then B = "BB" whole, both scheduled and delivered -/
def f8Ops : List MuxOp := [.sendPartial 0 [65, 65, 65, 65] 1, .send 0 [66, 66], .pick 0, .pick 0, .deliver, .deliver]

/-- non-vacuity of `delivery_partial` / `delivery`: two topics, interleaved packets of multi-packet messages — hypotheses
hold, everything arrives intact on its own topic -/
example :
    EnqueueAtomic okOps ∧ SendsValid tiny okOps ∧
    (Conn.run tiny Conn.init okOps).r.log.get 0 = [[1, 2, 3, 4, 5], [7]] ∧
    (Conn.run tiny Conn.init okOps).r.log.get 1 = [[9, 9, 9]] := by decide

/-! ## over-limit and malformed traffic -/

/-- **drop_clears_assembler.** The inbox-full branch ("Dropping newest message"): when an EOF packet
completes a message and the topic's inbox has no room (or the stream has no inbox), the message is
dropped WHOLE — nothing is logged, the connection stays open, and the stream's assembler is empty
again, so the next message on that topic starts from nothing. (`delivery` / `delivery_partial` cover
histories with such drops: what is delivered is always a subsequence of what was sent.) -/
theorem drop_clears_assembler (L : Limits) (r : Receiver) (p : Packet) (ho : r.closed = none)
    (ht : p.topic ≠ L.heartbeat ∧ p.topic < L.invalid) (hfit : ¬ L.maxMsg < (r.asm.get p.topic).length + p.bytes.length)
    (heof : p.eof = true) (hfull : ¬ (p.topic < L.inboxTopics ∧ (r.inbox.get p.topic).length < L.inboxCap)) :
    (r.handle L p).asm.get p.topic = [] ∧ (r.handle L p).log = r.log ∧ (r.handle L p).inbox = r.inbox ∧
    (r.handle L p).closed = none := by
  have hnv : ¬ p.topic ≥ L.invalid := by omega
  simp [Receiver.handle, ho, ht.1, hnv, hfit, heof, hfull]

/-- non-vacuity (inbox capacity 1 for the witness): the second message is dropped, the third arrives as itself -/
example :
    let L1 : Limits := ⟨2, 6, 1, 6, 99, 6, false, by decide⟩
    ((Receiver.init.run L1 [⟨0, true, [1]⟩, ⟨0, false, [2, 2]⟩, ⟨0, true, [2]⟩]).drain 0 |>.run L1 [⟨0, true, [3]⟩]).log.get 0
      = [[1], [3]] := by decide

/-- **overlimit_closes.** A packet that would take a stream's assembler beyond the limit closes the
connection; nothing is delivered, the partial data is discarded. -/
theorem overlimit_closes (L : Limits) (r : Receiver) (p : Packet) (ho : r.closed = none)
    (ht : p.topic ≠ L.heartbeat ∧ p.topic < L.invalid)
    (hover : L.maxMsg < (r.asm.get p.topic).length + p.bytes.length) :
    (r.handle L p).closed = some .maxMessageSize ∧ (r.handle L p).log = r.log ∧
    (r.handle L p).inbox = r.inbox ∧ (r.handle L p).asm.get p.topic = [] := by
  have hnv : ¬ p.topic ≥ L.invalid := by omega
  simp [Receiver.handle, ho, ht.1, hnv, hover]

/-- an unknown stream id closes the connection without delivery -/
theorem bad_stream_closes (L : Limits) (r : Receiver) (p : Packet) (ho : r.closed = none)
    (ht : p.topic ≠ L.heartbeat) (hbad : p.topic ≥ L.invalid) :
    (r.handle L p).closed = some .badStream ∧ (r.handle L p).log = r.log ∧ (r.handle L p).inbox = r.inbox := by
  simp [Receiver.handle, ho, ht, hbad]

/-- the frame-level receive path the model's `Receiver.malformed` follows: a fresh `Envelope` per wire message,
and `receiveLengthPrefixed` always reads (and returns) a body, also an empty one -/
theorem src_pinned_wire :
    Gen.Mux.src_waitForAndHandleWireBytes = "receiveStart := time.Now(); msg := new(Envelope); _, err := receiveProtoMsg(c.conn, msg); if err != nil { return nil, err }; if c.p2p.metrics != nil { c.p2p.metrics.ReceiveWireTime.Observe(time.Since(receiveStart).Seconds()) }; return lib.FromAny(msg.Payload)" ∧
    Gen.Mux.src_receiveLengthPrefixed = "readTimeout := ReadTimeout; if len(timeout) == 1 { readTimeout = timeout[0] }; if err := conn.SetReadDeadline(time.Now().Add(readTimeout)); err != nil { return nil, ErrFailedRead(err) }; lengthBuffer := make([]byte, 4); if _, err := io.ReadFull(conn, lengthBuffer); err != nil { return nil, ErrFailedRead(err) }; messageLength := binary.BigEndian.Uint32(lengthBuffer); if messageLength > maxPacketSize { return nil, ErrMaxMessageSize() }; msg := make([]byte, messageLength); if _, err := io.ReadFull(conn, msg); err != nil { return nil, ErrFailedRead(err) }; _ = conn.SetReadDeadline(time.Time{}); return msg, nil" :=
  ⟨rfl, rfl⟩

/-- **malformed_closes.** A wire frame that is not a well-formed packet envelope closes the connection;
nothing is delivered, no assembler is touched, and (by `closed_is_final`) nothing is delivered afterwards. -/
theorem malformed_closes (r : Receiver) (ho : r.closed = none) :
    r.malformed.closed = some .malformed ∧ r.malformed.log = r.log ∧ r.malformed.inbox = r.inbox ∧
    r.malformed.asm = r.asm := by
  simp [Receiver.malformed, ho]

/-- once closed, nothing is ever delivered again -/
theorem closed_is_final (L : Limits) (r : Receiver) (ps : List Packet) (h : r.closed.isSome) : r.run L ps = r :=
  run_closed L r ps h

/-- a whole over-limit message (all its packets, on an otherwise idle stream) closes the connection
before anything of it is delivered -/
theorem overlimit_message_closes (L : Limits) (t : Nat) (ht : t ≠ L.heartbeat ∧ t < L.invalid) (m : Bytes)
    (hm : L.maxMsg < m.length) :
    (Receiver.init.run L (packetsOf L t m)).closed = some .maxMessageSize ∧
    (Receiver.init.run L (packetsOf L t m)).log = [] ∧ (Receiver.init.run L (packetsOf L t m)).inbox = [] := by
  have := run_overflow L t ht (split m L.chunk) (split_ne_nil m L.chunk) Receiver.init rfl (by
    rw [split_flatten m L.chunk L.chunk_pos]; simpa [Receiver.init] using hm)
  simpa [packetsOf, Receiver.init] using this

/-- non-vacuity: a 7-byte message under `tiny` (limit 6) -/
example : (Receiver.init.run tiny (packetsOf tiny 0 [1, 2, 3, 4, 5, 6, 7])).closed = some .maxMessageSize ∧
    (Receiver.init.run tiny (packetsOf tiny 0 [1, 2, 3, 4, 5, 6])).log.get 0 = [[1, 2, 3, 4, 5, 6]] := by decide

/-- OBSERVATION (outside the statement): stream ids between the heartbeat and `Topic_INVALID` have a
stream but no inbox channel — their packets are assembled (up to the full limit each) and the finished
message is dropped, without closing the connection. -/
example : (Receiver.init.run Limits.code [⟨50, true, [1, 2, 3]⟩]).closed = none ∧
    (Receiver.init.run Limits.code [⟨50, true, [1, 2, 3]⟩]).log.get 50 = [] := by decide

/-! ## what happens without `EnqueueAtomic` (DESIGN §8-F8) -/

/-- **partial_enqueue_merges** (the code BEFORE the repair, `tearDownOnPartial = false`). `queueSends` gives up after `queueSendTimeout` BETWEEN packets and
leaves the already queued prefix (no EOF) in flight. Witness: message A = "AAAA" (two packets) is cut
after its first packet — `Send` reports failure — then B = "BB" is sent whole. The receiver delivers
ONE message "AABB", which nobody sent: A's orphaned prefix merged with B. -/
theorem partial_enqueue_merges :
    ¬ EnqueueAtomic f8Ops ∧ SendsValid tiny f8Ops ∧
    (Conn.run tiny Conn.init f8Ops).r.log.get 0 = [[65, 65, 66, 66]] ∧
    [65, 65, 66, 66] ∉ sentOn 0 f8Ops ∧ ([65, 65, 66, 66] : Bytes) ≠ [65, 65, 65, 65] := by decide

/-- with the repair the same history ends the connection on the sending side: B is refused, nothing
reaches the wire, nothing is delivered -/
example : (Conn.run tinyFixed Conn.init f8Ops).s.dead = true ∧ (Conn.run tinyFixed Conn.init f8Ops).s.wire = [] ∧
    (Conn.run tinyFixed Conn.init f8Ops).r.log.get 0 = [] := by decide

/-- the hypothesis is exactly what is missing: with the same two sends enqueued atomically the same
schedule delivers A and B intact -/
example :
    (Conn.run tiny Conn.init [.send 0 [65, 65, 65, 65], .send 0 [66, 66], .pick 0, .pick 0, .pick 0, .deliver, .deliver, .deliver]).r.log.get 0
      = [[65, 65, 65, 65], [66, 66]] := by decide

/-- the length-only simulation used by the driver for traffic too large to materialise agrees with
the receiver on a single idle stream (checked on the witness; the driver uses it only for sizes) -/
example : lenSim tiny true 0 [(2, false), (2, true), (4, false), (3, true)] = ([4], true) := by decide

end Canopy.C18
