import Canopy.Proof.DexArith
/-!
# C20 — escrow, order-book and AMM accounting is exact

Part 1: the AMM arithmetic. `Canopy.Gen.Dex.SafeComputeDY`, `SafeMulDiv`, `SqrtProductUint64` are the
definitions REGENERATED from `fsm/dex.go` / `lib/util.go` on every run (`big.Int` → `Nat`, `.Uint64()` →
`% 2^64`, `big.Int.Div` by zero → `none`). All statements are in `Nat`; `U64 = 2^64`.
-/
namespace Canopy.C20
open Canopy.Dex Canopy.Gen.Dex

/-! ## the source the hand-written pieces were transcribed from -/

/-- `lib.AddUint64` is `bits.Add64` with the carry as overflow flag (model: `Dex.addUint64`) -/
theorem addUint64_source : src_AddUint64 = "sum, carry := bits.Add64(a, b, 0); return sum, carry != 0" := by decide

/-- `liquidityDepositPoints` as transcribed in `Dex.liquidityDepositPoints` -/
theorem liquidityDepositPoints_source : src_liquidityDepositPoints =
    "xAfter, overflow := lib.AddUint64(x, amount); if overflow { return 0, ErrInvalidLiquidityPool() }; oldK, newK := lib.SqrtProductUint64(x, y), lib.SqrtProductUint64(xAfter, y); if oldK == 0 || newK < oldK { return 0, ErrInvalidLiquidityPool() }; return lib.SafeMulDiv(totalPoints, newK - oldK, oldK), nil" := rfl

/-! ## a swap never pays out the reserve and never lowers the product of the reserves -/

/-- For all reserves `x, y > 0` (`y` a `uint64`) and every input `dX`, the generated `SafeComputeDY` does not
panic, its `uint64` conversion loses nothing, the output is strictly below the reserve `y`, and the product of
the reserves after the swap, `(x + dX) * (y − dY)`, is at least `x * y` (fee: 990/1000 of `dX` enters the
pricing formula, all of `dX` enters the pool). -/
theorem swap_safe (x y dX : Nat) (hx : 0 < x) (hy : 0 < y) (hy64 : y < U64) :
    ∃ dY, SafeComputeDY x y dX = some dY ∧ dY = dX * 990 * y / (x * 1000 + dX * 990)
      ∧ dY < y ∧ x * y ≤ (x + dX) * (y - dY) := by
  refine ⟨rawDY x y dX, ?_, rfl, rawDY_lt x y dX hx hy, rawDY_product x y dX hx hy⟩
  have := computeDY_eq x y dX (Or.inl hx)
  rw [rawDY_fits x y dX hx hy hy64] at this
  exact this

/-- non-vacuity: a concrete swap that pays -/
example : SafeComputeDY 1000 1000 100 = some 90 := by decide

/-- The hypothesis `x > 0` is what `HandleDexBatchOrders` checks (`*x == 0 || *y == 0` → error) before the
first call. It is necessary: with an empty counter reserve the formula pays out the WHOLE reserve, and with
`x = 0 ∧ dX = 0` the real function panics (division by zero in `big.Int.Div`); both points are run on the
real function by the harness. -/
theorem swap_at_zero_reserve_pays_all : SafeComputeDY 0 1000 5 = some 1000 := by decide
theorem swap_panics_at_zero_zero (y : Nat) : SafeComputeDY 0 y 0 = none := computeDY_panic

/-! ## `SafeMulDiv`: never panics, never exceeds the exact quotient -/

theorem safeMulDiv_total (a b c : Nat) : SafeMulDiv a b c = some (safeMulDiv a b c) := safeMulDiv_gen a b c

/-- the `uint64` conversion can only lose high bits: the result never exceeds `a*b/c` -/
theorem safeMulDiv_le_exact (a b c : Nat) : safeMulDiv a b c ≤ a * b / c := safeMulDiv_le a b c

/-- and it is exact whenever the quotient fits (in particular for every pro-rata share `b ≤ c` of a `uint64`) -/
theorem safeMulDiv_exact_of_fits (a b c : Nat) (hc : c ≠ 0) (h : a * b / c < U64) :
    safeMulDiv a b c = a * b / c := safeMulDiv_exact a b c hc h

theorem safeMulDiv_share_fits (a b c : Nat) (ha : a < U64) (hc : c ≠ 0) (hbc : b ≤ c) :
    safeMulDiv a b c = a * b / c := by
  apply safeMulDiv_exact a b c hc
  have hcpos : 0 < c := Nat.pos_of_ne_zero hc
  calc a * b / c ≤ a * c / c := Nat.div_le_div_right (Nat.mul_le_mul_left _ hbc)
    _ = a := Nat.mul_div_cancel _ hcpos
    _ < U64 := ha

/-- the truncation is real: a quotient that does not fit is reduced modulo 2^64 (run on the real function) -/
theorem safeMulDiv_truncates : SafeMulDiv 18446744073709551615 4 2 = some 18446744073709551614 := by decide

/-! ## withdrawals never exceed the provider's share -/

/-- `handleBatchWithdraw` pays a provider `SafeMulDiv(SafeMulDiv(r, T, P), pts, T)` of a reserve `r`, where `P` is
the pool's total points, `T` the points removed by the whole batch and `pts` the points this provider burns.
Whatever the values (including `T > P`, truncation, zero divisors) this is at most `r * pts / P`. -/
theorem withdraw_le_share (r T P pts : Nat) :
    safeMulDiv (safeMulDiv r T P) pts T ≤ r * pts / P := share_le r T P pts

/-- non-vacuity: Pablo's example in the source comment (50% of 50 of 100 points, reserve 1000) -/
example : safeMulDiv (safeMulDiv 1000 25 100) 25 25 = 250 ∧ 1000 * 25 / 100 = 250 := by decide

/-! ## deposits never create points from nothing -/

/-- a deposit of nothing mints nothing -/
theorem deposit_zero_amount (L x y d : Nat) (hx : x < U64)
    (h : liquidityDepositPoints L x y 0 = .ok d) : d = 0 := by
  unfold liquidityDepositPoints addUint64 at h
  simp only [Nat.add_zero, Nat.mod_eq_of_lt hx] at h
  split at h
  · cases h
  · split at h
    · cases h
    · injection h with h
      simp [safeMulDiv] at h
      omega

/-- a pool without points mints none (the first deposit is preceded by `AddPoints(dead, √(x·y))`) -/
theorem deposit_zero_total (x y a d : Nat) (h : liquidityDepositPoints 0 x y a = .ok d) : d = 0 := by
  unfold liquidityDepositPoints at h
  split at h
  · cases h
  · split at h
    · cases h
    · injection h with h
      simp [safeMulDiv] at h
      omega

/-- the minted fraction never exceeds the relative growth of `⌊√(x·y)⌋`: `d · oldK ≤ L · (newK − oldK)` -/
theorem deposit_bounded (L x y a d : Nat) (h : liquidityDepositPoints L x y a = .ok d) :
    d * sqrtProduct x y ≤ L * (sqrtProduct ((x + a) % U64) y - sqrtProduct x y) := by
  unfold liquidityDepositPoints at h
  split at h
  · cases h
  · split at h
    · cases h
    · injection h with h
      subst h
      show _ ≤ L * (sqrtProduct (addUint64 x a).1 y - _)
      exact Nat.le_trans (Nat.mul_le_mul_right _ (safeMulDiv_le _ _ _)) (Nat.div_mul_le_self _ _)

/-- non-vacuity: the first example of `TestHandleRemoteDexBatch` (pool 100/100, dead holds 100, deposit 100 → 41) -/
example : liquidityDepositPoints 100 100 100 100 = .ok 41 := by
  have h1 : sqrtProduct 100 100 = 100 := by
    unfold sqrtProduct; rw [sqrt_eq_of (r := 100) (by decide) (by decide)]; decide
  have h2 : sqrtProduct 200 100 = 141 := by
    unfold sqrtProduct; rw [sqrt_eq_of (r := 141) (by decide) (by decide)]; decide
  have h0 : addUint64 100 100 = (200, false) := by decide
  simp [liquidityDepositPoints, h0, h1, h2, safeMulDiv, U64]

/-- the square root is exact on `uint64` reserves (no truncation in `SqrtProductUint64`) -/
theorem sqrtProduct_fits (x y : Nat) (hx : x < U64) (hy : y < U64) :
    SqrtProductUint64 x y = some (Nat.sqrt (x * y)) := by
  rw [sqrtProduct_gen, sqrtProduct_exact x y hx hy]

end Canopy.C20
