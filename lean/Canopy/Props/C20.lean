import Canopy.Proof.DexArith
import Canopy.Proof.DexInv
import Canopy.Proof.DexPoints
import Canopy.Proof.DexHold
import Canopy.Proof.DexRun
import Canopy.Proof.DexSettle
/-!
# C20 — escrow, order-book and AMM accounting is exact

Part 1 AMM arithmetic (`swap_safe`, `withdraw_le_share`, deposit points) · Part 2 order book and escrow
(`escrow_eq` along every run, `close_exact_once`) · Part 3 DEX invariants along every run (`holding_eq`,
`points_sum`) with their per-function lemmas · Part 5 the un-gated liveness fallback (observation + witness).

Part 1: the AMM arithmetic. `Canopy.Gen.Dex.SafeComputeDY`, `SafeMulDiv`, `SqrtProductUint64` are the
definitions REGENERATED from `fsm/dex.go` / `lib/util.go` on every run (`big.Int` → `Nat`, `.Uint64()` →
`% 2^64`, `big.Int.Div` by zero → `none`). All statements are in `Nat`; `U64 = 2^64`.
-/
namespace Canopy.C20
open Canopy.Dex Canopy.Gen.Dex

/-! ## the source the hand-written pieces were transcribed from -/

/-- `lib.AddUint64` is `bits.Add64` with the carry as overflow flag (model: `Dex.addUint64`) -/
theorem addUint64_source : src_AddUint64 = "sum, carry := bits.Add64(a, b, 0); return sum, carry != 0" := by decide

/-- `liquidityDepositPoints` as transcribed in `Dex.liquidityDepositPoints` -/
theorem liquidityDepositPoints_source : src_liquidityDepositPoints =
    "xAfter, overflow := lib.AddUint64(x, amount); if overflow { return 0, ErrInvalidLiquidityPool() }; oldK, newK := lib.SqrtProductUint64(x, y), lib.SqrtProductUint64(xAfter, y); if oldK == 0 || newK < oldK { return 0, ErrInvalidLiquidityPool() }; return lib.SafeMulDiv(totalPoints, newK - oldK, oldK), nil" := rfl

/-! ## a swap never pays out the reserve and never lowers the product of the reserves -/

/-- For all reserves `x, y > 0` (`y` a `uint64`) and every input `dX`, the generated `SafeComputeDY` does not
panic, its `uint64` conversion loses nothing, the output is strictly below the reserve `y`, and the product of
the reserves after the swap, `(x + dX) * (y − dY)`, is at least `x * y` (fee: 990/1000 of `dX` enters the
pricing formula, all of `dX` enters the pool). -/
theorem swap_safe (x y dX : Nat) (hx : 0 < x) (hy : 0 < y) (hy64 : y < U64) :
    ∃ dY, SafeComputeDY x y dX = some dY ∧ dY = dX * 990 * y / (x * 1000 + dX * 990)
      ∧ dY < y ∧ x * y ≤ (x + dX) * (y - dY) := by
  refine ⟨rawDY x y dX, ?_, rfl, rawDY_lt x y dX hx hy, rawDY_product x y dX hx hy⟩
  have := computeDY_eq x y dX (Or.inl hx)
  rw [rawDY_fits x y dX hx hy hy64] at this
  exact this

/-- non-vacuity: a concrete swap that pays -/
example : SafeComputeDY 1000 1000 100 = some 90 := by decide

/-- The hypothesis `x > 0` is what `HandleDexBatchOrders` checks (`*x == 0 || *y == 0` → error) before the
first call. It is necessary: with an empty counter reserve the formula pays out the WHOLE reserve, and with
`x = 0 ∧ dX = 0` the real function panics (division by zero in `big.Int.Div`); both points are run on the
real function by the harness. -/
theorem swap_at_zero_reserve_pays_all : SafeComputeDY 0 1000 5 = some 1000 := by decide
theorem swap_panics_at_zero_zero (y : Nat) : SafeComputeDY 0 y 0 = none := computeDY_panic

/-! ## `SafeMulDiv`: never panics, never exceeds the exact quotient -/

theorem safeMulDiv_total (a b c : Nat) : SafeMulDiv a b c = some (safeMulDiv a b c) := safeMulDiv_gen a b c

/-- the `uint64` conversion can only lose high bits: the result never exceeds `a*b/c` -/
theorem safeMulDiv_le_exact (a b c : Nat) : safeMulDiv a b c ≤ a * b / c := safeMulDiv_le a b c

/-- and it is exact whenever the quotient fits (in particular for every pro-rata share `b ≤ c` of a `uint64`) -/
theorem safeMulDiv_exact_of_fits (a b c : Nat) (hc : c ≠ 0) (h : a * b / c < U64) :
    safeMulDiv a b c = a * b / c := safeMulDiv_exact a b c hc h

theorem safeMulDiv_share_fits (a b c : Nat) (ha : a < U64) (hc : c ≠ 0) (hbc : b ≤ c) :
    safeMulDiv a b c = a * b / c := by
  apply safeMulDiv_exact a b c hc
  have hcpos : 0 < c := Nat.pos_of_ne_zero hc
  calc a * b / c ≤ a * c / c := Nat.div_le_div_right (Nat.mul_le_mul_left _ hbc)
    _ = a := Nat.mul_div_cancel _ hcpos
    _ < U64 := ha

/-- the truncation is real: a quotient that does not fit is reduced modulo 2^64 (run on the real function) -/
theorem safeMulDiv_truncates : SafeMulDiv 18446744073709551615 4 2 = some 18446744073709551614 := by decide

/-! ## withdrawals never exceed the provider's share -/

/-- `handleBatchWithdraw` pays a provider `SafeMulDiv(SafeMulDiv(r, T, P), pts, T)` of a reserve `r`, where `P` is
the pool's total points, `T` the points removed by the whole batch and `pts` the points this provider burns.
Whatever the values (including `T > P`, truncation, zero divisors) this is at most `r * pts / P`. -/
theorem withdraw_le_share (r T P pts : Nat) :
    safeMulDiv (safeMulDiv r T P) pts T ≤ r * pts / P := share_le r T P pts

/-- non-vacuity: Pablo's example in the source comment (50% of 50 of 100 points, reserve 1000) -/
example : safeMulDiv (safeMulDiv 1000 25 100) 25 25 = 250 ∧ 1000 * 25 / 100 = 250 := by decide

/-! ## deposits never create points from nothing -/

/-- a deposit of nothing mints nothing -/
theorem deposit_zero_amount (L x y d : Nat) (hx : x < U64)
    (h : liquidityDepositPoints L x y 0 = .ok d) : d = 0 := by
  unfold liquidityDepositPoints addUint64 at h
  simp only [Nat.add_zero, Nat.mod_eq_of_lt hx] at h
  split at h
  · cases h
  · split at h
    · cases h
    · injection h with h
      simp [safeMulDiv] at h
      omega

/-- a pool without points mints none (the first deposit is preceded by `AddPoints(dead, √(x·y))`) -/
theorem deposit_zero_total (x y a d : Nat) (h : liquidityDepositPoints 0 x y a = .ok d) : d = 0 := by
  unfold liquidityDepositPoints at h
  split at h
  · cases h
  · split at h
    · cases h
    · injection h with h
      simp [safeMulDiv] at h
      omega

/-- the minted fraction never exceeds the relative growth of `⌊√(x·y)⌋`: `d · oldK ≤ L · (newK − oldK)` -/
theorem deposit_bounded (L x y a d : Nat) (h : liquidityDepositPoints L x y a = .ok d) :
    d * sqrtProduct x y ≤ L * (sqrtProduct ((x + a) % U64) y - sqrtProduct x y) := by
  unfold liquidityDepositPoints at h
  split at h
  · cases h
  · split at h
    · cases h
    · injection h with h
      subst h
      show _ ≤ L * (sqrtProduct (addUint64 x a).1 y - _)
      exact Nat.le_trans (Nat.mul_le_mul_right _ (safeMulDiv_le _ _ _)) (Nat.div_mul_le_self _ _)

/-- non-vacuity: the first example of `TestHandleRemoteDexBatch` (pool 100/100, dead holds 100, deposit 100 → 41) -/
example : liquidityDepositPoints 100 100 100 100 = .ok 41 := by
  have h1 : sqrtProduct 100 100 = 100 := by
    unfold sqrtProduct; rw [sqrt_eq_of (r := 100) (by decide) (by decide)]; decide
  have h2 : sqrtProduct 200 100 = 141 := by
    unfold sqrtProduct; rw [sqrt_eq_of (r := 141) (by decide) (by decide)]; decide
  have h0 : addUint64 100 100 = (200, false) := by decide
  simp [liquidityDepositPoints, h0, h1, h2, safeMulDiv, U64]

/-- the square root is exact on `uint64` reserves (no truncation in `SqrtProductUint64`) -/
theorem sqrtProduct_fits (x y : Nat) (hx : x < U64) (hy : y < U64) :
    SqrtProductUint64 x y = some (Nat.sqrt (x * y)) := by
  rw [sqrtProduct_gen, sqrtProduct_exact x y hx hy]

/-!
# Part 2 — the order book and the escrow pool

`Canopy.Dex.step` is the step function the driver runs against the real `fsm.StateMachine` (one operation, rolled
back on error, caches reset): create / edit / delete order, `HandleCommitteeSwaps` (lock / reset / close
instructions of one certificate, duplicates and conflicts included), the three DEX messages, `HandleDexBatch`
and the end-of-block inclusion. `SInv s` = the order book has unique keys, every order is stored under its own id,
and for every valid chain id the escrow pool equals the sum of the open orders.
-/

/-- the hand model was written against exactly these handler bodies (digest of the normalised source, regenerated on
every run): an edit to any of them breaks this obligation until the model is re-read -/
theorem handlers_pinned : handlerDigests = [
  ("HandleCommitteeSwaps", "8436b5e930b626e8"),
  ("LockOrder", "73c93283a942f79c"),
  ("ResetOrder", "1a8796fb5220b0d8"),
  ("CloseOrder", "e4c884eda965711d"),
  ("HandleMessageCreateOrder", "c1838922f45592f0"),
  ("HandleMessageEditOrder", "1644b5af84074f5b"),
  ("HandleMessageDeleteOrder", "923c298e6aad350f"),
  ("HandleMessageDexLimitOrder", "ee6abce1b270fba7"),
  ("HandleMessageDexLiquidityDeposit", "081a2ff2ca8376f8"),
  ("HandleMessageDexLiquidityWithdraw", "c60e588608635fde"),
  ("PoolAdd", "6b9a0f426ff5733f"),
  ("PoolSub", "1d3f87a82da50558"),
  ("SetPool", "df1558b2f6f282f6"),
  ("AccountAdd", "023f0267053d0277"),
  ("AccountSub", "bbb3ce698b58f572"),
  ("AddPoints", "f5b89f4b55e20da2"),
  ("GetPointsFor", "0d1825bbce515697"),
  ("HandleDexBatch", "698d196120703b76"),
  ("HandleRemoteDexBatch", "4d0ad9dc591a890c"),
  ("HandleReceiptsForOurLockedBatch", "01a6367ec7bf8220"),
  ("HandleRemoteChainLockedBatch", "00dbdd191ef4398a"),
  ("HandleOrderReceipts", "d0a93b40b9fe08ef"),
  ("HandleDexBatchOrders", "8fb158ce79ea4087"),
  ("handleBatchWithdraw", "ef2798e6e3cf5e6c"),
  ("handleBatchDeposit", "3b5d500da7471705"),
  ("handleCappedBatchDeposit", "25c827e2a643e620"),
  ("RotateDexBatches", "281a8fec83007d96"),
  ("IncludeSameBlockDex", "42c6161ca2da7d08"),
  ("HandleLivenessFallback", "6d9ea1df582c9e3c"),
  ("GetDexBatch", "a478ff12b34f0532"),
  ("Hash", "f11666f6dd15f7ea"),
  ("Copy", "8e3cc01a4b37f0a7"),
  ("IsEmpty", "882a1af3e8ace04e"),
  ("CopyOrders", "6bb4dd8461d8adc3")] := by decide

/-- the literals the model and the frame argument use are the values in `fsm/key.go` / `lib/config.go` today:
`MaxChainId`, the reserved ids of `checkChainId`, and the three pool-id addends (escrow ids start at 65535, above
every holding and liquidity id of a valid chain) -/
theorem constants_pinned :
    MaxChainId = maxChainId ∧ UnknownChainId = 0 ∧ DAOPoolID = 131071 ∧
    HoldingPoolAddend = 16383 ∧ LiquidityPoolAddend = 32767 ∧ EscrowPoolAddend = 65535 := by decide

/-- **escrow_eq.** Along EVERY sequence of operations, for every chain: escrow pool = Σ amounts of the open sell
orders of that chain. Side conditions (`Admissible`, each checked in the state the operation is applied to): a
created order's id is fresh; the escrow balance stays below 2^64 on create/edit-increase (`PoolAdd` does not guard);
certificate-driven operations carry a valid committee chain id. -/
theorem escrow_eq (s₀ : State) (ops : List Op) (h₀ : SInv s₀) (hadm : Admissible s₀ ops)
    (c : Nat) (hc : c ≤ maxChainId) :
    (getPool (run s₀ ops) (escrowId c)).amount = escrowSum (run s₀ ops) c :=
  (run_sinv h₀ hadm).eq c hc

/-- … in particular from an empty genesis state -/
theorem escrow_eq_from_genesis (self root height minOrder : Nat) (ops : List Op)
    (hadm : Admissible { self, root, height, minOrder } ops) (c : Nat) (hc : c ≤ maxChainId) :
    (getPool (run { self, root, height, minOrder } ops) (escrowId c)).amount
      = escrowSum (run { self, root, height, minOrder } ops) c :=
  escrow_eq _ ops (sinv_init self root height minOrder) hadm c hc

section witnesses
def addrA : Bytes := List.replicate 20 0xA0
def addrB : Bytes := List.replicate 20 0xB0
def id1 : Bytes := List.replicate 20 1
def mkCreate (id : Bytes) (amount : Nat) : Op :=
  .create { chain := 2, id := id, data := [], amount := amount, requested := 7, sellerRecv := [9], seller := addrA }

/-- non-vacuity: fund, create, lock, close (with a duplicate close and a conflicting reset in the same certificate) is
admissible, the order is paid out once, and the identity holds with a non-empty book in between -/
def demoOps : List Op :=
  [.fund addrA 1000, mkCreate id1 300, mkCreate (List.replicate 20 2) 50,
   .swaps 2 { locks := [some { id := id1, buyerRecv := addrB, buyerSend := [5], deadline := 9 }],
              resets := [id1], closes := [id1, id1] }]

example : escrowSum (run {} (demoOps.take 3)) 2 = 350 ∧ (getPool (run {} (demoOps.take 3)) (escrowId 2)).amount = 350 := by decide
example : escrowSum (run {} demoOps) 2 = 50 ∧ (getPool (run {} demoOps) (escrowId 2)).amount = 50
    ∧ balance (run {} demoOps) addrB = 300 ∧ balance (run {} demoOps) addrA = 650 := by decide

/-- **the freshness hypothesis is necessary.** `HandleMessageCreateOrder` does not look for an existing order: a
second create under an id that is still in the book overwrites the order and credits escrow again. (On the real
chain the id is `tx.GetHash()[:20]`; the harness case `txid-probe` runs two encodings of one signed create-order
through the real `ApplyTransaction`.) -/
theorem escrow_breaks_on_reused_id :
    let s := run {} [.fund addrA 1000, mkCreate id1 300, mkCreate id1 300]
    (getPool s (escrowId 2)).amount = 600 ∧ escrowSum s 2 = 300 := by decide

/-- **the `uint64` hypothesis is necessary.** `PoolAdd` is `pool.Amount += amount` without a guard: with more than
2^64 tokens in existence the escrow pool wraps (reported under C04: unguarded `PoolAdd`/`AddToTotalSupply`). -/
theorem escrow_wraps_beyond_uint64 :
    let s := run {} [.fund addrA 18446744073709551615, mkCreate id1 18446744073709551615,
                     .fund addrA 2, mkCreate (List.replicate 20 2) 2]
    (getPool s (escrowId 2)).amount = 1 ∧ escrowSum s 2 = 18446744073709551617 := by decide
end witnesses

/-- **close_exact_once.** A successful `CloseOrder` (from a certificate) moves exactly the order's escrowed amount
from the chain's escrow pool to the buyer named in the lock, touches no other account and no other escrow pool,
and removes the order — so that any further lock / reset / close instruction for the same id finds nothing
(`OrderNotFound`), and no edit or delete message for it can succeed. -/
theorem close_exact_once {s s' : State} {chain : Nat} {id : Bytes} (hi : SInv s) (hc : chain ≤ maxChainId)
    (h : closeOrder s chain id = .ok s') :
    ∃ o, AM.get? s.orders (chain, id) = some o ∧ o.buyerRecv ≠ [] ∧
      escAmt s' chain + o.amount = escAmt s chain ∧
      (∀ c, c ≤ maxChainId → c ≠ chain → escAmt s' c = escAmt s c) ∧
      balance s' o.buyerRecv = balance s o.buyerRecv + o.amount ∧
      (∀ a, a ≠ o.buyerRecv → balance s' a = balance s a) ∧
      AM.get? s'.orders (chain, id) = none ∧
      closeOrder s' chain id = .error .OrderNotFound ∧ resetOrder s' chain id = .error .OrderNotFound ∧
      (∀ l : LockOrder, l.id = id → lockOrder s' chain l = .error .OrderNotFound) ∧
      (∀ s'', deleteOrderMsg s' chain id ≠ .ok s'') ∧
      (∀ (m : EditOrder) s'', m.chain = chain → m.id = id → editOrder s' m ≠ .ok s'') := by
  obtain ⟨o, s1, s2, hg, hb, h1, h2, rfl⟩ := closeOrder_ok h
  obtain ⟨e1, e2, e3, e4, e5⟩ := remove_exact (id := id) hi (maxChainId_lt hc) h1 h2
  obtain ⟨g1, g2, g3, _⟩ := gone_finds_nothing e5
  refine ⟨o, hg, hb, e1, fun c hc' hne => e2 c (maxChainId_lt hc') hne, e3, e4, e5, g1, g2, g3, ?_, ?_⟩
  · intro s'' hd
    obtain ⟨o', _, _, _, hg', _⟩ := deleteOrderMsg_ok hd
    rw [e5] at hg'; cases hg'
  · intro m s'' hm1 hm2 he
    obtain ⟨o', _, _, hg', _⟩ := editOrder_ok he
    rw [hm1, hm2, e5] at hg'; cases hg'

/-- **the close guard compares the CREDITED amount.** `CloseOrder` runs inside `HandleCommitteeSwaps`, which swallows
errors without rolling back, so the check made before anything moves is what keeps a close atomic. The quantity it
compares with the buyer's balance is the order's `AmountForSale` (the escrowed amount that is credited), not its
`RequestedAmount` (the counter-asset price): if `balance + AmountForSale` would exceed `MaxUint64` the close is refused
with `InvalidAmount` and — as an instruction of a certificate — changes nothing; and a close that succeeds had
`balance + AmountForSale ≤ MaxUint64`. -/
theorem close_guard_is_on_credited_amount {s : State} {chain : Nat} {id : Bytes} {o : SellOrder}
    (hg : AM.get? s.orders (chain, id) = some o) (hl : o.buyerRecv ≠ []) :
    (balance s o.buyerRecv > maxU64 - o.amount →
        closeOrder s chain id = .error .InvalidAmount ∧ orSkip s (closeOrder s chain id) = s) ∧
    (∀ s', closeOrder s chain id = .ok s' → o.amount ≤ maxU64 → balance s o.buyerRecv + o.amount ≤ maxU64) := by
  have hgo : getOrder s chain id = .ok o := by simp [getOrder, hg]
  constructor
  · intro hov
    have : closeOrder s chain id = .error .InvalidAmount := by
      simp [closeOrder, hgo, bind, Except.bind, hl, hov, throw, throwThe, MonadExceptOf.throw]
    exact ⟨this, by simp [orSkip, this]⟩
  · intro s' h ha
    by_cases hov : balance s o.buyerRecv > maxU64 - o.amount
    · have : closeOrder s chain id = .error .InvalidAmount := by
        simp [closeOrder, hgo, bind, Except.bind, hl, hov, throw, throwThe, MonadExceptOf.throw]
      rw [this] at h; cases h
    · omega

/-- boundary witnesses (the family `closeovf-*` runs them on the real code): an order selling 1000 for 10, buyer
balance `MaxUint64 − 1000` → paid; `MaxUint64 − 999` → refused and nothing moves, although `MaxUint64 − 10` would
still admit it if the price were compared -/
example :
    let mk (bal : Nat) : State := run {} [.fund addrA 1000, mkCreate id1 1000,
      .swaps 2 { locks := [some { id := id1, buyerRecv := addrB, buyerSend := [5], deadline := 9 }] },
      .fund addrB bal, .swaps 2 { closes := [id1, id1] }]
    (balance (mk (18446744073709551615 - 1000)) addrB = 18446744073709551615 ∧ escrowSum (mk (18446744073709551615 - 1000)) 2 = 0) ∧
    (balance (mk (18446744073709551615 - 999)) addrB = 18446744073709551615 - 999 ∧ escrowSum (mk (18446744073709551615 - 999)) 2 = 1000
      ∧ (getPool (mk (18446744073709551615 - 999)) (escrowId 2)).amount = 1000) := by decide

/-- the same for a seller's `DeleteOrder`: exactly the escrowed amount goes back to the seller, once -/
theorem delete_exact_once {s s' : State} {chain : Nat} {id : Bytes} (hi : SInv s)
    (h : deleteOrderMsg s chain id = .ok s') :
    ∃ o, AM.get? s.orders (chain, id) = some o ∧ o.buyerRecv = [] ∧
      escAmt s' chain + o.amount = escAmt s chain ∧
      balance s' o.seller = balance s o.seller + o.amount ∧
      (∀ a, a ≠ o.seller → balance s' a = balance s a) ∧
      AM.get? s'.orders (chain, id) = none ∧
      closeOrder s' chain id = .error .OrderNotFound ∧ deleteOrderMsg s' chain id = .error .OrderNotFound := by
  obtain ⟨o, s1, s2, hch, hg, hb, h1, h2, rfl⟩ := deleteOrderMsg_ok h
  obtain ⟨e1, _, e3, e4, e5⟩ := remove_exact (id := id) hi (maxChainId_lt hch) h1 h2
  obtain ⟨g1, _, _, g4⟩ := gone_finds_nothing e5
  refine ⟨o, hg, hb, e1, e3, e4, e5, g1, ?_⟩
  -- the chain id passed `checkChainId` once, it passes again
  unfold deleteOrderMsg at h
  simp only [bind, Except.bind] at h
  split at h
  · cases h
  · exact g4 _ ‹checkChainId chain = Except.ok _›

/-- duplicate instructions inside one certificate: closing the same order twice is closing it once -/
theorem duplicate_close_is_noop {s : State} {chain : Nat} {id : Bytes} (hi : SInv s) :
    orSkip (orSkip s (closeOrder s chain id)) (closeOrder (orSkip s (closeOrder s chain id)) chain id)
      = orSkip s (closeOrder s chain id) := by
  cases hc : closeOrder s chain id with
  | error e => simp [orSkip, hc]
  | ok s' =>
    obtain ⟨o, s1, s2, hg, hb, h1, h2, rfl⟩ := closeOrder_ok hc
    have hnone : AM.get? (deleteOrder s2 chain id).orders (chain, id) = none := by
      obtain ⟨ho2, _⟩ := accountAdd_ok h2
      obtain ⟨_, rfl⟩ := poolSub_ok h1
      simp only [deleteOrder]; rw [ho2]
      exact AM.get?_del_self _ _ hi.ordersNodup
    simp [orSkip, (gone_finds_nothing hnone).1]

/-!
# Part 3 — the DEX invariants along every run: holding pool = Σ pending, Σ points = total

`DInv s`: every pool of the state has Σ points = `TotalPoolPoints` (and `uint64` balance and total); every stored
next/locked batch sits under its own committee id and carries withdrawal percents ≤ 100; and for every valid chain
the holding pool equals the Σ of the amounts of the orders and deposits stored in next(chain) ∪ locked(chain).

`run_dinv` proves `DInv` over EVERY sequence of modelled operations (`DexAdmissible`: the holding pool stays below
2^64 on a limit order / deposit; certificate chain ids ≤ `MaxChainId`; the remote pool size is a `uint64`; a fallback
batch carries a consistent table). The transient case is modelled exactly: with a zero ledger `handleBatchDeposit`
returns early and debits nothing, and the subsequent `HandleDexBatchOrders` fails the whole operation
(`eff_applyReceipts`, `eff_executeRemote`), so only successful operations have to keep the identity. Covered: the
three DEX messages, `HandleDexBatch` (receipt matching, order receipts, local and remote withdrawals and deposits
with the provider cap — ranking, free slot, eviction, rejection with refund —, AMM execution, liveness fallback,
rotation), `IncludeSameBlockDex`, and all sell-order operations (which touch neither).
-/

/-- **holding_eq.** Along every admissible run, for every chain:
holding pool = Σ amounts of pending DEX orders and deposits in next ∪ locked. -/
theorem holding_eq (s₀ : State) (ops : List Op) (h₀ : DInv s₀) (hadm : DexAdmissible s₀ ops) (c : Nat)
    (h0 : 0 < c) (hc : c ≤ maxChainId) :
    (getPool (run s₀ ops) (holdingId c)).amount = pendStored (run s₀ ops) c :=
  (run_dinv h₀ hadm).hold c h0 hc

/-- **points_sum.** Along every admissible run, for every pool: Σ points = `TotalPoolPoints`. -/
theorem points_sum (s₀ : State) (ops : List Op) (h₀ : DInv s₀) (hadm : DexAdmissible s₀ ops) (id : Nat) :
    ptsSum (getPool (run s₀ ops) id).points = (getPool (run s₀ ops) id).total :=
  ((run_dinv h₀ hadm).pools id).pts.sum

/-- … both from an empty genesis state -/
theorem dex_invariants_from_genesis (self root height minOrder : Nat) (hh : 0 < height) (ops : List Op)
    (hadm : DexAdmissible { self, root, height, minOrder } ops) :
    (∀ c, 0 < c → c ≤ maxChainId → (getPool (run { self, root, height, minOrder } ops) (holdingId c)).amount
        = pendStored (run { self, root, height, minOrder } ops) c) ∧
    (∀ id, ptsSum (getPool (run { self, root, height, minOrder } ops) id).points
        = (getPool (run { self, root, height, minOrder } ops) id).total) :=
  ⟨fun c h0 hc => holding_eq _ ops (dinv_init self root height minOrder hh) hadm c h0 hc,
   fun id => points_sum _ ops (dinv_init self root height minOrder hh) hadm id⟩

/-- non-vacuity: a funded pool, two limit orders and a deposit — 350 tokens are pending and held -/
example :
    let s := run {} [.fund addrA 1000, .setPool (liquidityId 2) { amount := 500, points := [(deadAddr, 7)], total := 7 },
      .limit 2 { amount := 100, requested := 1, addr := addrA, id := id1 },
      .deposit 2 { amount := 200, addr := addrA, id := id1 },
      .limit 2 { amount := 50, requested := 1, addr := addrA, id := id1 }]
    holdAmt s 2 = 350 ∧ pendStored s 2 = 350 ∧ ptsSum (getPool s (liquidityId 2)).points = 7 := by decide

/-! ## the per-function statements behind `points_sum` (kept as lemmas) -/

/-- `Pool.AddPoints` keeps Σ points = total (and does not touch the amount) -/
theorem points_sum_addPoints {p p' : Pool} {a : Bytes} {n : Nat} (hp : PointsOk p) (hn : n < U64)
    (h : addPoints p a n = .ok p') : PointsOk p' := (addPoints_ok hp hn h).1

/-- `handleBatchWithdraw` (percent ≤ 100, as `checkPercent` / `DexBatch.CheckBasic` guarantee): points are burnt from
the holder and from the total by the same amount; zero-point holders are dropped -/
theorem points_sum_withdraw {s : State} {ws : List Withdraw} {c x y : Nat} {isLocal : Bool} {p0 : Option Pool}
    {persist : Bool} {l : Ledger} (hw : ∀ w ∈ ws, w.percent ≤ 100)
    (hp : PointsOk (p0.getD (getPool s (liquidityId c))))
    (h : batchWithdraw s ws c x y isLocal p0 persist = .ok l) : PointsOk l.p :=
  batchWithdraw_points hw hp h

/-- `handleBatchDeposit` incl. the provider cap (`MaxLiquidityProviders`), evictions and rejections -/
theorem points_sum_deposit {s : State} {b : Batch} {c x y : Nat} {isLocal : Bool} {l : Ledger}
    (hp : PointsOk (getPool s (liquidityId c))) (h : batchDeposit s b c x y isLocal = .ok l) : PointsOk l.p :=
  batchDeposit_points hp h

/-- the percent bound is necessary: a withdrawal of 150% (which `CheckBasic` rejects) would burn more
points than the holder has and wrap both counters -/
theorem points_wrap_above_100_percent :
    (match batchWithdraw {} [{ percent := 150, addr := addrA, id := [] }] 2 1000 1000 false
        (some { amount := 1000, points := [(deadAddr, 10), (addrA, 10)], total := 20 }) false with
     | .ok l => decide (ptsSum l.p.points ≠ l.p.total)
     | .error _ => false) = true := by decide

/-- non-vacuity: a 50% withdrawal of a holder of 10 of 20 points burns 5 points and pays 250 of a 1000 reserve -/
example :
    (match batchWithdraw {} [{ percent := 50, addr := addrA, id := [] }] 2 1000 1000 false
        (some { amount := 1000, points := [(deadAddr, 10), (addrA, 10)], total := 20 }) false with
     | .ok l => decide (l.p.points = [(deadAddr, 10), (addrA, 5)] ∧ l.p.total = 15 ∧ l.p.amount = 750 ∧ balance l.s addrA = 250)
     | .error _ => false) = true := by decide

/-!
## the per-function statements behind `holding_eq` (kept as lemmas)

`holdAmt s c` is the holding pool's balance, `Batch.pending` the Σ of a batch's order and deposit amounts.
-/

/-- in: `HandleMessageDexLimitOrder` -/
theorem holding_in_limit {s s' : State} {c : Nat} {o : LimitOrder} (h : dexLimitOrder s c o = .ok s')
    (hfit : holdAmt s c + o.amount < U64) :
    holdAmt s' c = holdAmt s c + o.amount ∧
    (getBatch s' c false).pending = (getBatch s c false).pending + o.amount ∧ s'.locked = s.locked :=
  limit_holding h hfit

/-- in: `HandleMessageDexLiquidityDeposit` -/
theorem holding_in_deposit {s s' : State} {c : Nat} {d : Deposit} (h : dexDeposit s c d = .ok s')
    (hfit : holdAmt s c + d.amount < U64) :
    holdAmt s' c = holdAmt s c + d.amount ∧
    (getBatch s' c false).pending = (getBatch s c false).pending + d.amount ∧ s'.locked = s.locked :=
  deposit_holding h hfit

/-- out: `HandleOrderReceipts` debits exactly Σ amounts of our locked orders, whatever the receipts say -/
theorem holding_out_receipts (c : Nat) (hc : c ≤ maxChainId) (os : List LimitOrder) (rs : List Nat) (s : State) (x y : Nat)
    (r : State × Nat × Nat) (h : orderReceipts c os rs s x y = .ok r) :
    holdAmt r.1 c + (os.map (·.amount)).sum = holdAmt s c :=
  orderReceipts_holding c hc os rs s x y r h

/-- out: `HandleLivenessFallback` refunds exactly the pending Σ of our locked batch and drops the batch -/
theorem holding_out_fallback {s s' : State} {c : Nat} {lb remote : Batch} (hc : c ≤ maxChainId)
    (h : livenessFallback s c lb remote = .ok s') :
    holdAmt s' c + lb.pending = holdAmt s c ∧ AM.get? s'.locked c = some {} :=
  livenessFallback_holding hc h

/-!
# Part 5 — the liveness fallback is not gated by `isNested` (observation, with witness)

`HandleDexBatch` runs `HandleLivenessFallback` for every remote batch that carries `LivenessFallback = true`. The
flag is meant for the nested chain (the controller sets it on `RootDexBatch` only, together with the root chain's
points table). On the ROOT chain the batch arrives in a certificate result, for which `CertificateResult.CheckBasic`
demands `DexBatch.PoolPoints == nil`: a flagged batch there makes the root chain replace its provider table by the
empty table (`SetPoolPoints(nil, 0)`) while the liquidity pool keeps its balance. The accounting identities of C20
still hold by the letter (Σ points = total is `0 = 0`; the holding pool is refunded exactly), but every provider's
claim is gone: withdrawals fail with `PointHolderNotFound`, and the next deposit re-seeds the table (`dead := √(x·y)`)
so that the new depositor and the dead address own the whole pool. It takes a certificate signed by the nested
chain's committee with the flag set — the honest controller never produces one (it copies the stored locked batch,
whose flag is always false).
-/

/-- the fallback installs exactly the remote batch's table -/
theorem fallback_copies_remote_table {s s' : State} {c : Nat} {lb remote : Batch}
    (h : livenessFallback s c lb remote = .ok s') :
    (getPool s' (liquidityId c)).points = remote.poolPoints ∧
    (getPool s' (liquidityId c)).total = remote.totalPoolPoints := by
  unfold livenessFallback at h
  obtain ⟨s1, _, h⟩ := bind_ok h
  obtain ⟨s2, _, h⟩ := bind_ok h
  injection h with h; subst h
  have : getPool (setLocked (setPool s2 (liquidityId c)
      { getPool s2 (liquidityId c) with points := remote.poolPoints, total := remote.totalPoolPoints }) c {}) (liquidityId c)
      = { getPool s2 (liquidityId c) with points := remote.poolPoints, total := remote.totalPoolPoints } := by
    rw [getPool_congr (show (setLocked _ c {}).pools = (setPool s2 (liquidityId c) _).pools from rfl), getPool_setPool_self]
  rw [this]; exact ⟨rfl, rfl⟩

/-- on the root chain (`nested = false`) a flagged batch passes only with an empty table, and the fallback is executed:
before the remote batch is processed the provider table of the liquidity pool is empty -/
theorem root_fallback_erases_provider_table {s s' : State} {c : Nat} {remote : Batch} {bh : Bytes}
    (hlf : remote.livenessFallback = true) (hliq : (getPool s (liquidityId c)).amount ≠ 0)
    (h : dexBatchOn s c false remote bh = .ok s') :
    ∃ s1, livenessFallback s c (getBatch s c true) remote = .ok s1 ∧
      (getPool s1 (liquidityId c)).points = [] ∧ (getPool s1 (liquidityId c)).total = remote.totalPoolPoints ∧
      remoteDexBatch s1 remote c bh = .ok s' := by
  unfold dexBatchOn at h
  split at h
  · cases h
  · split at h
    · cases h
    · rename_i hnp
      split at h
      · cases h
      · rename_i s1 h1
        have hp : remote.poolPoints = [] := by
          by_cases hpp : remote.poolPoints = []
          · exact hpp
          · exact absurd ⟨by decide, hpp⟩ hnp
        have := fallback_copies_remote_table h1
        exact ⟨s1, h1, by rw [this.1, hp], this.2, h⟩

/-- witness (also run on the real code, case `witness-root-fallback`): a pool of 1000 with providers `dead` and `A`
(10 points each); after the fallback with an empty table the pool still holds 1000, nobody holds points, and `A`
cannot withdraw -/
theorem root_fallback_witness :
    (match livenessFallback
        (setPool {} (liquidityId 2) { amount := 1000, points := [(deadAddr, 10), (addrA, 10)], total := 20 }) 2 {}
        { poolSize := 500, livenessFallback := true } with
     | .ok s1 =>
       decide (getPool s1 (liquidityId 2) = { amount := 1000 }) &&
       (match dexWithdraw s1 2 { percent := 100, addr := addrA, id := [] } with
        | .error .PointHolderNotFound => true
        | _ => false)
     | .error _ => false) = true := by decide

/-!
# Part 6 — every order of a remote batch has its own payout slot

`HandleDexBatchOrders` executes the orders in hash-shuffled order, stores each result under the order's key
(`result[order.Key]`) and then pays every order `result[key]`. The key is the hash of
`blockHash ‖ be64(index) ‖ proto(order without its id)`: two orders with the same address, amount and limit differ in
the index only. The model's key is that hash paired with the index; this is sound exactly because the index enters the
hash at full 64-bit width — pinned here to the source — so that the hashed bytes determine the index.
-/

/-- `HashKey` writes the index with `binary.BigEndian.PutUint64(idxBz, uint64(index))`: no narrowing conversion -/
theorem hashKey_source : src_HashKey =
    "bz, _ := Marshal(x); idxBz := make([]byte, 8); binary.BigEndian.PutUint64(idxBz, uint64(index)); data := make([]byte, 0, len(blockHash) + len(idxBz) + len(bz)); data = append(data, blockHash...); data = append(data, idxBz...); data = append(data, bz...); x.Key = crypto.HashString(data); return x.Key" := rfl

/-- the hashed bytes of order `i` determine `i` (for every batch size a `uint64` can index), whatever the contents -/
theorem order_key_index_injective {bh : Bytes} {i j : Nat} {o o' : LimitOrder} (hi : i < U64) (hj : j < U64)
    (h : orderKeyInput bh i o = orderKeyInput bh j o') : i = j :=
  orderKeyInput_index_injective hi hj h

/-- **orders_settlement_exact.** For every remote batch (any number of orders, any repeated contents): one receipt per
order; Σ receipts = the debit of the AMM ledger of the local reserve; at most `MaxOrdersSettledPerBlock` (250) orders are
paid; the real liquidity pool is debited by exactly Σ receipts, so a ledger that started at the pool's balance ends at it. -/
theorem orders_settlement_exact {s : State} {os : List LimitOrder} {bh : Bytes} {x y c : Nat} {r : State × Nat × Nat × List Nat}
    (h : dexBatchOrders s os bh x y c = .ok r) :
    r.2.2.2.length = os.length ∧ r.2.2.2.sum + r.2.2.1 = y ∧ (r.2.2.2.filter (· ≠ 0)).length ≤ 250 ∧
    liqAmt r.1 c + r.2.2.2.sum = liqAmt s c ∧ (y = liqAmt s c → r.2.2.1 = liqAmt r.1 c) :=
  dexBatchOrders_settlement h

/-- non-vacuity (explicit keys instead of hashes): two orders with IDENTICAL contents get two slots and two different
payouts (90, then 75 at the worse price); 165 leaves the reserve and 165 is what the two slots hold -/
example :
    (match ammLoop [((0, [1]), { amount := 100, requested := 1, addr := addrA, id := [] }),
                    ((1, [2]), { amount := 100, requested := 1, addr := addrA, id := [] })] 0 1000 1000 [] with
     | .ok r => decide (r = (1200, 835, [((0, [1]), 90), ((1, [2]), 75)]))
     | .error _ => false) = true := by decide

/-!
# Part 7 — subsidies and pool ids (finding, repaired upstream in eca9d8a)

Before commit eca9d8a `MessageSubsidy.Check` validated the sender address and the opcode length, not `ChainId`, and
`HandleMessageSubsidy` does `PoolAdd(msg.ChainId, msg.Amount)`: a subsidy with `ChainId = c + EscrowPoolAddend` or
`c + HoldingPoolAddend` credited chain `c`'s escrow or holding pool and broke the equalities C20 states
(`subsidyUnchecked`, witnesses below; reproduced on the real code incl. a signed transaction through `ApplyTransaction`).
The check now applies `checkChainId`. In the model `Op.subsidy` does the same, and `escrow_eq` / `holding_eq` need NO side
condition for it: an accepted subsidy has `1 ≤ id ≤ MaxChainId`, every escrow pool id is `≥ EscrowPoolAddend = 65535` and
every holding pool id of a chain `≥ 1` is `≥ 16384` (`accepted_subsidy_hits_no_escrow_or_holding_pool`). Chain id 0 is
reserved — `holdingId 0` IS the reward pool of chain `MaxChainId` — which is why `holding_eq` speaks about chains `1 … MaxChainId`.
-/

/-- the stateless check as it is now: address, then chain id, then opcode length -/
theorem subsidy_check_source : src_MessageSubsidy_Check =
    "if x == nil { return ErrInvalidSubisdy() }; if err := checkAddress(x.Address); err != nil { return err }; if err := checkChainId(x.ChainId); err != nil { return err }; if len(x.Opcode) > 100 { return ErrInvalidOpcode() }; return nil" := rfl

/-- the handler credits `pools[ChainId]` -/
theorem subsidy_handler_source : src_HandleMessageSubsidy =
    "retired, err := s.CommitteeIsRetired(msg.ChainId); if err != nil { return err }; if retired { return ErrNonSubsidizedCommittee() }; if err = s.AccountSub(crypto.NewAddressFromBytes(msg.Address), msg.Amount); err != nil { return err }; return s.PoolAdd(msg.ChainId, msg.Amount)" := rfl

/-- an accepted subsidy goes to a chain id, and no chain id is the escrow pool id of a valid chain or the holding pool
id of a chain `≥ 1` (pool-id arithmetic on the generated addends, `constants_pinned`) -/
theorem accepted_subsidy_hits_no_escrow_or_holding_pool {s s' : State} {a : Bytes} {id n : Nat} {op : Bytes}
    (h : subsidy s a id n op = .ok s') :
    id ≠ 0 ∧ id ≤ maxChainId ∧ (∀ c, c ≤ maxChainId → id ≠ escrowId c) ∧ (∀ c, 0 < c → c ≤ maxChainId → id ≠ holdingId c) := by
  unfold subsidy at h
  obtain ⟨_, _, h⟩ := bind_ok h
  obtain ⟨u, hu, _⟩ := bind_ok h
  obtain ⟨h0, hid⟩ := checkChainId_ok hu
  refine ⟨h0, hid, fun c hc => ?_, fun c hc0 hc => ?_⟩
  · unfold escrowId EscrowPoolAddend U64; unfold maxChainId at hid hc; omega
  · unfold holdingId HoldingPoolAddend U64; unfold maxChainId at hid hc; omega

/-- pool ids above `MaxChainId`, `0` and the DAO pool id are refused -/
example : ([0, 16384, 2 + 16383, 2 + 32767, 2 + 65535, 131071, 18446744073709551615].all fun id =>
    match subsidy {} addrA id 5 [] with
    | .error .InvalidChainId => true
    | _ => false) = true := by decide

/-- PRE-FIX witness: the unchecked subsidy to `2 + EscrowPoolAddend` leaves chain 2's escrow pool at 340 with open orders worth 300 -/
theorem subsidy_breaks_escrow_eq :
    (match subsidyUnchecked (run {} [.fund addrA 1000, mkCreate id1 300]) addrA (2 + 65535) 40 [] with
     | .ok s => decide ((getPool s (escrowId 2)).amount = 340 ∧ escrowSum s 2 = 300)
     | .error _ => false) = true := by decide

/-- PRE-FIX witness: the unchecked subsidy to `2 + HoldingPoolAddend` leaves chain 2's holding pool at 140 with 100 pending -/
theorem subsidy_breaks_holding_eq :
    (match subsidyUnchecked (run {} [.fund addrA 1000, .setPool (liquidityId 2) { amount := 500 },
        .limit 2 { amount := 100, requested := 1, addr := addrA, id := id1 }]) addrA (2 + 16383) 40 [] with
     | .ok s => decide (holdAmt s 2 = 140 ∧ pendStored s 2 = 100)
     | .error _ => false) = true := by decide

end Canopy.C20
