import Canopy.Proof.BftLive
import Canopy.Proof.BftExec
import Canopy.Props.C01
/-!
# C15 — BFT liveness under eventual synchrony (PARTIAL: conditional on leader election)

*Statement.* If validators holding more than two thirds of the power follow the protocol and, from some point on,
messages are delivered within the phase timeouts, a block is committed within a bounded number of rounds, whatever
rounds, locks, partial certificates, pacemaker messages or stale proposals the nodes accumulated before, with up to
one third of the power silent or misbehaving.

*What is proved here* (all over the decision functions regenerated from `/repo`, `Canopy.Gen.Bft`):

1. `good_leader_commits` — from **every** valid history (arbitrary earlier rounds, locks, adoptions, Byzantine votes),
   a round whose view is new for the correct replicas `H` (power ≥ 2T/3+1), in which the leader follows the protocol and
   hears the locks of all of `H`, ends with a valid history that contains a commit certificate: the leader's fold of the
   generated lock-replacement test keeps the highest certificate, every locked correct replica's generated `SafeNode`
   accepts its re-proposal (LIVENESS branch for lower locks — completeness of `safeNodeUnlock`; SAFETY branch at equal
   views by uniqueness of PROPOSE_VOTE certificates), the generated `CheckProposerMessage` accepts the leader's PRECOMMIT
   certificate of the round. This is the liveness dual of C01's key lemma.
2. `sync_round` — the three facts that bring correct replicas into a common round with aligned phase windows:
   the pacemaker never moves a correct replica above the highest round a correct replica claimed
   (`pacemaker_no_overshoot`, needs the generated threshold to exceed the Byzantine power: `byzantine_cannot_reach`),
   a round claimed by more than a third of the power is reached at the next interrupt (`pacemaker_catch_up`), and since
   every round lasts `Σ timeouts · (2r+1)` for every replica (`roundLength_eq`, `msLeftInRound_remaining`) the start
   offset `δ` between two replicas stays constant while the phase windows grow, so from round `δ / tmin` on every phase
   window exceeds it (`offset_absorbed`).
3. `liveness_partial` — if among the next `K` rounds one has a correct leader that all correct replicas vote for, a block
   is committed within those `K` rounds (bad rounds in between are arbitrary valid extensions).
4. the guards that make a correct leader's round immune to other validators' messages: `electionVote_gate`
   (3637abf), `proposeMsg_binds_round` (63f299a), `leaderMsg_rejects_foreign_sender` (e2ecd83), and the pacemaker
   threshold (0fe2116). What each allowed before its repair is kept as a `decide`-checked witness
   (`stall_before_3637abf`, `hijack_before_63f299a`, `echo_before_e2ecd83`, `pacemaker_overshoot_halfMaj`).

*PARTIAL, said plainly.* Leader election (VRF sortition with the stake-weighted fallback) is a hash of the last
proposers, root height, height and round: *which* round has a correct leader that all correct replicas vote for is a
hypothesis, not a theorem (probability ≈ the correct stake share per round). Real timers are abstracted: "messages are
delivered within the phase windows" is the hypothesis `NewView` + "the leader hears all of `H`"; the arithmetic that
makes it eventually true is item 2, the simulator runs it with a virtual clock. Signatures, hashes, block validity: as
in C01.
-/
namespace Canopy.C15
open Canopy.Bft Canopy.Gen.Bft Canopy.C01

/-! ## T — the pacemaker threshold -/

/-- the generated threshold test `totalVotedPower >= TotalPower/3+1` in uint64 is "more than one third" -/
theorem genReached_iff (T v : Nat) (hT : T < 2 ^ 64) (hv : v < 2 ^ 64) : genReached T v = true ↔ T < 3 * v := by
  unfold genReached pacemakerReached
  simp only [decide_eq_true_eq, ge_iff_le, UInt64.le_iff_toNat_le, UInt64.toNat_add, UInt64.toNat_div, UInt64.toNat_ofNat']
  have h3 : (3 : UInt64).toNat = 3 := rfl
  have h1 : (1 : UInt64).toNat = 1 := rfl
  rw [h3, h1, Nat.mod_eq_of_lt hT, Nat.mod_eq_of_lt hv]
  have : (T / 3 + 1) % 2 ^ 64 = T / 3 + 1 := Nat.mod_eq_of_lt (by omega)
  rw [this]
  omega

theorem genReached_mono (T a b : Nat) (hT : T < 2 ^ 64) (hb : b < 2 ^ 64) (hab : a ≤ b)
    (h : genReached T a = true) : genReached T b = true := by
  rw [genReached_iff T a hT (by omega)] at h
  rw [genReached_iff T b hT hb]
  omega

/-- power below one third — all a Byzantine coalition can have — never passes the test -/
theorem byzantine_cannot_reach (T b : Nat) (hT : T < 2 ^ 64) (hb : 3 * b < T) : genReached T b = false := by
  cases h : genReached T b
  · rfl
  · rw [genReached_iff T b hT (by omega)] at h; omega

theorem pacemaker_threshold_source :
    src_Pacemaker_threshold = "totalVotedPower >= b.ValidatorSet.TotalPower / 3 + 1" ∧
    src_Pacemaker_jump = "if pacemakerRound > b.Round { b.Round = pacemakerRound; b.round.Store(b.Round) }" := by
  decide

/-- **Pacemaker, no overshoot.** If the validators outside `inB` (the correct ones) claim rounds `≤ M` and `inB` holds
    less than a third of the power, the pacemaker target is `≤ M`: a correct replica is never moved above the highest
    round some correct replica reached. -/
theorem pacemaker_no_overshoot (T : Nat) (hT : T < 2 ^ 64) (pw : Nat → Nat) (claims : List (Nat × Nat))
    (inB : Nat → Bool) (M : Nat)
    (hcorrect : ∀ c ∈ claims, inB c.1 = false → c.2 ≤ M)
    (hB : 3 * (((claims.filter fun c => inB c.1).map fun c => pw c.1).sum) < T)
    (hsum : ((claims.map fun c => pw c.1).sum) < 2 ^ 64) :
    pacemakerTarget pw (genReached T) claims ≤ M := by
  have hle : ∀ (p : Nat × Nat → Bool), ((claims.filter p).map fun c => pw c.1).sum < 2 ^ 64 := by
    intro p
    have := filter_sum_le_total pw claims p
    omega
  -- monotonicity is only needed on sums of claim powers, which are below 2^64; use the `≤`-closed form
  unfold pacemakerTarget
  apply foldl_max_le _ _ _ (Nat.zero_le _)
  intro R hR
  obtain ⟨_, hreach⟩ := List.mem_filter.mp hR
  by_cases hRM : R ≤ M
  · exact hRM
  · exfalso
    have hcp : claimPower pw claims R ≤ ((claims.filter fun c => inB c.1).map fun c => pw c.1).sum := by
      unfold claimPower
      apply filter_sum_mono
      intro c hc hdec
      cases hb : inB c.1
      · have := hcorrect c hc hb; simp at hdec; omega
      · rfl
    rw [genReached_iff T _ hT (by have := hle (fun c => decide (R ≤ c.2)); unfold claimPower; exact this)] at hreach
    omega

/-- **Pacemaker, catch-up.** A claimed round behind which more than a third of the power stands is reached by the
    replica's next `Pacemaker()`. -/
theorem pacemaker_catch_up (T : Nat) (hT : T < 2 ^ 64) (pw : Nat → Nat) (claims : List (Nat × Nat)) (R round : Nat)
    (hR : R ∈ claims.map (·.2)) (hp : T < 3 * claimPower pw claims R) (hlt : claimPower pw claims R < 2 ^ 64) :
    R ≤ pacemakerStep pw (genReached T) claims round :=
  Nat.le_trans (pacemakerTarget_ge pw _ claims R hR ((genReached_iff T _ hT hlt).mpr hp))
    (pacemakerStep_ge pw _ claims round).2

/-- a replica always leaves the round it interrupted -/
theorem pacemaker_progress (pw : Nat → Nat) (reached : Nat → Bool) (claims : List (Nat × Nat)) (round : Nat) :
    round < pacemakerStep pw reached claims round := (pacemakerStep_ge pw reached claims round).1

/-! ### F7 — what the old threshold `Uint64ReducePercentage(MinimumMaj23, 50)` allowed (before 0fe2116) -/

theorem uint64ReducePercentage_half (m : Nat) (hm : m * 50 < 2 ^ 64) :
    (uint64ReducePercentage (UInt64.ofNat m) 50).toNat = m * 50 / 100 := by
  unfold uint64ReducePercentage
  have hm' : m < 2 ^ 64 := by omega
  by_cases h0 : m = 0
  · subst h0; decide
  · have hne : ¬ (UInt64.ofNat m = 0) := by
      intro h
      have := congrArg UInt64.toNat h
      simp [UInt64.toNat_ofNat', Nat.mod_eq_of_lt hm'] at this
      exact h0 this
    have h50 : ¬ ((50 : UInt64) ≥ 100) := by decide
    have h50' : ¬ ((50 : UInt64) = 0) := by decide
    simp only [h50, hne, h50', decide_false, Bool.or_false, Bool.false_eq_true, if_false]
    simp only [UInt64.toNat_div, UInt64.toNat_mul, UInt64.toNat_ofNat', UInt64.toNat_sub]
    have h100 : (100 : UInt64).toNat = 100 := rfl
    simp [Nat.mod_eq_of_lt hm', Nat.mod_eq_of_lt hm, h100]

/-- half of the +2/3 threshold is exactly the faulty power `f` when `T = 3f+1` (equal stakes) -/
theorem halfMaj_is_f (f : Nat) : (2 * (3 * f + 1) / 3 + 1) * 50 / 100 = f := by omega

/-- the old test -/
def halfMajReached (T v : Nat) : Bool :=
  decide ((uint64ReducePercentage (minimumMaj23 (UInt64.ofNat T)) 50).toNat ≤ v)

/-- four equal validators, validator 0 Byzantine: its single claim of round 1,000,000 moved every replica there -/
theorem pacemaker_overshoot_halfMaj :
    pacemakerStep (fun _ => 1) (halfMajReached 4) [(0, 1000000), (1, 0), (2, 0), (3, 0)] 0 = 1000000 ∧
    pacemakerStep (fun _ => 1) (genReached 4) [(0, 1000000), (1, 0), (2, 0), (3, 0)] 0 = 1 := by
  decide

/-! ## T — the phase timers -/

/-- `waitTime(sleep, round) = sleep·(2·round+1)` ms -/
theorem waitTime_linear (s r : Nat) : waitTime s r = s * (2 * r + 1) := waitTime_eq s r

theorem waitTime_mono (s r r' : Nat) (h : r ≤ r') : waitTime s r ≤ waitTime s r' := by
  rw [waitTime_eq, waitTime_eq]; exact Nat.mul_le_mul_left _ (by omega)

theorem waitTime_strictMono (s r r' : Nat) (hs : 0 < s) (h : r < r') : waitTime s r < waitTime s r' := by
  rw [waitTime_eq, waitTime_eq]; exact Nat.mul_lt_mul_of_pos_left (by omega) hs

/-- the Go expression computes in uint64 and converts to nanoseconds in int64: it agrees with `waitTime` while
    `sleep·(2r+1)·10^6 < 2^63` (≈ 292 years) -/
theorem waitTime_fits (s r : Nat) (h : s * (2 * r + 1) * 1000000 < 2 ^ 63) : waitTime s r * 1000000 < 2 ^ 63 := by
  rw [waitTime_eq]; exact h

/-- `WaitTime` assigns each phase its own configured timeout -/
theorem waitTime_table :
    waitTimeTable.map (·.1) = [phase_ELECTION, phase_ELECTION_VOTE, phase_PROPOSE, phase_PROPOSE_VOTE, phase_PRECOMMIT,
      phase_PRECOMMIT_VOTE, phase_COMMIT, phase_COMMIT_PROCESS, phase_ROUND_INTERRUPT, phase_PACEMAKER] ∧
    (waitTimeTable.map (·.2)).take 7 = ["b.waitTime(b.Config.ElectionTimeoutMS, round)",
      "b.waitTime(b.Config.ElectionVoteTimeoutMS, round)", "b.waitTime(b.Config.ProposeTimeoutMS, round)",
      "b.waitTime(b.Config.ProposeVoteTimeoutMS, round)", "b.waitTime(b.Config.PrecommitTimeoutMS, round)",
      "b.waitTime(b.Config.PrecommitVoteTimeoutMS, round)", "b.waitTime(b.Config.CommitTimeoutMS, round)"] := by
  decide

/-- `msLeftInRound` at phase `p` is the wait of `p` plus what is left at `p+1`: the sum of the remaining phases -/
theorem msLeftInRound_remaining (w : Nat → Nat) :
    msLeftInRound phase_COMMIT w = w phase_COMMIT ∧
    msLeftInRound phase_PRECOMMIT_VOTE w = w phase_PRECOMMIT_VOTE + msLeftInRound phase_COMMIT w ∧
    msLeftInRound phase_PRECOMMIT w = w phase_PRECOMMIT + msLeftInRound phase_PRECOMMIT_VOTE w ∧
    msLeftInRound phase_PROPOSE_VOTE w = w phase_PROPOSE_VOTE + msLeftInRound phase_PRECOMMIT w ∧
    msLeftInRound phase_PROPOSE w = w phase_PROPOSE + msLeftInRound phase_PROPOSE_VOTE w ∧
    msLeftInRound phase_ELECTION_VOTE w = w phase_ELECTION_VOTE + msLeftInRound phase_PROPOSE w ∧
    msLeftInRound phase_ELECTION w = w phase_ELECTION + msLeftInRound phase_ELECTION_VOTE w ∧
    msLeftInRound phase_COMMIT_PROCESS w = 0 := by
  simp only [msLeftInRound, phase_ELECTION, phase_ELECTION_VOTE, phase_PROPOSE, phase_PROPOSE_VOTE, phase_PRECOMMIT,
    phase_PRECOMMIT_VOTE, phase_COMMIT, phase_COMMIT_PROCESS]
  simp
  omega

/-- every replica spends `Σ timeouts · (2r+1)` in a round that does not commit, wherever it was interrupted -/
theorem roundLength_eq (t : Timeouts) (r : Nat) : t.roundLength r = t.sum * (2 * r + 1) := Bft.roundLength_eq t r

/-- **Offset absorption.** The start offset `δ` between two replicas that go through the same rounds stays constant
    (both spend `roundLength r` in round `r`); from round `δ / tmin` on it is smaller than every phase window
    `timeout·(2k+1) ≥ tmin·(2k+1)`: messages sent in a phase arrive before the recipient's timer for that phase. -/
theorem offset_absorbed (δ tmin : Nat) (h : 0 < tmin) (k : Nat) (hk : δ / tmin ≤ k) (timeout : Nat) (ht : tmin ≤ timeout) :
    δ < waitTime timeout k := by
  rw [waitTime_eq]
  exact Nat.lt_of_lt_of_le (Bft.offset_absorbed δ tmin h k hk) (Nat.mul_le_mul_right _ ht)

/-- **sync_round.** After the network heals: (i) no correct replica is moved above the highest correct round,
    (ii) a round claimed by more than a third of the power is reached at the next interrupt, (iii) every interrupt makes
    progress, (iv) an offset of at most two round lengths of the highest round `k0` is absorbed by the phase windows
    after at most `2·Σ timeouts·(2·k0+1) / tmin` rounds. -/
theorem sync_round (T : Nat) (hT : T < 2 ^ 64) (pw : Nat → Nat) (claims : List (Nat × Nat)) (inB : Nat → Bool)
    (hsum : ((claims.map fun c => pw c.1).sum) < 2 ^ 64)
    (hB : 3 * (((claims.filter fun c => inB c.1).map fun c => pw c.1).sum) < T)
    (t : Timeouts) (htmin : 0 < t.min) :
    (∀ M, (∀ c ∈ claims, inB c.1 = false → c.2 ≤ M) → pacemakerTarget pw (genReached T) claims ≤ M) ∧
    (∀ R round, R ∈ claims.map (·.2) → T < 3 * claimPower pw claims R → R ≤ pacemakerStep pw (genReached T) claims round) ∧
    (∀ round, round < pacemakerStep pw (genReached T) claims round) ∧
    (∀ k0 δ k timeout, δ ≤ 2 * t.roundLength k0 → 2 * (t.sum * (2 * k0 + 1)) / t.min ≤ k → t.min ≤ timeout →
        δ < waitTime timeout k) := by
  refine ⟨fun M hM => pacemaker_no_overshoot T hT pw claims inB M hM hB hsum, ?_, fun r => pacemaker_progress pw _ claims r, ?_⟩
  · intro R round hR hp
    have hlt : claimPower pw claims R < 2 ^ 64 := by
      have := filter_sum_le_total pw claims (fun c => decide (R ≤ c.2))
      unfold claimPower; omega
    exact pacemaker_catch_up T hT pw claims R round hR hp hlt
  · intro k0 δ k timeout hδ hk ht
    rw [Bft.roundLength_eq] at hδ
    exact offset_absorbed δ t.min htmin k (Nat.le_trans (Nat.div_le_div_right hδ) hk) timeout ht

/-! ## T — the decisions a good round relies on (completeness; C01 proved their soundness) -/

/-- a justification from a strictly later (root height, round) always unlocks -/
theorem safeNodeUnlock_complete (lock msgHigh : Gen.Bft.View) (hh : lock.Height = msgHigh.Height)
    (h : lock.RootHeight < msgHigh.RootHeight ∨ (lock.RootHeight = msgHigh.RootHeight ∧ lock.Round < msgHigh.Round)) :
    safeNodeUnlock lock msgHigh = true := by
  unfold safeNodeUnlock
  rw [viewLess_iff]; omega

/-- **The replicas' unlock rule agrees with the leader's order.** The leader keeps, among the locks reported to it, the
    one the replacement test of `handleHighQCVDFAndEvidence` ranks highest (`adoptHigher`, i.e. `View.Less`: height, root
    height, round, phase); whenever that test ranks `new` above `lock`, a replica locked at `lock` takes SafeNode's LIVENESS
    branch for a proposal justified by `new` — across root heights too (a lock at (h, r) yields to one at (h+1, 0)). If the
    two rules ordered certificates differently, the leader would keep re-proposing a lock that lower-locked replicas refuse. -/
theorem replica_unlock_agrees_with_leader_order (lock new voteHdr : Gen.Bft.View)
    (h : adoptHigher true lock new voteHdr = true) : safeNodeUnlock lock new = true := by
  unfold adoptHigher at h
  unfold safeNodeUnlock
  simpa using h

/-- ... and the leader's test is the lexicographic order on (height, root height, round, phase) -/
theorem leader_order_is_viewLess (lock new voteHdr : Gen.Bft.View) :
    adoptHigher true lock new voteHdr = View.Less (some lock) (some new) := by
  unfold adoptHigher; simp

theorem genUnlock_complete (w y : Bft.View) (h : w < y) : genUnlock w y = true :=
  safeNodeUnlock_complete (hdrOf w phase_PROPOSE_VOTE) (hdrOf y phase_PROPOSE_VOTE) rfl h

theorem adoptHigher_complete (lock new voteHdr : Gen.Bft.View) (hh : lock.Height = new.Height)
    (h : lock.RootHeight < new.RootHeight ∨ (lock.RootHeight = new.RootHeight ∧ lock.Round < new.Round)) :
    adoptHigher true lock new voteHdr = true ∧ adoptHigher false lock new voteHdr = true := by
  unfold adoptHigher
  simp
  rw [viewLess_iff]; omega

theorem genAdoptOk_complete (w y : Bft.View) (h : w < y) : genAdoptOk w y = true :=
  (adoptHigher_complete (hdrOf w phase_PROPOSE_VOTE) (hdrOf y phase_PROPOSE_VOTE) _ rfl h).1

/-- the PRECOMMIT message of the leader a replica follows, carrying the PROPOSE_VOTE certificate of the round, is accepted -/
theorem genCertBound_accepts (v : Bft.View) : genCertBound v true v = true := by
  unfold genCertBound leaderMsgHeaderRejected leaderMsgWrongRoot leaderMsgWrongHeight leaderMsgQcTooOld leaderMsgChecks
  simp [hdrOf, modelHeight, phase_PROPOSE_VOTE, phase_PRECOMMIT]

/-- **3637abf.** The payload of an ELECTION_VOTE (lock, VDF, evidence) is processed exactly by the candidate it names,
    in the vote's round, up to the PROPOSE phase; it is the first statement of the branch and a lock without its
    proposal is refused before anything else. -/
theorem electionVote_gate (namesSelf : Bool) (voteRound round phase : Nat) :
    (electionVoteIgnored namesSelf voteRound round phase = false ↔
      namesSelf = true ∧ voteRound = round ∧ (phase = phase_ELECTION ∨ phase = phase_ELECTION_VOTE ∨ phase = phase_PROPOSE)) ∧
    electionVoteGate_index = 0 ∧ highQcProposalCheck_index = 0 ∧
    (∀ hb hr, highQcMissingProposal hb hr = false ↔ hb = true ∧ hr = true) := by
  refine ⟨?_, by decide, by decide, by intro hb hr; cases hb <;> cases hr <;> decide⟩
  unfold electionVoteIgnored
  cases namesSelf <;> simp [phase_ELECTION, phase_ELECTION_VOTE, phase_PROPOSE]
  intro _
  by_cases h1 : phase = 1 <;> by_cases h2 : phase = 2 <;> by_cases h3 : phase = 3 <;> simp [h1, h2, h3]

/-- **63f299a.** An accepted PROPOSE message carries the ELECTION_VOTE certificate of its own round naming its sender,
    and the proposal itself. -/
theorem proposeMsg_binds_round (qc hdr : Gen.Bft.View) (sender qcProposer : Nat) (hb hr : Bool)
    (h : proposeMsgChecks qc hdr sender qcProposer hb hr = none) :
    qc.Height = hdr.Height ∧ qc.Round = hdr.Round ∧ qc.Phase + 1 = hdr.Phase ∧ qcProposer = sender ∧ hb = true ∧ hr = true := by
  unfold proposeMsgChecks at h
  repeat' split at h
  all_goals simp_all

/-- **e2ecd83.** A PRECOMMIT/COMMIT message from anybody but the leader the replica follows is rejected. -/
theorem leaderMsg_rejects_foreign_sender (qc hdr : Gen.Bft.View) (sender proposer : Nat) (saved : Bool) (a b c d : Nat)
    (h : sender ≠ proposer) : leaderMsgChecks qc hdr sender proposer saved a b c d ≠ none := by
  intro hn
  unfold leaderMsgChecks at hn
  repeat' split at hn
  all_goals simp_all

/-- a round change drops everything the replica held for the round — block, cached block hash, results, proposer —
    unconditionally (locked or not): `GetBlockHash()` recomputes the hash of whatever is proposed next. The per-replica
    model's `Rep.newRound` / `reset` do the same, and the driver compares the block a replica signs for with it. -/
theorem newRound_clears_round_state :
    "b.Block, b.BlockHash, b.Results = nil, nil, nil" ∈ src_NewRound_stmts ∧ "b.ProposerKey = nil" ∈ src_NewRound_stmts ∧
    "b.NewRound(true)" ∈ src_NewHeight_stmts := by
  decide

/-- **Forwarding the lock does not touch it.** `StartElectionVotePhase` hands `b.HighQC` itself (the object, with the block
    and results it certifies) to the leader as `HighQc`; it assigns nothing but the proposer it votes for and its VDF, and
    everything it calls is one of: candidate lookup, leader selection, the VDF service, a copy of the view, the send. None
    of these reaches a certificate the replica stores — the lock aliases the `Qc` of the stored PRECOMMIT message, so
    anything that rewrites stored certificates in place here would strip the lock of its proposal, and every leader drops
    an ELECTION_VOTE whose `HighQc` has no block (`highQcMissingProposal`): `exec_leader_hears_lock` needs this frame.
    The per-replica model's ELECTION_VOTE step (`electionVote_step_keeps_lock`) changes the phase only. -/
theorem electionVote_phase_leaves_lock_alone :
    src_StartElectionVotePhase_highQc = ["b.HighQC"] ∧
    (∀ a ∈ src_StartElectionVotePhase_assigns, a ∈ ["candidates", "b.ProposerKey", "b.HighVDF"]) ∧
    (∀ c ∈ src_StartElectionVotePhase_calls, c ∈ ["b.GetElectionCandidates", "len", "SelectProposerFromCandidates",
      "func(...){b.ProposerKey = nil}", "b.SelfIsProposer", "b.VDFService.Finish", "b.SendToProposer", "b.View.Copy"]) := by
  decide +kernel

theorem electionVote_step_keeps_lock (s s' : Rep) (out : String)
    (hp : s.phase = phase_ELECTION ∨ s.phase = phase_ELECTION_VOTE) (h : s.phaseStep [] = some (s', out)) :
    s'.lock = s.lock ∧ s'.blk = s.blk ∧ s'.round = s.round := by
  unfold Rep.phaseStep at h
  rcases hp with hp | hp <;> simp [hp] at h <;> (obtain ⟨rfl, _⟩ := h; simp)

/-- **The lock a correct replica reports is accepted.** `CheckHighQC` passes every full PROPOSE_VOTE certificate of the
    current height whose root height is not below the committee's last update — in particular one from exactly that
    root height (a nested chain whose root chain has not advanced since its last commit). `good_leader_commits` needs
    the leader to hear the locks of the correct replicas: this is what lets their ELECTION_VOTEs (and the re-proposal
    that carries the lock as `HighQc`) through. -/
theorem checkHighQCPost_complete (x view : Gen.Bft.View) (l : Nat)
    (hl : l ≤ x.RootHeight) (hh : x.Height = view.Height) (hp : x.Phase = phase_PROPOSE_VOTE) :
    checkHighQCPost false x view l = none := by
  unfold checkHighQCPost
  have h1 : ¬ (l > x.RootHeight) := by omega
  simp [h1, hh, hp]

/-- the boundary is legal and the only rejected root heights are the stale ones -/
theorem checkHighQCPost_root_boundary (x view : Gen.Bft.View) (hh : x.Height = view.Height) (hp : x.Phase = phase_PROPOSE_VOTE) :
    checkHighQCPost false x view x.RootHeight = none ∧
    checkHighQCPost false x view (x.RootHeight + 1) = some "ErrWrongHighQCRootHeight" := by
  refine ⟨checkHighQCPost_complete x view _ (Nat.le_refl _) hh hp, ?_⟩
  unfold checkHighQCPost
  simp

/-- every certificate is verified against the committee of its OWN root height — the justification `Qc`, the lock `HighQc`
    attached to a leader message, and the lock reported in an ELECTION_VOTE: a signer bitmap only means something under the
    validator list it was laid out for. The model's symbolic signatures (`World.sigValid`: the listed signers signed this
    payload) and `good_leader_commits` (a lock formed before a root-height bump is re-proposed after it) rest on this. -/
theorem certificates_checked_under_own_committee :
    src_CheckProposerMessage_committees =
      ["if x.Qc.Header.RootHeight != p.rootHeight { vals, err = b.LoadCommittee(b.LoadRootChainId(x.Qc.Header.Height), x.Qc.Header.RootHeight) }",
       "if x.HighQc.Header.RootHeight != p.rootHeight { highQCVals, err = b.LoadCommittee(b.LoadRootChainId(x.HighQc.Header.Height), x.HighQc.Header.RootHeight) }"] ∧
    src_handleHighQC_committee =
      "vs, err := b.Controller.LoadCommittee(b.LoadRootChainId(vote.HighQc.Header.Height), vote.HighQc.Header.RootHeight)" := by
  decide +kernel

/-- in the per-replica model: the candidate named by an ELECTION_VOTE of its round, up to its PROPOSE phase, processes a
    real, full, current lock certificate that carries its proposal — it adopts or keeps, it never rejects the vote -/
theorem exec_leader_hears_lock (w : World) (r : Nat) (s : Rep) (v : Bft.View) (hq : CertD)
    (hroot : v.root = s.root) (hround : v.round = s.round)
    (hphase : s.phase = phase_ELECTION ∨ s.phase = phase_ELECTION_VOTE ∨ s.phase = phase_PROPOSE)
    (hsig : w.sigValid hq = true) (hfull : w.isPartial hq.signers = false)
    (hph : hq.phase = phase_PROPOSE_VOTE) (hl : w.lrhu ≤ hq.view.root) :
    (w.electionVote r s v (some r) hq true true).2 = "adopt" ∨ (w.electionVote r s v (some r) hq true true).2 = "keep" := by
  have hgate : electionVoteIgnored (some r == some r) v.round s.round s.phase = false := by
    rw [(electionVote_gate _ _ _ _).1]
    exact ⟨by simp, hround, hphase⟩
  have hpost : checkHighQCPost (w.isPartial hq.signers) (certHdr hq) (hdrOf ⟨s.root, s.round⟩ s.phase) w.lrhu = none := by
    rw [hfull]
    exact checkHighQCPost_complete _ _ _ (by simpa [certHdr, hdrOf] using hl) rfl (by simp [certHdr, hdrOf, hph])
  unfold World.electionVote
  simp only [hroot, bne_self_eq_false, Bool.false_eq_true, if_false, hgate, highQcMissingProposal, Bool.not_true,
    Bool.or_self, hsig, hpost]
  split <;> (split <;> simp)

/-! ## the per-replica handlers accept what a correct leader sends (duals of C01's `exec_*` theorems) -/

/-- `StartProposeVotePhase` lets a replica vote when the justification dominates its lock or certifies the locked block -/
theorem exec_propose_accepts (lv : Bft.View) (lb b : Nat) (cert : CertD)
    (hph : cert.phase = phase_PROPOSE_VOTE) (hblk : cert.blk = b) (h : lv < cert.view ∨ lb = b) :
    proposeDecision (some (lv, phase_PROPOSE_VOTE, lb)) b (some cert) = none := by
  simp only [proposeDecision]
  rw [safeNode_accepts_iff]
  simp only [safeNodeInput, Option.isSome_some, Option.map_some, Option.getD_some, hblk, true_and]
  rcases h with h | h
  · right
    unfold certHdr; rw [hph]
    exact genUnlock_complete lv cert.view h
  · left; subst h; exact ⟨rfl, rfl⟩

/-- an unlocked replica votes for any proposal -/
theorem exec_propose_accepts_unlocked (b : Nat) (hq : Option CertD) : proposeDecision none b hq = none := rfl

/-! ## the property -/

/-- **good_leader_commits.** Any valid history, any committee and stake function, Byzantine power below one third;
    `H`: correct replicas holding at least `2T/3+1`; `v`: a view new for them; `reported`: the certificates the leader
    heard of — every lock of a replica in `H` is among them, all are real PROPOSE_VOTE certificates. Then the round in
    which the leader proposes `leaderProposal` and everybody in `H` votes is a valid extension and contains a commit
    certificate for the proposed block. -/
theorem good_leader_commits (committee : List Nat) (pw : Nat → Nat) (byz : Nat → Bool)
    (hb : 3 * (genCfg committee pw byz).powerOf byz < (genCfg committee pw byz).total)
    (tr : List Ev) (hv : (genCfg committee pw byz).Valid tr)
    (H : List Nat) (hnd : H.Nodup) (hh : ∀ r ∈ H, byz r = false)
    (hpow : (genCfg committee pw byz).maj ≤ (genCfg committee pw byz).powerOf (fun r => H.contains r))
    (v : Bft.View) (hnew : Cfg.NewView tr H v)
    (reported : List (Bft.View × Nat))
    (hcert : ∀ x ∈ reported, (genCfg committee pw byz).proposeQC tr x.1 x.2)
    (hall : ∀ r ∈ H, ∀ lk, Cfg.lock tr r = some lk → lk ∈ reported)
    (fresh : Nat) :
    let p := leaderProposal (genCfg committee pw byz) reported fresh
    (genCfg committee pw byz).Valid (goodRound tr H v p.1 p.2) ∧
      (genCfg committee pw byz).precommitQC (goodRound tr H v p.1 p.2) v p.1 := by
  intro p
  have hf := locks_at_vote_view committee pw byz tr hv
  apply Cfg.goodRound_commits tr hv H hnd hh hpow v hnew (genCertBound_accepts v)
  intro r hr
  rcases Cfg.highestLock_spec (c := genCfg committee pw byz) genAdoptOk_lt genAdoptOk_complete reported with ⟨hnil, hnone⟩ | ⟨y, b, hsome, hmem, hdom⟩
  · -- nothing reported: nobody in H is locked
    have hp : p = (fresh, none) := by simp [p, leaderProposal, hnone]
    rw [hp]
    cases hl : Cfg.lock tr r with
    | none => simp [Cfg.safeCond]
    | some lk => have := hall r hr lk hl; rw [hnil] at this; cases this
  · have hp : p = (b, some y) := by simp [p, leaderProposal, hsome]
    rw [hp]
    exact Cfg.safeCond_of_highest hb genUnlock_complete tr hv hf r (hh r hr) y b (hcert _ hmem)
      (fun w bw hl => hdom _ (hall r hr (w, bw) hl))

/-- **liveness_partial.** Rounds `0..K` after synchronisation; round `j` starts from the history `hist j`, every history
    is valid (bad rounds are arbitrary valid extensions — Byzantine leaders, split elections, anything); if some round
    `j ≤ K` is good (its view is new for `H`, the leader hears `H`'s locks and follows the protocol), the history after
    that round contains a commit certificate. PARTIAL: that such a `j` exists is the election hypothesis. -/
theorem liveness_partial (committee : List Nat) (pw : Nat → Nat) (byz : Nat → Bool)
    (hb : 3 * (genCfg committee pw byz).powerOf byz < (genCfg committee pw byz).total)
    (H : List Nat) (hnd : H.Nodup) (hh : ∀ r ∈ H, byz r = false)
    (hpow : (genCfg committee pw byz).maj ≤ (genCfg committee pw byz).powerOf (fun r => H.contains r))
    (K : Nat) (hist : Nat → List Ev) (view : Nat → Bft.View)
    (reported : Nat → List (Bft.View × Nat)) (fresh : Nat → Nat)
    (hvalid : ∀ j ≤ K, (genCfg committee pw byz).Valid (hist j))
    (good : Nat → Prop)
    (hgood : ∀ j ≤ K, good j →
      Cfg.NewView (hist j) H (view j) ∧
      (∀ x ∈ reported j, (genCfg committee pw byz).proposeQC (hist j) x.1 x.2) ∧
      (∀ r ∈ H, ∀ lk, Cfg.lock (hist j) r = some lk → lk ∈ reported j))
    (hex : ∃ j, j ≤ K ∧ good j) :
    ∃ j, j ≤ K ∧ ∃ b hq, (genCfg committee pw byz).Valid (goodRound (hist j) H (view j) b hq) ∧
      (genCfg committee pw byz).precommitQC (goodRound (hist j) H (view j) b hq) (view j) b := by
  obtain ⟨j, hj, hg⟩ := hex
  obtain ⟨hnew, hcert, hall⟩ := hgood j hj hg
  exact ⟨j, hj, _, _, good_leader_commits committee pw byz hb (hist j) (hvalid j hj) H hnd hh hpow (view j) hnew
    (reported j) hcert hall (fresh j)⟩

/-! ## non-vacuity and the pre-repair witnesses (four equal-stake replicas, replica 0 Byzantine and silent) -/

def H3 : List Nat := [1, 2, 3]
def q0 : Bft.View := ⟨10, 0⟩
def q1 : Bft.View := ⟨10, 1⟩
def q2 : Bft.View := ⟨10, 2⟩

/-- replica 1 alone locked on block 1 at (10,0); replicas 2 and 3 then certified block 2 at (10,1) with the Byzantine
    replica and replica 2 locked on it -/
def mixedLocks : List Ev := [
  .precommit 2 q1 2 q1 true,
  .propose 3 q1 2 none, .propose 2 q1 2 none, .propose 0 q1 2 none,
  .precommit 1 q0 1 q0 true,
  .propose 3 q0 1 none, .propose 2 q0 1 none, .propose 1 q0 1 none ]

/-- the hypotheses of `good_leader_commits` hold together (three correct replicas with two different locks and one
    unlocked), the leader re-proposes block 2 justified by (10,1), and the round commits it -/
example :
    cfg4.Valid mixedLocks ∧ Cfg.NewView mixedLocks H3 q2 ∧
    leaderProposal cfg4 [(q0, 1), (q1, 2)] 9 = (2, some q1) ∧
    cfg4.Valid (goodRound mixedLocks H3 q2 2 (some q1)) ∧ cfg4.precommitQC (goodRound mixedLocks H3 q2 2 (some q1)) q2 2 := by
  refine ⟨cfg4.validP_sound _ (by decide), ?_, by decide, cfg4.validP_sound _ (by decide), by decide⟩
  intro r hr e he hre w hw
  have : ∀ e ∈ mixedLocks, ∀ w, e.voteView = some w → w < q2 := by decide
  exact this e he w hw

/-- **L1 before 3637abf.** Any replica adopted the HighQc of any ELECTION_VOTE in any phase and its round's block was
    overwritten with the vote's (empty) block: a replica that had propose-voted block 1 and held the leader's PRECOMMIT
    message interrupted instead of precommit-voting. With the generated gate the same vote is only counted. -/
theorem stall_before_3637abf :
    let s : Rep := { root := 10, round := 0, phase := phase_PRECOMMIT_VOTE, lock := none, blk := some (encBlk 1 1), proposer := some 2, commits := [] }
    let cert : CertD := { view := q0, phase := phase_PROPOSE_VOTE, blk := encBlk 1 1, signers := [1, 2, 3] }
    -- the old behaviour: lock := HighQc, block of the round := none
    (precommitVote { s with lock := some (cert.view, cert.phase, cert.blk), blk := none } (some (2, cert))).2 = "interrupt:mismatch" ∧
    -- the repaired behaviour: the payload is ignored (the vote names another candidate / the replica is past PROPOSE)
    electionVoteIgnored true 0 0 phase_PRECOMMIT_VOTE = true ∧ electionVoteIgnored false 0 0 phase_PROPOSE = true ∧
    (precommitVote s (some (2, cert))).2 = "vote" := by
  decide

/-- **L3 before 63f299a.** A PROPOSE message of round 5 carrying the ELECTION_VOTE certificate of round 0 passed every
    other check of the branch; the generated branch rejects it. -/
theorem hijack_before_63f299a :
    let qc : Gen.Bft.View := hdrOf ⟨10, 0⟩ phase_ELECTION_VOTE
    let hdr : Gen.Bft.View := hdrOf ⟨10, 5⟩ phase_PROPOSE
    (qc.Round ≠ hdr.Round) ∧ proposeMsgChecks qc hdr 1 1 true true = some "ErrWrongPhase" ∧
    proposeMsgChecks (hdrOf ⟨10, 5⟩ phase_ELECTION_VOTE) hdr 1 1 true true = none := by
  decide

/-- **L2 before e2ecd83.** The leader's PRECOMMIT certificate re-signed by validator 0 was stored over the genuine
    message and `CheckProposerAndProposal` interrupted the round; the generated branch rejects the echo at delivery. -/
theorem echo_before_e2ecd83 :
    let s : Rep := { root := 10, round := 0, phase := phase_PRECOMMIT_VOTE, lock := none, blk := some (encBlk 1 1), proposer := some 2, commits := [] }
    let cert : CertD := { view := q0, phase := phase_PROPOSE_VOTE, blk := encBlk 1 1, signers := [1, 2, 3] }
    (precommitVote s (some (0, cert))).2 = "interrupt:wrongproposer" ∧
    leaderMsgChecks (certHdr cert) (hdrOf q0 phase_PRECOMMIT) (keyId (some 0)) (keyId s.proposer) true 1 1 1 1
      = some "ErrInvalidProposerPubKey" ∧
    leaderMsgChecks (certHdr cert) (hdrOf q0 phase_PRECOMMIT) (keyId (some 2)) (keyId s.proposer) true 1 1 1 1 = none := by
  decide

end Canopy.C15
