import Canopy.Proof.Replay
import Canopy.Model.C06Witness
/-!
# C06 — the replay clause is false of the unchanged code: concrete witnesses

Each theorem exhibits a real, honestly signed `send` (`C06W.edRaw` / `C06W.ethRaw`, produced by the
repository's own signing and marshalling code) that has been included, and a *different* byte string
carrying the same signed content that the admission path of the unchanged code (`strictTx = false`,
`strictKey = false`) accepts afterwards. The Go driver replays exactly these byte strings on the real
state machine (the recipient is paid twice) — see `witness` ops and the oracle signatures
`C06:replay-by-reencoding` / `C06:replay-by-pubkey-encoding`.

Everything here is closed, decidable and checked by kernel evaluation (`decide +kernel`), SHA-256
included.
-/
namespace Canopy.C06W
open Canopy Canopy.Proto Canopy.Replay

/-- the chain at genesis (height 1): both senders funded -/
def chain₀ (strictTx strictKey : Bool) : Chain :=
  { networkId := 1, chainId := 1, height := 1, minFee := 10000, legacyRlpDisabled := false,
    strictTx := strictTx, strictKey := strictKey, index := [],
    accounts := [⟨edAddr, 1000000000000, 0⟩, ⟨ethAddr, 1000000000000, 0⟩] }

/-- a later state (height 3): the two sends have been executed and indexed -/
def chain₂ (strictTx strictKey : Bool) : Chain :=
  { networkId := 1, chainId := 1, height := 3, minFee := 10000, legacyRlpDisabled := false,
    strictTx := strictTx, strictKey := strictKey, index := [txId edRaw, txId ethRaw],
    accounts := [⟨edAddr, 1000000000000 - 11000, 0⟩, ⟨ethAddr, 1000000000000 - 11000, 0⟩, ⟨recipient, 2000, 0⟩] }

/-- non-vacuity: the honest transactions are accepted at genesis, whatever the code version -/
theorem honest_accepted (a b : Bool) :
    accepted env (chain₀ a b) edRaw = true ∧ accepted env (chain₀ a b) ethRaw = true := by
  cases a <;> cases b <;> decide +kernel

theorem ed_included (a b : Bool) : Included env (chain₂ a b) edRaw :=
  ⟨by simp [chain₂], chain₀ a b, (honest_accepted a b).1, rfl, rfl⟩

theorem eth_included (a b : Bool) : Included env (chain₂ a b) ethRaw :=
  ⟨by simp [chain₂], chain₀ a b, (honest_accepted a b).2, rfl, rfl⟩

/-- the identical bytes are refused (the hash lookup works) -/
theorem identical_bytes_rejected :
    accepted env (chain₂ false false) edRaw = false ∧ accepted env (chain₂ false false) ethRaw = false := by
  decide +kernel

/-- **explicit default**: `edRaw ++ [0x50, 0x00]` (explicit `nonce = 0`) -/
theorem no_replay_fails_witness_explicit_default :
    ReplayWitness env (chain₂ false false) edRaw ed_explicit_default :=
  ⟨ed_included _ _, by decide, by decide +kernel, by decide +kernel, by decide +kernel⟩

/-- **non-minimal varint**: `created_height = 1` written as `0x81 0x00` -/
theorem no_replay_fails_witness_varint_pad :
    ReplayWitness env (chain₂ false false) edRaw ed_varint_pad :=
  ⟨ed_included _ _, by decide, by decide +kernel, by decide +kernel, by decide +kernel⟩

/-- **field order**: the first two fields swapped -/
theorem no_replay_fails_witness_field_order :
    ReplayWitness env (chain₂ false false) edRaw ed_field_order :=
  ⟨ed_included _ _, by decide, by decide +kernel, by decide +kernel, by decide +kernel⟩

/-- **duplicated field, last occurrence wins**: a decoy `created_height = 77` in front -/
theorem no_replay_fails_witness_dup_last_wins :
    ReplayWitness env (chain₂ false false) edRaw ed_dup_last_wins :=
  ⟨ed_included _ _, by decide, by decide +kernel, by decide +kernel, by decide +kernel⟩

/-- **public-key encoding**: the same Ethereum key as 65 bytes (`0x04` prefix) instead of 64 -/
theorem no_replay_fails_witness_pubkey_65 :
    ReplayWitness env (chain₂ false false) ethRaw eth_pubkey_65 :=
  ⟨eth_included _ _, by decide, by decide +kernel, by decide +kernel, by decide +kernel⟩

/-- canonical *bytes* alone do not close the key-encoding family: `eth_pubkey_65` is the canonical
marshalling of its own content, so a repair that only compares bytes with their re-marshalling still
accepts it -/
theorem key_check_needed : ReplayWitness env (chain₂ true false) ethRaw eth_pubkey_65 :=
  ⟨eth_included _ _, by decide, by decide +kernel, by decide +kernel, by decide +kernel⟩

/-- the repaired code (`strictTx`, `strictKey`) refuses all five -/
theorem repaired_rejects_witnesses :
    accepted env (chain₂ true true) ed_explicit_default = false ∧
    accepted env (chain₂ true true) ed_varint_pad = false ∧
    accepted env (chain₂ true true) ed_field_order = false ∧
    accepted env (chain₂ true true) ed_dup_last_wins = false ∧
    accepted env (chain₂ true true) eth_pubkey_65 = false := by
  decide +kernel

end Canopy.C06W
