import Canopy.Proof.Committee
/-!
# C13 — committee derivation and voting power

`members vals chain cap delegate` is the hand model of `fsm.getValidatorSet` (filter, sort, cap);
its sort comparator is proved equal to the **generated** comparator `Gen.Committee.sortCmp`
(translated from the closure passed to `slices.SortFunc`), and the +2/3 threshold theorem is about
the **generated** `Gen.Committee.minPowerFor23Maj` (translated from `lib.NewValidatorSet`).
Its eligibility test is proved equal to the **generated** `Gen.Committee.passesFilter` (translated
from `Validator.PassesFilter`) applied to the **generated** filter literal and delegate-filter choice,
its cap to the **generated** `limitOf`/`selectCap`, and `members_eq_source` assembles these into "the
model is the composition of the code's own pieces". The statement that builds `filtered` (a fresh
slice — the cached validator list is never filtered in place), the slice the members are built from
and the member fields are generated facts. The historical lookup (`LoadCommittee(h)`) and the caches
are tied by the correspondence run.
-/
namespace Canopy.C13
open Canopy Canopy.Committee

/-! ## the model's comparator is the code's comparator -/

def toGo (v : Val) : Gen.Committee.GoValidator :=
  { Address := v.address, PublicKey := v.publicKey, StakedAmount := v.stake, Committees := v.committees,
    MaxPausedHeight := v.maxPausedHeight, UnstakingHeight := v.unstakingHeight, Delegate := v.delegate }

theorem cmpBytes_le_zero (a b : Bytes) : (Gen.Committee.cmpBytes a b ≤ 0) ↔ bytesLe a b = true := by
  induction a generalizing b with
  | nil => cases b <;> simp [Gen.Committee.cmpBytes, bytesLe]
  | cons x xs ih =>
    cases b with
    | nil => simp [Gen.Committee.cmpBytes, bytesLe]
    | cons y ys =>
      simp only [Gen.Committee.cmpBytes, bytesLe]
      by_cases h1 : x < y
      · simp [h1]
      · by_cases h2 : y < x
        · simp [h1, h2]
        · simp only [h1, h2, ↓reduceIte]; exact ih ys

/-- `before a b` ("a is placed no later than b") is exactly "the Go comparator returns ≤ 0" -/
theorem before_eq_generated (a b : Val) :
    before a b = decide (Gen.Committee.sortCmp (toGo a) (toGo b) ≤ 0) := by
  simp only [before, Gen.Committee.sortCmp, Gen.Committee.cmpU64, toGo]
  by_cases h1 : b.stake < a.stake
  · simp [h1]
  · by_cases h2 : a.stake < b.stake
    · simp [h1, h2]
    · simp only [h1, h2, ↓reduceIte]
      have := cmpBytes_le_zero b.address a.address
      by_cases h3 : bytesLe b.address a.address = true
      · simp [h3, this.mpr h3]
      · have h4 : ¬ Gen.Committee.cmpBytes b.address a.address ≤ 0 := fun h => h3 (this.mp h)
        simp [h3, h4]

/-! ## every node resolves ties identically: the member list depends only on the set of records -/

theorem nodup_map_inj {α β : Type} (f : α → β) :
    ∀ (l : List α), (l.map f).Nodup → ∀ a b, a ∈ l → b ∈ l → f a = f b → a = b
  | [], _, _, _, ha, _, _ => by cases ha
  | x :: xs, hd, a, b, ha, hb, hab => by
    simp only [List.map_cons, List.nodup_cons, List.mem_map, not_exists, not_and] at hd
    rcases List.mem_cons.mp ha with rfl | ha' <;> rcases List.mem_cons.mp hb with rfl | hb'
    · rfl
    · exact absurd hab.symm (hd.1 b hb')
    · exact absurd hab (hd.1 a ha')
    · exact nodup_map_inj f xs hd.2 a b ha' hb' hab

theorem sorted_members_pairwise (l : List Val) : (l.mergeSort before).Pairwise (fun a b => before a b = true) :=
  List.pairwise_mergeSort (le := before) (fun a b c => before_trans a b c) (fun a b => before_total a b) l

/-- **committee_perm**: any two enumerations of the same validator records (distinct addresses) give
the same ordered committee, i.e. the result does not depend on storage/iteration order and ties at
the cap boundary are resolved identically everywhere. -/
theorem committee_perm (v₁ v₂ : List Val) (chain cap : UInt64) (delegate : Bool)
    (hp : v₁.Perm v₂) (hd : (v₁.map (·.address)).Nodup) :
    members v₁ chain cap delegate = members v₂ chain cap delegate := by
  have hf : (v₁.filter (elig chain delegate)).Perm (v₂.filter (elig chain delegate)) := hp.filter _
  have hs : ((v₁.filter (elig chain delegate)).mergeSort before).Perm
      ((v₂.filter (elig chain delegate)).mergeSort before) :=
    (List.mergeSort_perm _ _).trans (hf.trans (List.mergeSort_perm _ _).symm)
  have heq : (v₁.filter (elig chain delegate)).mergeSort before
      = (v₂.filter (elig chain delegate)).mergeSort before := by
    refine List.Perm.eq_of_pairwise (le := fun a b => before a b = true) ?_
      (sorted_members_pairwise _) (sorted_members_pairwise _) hs
    intro a b ha hb hab hba
    -- both are records of v₁ with the same address, and addresses are distinct in v₁
    have ha1 : a ∈ v₁ := (List.mem_filter.mp ((List.mem_mergeSort).mp ha)).1
    have hb1 : b ∈ v₁ := hp.symm.subset (List.mem_filter.mp ((List.mem_mergeSort).mp hb)).1
    have haddr := (before_antisymm a b hab hba).2
    exact nodup_map_inj (·.address) v₁ hd a b ha1 hb1 haddr
  simp only [members, heq]

/-! ## who is in the committee -/

/-- every member is an eligible validator of the population: registered for the chain, not paused,
not unstaking, and of the requested kind (validator vs delegate) -/
theorem members_eligible (vals : List Val) (chain cap : UInt64) (delegate : Bool) :
    ∀ m ∈ members vals chain cap delegate, m ∈ vals ∧ elig chain delegate m = true := by
  intro m hm
  have h1 : m ∈ (vals.filter (elig chain delegate)).mergeSort before := List.mem_of_mem_take hm
  exact List.mem_filter.mp (List.mem_mergeSort.mp h1)

/-- the committee is capped at the governance maximum; `cap = 0` means unlimited -/
theorem members_length (vals : List Val) (chain cap : UInt64) (delegate : Bool) :
    (members vals chain cap delegate).length =
      if cap > 0 then min (vals.filter (elig chain delegate)).length cap.toNat
      else (vals.filter (elig chain delegate)).length := by
  simp only [members, limit, List.length_take, List.length_mergeSort]
  split <;> simp

/-- **committee_topk**: members are the highest-staked eligible validators — every eligible validator
left out ranks no earlier than every member. -/
theorem committee_topk (vals : List Val) (chain cap : UInt64) (delegate : Bool)
    (m v : Val) (hm : m ∈ members vals chain cap delegate)
    (hv : v ∈ vals) (he : elig chain delegate v = true) (hnot : v ∉ members vals chain cap delegate) :
    before m v = true := by
  let s := (vals.filter (elig chain delegate)).mergeSort before
  have hvs : v ∈ s := List.mem_mergeSort.mpr (List.mem_filter.mpr ⟨hv, he⟩)
  have hsplit : s = s.take (limit s.length cap) ++ s.drop (limit s.length cap) := (List.take_append_drop _ _).symm
  have hvd : v ∈ s.drop (limit s.length cap) := by
    rw [hsplit] at hvs
    rcases List.mem_append.mp hvs with h | h
    · exact absurd h hnot
    · exact h
  have hpw := sorted_members_pairwise (vals.filter (elig chain delegate))
  rw [show (vals.filter (elig chain delegate)).mergeSort before = s from rfl, hsplit] at hpw
  exact (List.pairwise_append.mp hpw).2.2 m hm v hvd

/-! ## voting power and the +2/3 threshold -/

theorem foldl_totalPower (ms : List Val) : ∀ (acc : UInt64), acc.toNat + totalPowerNat ms < 2 ^ 64 →
    (ms.foldl (fun acc v => acc + v.stake) acc).toNat = acc.toNat + totalPowerNat ms := by
  induction ms with
  | nil => intro acc _; simp [totalPowerNat]
  | cons v vs ih =>
    intro acc hacc
    have hcons : totalPowerNat (v :: vs) = v.stake.toNat + totalPowerNat vs := by
      simp [totalPowerNat]
    rw [hcons] at hacc
    have hadd : (acc + v.stake).toNat = acc.toNat + v.stake.toNat := by
      rw [UInt64.toNat_add]; omega
    rw [List.foldl_cons, ih (acc + v.stake) (by rw [hadd]; omega), hadd, hcons]
    omega

/-- the `uint64` running sum equals the true sum of stakes as long as the true sum fits -/
theorem totalPower_exact (ms : List Val) (h : totalPowerNat ms < 2 ^ 64) :
    (totalPower ms).toNat = totalPowerNat ms := by
  have := foldl_totalPower ms 0 (by simpa using h)
  simpa [totalPower] using this

/-- **threshold**: the generated `uint64` expression is `⌊2T/3⌋ + 1` whenever `2T` fits in 64 bits -/
theorem threshold_exact (T : UInt64) (h : 2 * T.toNat < 2 ^ 64) :
    (Gen.Committee.minPowerFor23Maj T).toNat = 2 * T.toNat / 3 + 1 := by
  simp only [Gen.Committee.minPowerFor23Maj]
  have h2 : (2 * T).toNat = 2 * T.toNat := by
    rw [UInt64.toNat_mul]; simp; omega
  have h3 : ((2 * T) / 3).toNat = 2 * T.toNat / 3 := by
    rw [UInt64.toNat_div, h2]; rfl
  rw [UInt64.toNat_add, h3]
  simp; omega

/-- and it is *not* when `2T ≥ 2^64` (F6): total power 2^63 yields threshold 1 -/
theorem threshold_wraps : Gen.Committee.minPowerFor23Maj 9223372036854775808 = 1 := by decide +kernel

/-- boundary: with signed power `maj - 1` a certificate is partial, with `maj` it is not
(`partialDecision` is `totalSignedPower < MinimumMaj23`) -/
theorem partial_decision_fact :
    Gen.Committee.partialDecision = "totalSignedPower < vs.MinimumMaj23 => return true, nil" := rfl

theorem filter_literal_fact : Gen.Committee.filterLiteral =
    "lib.ValidatorFilters{Unstaking: lib.FilterOption_Exclude, Paused: lib.FilterOption_Exclude, Delegate: lib.FilterOption(delegateFilter), Committee: chainId}" := rfl

/-! ## the model's filter and cap are the code's filter and cap -/

/-- eligibility as the code computes it: `PassesFilter` on the filter literal of `getValidatorSet` -/
def srcElig (chain : UInt64) (delegate : Bool) (v : Val) : Bool :=
  Gen.Committee.passesFilter (toGo v)
    (Gen.Committee.committeeFilter (Gen.Committee.selectDelegateFilter delegate) chain)

theorem elig_eq_generated (chain : UInt64) (delegate : Bool) (v : Val) :
    elig chain delegate v = srcElig chain delegate v := by
  cases delegate <;>
  simp only [elig, srcElig, Gen.Committee.passesFilter, Gen.Committee.committeeFilter,
    Gen.Committee.selectDelegateFilter, Gen.Committee.FilterOption_MustBe,
    Gen.Committee.FilterOption_Exclude, toGo] <;>
  by_cases hd : v.delegate = true <;>
    by_cases hu : v.unstakingHeight = 0 <;> by_cases hp : v.maxPausedHeight = 0 <;>
    by_cases hc : chain = 0 <;> by_cases hm : v.committees.contains chain = true <;>
    simp [hd, hu, hp, hc]

theorem u64_toNat_min (a b : UInt64) : (min a b).toNat = min a.toNat b.toNat := Eq.symm min_apply

/-- the cap as the code computes it (the population size is a Go `int`, so it fits a `uint64`) -/
theorem limit_eq_generated (n : Nat) (hn : n < 2 ^ 64) (cap : UInt64) :
    limit n cap = (Gen.Committee.limitOf (UInt64.ofNat n) cap).toNat := by
  have hof : (UInt64.ofNat n).toNat = n := by
    simp [UInt64.toNat_ofNat']; omega
  simp only [limit, Gen.Committee.limitOf]
  by_cases hc : cap > 0
  · simp only [hc, ↓reduceIte, decide_true]
    rw [u64_toNat_min, hof]
  · simp only [hc, ↓reduceIte, decide_false]
    exact hof.symm

/-- the committee cap / delegate cap chosen by `delegate` -/
theorem select_cap_fact (capV capD : UInt64) :
    Gen.Committee.selectCap false capV capD = capV ∧ Gen.Committee.selectCap true capV capD = capD := by
  simp [Gen.Committee.selectCap]

/-- **members_eq_source**: the hand model is the composition of the generated pieces of
`getValidatorSet`: filter by the code's `PassesFilter` on the code's literal, sort by the code's
comparator, take the code's `limit`. -/
theorem members_eq_source (vals : List Val) (chain cap : UInt64) (delegate : Bool) (hn : vals.length < 2 ^ 64) :
    members vals chain cap delegate =
      let f := vals.filter (srcElig chain delegate)
      let s := f.mergeSort (fun a b => decide (Gen.Committee.sortCmp (toGo a) (toGo b) ≤ 0))
      s.take (Gen.Committee.limitOf (UInt64.ofNat s.length) cap).toNat := by
  have h1 : (elig chain delegate) = (srcElig chain delegate) := funext (elig_eq_generated chain delegate)
  have h2 : before = (fun a b => decide (Gen.Committee.sortCmp (toGo a) (toGo b) ≤ 0)) :=
    funext fun a => funext fun b => before_eq_generated a b
  have hlen : ((vals.filter (srcElig chain delegate)).mergeSort
      (fun a b => decide (Gen.Committee.sortCmp (toGo a) (toGo b) ≤ 0))).length < 2 ^ 64 := by
    rw [List.length_mergeSort]; exact Nat.lt_of_le_of_lt (List.length_filter_le _ _) hn
  simp only [members, h1, h2]
  rw [limit_eq_generated _ hlen]

/-- the slice the filter produces is fresh: `getValidatorSet` never filters or sorts the cached
validator list in place (that list is shared by every derivation of the block and, for historical
state machines, by every lookup of that height) -/
theorem filtered_is_fresh : Gen.Committee.filteredSrc =
    "filtered := slices.Collect(func(...){for _, v := range validators { if !v.PassesFilter(<FILTER>) { continue }; if !yield(v) { return } }})" := rfl

/-- members are built from the first `limit` sorted candidates; voting power is the stake and the
consensus key is the validator's public key -/
theorem member_construction_fact : Gen.Committee.memberRange = "filtered[:limit]" ∧
    ("PublicKey", "v.PublicKey") ∈ Gen.Committee.memberFields ∧
    ("VotingPower", "v.StakedAmount") ∈ Gen.Committee.memberFields := by decide


/-! ## the historical lookup -/

/-- `LoadCommittee(chain, h)` derives the committee with the same `GetCommitteeMembers` on a state machine
opened by `TimeMachine(h)` — never from the live state machine -/
theorem load_committee_shape : Gen.Committee.loadCommitteeSrc = [
  "historicalFSM, err := s.TimeMachine(height)",
  "if err != nil {",
  "  return lib.ValidatorSet{}, err",
  "}",
  "defer historicalFSM.Discard()",
  "vs, err := historicalFSM.GetCommitteeMembers(chainId)",
  "return vs, err"
] := rfl

/-- `TimeMachine(h)`: `h = 0` or beyond the current height means the current height; otherwise a
read-only store at exactly `h` (history immutability of that store is C10); the per-height validator
cache is only consulted for strictly past heights -/
theorem time_machine_shape : Gen.Committee.timeMachineSrc = [
  "if height == 0 || height > s.height {",
  "  height = s.height",
  "}",
  "if height == 0 {",
  "  return s, nil",
  "}",
  "store, ok := s.store.(lib.StoreI)",
  "if !ok {",
  "  return nil, ErrWrongStoreType()",
  "}",
  "heightStore, err := store.NewReadOnly(height)",
  "if err != nil {",
  "  return nil, err",
  "}",
  "historicalFSM, err := newStateMachine(s.Config, heightStore, s.Plugin, s.Metrics, s.log, s.cache.sharedCache)",
  "if err != nil {",
  "  return nil, err",
  "}",
  "if height < s.height && s.cache.sharedCache != nil {",
  "  s.cache.sharedCache.RLock()",
  "  if validators, ok := s.cache.sharedCache.sets[height]; ok {",
  "    historicalFSM.cache.liveValidators = validators",
  "  } else {",
  "    historicalFSM.cache.sharedValidatorSet = height",
  "  }",
  "  s.cache.sharedCache.RUnlock()",
  "}",
  "return historicalFSM, nil"
] := rfl

/-! ## non-vacuity -/
def exA : Val := { address := [1], publicKey := [11], stake := 5, committees := [1], maxPausedHeight := 0, unstakingHeight := 0, delegate := false }
def exB : Val := { address := [2], publicKey := [12], stake := 5, committees := [1], maxPausedHeight := 0, unstakingHeight := 0, delegate := false }
def exC : Val := { address := [3], publicKey := [13], stake := 9, committees := [1, 2], maxPausedHeight := 0, unstakingHeight := 0, delegate := false }
def exP : Val := { address := [4], publicKey := [14], stake := 99, committees := [1], maxPausedHeight := 7, unstakingHeight := 0, delegate := false }
/-- ties at the cap boundary: equal stakes 5/5, cap 2 keeps the higher address; paused 99 excluded -/
theorem ex_members : members [exC, exB, exA, exP] 1 2 false = [exC, exB] := by
  have hf : [exC, exB, exA, exP].filter (elig 1 false) = [exC, exB, exA] := by decide
  have hs : [exC, exB, exA].mergeSort before = [exC, exB, exA] :=
    List.mergeSort_of_pairwise (le := before) (by decide)
  simp only [members, hf, hs, limit]
  decide
/-- the same population enumerated in another order: same committee (instance of `committee_perm`) -/
example : members [exP, exA, exB, exC] 1 2 false = [exC, exB] := by
  rw [← ex_members]
  exact committee_perm _ _ 1 2 false (by decide) (by decide)
example : (members [exA, exB, exC, exP] 1 0 false).length = 3 := by
  rw [members_length]; decide

end Canopy.C13
