import Canopy.Proof.BftSafety
import Canopy.Proof.BftExec
import Canopy.Model.BftGen
/-!
# C01 — BFT agreement

*Statement.* At one height, every two commit certificates (PRECOMMIT_VOTE quorums) that can be assembled from
the votes ever signed carry the same `(blockHash, resultsHash)` — hence all correct validators that commit,
commit the same block and certificate results — for every committee, every stake distribution, every
Byzantine subset with `3 * power(B) < T`, every history length, every delivery order / loss / duplication /
delay (a certificate is *any* subset of the signed votes that reaches `2T/3+1`), every timeout interleaving
and every NEW_COMMITTEE reset (they only move a replica to a higher view), and any behaviour of the
Byzantine validators (arbitrary entries under their names, they aggregate and schedule).

*What the theorem is about.* The history model `Canopy.Bft` (Model/Bft.lean), instantiated by `genCfg` with the
decision functions **regenerated from `/repo` on every run** (`Canopy.Gen.Bft`):

| model parameter | generated from | obligation proved here |
|---|---|---|
| `unlock`    | the condition of `SafeNode`'s LIVENESS branch, `View.Less` | `safeNodeUnlock_monotone` ⇒ `genUnlock_lt` |
| `adoptOk`   | `handleHighQCVDFAndEvidence`'s HighQC replacement test      | `adoptHigher_monotone` ⇒ `genAdoptOk_lt` |
| `certBound` | `CheckProposerMessage` header checks + PRECOMMIT/COMMIT branch (`justifiesLeaderPhase`) | `leaderMsg_binds_view` ⇒ `genCertBound_binds` |
| `maj`       | `NewValidatorSet`'s `MinimumMaj23` expression (uint64)        | `minimumMaj23_eq` |

A weakening of any of these in the source changes the generated term and breaks exactly the corresponding
obligation: reverting ea0b5df (round-only comparison) breaks `safeNodeUnlock_monotone`; reverting 9c7b0f6
(certificate not bound to the view) breaks `leaderMsg_binds_view`. What each of the two old behaviours
allowed is kept as a `decide`-checked counterexample: `agreement_fails_roundOnly`, `agreement_fails_staleLock`.

*Modelled, not verified* (also listed in `checks/C01.py`):
* signatures are symbolic: only the holder of a key adds a vote under its name; an aggregate certificate
  for a payload exists iff the signed votes for that payload reach the threshold (BLS/BDN not verified);
* hashes are injective (`blockHash`/`resultsHash` are compared as abstract ids);
* an honest replica casts its votes in non-decreasing views, and at most one PROPOSE_VOTE and one
  PRECOMMIT_VOTE per view (guards `viewsUpTo`, one-vote). In the code a round change raises the round and a
  NEW_COMMITTEE reset restarts the round at 0, so this holds iff **a reset strictly raises the root
  height** (F11: `UpdateRootChainInfo` does not enforce it; a reset to the same root height makes honest
  replicas sign twice in one view — the simulator counts that schedule class separately);
* block validity (`ValidateProposal`) is an oracle; the controller's finality gate (C02) is mirrored by
  the simulator with the repository's own certificate checks;
* election, pacemaker and timers are not modelled (they only decide *when* views advance and who
  aggregates; the leader is adversarial in the model);
* the committee is the same at every root height of the height under consideration ("committee-preserving").

The correspondence run (`harness/c01`, `Driver/C01.lean`) checks on real `bft.BFT` replicas that every vote an
honest replica signs satisfies the model's guards and that the generated decisions agree with what the code did.
-/
namespace Canopy.C01
open Canopy.Bft Canopy.Gen.Bft

/-! ## T — obligations on the generated decision functions -/

/-- `View.Less` on non-nil views is the lexicographic order on (Height, RootHeight, Round, Phase) -/
theorem viewLess_iff (x v : Gen.Bft.View) :
    View.Less (some x) (some v) = true ↔
      x.Height < v.Height ∨ (x.Height = v.Height ∧ (x.RootHeight < v.RootHeight ∨ (x.RootHeight = v.RootHeight ∧
        (x.Round < v.Round ∨ (x.Round = v.Round ∧ x.Phase < v.Phase))))) := by
  simp only [View.Less]
  repeat' split
  all_goals simp_all
  all_goals omega

theorem viewLess_nil_right (x : Option Gen.Bft.View) : View.Less x none = false := by
  cases x <;> rfl
theorem viewLess_nil_left (v : Gen.Bft.View) : View.Less none (some v) = true := rfl

theorem viewLess_irrefl (x : Gen.Bft.View) : View.Less (some x) (some x) = false := by
  cases h : View.Less (some x) (some x)
  · rfl
  · have := (viewLess_iff x x).mp h; omega

theorem viewLess_trans (x y z : Gen.Bft.View) (h1 : View.Less (some x) (some y) = true)
    (h2 : View.Less (some y) (some z) = true) : View.Less (some x) (some z) = true := by
  rw [viewLess_iff] at *; omega

/-- `View.Equals` on non-nil views is equality of all six fields; nil is equal to nothing -/
theorem viewEquals_iff (x v : Gen.Bft.View) : View.Equals (some x) (some v) = true ↔ x = v := by
  cases x; cases v
  simp only [View.Equals]
  repeat' split
  all_goals simp_all
  all_goals omega

theorem viewEquals_nil (x : Option Gen.Bft.View) : View.Equals x none = false ∧ View.Equals none x = false := by
  cases x <;> exact ⟨rfl, rfl⟩

/-- exactly one of `Less x v`, `Less v x`, "same (Height, RootHeight, Round, Phase)" holds -/
theorem viewLess_total (x v : Gen.Bft.View) :
    View.Less (some x) (some v) = true ∨ View.Less (some v) (some x) = true ∨
      (x.Height = v.Height ∧ x.RootHeight = v.RootHeight ∧ x.Round = v.Round ∧ x.Phase = v.Phase) := by
  rw [viewLess_iff, viewLess_iff]; omega

/-- **The unlock obligation.** Between two certificates of the same height and phase (what `CheckHighQC` and
    `CheckProposerMessage` guarantee, see `checkHighQCPost_ok`, `leaderMsg_binds_view`), `SafeNode`'s LIVENESS
    branch fires only if the justification is from a strictly later view — (root height, round) lexicographic. -/
theorem safeNodeUnlock_monotone (lock msgHigh : Gen.Bft.View)
    (hh : lock.Height = msgHigh.Height) (hp : lock.Phase = msgHigh.Phase)
    (h : safeNodeUnlock lock msgHigh = true) :
    lock.RootHeight < msgHigh.RootHeight ∨ (lock.RootHeight = msgHigh.RootHeight ∧ lock.Round < msgHigh.Round) := by
  unfold safeNodeUnlock at h
  have := (viewLess_iff _ _).mp h
  omega

/-- `SafeNode` accepts exactly when the proposal is justified by a certificate for the proposed block and
    results, and that certificate is for the locked block and results (SAFETY) or passes the unlock comparison (LIVENESS) -/
theorem safeNode_accepts_iff (s : SafeNodeIn) :
    safeNode s = none ↔
      s.hasMsg = true ∧ s.hasQc = true ∧ s.hasHighQc = true ∧
      s.proposalBlockHash = s.highBlockHash ∧ s.proposalResultsHash = s.highResultsHash ∧
      ((s.lockBlockHash = s.highBlockHash ∧ s.lockResultsHash = s.highResultsHash) ∨
        safeNodeUnlock s.lock s.msgHigh = true) := by
  unfold safeNode safeNodeUnlock
  cases s.hasMsg <;> cases s.hasQc <;> cases s.hasHighQc <;> simp
  by_cases h1 : s.proposalBlockHash = s.highBlockHash <;> by_cases h2 : s.proposalResultsHash = s.highResultsHash <;> simp [h1, h2]
  by_cases h3 : s.lockBlockHash = s.highBlockHash <;> by_cases h4 : s.lockResultsHash = s.highResultsHash <;> simp [h3, h4]
  all_goals (cases View.Less (some s.lock) (some s.msgHigh) <;> simp)

/-- the error cases of `SafeNode`, in the order the code checks them -/
theorem safeNode_errors (s : SafeNodeIn) :
    (safeNode s = some "ErrNoSafeNodeJustification" ↔ ¬ (s.hasMsg = true ∧ s.hasQc = true ∧ s.hasHighQc = true)) ∧
    (safeNode s = some "ErrMismatchedProposals" ↔ (s.hasMsg = true ∧ s.hasQc = true ∧ s.hasHighQc = true) ∧
        ¬ (s.proposalBlockHash = s.highBlockHash ∧ s.proposalResultsHash = s.highResultsHash)) := by
  unfold safeNode
  cases s.hasMsg <;> cases s.hasQc <;> cases s.hasHighQc <;> simp
  by_cases h1 : s.proposalBlockHash = s.highBlockHash <;> by_cases h2 : s.proposalResultsHash = s.highResultsHash <;> simp [h1, h2]
  all_goals (by_cases h3 : s.lockBlockHash = s.highBlockHash <;> by_cases h4 : s.lockResultsHash = s.highResultsHash <;> simp [h3, h4])
  all_goals (cases View.Less (some s.lock) (some s.msgHigh) <;> simp)

/-- `SafeNode` is consulted exactly when the replica is locked -/
theorem safeNode_called_iff_locked :
    src_StartProposeVotePhase_safeNodeCall =
      "if b.HighQC != nil { if err := b.SafeNode(msg); err != nil { b.RoundInterrupt(); return } }" := by decide

/-- a lock is only replaced by a certificate that `View.Less` puts strictly above it -/
theorem adoptHigher_monotone (lock new voteHdr : Gen.Bft.View)
    (hh : lock.Height = new.Height) (hp : lock.Phase = new.Phase) (h : adoptHigher true lock new voteHdr = true) :
    lock.RootHeight < new.RootHeight ∨ (lock.RootHeight = new.RootHeight ∧ lock.Round < new.Round) := by
  unfold adoptHigher at h
  simp at h
  have := (viewLess_iff _ _).mp h
  omega

theorem adopt_assigns_lock :
    src_adoptHigher_body = "b.HighQC = vote.HighQc; b.RCBuildHeight = vote.RcBuildHeight" := by
  decide

/-- what `CheckHighQC` guarantees about an accepted justification: +2/3, same height, phase PROPOSE_VOTE -/
theorem checkHighQCPost_ok (isPartial : Bool) (x view : Gen.Bft.View) (l : Nat)
    (h : checkHighQCPost isPartial x view l = none) :
    isPartial = false ∧ l ≤ x.RootHeight ∧ x.Height = view.Height ∧ x.Phase = phase_PROPOSE_VOTE := by
  unfold checkHighQCPost at h
  repeat' split at h
  all_goals simp_all

/-- **The lock-view obligation.** A non-partial PRECOMMIT/COMMIT leader message that passes `CheckProposerMessage`
    carries the certificate of the replica's root height, of the message's own height and round, and of the
    vote phase right before the message's phase, for the block and results the replica holds. -/
theorem leaderMsg_binds_view (qc hdr : Gen.Bft.View) (root height chu : Nat) (sender proposer : Nat) (saved : Bool)
    (a b c d : Nat)
    (h1 : leaderMsgHeaderRejected qc hdr root height chu = false)
    (h2 : leaderMsgChecks qc hdr sender proposer saved a b c d = none) :
    qc.RootHeight = root ∧ hdr.Height = height ∧ qc.Height = hdr.Height ∧ qc.Round = hdr.Round ∧
      qc.Phase + 1 = hdr.Phase ∧ sender = proposer ∧ saved = true ∧ a = c ∧ b = d := by
  unfold leaderMsgHeaderRejected leaderMsgWrongRoot leaderMsgWrongHeight leaderMsgQcTooOld at h1
  unfold leaderMsgChecks at h2
  repeat' split at h2
  all_goals simp_all

/-- the view-binding check comes before the hash comparisons in the PRECOMMIT/COMMIT branch -/
theorem bind_precedes_hashes : 0 ≤ leaderBranch_bindIndex ∧ leaderBranch_bindIndex < leaderBranch_hashIndex := by decide

/-- a PRECOMMIT/COMMIT message is accepted only from the leader the replica follows in the round (e2ecd83): the check
    is there, before the hash comparisons, and `validateMessageParams.proposerKey` is the replica's `ProposerKey` -/
theorem sender_check_present :
    0 ≤ leaderBranch_senderIndex ∧ leaderBranch_senderIndex < leaderBranch_hashIndex ∧
      src_validateMessageParams_proposerKey = true := by decide

/-- the certificate of the accepted PRECOMMIT message, fetched by (round, phase), becomes the lock -/
theorem lock_is_message_certificate :
    src_StartPrecommitVotePhase_lock =
      ["msg := b.GetProposal()", "if interrupt := b.CheckProposerAndProposal(msg); interrupt { b.RoundInterrupt(); return }",
       "b.HighQC = msg.Qc", "b.HighQC.Block = b.Block", "b.HighQC.Results = b.Results"] ∧
    src_GetProposal = "return b.getProposal(b.Round, b.Phase)" ∧
    src_getProposal = "proposal, found := b.Proposals[round][phaseToString(phase - 1)]; if !found { return nil }; return proposal[0]" := by
  decide

/-- `MinimumMaj23` as computed in uint64 equals `2T/3+1` whenever `2*T` does not wrap (F6: hypothesis, not enforced by the code) -/
theorem minimumMaj23_eq (T : Nat) (h : 2 * T < 2 ^ 64) :
    (minimumMaj23 (UInt64.ofNat T)).toNat = 2 * T / 3 + 1 := by
  unfold minimumMaj23
  have hT : T < 2 ^ 64 := by omega
  have h1 : T % 2 ^ 64 = T := Nat.mod_eq_of_lt hT
  have h2 : 2 * T % 2 ^ 64 = 2 * T := Nat.mod_eq_of_lt h
  have h3 : (2 * T / 3 + 1) % 2 ^ 64 = 2 * T / 3 + 1 := Nat.mod_eq_of_lt (by omega)
  simp only [UInt64.toNat_add, UInt64.toNat_div, UInt64.toNat_mul, UInt64.toNat_ofNat']
  show ((2 : UInt64).toNat * (T % 2 ^ 64) % 2 ^ 64 / (3 : UInt64).toNat + (1 : UInt64).toNat) % 2 ^ 64 = _
  rw [h1]
  have : (2 : UInt64).toNat = 2 := rfl
  have : (3 : UInt64).toNat = 3 := rfl
  have : (1 : UInt64).toNat = 1 := rfl
  simp only [*]

/-- the threshold is necessary as stated: it does wrap for `T ≥ 2^63` (witness) -/
theorem minimumMaj23_wraps : (minimumMaj23 (UInt64.ofNat (2 ^ 63))).toNat = 1 := by decide

/-- "+2/3 reached" and "partial certificate" are complementary tests against the same threshold -/
theorem hasMaj23_iff (voted m : UInt64) : hasMaj23 voted m = true ↔ m.toNat ≤ voted.toNat := by
  unfold hasMaj23; simp [UInt64.le_iff_toNat_le]
/-- the replica-side test (`AggregateSignature.Check`) is the complement of the leader-side one (`GetMajorityVote`), against the
    same `MinimumMaj23` — whatever the total power -/
theorem isPartialQC_iff (voted m t : UInt64) : isPartialQC voted m t = !(hasMaj23 voted m) := by
  unfold isPartialQC hasMaj23
  by_cases h : voted < m
  · simp [h, UInt64.not_le]
  · simp [h, UInt64.not_lt.mp h]

/-! ## the model parameters instantiated with the generated functions -/

theorem genUnlock_lt (w y : Bft.View) (h : genUnlock w y = true) : w < y :=
  safeNodeUnlock_monotone (hdrOf w phase_PROPOSE_VOTE) (hdrOf y phase_PROPOSE_VOTE) rfl rfl h

theorem genAdoptOk_lt (w y : Bft.View) (h : genAdoptOk w y = true) : w < y :=
  adoptHigher_monotone (hdrOf w phase_PROPOSE_VOTE) (hdrOf y phase_PROPOSE_VOTE) _ rfl rfl h

theorem genCertBound_binds (q : Bft.View) (qp : Bool) (v : Bft.View) (h : genCertBound q qp v = true) :
    q = v ∧ qp = true := by
  unfold genCertBound at h
  simp only [Bool.and_eq_true, Bool.not_eq_true', Option.isNone_iff_eq_none] at h
  obtain ⟨hr, _, _, hround, hphase, _⟩ := leaderMsg_binds_view _ _ _ _ _ _ _ _ _ _ _ _ h.1 h.2
  cases q; cases v
  simp only [hdrOf] at hr hround hphase
  refine ⟨by simp_all, ?_⟩
  cases qp
  · simp [phase_PRECOMMIT_VOTE, phase_PRECOMMIT] at hphase
  · rfl

/-! ## R — the per-replica handlers of the correspondence layer (M-bft-exec, `Model/BftExec.lean`) refine the guards

What the driver compares step by step with the real replicas is `proposeDecision`, `leaderVerdict`, `precommitVote`
(built from the generated functions). These theorems say that whenever those let a replica vote or lock, the
corresponding guard of the history model — the one `agreement` is proved from — holds. The glue that is input on the
op lines (which message `GetProposal` returns, who aggregated what) is adversarial in the model. -/

/-- **SafeNode step.** If the per-replica model lets a replica vote for `b`, the guard `safeCond` of the history model
    holds — provided its lock is the history's lock, locks are PROPOSE_VOTE certificates (`exec_precommit_msg_binds`,
    `checkHighQCPost_ok`) and the justification was accepted at delivery (PROPOSE_VOTE phase, +2/3: `checkHighQCPost_ok`). -/
theorem exec_propose_refines (c : Cfg) (hc : c.unlock = genUnlock) (tr : List Ev) (r : Nat)
    (lock : Option (Bft.View × Nat × Nat)) (b : Nat) (hq : Option CertD)
    (hlock : lock.map (fun x => (x.1, x.2.2)) = Cfg.lock tr r)
    (hlph : ∀ lv lph lb, lock = some (lv, lph, lb) → lph = phase_PROPOSE_VOTE)
    (hhq : ∀ cert, hq = some cert → cert.phase = phase_PROPOSE_VOTE ∧ c.proposeQC tr cert.view cert.blk)
    (h : proposeDecision lock b hq = none) :
    c.safeCond tr b (hq.map (·.view)) (Cfg.lock tr r) := by
  rw [← hlock]
  match lock, hlph, h with
  | none, _, _ => simp [Cfg.safeCond]
  | some (lv, lph, lb), hlph, h =>
    have hph := hlph lv lph lb rfl
    subst hph
    simp only [proposeDecision] at h
    obtain ⟨_, _, hhas, hpb, hpr, hbr⟩ := (safeNode_accepts_iff _).mp h
    simp only [safeNodeInput] at hhas hpb hpr hbr
    cases hq with
    | none => simp at hhas
    | some cert =>
      obtain ⟨hcph, hcq⟩ := hhq cert rfl
      simp only [Option.map_some, Option.getD_some] at hpb hpr hbr
      have hb : b = cert.blk := blk_ext _ _ hpb hpr
      simp only [Option.map_some, Cfg.safeCond]
      rcases hbr with ⟨h1, h2⟩ | hun
      · left; rw [hb]; exact blk_ext _ _ h1 h2
      · right
        refine ⟨?_, hb ▸ hcq⟩
        rw [hc]
        unfold genUnlock
        unfold certHdr at hun
        rw [hcph] at hun
        exact hun

/-- **PRECOMMIT message.** A PRECOMMIT leader message that the per-replica model accepts carries a full PROPOSE_VOTE
    certificate of the replica's root height and of the message's round, for the block the replica holds. -/
theorem exec_precommit_msg_binds (w : World) (s : Rep) (m : MsgD) (hph : m.hdrPhase = phase_PRECOMMIT)
    (h : w.leaderVerdict s m = .ok) :
    m.qc.view = ⟨s.root, m.hdr.round⟩ ∧ m.qc.phase = phase_PROPOSE_VOTE ∧ s.blk = some m.qc.blk ∧
      w.isPartial m.qc.signers = false ∧ s.proposer = some m.sender := by
  unfold World.leaderVerdict at h
  simp only at h
  split at h
  · cases h
  split at h
  · cases h
  · split at h
    · split at h <;> cases h
    · split at h
      · cases h
      · split at h
        · cases h
        · split at h
          · cases h
          · split at h
            · rename_i hp; rw [hph] at hp; simp [phase_PRECOMMIT, phase_PROPOSE] at hp
            · split at h
              · rename_i hroot hpart hheight hold _ _ hchk
                have hrej : leaderMsgHeaderRejected (certHdr m.qc) (hdrOf m.hdr m.hdrPhase) s.root modelHeight 0 = false := by
                  unfold leaderMsgHeaderRejected; simp_all
                obtain ⟨hr, _, _, hround, hphase, hsnd, hsaved, hb1, hb2⟩ := leaderMsg_binds_view _ _ _ _ _ _ _ _ _ _ _ _ hrej hchk
                simp only [certHdr, hdrOf] at hr hround hphase
                refine ⟨?_, ?_, ?_, by simpa using hpart, ?_⟩
                rotate_left 3
                · cases hp : s.proposer with
                  | none => simp [keyId, hp] at hsnd
                  | some x => simp [keyId, hp] at hsnd; rw [hsnd]
                · cases hv : m.qc.view; simp_all
                · rw [hph] at hphase; simp [phase_PRECOMMIT] at hphase; simp [phase_PROPOSE_VOTE]; omega
                · cases hblk : s.blk with
                  | none => simp [hblk] at hsaved
                  | some x =>
                    simp only [hblk, Option.getD_some] at hb1 hb2
                    rw [blk_ext _ _ hb1 hb2]
              · cases h

/-- `StartPrecommitVotePhase` in the per-replica model: the certificate of the message becomes the lock -/
theorem exec_precommit_locks (s s' : Rep) (sender : Nat) (c : CertD)
    (h : precommitVote s (some (sender, c)) = (s', "vote")) :
    s'.lock = some (c.view, c.phase, c.blk) ∧ s.blk = some c.blk ∧ s.proposer = some sender := by
  unfold precommitVote checkProposerAndProposal at h
  simp only at h
  split at h
  · rename_i why hw
    simp at h
    have := h.2
    have hl := congrArg String.length this
    simp [String.length_append] at hl
    have : "interrupt:".length = 10 := by decide
    have : "vote".length = 4 := by decide
    omega
  · rename_i hw
    simp at h
    split at hw
    · cases hw
    · split at hw
      · cases hw
      · rename_i h1 h2
        simp at h1 h2
        exact ⟨by rw [← h], h2, h1⟩

/-- "not partial" in the per-replica model is the +2/3 quorum of the history model -/
theorem exec_notPartial_quorum (w : World) (signers : List Nat)
    (h2 : 2 * w.cfg.total < 2 ^ 64) (hp : w.power signers < 2 ^ 64)
    (h : w.isPartial signers = false) : w.cfg.maj ≤ w.power signers := by
  unfold World.isPartial at h
  rw [isPartialQC_iff] at h
  simp only [Bool.not_eq_false'] at h
  rw [hasMaj23_iff, minimumMaj23_eq _ h2] at h
  simp only [UInt64.toNat_ofNat'] at h
  rw [Nat.mod_eq_of_lt hp] at h
  exact h

/-! ## the property -/

/-- **C01, agreement.** Over the generated decision functions: for every committee, stake function, Byzantine set
    below one third, and every valid history (any length, any schedule of view advances including root-height
    bumps), two commit certificates carry the same block-and-results. -/
theorem agreement (committee : List Nat) (pw : Nat → Nat) (byz : Nat → Bool)
    (hb : 3 * (genCfg committee pw byz).powerOf byz < (genCfg committee pw byz).total)
    (tr : List Ev) (hv : (genCfg committee pw byz).Valid tr)
    (v1 v2 : Bft.View) (b1 b2 : Nat)
    (h1 : (genCfg committee pw byz).precommitQC tr v1 b1) (h2 : (genCfg committee pw byz).precommitQC tr v2 b2) :
    b1 = b2 :=
  Cfg.agreement_param _ hb genUnlock_lt genAdoptOk_lt genCertBound_binds tr hv v1 v2 b1 b2 h1 h2

/-- the same, read as the property text: a correct validator commits only on a full PRECOMMIT_VOTE certificate
    (`StartCommitProcessPhase` + the controller's gate; checked per commit by the correspondence run), so any two
    blocks committed at the height by correct validators coincide — block hash and results hash. -/
theorem committed_blocks_agree (committee : List Nat) (pw : Nat → Nat) (byz : Nat → Bool)
    (hb : 3 * (genCfg committee pw byz).powerOf byz < (genCfg committee pw byz).total)
    (tr : List Ev) (hv : (genCfg committee pw byz).Valid tr) (b1 b2 : Nat)
    (h1 : ∃ v, (genCfg committee pw byz).precommitQC tr v b1) (h2 : ∃ v, (genCfg committee pw byz).precommitQC tr v b2) :
    blkHashOf b1 = blkHashOf b2 ∧ resHashOf b1 = resHashOf b2 := by
  obtain ⟨v1, h1⟩ := h1
  obtain ⟨v2, h2⟩ := h2
  rw [agreement committee pw byz hb tr hv v1 v2 b1 b2 h1 h2]
  exact ⟨rfl, rfl⟩

/-- every honest PRECOMMIT_VOTE of a valid history locks on the PROPOSE_VOTE certificate of its own view -/
theorem locks_at_vote_view (committee : List Nat) (pw : Nat → Nat) (byz : Nat → Bool)
    (tr : List Ev) (hv : (genCfg committee pw byz).Valid tr) : (genCfg committee pw byz).Fresh tr :=
  Cfg.fresh_of_bound genCertBound_binds tr hv

/-! ## non-vacuity and witnesses (four equal-stake replicas, replica 0 Byzantine) -/

def pw1 : Nat → Nat := fun _ => 1
def byz0 : Nat → Bool := fun r => r == 0
def cfg4 : Cfg := genCfg [0, 1, 2, 3] pw1 byz0

def vA : Bft.View := ⟨10, 3⟩   -- before the root bump
def vB : Bft.View := ⟨11, 0⟩   -- after the bump, round restarted
def vC : Bft.View := ⟨11, 3⟩

theorem cfg4_byz_lt_third : 3 * cfg4.powerOf cfg4.byz < cfg4.total := by decide

/-- a plain run: propose quorum, precommit quorum, commit (newest first) -/
def happyTrace : List Ev := [
  .precommit 3 vB 7 vB true, .precommit 2 vB 7 vB true, .precommit 1 vB 7 vB true,
  .propose 3 vB 7 none, .propose 2 vB 7 none, .propose 1 vB 7 none, .propose 0 vB 7 none ]

/-- the hypotheses of `agreement` are satisfiable together with a commit -/
example : cfg4.Valid happyTrace ∧ cfg4.precommitQC happyTrace vB 7 :=
  ⟨cfg4.validP_sound _ (by decide), by decide⟩

/-- the LIVENESS branch is exercised by a valid history: replica 1 locks on block 1 at (10,3), the others
    certify block 2 at (11,0), and at (11,1) replica 1 unlocks with that certificate; block 2 commits. -/
def unlockTrace : List Ev := [
  .precommit 3 ⟨11, 1⟩ 2 ⟨11, 1⟩ true, .precommit 2 ⟨11, 1⟩ 2 ⟨11, 1⟩ true, .precommit 1 ⟨11, 1⟩ 2 ⟨11, 1⟩ true,
  .propose 3 ⟨11, 1⟩ 2 (some vB), .propose 2 ⟨11, 1⟩ 2 (some vB), .propose 1 ⟨11, 1⟩ 2 (some vB),
  .propose 3 vB 2 none, .propose 2 vB 2 none, .propose 0 vB 2 none,
  .precommit 1 vA 1 vA true,
  .propose 3 vA 1 none, .propose 2 vA 1 none, .propose 1 vA 1 none, .propose 0 vA 1 none ]

example : cfg4.Valid unlockTrace ∧ cfg4.precommitQC unlockTrace ⟨11, 1⟩ 2 ∧
    Cfg.lock (unlockTrace.drop 6) 1 = some (vA, 1) :=
  ⟨cfg4.validP_sound _ (by decide), by decide, by decide⟩

/-- the bound on the Byzantine power is needed: with two of four replicas Byzantine two blocks commit -/
def cfg4two : Cfg := genCfg [0, 1, 2, 3] pw1 (fun r => r == 0 || r == 1)
def splitTrace : List Ev := [
  .precommit 3 vB 2 vB true, .precommit 1 vB 2 vB true, .precommit 0 vB 2 vB true,
  .propose 3 vB 2 none, .propose 1 vB 2 none, .propose 0 vB 2 none,
  .precommit 2 vB 1 vB true, .precommit 1 vB 1 vB true, .precommit 0 vB 1 vB true,
  .propose 2 vB 1 none, .propose 1 vB 1 none, .propose 0 vB 1 none ]
theorem agreement_needs_third :
    cfg4two.Valid splitTrace ∧ cfg4two.precommitQC splitTrace vB 1 ∧ cfg4two.precommitQC splitTrace vB 2 ∧
      ¬ 3 * cfg4two.powerOf cfg4two.byz < cfg4two.total :=
  ⟨cfg4two.validP_sound _ (by decide), by decide, by decide, by decide⟩

/-! ### F1 — what the round-only comparison allowed (SafeNode before ea0b5df) -/

/-- `msg.HighQc.Header.Round > b.HighQC.Header.Round` -/
def roundUnlock (w y : Bft.View) : Bool := decide (y.round > w.round)
def cfg4roundOnly : Cfg := { cfg4 with unlock := roundUnlock }

/-- newest first. Block 1 = B', block 2 = B. -/
def rootBumpTrace : List Ev := [
  -- stage 3: B' certified and committed at (11,3); replica 3 unlocks from (11,0) using the (10,3) certificate
  .precommit 3 vC 1 vC true, .precommit 1 vC 1 vC true, .precommit 0 vC 1 vC true,
  .propose 3 vC 1 (some vA), .propose 1 vC 1 (some vA), .propose 0 vC 1 (some vA),
  -- stage 2: B certified and committed at (11,0) by 0,2,3 (replica 1 is locked on B' and abstains)
  .precommit 3 vB 2 vB true, .precommit 2 vB 2 vB true, .precommit 0 vB 2 vB true,
  .propose 3 vB 2 none, .propose 2 vB 2 none, .propose 0 vB 2 none,
  -- stage 1: B' gets a PROPOSE_VOTE quorum at (10,3); only replica 1 sees it and locks
  .precommit 1 vA 1 vA true,
  .propose 3 vA 1 none, .propose 2 vA 1 none, .propose 1 vA 1 none, .propose 0 vA 1 none ]

/-- With the round-only comparison the model admits a valid history with two different commits
    (the history the real replicas produced before ea0b5df). -/
theorem agreement_fails_roundOnly :
    cfg4roundOnly.Valid rootBumpTrace ∧ cfg4roundOnly.precommitQC rootBumpTrace vB 2 ∧
      cfg4roundOnly.precommitQC rootBumpTrace vC 1 :=
  ⟨cfg4roundOnly.validP_sound _ (by decide), by decide, by decide⟩

/-- the round-only comparison violates the unlock obligation at the witness views -/
theorem roundUnlock_not_monotone : roundUnlock vB vA = true ∧ ¬ vB < vA := by decide

/-- with the comparison the code has now, the same history is not valid: replica 3's vote at (11,3) is refused -/
theorem rootBumpTrace_refused : ¬ cfg4.validP rootBumpTrace := by decide

/-! ### F12 — what an unbound PRECOMMIT certificate allowed (CheckProposerMessage before 9c7b0f6) -/

/-- before 9c7b0f6 only the root height of the certificate was compared with the replica's -/
def rootOnlyBound (q : Bft.View) (_qp : Bool) (v : Bft.View) : Bool := decide (q.root = v.root)
def cfg4staleLock : Cfg := { cfg4 with certBound := rootOnlyBound }

def r0 : Bft.View := ⟨10, 0⟩
def r1 : Bft.View := ⟨10, 1⟩
def r2 : Bft.View := ⟨10, 2⟩
def r3 : Bft.View := ⟨10, 3⟩

/-- newest first; no reset involved. Block 1 certified at round 0, block 2 certified at round 1 (both PRECOMMITs
    withheld); round 2: block 1 again, the PRECOMMIT message carries the ROUND-0 certificate, all lock at (10,0)
    while precommit-voting at (10,2) — block 1 commits; round 3: block 2 justified by the round-1 certificate
    unlocks replicas 2 and 3 (10,0) < (10,1) — block 2 commits. -/
def staleLockTrace : List Ev := [
  .precommit 3 r3 2 r3 true, .precommit 2 r3 2 r3 true, .precommit 0 r3 2 r3 true,
  .propose 3 r3 2 (some r1), .propose 2 r3 2 (some r1), .propose 0 r3 2 (some r1),
  .precommit 3 r2 1 r0 true, .precommit 2 r2 1 r0 true, .precommit 1 r2 1 r0 true, .precommit 0 r2 1 r0 true,
  .propose 3 r2 1 (some r0), .propose 2 r2 1 (some r0), .propose 1 r2 1 (some r0), .propose 0 r2 1 (some r0),
  .propose 3 r1 2 none, .propose 2 r1 2 none, .propose 1 r1 2 none, .propose 0 r1 2 none,
  .propose 3 r0 1 none, .propose 2 r0 1 none, .propose 1 r0 1 none, .propose 0 r0 1 none ]

/-- With the certificate of a PRECOMMIT message not bound to the view, the model admits a valid history with two
    different commits (the history the real replicas produced before 9c7b0f6), although the unlock comparison is
    the repaired one. -/
theorem agreement_fails_staleLock :
    cfg4staleLock.Valid staleLockTrace ∧ cfg4staleLock.precommitQC staleLockTrace r2 1 ∧
      cfg4staleLock.precommitQC staleLockTrace r3 2 :=
  ⟨cfg4staleLock.validP_sound _ (by decide), by decide, by decide⟩

/-- the old check does not bind the certificate to the view -/
theorem rootOnlyBound_not_binding : rootOnlyBound r0 true r2 = true ∧ r0 ≠ r2 := by decide

/-- with the check the code has now, the same history is not valid: the stale PRECOMMIT message is rejected -/
theorem staleLockTrace_refused : ¬ cfg4.validP staleLockTrace := by decide

end Canopy.C01
