import Canopy.Proof.Atomic
import Canopy.Model.ExecFacts
import Canopy.Props.C03
/-!
# C07 — transaction and block atomicity

Statement (properties.jsonl): a transaction that fails at any step leaves state, events, indexes and
in-memory trackers exactly as if it had never been submitted, so the state after a block equals the
sequential application of exactly its successful transactions between the begin- and end-block
actions; a proposal or peer block rejected at any stage leaves committed and working state unchanged.

Model: `Canopy.Atomic` (`Model/Atomic.lean`): the mechanism of `fsm.ApplyTransactions` — store
pointer, nested store transactions, read-through caches, event tracker, slash tracker, the pre-check
pass, the sequential pass with its hand-written restoration on failure, the oversize remainder — for
ARBITRARY handlers (programs of cached reads, write-through writes, event/tracker updates and guards
that abort after partial writes), against a cache-free specification in which a failing transaction
simply does not happen.

* `mechanism_of_source` — the restorations the model's mechanism performs are exactly the statements
  extracted from the Go source (`Gen/Exec.lean`, regenerated on every run): failure branch =
  reset caches, reset events, restore tracker, restore store pointer; after the loop the oversize
  remainder's traces are dropped. Removing any of them from the source breaks this theorem.
* `coherent` — every cached value equals a store read, after `ApplyTransactions`, whatever failed.
* `mechanism_refines_spec` — store, events, tracker, included/failed/oversize lists of the mechanism
  are those of the specification: state after the transactions = sequential application of exactly
  the successful ones.
* `block_refines_spec` — the same for a whole block (begin-block, transactions, end-block: the
  end-block handler reads through the caches and sees the specification state).
* `failed_tx_no_effect` — one failing iteration (rejected by the pre-check, or failing at ANY point
  of its handler after ANY partial writes) maps the loop state to itself except for the list of
  failed transactions: same store, same reads through the caches, same events, same tracker.
* `reject_leaves_unchanged` — a rejected proposal (with the BFT's round interrupt) and a rejected
  peer block leave committed state, height, archive unchanged and the working copy equal to the
  committed state (model `Canopy.Exec`).
* `*_is_needed` — each restoration is necessary: without it a concrete two-transaction block (checked
  by `decide`) ends in a state the specification does not have.
* `resetCovers` — every cache field is cleared by `ResetCaches` (except the immutable shared history).
-/
namespace Canopy.C07
open Canopy.Atomic

set_option maxRecDepth 20000 in
theorem mechanism_of_source : cfgOfFacts = Cfg.all := by decide

set_option maxRecDepth 20000 in
open Canopy.Gen.Exec in
/-- the extracted statements, verbatim -/
theorem failure_branch_statements :
    failureBranch = ["r.AddFailed(lib.NewFailedTx(tx, e))", "s.ResetCaches()", "s.events.Reset()",
      "s.slashTracker = preTxSlashTracker", "s.SetStore(currentStore)", "continue"] ∧
    successBranch = ["if err = txn.Flush(); err != nil { return err }", "s.SetStore(currentStore)"] ∧
    afterLoop = ["if oversize { s.ResetCaches(); s.slashTracker = preOversizeSlashTracker }"] ∧
    oversizeEnter = ["if !allowOversize { return ErrMaxBlockSize() }", "oversize = true",
      "preOversizeSlashTracker = s.slashTracker.Clone()", "if _, e := s.TxnWrap(); e != nil { return e }"] ∧
    precheckDiscardsFact = true ∧
    applyTransactionSteps = ["s.events.Refer", "s.CheckTx", "s.Plugin.DeliverTx", "s.maybeFaucetTopUpForSendTx",
      "s.AccountDeductFees", "s.HandleMessage", "s.SetAccount", "s.events.Reset"] := by decide

set_option maxRecDepth 20000 in
open Canopy.Gen.Exec in
/-- every cache field that exists, and every cache field any FSM code mentions, is cleared by
`ResetCaches` — except `sharedCache`, the rolling cache of *historical* validator lists keyed by
committed height (immutable history shared between snapshots) -/
theorem resetCovers :
    (∀ f ∈ cacheFields, f ≠ "sharedCache" → f ∈ resetCachesAssigns) ∧
    (∀ f ∈ cacheFieldsUsed, f ≠ "sharedCache" → f ∈ resetCachesAssigns) ∧
    (∀ f ∈ cacheFieldsUsed, f ∈ cacheFields) := by decide

/-! ## the governance-proposal mode is part of the state a rejected proposal leaves unchanged -/

/-- governance-proposal mode of the two state machines -/
inductive VoteMode where
  | acceptAll | strict
  deriving DecidableEq, Repr

/-- where `ValidateProposal` returns: at the stateless check, at a later check, or with a result -/
inductive Exit where
  | stateless | later | accepted
  deriving DecidableEq, Repr

/-- the mode after `ValidateProposal`: it switches to `strict`; the deferred restore runs on every
return that comes after its registration. `deferDirectly`: the registration directly follows the
switch (else it sits below the stateless check). -/
def modeAfterValidate (deferDirectly : Bool) : Exit → VoteMode
  | .stateless => if deferDirectly then .acceptAll else .strict
  | _ => .acceptAll

/-- a committed block with a governance transaction the local approve list does not name is executed
in the mode the last `ValidateProposal` left -/
def commitAccepts : VoteMode → Bool
  | .acceptAll => true
  | .strict => false

open Canopy.Exec in
/-- the source tree registers the restore directly after the switch (generated fact; Go scenario
`governance-block-after-rejected-proposal`) -/
theorem proposal_mode_restore_registered_first : proposalModeRestoredFact = true := by decide

open Canopy.Exec in
/-- **rejected_proposal_restores_mode.** For the mechanism of the source tree a proposal rejected at
any stage leaves the governance-proposal mode at accept-all, so a later committed block with a
governance transaction is executed as +2/3 executed it. -/
theorem rejected_proposal_restores_mode (e : Exit) :
    modeAfterValidate proposalModeRestoredFact e = .acceptAll ∧
    commitAccepts (modeAfterValidate proposalModeRestoredFact e) = true := by
  rw [proposal_mode_restore_registered_first]
  cases e <;> exact ⟨rfl, rfl⟩

/-- with the registration below the stateless check the property fails -/
theorem late_defer_leaves_strict_mode :
    modeAfterValidate false .stateless = .strict ∧ commitAccepts (modeAfterValidate false .stateless) = false := by
  decide

/-! ## the mechanism is the specification -/

/-- **mechanism_refines_spec.** `ApplyTransactions` as the source has it, on a coherent state machine:
the store, the events, the tracker and the included / failed / oversize lists are those of the
specification; both reject the block in the same cases. -/
theorem mechanism_refines_spec (max : Nat) (allow : Bool) (F : Fsm) (hc : Coherent F) (he : F.events = [])
    (txs : List Tx) :
    match run cfgOfFacts max allow F txs, specRun max allow F.pure txs with
    | some L, some S => Coherent L.F ∧ L.F.pure = S.final ∧ L.included = S.included ∧
        L.failed = S.failed ∧ L.oversized = S.oversized ∧ L.blockEvents = S.blockEvents
    | none, none => True
    | _, _ => False := by
  rw [mechanism_of_source]
  exact run_refines max allow F hc he txs

/-- **coherent.** Every cached value equals a store read after `ApplyTransactions`, whatever failed -/
theorem coherent (max : Nat) (allow : Bool) (F : Fsm) (hc : Coherent F) (he : F.events = [])
    (txs : List Tx) (L : Loop) (h : run cfgOfFacts max allow F txs = some L) :
    Coherent L.F ∧ L.F.get = L.F.store := by
  have := mechanism_refines_spec max allow F hc he txs
  rw [h] at this
  cases hs : specRun max allow F.pure txs with
  | none => rw [hs] at this; exact this.elim
  | some S => rw [hs] at this; exact ⟨this.1, get_of_coherent this.1⟩

/-- **block_refines_spec.** A whole block on the mechanism = the block on the specification: the state
after a block is begin-block, then exactly the successful transactions in order, then end-block. -/
theorem block_refines_spec (max : Nat) (allow : Bool) (F : Fsm) (hc : Coherent F) (b : Handler)
    (txs : List Tx) (e : Handler) :
    match applyBlock cfgOfFacts max allow F b txs e, specBlock max allow F.pure b txs e with
    | some (F2, inc), some (P2, inc') => Coherent F2 ∧ F2.pure = P2 ∧ inc = inc'
    | none, none => True
    | _, _ => False := by
  rw [mechanism_of_source]
  exact block_refines max allow F hc b txs e

/-- **failed_tx_no_effect.** An iteration whose transaction fails — in the pre-check, in its own
`CheckTx`, or at any later point of its handler, after any partial writes — leaves store, reads
through the caches, events and tracker as they were, includes nothing and changes no counter. -/
theorem failed_tx_no_effect (max : Nat) (allow : Bool) (L L' : Loop) (t : Tx) (p : Bool)
    (hc : Coherent L.F) (he : L.F.events = [])
    (hf : p = false ∨ (runActs L.F t.fullActs).2 = false)
    (h : stepTx cfgOfFacts max allow L t p = some L') :
    L'.F.pure = L.F.pure ∧ L'.F.get = L.F.get ∧ Coherent L'.F ∧
    L'.included = L.included ∧ L'.blockEvents = L.blockEvents ∧ L'.size = L.size ∧
    L'.failed = L.failed ++ [t] := by
  rw [mechanism_of_source] at h
  unfold stepTx at h
  cases p with
  | false =>
    simp only [Bool.not_false, if_true, Option.some.injEq] at h
    subst h
    exact ⟨rfl, rfl, hc, rfl, rfl, rfl, rfl⟩
  | true =>
    have hf' : (runActs L.F t.fullActs).2 = false := by
      cases hf with
      | inl h0 => cases h0
      | inr h0 => exact h0
    simp only [Bool.not_true, Bool.false_eq_true, if_false] at h
    split at h
    · cases h
    · cases hr : runActs L.F t.fullActs with
      | mk F' ok =>
        rw [hr] at hf'
        simp only at hf'
        subst hf'
        by_cases hent : (decide (t.size + L.size > max) && !L.oversize) = true
        · simp only [hent, if_true, hr, Cfg.all, Option.some.injEq] at h
          subst h
          refine ⟨by simp [Fsm.pure, he], ?_, coherent_noCache _ _ _, rfl, rfl, rfl, rfl⟩
          rw [get_of_coherent hc, get_of_coherent (coherent_noCache _ _ _)]
        · simp only [hent, if_false, Bool.false_eq_true, hr, Cfg.all, if_true, Option.some.injEq] at h
          subst h
          refine ⟨by simp [Fsm.pure, he], ?_, coherent_noCache _ _ _, rfl, rfl, rfl, rfl⟩
          rw [get_of_coherent hc, get_of_coherent (coherent_noCache _ _ _)]

/-- a transfer of 10 from key 1 to key 2 (with a cached read of key 0 in its check) -/
def exXfer (id : Nat) : Tx :=
  ⟨id, fun _ => true, [0], [.put 1 (fun v => (v 1).map (· - 10)), .put 2 (fun v => some ((v 2).getD 0 + 10))], 1⟩
/-- a handler that writes two keys, emits an event, marks the tracker and THEN fails -/
def exBad : Tx :=
  ⟨9, fun _ => true, [], [.put 1 (fun _ => some 0), .put 3 (fun _ => some 77), .emit 5, .slash 6, .guard (fun _ => false)], 1⟩
def exF : Fsm := ⟨fun k => if k = 1 then some 100 else none, noCache, [], []⟩

/-- non-vacuity: the failing transaction between two successful transfers leaves no trace -/
example :
    (run Cfg.all 10 false exF [exXfer 1, exBad, exXfer 2]).map (fun L => (L.F.get 1, L.F.get 2, L.F.get 3))
      = some (some 80, some 20, none) ∧
    (run Cfg.all 10 false exF [exXfer 1, exBad, exXfer 2]).map (fun L => (L.F.tracker, L.blockEvents)) = some ([], []) ∧
    (run Cfg.all 10 false exF [exXfer 1, exBad, exXfer 2]).map (fun L => (L.included.map (·.id), L.failed.map (·.id)))
      = some ([1, 2], [9]) := by
  decide

/-! ## every restoration is needed -/

/-- a transaction that writes key 0 and then fails; a reader of key 0 after it -/
def wBad : Tx := ⟨1, fun _ => true, [], [.put 0 (fun _ => some 5), .emit 7, .slash 8, .guard (fun _ => false)], 1⟩
def wReader : Tx := ⟨2, fun _ => true, [], [.put 1 (fun v => v 0)], 1⟩
def wF : Fsm := ⟨fun _ => none, noCache, [], []⟩

/-- without `s.ResetCaches()` in the failure branch the next transaction reads the failed write
through the cache: key 1 becomes 5, the specification says absent -/
theorem cache_reset_is_needed :
    (run { Cfg.all with failResetCaches := false } 10 false wF [wBad, wReader]).map (fun L => L.F.store 1) = some (some 5)
    ∧ (specRun 10 false wF.pure [wBad, wReader]).map (fun S => S.final.view 1) = some none := by decide

/-- without `s.SetStore(currentStore)` the failed transaction's writes stay in the store -/
theorem store_restore_is_needed :
    (run { Cfg.all with failRestoreStore := false } 10 false wF [wBad, wReader]).map (fun L => L.F.store 0) = some (some 5)
    ∧ (specRun 10 false wF.pure [wBad, wReader]).map (fun S => S.final.view 0) = some none := by decide

/-- without `s.events.Reset()` the failed transaction's events are attributed to the next one -/
theorem event_reset_is_needed :
    (run { Cfg.all with failResetEvents := false } 10 false wF [wBad, wReader]).map (fun L => L.blockEvents) = some [7]
    ∧ (specRun 10 false wF.pure [wBad, wReader]).map (fun S => S.blockEvents) = some [] := by decide

/-- without restoring the slash tracker the failed transaction's marks stay -/
theorem tracker_restore_is_needed :
    (run { Cfg.all with failRestoreTracker := false } 10 false wF [wBad, wReader]).map (fun L => L.F.tracker) = some [8]
    ∧ (specRun 10 false wF.pure [wBad, wReader]).map (fun S => S.final.tracker) = some [] := by decide

/-- two writers of key 0, each of size 1, block limit 1: the second is the oversize remainder -/
def wInc (id : Nat) : Tx := ⟨id, fun _ => true, [], [.put 0 (fun v => some ((v 0).getD 0 + 1)), .slash id], 1⟩

/-- without the restoration after the loop (the defect repaired by "drop caches and slash-tracker
entries left by the oversize remainder") the proposer's end-block reads see the remainder: key 0
reads 2 through the cache while the store — and every replica — has 1 -/
theorem oversize_restore_is_needed :
    (run { Cfg.all with oversizeRestore := false } 1 true wF [wInc 1, wInc 2]).map (fun L => (L.F.get 0, L.F.store 0, L.F.tracker, L.included.map (·.id)))
      = some (some 2, some 1, [1, 2], [1])
    ∧ (specRun 1 true wF.pure [wInc 1, wInc 2]).map (fun S => (S.final.view 0, S.final.tracker)) = some (some 1, [1])
    ∧ (run Cfg.all 1 true wF [wInc 1, wInc 2]).map (fun L => (L.F.get 0, L.F.tracker)) = some (some 1, [1]) := by decide

/-! ## rejected proposals and peer blocks -/

open Canopy.Exec in
/-- **reject_leaves_unchanged.** (model `Canopy.Exec`, for the abstract `applyBlock`.)
A proposal rejected by `ValidateProposal` — wrong height, failing execution, mismatching header or
results — followed by the BFT's round interrupt, and a peer block rejected by `HandlePeerBlock`, leave
the committed state, the height and the archive unchanged and the working copy equal to the committed
state; the cached block result is dropped. -/
theorem reject_leaves_unchanged {σ β ρ ε : Type} [DecidableEq β] [DecidableEq ρ] (S : Sys σ β ρ ε)
    (n : Node σ β ρ) (b : β) :
    ((∀ r, (validate S n b).2 ≠ .ok r) → (validate S n b).1 = roundInterrupt n) ∧
    (∀ (sync : Bool) (v : Nat), (∀ r, (commit S n b sync v).2 ≠ .ok r) →
      (S.height b = n.height → n.cached ≠ some b) →
      (commit S n b sync v).1.committed = n.committed ∧ (commit S n b sync v).1.height = n.height ∧
      (commit S n b sync v).1.archive = n.archive ∧
      (S.height b = n.height → (commit S n b sync v).1.working = n.committed)) :=
  ⟨Canopy.C03.validate_reject S n b, fun sync v => Canopy.C03.commit_reject_unchanged S n b sync v⟩

end Canopy.C07
