import Canopy.Model.Exec
import Canopy.Model.ExecFacts
/-!
# C03 — deterministic replicated execution (mechanism part)

Statement (properties.jsonl): same prefix + same block ⇒ bit-identical header and certificate
results on every execution path (propose, validate, commit with/without cached result, sync replay,
after restart), independent of cache contents and of earlier discarded speculative executions.

What is proved here is about the mechanism model `Canopy.Exec` (`Model/Exec.lean`): block execution is
an abstract deterministic function `applyBlock`; the theorems say that **every path computes
`applyBlock` of (committed state, block)**, so any two paths on nodes with the same committed state
give the same answer and the same next committed state, whatever either node did before.

* `produce_computes`, `validate_computes`, `replay_commit_computes` — these paths start from a reset,
  so the working copies' contents (earlier executions, failed or not) are irrelevant;
* `commit_computes` — the cached commit is right on a `Coherent` node;
* `coherent_run` — on the repaired mechanism (`resetClearsCache = true`: every controller-level reset
  of the FSM also drops the BFT's cached block result) `Coherent` holds after EVERY history;
* `paths_agree` — the property, full strength, for the repaired mechanism; `mechanism_is_repaired`
  ties the switch to the source (generated fact);
* `stale_cache_after_produce`, `stale_cache_after_failed_replay`, `paths_agree_fails_without_cache_reset`
  — the mechanism before the repair (`resetClearsCache = false`) violates the property at two
  concrete histories (`decide`); both are permanent scenarios of the Go driver (`harness/c03`);
* `speculation_no_leak` — after any sequence of speculative executions each followed by a reset
  (round interrupt), the next execution equals execution on the committed state (either mechanism).

NOT proved here, only sampled by the multi-path correspondence run: that the real `ApplyBlock` is a
function of (committed state, block) — goroutine scheduling of the parallel tree commit, map
iteration order, process-wide caches. See `checks/C03.py`.
-/
namespace Canopy.C03
open Canopy.Exec
set_option linter.unusedSectionVars false

variable {σ β ρ ε : Type} [DecidableEq β] [DecidableEq ρ] (S : Sys σ β ρ ε)

/-! ## every path computes `applyBlock (committed, block)` -/

/-- leader path: the result is `applyBlock` on the committed state, whatever the working copies hold -/
theorem produce_computes (n : Node σ β ρ) (b : β) :
    (produce S n b).2 = (S.applyBlock n.committed b).map (·.2) := by
  unfold produce
  cases S.applyBlock n.committed b <;> rfl

theorem produce_keeps_committed (n : Node σ β ρ) (b : β) :
    (produce S n b).1.committed = n.committed ∧ (produce S n b).1.working = n.committed
      ∧ (produce S n b).1.height = n.height ∧ (produce S n b).1.archive = n.archive
      ∧ (produce S n b).1.cached = if S.resetClearsCache then none else n.cached := by
  unfold produce
  cases S.applyBlock n.committed b <;> simp [reset]

theorem validateRaw_computes (n : Node σ β ρ) (b : β) (hh : S.height b = n.height) :
    (validateRaw S n b).2 = verdict S n.committed b := by
  simp only [validateRaw, reset, verdict, hh, ne_eq, not_true_eq_false, if_false]
  cases S.applyBlock n.committed b with
  | error e => rfl
  | ok p => rfl

/-- replica path: the verdict is the verdict on the committed state, for ANY node state
(dirty working copy, stale cached result, anything) -/
theorem validate_computes (n : Node σ β ρ) (b : β) (hh : S.height b = n.height) :
    (validate S n b).2 = verdict S n.committed b := by
  have h := validateRaw_computes S n b hh
  unfold validate
  generalize validateRaw S n b = p at h ⊢
  obtain ⟨n', o⟩ := p
  cases o <;> simp_all

/-- after an accepted validation the working copy is the post-state and the block is cached -/
theorem validate_accept (n : Node σ β ρ) (b : β) (s' : σ) (hh : S.height b = n.height)
    (hx : exec S n.committed b = some s') :
    (validate S n b).1 = { n with working := s', cached := some b } := by
  unfold exec at hx
  simp only [validate, validateRaw, reset, hh, ne_eq, not_true_eq_false, if_false]
  cases h : S.applyBlock n.committed b with
  | error e => simp [h] at hx
  | ok p =>
    obtain ⟨s1, r⟩ := p
    simp only [h] at hx
    by_cases hr : r = S.claim b
    · simp only [hr, if_true, Option.some.injEq] at hx
      simp [hr, hx]
    · simp [hr] at hx

theorem validateRaw_frame (n : Node σ β ρ) (b : β) :
    (validateRaw S n b).1.committed = n.committed ∧ (validateRaw S n b).1.height = n.height
      ∧ (validateRaw S n b).1.mem = n.mem ∧ (validateRaw S n b).1.archive = n.archive
      ∧ (validateRaw S n b).1.lastCert = n.lastCert := by
  unfold validateRaw reset
  by_cases hh : S.height b ≠ n.height
  · simp [hh]
  · simp only [hh, if_false]
    cases S.applyBlock n.committed b <;> simp

/-- a rejected validation leaves the node as a reset node without cached result
("a rejected proposal leaves committed and working state unchanged", C07) -/
theorem validate_reject (n : Node σ β ρ) (b : β) (hx : ∀ r, (validate S n b).2 ≠ .ok r) :
    (validate S n b).1 = roundInterrupt n := by
  unfold validate at hx ⊢
  have hc := validateRaw_frame S n b
  generalize validateRaw S n b = p at hx hc ⊢
  obtain ⟨n', o⟩ := p
  cases o with
  | ok r => exact absurd rfl (hx r)
  | _ => obtain ⟨h1, h2, h3, h4, h5⟩ := hc; simp_all [roundInterrupt]

/-- a replay executes `applyBlock` of the committed state — outside sync always, and on the sync path
when the header's last certificate is written into the working store first (`indexesLastCert`);
which version of that certificate the node had stored is then irrelevant -/
theorem replayExec_eq (n : Node σ β ρ) (b : β) (sync : Bool)
    (hs : sync = false ∨ S.indexesLastCert = true) :
    replayExec S n b sync = S.applyBlock n.committed b := by
  have : stale S n b sync = false := by
    cases hs with
    | inl h => simp [stale, h]
    | inr h => simp [stale, h]
  simp [replayExec, this]

/-- commit by replay (no cached result for this block), on the live or the sync path, with any
delivered certificate version: verdict and next state are those of the committed state, for ANY
working copy and ANY stored version of the last certificate -/
theorem replay_commit_computes (n : Node σ β ρ) (b : β) (sync : Bool) (v : Nat)
    (hs : sync = false ∨ S.indexesLastCert = true) (hh : S.height b = n.height)
    (hc : n.cached ≠ some b) :
    (commit S n b sync v).2 = verdict S n.committed b ∧
    (commit S n b sync v).1.committed = (exec S n.committed b).getD n.committed ∧
    (commit S n b sync v).1.working = (commit S n b sync v).1.committed := by
  have he := replayExec_eq S (reset S n) b sync hs
  simp only [reset] at he
  simp only [commit, reset, verdict, exec, hh, ne_eq, not_true_eq_false, if_false, hc, he]
  cases S.applyBlock n.committed b with
  | error e => simp
  | ok p =>
    obtain ⟨s1, r⟩ := p
    by_cases hr : r = S.claim b <;> simp [hr, finish, reset]

/-- commit on a coherent node — cached or not, live or sync — computes the verdict and state of the
committed state -/
theorem commit_computes (n : Node σ β ρ) (b : β) (sync : Bool) (v : Nat)
    (hs : sync = false ∨ S.indexesLastCert = true) (hn : Coherent S n) (hh : S.height b = n.height) :
    (commit S n b sync v).2 = verdict S n.committed b ∧
    (commit S n b sync v).1.committed = (exec S n.committed b).getD n.committed ∧
    (commit S n b sync v).1.working = (commit S n b sync v).1.committed := by
  by_cases hc : n.cached = some b
  · have hx : exec S n.committed b = some n.working := by
      unfold Coherent at hn
      rw [hc] at hn
      exact hn.2 hh
    have hv : verdict S n.committed b = .ok (S.claim b) := by
      unfold exec at hx
      unfold verdict
      cases h : S.applyBlock n.committed b with
      | error e => simp [h] at hx
      | ok p =>
        obtain ⟨s1, r⟩ := p
        simp only [h] at hx ⊢
        by_cases hr : r = S.claim b <;> simp_all
    simp [commit, hh, hc, hv, hx, finish, reset]
  · exact replay_commit_computes S n b sync v hs hh hc

/-- a rejected peer block leaves committed state, height and archive unchanged and the working copy
equal to the committed state (C07: `reject_leaves_unchanged`, peer-block part) -/
theorem commit_reject_unchanged (n : Node σ β ρ) (b : β) (sync : Bool) (v : Nat)
    (hx : ∀ r, (commit S n b sync v).2 ≠ .ok r)
    (hw : S.height b = n.height → n.cached ≠ some b) :
    (commit S n b sync v).1.committed = n.committed ∧ (commit S n b sync v).1.height = n.height ∧
    (commit S n b sync v).1.archive = n.archive ∧
    (S.height b = n.height → (commit S n b sync v).1.working = n.committed) := by
  by_cases hh : S.height b = n.height
  · have hc := hw hh
    simp only [commit, reset, hh, ne_eq, not_true_eq_false, if_false, hc] at hx ⊢
    generalize replayExec S _ b sync = e at hx ⊢
    cases e with
    | error e => simp
    | ok p =>
      obtain ⟨s1, r⟩ := p
      by_cases hr : r = S.claim b
      · simp [hr] at hx
      · simp [hr]
  · simp [commit, hh]

/-! ## the invariant holds after every history (repaired mechanism) -/

theorem coherent_init (s : σ) (h : Nat) : Coherent S (init s h : Node σ β ρ) := by
  simp [Coherent, init]

theorem coherent_step (hclr : S.resetClearsCache = true) (n : Node σ β ρ) (op : Op β)
    (hn : Coherent S n) : Coherent S (step S n op) := by
  cases op with
  | interrupt => simp [step, roundInterrupt, Coherent]
  | restart => simp [step, restart, Coherent]
  | produce b =>
    have hk := produce_keeps_committed S n b
    simp only [step, Coherent, hk.2.2.2.2, hclr, if_true]
  | validate b =>
    simp only [step]
    by_cases hacc : ∃ r, (validate S n b).2 = .ok r
    · obtain ⟨r, hr⟩ := hacc
      by_cases hh : S.height b = n.height
      · have hv := validate_computes S n b hh
        rw [hr] at hv
        have : ∃ s', exec S n.committed b = some s' := by
          unfold verdict at hv
          unfold exec
          cases h : S.applyBlock n.committed b with
          | error e => simp [h] at hv
          | ok p =>
            obtain ⟨s1, r1⟩ := p
            simp only [h] at hv ⊢
            by_cases h2 : r1 = S.claim b <;> simp_all
        obtain ⟨s', hs'⟩ := this
        rw [validate_accept S n b s' hh hs']
        simp only [Coherent]
        exact ⟨Nat.le_of_eq hh, fun _ => hs'⟩
      · exfalso
        simp only [validate, validateRaw, reset, ne_eq, hh, not_false_eq_true, if_true] at hr
        cases hr
    · have : ∀ r, (validate S n b).2 ≠ .ok r := fun r h => hacc ⟨r, h⟩
      rw [validate_reject S n b this]
      simp [roundInterrupt, Coherent]
  | commit b sync v =>
    simp only [step]
    by_cases hh : S.height b = n.height
    · by_cases hc : n.cached = some b
      · simp [commit, hh, hc, finish, reset, Coherent, hclr]
      · simp only [commit, reset, hh, ne_eq, not_true_eq_false, if_false, hc, hclr, if_true]
        generalize replayExec S _ b sync = e
        cases e with
        | error e => simp [Coherent]
        | ok p =>
          obtain ⟨s1, r⟩ := p
          by_cases hr : r = S.claim b <;> simp [hr, finish, reset, Coherent, hclr]
    · simp only [commit, ne_eq, hh, not_false_eq_true, if_true]
      exact hn

/-- `Coherent` holds after every history of operations -/
theorem coherent_run (hclr : S.resetClearsCache = true) (n : Node σ β ρ) (ops : List (Op β))
    (hn : Coherent S n) : Coherent S (run S n ops) := by
  induction ops generalizing n with
  | nil => exact hn
  | cons op rest ih =>
    simp only [run, List.foldl_cons]
    exact ih (step S n op) (coherent_step S hclr n op hn)

/-! ## the property -/

/-- Full-strength statement: after ANY two histories that leave two nodes with the same committed
state and height, every path gives the same verdict for a block and the same next committed state;
the histories may contain proposals, validations of other blocks (accepted, rejected, failing
midway), rejected peer blocks, round interrupts, restarts, commits and sync replays, and the two
nodes may have stored DIFFERENT versions (signer sets) of every earlier commit certificate. -/
def PathsAgree (S : Sys σ β ρ ε) : Prop :=
  ∀ (s : σ) (h : Nat) (ops₁ ops₂ : List (Op β)) (b : β) (v₁ v₂ : Nat),
    (run S (init s h) ops₁).committed = (run S (init s h) ops₂).committed →
    (run S (init s h) ops₁).height = (run S (init s h) ops₂).height →
    S.height b = (run S (init s h) ops₁).height →
      (validate S (run S (init s h) ops₁) b).2 = (commit S (run S (init s h) ops₂) b).2 ∧
      (commit S (run S (init s h) ops₁) b false v₁).2 = (commit S (run S (init s h) ops₂) b false v₂).2 ∧
      (commit S (run S (init s h) ops₁) b true v₁).2 = (commit S (run S (init s h) ops₂) b false v₂).2 ∧
      (commit S (run S (init s h) ops₁) b true v₁).1.committed =
        (commit S (run S (init s h) ops₂) b false v₂).1.committed ∧
      (produce S (run S (init s h) ops₁) b).2 = (produce S (run S (init s h) ops₂) b).2

/-- **paths_agree.** The property holds for the mechanism in which every controller-level reset of
the FSM also drops the cached block result and the header's last certificate is written into the
working store before the block is applied on every path. -/
theorem paths_agree (hclr : S.resetClearsCache = true) (hix : S.indexesLastCert = true) : PathsAgree S := by
  intro s h ops₁ ops₂ b v₁ v₂ hc hh hb
  have c₁ := coherent_run S hclr _ ops₁ (coherent_init S s h)
  have c₂ := coherent_run S hclr _ ops₂ (coherent_init S s h)
  have k₁ := commit_computes S _ b false v₁ (Or.inl rfl) c₁ hb
  have s₁ := commit_computes S _ b true v₁ (Or.inr hix) c₁ hb
  have k₂ := commit_computes S _ b false v₂ (Or.inl rfl) c₂ (hh ▸ hb)
  have k₀ := commit_computes S _ b false 0 (Or.inl rfl) c₂ (hh ▸ hb)
  have vv := validate_computes S (run S (init s h) ops₁) b hb
  refine ⟨?_, ?_, ?_, ?_, ?_⟩
  · rw [vv, k₀.1, hc]
  · rw [k₁.1, k₂.1, hc]
  · rw [s₁.1, k₂.1, hc]
  · rw [s₁.2.1, k₂.2.1, hc]
  · rw [produce_computes, produce_computes, hc]

/-- the mechanism of the source tree is the repaired one: every statement that resets the
controller's FSM is the one inside `Controller.resetFSM`, and `resetFSM` clears
`Consensus.BlockResult` first (generated fact; fails when a bare `c.FSM.Reset()` reappears) -/
theorem mechanism_is_repaired : resetClearsCacheFact = true := by decide

/-- the source tree writes the candidate header's `LastQuorumCertificate` into the working store for
every height > 1 on every path — the one `IndexQC` site in `CheckAndSetLastCertificate` is guarded by
the height test alone, not by the syncing test — and `ApplyAndValidateBlock` does so before
`ApplyBlock` (generated facts) -/
theorem last_certificate_is_the_headers : indexesLastCertFact = true := by decide

/-- `ProduceProposal` assigns every field of the cached proposal's header from its inputs (no `+=`,
`++`, `x = x + …` on `p.Block.BlockHeader.*`): a cached mempool proposal served to several calls — a
leader leading again at the same height — gives each call the header the model's `produce` has, a
function of (committed state, block inputs) alone (generated fact; Go scenario
`re-proposal-from-cached-proposal`) -/
theorem proposal_header_assigned_from_inputs : headerAssignedFromInputsFact = true := by decide

/-- the source tree writes the process-wide signature cache only under a positive verification of
the tuple written (generated fact: every `SignatureCache.Set` / `addToCache()` site of `lib/crypto`
with everything enclosing it; fails when a write appears on a failure branch or outside a guard) -/
theorem signature_cache_written_only_when_verified : signatureCacheFact = true := by
  set_option maxRecDepth 20000 in decide

/-- **cache_contents_never_change_a_verdict.** For the signature-cache mechanism of the source tree:
whatever a process verified before — any batches, of valid and forged signatures, in earlier blocks,
discarded speculative executions and mempool checks, and any cache losses — the batch pre-check of a
block (the only signature check of a block) gives every transaction the verdict a process with an
empty cache gives. So the abstract `applyBlock (committed state, block)` of `paths_agree` does not
depend on that history through the signature cache. (Go scenario `forged-signature-re-executed`;
`SigCache.warm_cache_accepts_rejected_tuple` is the counterexample for the other mechanism.) -/
theorem cache_contents_never_change_a_verdict {τ : Type} [DecidableEq τ] (verify : τ → Bool)
    (evs : List (Canopy.SigCache.Ev τ)) (xs : List τ) :
    (Canopy.SigCache.batch sigCacheCfgOfFacts verify (Canopy.SigCache.run sigCacheCfgOfFacts verify [] evs) xs).1 =
      (Canopy.SigCache.batch sigCacheCfgOfFacts verify [] xs).1 :=
  Canopy.SigCache.cache_never_changes_a_verdict
    (show sigCacheCfgOfFacts.fillsOnlyVerified = true from signature_cache_written_only_when_verified) verify evs xs

/-- non-vacuity: both former counterexample histories, on the repaired mechanism, end with the block
applied (commit by replay): state 8 = 0 + 7 + 1 -/
example :
    let S : Sys Nat Nat Nat Unit := ⟨fun s b => .ok (s + b + 1, b), fun s _ => s, fun b => if b = 13 then 0 else b, fun _ => 0, true, fun _ => 0, fun s b _ => .ok (s + b + 1, b), true⟩
    (run S (init 0 0 : Node Nat Nat Nat) [.validate 7, .produce 9, .commit 7 false 0]).committed = 8
    ∧ (run S (init 0 0 : Node Nat Nat Nat) [.validate 7, .commit 13 false 0, .commit 7 false 0]).committed = 8
    ∧ (run S (init 0 0 : Node Nat Nat Nat) [.produce 5, .validate 9, .interrupt, .validate 7, .commit 7 false 0]).committed = 8 := by
  decide

/-! ## the mechanism before the repair violates the property (kept as counterexamples) -/

/-- every block valid (state' = state + block + 1, result = block) except block 13, whose claim is
wrong; resets leave the cached block result in place -/
def oldSys : Sys Nat Nat Nat Unit :=
  ⟨fun s b => .ok (s + b + 1, b), fun s _ => s, fun b => if b = 13 then 0 else b, fun _ => 0, false, fun _ => 0, fun s b _ => .ok (s + b + 1, b), true⟩

/-- Witness A: validate(7); produce(9); commit(7). `ProduceProposal`'s deferred `c.FSM.Reset()` drops
the working copy, the cached result stays, the commit stores block 7 over an unchanged state. -/
theorem stale_cache_after_produce :
    (run oldSys (init 0 0 : Node Nat Nat Nat) [.validate 7, .produce 9, .commit 7 false 0]).committed = 0
    ∧ exec oldSys 0 7 = some 8
    ∧ (run oldSys (init 0 0 : Node Nat Nat Nat) [.validate 7, .produce 9, .commit 7 false 0]).archive = [(7, 7)] := by
  decide

/-- Witness B: validate(7); commit(13) is replayed and rejected (reset, cached result stays);
commit(7) then stores block 7 over an unchanged state. A peer that serves one garbage block to a
syncing node is enough. -/
theorem stale_cache_after_failed_replay :
    (commit oldSys (run oldSys (init 0 0 : Node Nat Nat Nat) [.validate 7]) 13).2 = .mismatch
    ∧ (run oldSys (init 0 0 : Node Nat Nat Nat) [.validate 7, .commit 13 false 0, .commit 7 false 0]).committed = 0
    ∧ exec oldSys 0 7 = some 8 := by
  decide

theorem paths_agree_fails_without_cache_reset : ¬ PathsAgree oldSys := by
  intro h
  have := (h 0 0 [.validate 7, .commit 13 false 0] [] 7 0 0 rfl rfl rfl).2.2.2.1
  revert this
  decide

/-- a mechanism that writes the header's last certificate only outside sync: every block is valid when
begin-block consumes the header's version of the last certificate (version 2); consuming another
version gives another result -/
def syncOldSys : Sys Nat Nat Nat Unit :=
  ⟨fun s b => .ok (s + b + 1, b), fun s _ => s, id, fun b => if b = 7 then 1 else 0, true, fun _ => 2,
   fun s b v => .ok (s + b + 1 + 100 * v, b + 100 * v), false⟩

/-- without that write on the sync path a node that stored version 1 of the last certificate rejects,
when syncing, the valid block whose header embeds version 2 (unequal header), while the same node
accepts it on the live path and a node that stored version 2 accepts it when syncing -/
theorem sync_diverges_without_last_certificate_write :
    (commit syncOldSys { (init 0 1 : Node Nat Nat Nat) with lastCert := 1 } 7 true 5).2 = .mismatch
    ∧ (commit syncOldSys { (init 0 1 : Node Nat Nat Nat) with lastCert := 1 } 7 false 5).2 = .ok 7
    ∧ (commit syncOldSys { (init 0 1 : Node Nat Nat Nat) with lastCert := 2 } 7 true 5).2 = .ok 7
    ∧ ¬ PathsAgree syncOldSys := by
  refine ⟨by decide, by decide, by decide, ?_⟩
  intro h
  have := (h 0 0 [.commit 0 false 1] [.commit 0 false 2] 7 5 5 rfl rfl rfl).2.2.1
  revert this
  decide

/-! ## discarded speculative executions do not leak -/

/-- a speculative execution: a proposal, or a validation of any block (accepted or not) -/
inductive Spec (β : Type) where
  | produce (b : β)
  | validate (b : β)
  | validateRaw (b : β)

def specStep (n : Node σ β ρ) : Spec β → Node σ β ρ
  | .produce b => (produce S n b).1
  | .validate b => (validate S n b).1
  | .validateRaw b => (validateRaw S n b).1

/-- speculative executions, each followed by the reset the BFT performs (round interrupt) -/
def speculate (n : Node σ β ρ) (specs : List (Spec β)) : Node σ β ρ :=
  specs.foldl (fun n sp => roundInterrupt (specStep S n sp)) n

theorem specStep_committed (n : Node σ β ρ) (sp : Spec β) :
    (specStep S n sp).committed = n.committed ∧ (specStep S n sp).height = n.height
      ∧ (specStep S n sp).archive = n.archive := by
  cases sp with
  | produce b => have := produce_keeps_committed S n b; exact ⟨this.1, this.2.2.1, this.2.2.2.1⟩
  | validateRaw b =>
    have := validateRaw_frame S n b
    exact ⟨this.1, this.2.1, this.2.2.2.1⟩
  | validate b =>
    simp only [specStep, validate]
    have hc : (validateRaw S n b).1.committed = n.committed ∧ (validateRaw S n b).1.height = n.height
        ∧ (validateRaw S n b).1.archive = n.archive := by
      have := validateRaw_frame S n b
      exact ⟨this.1, this.2.1, this.2.2.2.1⟩
    generalize validateRaw S n b = p at hc ⊢
    obtain ⟨n', o⟩ := p
    cases o <;> simp_all [roundInterrupt]

/-- a node whose copies all equal the committed state `s` and which has no cached result -/
def Clean (n : Node σ β ρ) (s : σ) (h : Nat) (a : List (β × ρ)) : Prop :=
  n.committed = s ∧ n.working = s ∧ n.cached = none ∧ n.height = h ∧ n.archive = a

theorem speculate_clean (n : Node σ β ρ) (s : σ) (h : Nat) (a : List (β × ρ)) (specs : List (Spec β))
    (hn : Clean n s h a) : Clean (speculate S n specs) s h a := by
  induction specs generalizing n with
  | nil => exact hn
  | cons x xs ih =>
    simp only [speculate, List.foldl_cons]
    apply ih
    have h2 := specStep_committed S n x
    obtain ⟨c1, _, _, c4, c5⟩ := hn
    exact ⟨h2.1.trans c1, h2.1.trans c1, rfl, h2.2.1.trans c4, h2.2.2.trans c5⟩

/-- **speculation_no_leak.** After any sequence of speculative executions (proposals, validations of
any blocks, accepted, rejected or failing midway), each followed by a reset, the next execution of a
block — validation, commit, proposal — is the execution on the committed state: same verdict, same
next committed state as on a node that never speculated. -/
theorem speculation_no_leak (s : σ) (h : Nat) (specs : List (Spec β)) (b : β) (hb : S.height b = h) :
    let n := speculate S (init s h : Node σ β ρ) specs
    (validate S n b).2 = verdict S s b ∧
    (commit S n b).2 = verdict S s b ∧
    (commit S n b).1.committed = (commit S (init s h : Node σ β ρ) b).1.committed ∧
    (produce S n b).2 = (S.applyBlock s b).map (·.2) := by
  intro n
  have hclean : n.committed = s ∧ n.cached = none ∧ n.height = h := by
    have := speculate_clean S (init s h : Node σ β ρ) s h [] specs ⟨rfl, rfl, rfl, rfl, rfl⟩
    exact ⟨this.1, this.2.2.1, this.2.2.2.1⟩
  obtain ⟨h1, h2, h3⟩ := hclean
  have hbn : S.height b = n.height := by rw [h3]; exact hb
  have hcn : n.cached ≠ some b := by rw [h2]; simp
  have k := replay_commit_computes S n b false 0 (Or.inl rfl) hbn hcn
  have k0 := replay_commit_computes S (init s h : Node σ β ρ) b false 0 (Or.inl rfl) (by simpa [init] using hb) (by simp [init])
  refine ⟨?_, ?_, ?_, ?_⟩
  · rw [validate_computes S n b hbn, h1]
  · rw [k.1, h1]
  · rw [k.2.1, k0.2.1, h1]; simp [init]
  · rw [produce_computes, h1]

/-- non-vacuity: three discarded executions, one of them failing midway -/
example :
    let S : Sys Nat Nat Nat Unit :=
      ⟨fun s b => if b = 4 then .error () else .ok (s + b + 1, b), fun s b => s + 1000 * b, id, fun _ => 0, true, fun _ => 0, fun _ _ _ => .error (), true⟩
    (speculate S (init 0 0 : Node Nat Nat Nat) [.validate 3, .validateRaw 4, .produce 5]).working = 0
    ∧ (validateRaw S (init 0 0 : Node Nat Nat Nat) 4).1.working = 4000 := by
  decide

/-! ## generated structural facts (regenerated from `/repo` on every run)

The model above assumes: `ProduceProposal` resets the controller FSM when it returns;
`ValidateProposal` starts with a reset; `CommitCertificate` replays only when no result is passed
in, resets before the replay and on every exit; all of these go through `resetFSM`;
`HandlePeerBlock` chooses the cached result by block-hash equality alone; the BFT writes the cached
result only in the proposal validation and the round interrupt; `Reset` rebuilds tracker, caches
and store view;
`ResetCaches` clears every cache field that is read through (all but the immutable shared history);
every `CheckMempool` runs on a freshly reset or freshly copied mempool FSM. -/

set_option maxRecDepth 20000

open Canopy.Gen.Exec in
theorem produceProposal_defers_reset : produceProposalDefers = ["c.resetFSM()"] := by decide

open Canopy.Gen.Exec in
theorem validateProposal_begins_with_reset :
    validateProposalFirst = ["c.resetFSM()"] ∧
    validateProposalCalls = ["c.resetFSM", "c.SetFSMInConsensusModeForProposals", "qc.CheckProposalBasic",
      "c.Consensus.ValidateByzantineEvidence", "c.ApplyAndValidateBlock", "c.NewCertificateResults",
      "qc.Results.Equals"] := by decide

open Canopy.Gen.Exec in
theorem commitCertificate_shape :
    commitCertificateDefers.head? = some "c.resetFSM()" ∧
    commitReplayBranch.head? = some "c.resetFSM()" ∧
    commitReplayBranch.contains "blockResult, err = c.ApplyAndValidateBlock(block, true)" = true ∧
    commitCertificateCalls = ["c.resetFSM", "c.resetFSM", "c.ApplyAndValidateBlock", "storeI.IndexQC",
      "storeI.IndexBlock", "storeI.Commit", "fsm.New", "c.Mempool.FSM.Discard", "c.FSM.Copy",
      "c.Mempool.CheckMempool", "c.Mempool.FSM.Reset"] := by decide

open Canopy.Gen.Exec in
/-- every call site of `resetFSM`: the five controller-level resets and the BFT's `ResetFSM` hook -/
theorem resetFSM_callers : resetFSMCallers =
    ["ProduceProposal: defer c.resetFSM()", "ValidateProposal: c.resetFSM()",
     "CommitCertificate: defer c.resetFSM()", "CommitCertificate: c.resetFSM()",
     "CommitCertificateParallel: defer c.resetFSM()", "CommitCertificateParallel: c.resetFSM()",
     "ResetFSM: c.resetFSM()"] := by decide

open Canopy.Gen.Exec in
theorem handlePeerBlock_cache_rule : handlePeerBlockCacheRule =
    ["result := c.Consensus.BlockResult",
     "if result == nil || result.BlockHeader == nil || !bytes.Equal(result.BlockHeader.Hash, block.BlockHeader.Hash) { result = nil }",
     "if err = c.CommitCertificate(qc, block, result, msg.Time); err != nil { return nil, err }"] := by decide

open Canopy.Gen.Exec in
/-- inside the BFT the cached result is written by the proposal validation and cleared by the round
interrupt, and by nothing else (in particular not by `NewHeight`/`NewRound`); every other drop of
the cached result happens in `Controller.resetFSM` -/
theorem cached_result_writers : bftBlockResultWrites =
    ["StartProposeVotePhase: b.BlockResult, err = b.ValidateProposal(msg.RcBuildHeight, msg.Qc, byzantineEvidence)",
     "RoundInterrupt: b.BlockResult = nil"] := by decide

open Canopy.Gen.Exec in
theorem applyAndValidate_compares_hash : applyAndValidateCalls =
    ["c.CheckAndSetLastCertificate", "c.FSM.ApplyBlock", "lib.ErrFailedTransactions", "compare.SetHash",
     "bytes.Equal", "lib.ErrUnequalBlockHash"] := by decide

open Canopy.Gen.Exec in
theorem reset_rebuilds_everything :
    resetStmts = ["s.slashTracker = NewSlashTracker()", "s.ResetCaches()", "s.store.(lib.StoreI).Reset()"] := by
  decide

open Canopy.Gen.Exec in
/-- every cache field that exists, and every cache field any FSM code mentions, is cleared by
`ResetCaches` — except `sharedCache`, the rolling cache of *historical* validator lists keyed by
committed height (immutable history shared between snapshots) -/
theorem resetCovers :
    (∀ f ∈ cacheFields, f ≠ "sharedCache" → f ∈ resetCachesAssigns) ∧
    (∀ f ∈ cacheFieldsUsed, f ≠ "sharedCache" → f ∈ resetCachesAssigns) ∧
    (∀ f ∈ cacheFieldsUsed, f ∈ cacheFields) := by decide

open Canopy.Gen.Exec in
/-- every mempool check runs on a mempool FSM that was reset or rebuilt just before, except the very
first one in `Start`, which runs on the copy made by `NewMempool` -/
theorem checkMempool_runs_on_fresh_copy : checkMempoolCallers =
    ["CommitCertificate: fsm.New, c.Mempool.FSM.Discard, c.FSM.Copy -> CheckMempool",
     "CommitCertificateParallel: fsm.New -> CheckMempool",
     "loadProposalBlockLocked: c.Mempool.FSM.Reset -> CheckMempool",
     "finishSyncing: c.Mempool.FSM.Discard, c.FSM.Copy -> CheckMempool",
     "Start:  -> CheckMempool",
     "CheckMempool: c.Mempool.FSM.Reset -> CheckMempool"] := by decide

open Canopy.Gen.Exec in
/-- scope of the one cache that is NOT write-through: `cache.liveValidators` (a validator list filled
by the first `getCurrentValidators` and cleared only by `ResetCaches`; validator writes do not update
it). On a state machine's own state it is reached only through `LotteryWinner` and `PollsToResults`;
on a live (controller / mempool) state machine `LotteryWinner` is called only by
`CalculateRewardRecipients`, only on nested chains (`!isOwnRoot`), i.e. after `ApplyBlock`, in a
lifetime that began with a reset or a fresh copy (`checkMempool_runs_on_fresh_copy`,
`validateProposal_begins_with_reset`) — on the proposer path and on the replica path alike, so both
read the post-block validator list. Own-root chains take the lottery from a historical snapshot. -/
theorem liveValidators_cache_scope :
    liveValidatorsReaders = ["LotteryWinner -> GetCommitteeMembers", "LotteryWinner -> GetDelegates",
      "GetCommitteeMembers -> getValidatorSet", "GetDelegates -> getValidatorSet",
      "PollsToResults -> GetCommitteeMembers", "getValidatorSet -> getCurrentValidators"] ∧
    liveLotteryCalls = ["if !isOwnRoot: fsm.LotteryWinner(c.Config.ChainId, true)",
      "if !isOwnRoot: fsm.LotteryWinner(c.Config.ChainId)",
      "anywhere: fsm.LotteryWinner(c.Config.ChainId, true)", "anywhere: fsm.LotteryWinner(c.Config.ChainId)"] := by
  decide

end Canopy.C03
