import Canopy.Proof.Key
import Canopy.Gen.Keys
/-!
# C19 (a, continued) — the indexer's key families

Same statement as `C19.FsmKey.*`, for every key builder of `store/indexer.go` (generated):
transactions by hash / height+index / sender / recipient, blocks by hash / height, certificates by
height, double signers, checkpoints, events by address / height / chain id. The state-change journal
(`stateChangeVersionPrefix`, optional and holding no consensus state) is excluded by name: its marker
key is a byte-prefix of its entries by design (see C10's known finding).
-/
namespace Canopy.C19Idx
open Canopy Canopy.Gen

inductive IdxKey
  | txHash (h : Bytes) | txHeight (h : UInt64) | txHeightIndex (h i : UInt64)
  | txSender (a hik : Bytes) | txRecipient (a hik : Bytes)
  | blockHash (h : Bytes) | blockHeight (h : UInt64) | qcHeight (h : UInt64)
  | doubleSigner (a : Bytes) (h : UInt64)
  | checkpointsCommittee (c : UInt64) | checkpoint (c h : UInt64)
  | eventAddress (a hik : Bytes) | eventHeight (h : UInt64) | eventBlockHeight (h : UInt64)
  | eventHeightIndex (h i : UInt64) | eventChainId (c : UInt64) (hik : Bytes)

def IdxKey.encode : IdxKey → Bytes
  | .txHash h => indexer.txHashKey h | .txHeight h => indexer.txHeightKey h
  | .txHeightIndex h i => indexer.txHeightAndIndexKey h i
  | .txSender a k => indexer.txSenderKey a k | .txRecipient a k => indexer.txRecipientKey a k
  | .blockHash h => indexer.blockHashKey h | .blockHeight h => indexer.blockHeightKey h
  | .qcHeight h => indexer.qcHeightKey h | .doubleSigner a h => indexer.doubleSignerHeightKey a h
  | .checkpointsCommittee c => indexer.checkpointsCommitteeKey c | .checkpoint c h => indexer.checkpointKey c h
  | .eventAddress a k => indexer.eventAddressKey a k | .eventHeight h => indexer.eventHeightKey h
  | .eventBlockHeight h => indexer.eventBlockHeightKey h
  | .eventHeightIndex h i => indexer.eventHeightAndIndexKey h i
  | .eventChainId c k => indexer.eventChainIdKey c k

def IdxKey.segs : IdxKey → List Bytes
  | .txHash h => [[1], h] | .txHeight h => [[2], formatUint64 h]
  | .txHeightIndex h i => [[2], formatUint64 h, formatUint64 i]
  | .txSender a k => [[3], a, k] | .txRecipient a k => [[4], a, k]
  | .blockHash h => [[5], h] | .blockHeight h => [[6], formatUint64 h] | .qcHeight h => [[7], formatUint64 h]
  | .doubleSigner a h => [[8], a, formatUint64 h]
  | .checkpointsCommittee c => [[9], formatUint64 c] | .checkpoint c h => [[9], formatUint64 c, formatUint64 h]
  | .eventAddress a k => [[10], a, k] | .eventHeight h => [[11], formatUint64 h]
  | .eventBlockHeight h => [[11], formatUint64 h]
  | .eventHeightIndex h i => [[11], formatUint64 h, formatUint64 i]
  | .eventChainId c k => [[12], formatUint64 c, k]

/-- caller-supplied components fit the one-byte length prefix (hashes 32, addresses 20, the embedded
height-and-index key 20 bytes) -/
def IdxKey.WF : IdxKey → Prop
  | .txHash h | .blockHash h => h.length ≤ 255
  | .txSender a k | .txRecipient a k | .eventAddress a k => a.length ≤ 255 ∧ k.length ≤ 255
  | .doubleSigner a _ => a.length ≤ 255
  | .eventChainId _ k => k.length ≤ 255
  | _ => True

theorem IdxKey.encode_eq (k : IdxKey) : k.encode = joinLenPrefix k.segs := by
  cases k <;> simp [IdxKey.encode, IdxKey.segs, indexer.txHashKey, indexer.txHeightKey,
    indexer.txHeightAndIndexKey, indexer.txSenderKey, indexer.txRecipientKey, indexer.blockHashKey,
    indexer.blockHeightKey, indexer.qcHeightKey, indexer.doubleSignerHeightKey,
    indexer.checkpointsCommitteeKey, indexer.checkpointKey, indexer.eventAddressKey,
    indexer.eventHeightKey, indexer.eventBlockHeightKey, indexer.eventHeightAndIndexKey,
    indexer.eventChainIdKey, indexer.txHashPrefix, indexer.txHeightPrefix, indexer.txSenderPrefix,
    indexer.txRecipientPrefix, indexer.blockHashPrefix, indexer.blockHeightPrefix, indexer.qcHeightPrefix,
    indexer.doubleSignerPrefix, indexer.checkPointPrefix, indexer.eventAddressPrefix,
    indexer.eventHeightPrefix, indexer.eventChainIdPrefix]

theorem IdxKey.segsOK (k : IdxKey) (h : k.WF) : SegsOK k.segs := by
  unfold SegsOK
  cases k <;> simp_all [IdxKey.segs, IdxKey.WF, formatUint64_length]

/-- **No collision** between any two well-formed indexer keys that denote different segment lists -/
theorem IdxKey.encode_injective (k₁ k₂ : IdxKey) (h₁ : k₁.WF) (h₂ : k₂.WF)
    (h : k₁.encode = k₂.encode) : k₁.segs = k₂.segs := by
  rw [encode_eq, encode_eq] at h
  exact join_injective _ _ (segsOK _ h₁) (segsOK _ h₂) h

/-- **Prefix ranges**: a byte-prefix scan over an encoded key returns only keys whose leading segments
are that key's segments (e.g. the transactions of one height, the checkpoints of one committee) -/
theorem IdxKey.prefix_range (k₁ k₂ : IdxKey) (h₁ : k₁.WF) (h₂ : k₂.WF)
    (h : k₁.encode <+: k₂.encode) : k₁.segs <+: k₂.segs := by
  rw [encode_eq, encode_eq] at h
  exact join_prefix _ _ (segsOK _ h₁) (segsOK _ h₂) h

/-- scanning the transactions of height `h` never returns a transaction of another height -/
theorem tx_height_scan_exact (h h' i : UInt64)
    (e : indexer.txHeightKey h <+: indexer.txHeightAndIndexKey h' i) : h = h' := by
  have := IdxKey.prefix_range (.txHeight h) (.txHeightIndex h' i) trivial trivial e
  simp only [IdxKey.segs, List.cons_prefix_cons, true_and] at this
  exact formatUint64_injective _ _ this.1

/-- a double-signer record determines the validator and the height -/
theorem double_signer_components (a a' : Bytes) (h h' : UInt64) (ha : a.length ≤ 255) (ha' : a'.length ≤ 255)
    (e : indexer.doubleSignerHeightKey a h = indexer.doubleSignerHeightKey a' h') : a = a' ∧ h = h' := by
  have := IdxKey.encode_injective (.doubleSigner a h) (.doubleSigner a' h') ha ha' e
  simp only [IdxKey.segs, List.cons.injEq, and_true, true_and] at this
  exact ⟨this.1, formatUint64_injective _ _ this.2⟩

theorem block_height_vs_qc_height_disjoint (h h' : UInt64) : indexer.blockHeightKey h ≠ indexer.qcHeightKey h' := by
  intro e
  have := IdxKey.encode_injective (.blockHeight h) (.qcHeight h') trivial trivial e
  simp [IdxKey.segs] at this

example : (IdxKey.txSender (List.replicate 20 1) (indexer.txHeightAndIndexKey 3 4)).WF := by
  simp [IdxKey.WF, indexer.txHeightAndIndexKey, indexer.txHeightPrefix, joinLenPrefix, formatUint64]

end Canopy.C19Idx
