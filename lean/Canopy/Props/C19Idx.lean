import Canopy.Proof.Key
import Canopy.Gen.Keys
/-!
# C19 (a, continued) — the indexer's key families

Same statement as `C19.FsmKey.*`, for every key builder of `store/indexer.go` (generated):
transactions by hash / height+index / sender / recipient, blocks by hash / height, certificates by
height, double signers, checkpoints, events by address / height / chain id. The state-change journal
(`stateChangeVersionPrefix`, optional and holding no consensus state) is excluded by name: its marker
key is a byte-prefix of its entries by design (see C10's known finding).
-/
namespace Canopy.C19Idx
open Canopy Canopy.Gen

inductive IdxKey
  | txHash (h : Bytes) | txHeight (h : UInt64) | txHeightIndex (h i : UInt64)
  | txSender (a hik : Bytes) | txRecipient (a hik : Bytes)
  | blockHash (h : Bytes) | blockHeight (h : UInt64) | qcHeight (h : UInt64)
  | doubleSigner (a : Bytes) (h : UInt64)
  | checkpointsCommittee (c : UInt64) | checkpoint (c h : UInt64)
  | eventAddress (a hik : Bytes) | eventHeight (h : UInt64) | eventBlockHeight (h : UInt64)
  | eventHeightIndex (h i : UInt64) | eventChainId (c : UInt64) (hik : Bytes)

def IdxKey.encode : IdxKey → Bytes
  | .txHash h => indexer.txHashKey h | .txHeight h => indexer.txHeightKey h
  | .txHeightIndex h i => indexer.txHeightAndIndexKey h i
  | .txSender a k => indexer.txSenderKey a k | .txRecipient a k => indexer.txRecipientKey a k
  | .blockHash h => indexer.blockHashKey h | .blockHeight h => indexer.blockHeightKey h
  | .qcHeight h => indexer.qcHeightKey h | .doubleSigner a h => indexer.doubleSignerHeightKey a h
  | .checkpointsCommittee c => indexer.checkpointsCommitteeKey c | .checkpoint c h => indexer.checkpointKey c h
  | .eventAddress a k => indexer.eventAddressKey a k | .eventHeight h => indexer.eventHeightKey h
  | .eventBlockHeight h => indexer.eventBlockHeightKey h
  | .eventHeightIndex h i => indexer.eventHeightAndIndexKey h i
  | .eventChainId c k => indexer.eventChainIdKey c k

def IdxKey.segs : IdxKey → List Bytes
  | .txHash h => [[1], h] | .txHeight h => [[2], formatUint64 h]
  | .txHeightIndex h i => [[2], formatUint64 h, formatUint64 i]
  | .txSender a k => [[3], a, k] | .txRecipient a k => [[4], a, k]
  | .blockHash h => [[5], h] | .blockHeight h => [[6], formatUint64 h] | .qcHeight h => [[7], formatUint64 h]
  | .doubleSigner a h => [[8], a, formatUint64 h]
  | .checkpointsCommittee c => [[9], formatUint64 c] | .checkpoint c h => [[9], formatUint64 c, formatUint64 h]
  | .eventAddress a k => [[10], a, k] | .eventHeight h => [[11], formatUint64 h]
  | .eventBlockHeight h => [[11], formatUint64 h]
  | .eventHeightIndex h i => [[11], formatUint64 h, formatUint64 i]
  | .eventChainId c k => [[12], formatUint64 c, k]

/-- caller-supplied components fit the one-byte length prefix (hashes 32, addresses 20, the embedded
height-and-index key 20 bytes) -/
def IdxKey.WF : IdxKey → Prop
  | .txHash h | .blockHash h => h.length ≤ 255
  | .txSender a k | .txRecipient a k | .eventAddress a k => a.length ≤ 255 ∧ k.length ≤ 255
  | .doubleSigner a _ => a.length ≤ 255
  | .eventChainId _ k => k.length ≤ 255
  | _ => True

theorem IdxKey.encode_eq (k : IdxKey) : k.encode = joinLenPrefix k.segs := by
  cases k <;> simp [IdxKey.encode, IdxKey.segs, indexer.txHashKey, indexer.txHeightKey,
    indexer.txHeightAndIndexKey, indexer.txSenderKey, indexer.txRecipientKey, indexer.blockHashKey,
    indexer.blockHeightKey, indexer.qcHeightKey, indexer.doubleSignerHeightKey,
    indexer.checkpointsCommitteeKey, indexer.checkpointKey, indexer.eventAddressKey,
    indexer.eventHeightKey, indexer.eventBlockHeightKey, indexer.eventHeightAndIndexKey,
    indexer.eventChainIdKey, indexer.txHashPrefix, indexer.txHeightPrefix, indexer.txSenderPrefix,
    indexer.txRecipientPrefix, indexer.blockHashPrefix, indexer.blockHeightPrefix, indexer.qcHeightPrefix,
    indexer.doubleSignerPrefix, indexer.checkPointPrefix, indexer.eventAddressPrefix,
    indexer.eventHeightPrefix, indexer.eventChainIdPrefix]

theorem IdxKey.segsOK (k : IdxKey) (h : k.WF) : SegsOK k.segs := by
  unfold SegsOK
  cases k <;> simp_all [IdxKey.segs, IdxKey.WF, formatUint64_length]

/-- **No collision** between any two well-formed indexer keys that denote different segment lists -/
theorem IdxKey.encode_injective (k₁ k₂ : IdxKey) (h₁ : k₁.WF) (h₂ : k₂.WF)
    (h : k₁.encode = k₂.encode) : k₁.segs = k₂.segs := by
  rw [encode_eq, encode_eq] at h
  exact join_injective _ _ (segsOK _ h₁) (segsOK _ h₂) h

/-- **Prefix ranges**: a byte-prefix scan over an encoded key returns only keys whose leading segments
are that key's segments (e.g. the transactions of one height, the checkpoints of one committee) -/
theorem IdxKey.prefix_range (k₁ k₂ : IdxKey) (h₁ : k₁.WF) (h₂ : k₂.WF)
    (h : k₁.encode <+: k₂.encode) : k₁.segs <+: k₂.segs := by
  rw [encode_eq, encode_eq] at h
  exact join_prefix _ _ (segsOK _ h₁) (segsOK _ h₂) h

/-- scanning the transactions of height `h` never returns a transaction of another height -/
theorem tx_height_scan_exact (h h' i : UInt64)
    (e : indexer.txHeightKey h <+: indexer.txHeightAndIndexKey h' i) : h = h' := by
  have := IdxKey.prefix_range (.txHeight h) (.txHeightIndex h' i) trivial trivial e
  simp only [IdxKey.segs, List.cons_prefix_cons, true_and] at this
  exact formatUint64_injective _ _ this.1

/-- a double-signer record determines the validator and the height -/
theorem double_signer_components (a a' : Bytes) (h h' : UInt64) (ha : a.length ≤ 255) (ha' : a'.length ≤ 255)
    (e : indexer.doubleSignerHeightKey a h = indexer.doubleSignerHeightKey a' h') : a = a' ∧ h = h' := by
  have := IdxKey.encode_injective (.doubleSigner a h) (.doubleSigner a' h') ha ha' e
  simp only [IdxKey.segs, List.cons.injEq, and_true, true_and] at this
  exact ⟨this.1, formatUint64_injective _ _ this.2⟩

theorem block_height_vs_qc_height_disjoint (h h' : UInt64) : indexer.blockHeightKey h ≠ indexer.qcHeightKey h' := by
  intro e
  have := IdxKey.encode_injective (.blockHeight h) (.qcHeight h') trivial trivial e
  simp [IdxKey.segs] at this

example : (IdxKey.txSender (List.replicate 20 1) (indexer.txHeightAndIndexKey 3 4)).WF := by
  simp [IdxKey.WF, indexer.txHeightAndIndexKey, indexer.txHeightPrefix, joinLenPrefix, formatUint64]


/-! ### Absent components

`JoinLenPrefix` drops a nil segment without leaving a marker, so the builders above are injective on PRESENT
components only. What the real function writes for an absent recipient is `joinLenPrefix [[4], hik]`, which is
byte for byte the iteration prefix of the 20-byte address `hik` — the guards that keep the indexer from ever
building that key are pinned here, and `harness/c19/idxuse.go` queries the real indexer at exactly those addresses. -/

/-- why the guard is needed: the key of (no recipient, height-and-index key `hik`) is a prefix of every
recipient key of the address `hik` -/
theorem absent_recipient_aliases_address (hik k : Bytes) :
    joinLenPrefix [[4], hik] <+: (IdxKey.txRecipient hik k).encode := by
  rw [IdxKey.encode_eq]
  refine ⟨joinLenPrefix [k], ?_⟩
  simp [IdxKey.segs, joinLenPrefix]

/-- `Indexer.indexTxByRecipient` writes a recipient key only for a present recipient -/
theorem recipient_index_written_only_when_present : Gen.src_store_indexTxByRecipient = [
  "if recipient == nil {",
  "  return nil",
  "}",
  "return t.db.Set(t.txRecipientKey(recipient, heightAndIndexKey), bz)"
] := rfl

/-- `Indexer.DeleteTxsForHeight` builds the recipient key only under the `recipient != nil` guard -/
theorem recipient_index_deleted_only_when_present : Gen.src_store_DeleteTxsForHeight_recipient = [
  "    if recipient := tx.GetRecipient(); recipient != nil {",
  "      if e = t.db.Delete(t.txRecipientKey(recipient, heightAndIndexKey)); e != nil {"
] := rfl

end Canopy.C19Idx

/-!
## pool ids: a chain id and a pool kind never collide with another (chain id, kind)

Pool store keys are `KeyForPool(chainId + addend kind)`. The addends and the chain-id bound enforced by
`checkChainId` are regenerated from `fsm/key.go`'s var block; the id composition is injective on valid
chain ids exactly because each kind's id range `[1 + addend, MaxChainId + addend]` is disjoint from the
others — a change of `MaxChainId` or of an addend that makes two ranges touch breaks this theorem.
-/
namespace Canopy.C19Pool
open Canopy Canopy.Gen

inductive PoolKind | committee | holding | liquidity | escrow
deriving DecidableEq, Repr

def addend : PoolKind → Nat
  | .committee => 0
  | .holding => fsm.HoldingPoolAddend
  | .liquidity => fsm.LiquidityPoolAddend
  | .escrow => fsm.EscrowPoolAddend

def poolId (k : PoolKind) (chain : Nat) : Nat := chain + addend k

/-- chain ids accepted by `checkChainId`: not the reserved id 0, not above `MaxChainId` -/
def ValidChain (c : Nat) : Prop := 1 ≤ c ∧ c ≤ fsm.MaxChainId

/-- **pool_id_injective**: the pool id determines the pool kind and the chain -/
theorem pool_id_injective (k₁ k₂ : PoolKind) (c₁ c₂ : Nat) (h₁ : ValidChain c₁) (h₂ : ValidChain c₂)
    (h : poolId k₁ c₁ = poolId k₂ c₂) : k₁ = k₂ ∧ c₁ = c₂ := by
  unfold ValidChain fsm.MaxChainId at h₁ h₂
  cases k₁ <;> cases k₂ <;>
    simp only [poolId, addend, fsm.HoldingPoolAddend, fsm.LiquidityPoolAddend, fsm.EscrowPoolAddend] at h <;>
    first | (refine ⟨rfl, ?_⟩; omega) | omega

/-- no chain-scoped pool id reaches the DAO pool id `2*MaxUint16+1` -/
theorem pool_id_below_dao (k : PoolKind) (c : Nat) (h : ValidChain c) : poolId k c < 2 * 65535 + 1 := by
  unfold ValidChain fsm.MaxChainId at h
  cases k <;> simp only [poolId, addend, fsm.HoldingPoolAddend, fsm.LiquidityPoolAddend, fsm.EscrowPoolAddend] <;> omega

/-- hence the store keys of two different (kind, chain) pools differ -/
theorem pool_key_injective (k₁ k₂ : PoolKind) (c₁ c₂ : Nat) (h₁ : ValidChain c₁) (h₂ : ValidChain c₂)
    (h : fsm.KeyForPool (UInt64.ofNat (poolId k₁ c₁)) = fsm.KeyForPool (UInt64.ofNat (poolId k₂ c₂))) :
    k₁ = k₂ ∧ c₁ = c₂ := by
  have hb₁ := pool_id_below_dao k₁ c₁ h₁
  have hb₂ := pool_id_below_dao k₂ c₂ h₂
  simp only [fsm.KeyForPool, fsm.poolPrefix, joinLenPrefix, List.cons.injEq, true_and,
    List.append_cancel_left_eq, List.append_cancel_right_eq, and_true] at h
  have hu := formatUint64_injective _ _ h.2
  have : poolId k₁ c₁ = poolId k₂ c₂ := by
    have := congrArg UInt64.toNat hu
    simp only [UInt64.toNat_ofNat'] at this
    omega
  exact pool_id_injective k₁ k₂ c₁ c₂ h₁ h₂ this

example : ValidChain 1 ∧ ValidChain 16383 := by unfold ValidChain fsm.MaxChainId; omega

end Canopy.C19Pool
