import Canopy.Proof.StoreIter
/-!
# C10 — store read semantics and immutability of committed history  (work in progress: v0)
-/
namespace Canopy.C10
open Canopy Canopy.Store

/-- all four `VersionedIterator` strategies yield one entry per user-key group -/
theorem viter_groups (db : DB) (v : Nat) (hvm : v ≤ maxVer) (pfx : Bytes) (reverse seek : Bool)
    (gs : List G) (hW : WFG gs) (hb : bound db pfx (prefixEnd pfx) = flat gs) :
    (VS.mk db v).iter pfx reverse seek =
      if reverse then gs.reverse.filterMap (G.pick v) else gs.filterMap (G.pick v) :=
  VS.iter_groups db v hvm pfx reverse seek gs hW hb

end Canopy.C10
