import Canopy.Proof.StoreState
import Canopy.Proof.IndexerCache
import Canopy.Gen.Store
import Canopy.Props.C19
import Canopy.Model.SstFilter
/-!
# C10 — store read semantics and immutability of committed history

*Spec* (`Canopy/Model/Store.lean`): a versioned map `m : VMap` = the set of committed writes
`(key, version, value?)`; `readAt m v k` = the write to `k` with the greatest version ≤ `v`
(`none` when absent or a deletion); `specView layers f` = the pending operations of every
transaction layer applied on top of `f` (own writes visible, deletes hide); `IsScan f p rev out` =
`out` is strictly ordered by key (ascending, or descending for `rev`) and contains exactly the pairs
`(k, x)` with `p` a byte-prefix of `k` and `f k = some x` — i.e. complete, ordered, duplicate-free.

*Implementation model* (same file, executable, run against the real `store.Store` on every check):
the pebble key space as a sorted list of `userKey ++ ^version ↦ tombstone ++ value`;
`VersionedStore.getRaw`; the `VersionedIterator` with its four strategies on a pebble cursor;
`Txn` overlays nested arbitrarily with the `TxnIterator` merge; `Commit` (LSS at 2^64-1 + HSS at
`version+1` + tombstone purge) as ONE batch; `NewReadOnly`; `Copy`; `Rollback`.

*Hypothesis carried explicitly* — `WFKeys K`: every key the store is used with is non-empty,
length-prefix decodable, at most 245 bytes, and **no key is a proper byte-prefix of another**; and
`PfxOK K p`: no key is a *proper* prefix of an iteration prefix. This is exactly what makes all
versions of one user key contiguous in the key space; `iter_wrong_without_WFKeys` shows it is
necessary, `fsm_stored_keys_prefix_free` shows every stored FSM key family satisfies it.
-/
namespace Canopy.C10
open Canopy Canopy.Store

/-! ## every reachable state represents a versioned map -/

/-- Starting from the empty store, any sequence of operations over keys of `K` leads to a state whose
key space represents some versioned map `m` (`Inv`: under `h/` every committed write at its version,
under `s/` the live keys of the current version; all pending layers sorted overlays). -/
theorem reachable_inv (K : Bytes → Prop) (hK : WFKeys K) (ops : List Op) (hops : ∀ op ∈ ops, OpOK K op)
    (hb : ops.length + 1 < maxVer) : ∃ m, Inv K (runOps {} ops) m := by
  obtain ⟨m, hi, _⟩ := (Inv.init K).run hK ops hops (by simpa using hb) 0 (Nat.le_refl _)
    (fun op _ => by cases op <;> simp [KeepsHistory])
  exact ⟨m, hi⟩

/-! ## point reads and iteration refine the versioned map -/

/-- **`get_refines`** — the store and any nesting of `NewTxn()` transactions above it: a point read
returns exactly the versioned map as of the current version with every pending layer applied. -/
theorem get_refines (K : Bytes → Prop) (hK : WFKeys K) (s : State) (m : VMap) (hi : Inv K s m)
    (k : Bytes) (hk : K k) :
    s.handle.get k = some (specView s.main (readAt m s.version) k) :=
  (hi.reads_main hK).get hK hi.main hk

/-- **`iter_refines`** — forward and reverse prefix iteration through any nesting of transactions
(merged `TxnIterator`s over whichever `VersionedIterator` strategy is in use) yields *the* scan of that
same view: strictly ordered, complete, duplicate-free. -/
theorem iter_refines (K : Bytes → Prop) (hK : WFKeys K) (s : State) (m : VMap) (hi : Inv K s m)
    (p : Bytes) (hp : PfxOK K p) (hpk : keyOK p = true) (reverse : Bool) :
    ∃ out, s.handle.iter p reverse = some out ∧
      KeysSorted reverse (out.map (·.1)) ∧
      ∀ k x, (k, x) ∈ out ↔ (hasPrefix p k = true ∧ specView s.main (readAt m s.version) k = some x) :=
  (hi.reads_main hK).iter hK hi.main hp hpk reverse

/-- the same for read-only views `NewReadOnly(v)`: they show the versioned map as of `v` -/
theorem readOnly_refines (K : Bytes → Prop) (hK : WFKeys K) (s : State) (m : VMap) (hi : Inv K s m)
    (v : Nat) (hv : v ≤ maxVer) :
    (∀ k, K k → (s.readOnly v).get k = some (readAt m v k)) ∧
    (∀ p reverse, PfxOK K p → keyOK p = true →
      ∃ out, (s.readOnly v).iter p reverse = some out ∧ IsScan (readAt m v) p reverse out) :=
  ⟨fun _ hk => hi.readOnly_get hK hv hk, fun _ reverse hp hpk => hi.readOnly_iter hK hv hp hpk reverse⟩

/-- the same for store copies (`Store.Copy()`, which drops the `seek` flag and therefore runs the
linear strategies) and held read-only views: each shows the versioned map of the snapshot it was
taken from, with its own pending operations applied. -/
theorem copy_refines (K : Bytes → Prop) (hK : WFKeys K) (s : State) (m : VMap) (hi : Inv K s m)
    (h : Handle) (hh : h ∈ s.copies ++ s.held) :
    ∃ m' v', (∀ k, K k → h.get k = some (specView h.layers (readAt m' v') k)) ∧
      (∀ p reverse, PfxOK K p → keyOK p = true →
        ∃ out, h.iter p reverse = some out ∧ IsScan (specView h.layers (readAt m' v')) p reverse out) := by
  obtain ⟨⟨m', v', hr⟩, hl⟩ := hi.side h hh
  exact ⟨m', v', fun _ hk => hr.get hK hl hk, fun _ reverse hp hpk => hr.iter hK hl hp hpk reverse⟩

/-! ## what the view is: own writes visible, deletes hide, flush transparent, discarded work vanishes -/

theorem own_write_visible (ov : Overlay) (rest : List Layer) (f : Bytes → Option Bytes) (k v : Bytes) (seek : Bool) :
    specView ({ ov := smSet ov k (.set v), seek := seek } :: rest) f k = some v := by
  simp [specView, applyOv_write, TOp.read]

theorem delete_hides (ov : Overlay) (rest : List Layer) (f : Bytes → Option Bytes) (k : Bytes) (seek : Bool) :
    specView ({ ov := smSet ov k .del, seek := seek } :: rest) f k = none := by
  simp [specView, applyOv_write, TOp.read]

theorem other_keys_untouched (ov : Overlay) (rest : List Layer) (f : Bytes → Option Bytes) (k k' : Bytes) (op : TOp)
    (seek : Bool) (h : k' ≠ k) :
    specView ({ ov := smSet ov k op, seek := seek } :: rest) f k' = specView ({ ov := ov, seek := seek } :: rest) f k' := by
  simp [specView, applyOv_write, h]

theorem flush_transparent {top below : Layer} {rest ls' : List Layer} (hs : SSorted top.ov)
    (hf : flushLayers (top :: below :: rest) = some ls') (f : Bytes → Option Bytes) :
    specView ls' f = specView (top :: below :: rest) f := specView_flush hs hf f

theorem discarded_work_vanishes (top : Layer) (rest : List Layer) (f : Bytes → Option Bytes) :
    specView ({ top with ov := [] } :: rest) f = specView rest f := specView_discard top rest f

/-- a scan is determined by the view it scans -/
theorem scan_unique {f : Bytes → Option Bytes} {p : Bytes} {reverse : Bool} {o1 o2 : List (Bytes × Bytes)}
    (h1 : IsScan f p reverse o1) (h2 : IsScan f p reverse o2) : o1 = o2 := isScan_unique h1 h2

/-! ## the physical layer: `VersionedStore.get` and all four iterator strategies -/

/-- `VersionedStore.Get` on any well-formed key space (`WFL`: sorted, keys `userKey ++ ^version`, user
keys prefix-free): the newest version ≤ the read version, tombstones hidden. -/
theorem vget_refines (db : DB) (h : WFL db) (v : Nat) (hvm : v ≤ maxVer) (uk : Bytes) (hc : KeyCompat db uk) (x : Bytes) :
    (VS.mk db v).get uk = some x ↔ Sees db v uk x := VS.get_sees db h v hvm uk hc x

/-- **each of the four strategies** — `seek`/linear × forward/reverse — of the `VersionedIterator`
(`first`, `advanceToNextKey`, `rewindToLatestVersion`, `step` on a pebble cursor), for **every**
version layout: the output is strictly ordered and contains exactly the user keys under the prefix
whose newest version ≤ the read version is alive, each once. -/
theorem viter_refines (db : DB) (h : WFL db) (v : Nat) (hvm : v ≤ maxVer) (pfx : Bytes) (hq : PrefixCompat db pfx)
    (reverse seek : Bool) :
    KeysSorted reverse (((VS.mk db v).iter pfx reverse seek).map (·.1)) ∧
    ∀ uk x, (uk, x) ∈ (VS.mk db v).iter pfx reverse seek ↔ (hasPrefix pfx uk = true ∧ Sees db v uk x) :=
  VS.iter_sees db h v hvm pfx hq reverse seek

/-- the strategies agree with each other: seek and linear give the same list, reverse gives the
reversed list -/
theorem strategies_agree (db : DB) (h : WFL db) (v : Nat) (hvm : v ≤ maxVer) (pfx : Bytes) (hq : PrefixCompat db pfx)
    (reverse : Bool) : (VS.mk db v).iter pfx reverse true = (VS.mk db v).iter pfx reverse false := by
  have a := VS.iter_sees db h v hvm pfx hq reverse true
  have b := VS.iter_sees db h v hvm pfx hq reverse false
  exact sorted_mem_unique reverse _ _ a.1 b.1 fun e => by obtain ⟨k, x⟩ := e; rw [a.2, b.2]

/-! ## committed history is immutable; LSS = HSS -/

/-- **`history_immutable`** — for every `v` ≤ the committed version and every later sequence of
writes, deletes, nested transactions, flushes, discards, copies, commits, and rollbacks to heights
≥ `v`: every point read and every forward/reverse prefix iteration of a read-only view at `v` returns
what it returned before. -/
theorem history_immutable (K : Bytes → Prop) (hK : WFKeys K) (s : State) (m : VMap) (hi : Inv K s m)
    (ops : List Op) (hops : ∀ op ∈ ops, OpOK K op) (hver : s.version + ops.length + 1 < maxVer)
    (v : Nat) (hv : v ≤ s.version) (hkeep : ∀ op ∈ ops, KeepsHistory v op) :
    (∀ k, K k → ((runOps s ops).readOnly v).get k = (s.readOnly v).get k) ∧
    (∀ p reverse, PfxOK K p → keyOK p = true →
      ((runOps s ops).readOnly v).iter p reverse = (s.readOnly v).iter p reverse) :=
  hi.history hK ops hops hver v hv hkeep

/-- the spec-level content of `history_immutable`: a commit adds only a newer version, a rollback to
`t ≥ v` removes only versions above `v` -/
theorem readAt_stable_commit {m : VMap} {ov : Overlay} {ver : Nat} (hu : Uniq m) (hb : VersBound m ver)
    (hs : SSorted ov) {v : Nat} (hv : v ≤ ver) (k : Bytes) :
    readAt (m.commit ov (ver + 1)) v k = readAt m v k := readAt_commit_old hu hb hs hv k

theorem readAt_stable_rollback {m : VMap} (hu : Uniq m) {t v : Nat} (hv : v ≤ t) (k : Bytes) :
    readAt (m.rollback t) v k = readAt m v k := readAt_rollback hu hv k

/-- **`lss_eq_hss`** — in every reachable state the latest-state partition (what the store itself and
`NewReadOnly(version)` read: `s/` at version 2^64-1, tombstones purged, patched by `Rollback`) shows
exactly what the historical partition shows at the current version (`h/` read at `version`): the two
stores never diverge. -/
theorem lss_eq_hss (K : Bytes → Prop) (hK : WFKeys K) (s : State) (m : VMap) (hi : Inv K s m) :
    let lss : Handle := { snap := s.db, rver := maxVer, pfx := lssPrefix, layers := [{}] }
    let hss : Handle := { snap := s.db, rver := s.version, pfx := hssPrefix, layers := [{}] }
    (∀ k x, Sees s.db maxVer (lssPrefix ++ k) x ↔ Sees s.db s.version (hssPrefix ++ k) x) ∧
    (∀ k, K k → lss.get k = hss.get k) ∧
    (∀ p reverse, PfxOK K p → keyOK p = true → lss.iter p reverse = hss.iter p reverse) := by
  have hvm : s.version ≤ maxVer := by have := hi.rep.ver_lt; omega
  have rl := hi.rep.reads_lss hK [{}]
  have rh := hi.rep.reads_hss hK hvm [{}]
  refine ⟨fun k x => by rw [hi.rep.sees_lss, hi.rep.sees_hss], ?_, ?_⟩
  · intro k hk
    rw [rl.get hK (layersOK_empty K) hk, rh.get hK (layersOK_empty K) hk]
  · intro p reverse hp hpk
    obtain ⟨o1, h1, s1⟩ := rl.iter hK (layersOK_empty K) hp hpk reverse
    obtain ⟨o2, h2, s2⟩ := rh.iter hK (layersOK_empty K) hp hpk reverse
    rw [h1, h2, isScan_unique s1 s2]

/-! ## `WFKeys` is necessary, and the real key families satisfy it -/

/-- the witness replayed on the real store by the Go driver (`harness/c10`, case
`witness-key-is-prefix-of-key`): keys `0161`, `01610162`, `01610163` — the first a byte-prefix of the
others — written and committed. -/
def witnessDb : DB :=
  applyBatch [] (commitBatch
    (smSet (smSet (smSet [] [1, 97] (.set [0x11])) [1, 97, 1, 98] (.set [0x22])) [1, 97, 1, 99] (.set [0x33])) 1)

/-- **without `WFKeys` iteration is wrong**: forward seek iteration over the latest state yields only
`0161` (it seeks to `prefixEnd(0161)`, past every key that extends it); the historical view yields
the three keys out of byte order; reverse seek over the historical view yields only `0161`. The
versioned map holds all three. -/
theorem iter_wrong_without_WFKeys :
    (VS.mk witnessDb maxVer).iter (lssPrefix ++ [1, 97]) false true = [(lssPrefix ++ [1, 97], [0x11])] ∧
    ((VS.mk witnessDb 1).iter (hssPrefix ++ [1, 97]) false true).map (·.1) =
      [hssPrefix ++ [1, 97, 1, 98], hssPrefix ++ [1, 97, 1, 99], hssPrefix ++ [1, 97]] ∧
    (VS.mk witnessDb 1).iter (hssPrefix ++ [1, 97]) true true = [(hssPrefix ++ [1, 97], [0x11])] ∧
    (VS.mk witnessDb 1).get (hssPrefix ++ [1, 97, 1, 98]) = some [0x22] := by
  decide +kernel

/-- the FSM keys that are actually stored (single-segment families are stored under their prefix) -/
def Stored : C19.FsmKey → Prop
  | .supplyPrefix | .lastProposersPrefix | .committeesDataPrefix => True
  | .pool _ | .nonSigner _ | .order _ _ | .unstaking _ _ | .paused _ _ | .committee _ _ _
  | .delegate _ _ _ | .retiredCommittee _ | .account _ | .validator _ | .lockedBatch _ | .nextBatch _ => True
  | _ => False

/-- **the real key shapes guarantee `WFKeys`**: every stored FSM key family has a fixed number of
length-prefixed segments, so (over the builders regenerated from `fsm/key.go`) no stored key is a
proper byte-prefix of another. -/
theorem fsm_stored_keys_prefix_free (k1 k2 : C19.FsmKey) (h1 : Stored k1) (h2 : Stored k2)
    (w1 : k1.WF) (w2 : k2.WF) (hp : k1.encode <+: k2.encode) : k1.encode = k2.encode := by
  have hs := C19.FsmKey.prefix_range k1 k2 w1 w2 hp
  rw [C19.FsmKey.encode_eq, C19.FsmKey.encode_eq]
  congr 1
  cases k1 <;> cases k2 <;> simp_all [Stored, C19.FsmKey.segs, List.cons_prefix_cons]

/-! ## blocks, QCs and transactions: the indexer partition and the process-wide block cache

`Canopy/Model/Indexer.lean`: `IndexBlock` / `IndexQC` / `IndexTx` into the `i/` partition of the same
versioned key space (committed in the same batch, pruned by `Rollback`), the reads
`GetBlockByHeight` / `GetBlockHeaderByHeight` / `GetBlockByHash` / `GetQCByHeight` / `GetTxByHash` /
`GetTxsByHeight` on the store object and on read-only views, and `blockCache` — one LRU of 64 entries
keyed by height for the whole process. `IInv K IK s m`: the state invariant of C10 plus: every entry of
the indexer partition is a key of `IK` (prefix-free, `WFKeys IK`) committed at a version in `[1, version]`. -/

/-- the block cache as the source has it: created with a `string` key; `IndexBlock` adds under the
block's hash key; each of the three by-height readers FIRST resolves `height → hashKey` through its own
view (`t.db.Get(t.blockHeightKey(height))`) and only then touches the cache, always under
`string(hashKey)`; only `GetBlockByHeight` adds (full blocks); `GetBlockByHash` bypasses the cache and
`GetQCByHeight` goes through `GetBlockByHeight`; the one `Add` of a reader is guarded by
`!t.hasPendingWrites()` (no pending operation in the indexer txn). -/
theorem block_cache_keyed_by_hash_key :
    Gen.Store.blockCacheDecl = "lru.New[string, *lib.BlockResult](64)" ∧
    (Gen.Store.blockCacheUse.filter (·.1 = "IndexBlock")).map (·.2) =
      ["blockCache.Add(string(t.blockHashKey(b.BlockHeader.Hash)), b)"] ∧
    (Gen.Store.blockCacheUse.filter (·.1 = "GetBlockByHeight")).map (·.2) =
      ["t.db.Get(t.blockHeightKey(height))", "t.getBlock(hashKey, true)", "blockCache.Get(string(hashKey))",
       "t.getBlock(hashKey, true)", "blockCache.Add(string(hashKey), block)"] ∧
    (Gen.Store.blockCacheUse.filter (·.1 = "GetBlockHeaderByHeight")).map (·.2) =
      ["t.db.Get(t.blockHeightKey(height))", "blockCache.Get(string(hashKey))", "t.getBlock(hashKey, false)"] ∧
    (Gen.Store.blockCacheUse.filter (·.1 = "getBlockForPage")).map (·.2) =
      ["t.db.Get(t.blockHeightKey(height))", "blockCache.Get(string(hashKey))", "t.getBlock(hashKey, transactions)"] ∧
    (Gen.Store.blockCacheUse.filter (·.1 = "GetBlockByHash")).map (·.2) = ["t.getBlock(t.blockHashKey(hash), true)"] ∧
    (Gen.Store.blockCacheUse.filter (·.1 = "GetQCByHeight")).map (·.2) = ["t.GetBlockByHeight(height)"] ∧
    Gen.Store.blockCacheAddGuards = ["!t.hasPendingWrites()"] ∧
    Gen.Store.hasPendingWritesReturns = "len(t.db.txn.ops) != 0" := by decide

/-- the cache keying of the model is read off the source: by hash key exactly when the cache is created
with a `string` key and every reader looks the height up in its own view before any cache call -/
def cacheKeyingOfSource : CacheKeying :=
  if Gen.Store.blockCacheDecl = "lru.New[string, *lib.BlockResult](64)" ∧
     (Gen.Store.blockCacheUse.filter (·.1 = "IndexBlock")).map (·.2) =
       ["blockCache.Add(string(t.blockHashKey(b.BlockHeader.Hash)), b)"] ∧
     (Gen.Store.blockCacheUse.filter (·.1 = "GetBlockByHeight")).map (·.2) =
       ["t.db.Get(t.blockHeightKey(height))", "t.getBlock(hashKey, true)", "blockCache.Get(string(hashKey))",
        "t.getBlock(hashKey, true)", "blockCache.Add(string(hashKey), block)"] ∧
     (Gen.Store.blockCacheUse.filter (·.1 = "GetBlockHeaderByHeight")).map (·.2) =
       ["t.db.Get(t.blockHeightKey(height))", "blockCache.Get(string(hashKey))", "t.getBlock(hashKey, false)"] ∧
     (Gen.Store.blockCacheUse.filter (·.1 = "getBlockForPage")).map (·.2) =
       ["t.db.Get(t.blockHeightKey(height))", "blockCache.Get(string(hashKey))", "t.getBlock(hashKey, transactions)"] ∧
     Gen.Store.blockCacheAddGuards = ["!t.hasPendingWrites()"] ∧
     Gen.Store.hasPendingWritesReturns = "len(t.db.txn.ops) != 0"
  then .byHashKey else .byHeight

theorem cache_keying_is_by_hash_key : cacheKeyingOfSource = .byHashKey := by decide

/-- every state reached from the empty process by operations over keys of `K` / index keys of `IK` -/
theorem reachable_iinv (K IK : Bytes → Prop) (hK : WFKeys K) (mode : CacheKeying) (ops : List IOp) (hops : ∀ op ∈ ops, IOpOK K IK op)
    (hb : ops.length + 1 < maxVer) : ∃ m, IInv K IK (runIOps mode {} ops) m := by
  obtain ⟨m, hi, _⟩ := (IInv.init K IK).run hK mode ops hops (by simpa using hb) 0 (Nat.le_refl _)
    (fun op _ => by cases op with
      | store o => cases o <;> simp [IKeeps, KeepsHistory]
      | _ => trivial)
  exact ⟨m, hi⟩

/-- **`index_history_immutable`** — what a read-only view at a committed version `v` reads from the
DATABASE part of the indexer never changes, whatever happens later (indexing, commits, abandoned
commits, rollbacks to heights ≥ `v`, any reads): every point read of any key, the per-height
transaction list, and every block assembled from them. -/
theorem index_history_immutable (K IK : Bytes → Prop) (hK : WFKeys K) (hIK : WFKeys IK) (mode : CacheKeying)
    (hpfx : ∀ h, PfxOK IK (txHeightKey h)) (s : IState) (m : VMap) (hi : IInv K IK s m) (ops : List IOp)
    (hops : ∀ op ∈ ops, IOpOK K IK op) (hver : s.st.version + ops.length + 1 < maxVer)
    (v : Nat) (hv : v ≤ s.st.version) (hkeep : ∀ op ∈ ops, IKeeps v op) :
    (∀ k, ((runIOps mode s ops).ro v).getB k = (s.ro v).getB k) ∧
    (∀ h, ((runIOps mode s ops).ro v).txsByHeight h = (s.ro v).txsByHeight h) ∧
    (∀ hk t, ((runIOps mode s ops).ro v).getBlock hk t = (s.ro v).getBlock hk t) ∧
    (∀ h, ((runIOps mode s ops).ro v).dbBlockByHeight h = (s.ro v).dbBlockByHeight h) ∧
    (∀ h, ((runIOps mode s ops).ro v).dbQCByHeight h = (s.ro v).dbQCByHeight h) ∧
    (∀ hash, ((runIOps mode s ops).ro v).getBlockByHash hash = (s.ro v).getBlockByHash hash) ∧
    (∀ hash, ((runIOps mode s ops).ro v).getTxByHash hash = (s.ro v).getTxByHash hash) := by
  obtain ⟨m', hi', _, hle, _, hag⟩ := hi.run hK mode ops hops hver v hv hkeep
  have hmv : maxVer = 18446744073709551615 := rfl
  exact iview_agree hIK hi'.idx hi.idx (by omega) (by omega) (by omega) hag hpfx

/-- the real index keys (32-byte hashes) satisfy the hypotheses -/
theorem index_keys_wf : WFKeys IdxKey ∧ ∀ h, PfxOK IdxKey (txHeightKey h) := ⟨idxKey_wf, idxKey_pfx⟩

/-! ## iteration through the block store's indexer sees the block's own pending index writes -/

/-- how the indexer transactions are built, read off `store/store.go`: the block-level indexer
(`NewStoreWithDB`, `Reset`) and the per-transaction nested one (`NewTxn`) with `sort = true` — their pending
operations are in the sorted tree the iterators merge — and the read-only one (`NewReadOnly`, never written)
with `sort = false` -/
def idxSortOfSource : Bool :=
  decide (Gen.Store.indexerTxnSort = [("NewStoreWithDB", "true"), ("NewReadOnly", "false"), ("NewTxn", "true"), ("Reset", "true")])

theorem indexer_txns_sorted : idxSortOfSource = true := by decide

theorem IState.apply_idxSort (mode : CacheKeying) (s : IState) (op : IOp) : (s.apply mode op).idxSort = s.idxSort := by
  cases op with
  | store o =>
    cases o <;> simp only [IState.apply, IState.commit, IState.rollback] <;> repeat (first | rfl | split)
  | indexBlock h hash txs => rfl
  | indexQC h bh => rfl
  | reset => simp only [IState.apply, IState.reset]; split <;> rfl
  | purgeCache => rfl
  | getBlock vw h hdr => rfl
  | getQC vw h => rfl
  | getBlocks vw pn pp => rfl

theorem runIOps_idxSort (mode : CacheKeying) (ops : List IOp) : ∀ s : IState, (runIOps mode s ops).idxSort = s.idxSort := by
  induction ops with
  | nil => intro s; rfl
  | cons op ops ih => intro s; exact (ih _).trans (IState.apply_idxSort mode s op)

/-- **`index_own_writes_visible`** — in every reachable state, iterating the indexer of the store object (the
block's store: what `GetTxsByHeight`, `GetAllCheckpoints`, `GetMostRecentCheckpoint`, `GetDoubleSigners`,
`DeleteCheckpointsForChain` … run on while a block is being applied) yields *the* scan — strictly ordered,
complete, duplicate-free — of the committed index with the block's pending index operations applied: what the
block has indexed so far is there, what it has deleted is hidden — the same view its point reads (`getB`) have.
Depends on `indexer_txns_sorted`: the block-level indexer transaction keeps its pending operations sorted. -/
theorem index_own_writes_visible (K IK : Bytes → Prop) (hK : WFKeys K) (hIK : WFKeys IK) (mode : CacheKeying)
    (ops : List IOp) (hops : ∀ op ∈ ops, IOpOK K IK op) (hb : ops.length + 1 < maxVer) (p : Bytes) (hp : PfxOK IK p) :
    let s := runIOps mode { idxSort := idxSortOfSource } ops
    IsScanR (applyOvR s.idxOv fun k x => Sees s.idb s.st.version (idxPrefix ++ k) x) p false (s.live.iter p) ∧
    ∀ k, s.live.getB k = match smGet s.idxOv k with
      | some op => (op.read).getD []
      | none => ((VS.mk s.idb s.st.version).get (idxPrefix ++ k)).getD [] := by
  rw [indexer_txns_sorted]
  simp only
  obtain ⟨m, hi⟩ := reachable_iinv K IK hK mode ops hops hb
  have hsorted := runIOps_sorted_idxOv mode ops {} List.Pairwise.nil
  have hsort := runIOps_idxSort mode ops {}
  have hver : (runIOps mode {} ops).st.version ≤ maxVer := by have := hi.st.rep.ver_lt; omega
  refine ⟨?_, fun k => rfl⟩
  have := sorted_txn_iter_scan hIK hi.idx hver _ hver _ hsorted hi.pend p hp
  simpa [IState.live, hsort] using this

/-- a block being applied: height 1 is indexed with one transaction, not yet committed -/
def pendingBlock : List IOp := [.indexQC 1 [0xB1], .indexBlock 1 [0xB1] [[0x71]]]

/-- **were the block-level indexer transaction built with `sort = false`** (as it was), iteration through the
store would not show the block's pending index writes although point reads do: the block's transaction is
found by hash, and is missing from the per-height list — with `sort = true` it is listed. -/
theorem unsorted_indexer_txn_hides_pending_writes_from_iteration :
    (let s := runIOps .byHashKey { idxSort := false } pendingBlock
     s.live.getTxByHash [0x71] = [0x71] ∧ s.live.txsByHeight 1 = []) ∧
    (let s := runIOps .byHashKey { idxSort := idxSortOfSource } pendingBlock
     s.live.getTxByHash [0x71] = [0x71] ∧ s.live.txsByHeight 1 = [[0x71]]) := by
  rw [indexer_txns_sorted]
  refine ⟨by decide +kernel, by decide +kernel, ?_⟩
  generalize hs : runIOps CacheKeying.byHashKey { idxSort := true } pendingBlock = s
  subst hs
  have hne : (runIOps CacheKeying.byHashKey { idxSort := true } pendingBlock).live.ipend ≠ [] := by decide +kernel
  have h1 : txnItems (runIOps CacheKeying.byHashKey { idxSort := true } pendingBlock).live.ipend (txHeightKey 1) false = [(txHeightIndexKey 1 0, TOp.set (txHashKey [0x71]))] := by
    decide +kernel
  have h2 : (runIOps CacheKeying.byHashKey { idxSort := true } pendingBlock).live.dbIter (txHeightKey 1) = [] := by decide +kernel
  have hit : (runIOps CacheKeying.byHashKey { idxSort := true } pendingBlock).live.iter (txHeightKey 1) = [(txHeightIndexKey 1 0, txHashKey [0x71])] := by
    unfold IView.iter
    cases h : (runIOps CacheKeying.byHashKey { idxSort := true } pendingBlock).live.ipend with
    | nil => exact absurd h hne
    | cons e r =>
      simp only
      rw [← h, h1, h2]
      simp [mergeRun]
  unfold IView.txsByHeight
  rw [hit]
  decide +kernel

/-! ## page queries (`GetBlocks`) read the cache and never fill it -/

/-- whether `getBlockForPage` fills the cache, read off the source: its calls are the view lookup, the cache
`Get`, and `getBlock` — no `blockCache.Add`; `GetBlocks` calls it with transactions, `setBlocksTook` header-only -/
def pageFillOfSource : PageFill :=
  if (Gen.Store.blockCacheUse.filter (·.1 = "getBlockForPage")).map (·.2) =
       ["t.db.Get(t.blockHeightKey(height))", "blockCache.Get(string(hashKey))", "t.getBlock(hashKey, transactions)"] ∧
     (Gen.Store.blockCacheUse.filter (·.1 = "GetBlocks")).map (·.2) = ["t.getBlockForPage(newest-uint64(index), true)"] ∧
     (Gen.Store.blockCacheUse.filter (·.1 = "setBlocksTook")).map (·.2) = ["t.getBlockForPage(height-1, false)"]
  then .none else .addsLoaded

theorem page_query_never_fills_cache : pageFillOfSource = .none := by decide

/-- **`page_query_transparent`** — a page query changes nothing a later reader can observe: whatever the cache
held under any key it still holds (entries are at most touched), so with `CInv.apply` every theorem above
(`block_cache_transparent`, `block_history_immutable`, `qc_history_immutable`) holds for histories with
`GetBlocks` anywhere; and each block of a page is what `GetBlockByHeight` answers for that height — for a
read-only view: what the view's own data says (`block_cache_transparent`). -/
theorem page_query_transparent (c : Cache) (v : IView) (pn pp : Nat) :
    (∀ k, (getBlocks pageFillOfSource c v pn pp).2.lookup k = c.lookup k) ∧
    (∀ h, (getBlockForPage pageFillOfSource c v h true).1 = (getBlockByHeight .byHashKey c v h).1) := by
  rw [page_query_never_fills_cache]
  refine ⟨fun k => getBlocks_lookup c v pn pp k, fun h => ?_⟩
  unfold getBlockForPage getBlockByHeight
  simp only
  by_cases he : (v.getB (blockHeightKey h)).isEmpty = true
  · simp [he]
  · simp only [he, Bool.false_eq_true, if_false]
    cases c.lookup (v.getB (blockHeightKey h)) <;> rfl

/-! ### through the cache: full strength on the code as it stands

`Disc s op` / `DiscRun K s ops` (`Proof/IndexerCache.lean`) is what the node's commit path guarantees
about a history: a block is indexed once per commit, for the next height, under a hash that no stored
or cached block uses, with 32-byte pairwise distinct transaction hashes not indexed before (block and
transaction hashes identify their content; `CommitCertificate` indexes exactly one block per commit);
heights and versions are `uint64`. Reads, quorum certificates, abandoned commits (`Reset`), cache
purges, rollbacks and every store operation are unrestricted. -/

/-- every state a disciplined history reaches satisfies the process invariant `CInv`: C10's store
invariant, the index partition's representation and discipline (`DBDisc`), cache coherence (`CacheOK`:
a cached block whose header is committed is the block the database part assembles) and the shape of the
pending index operations (`PendOK`) -/
theorem reachable_cinv (K : Bytes → Prop) (hK : WFKeys K) (ops : List IOp) (hd : DiscRun K {} ops)
    (hb : ops.length + 1 < maxVer) : ∃ m pb, CInv K (runIOps .byHashKey {} ops) m pb :=
  ((CInv.init K).run hK ops hd (by simpa using hb)).1

/-- **the block cache is transparent**: on every reachable state, `GetBlockByHeight` and
`GetQCByHeight` of a read-only view answer — through the process-wide cache — exactly what the view's
own database part says: never a block the view has not committed, never a stale or truncated one -/
theorem block_cache_transparent (K : Bytes → Prop) (s : IState) (m : VMap) (pb : Option (Bytes × List Bytes))
    (hi : CInv K s m pb) (v h : Nat) (hv : v ≤ maxVer) (hh : h < B64) :
    (getBlockByHeight cacheKeyingOfSource s.cache (s.ro v) h).1 = (s.ro v).dbBlockByHeight h ∧
    (getQCByHeight cacheKeyingOfSource s.cache (s.ro v) h).1 =
      (((s.ro v).dbQCByHeight h).1, ((s.ro v).dbQCByHeight h).2, (s.ro v).dbBlockByHeight h) := by
  rw [cache_keying_is_by_hash_key]
  exact hi.transparent hv hh

/-- **`block_history_immutable`**, full strength, through the cache: for every `v` ≤ the committed
version and every later disciplined history — indexing, commits, abandoned commits, reads by any view
(which fill the cache), cache purges, rollbacks to heights ≥ `v`, any store operations — what
`GetBlockByHeight` answers to a read-only view at `v`, for every height, and what `GetBlockByHash`
answers, is what it answered before. -/
theorem block_history_immutable (K : Bytes → Prop) (hK : WFKeys K) (s : IState) (m : VMap)
    (pb : Option (Bytes × List Bytes)) (hi : CInv K s m pb) (ops : List IOp) (hd : DiscRun K s ops)
    (hver : s.st.version + ops.length + 1 < maxVer) (v : Nat) (hv : v ≤ s.st.version)
    (hkeep : ∀ op ∈ ops, IKeeps v op) (h : Nat) (hh : h < B64) (hash : Bytes) :
    (getBlockByHeight cacheKeyingOfSource (runIOps cacheKeyingOfSource s ops).cache ((runIOps cacheKeyingOfSource s ops).ro v) h).1 =
      (getBlockByHeight cacheKeyingOfSource s.cache (s.ro v) h).1 ∧
    ((runIOps cacheKeyingOfSource s ops).ro v).getBlockByHash hash = (s.ro v).getBlockByHash hash := by
  rw [cache_keying_is_by_hash_key]
  obtain ⟨⟨m', pb', hi'⟩, hops⟩ := hi.run hK ops hd hver
  have hvm : v ≤ maxVer := by have := hi.inv.st.rep.ver_lt; omega
  have hdb := index_history_immutable K IdxKey hK idxKey_wf .byHashKey idxKey_pfx s m hi.inv ops hops hver v hv hkeep
  rw [(hi'.transparent hvm hh).1, (hi.transparent hvm hh).1]
  exact ⟨hdb.2.2.2.1 h, hdb.2.2.2.2.2.1 hash⟩

/-- **`qc_history_immutable`**, full strength: what `GetQCByHeight` answers to a read-only view at `v`
— the certificate and the block attached to it through the cache -/
theorem qc_history_immutable (K : Bytes → Prop) (hK : WFKeys K) (s : IState) (m : VMap)
    (pb : Option (Bytes × List Bytes)) (hi : CInv K s m pb) (ops : List IOp) (hd : DiscRun K s ops)
    (hver : s.st.version + ops.length + 1 < maxVer) (v : Nat) (hv : v ≤ s.st.version)
    (hkeep : ∀ op ∈ ops, IKeeps v op) (h : Nat) (hh : h < B64) :
    (getQCByHeight cacheKeyingOfSource (runIOps cacheKeyingOfSource s ops).cache ((runIOps cacheKeyingOfSource s ops).ro v) h).1 =
      (getQCByHeight cacheKeyingOfSource s.cache (s.ro v) h).1 := by
  rw [cache_keying_is_by_hash_key]
  obtain ⟨⟨m', pb', hi'⟩, hops⟩ := hi.run hK ops hd hver
  have hvm : v ≤ maxVer := by have := hi.inv.st.rep.ver_lt; omega
  have hdb := index_history_immutable K IdxKey hK idxKey_wf .byHashKey idxKey_pfx s m hi.inv ops hops hver v hv hkeep
  rw [(hi'.transparent hvm hh).2, (hi.transparent hvm hh).2, hdb.2.2.2.1 h, hdb.2.2.2.2.1 h]

/-! ### the cache as it was (keyed by height, consulted before the view): the property failed -/

/-- `GetBlockByHeight` of a view at `v`, as answered under a cache keying, is unchanged between two states -/
def BlockReadStable (mode : CacheKeying) (s s' : IState) (v h : Nat) : Prop :=
  (getBlockByHeight mode s'.cache (s'.ro v) h).1 = (getBlockByHeight mode s.cache (s.ro v) h).1

instance (mode : CacheKeying) (s s' : IState) (v h : Nat) : Decidable (BlockReadStable mode s s' v h) := by
  unfold BlockReadStable; infer_instance

/-- two blocks committed at heights 1 and 2 (QC + block indexed before each commit) -/
def twoBlocks : List IOp :=
  [.store (.set [1, 97] [1]), .indexQC 1 [0xB1], .indexBlock 1 [0xB1] [[0x71]], .store .commit,
   .store (.set [1, 97] [2]), .indexQC 2 [0xB2], .indexBlock 2 [0xB2] [], .store .commit]

/-- **the cache keyed by height served uncommitted and stale blocks** (the code before commit fbabcb4;
each sequence is a permanent corpus case of the Go driver, `blockcache-a … -f`, signature
`C10:block-cache-serves-uncommitted-or-stale-block`, and passes on the repaired code):
(a) after the entry for height 2 left the cache (64 other reads, or a restart), a view at version 1
asks for height 2: its miss is cached, and the STORE ITSELF then answers an empty block for the
committed height 2; (b) a view at version 1 is served block 2; (c) a block indexed for a commit that
was abandoned is served to the store and to the view at version 1; (d) a header-only read replaces the
cached block by one without its transactions. -/
theorem block_cache_by_height_serves_uncommitted_or_stale_block :
    -- (a)
    (let s := runIOps .byHeight {} (twoBlocks ++ (List.range 64).map (fun i => .getBlock none (1000 + i) false) ++
        [.getBlock (some 1) 2 false])
     s.st.version = 2 ∧ s.live.dbBlockByHeight 2 = { hHeight := 2, hash := [0xB2], txs := [] } ∧
     (getBlockByHeight .byHeight s.cache s.live 2).1 = {}) ∧
    -- (b)
    (let s := runIOps .byHeight {} twoBlocks
     (s.ro 1).dbBlockByHeight 2 = {} ∧
     (getBlockByHeight .byHeight s.cache (s.ro 1) 2).1 = { hHeight := 2, hash := [0xB2], txs := [] }) ∧
    -- (c)
    (let s := runIOps .byHeight {} (twoBlocks.take 4 ++ [.indexBlock 2 [0xEE] [], .reset])
     s.st.version = 1 ∧ s.live.dbBlockByHeight 2 = {} ∧
     (getBlockByHeight .byHeight s.cache s.live 2).1 = { hHeight := 2, hash := [0xEE], txs := [] } ∧
     (getBlockByHeight .byHeight s.cache (s.ro 1) 2).1 = { hHeight := 2, hash := [0xEE], txs := [] }) ∧
    -- (d)
    (let s := runIOps .byHeight {} (twoBlocks.take 4 ++ [.purgeCache, .getBlock none 1 true])
     s.live.dbBlockByHeight 1 = { hHeight := 1, hash := [0xB1], txs := [[0x71]] } ∧
     (getBlockByHeight .byHeight s.cache s.live 1).1 = { hHeight := 1, hash := [0xB1], txs := [] }) := by
  decide +kernel

/-- under the old keying the full-strength statement was false: one more READ by a historical view
changed the store's own answer for a committed height -/
theorem block_read_not_stable_by_height :
    let s := runIOps .byHeight {} (twoBlocks ++ [.purgeCache])
    ¬ BlockReadStable .byHeight s (runIOps .byHeight s [.getBlock (some 1) 2 false]) 2 2 := by
  decide +kernel

/-- the same four sequences on the code as it stands: every answer is the database part's -/
theorem block_cache_by_hash_key_answers_correctly :
    (let s := runIOps .byHashKey {} (twoBlocks ++ (List.range 64).map (fun i => .getBlock none (1000 + i) false) ++
        [.getBlock (some 1) 2 false])
     (getBlockByHeight .byHashKey s.cache s.live 2).1 = { hHeight := 2, hash := [0xB2], txs := [] }) ∧
    (let s := runIOps .byHashKey {} twoBlocks
     (getBlockByHeight .byHashKey s.cache (s.ro 1) 2).1 = {}) ∧
    (let s := runIOps .byHashKey {} (twoBlocks.take 4 ++ [.indexBlock 2 [0xEE] [], .reset])
     (getBlockByHeight .byHashKey s.cache s.live 2).1 = {} ∧ (getBlockByHeight .byHashKey s.cache (s.ro 1) 2).1 = {}) ∧
    (let s := runIOps .byHashKey {} (twoBlocks.take 4 ++ [.purgeCache, .getBlock none 1 true])
     (getBlockByHeight .byHashKey s.cache s.live 1).1 = { hHeight := 1, hash := [0xB1], txs := [[0x71]] }) ∧
    -- (g) the store reads its own pending height after the IndexBlock entry was evicted: not cached
    (let s := runIOps .byHashKey {} [.store (.set [1, 97] [1]), .indexBlock 1 [0xB1] [[0x71]], .purgeCache,
        .getBlock none 1 false, .store .commit]
     (getBlockByHeight .byHashKey s.cache s.live 1).1 = { hHeight := 1, hash := [0xB1], txs := [[0x71]] }) := by
  decide +kernel

/-- **were `getBlockForPage` to add what it loaded to the cache** (under `GetBlockByHeight`'s own guard), a page
query on a cold cache would poison it: `setBlocksTook` loads the block below the page WITHOUT its transactions
and that header-only result would sit under the block's hash key — `GetBlockByHeight` then serves committed
height 1 without its transaction, to the store and to every view. With the source's `getBlockForPage` the same
sequence answers correctly. -/
theorem page_query_filling_cache_serves_block_without_txs :
    let s := runIOps .byHashKey {} (twoBlocks ++ [.purgeCache])
    (s.live.dbBlockByHeight 1 = { hHeight := 1, hash := [0xB1], txs := [[0x71]] }) ∧
    (let c := (getBlocks .addsLoaded s.cache s.live 1 1).2
     (getBlocks .addsLoaded s.cache s.live 1 1).1 = ([{ hHeight := 2, hash := [0xB2] }], 2) ∧
     (getBlockByHeight .byHashKey c s.live 1).1 = { hHeight := 1, hash := [0xB1] } ∧
     (getBlockByHeight .byHashKey c (s.ro 1) 1).1 = { hHeight := 1, hash := [0xB1] }) ∧
    (let c := (getBlocks pageFillOfSource s.cache s.live 1 1).2
     (getBlockByHeight .byHashKey c s.live 1).1 = { hHeight := 1, hash := [0xB1], txs := [[0x71]] }) := by
  decide +kernel

/-! ## non-vacuity -/

/-- a two-key universe satisfying `WFKeys` -/
def K2 : Bytes → Prop := fun k => k = [1, 97] ∨ k = [1, 98]

theorem K2_wf : WFKeys K2 where
  ok := by
    rintro k (rfl | rfl) <;> simp [keyOK, decodeLenPrefixed]
  pf := by
    rintro a b (rfl | rfl) (rfl | rfl) h <;> simp [List.cons_prefix_cons] at h ⊢

example : PfxOK K2 [1] := by
  rintro k (rfl | rfl) h <;> simp [List.cons_prefix_cons] at h

set_option linter.unusedSimpArgs false in
/-- the hypotheses of `history_immutable` are satisfiable with a non-trivial history: two commits, a
delete, a nested transaction — and the read at version 1 is indeed unchanged -/
example :
    let s1 := runOps {} [.set [1, 97] [5], .commit]
    let ops : List Op := [.del [1, 97], .set [1, 98] [6], .commit, .nest, .set [1, 97] [7], .flush, .pop, .commit]
    (∃ m, Inv K2 s1 m) ∧ (∀ op ∈ ops, OpOK K2 op) ∧ (∀ op ∈ ops, KeepsHistory 1 op) ∧
    (s1.readOnly 1).get [1, 97] = some (some [5]) ∧ ((runOps s1 ops).readOnly 1).get [1, 97] = some (some [5]) ∧
    ((runOps s1 ops).readOnly 2).get [1, 97] = some none ∧ ((runOps s1 ops).readOnly 3).get [1, 97] = some (some [7]) := by
  refine ⟨reachable_inv K2 K2_wf _ (by simp [OpOK, K2]) (by decide), by simp [OpOK, K2], by simp [KeepsHistory], ?_, ?_, ?_, ?_⟩
  all_goals simp [runOps, State.apply, State.readOnly, Handle.get, Handle.get.go, keyOK, decodeLenPrefixed]
  all_goals decide +kernel

/-! ## a rollback erases the abandoned heights -/

/-- **`rollback_erases_abandoned_heights`** — the complement of `history_immutable`. After `Rollback(t)` on a
store at a later version, and after ANY further operations (in particular re-committing the abandoned heights
with other writes):
* the versioned map is the old one cut to the versions ≤ `t` (`m.rollback t`) with the later operations
  applied (`specRun`) — it is a function of the cut map only, whatever the abandoned heights had written;
* right after the rollback a reader at any version `v` — also `v > t` — sees the map as of `min v t`;
* every read-only view, at every version `v` (below, at, or above the re-committed heights), returns for
  point reads and forward/reverse prefix scans exactly that new history. -/
theorem rollback_erases_abandoned_heights (K : Bytes → Prop) (hK : WFKeys K) (s : State) (m : VMap) (hi : Inv K s m)
    (l : Layer) (hmain : s.main = [l]) (t : Nat) (ht0 : 0 < t) (ht : t < s.version)
    (ops : List Op) (hops : ∀ op ∈ ops, OpOK K op) (hver : s.version + ops.length + 2 < maxVer) :
    let s1 := s.apply (.rollback t)
    let m' := specRun s1 (m.rollback t) ops
    let s' := runOps s1 ops
    s1.version = t ∧
    (∀ e, e ∈ m.rollback t ↔ (e ∈ m ∧ e.2.1 ≤ t)) ∧
    (∀ m₂ : VMap, m₂.rollback t = m.rollback t → specRun s1 (m₂.rollback t) ops = m') ∧
    (∀ v k, readAt (m.rollback t) v k = readAt m (min v t) k) ∧
    Inv K s' m' ∧
    ∀ v, v ≤ maxVer →
      (∀ k, K k → (s'.readOnly v).get k = some (readAt m' v k)) ∧
      (∀ p reverse, PfxOK K p → keyOK p = true →
        ∃ out, (s'.readOnly v).iter p reverse = some out ∧ IsScan (readAt m' v) p reverse out) := by
  simp only
  have hsp : specApply s m (.rollback t) = m.rollback t := by
    simp only [specApply, hmain]; rw [if_neg (by omega)]
  have hmv : maxVer = 18446744073709551615 := rfl
  obtain ⟨hi1, hv1, _⟩ := hi.apply_spec hK (.rollback t) trivial (by omega)
  rw [hsp] at hi1
  have hver1 : (s.apply (.rollback t)).version = t := by
    simp only [State.apply, hmain, State.rollback]
    rw [if_neg (by omega), if_neg (by omega), if_neg (by omega)]
    rfl
  have hrun := hi1.run_spec hK ops hops (by rw [hver1]; omega)
  refine ⟨hver1, fun e => mem_rollback, fun m₂ h => by rw [h], fun v k => readAt_rollback_any hi.rep.uniq t v k, hrun, ?_⟩
  intro v hv
  exact readOnly_refines K hK _ _ hrun v hv

set_option linter.unusedSimpArgs false in
/-- non-vacuity, on the sequence of the finding this theorem answers: `A=a1 B=b1` ⏎ `A=a2` ⏎ `Rollback(1)`
`B=b2` ⏎ `B=b3` ⏎ — as of height 2 (re-committed without touching `A`, and no longer the tip) `A` reads `a1`,
not the abandoned `a2`; the hypotheses of the theorem hold for it -/
example :
    let s := runOps {} [.set [1, 97] [0xA1], .set [1, 98] [0xB1], .commit, .set [1, 97] [0xA2], .commit]
    let ops : List Op := [.set [1, 98] [0xB2], .commit, .set [1, 98] [0xB3], .commit]
    (∃ m, Inv K2 s m) ∧ (∃ l, s.main = [l]) ∧ 1 < s.version ∧ (∀ op ∈ ops, OpOK K2 op) ∧
    (s.readOnly 2).get [1, 97] = some (some [0xA2]) ∧
    ((runOps (s.apply (.rollback 1)) ops).readOnly 2).get [1, 97] = some (some [0xA1]) ∧
    ((runOps (s.apply (.rollback 1)) ops).readOnly 2).get [1, 98] = some (some [0xB2]) ∧
    ((runOps (s.apply (.rollback 1)) ops).readOnly 3).get [1, 97] = some (some [0xA1]) := by
  refine ⟨reachable_inv K2 K2_wf _ (by simp [OpOK, K2]) (by decide), ⟨_, rfl⟩, by decide +kernel, by simp [OpOK, K2], ?_, ?_, ?_, ?_⟩
  all_goals simp [runOps, State.apply, State.readOnly, Handle.get, Handle.get.go, keyOK, decodeLenPrefixed]
  all_goals decide +kernel

/-! ## the sstable version filter is transparent — because deletions count -/

open Canopy.SstFilter in
/-- which point keys the block-property collector maps to a version, read off `versionedCollector.MapPointKey`:
its only ignore-conditions are "shorter than a version" and "version 0 or the reserved version"; every other
point key — of every kind, physical deletions included — contributes `[version, version+1)`; readers ask for
`[low, high+1)` -/
def collectorOfSource : Collector :=
  if Gen.Store.mapPointKeyIgnores = ["len(userKey) < VersionSize", "version == 0 || version == maxVersion"] ∧
     Gen.Store.mapPointKeyShape = ["userKey := key.UserKey", "ignore-if", "version := parseVersion(userKey)", "ignore-if", "return"] ∧
     Gen.Store.mapPointKeyInterval = "sstable.BlockInterval{Lower: version, Upper: version + 1}" ∧
     Gen.Store.versionWindowFilters = [("store/store.go", "newTargetWindowFilter(minVersion, maxVersion)"),
       ("store/versioned_store.go", "newTargetWindowFilter(0, vs.version)"),
       ("store/versioned_store.go", "sstable.NewBlockIntervalFilter( blockPropertyName, low, high+1, nil, )")]
  then .everyKind else .skipsDeletions

theorem collector_counts_every_kind : collectorOfSource = .everyKind := by decide

open Canopy.SstFilter in
/-- **`version_filter_transparent`** — with that collector, whatever the sstables are (however commits,
rollbacks, flushes and compactions have laid the records out), a reader at version `v` that skips the tables
whose version interval misses `[0, v+1)` takes into account exactly the records of versions `1 … v` it would
without the filter: the store model's unfiltered key space is what the filtered readers see. -/
theorem version_filter_transparent (v : Nat) (hv : v < maxVer) (ts : List Table) :
    visible collectorOfSource v ts = unfiltered v ts ∧ ∀ uk, SstFilter.read collectorOfSource v ts uk = readOf (unfiltered v ts) uk := by
  rw [collector_counts_every_kind]
  have h : visible .everyKind v ts = unfiltered v ts := by
    unfold visible unfiltered
    induction ts with
    | nil => rfl
    | cons t ts ih =>
      rw [List.filter_cons]
      by_cases ha : admitted .everyKind v t = true
      · rw [if_pos ha, List.flatten_cons, List.flatten_cons, List.filter_append, List.filter_append, ih]
      · rw [if_neg ha, List.flatten_cons, List.filter_append, ih]
        have : t.filter (inWindow v) = [] := by
          rw [List.filter_eq_nil_iff]
          intro r hr hw
          apply ha
          unfold admitted
          rw [List.any_eq_true]
          refine ⟨r, hr, ?_⟩
          simp only [inWindow, Bool.and_eq_true, decide_eq_true_eq] at hw
          have hc : contributes .everyKind r = some r.ver := by
            unfold contributes
            rw [if_neg (by omega)]
          rw [hc]
          simp [hw.2]
        rw [this, List.nil_append]
  exact ⟨h, fun uk => by unfold SstFilter.read; rw [h]⟩

open Canopy.SstFilter in
/-- the layout of the finding: sstable 1 holds heights 1 and 2 (`A=a1 B=b1`, `A=a2`); sstable 2 holds the
physical deletion `Rollback(1)` wrote for `A@2`; the re-committed heights 2 and 3 (`B=b2`, `C=c3`) follow -/
def rewoundTables : List SstFilter.Table :=
  [[⟨[1, 97], 1, 1, some [0xA1]⟩, ⟨[1, 98], 1, 2, some [0xB1]⟩, ⟨[1, 97], 2, 3, some [0xA2]⟩],
   [⟨[1, 97], 2, 4, none⟩],
   [⟨[1, 98], 2, 5, some [0xB2]⟩, ⟨[1, 99], 3, 6, some [0xC3]⟩]]

open Canopy.SstFilter in
/-- **were physical deletions not counted, the filter would not be transparent**: the table holding only the
rollback's deletion gets the empty interval, every historical reader skips it, and the rolled-back `A=a2` in
the older table is visible again as of height 2 — while with the real collector `A` reads `a1`. -/
theorem collector_skipping_deletions_resurrects_rolled_back_entry :
    SstFilter.read .skipsDeletions 2 rewoundTables [1, 97] = some [0xA2] ∧
    SstFilter.read collectorOfSource 2 rewoundTables [1, 97] = some [0xA1] ∧
    admitted .skipsDeletions 2 [⟨[1, 97], 2, 4, none⟩] = false ∧
    admitted collectorOfSource 2 [⟨[1, 97], 2, 4, none⟩] = true := by
  decide +kernel


def H32 : Bytes := List.replicate 32 0xAB
def T32 : Bytes := List.replicate 32 0x71

/-- non-vacuity: a history that indexes, commits and reads a block is disciplined -/
example : DiscRun K2 {} [.store (.set [1, 97] [5]), .indexQC 1 H32, .indexBlock 1 H32 [T32], .store .commit,
    .getBlock (some 1) 1 false, .getBlock none 1 false] := by
  -- set
  refine ⟨trivial, fun o h => (by cases h; exact Or.inl rfl), ?_⟩
  -- indexQC
  refine ⟨(by decide : (1 : Nat) < B64), fun o h => (by cases h), ?_⟩
  -- indexBlock: next height, fresh hash, fresh transactions, only a QC pending
  refine ⟨⟨rfl, rfl, by simp [T32], by simp, by decide, ?_, fun w _ => rfl, fun th _ w _ => rfl, rfl⟩, fun o h => (by cases h), ?_⟩
  · intro k op hg
    have : smGet (smSet ([] : Overlay) (qcHeightKey 1) (.set (encQC 1 H32))) k = some op := hg
    rw [smGet_smSet] at this
    by_cases hk : k = qcHeightKey 1
    · rw [if_pos hk] at this; injection this with this
      exact ⟨1, H32, by decide, hk, this.symm⟩
    · rw [if_neg hk] at this; cases this
  -- commit, then reads by a view and by the store
  refine ⟨trivial, fun o h => (by cases h; trivial), ?_⟩
  refine ⟨⟨by decide, fun v h => (by cases h; decide)⟩, fun o h => (by cases h), ?_⟩
  exact ⟨⟨by decide, fun v h => (by cases h)⟩, fun o h => (by cases h), trivial⟩

end Canopy.C10
