import Canopy.Proof.Crash
import Canopy.Gen.Store
/-!
# C09 — crash-consistent, all-or-nothing block commit   (level: **partial**)

*Model* (`Canopy/Model/Crash.lean`): the database is the list of atomic batches applied so far
(`Disk`); its content is `dbOf` = the batches applied in order to the empty key space (C10's sorted
key list). One block commit applies `blockBatches shape next b`: the commit-id records, the SMT node
writes, the latest + historical state with the tombstone purge (exactly C10's `commitBatch`), and the
indexer entries (QC, block, txs, events). A reopened store reads its height from the latest commit-id
record (`version`), as `getLatestCommitID` does: a versioned read of `a/` at the reserved version 2^64-1.
`Store.Rollback(target)` is one more batch (prune the version window above `target`, patch the latest state,
re-point `a/` — at the reserved version — to the commit id recorded for `target`); a history is a list of
block commits and rollbacks (`Ev`, `runEv`).

*What is proved*: the atomicity logic — given that the block's writes form ONE batch (derived below
from facts regenerated from `store/store.go` and `controller/block.go`), every prefix of the applied
batches is a state the uncrashed run passed through: the reopened height, the recorded root, and every
key of every partition equal the uncrashed values after that block; entries of earlier heights are
never touched; continuing reproduces the uncrashed run. The same over histories with `Rollback` in the
middle (`reopen_height`, `crash_prefix_history`), which additionally needs that `setCommitID` writes the
latest-commit pointer at the reserved version (generated fact, `ptr_lss`): were it written at the block's own
version, the pointer a rollback leaves at the reserved version would shadow every later one
(`pointer_at_commit_version_reopens_stale`).

*What is assumed, not proved*: pebble applies a batch atomically and, after a crash at any
file-system operation boundary with any subset of unsynced data surviving, recovers the result of a
prefix of the applied batches (`NoSync`: the prefix may be shorter than what was acknowledged). That
assumption is *sampled* on every check by the crash harness (`harness/c09`): real pebble on a
crashable in-memory file system, crash clones at many points, reopened with `NewStoreWithDB`.
-/
namespace Canopy.C09
open Canopy Canopy.Store Canopy.Crash

/-! ## the shape of the commit, from the source -/

/-- `NewStoreWithDB` and `Reset`: one batch is created; both `VersionedStore`s are built on it; the
state and indexer transactions write to those stores; that batch is what `Store.writer` holds. -/
theorem writers_share_one_batch :
    Gen.Store.NewStoreWithDB_batchVars = ["writer"] ∧
    Gen.Store.NewStoreWithDB_versionedStoreVars = [("hssStore", "writer"), ("lssStore", "writer")] ∧
    Gen.Store.NewStoreWithDB_txnWriters = ["lssStore", "hssStore"] ∧
    Gen.Store.NewStoreWithDB_storeWriter = ["writer"] ∧
    Gen.Store.Reset_batchVars = ["newWriter"] ∧
    Gen.Store.Reset_versionedStoreVars = [("newLSSStore", "newWriter"), ("newStore", "newWriter")] ∧
    Gen.Store.Reset_txnWriters = ["newStore", "newStore"] ∧
    Gen.Store.Reset_storeWriter = ["newWriter"] := by decide

/-- `Store.Commit`: root → commit id → (journal) → flush → purge → exactly one `db.Apply(s.writer, NoSync)`;
`Flush` commits the SMT's txn, the state txn and the indexer txn (all `*Txn`, flushing into their
writers); the SMT's txn writes to the state txn's writer; `setCommitID` and the purge write to
`s.writer` directly. -/
theorem commit_is_one_batch :
    Gen.Store.commitApplies = [("s.writer", "pebble.NoSync")] ∧
    Gen.Store.commitCalls.filter (· ≠ "s.Reset") =
      ["s.Root", "s.setCommitID", "s.collectLssDeleteKeys", "s.recordStateChangeKeys", "s.Flush",
       "s.purgeLssTombstones", "s.writer.Repr", "s.writer.Count", "s.db.Apply", "s.MaybeCompact", "s.MaybeBackup"] ∧
    Gen.Store.flushCommits = ["s.sc.store.(TxnWriterI).Commit", "s.ss.Commit", "s.Indexer.db.Commit"] ∧
    Gen.Store.flushShape = [("s.sc != nil", "s.sc.store.(TxnWriterI).Commit"), ("", "s.ss.Commit"),
      ("", "s.Indexer.db.Commit"), ("", "return nil")] ∧
    Gen.Store.fieldTypes = [("Store.db", "*pebble.DB"), ("Store.writer", "*pebble.Batch"), ("Store.ss", "*Txn"),
      ("Store.sc", "*SMT"), ("Store.(embedded)", "*Indexer"), ("Indexer.db", "*Txn")] ∧
    Gen.Store.rootTxnReaderWriter = ["s.ss.reader", "s.ss.writer"] ∧
    Gen.Store.setCommitIDBatches = ["s.writer"] ∧
    Gen.Store.setCommitIDWrites = ["lastCommitIDPrefix@lssVersion", "s.commitIDKey(version)@version"] ∧
    Gen.Store.purgeWrites = ["s.writer.Delete"] := by decide

/-- nothing else in package `store` hands a batch to the database on the commit path: the only other
sites are `Rollback` (its own batch, offline) and `VersionedStore.Commit` (not called by `Commit`/`Flush`,
whose three `.Commit` calls are on `*Txn`s); the controller indexes the QC and the block on the same
store value before `Commit`. -/
theorem no_other_apply_on_commit_path :
    Gen.Store.applySites = [("Store.Commit", "s.db.Apply(s.writer, pebble.NoSync)"),
      ("Store.Rollback", "s.db.Apply(batch, pebble.Sync)"),
      ("VersionedStore.Commit", "vs.batch.Commit(&pebble.WriteOptions{Sync: false})")] ∧
    Gen.Store.controllerCommitPath.filter (·.1 = "CommitCertificate") =
      [("CommitCertificate", "storeI.IndexQC"), ("CommitCertificate", "storeI.IndexBlock"),
       ("CommitCertificate", "storeI.Commit")] := by decide

/-- the model's shape is read off the source: a single batch exactly when the facts above hold -/
def shapeOfSource : Shape :=
  if Gen.Store.commitApplies = [("s.writer", "pebble.NoSync")] ∧
     Gen.Store.NewStoreWithDB_versionedStoreVars.all (·.2 = "writer") ∧
     Gen.Store.NewStoreWithDB_storeWriter = ["writer"] ∧
     Gen.Store.Reset_versionedStoreVars.all (·.2 = "newWriter") ∧
     Gen.Store.Reset_storeWriter = ["newWriter"] ∧
     Gen.Store.flushCommits = ["s.sc.store.(TxnWriterI).Commit", "s.ss.Commit", "s.Indexer.db.Commit"] ∧
     Gen.Store.rootTxnReaderWriter = ["s.ss.reader", "s.ss.writer"] ∧
     Gen.Store.setCommitIDBatches = ["s.writer"] ∧
     Gen.Store.purgeWrites = ["s.writer.Delete"]
  then .single else .split

theorem shape_single : shapeOfSource = .single := by decide

/-- where the latest-commit pointer is written, read off the source: `setCommitID` writes `lastCommitIDPrefix`
with `SetAt(…, lssVersion)` (a plain `Set` on the versioned store of the commit would be recorded as
`@version`), `Rollback` re-points it at `lssVersion`, and `getLatestCommitID` reads it through a versioned
store bound to `lssVersion` -/
def ptrOfSource : PtrAt :=
  if Gen.Store.setCommitIDWrites = ["lastCommitIDPrefix@lssVersion", "s.commitIDKey(version)@version"] ∧
     Gen.Store.rollbackPointerWrites = ["lastCommitIDPrefix@lssVersion"] ∧
     Gen.Store.latestCommitIDRead = ["lssVersion", "Get(lastCommitIDPrefix)"]
  then .lss else .commitVersion

theorem ptr_lss : ptrOfSource = .lss := by decide

/-! ## crash_prefix -/

/-- **`crash_prefix`** — for every block sequence `bs` and every crash prefix (`j` batches survive):
the reopened store
* is at height `j`, a height it had committed (`j ≤ |bs|`), with the root recorded for block `j`;
* holds, key for key and in every partition (latest state, historical state, SMT nodes, indexer,
  commit ids), exactly what the uncrashed run held after block `j`;
* continues: applying blocks `j+1 …` yields, step by step, the states of the uncrashed run. -/
theorem crash_prefix (bs : List BlockIn) (hb : bs.length < 18446744073709551616) (j : Nat) (hj : j ≤ bs.length) :
    let disk := run shapeOfSource ptrOfSource [] bs
    let crashed := disk.take j
    version crashed = j ∧
    (∀ b, bs[j - 1]? = some b → 0 < j → latestRoot crashed = b.root) ∧
    crashed = run shapeOfSource ptrOfSource [] (bs.take j) ∧
    dbOf crashed = dbOf (run shapeOfSource ptrOfSource [] (bs.take j)) ∧
    run shapeOfSource ptrOfSource crashed (bs.drop j) = disk ∧
    ∀ i, i ≤ (bs.drop j).length →
      run shapeOfSource ptrOfSource crashed ((bs.drop j).take i) = run shapeOfSource ptrOfSource [] (bs.take (j + i)) := by
  rw [shape_single, ptr_lss]
  simp only
  have htake := take_run_single bs j
  have hver : version (run .single .lss [] (bs.take j)) = j := by
    have := version_run_single (bs.take j) [] (by rw [version_empty]; simp; omega)
    rw [this, version_empty]; simp; omega
  refine ⟨by rw [htake]; exact hver, ?_, htake, by rw [htake], ?_, ?_⟩
  · intro b hbj hpos
    rw [htake]
    have hsplit : bs.take j = bs.take (j - 1) ++ [b] := by
      have : j = (j - 1) + 1 := by omega
      rw [this, List.take_add_one, hbj]
      simp
    rw [hsplit, run_append]
    exact latestRoot_commit_single _ b
  · rw [htake, ← run_append, List.take_append_drop]
  · intro i _
    rw [htake, ← run_append]
    congr 1
    rw [← List.take_add]

/-- **earlier heights stay intact** — a later block commit never changes an entry of version `w` below
its own height, in any partition: historical state, SMT nodes, indexed blocks/txs/QCs and commit ids of
earlier heights read the same from the crashed-and-reopened store as they did when committed. (For the
state partition this is C10's `history_immutable`.) -/
theorem earlier_heights_intact (bs : List BlockIn) (hb : bs.length + 1 < maxVer) (i j : Nat) (hij : i ≤ j)
    (hj : j ≤ bs.length) (u : Bytes) (w : Nat) (hw : w ≤ i) :
    smGet (dbOf ((run shapeOfSource ptrOfSource [] bs).take j)) (mkKey u w) =
      smGet (dbOf ((run shapeOfSource ptrOfSource [] bs).take i)) (mkKey u w) := by
  rw [shape_single, ptr_lss, take_run_single, take_run_single]
  have hmv : maxVer = 18446744073709551615 := rfl
  induction j with
  | zero =>
    have : i = 0 := by omega
    subst this; rfl
  | succ j ih =>
    by_cases hi : i = j + 1
    · subst hi; rfl
    · have hjl : j < bs.length := by omega
      rw [← ih (by omega) (by omega)]
      have hsplit : bs.take (j + 1) = bs.take j ++ [bs[j]] := by
        rw [List.take_add_one, List.getElem?_eq_getElem hjl]; simp
      rw [hsplit, run_append]
      have hver : version (run .single .lss [] (bs.take j)) = j := by
        have := version_run_single (bs.take j) [] (by rw [version_empty]; simp; omega)
        rw [this, version_empty]; simp; omega
      exact commit_keeps_older _ _ u w (by rw [hver]; omega) (by rw [hver]; omega)

/-! ## the single batch is what makes it true -/

/-- a two-block chain whose blocks index one entry each -/
def demo : List BlockIn :=
  [{ ops := [([1, 97], .set [1])], idx := [([6, 1], [0xAA])], root := [1] },
   { ops := [([1, 97], .set [2])], idx := [([6, 2], [0xBB])], root := [2] }]

/-- non-vacuity: with the real shape every crash prefix of `demo` reopens at a committed height with
its block indexed -/
example : (List.range 3).all (fun j =>
    let d := (run shapeOfSource ptrOfSource [] demo).take j
    version d == j && (j == 0 || (idxGet d [6, UInt8.ofNat j]).isSome)) = true := by decide +kernel

/-- **were the indexer applied as a second batch, the property would fail**: after block 1's first
batch alone the store reopens at height 1 with the state of block 1 — and no indexed block 1. -/
theorem split_commit_breaks_atomicity :
    let d := (run .split .lss [] demo).take 1
    version d = 1 ∧ stateScan d = [([1, 97], [1])] ∧ idxGet d [6, 1] = none := by
  decide +kernel

/-! ## a block's transactions run in nested stores -/

/-- what `Store.Flush()` hands on, read off the source: statement by statement it commits the SMT's transaction
(when there is one), the state transaction and the indexer transaction, unconditionally and for every kind of
store — nested stores included — and nothing else -/
def nestedFlushOfSource : NestedFlush :=
  if Gen.Store.flushShape = [("s.sc != nil", "s.sc.store.(TxnWriterI).Commit"), ("", "s.ss.Commit"),
       ("", "s.Indexer.db.Commit"), ("", "return nil")]
  then .both else .stateOnly

theorem nested_flush_both : nestedFlushOfSource = .both := by decide

/-- **`nested_txs_all_or_nothing`** — a block whose transactions each ran in their own `NewTxn()`:
* every flushed transaction's last state operations are the block's pending state operations, the index
  entries it wrote (checkpoints, double signers) are among the block's index entries and the index keys it
  deleted (`DeleteCheckpointsForChain`) among the block's index deletions — whatever came before it;
* a discarded transaction leaves no trace in either;
* and the block so formed is committed as ONE batch: every crash prefix holds all of it or none of it
  (`crash_prefix` applied to the blocks `blockOfTxs … own txs`). -/
theorem nested_txs_all_or_nothing (own : BlockIn) (hown : SSorted own.ops) (txs : List TxIn) (tx : TxIn) :
    (tx.flush = true →
      let b := blockOfTxs nestedFlushOfSource own (txs ++ [tx])
      (∀ k op, lastWrite tx.ops k = some op → smGet b.ops k = some op) ∧
      (∀ k v, lastWrite tx.idx k = some (.set v) → (k, v) ∈ b.idx) ∧
      (∀ k, lastWrite tx.idx k = some .del → k ∈ b.idxDel)) ∧
    (tx.flush = false → ∀ rest, blockOfTxs nestedFlushOfSource own (txs ++ tx :: rest) = blockOfTxs nestedFlushOfSource own (txs ++ rest)) ∧
    (∀ d : Disk, (commitBlock shapeOfSource ptrOfSource d (blockOfTxs nestedFlushOfSource own (txs ++ [tx]))).length = d.length + 1) := by
  rw [nested_flush_both, shape_single]
  exact ⟨fun hf => flushed_tx_reaches_block own hown txs tx hf, fun hf rest => discarded_tx_vanishes .both own txs tx hf rest,
    fun d => by simp [commitBlock, blockBatches]⟩

/-- a block with a begin-block write and two transactions: the first slashes (state) and records the double
signer and a checkpoint (index) and is flushed; the second is discarded -/
def slashTxs : List TxIn :=
  [{ ops := [([1, 98], .set [7])], idx := [([100, 1], .set [1]), ([99, 1], .set [0xCC])], flush := true },
   { ops := [([1, 99], .set [9])], idx := [([100, 2], .set [1])], flush := false }]

def slashOwn : BlockIn := { ops := [([1, 97], .set [1])], idx := [([6, 1], [0xAA])], root := [1] }

/-- non-vacuity: with the source's `Flush`, after the commit — and after a crash that keeps the batch — the
state has the slash AND the indexes have the evidence and the checkpoint; the discarded transaction is nowhere;
a crash that loses the batch has neither -/
example :
    let d := commitBlock shapeOfSource ptrOfSource [] (blockOfTxs nestedFlushOfSource slashOwn slashTxs)
    stateScan d = [([1, 97], [1]), ([1, 98], [7])] ∧ idxGet d [100, 1] = some [1] ∧ idxGet d [99, 1] = some [0xCC] ∧
    idxGet d [100, 2] = none ∧ idxGet d [6, 1] = some [0xAA] ∧
    stateScan (d.take 0) = [] ∧ idxGet (d.take 0) [100, 1] = none := by decide +kernel

/-- **were `Flush` on a nested store to hand only the state transaction to the parent, the commit would not be
all-or-nothing across state and indexes**: the committed state has the transaction's write (the slash) while
the double-signer and checkpoint entries the same transaction indexed are not in the batch — not after the
commit, not after any restart. -/
theorem state_only_nested_flush_loses_index_writes :
    let d := commitBlock .single .lss [] (blockOfTxs .stateOnly slashOwn slashTxs)
    version d = 1 ∧ stateScan d = [([1, 97], [1]), ([1, 98], [7])] ∧
    idxGet d [100, 1] = none ∧ idxGet d [99, 1] = none ∧ idxGet d [6, 1] = some [0xAA] := by
  decide +kernel

/-! ## histories with `Rollback(target)` in the middle -/

/-- **`reopen_height`** — after any history of block commits and rollbacks (SMT node keys not colliding with
commit-id keys), the store opens at the height the history ends at — `specRun`: a block adds a height, an
accepted `Rollback(t)` cuts the chain to `t` — with the root of the block that is that height, and holds the
commit id of every height of the chain. Depends on `ptr_lss`: the pointer read by `getLatestCommitID` is the
one the last commit or rollback wrote. -/
theorem reopen_height (evs : List Ev) (hok : ∀ b, Ev.block b ∈ evs → SmtOK b) (hlen : evs.length < maxVer) :
    let disk := runEv shapeOfSource ptrOfSource [] evs
    let chain := specRun [] evs
    version disk = chain.length ∧
    (∀ b, chain.getLast? = some b → latestRoot disk = b.root) ∧
    ∀ h (hh : h < chain.length),
      smGet (dbOf disk) (mkKey (commitIDKey (h + 1)) (h + 1)) = some (cidVal (h + 1) chain[h].root) := by
  rw [shape_single, ptr_lss]
  have := ChainInv.run evs [] [] chainInv_empty hok (by simpa using hlen)
  exact ⟨this.ver, this.root, this.cid⟩

/-- **`crash_prefix` over histories** — for every history and every crash prefix (`j` batches survive) the
reopened store is the store of a prefix of the history: same batches, hence key for key the same database;
it opens at the height that prefix ends at (not at an earlier rollback target), with that block's root; and
re-running the rest of the history from it reproduces the uncrashed run. -/
theorem crash_prefix_history (evs : List Ev) (hok : ∀ b, Ev.block b ∈ evs → SmtOK b) (hlen : evs.length < maxVer)
    (j : Nat) (hj : j ≤ (runEv shapeOfSource ptrOfSource [] evs).length) :
    let disk := runEv shapeOfSource ptrOfSource [] evs
    let crashed := disk.take j
    ∃ i, i ≤ evs.length ∧
      crashed = runEv shapeOfSource ptrOfSource [] (evs.take i) ∧
      version crashed = (specRun [] (evs.take i)).length ∧
      (∀ b, (specRun [] (evs.take i)).getLast? = some b → latestRoot crashed = b.root) ∧
      runEv shapeOfSource ptrOfSource crashed (evs.drop i) = disk := by
  rw [shape_single, ptr_lss] at hj ⊢
  simp only
  obtain ⟨i, hi, he⟩ := take_runEv_single .lss evs [] j (Nat.zero_le _) hj
  have hinv := ChainInv.run (evs.take i) [] [] chainInv_empty
    (fun b hb => hok b (List.mem_of_mem_take hb)) (by simp; omega)
  refine ⟨i, hi, he, ?_, ?_, ?_⟩
  · rw [he]; exact hinv.ver
  · rw [he]; exact hinv.root
  · rw [he, ← runEv_append, List.take_append_drop]

/-- blocks 1, 2, 3 — `Rollback(1)` — blocks 2', 3' -/
def rewound : List Ev :=
  [.block { ops := [([1, 97], .set [1])], idx := [([6, 1], [0xA1])], root := [1] },
   .block { ops := [([1, 97], .set [2])], idx := [([6, 2], [0xA2])], root := [2] },
   .block { ops := [([1, 98], .set [3])], idx := [([6, 3], [0xA3])], root := [3] },
   .rollback 1,
   .block { ops := [([1, 97], .set [4])], idx := [([6, 2], [0xB2])], root := [4] },
   .block { ops := [([1, 99], .set [5])], idx := [([6, 3], [0xB3])], root := [5] }]

/-- non-vacuity: with the source's shape and pointer position the rewound history opens, after 0 … 6 surviving
batches, at heights 0 1 2 3 1 2 3, and at the end holds the state, root and index of the new branch -/
example :
    (List.range 7).map (fun j => version ((runEv shapeOfSource ptrOfSource [] rewound).take j)) = [0, 1, 2, 3, 1, 2, 3] ∧
    (let d := runEv shapeOfSource ptrOfSource [] rewound
     stateScan d = [([1, 97], [4]), ([1, 99], [5])] ∧ latestRoot d = [5] ∧ idxGet d [6, 3] = some [0xB3] ∧
     stateScanAt d 1 = [([1, 97], [1])]) := by decide +kernel

/-- **were `setCommitID` to write the pointer at the version being committed, the property would fail**: the
record `Rollback(1)` leaves at the reserved version shadows the pointers of blocks 2', 3' — the store opens at
the stale height 1 with the root of block 1, although the latest state is that of block 3' and the history
has built three heights. (The model derives the next height from the disk at every commit, i.e. it restarts
before each block: block 3' is then written as height 2 again, over block 2'.) -/
theorem pointer_at_commit_version_reopens_stale :
    let d := runEv .single .commitVersion [] rewound
    version d = 1 ∧ latestRoot d = [1] ∧
    stateScan d = [([1, 97], [4]), ([1, 99], [5])] ∧
    (List.range 7).map (fun j => version (d.take j)) = [0, 1, 2, 3, 1, 1, 1] ∧
    (specRun [] rewound).length = 3 := by
  decide +kernel

/-- …and without a rollback in the history the two pointer positions are indistinguishable, which is why only
histories with a rollback expose it -/
example : (List.range 3).all (fun j =>
    version ((run .single .commitVersion [] demo).take j) == version ((run .single .lss [] demo).take j)) = true := by
  decide +kernel

end Canopy.C09
