import Canopy.Proof.Evidence
import Canopy.Proof.Slash
import Canopy.Proof.CertResults
/-!
# C14 — slashing accountability: only provable equivocation, once, within caps

Model: `Canopy.Model.Evidence` (hand transcription of bft/evidence.go, lib/consensus.go `GetDoubleSigners`,
fsm/byzantine.go, store/indexer.go; view equality, tracker conditions and stake arithmetic are the
**generated** `Gen.Evidence.*`). Signatures are symbolic as in C02: `sig.parts` is the multiset of
individual `(key, payload)` signatures inside an aggregate; an adversary can only aggregate signatures
that exist. The model is run against the real `CheckBasic/Check/ProcessDSE/AddDSE/ValidateByzantineEvidence`
with real BLS committees and against a real `fsm.StateMachine` on every check.

Two clauses of the property were found FALSE of the code by this check:
* **expired evidence** — `ProcessDSE` asked for the minimum evidence height *as of the evidence's own root
  height*, so the bound it compared with was never above that height. Repaired in /repo (c09f5c7: the bound
  is asked as of the replica's current root height). `expired_ignored` is now proved at full strength for the
  repaired wiring, which `expiry_wiring` pins from the source; the behaviour before the repair is kept as
  witness theorems (`expiry_vacuous_before_fix`, `expired_ignored_fails_before_fix`) and the Go driver keeps the
  scenario as a permanent corpus case;
* **cap** — under protocol version 1 (`IsFeatureEnabled(2) = false`, the default genesis) `SlashValidator`
  has no tracker and no cap (`cap_fails_protocol_v1`; a recorded known finding). Under version ≥ 2 the cap is
  proved (`cap_partial`).
-/
namespace Canopy.C14
open Canopy Canopy.Gate Canopy.Evidence
open Canopy.Gen.Evidence (viewEquals phasePropose)

/-! ## (a) only provable equivocation -/

/-- **implicated_sound**: if an honest replica accepts a proposer's slash list against the attached
evidence, then for every listed validator `v` — and for every height it is listed for — the attached
evidence contains two certificates with EQUAL view (`View.Equals`: height, root height, round, phase,
network, chain), each individually valid against the committee of that root height (partial allowed),
over two DIFFERENT payloads, whose aggregates both contain `v`'s own individual signature; the phase is
above PROPOSE and the root height is not below the minimum the controller answered. -/
theorem implicated_sound (env : Env) (slash : List (Option DS)) (be : List (Option DSE))
    (hacc : validateByzantineEvidence env (some slash) be = none) (ds : DS) (hds : some ds ∈ slash) :
    (∃ x ∈ be, ∃ h, Equivocation false env x ds.id h) ∧
    (∀ h ∈ ds.heights, ∃ x ∈ be, Equivocation false env x ds.id h) :=
  validate_sound hacc hds

/-- the same for `ProcessDSE` itself (what a proposer puts into its own slash list, `CalculateSlashRecipients`) -/
theorem processDSE_sound (env : Env) (be : List (Option DSE)) (res : List DS) (h : processDSE env be = .ok res)
    (d : DS) (hd : d ∈ res) : ∀ h ∈ d.heights, ∃ x ∈ be, Equivocation false env x d.id h :=
  fun h' hh' => ((processDSE_backed h d hd).2 h' hh').2

/-- evidence replayed after its slash was indexed on the root chain yields nothing new: `ProcessDSE` never
returns a (validator, height) the root chain already holds in its double-signer index -/
theorem replayed_evidence_filtered (env : Env) (be : List (Option DSE)) (res : List DS) (h : processDSE env be = .ok res)
    (d : DS) (hd : d ∈ res) : ∀ h ∈ d.heights, env.alreadySlashed d.id h = false :=
  fun h' hh' => ((processDSE_backed h d hd).2 h' hh').1

/-- a leader only pools evidence (`AddDSE`) that proves somebody's equivocation -/
theorem pooled_evidence_sound (env : Env) (dup : Bool) (x : Option DSE) (h : addDSE env dup x = .added) :
    ∃ k hh, Equivocation false env (x.map strip) k hh := addDSE_sound h

/-- what the signatures that exist say about a key: at most one payload per view -/
def SignsOncePerView (world : List (KeyId × Payload)) (k : KeyId) : Prop :=
  ∀ p q, (k, p) ∈ world → (k, q) ∈ world → p.header = q.header → p = q

/-- every individual signature inside every aggregate of the evidence exists in the world
(M-sig: aggregates are assembled from existing signatures; re-ordering, re-pairing, sub-aggregating,
replaying and cross-committee reuse are all allowed) -/
def AssembledFrom (world : List (KeyId × Payload)) (be : List (Option DSE)) : Prop :=
  ∀ a b, some ⟨a, b⟩ ∈ be → ∀ q, (a = some q ∨ b = some q) → ∀ sig, q.signature = some sig → ∀ s ∈ sig.parts, s ∈ world

/-- **honest_never_implicated**: a validator whose existing signatures cover at most one payload per view
is in no accepted slash list, whatever evidence is assembled from the signatures that exist. -/
theorem honest_never_implicated (world : List (KeyId × Payload)) (k : KeyId) (hk : SignsOncePerView world k)
    (env : Env) (slash : List (Option DS)) (be : List (Option DSE)) (hw : AssembledFrom world be)
    (hacc : validateByzantineEvidence env (some slash) be = none) :
    ∀ ds, some ds ∈ slash → ds.id ≠ k := by
  intro ds hds hid
  obtain ⟨⟨x, hx, h, ⟨a, b, hd, ms, sa, sb, minH, rfl, va, vb, _, _, _, hne, pa, pb, _⟩⟩, _⟩ :=
    implicated_sound env slash be hacc ds hds
  rw [hid] at pa pb
  have wa := hw _ _ hx a (Or.inl rfl) sa va.signature _ pa
  have wb := hw _ _ hx b (Or.inr rfl) sb vb.signature _ pb
  exact hne (hk _ _ wa wb (by rw [signPayload_header, signPayload_header]))

/-- and it is in no list `ProcessDSE` computes -/
theorem honest_never_in_processDSE (world : List (KeyId × Payload)) (k : KeyId) (hk : SignsOncePerView world k)
    (env : Env) (be : List (Option DSE)) (hw : AssembledFrom world be) (res : List DS)
    (h : processDSE env be = .ok res) : ∀ d ∈ res, d.id ≠ k := by
  intro d hd hid
  obtain ⟨hne, hb⟩ := processDSE_backed h d hd
  cases hh : d.heights with
  | nil => exact hne hh
  | cons h0 _ =>
    obtain ⟨_, x, hx, ⟨a, b, hdr, ms, sa, sb, minH, rfl, va, vb, _, _, _, hne', pa, pb, _⟩⟩ := hb h0 (by rw [hh]; exact List.mem_cons_self)
    rw [hid] at pa pb
    have wa := hw _ _ hx a (Or.inl rfl) sa va.signature _ pa
    have wb := hw _ _ hx b (Or.inr rfl) sb vb.signature _ pb
    exact hne' (hk _ _ wa wb (by rw [signPayload_header, signPayload_header]))

/-! ### non-vacuity: a real equivocation that IS slashed, and the honest co-signers that are not -/

/-- the error of a failed call (`Except` has no decidable equality of its own) -/
def errOf {α} : Except String α → Option String
  | .error e => some e
  | .ok _ => none

def exView : View := { height := 50, round := 0, phase := 6, rootHeight := 3, networkId := 1, chainId := 7 }
def exMembers : List Member := [⟨[1], 10⟩, ⟨[2], 10⟩, ⟨[3], 10⟩, ⟨[4], 10⟩]
def h32 (b : UInt8) : Bytes := List.replicate 32 b
def exPay (blk : UInt8) : Payload := { header := exView, blockHash := h32 blk, resultsHash := h32 8, proposerKey := [] }
def exQC (blk : UInt8) (bm : List Bool) (signers : List KeyId) : QC :=
  { header := some exView, blockHash := some (h32 blk), resultsHash := some (h32 8), proposerKey := none, block := none, results := none,
    signature := some { lenOK := true, parts := signers.map (·, exPay blk), group := exMembers.map (·.key), bitmap := bm } }
/-- block 9 signed by 1, 2, 3; block 5 signed by 1 and 4: validator 1 equivocated, 2, 3, 4 signed once -/
def exA : QC := exQC 9 [true, true, true, false, false, false, false, false] [[1], [2], [3]]
def exB : QC := exQC 5 [true, false, false, true, false, false, false, false] [[1], [4]]
def exEvidence : Option DSE := some ⟨some exA, some exB⟩
def exEnvAt (root : UInt64) (minAt : UInt64 → Option UInt64) : Env :=
  { networkId := 1, chainId := 7, rootHeight := root, globalMaxBlockSize := 100000, committeeAt := fun r => if r == 3 then some exMembers else none,
    minEvidenceAt := minAt, alreadySlashed := fun _ _ => false }
def exEnv := exEnvAt 4

/-- the equivocator is found (and only the equivocator) … -/
example : (processDSE (exEnv fun _ => some 0) [exEvidence]).toOption = some [⟨[1], [3]⟩] := by decide +kernel
/-- … a slash list naming it is accepted … -/
example : validateByzantineEvidence (exEnv fun _ => some 0) (some [some ⟨[1], [3]⟩]) [exEvidence] = none := by decide +kernel
/-- … a list that adds the honest co-signer 2, or another height, is refused … -/
example : validateByzantineEvidence (exEnv fun _ => some 0) (some [some ⟨[1], [3]⟩, some ⟨[2], [3]⟩]) [exEvidence] =
    some Gen.Err.lib.ErrMismatchEvidenceAndHeader := by decide +kernel
example : validateByzantineEvidence (exEnv fun _ => some 0) (some [some ⟨[1], [3, 4]⟩]) [exEvidence] =
    some Gen.Err.lib.ErrMismatchEvidenceAndHeader := by decide +kernel
/-- … the same certificate twice, or two aggregates over one payload, is not evidence -/
example : errOf (processDSE (exEnv fun _ => some 0) [some ⟨some exA, some exA⟩]) = some Gen.Err.lib.ErrNonEquivocatingVote := by decide +kernel
/-- the honest hypothesis is satisfiable and the equivocator does not satisfy it -/
example : SignsOncePerView [([1], exPay 9), ([2], exPay 9), ([1], exPay 5)] [2] := by
  intro p q hp hq _
  simp only [List.mem_cons, Prod.mk.injEq, List.mem_nil_iff, or_false] at hp hq
  rcases hp with ⟨_, rfl⟩ | ⟨_, rfl⟩ | ⟨h, _⟩
  · rcases hq with ⟨_, rfl⟩ | ⟨_, rfl⟩ | ⟨h, _⟩
    · rfl
    · rfl
    · exact absurd h (by decide)
  · rcases hq with ⟨_, rfl⟩ | ⟨_, rfl⟩ | ⟨h, _⟩
    · rfl
    · rfl
    · exact absurd h (by decide)
  · exact absurd h (by decide)
example : ¬ SignsOncePerView [([1], exPay 9), ([2], exPay 9), ([1], exPay 5)] [1] := by
  intro h
  have := h (exPay 9) (exPay 5) (by simp) (by simp) rfl
  exact absurd this (by decide)

/-! ## (b) at most once per (validator, height) -/

/-- **once**: over any sequence of blocks, each containing any slashing operations (any proposer-supplied
double-signer lists — supersets, repeats, replays of earlier blocks — and any other slashes), no
(validator, height) pair is handed to the double-sign slash twice: the index is checked before, and
written together with, every slash. (Failed operations leave no trace: C07.) -/
theorem once (P : Params) (addrOf : KeyId → Option Addr) (L : Ledger) (hL : OnceInv L) (blocks : List (List Op)) :
    (runBlocks P addrOf L blocks).slashLog.Nodup :=
  (runBlocks_once P addrOf blocks L hL).1

/-- the initial ledger satisfies the invariant -/
theorem once_init (vals : Addr → Option Val) : OnceInv { Ledger.empty with vals := vals } :=
  ⟨List.nodup_nil, fun _ h => by simp [Ledger.empty] at h⟩

/-- one call: success means every listed (validator, height) was not yet in the index and now is -/
theorem once_step (P : Params) (addrOf : KeyId → Option Addr) (L L' : Ledger) (hL : OnceInv L) (c : UInt64)
    (dss : List (Option DS)) (h : handleDoubleSigners P addrOf L c dss = .ok L') :
    ∀ ds, some ds ∈ dss → ∃ a, addrOf ds.id = some a ∧ ∀ x ∈ ds.heights, L.indexed a x = false ∧ L'.indexed a x = true := by
  unfold handleDoubleSigners at h
  split at h; · contradiction
  rename_i L1 sl h1
  simp only [Except.ok.injEq] at h
  subst h
  obtain ⟨_, _, i3, _⟩ := indexAll_spec addrOf dss L L1 sl hL h1
  intro ds hds
  obtain ⟨a, ha, hh⟩ := i3 ds hds
  exact ⟨a, ha, fun x hx => by rw [(slashValidators_index P c P.dsPercent sl L1).1]; exact hh x hx⟩

/-- a replay is refused as a whole -/
theorem replay_rejected (P : Params) (addrOf : KeyId → Option Addr) (L : Ledger) (hL : OnceInv L) (c : UInt64)
    (dss : List (Option DS)) (ds : DS) (hds : some ds ∈ dss) (a : Addr) (ha : addrOf ds.id = some a)
    (x : UInt64) (hx : x ∈ ds.heights) (hidx : L.indexed a x = true) :
    ∃ e, handleDoubleSigners P addrOf L c dss = .error e := by
  cases h : handleDoubleSigners P addrOf L c dss with
  | error e => exact ⟨e, rfl⟩
  | ok L' =>
    obtain ⟨a', ha', hh⟩ := once_step P addrOf L L' hL c dss h ds hds
    rw [ha] at ha'; cases ha'
    rw [(hh x hx).1] at hidx; contradiction

def exAddrOf : KeyId → Option Addr := fun k => some k
def exLedger : Ledger := { Ledger.empty with vals := fun a => if a == [1] then some ⟨1000, [1, 2], false⟩ else none }
def exP : Params := { committeeScoped := true, maxSlash := 15, dsPercent := 10 }

/-- non-vacuity: the first slash for (validator 1, height 3) happens (1000 → 900), the replay in the next block is refused -/
example : stakeOf (runBlocks exP exAddrOf exLedger [[.doubleSign 1 [some ⟨[1], [3]⟩]]]) [1] = 900 := by decide +kernel
example : errOf (handleDoubleSigners exP exAddrOf (runBlocks exP exAddrOf exLedger [[.doubleSign 1 [some ⟨[1], [3]⟩]]]) 1 [some ⟨[1], [3]⟩]) =
    some Gen.Err.lib.ErrInvalidDoubleSigner := by decide +kernel

/-! ## (c) expired evidence -/

/-- FULL STATEMENT of the clause "expired evidence is ignored", for the node as it is wired: the replica is at
root height `r` (`b.RootHeight`, `0 < r ≤` the root chain's height `cur`), the unstaking period is `ub`, and
`LoadMinimumEvidenceHeight(_, h)` is answered by the root chain's RPC (`TimeMachine(h)` then
`LoadMinimumEvidenceHeight`, i.e. `wiredMinEvidence cur ub h`). Then no accepted slash rests on evidence whose root
height lies before the unstaking window that ends at `r`. `preFix` selects the wiring before / after repair c09f5c7. -/
def ExpiredIgnored (preFix : Bool) : Prop :=
  ∀ (cur ub : UInt64) (env : Env), env.rootHeight ≠ 0 → env.rootHeight ≤ cur →
    (∀ h, env.minEvidenceAt h = some (wiredMinEvidence cur ub h)) →
    ∀ (slash : List (Option DS)) (be : List (Option DSE)) (ds : DS) (h : UInt64),
      validateByzantineEvidenceWith preFix env (some slash) be = none → some ds ∈ slash → h ∈ ds.heights →
      ¬ h < Gen.Evidence.minEvidenceHeight env.rootHeight ub

/-- **expired_ignored** (full strength, the repaired wiring): expired evidence never supports an accepted slash. -/
theorem expired_ignored : ExpiredIgnored false := by
  intro cur ub env h0 hle hwire slash be ds h hacc hds hh
  obtain ⟨x, _, ⟨_, _, _, _, _, _, minH, _, _, _, _, _, _, _, _, _, _, hm, hmle⟩⟩ := (validate_sound hacc hds).2 h hh
  simp only [Bool.false_eq_true, ↓reduceIte] at hm
  rw [hwire] at hm
  cases hm
  have hz : (env.rootHeight == 0) = false := by simpa using h0
  have hgt : decide (env.rootHeight > cur) = false := by
    simp only [gt_iff_lt, decide_eq_false_iff_not, UInt64.not_lt]; exact hle
  unfold wiredMinEvidence at hmle
  simp only [hz, hgt, Bool.or_self, Bool.false_eq_true, ↓reduceIte] at hmle
  rw [UInt64.lt_iff_toNat_lt]
  rw [UInt64.le_iff_toNat_le] at hmle
  omega

/-- the same for whatever bound the controller answers: every accepted (validator, height) has `bound ≤ height` -/
theorem expired_ignored_bound (env : Env) (bound : UInt64) (hbound : env.minEvidenceAt env.rootHeight = some bound)
    (slash : List (Option DS)) (be : List (Option DSE))
    (hacc : validateByzantineEvidence env (some slash) be = none) (ds : DS) (hds : some ds ∈ slash) :
    ∀ h ∈ ds.heights, bound ≤ h := by
  intro h hh
  obtain ⟨x, _, ⟨_, _, _, _, _, _, minH, _, _, _, _, _, _, _, _, _, _, hm, hle⟩⟩ := (implicated_sound env slash be hacc ds hds).2 h hh
  simp only [Bool.false_eq_true, ↓reduceIte] at hm
  rw [hbound] at hm
  cases hm
  exact hle

/-- the check itself: evidence below the minimum handed to `Check` is rejected with ErrEvidenceTooOld, first of all -/
theorem check_expired (env : Env) (a b : QC) (ha hb : View) (ms : List Member) (m : UInt64) (h : ha.rootHeight < m) :
    check env a b ha hb ms m = some Gen.Err.lib.ErrEvidenceTooOld := by
  unfold check
  simp [h]

/-- one expired piece of evidence makes the whole proposal's evidence fail -/
theorem expired_fails_list (env : Env) (be : List (Option DSE)) (a b : QC) (hd : View) (ms : List Member) (m : UInt64)
    (hx : some ⟨some a, some b⟩ ∈ be) (ha : a.header = some hd) (hb : b.header = some hd)
    (hms : env.committeeAt hd.rootHeight = some ms) (hm : env.minEvidenceAt env.rootHeight = some m) (hexp : hd.rootHeight < m)
    (slash : List (Option DS)) (hne : slash ≠ []) : validateByzantineEvidence env (some slash) be ≠ none := by
  have hone : processOneWith false env (some ⟨some a, some b⟩) = .error Gen.Err.lib.ErrEvidenceTooOld := by
    unfold processOneWith unpack
    simp only [ha, hb, viewEquals_refl, Bool.not_true, Bool.false_eq_true, ↓reduceIte, hms, hm, check_expired env a b hd hd ms m hexp]
  obtain ⟨e', he'⟩ := processDSEFrom_error be [] hx hone
  unfold validateByzantineEvidence validateByzantineEvidenceWith processDSEWith
  simp only [he']
  split
  · rename_i hlen; exact absurd (List.eq_nil_of_length_eq_zero (by simpa using hlen)) hne
  · simp

/-- the wiring, pinned from the source on every run: `ProcessDSE` asks as of `b.RootHeight` (c09f5c7), the
controller forwards to the root chain's RPC, whose handler evaluates `LoadMinimumEvidenceHeight` on
`TimeMachine(requested height)` -/
theorem expiry_wiring :
    Gen.Evidence.processDSE_minHeightArgs = "rootChainId, b.RootHeight" ∧
    Gen.Evidence.processDSE_committeeHeight = "x.VoteA.Header.RootHeight" ∧
    Gen.Evidence.src_controllerLoadMin = "return c.RCManager.GetMinimumEvidenceHeight(rootChainId, rootHeight)" ∧
    Gen.Evidence.src_rcManagerGetMin = "return sub.MinimumEvidenceHeight(height)" ∧
    Gen.Evidence.src_clientMin = "p = new(uint64); err = c.heightRequest(MinimumEvidenceHeightRouteName, height, p); return" ∧
    Gen.Evidence.src_serverMin = "s.heightParams(w, r, func(...){return s.LoadMinimumEvidenceHeight()})" ∧
    Gen.Evidence.src_timeMachineClamp = "if height == 0 || height > s.height { height = s.height }" :=
  ⟨rfl, rfl, rfl, rfl, rfl, rfl, rfl⟩

/-! ### the behaviour before repair c09f5c7, kept as witnesses -/

/-- before the repair `ProcessDSE` asked for the bound as of the evidence's own root height `h`: that bound is
never above `h`, for every root-chain height and unstaking period — the expiry test of `Check` could not fire
(root height 0 aside). -/
theorem expiry_vacuous_before_fix (cur ub h : UInt64) (h0 : h ≠ 0) : ¬ h < wiredMinEvidence cur ub h := by
  unfold wiredMinEvidence Gen.Evidence.minEvidenceHeight
  have hz : (h == 0) = false := by simpa using h0
  simp only [hz, Bool.false_or]
  rw [UInt64.lt_iff_toNat_lt]
  by_cases hc : h > cur
  · simp only [hc, decide_true, ↓reduceIte]
    rw [gt_iff_lt, UInt64.lt_iff_toNat_lt] at hc
    split
    · simp
    · rename_i hlt
      simp only [decide_eq_true_eq, UInt64.not_lt] at hlt
      rw [UInt64.toNat_sub_of_le _ _ hlt]
      omega
  · simp only [hc, decide_false, Bool.false_eq_true, ↓reduceIte]
    split
    · simp
    · rename_i hlt
      simp only [decide_eq_true_eq, UInt64.not_lt] at hlt
      rw [UInt64.toNat_sub_of_le _ _ hlt]
      omega

/-- **before the repair the full statement was false**: replica and root chain at height 1000, unstaking period 2
(minimum evidence height 998); the equivocation of root height 3 was accepted. The Go driver keeps the scenario the
oracle found (root chain at 10, unstaking 3, evidence of root height 6) as a corpus case that must be rejected now. -/
theorem expired_ignored_fails_before_fix : ¬ ExpiredIgnored true := by
  intro h
  have := h 1000 2 (exEnvAt 1000 fun r => some (wiredMinEvidence 1000 2 r)) (by decide) (by decide) (fun _ => rfl)
    [some ⟨[1], [3]⟩] [exEvidence] ⟨[1], [3]⟩ 3 (by decide +kernel) (by simp) (by simp)
  exact this (by decide +kernel)

/-- the same evidence, same state, after the repair: refused as too old -/
example : validateByzantineEvidenceWith false (exEnvAt 1000 fun r => some (wiredMinEvidence 1000 2 r))
    (some [some ⟨[1], [3]⟩]) [exEvidence] = some Gen.Err.lib.ErrEvidenceTooOld := by decide +kernel

/-! ## (d) the per-committee cap within one block -/

/-- FULL STATEMENT of the cap clause for parameters `P`: within one block, whatever slashing operations it
contains, the percentages charged to any (validator, committee) add up to at most `MaxSlashPerCommittee`. -/
def CapHolds (P : Params) : Prop :=
  ∀ (addrOf : KeyId → Option Addr) (L : Ledger) (ops : List Op), OpsBounded P ops →
    ∀ a c, (runBlock P addrOf L ops).charged a c ≤ P.maxSlash.toNat

/-- **cap_partial**: under protocol version ≥ 2 (committee-scoped slashing) the cap holds, for every block
content; the tracker is exactly the sum charged. (`OpsBounded`, `hds`: the percentages do not wrap 64 bits —
always true of the percentages `ValidatorParams.Check` admits, which are ≤ 100.) -/
theorem cap_partial (P : Params) (hs : P.committeeScoped = true) (hds : P.dsPercent.toNat + P.maxSlash.toNat < 2 ^ 64) :
    CapHolds P := by
  intro addrOf L ops hb a c
  exact ((runOps_cap P hs hds addrOf ops hb (newBlock L) (newBlock_cap P L)) a c).2

/-- and the tracker the code keeps is exactly what was charged -/
theorem tracker_exact (P : Params) (hs : P.committeeScoped = true) (hds : P.dsPercent.toNat + P.maxSlash.toNat < 2 ^ 64)
    (addrOf : KeyId → Option Addr) (L : Ledger) (ops : List Op) (hb : OpsBounded P ops) (a : Addr) (c : UInt64) :
    ((runBlock P addrOf L ops).tracker a c).toNat = (runBlock P addrOf L ops).charged a c :=
  ((runOps_cap P hs hds addrOf ops hb (newBlock L) (newBlock_cap P L)) a c).1

/-- the tracker is written before the first state change and before every return other than the two "nothing
happens" returns of the protocol-v2 block: no early return of `SlashValidator` (validator deleted, validator
force-unstaked because the slash left it below the minimum stake, store errors) can leave a stake cut that the
tracker does not know about. Pinned from the source on every run; `applySlash` of the model relies on it. -/
theorem tracker_updated_before_early_returns :
    Gen.Evidence.slashValidator[Gen.Evidence.slashValidator_addSlashLine]? =
      some "  s.slashTracker.AddSlash(validator.Address, chainId, percent)" ∧
    Gen.Evidence.slashValidator[Gen.Evidence.slashValidator_firstChangeLine]? =
      some "if err = s.SubFromTotalSupply(slashAmount); err != nil {" ∧
    Gen.Evidence.slashValidator_addSlashLine < Gen.Evidence.slashValidator_firstChangeLine ∧
    Gen.Evidence.slashValidator_returnLines.filter (· < Gen.Evidence.slashValidator_addSlashLine) = [3, 7] ∧
    Gen.Evidence.slashValidator[3]? = some "    return nil" ∧ Gen.Evidence.slashValidator[7]? = some "    return nil" :=
  ⟨rfl, rfl, by decide, rfl, rfl, rfl⟩

def exPmin : Params := { committeeScoped := true, maxSlash := 15, dsPercent := 10, minStake := 950 }

/-- non-vacuity of the force-unstake branch: stake 1000, minimum 950, three double-sign heights in one entry:
1000 → 900 (below the minimum: force-unstaked, still a member, tracker 10) → 855 (cut to the remaining 5 %,
ejected) → third slash refused; 15 % charged in total -/
example : (runBlock exPmin exAddrOf exLedger [.doubleSign 1 [some ⟨[1], [1, 2, 3]⟩]]).vals [1] = some ⟨855, [2], true⟩ ∧
    (runBlock exPmin exAddrOf exLedger [.doubleSign 1 [some ⟨[1], [1, 2, 3]⟩]]).charged [1] 1 = 15 := by decide +kernel

def exP1 : Params := { committeeScoped := false, maxSlash := 15, dsPercent := 10 }

/-- **the full statement is false under protocol version 1**: two 10 % slashes by committee 1 in one block charge 20 % > 15 %
(1000 → 900 → 810 < 850). The Go oracle reproduces this on a real state machine at protocol version 1
(signature `C14:slash-cap-not-enforced-protocol-v1`). -/
theorem cap_fails_protocol_v1 : ¬ CapHolds exP1 := by
  intro h
  have := h exAddrOf exLedger [.slash 1 10 [[1]], .slash 1 10 [[1]]] (by intro op hop; simp at hop; rcases hop with rfl | rfl <;> decide) [1] 1
  exact absurd this (by decide +kernel)
example : stakeOf (runBlock exP1 exAddrOf exLedger [.slash 1 10 [[1]], .slash 1 10 [[1]]]) [1] = 810 := by decide +kernel
/-- non-vacuity under version 2: the second slash is cut to the remaining 5 % and the validator leaves the committee -/
example : stakeOf (runBlock exP exAddrOf exLedger [.slash 1 10 [[1]], .slash 1 10 [[1]]]) [1] = 855 ∧
    (runBlock exP exAddrOf exLedger [.slash 1 10 [[1]], .slash 1 10 [[1]]]).charged [1] 1 = 15 ∧
    (runBlock exP exAddrOf exLedger [.slash 1 10 [[1]], .slash 1 10 [[1]]]).vals [1] = some ⟨855, [2], false⟩ := by decide +kernel

/-- **the stake bound, exactly**: under protocol version ≥ 2 with cap `M ≤ 100`, if within one block committee `c`
slashes validator `a` any number `n` of times (any percentages), then
`stake_before · (100 − M) ≤ 100 · stake_after + 100 · n`,
i.e. `stake_after ≥ stake_before·(100−M)/100 − n`: the cap, minus one unit of rounding per slash
(a deleted validator counts as stake 0). -/
theorem cap_stake_bound (P : Params) (hs : P.committeeScoped = true) (hmax : P.maxSlash.toNat ≤ 100)
    (L : Ledger) (a : Addr) (c : UInt64) (ps : List UInt64) (hps : ∀ p ∈ ps, p.toNat + P.maxSlash.toNat < 2 ^ 64) :
    (stakeOf L a).toNat * (100 - P.maxSlash.toNat) ≤
      100 * (stakeOf (ps.foldl (fun L p => slashValidators P L c p [a]) (newBlock L)) a).toNat + 100 * ps.length := by
  have := slashMany_potential P hs hmax a c ps hps (newBlock L) rfl (Nat.zero_le _)
  simpa [potential, newBlock, stakeOf, slashOne] using this

/-- one slash, exactly: the stake left is `⌊stake·(100−percent)/100⌋` -/
theorem slash_exact (s p : UInt64) (hp : p.toNat ≤ 100) :
    (Gen.Evidence.stakeAfterSlash s p).toNat = s.toNat * (100 - p.toNat) / 100 :=
  stakeAfterSlash_floor s p hp

/-! ## (e) the slash list of a nested committee on the root chain (certificate-results transactions)

A nested chain's slash list reaches `HandleDoubleSigners` of the root chain inside the `Results` of a certificate
of the nested committee. `QuorumCertificate.SignBytes` of an ELECTION_VOTE certificate covers header and proposer
key only, and `CheckBasic` lets such a certificate carry `Results`/`ResultsHash`/`BlockHash` (that is the shape of
the PROPOSE message). Found by this check: the root chain accepted it as certificate results, so the proposer a
committee had elected — one Byzantine member — could attach a slash list of its own making and have honest
validators slashed. Repaired: `MessageCertificateResults.Check` refuses ELECTION_VOTE certificates. -/

/-- **certificate_results_sound**: an accepted certificate-results transaction carries a certificate that is not an
ELECTION_VOTE certificate, whose aggregate consists of the individual signatures — over a payload that contains
exactly the hash of the attached results — of members of the committee in force at its root height holding +2/3,
and the transaction was signed by the certificate's proposer. So the slash list inside the results is one that
+2/3 of the committee signed (each honest signer after `ValidateByzantineEvidence`, `implicated_sound`). -/
theorem certificate_results_sound (env : Env) (P : Params) (addrOf : KeyId → Option Addr) (L : Ledger) (cd : CommitteeData)
    (q : QC) (signedByProposer : Bool) (slash : Option (List (Option DS))) (r : Ledger × CommitteeData)
    (h : certificateResults env P addrOf L cd q signedByProposer slash = .ok r) :
    CertifiedResults env q ∧ signedByProposer = true :=
  certificateResults_certified h

/-- every selected signer's own signature over the payload naming these results is inside the aggregate -/
theorem certificate_results_signed (env : Env) (P : Params) (addrOf : KeyId → Option Addr) (L : Ledger) (cd : CommitteeData)
    (q : QC) (sp : Bool) (slash : Option (List (Option DS))) (r : Ledger × CommitteeData)
    (h : certificateResults env P addrOf L cd q sp slash = .ok r) :
    ∃ hd ms sig res, q.header = some hd ∧ env.committeeAt hd.rootHeight = some ms ∧ q.signature = some sig ∧
      q.results = some res ∧ (payloadOf q hd).resultsHash = res.hash ∧
      ∀ k ∈ (selected sig.bitmap ms).map (·.key), (k, payloadOf q hd) ∈ sig.parts := by
  obtain ⟨⟨hd, ms, sig, res, e1, _, e3, e4, e5, _, e7, e8, _⟩⟩ := (certificateResults_certified h).1
  exact ⟨hd, ms, sig, res, e1, e3, e4, e5, e8, agg_parts _ _ _ _ e7⟩

/-- the sign bytes of an ELECTION_VOTE certificate are blind to whatever results are attached -/
theorem election_sign_bytes_ignore_results (q q' : QC) (hd : View) (h : hd.phase = Gen.Evidence.phaseElectionVote)
    (hp : q.proposerKey = q'.proposerKey) : signPayload q hd = signPayload q' hd :=
  signPayload_election_ignores_results q q' hd h hp

def exElectionView : View := { exView with phase := 2 }
/-- the committee elected member 4 (unanimously); member 4 attaches results of its own making -/
def exForged : QC :=
  { header := some exElectionView, blockHash := some (h32 1), resultsHash := some (h32 7), proposerKey := some [4],
    block := none, results := some ⟨true, h32 7⟩,
    signature := some { lenOK := true, group := exMembers.map (·.key), bitmap := [true, true, true, true, false, false, false, false],
                        parts := exMembers.map fun m => (m.key, { header := exElectionView, blockHash := [], resultsHash := [], proposerKey := [4] }) } }
def exLedger2 : Ledger :=
  { Ledger.empty with vals := fun a => if a == [2] || a == [4] then some ⟨1000, [1, 7], false⟩ else none }

/-- **before the repair** the forged transaction was accepted and honest member 2 — one signature in that view —
lost 10 %: reproduced on the real state machine by the Go oracle
(`C14:honest-validator-implicated:election-certificate-carries-slash-list`) -/
theorem election_certificate_carried_slash_list_before_fix :
    (certificateResultsWith false (exEnv fun _ => some 0) exP exAddrOf exLedger2 {} exForged true (some [some ⟨[2], [3]⟩])).toOption.map
      (fun r => stakeOf r.1 [2]) = some 900 := by decide +kernel

/-- the same transaction under the repaired check: refused for its phase -/
example : errOf (certificateResults (exEnv fun _ => some 0) exP exAddrOf exLedger2 {} exForged true (some [some ⟨[2], [3]⟩])) =
    some Gen.Err.lib.ErrWrongPhase := by decide +kernel

/-- non-vacuity: results that +2/3 signed in PRECOMMIT_VOTE are accepted and their slash list is applied -/
def exSigned : QC :=
  { header := some exView, blockHash := some (h32 1), resultsHash := some (h32 7), proposerKey := some [2],
    block := none, results := some ⟨true, h32 7⟩,
    signature := some { lenOK := true, group := exMembers.map (·.key), bitmap := [true, true, true, false, false, false, false, false],
                        parts := [[1], [2], [3]].map fun k => (k, { header := exView, blockHash := h32 1, resultsHash := h32 7, proposerKey := [2] }) } }
example : (certificateResults (exEnv fun _ => some 0) exP exAddrOf exLedger2 {} exSigned true (some [some ⟨[4], [3]⟩])).toOption.map
    (fun r => (stakeOf r.1 [4], r.2)) = some (900, ⟨3, 50⟩) := by decide +kernel
/-- … the same certificate sent by somebody other than its proposer, or with other results, is refused -/
example : errOf (certificateResults (exEnv fun _ => some 0) exP exAddrOf exLedger2 {} exSigned false (some [some ⟨[4], [3]⟩])) =
    some Gen.Evidence.fsmErrUnauthorizedTx := by decide +kernel
example : errOf (certificateResults (exEnv fun _ => some 0) exP exAddrOf exLedger2 {}
    { exSigned with resultsHash := some (h32 6), results := some ⟨true, h32 6⟩ } true (some [some ⟨[1], [3]⟩])) =
    some Gen.Err.lib.ErrInvalidAggrSignature := by decide +kernel

/-- **the repair is in the source** (pinned on every run): `MessageCertificateResults.Check` refuses ELECTION_VOTE
certificates, after `CheckBasic` (so the header exists) -/
theorem certificateResults_rejects_election_phase :
    Gen.Evidence.certResultsCheck.idxOf "if err := x.Qc.CheckBasic(); err != nil {" <
      Gen.Evidence.certResultsCheck.idxOf "if x.Qc.Header.Phase == lib.Phase_ELECTION_VOTE {" ∧
    Gen.Evidence.certResultsCheck[Gen.Evidence.certResultsCheck.idxOf "if x.Qc.Header.Phase == lib.Phase_ELECTION_VOTE {" + 1]? =
      some "  return lib.ErrWrongPhase()" := by decide +kernel

theorem certResultsCheck_shape : Gen.Evidence.certResultsCheck = [
  "if x == nil {",
  "  return ErrEmptyCertificateResults()",
  "}",
  "if err := x.Qc.CheckBasic(); err != nil {",
  "  return err",
  "}",
  "results := x.Qc.Results",
  "if results == nil {",
  "  return ErrEmptyCertificateResults()",
  "}",
  "if x.Qc.Block != nil {",
  "  return lib.ErrNilBlock()",
  "}",
  "if x.Qc.Header.Phase == lib.Phase_ELECTION_VOTE {",
  "  return lib.ErrWrongPhase()",
  "}",
  "if err := checkChainId(x.Qc.Header.ChainId); err != nil {",
  "  return err",
  "}",
  "if err := results.RewardRecipients.CheckBasic(); err != nil {",
  "  return err",
  "}",
  "if results.RewardRecipients.NumberOfSamples != 0 {",
  "  return ErrInvalidNumOfSamples()",
  "}",
  "if results.Checkpoint != nil {",
  "  if len(results.Checkpoint.BlockHash) > 100 {",
  "    return lib.ErrInvalidBlockHash()",
  "  }",
  "}",
  "return checkOrders(results.Orders)"] := rfl

theorem handleMessageCertificateResults_shape : Gen.Evidence.handleMessageCertificateResults = [
  "rootChainId, err := s.GetRootChainId()",
  "if err != nil {",
  "  return err",
  "}",
  "if msg.Qc.Header.ChainId == rootChainId || msg.Qc.Header.ChainId == s.Config.ChainId {",
  "  return ErrInvalidCertificateResults()",
  "}",
  "chainId := msg.Qc.Header.ChainId",
  "var committee *lib.ValidatorSet",
  "if s.LastValidatorSet != nil {",
  "  committee = s.LastValidatorSet[msg.Qc.Header.RootHeight + 1][chainId]",
  "}",
  "if committee == nil {",
  "  valSet, err := s.LoadCommittee(chainId, msg.Qc.Header.RootHeight)",
  "  if err != nil {",
  "    return err",
  "  }",
  "  committee = &valSet",
  "}",
  "isPartialQC, err := msg.Qc.Check(*committee, 0, &lib.View{NetworkId: uint64(s.NetworkID), ChainId: chainId}, false)",
  "if err != nil {",
  "  return err",
  "}",
  "if isPartialQC {",
  "  return lib.ErrNoMaj23()",
  "}",
  "err = s.HandleCertificateResults(msg.Qc, committee)",
  "return err"] := rfl

theorem handleCertificateResults_shape : Gen.Evidence.handleCertificateResults = [
  "if qc == nil || qc.Results == nil {",
  "  return lib.ErrNilCertResults()",
  "}",
  "if qc.Header == nil {",
  "  return lib.ErrEmptyView()",
  "}",
  "if qc.Results.RewardRecipients == nil {",
  "  return lib.ErrNilRewardRecipients()",
  "}",
  "retired, err := s.CommitteeIsRetired(qc.Header.ChainId)",
  "if err != nil {",
  "  return err",
  "}",
  "if retired {",
  "  return ErrNonSubsidizedCommittee()",
  "}",
  "data, err := s.GetCommitteeData(qc.Header.ChainId)",
  "if err != nil {",
  "  return err",
  "}",
  "if qc.Header.RootHeight < data.LastRootHeightUpdated {",
  "  return lib.ErrInvalidQCRootChainHeight()",
  "}",
  "if qc.Header.Height <= data.LastChainHeightUpdated {",
  "  return lib.ErrInvalidQCCommitteeHeight()",
  "}",
  "results, chainId, isNested := qc.Results, qc.Header.ChainId, committee == nil",
  "if qc.Header.ChainId != s.Config.ChainId || isNested {",
  "  if err = s.HandleDexBatch(qc.Header.ChainId, results, isNested); err != nil {",
  "    return err",
  "  }",
  "}",
  "s.HandleCommitteeSwaps(results.Orders, chainId)",
  "if err = s.HandleCheckpoint(chainId, results); err != nil {",
  "  return err",
  "}",
  "nonSignerPercent, err := s.HandleByzantine(qc, committee)",
  "if err != nil {",
  "  return err",
  "}",
  "for i, p := range results.RewardRecipients.PaymentPercents {",
  "  if p == nil {",
  "    return lib.ErrInvalidPercentAllocation()",
  "  }",
  "  results.RewardRecipients.PaymentPercents[i].Percent = lib.Uint64ReducePercentage(p.Percent, uint64(nonSignerPercent))",
  "}",
  "if qc.Results.Retired && qc.Header.ChainId != s.Config.ChainId {",
  "  if err = s.RetireCommittee(qc.Header.ChainId); err != nil {",
  "    return err",
  "  }",
  "}",
  "err = s.UpsertCommitteeData(&lib.CommitteeData{ChainId: chainId, LastRootHeightUpdated: qc.Header.RootHeight, LastChainHeightUpdated: qc.Header.Height, PaymentPercents: results.RewardRecipients.PaymentPercents})",
  "if err != nil {",
  "  return err",
  "}",
  "return nil"] := rfl

theorem certResults_signer_and_errors :
    Gen.Evidence.src_certResultsAuthorizedSigner = "address, e := s.pubKeyBytesToAddress(x.Qc.ProposerKey); if e != nil { return nil, e }; return [][]byte{address}, nil" ∧
    Gen.Evidence.fsmErrUnauthorizedTx = "state_machine/3" ∧ Gen.Evidence.fsmErrEmptyCertificateResults = "state_machine/89" :=
  ⟨rfl, rfl, rfl⟩

/-! ## the code has the shape the model transcribes (pinned from the source on every run) -/

theorem dseCheckBasic_shape : Gen.Evidence.dseCheckBasic = [
  "if x == nil {",
  "  return lib.ErrEmptyEvidence()",
  "}",
  "if x.VoteA == nil || x.VoteB == nil || x.VoteA.Header == nil || x.VoteB.Header == nil {",
  "  return lib.ErrEmptyQuorumCertificate()",
  "}",
  "if !x.VoteA.Header.Equals(x.VoteB.Header) {",
  "  return lib.ErrMismatchEvidenceAndHeader()",
  "}",
  "return nil"] := rfl

theorem dseCheck_shape : Gen.Evidence.dseCheck = [
  "if x.VoteA.Header.RootHeight < minimumEvidenceHeight {",
  "  return lib.ErrEvidenceTooOld()",
  "}",
  "if x.VoteA.Block != nil || x.VoteB.Block != nil {",
  "  return lib.ErrNonNilBlock()",
  "}",
  "if x.VoteA.Results != nil || x.VoteB.Results != nil {",
  "  return lib.ErrNonNilCertResults()",
  "}",
  "if _, err := x.VoteA.Check(vs, 0, view, false); err != nil {",
  "  return err",
  "}",
  "if _, err := x.VoteB.Check(vs, 0, view, false); err != nil {",
  "  return err",
  "}",
  "if !x.VoteA.Header.Equals(x.VoteB.Header) {",
  "  return lib.ErrInvalidEvidenceHeights()",
  "}",
  "if bytes.Equal(x.VoteB.SignBytes(), x.VoteA.SignBytes()) {",
  "  return lib.ErrNonEquivocatingVote()",
  "}",
  "if x.VoteA.Header.Phase <= Propose {",
  "  return lib.ErrWrongPhase()",
  "}",
  "return nil"] := rfl

theorem processDSE_shape : Gen.Evidence.processDSE = [
  "results = make([]*lib.DoubleSigner, 0)",
  "for _, x := range dse {",
  "  if err := x.CheckBasic(); err != nil {",
  "    return nil, err",
  "  }",
  "  committeeHeight := x.VoteA.Header.RootHeight",
  "  rootChainId := b.Controller.LoadRootChainId(committeeHeight - 1)",
  "  vs, err := b.LoadCommittee(rootChainId, committeeHeight)",
  "  if err != nil {",
  "    return nil, err",
  "  }",
  "  minEvidenceHeight, err := b.LoadMinimumEvidenceHeight(rootChainId, b.RootHeight)",
  "  if err != nil {",
  "    return nil, err",
  "  }",
  "  if err = x.Check(vs, b.View, *minEvidenceHeight); err != nil {",
  "    return nil, err",
  "  }",
  "  if bytes.Equal(x.VoteB.SignBytes(), x.VoteA.SignBytes()) {",
  "    return nil, lib.ErrNonEquivocatingVote()",
  "  }",
  "  sig1, sig2 := x.VoteA.Signature, x.VoteB.Signature",
  "  doubleSigners, err := sig1.GetDoubleSigners(sig2, vs)",
  "  if err != nil {",
  "    return nil, err",
  "  }",
  "  out:",
  "  for _, pubKey := range doubleSigners {",
  "    pk, er := crypto.NewPublicKeyFromBytes(pubKey)",
  "    if er != nil {",
  "      return nil, lib.ErrPubKeyFromBytes(er)",
  "    }",
  "    if b.IsValidDoubleSigner(rootChainId, committeeHeight, pk.Address().Bytes()) {",
  "      for i, doubleSigner := range results {",
  "        if bytes.Equal(doubleSigner.Id, pubKey) {",
  "          results[i].AddHeight(committeeHeight)",
  "          continue out",
  "        }",
  "      }",
  "      results = append(results, &lib.DoubleSigner{Id: pubKey, Heights: []uint64{committeeHeight}})",
  "    } else {",
  "    }",
  "  }",
  "}",
  "return"] := rfl

theorem validateByzantineEvidence_shape : Gen.Evidence.validateByzantineEvidence = [
  "if slashRecipients == nil {",
  "  return nil",
  "}",
  "if len(slashRecipients.DoubleSigners) != 0 {",
  "  doubleSigners, err := b.ProcessDSE(be.DSE.Evidence...)",
  "  if err != nil {",
  "    return err",
  "  }",
  "  for _, ds := range slashRecipients.DoubleSigners {",
  "    if ds == nil {",
  "      return lib.ErrEmptyDoubleSigner()",
  "    }",
  "    if !slices.ContainsFunc(doubleSigners, func(...){if signer == nil || !bytes.Equal(ds.Id, signer.Id) { return false }; for _, height := range ds.Heights { if !slices.Contains(signer.Heights, height) { return false } }; return true}) {",
  "      return lib.ErrMismatchEvidenceAndHeader()",
  "    }",
  "  }",
  "}",
  "return nil"] := rfl

theorem getDoubleSigners_shape : Gen.Evidence.getDoubleSigners = [
  "key, key2 := vs.MultiKey.Copy(), vs.MultiKey.Copy()",
  "if er := key.SetBitmap(x.Bitmap); er != nil {",
  "  return nil, ErrInvalidSignerBitmap(er)",
  "}",
  "if er := key2.SetBitmap(y.Bitmap); er != nil {",
  "  return nil, ErrInvalidSignerBitmap(er)",
  "}",
  "for i, val := range vs.ValidatorSet.ValidatorSet {",
  "  signed, e := key.SignerEnabledAt(i)",
  "  if e != nil {",
  "    return nil, ErrInvalidSignerBitmap(e)",
  "  }",
  "  if signed {",
  "    signed, e = key2.SignerEnabledAt(i)",
  "    if e != nil {",
  "      return nil, ErrInvalidSignerBitmap(e)",
  "    }",
  "    if signed {",
  "      doubleSigners = append(doubleSigners, val.PublicKey)",
  "    }",
  "  }",
  "}",
  "return"] := rfl

theorem signBytes_shape : Gen.Evidence.signBytes = [
  "if x.Header != nil && x.Header.Phase == Phase_ELECTION_VOTE {",
  "  minified := &QuorumCertificate{Header: x.Header, ProposerKey: x.ProposerKey}",
  "  signBytes, _ = Marshal(minified)",
  "  return",
  "}",
  "results, block, aggregateSignature := x.Results, x.Block, x.Signature",
  "x.Results, x.Block, x.Signature = nil, nil, nil",
  "signBytes, _ = Marshal(x)",
  "x.Results, x.Block, x.Signature = results, block, aggregateSignature",
  "return"] := rfl

theorem handleDoubleSigners_shape : Gen.Evidence.handleDoubleSigners = [
  "store, ok := s.Store().(lib.StoreI)",
  "if !ok {",
  "  return ErrWrongStoreType()",
  "}",
  "var slashList [][]byte",
  "for _, doubleSigner := range doubleSigners {",
  "  if doubleSigner == nil || doubleSigner.Id == nil {",
  "    return lib.ErrEmptyDoubleSigner()",
  "  }",
  "  if len(doubleSigner.Heights) == 0 {",
  "    return lib.ErrInvalidDoubleSignHeights()",
  "  }",
  "  pubKey, e := crypto.NewPublicKeyFromBytes(doubleSigner.Id)",
  "  if e != nil {",
  "    return lib.ErrPubKeyFromBytes(e)",
  "  }",
  "  address := pubKey.Address().Bytes()",
  "  for _, height := range doubleSigner.Heights {",
  "    isValidDS, err := store.IsValidDoubleSigner(address, height)",
  "    if err != nil {",
  "      return err",
  "    }",
  "    if !isValidDS {",
  "      return lib.ErrInvalidDoubleSigner()",
  "    }",
  "    if err = store.IndexDoubleSigner(address, height); err != nil {",
  "      return err",
  "    }",
  "    slashList = append(slashList, pubKey.Address().Bytes())",
  "  }",
  "}",
  "return s.SlashDoubleSigners(chainId, params, slashList)"] := rfl

theorem slashValidator_scoped_shape : Gen.Evidence.slashValidatorScoped = [
  "if committeeScoped := s.IsFeatureEnabled(2); committeeScoped {",
  "  if !slices.Contains(validator.Committees, chainId) {",
  "    return nil",
  "  }",
  "  slashTotal := s.slashTracker.GetTotalSlashPercent(validator.Address, chainId)",
  "  if slashTotal >= p.MaxSlashPerCommittee {",
  "    return nil",
  "  }",
  "  if slashTotal + percent >= p.MaxSlashPerCommittee {",
  "    percent = p.MaxSlashPerCommittee - slashTotal",
  "    for i, id := range newCommittees {",
  "      if id == chainId {",
  "        newCommittees = append(newCommittees[:i], newCommittees[i + 1:]...)",
  "        break",
  "      }",
  "    }",
  "  }",
  "  s.slashTracker.AddSlash(validator.Address, chainId, percent)",
  "}"] := rfl

theorem slashValidator_shape : Gen.Evidence.slashValidator = [
  "newCommittees := slices.Clone(validator.Committees)",
  "if committeeScoped := s.IsFeatureEnabled(2); committeeScoped {",
  "  if !slices.Contains(validator.Committees, chainId) {",
  "    return nil",
  "  }",
  "  slashTotal := s.slashTracker.GetTotalSlashPercent(validator.Address, chainId)",
  "  if slashTotal >= p.MaxSlashPerCommittee {",
  "    return nil",
  "  }",
  "  if slashTotal + percent >= p.MaxSlashPerCommittee {",
  "    percent = p.MaxSlashPerCommittee - slashTotal",
  "    for i, id := range newCommittees {",
  "      if id == chainId {",
  "        newCommittees = append(newCommittees[:i], newCommittees[i + 1:]...)",
  "        break",
  "      }",
  "    }",
  "  }",
  "  s.slashTracker.AddSlash(validator.Address, chainId, percent)",
  "}",
  "addr := crypto.NewAddressFromBytes(validator.Address)",
  "var stakeAfterSlash uint64",
  "switch  { case percent >= 100 || validator.StakedAmount == 0: stakeAfterSlash = 0; case percent == 0: stakeAfterSlash = validator.StakedAmount; default: stakeAfterSlash = lib.SafeMulDiv(validator.StakedAmount, 100 - percent, 100) }",
  "slashAmount := validator.StakedAmount - stakeAfterSlash",
  "if err = s.SubFromTotalSupply(slashAmount); err != nil {",
  "  return err",
  "}",
  "if stakeAfterSlash == 0 {",
  "  if err = s.EventSlash(validator.Address, slashAmount); err != nil {",
  "    return err",
  "  }",
  "  if validator.UnstakingHeight != 0 {",
  "    if err = s.Delete(KeyForUnstaking(validator.UnstakingHeight, addr)); err != nil {",
  "      return err",
  "    }",
  "  }",
  "  if validator.MaxPausedHeight != 0 {",
  "    if err = s.Delete(KeyForPaused(validator.MaxPausedHeight, addr)); err != nil {",
  "      return err",
  "    }",
  "  }",
  "  return s.DeleteValidator(validator)",
  "}",
  "if err = s.SubFromStakedSupply(slashAmount); err != nil {",
  "  return err",
  "}",
  "if validator.Delegate {",
  "  if err = s.SubFromDelegateSupply(slashAmount); err != nil {",
  "    return err",
  "  }",
  "  if err = s.UpdateDelegations(addr, validator, stakeAfterSlash, newCommittees); err != nil {",
  "    return err",
  "  }",
  "} else if err = s.UpdateCommittees(addr, validator, stakeAfterSlash, newCommittees); err != nil { return err }",
  "validator.Committees = newCommittees",
  "validator.StakedAmount = stakeAfterSlash",
  "if isSet, e := s.SetValidatorUnstakingIfBelowMinimum(validator, p); isSet || e != nil {",
  "  return e",
  "}",
  "if err = s.SetValidator(validator); err != nil {",
  "  return err",
  "}",
  "return s.EventSlash(validator.Address, slashAmount)"] := rfl

theorem ledger_helpers_shape :
    Gen.Evidence.slashValidators = [
      "for _, addr := range addresses {",
      "  validator, err := s.GetValidator(crypto.NewAddressFromBytes(addr))",
      "  if err != nil {",
      "    continue",
      "  }",
      "  if err = s.SlashValidator(validator, chainId, percent, p); err != nil {",
      "    return err",
      "  }",
      "}",
      "return nil"] ∧
    Gen.Evidence.slashDoubleSigners = ["return s.SlashValidators(doubleSignerAddrs, chainId, params.DoubleSignSlashPercentage, params)"] ∧
    Gen.Evidence.trackerAddSlash = ["(*s)[s.toKey(address)][chainId] += percent"] ∧
    Gen.Evidence.trackerGetTotal = ["return (*s)[s.toKey(address)][chainId]"] ∧
    Gen.Evidence.indexerIsValidDoubleSigner = [
      "bz, err := t.db.Get(t.doubleSignerHeightKey(address, height))",
      "if err != nil {",
      "  return false, err",
      "}",
      "return !bytes.Equal(bz, doubleSignerPrefix), nil"] ∧
    Gen.Evidence.indexerIndexDoubleSigner = ["return t.indexDoubleSignerByHeight(address, height)"] ∧
    Gen.Evidence.indexerIndexByHeight = ["return t.db.Set(t.doubleSignerHeightKey(address, height), doubleSignerPrefix)"] ∧
    Gen.Evidence.addHeight = ["if slices.Contains(x.Heights, height) {", "  return", "}", "x.Heights = append(x.Heights, height)"] ∧
    Gen.Evidence.fsmReset = ["s.slashTracker = NewSlashTracker()", "s.ResetCaches()", "s.store.(lib.StoreI).Reset()"] ∧
    Gen.Evidence.phasePropose = 3 ∧ Gen.Evidence.phaseElectionVote = 2 :=
  ⟨rfl, rfl, rfl, rfl, rfl, rfl, rfl, rfl, rfl, rfl, rfl⟩

theorem addDSE_shape : Gen.Evidence.addDSE = [
  "if err = ev.CheckBasic(); err != nil {",
  "  return",
  "}",
  "ev.VoteA.Block, ev.VoteA.Results = nil, nil",
  "ev.VoteB.Block, ev.VoteB.Results = nil, nil",
  "badSigners, err := b.ProcessDSE(ev)",
  "if err != nil {",
  "  return err",
  "}",
  "if len(badSigners) == 0 {",
  "  return lib.ErrInvalidEvidence()",
  "}",
  "if e.DeDuplicator == nil {",
  "  e.DeDuplicator = make(<*ast.MapType>)",
  "}",
  "bz, _ := lib.Marshal(ev)",
  "key1 := lib.BytesToString(bz)",
  "if _, isDuplicate := e.DeDuplicator[key1]; isDuplicate {",
  "  return",
  "}",
  "e.Evidence = append(e.Evidence, ev)",
  "e.DeDuplicator[key1] = true",
  "return"] := rfl

theorem minEvidenceHeight_shape :
    Gen.Evidence.loadMinimumEvidenceHeight = [
      "historicalFSM, err := s.TimeMachine(s.Height())",
      "if err != nil {",
      "  return 0, err",
      "}",
      "defer historicalFSM.Discard()",
      "valParams, err := historicalFSM.GetParamsVal()",
      "if err != nil {",
      "  return 0, err",
      "}",
      "height, unstakingBlocks := historicalFSM.Height(), valParams.GetUnstakingBlocks()",
      "if height < unstakingBlocks {",
      "  return 0, nil",
      "}",
      "return height - unstakingBlocks, nil"] ∧
    Gen.Evidence.src_safeMulDiv = "if c == 0 { return 0 }; bigA := new(big.Int).SetUint64(a); bigB := new(big.Int).SetUint64(b); bigC := new(big.Int).SetUint64(c); num := new(big.Int).Mul(bigA, bigB); res := new(big.Int).Div(num, bigC); return res.Uint64()" :=
  ⟨rfl, rfl⟩

/-- the generated view equality is equality of all six fields -/
theorem viewEquals_iff (x v : View) : viewEquals (some x) (some v) = true ↔ x = v :=
  ⟨viewEquals_eq, fun h => h ▸ viewEquals_refl x⟩

end Canopy.C14
